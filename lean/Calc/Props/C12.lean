/-
  Calc.Props.C12 — Bindings are independent of one another.

  The table is an association list looked up by first match (`Env.get`); a statement touches
  only the entry of the name it is about.  Function values are stored by value, so a copy made
  by an assignment is a separate binding like any other.
-/
import Calc.Model.Stmt
import Calc.Proofs.EnvLemmas
import Calc.Proofs.EvalPure
import Calc.Proofs.EnvStep
namespace Calc

variable {S : Type} [Add S] [Sub S] [Mul S] [Div S] [Zero S] [One S] [Kernel S]

/-- the name a statement assigns, defines or deletes; `none` for an expression statement and for
    `clear` -/
def Stmt.target : Stmt S → Option Str
  | .expr _ => none
  | .deleteVar name => some name.lexeme
  | .deleteSig name _ => some name.lexeme
  | .assign name _ => some name.lexeme
  | .define name _ _ => some name.lexeme
  | .clear => none

/-- C12, frame: a statement other than `clear` leaves the binding (or absence of a binding) of
    every name other than its target exactly as it was.  For an expression statement (no target)
    that is every name. -/
theorem C12_frame (fuel : Nat) (env : Env S) (s : Stmt S) (hs : s ≠ .clear) (k : Str)
    (hk : some k ≠ s.target) :
    Env.get (step fuel env s).env k = Env.get env k := by
  cases s with
  | expr e => rw [step_expr_env]
  | deleteVar name => exact step_deleteVar_frame fuel env name (fun h => hk (by rw [h]; rfl))
  | deleteSig name sig =>
    exact step_deleteSig_frame fuel env name sig (fun h => hk (by rw [h]; rfl))
  | assign name e => exact step_assign_frame fuel env name e (fun h => hk (by rw [h]; rfl))
  | define name sig body =>
    exact step_define_frame fuel env name sig body (fun h => hk (by rw [h]; rfl))
  | clear => exact absurd rfl hs

/-- C12, `clear`: when the keys of the table are distinct (they are in every reachable table, see
    `C12_keys_distinct`), `clear` leaves every constant binding as it was and removes every
    non-constant one.  Without distinct keys this equation is false for the first-match lookup
    (see the counterexample below); the two halves that hold for every association list are
    `C12_clear_keeps_constants` and `C12_clear_only_constants`. -/
theorem C12_clear_frame (fuel : Nat) (env : Env S) (nd : (env.map Prod.fst).Nodup) (k : Str) :
    Env.get (step fuel env .clear).env k = (Env.get env k).filter (fun v => v.constant) :=
  Env.get_retainConstants nd k

/-- C12, `clear`, no assumption on the table: a visible constant binding is kept as it is. -/
theorem C12_clear_keeps_constants (fuel : Nat) (env : Env S) (k : Str) (v : Variable S)
    (h : Env.get env k = some v) (hc : v.constant = true) :
    Env.get (step fuel env .clear).env k = some v :=
  Env.get_retainConstants_of_constant h hc

/-- C12, `clear`, no assumption on the table: every binding visible afterwards is constant. -/
theorem C12_clear_only_constants (fuel : Nat) (env : Env S) (k : Str) (v : Variable S)
    (h : Env.get (step fuel env .clear).env k = some v) : v.constant = true :=
  Env.constant_of_get_retainConstants h

/-- C12, the side condition of `C12_clear_frame` holds along every run: statements keep the keys
    of the table distinct. -/
theorem C12_keys_distinct (fuel : Nat) (env : Env S) (ss : List (Stmt S))
    (nd : (env.map Prod.fst).Nodup) : ((runStmts fuel env ss).env.map Prod.fst).Nodup :=
  runStmts_keys_nodup fuel ss env nd

/-- C12, copies are independent: after `h = f`, where `f` is bound to a user function, adding a
    signature to `h` or deleting one from `h` leaves the binding of `f` exactly as it was. -/
theorem C12_copy_independent (fuel : Nat) (env : Env S) (h f : Tok S) (fn : UserFn S) (c : Bool)
    (sig : Sig S) (body : Expr S) (hne : h.lexeme ≠ f.lexeme)
    (hf : Env.get env f.lexeme = some ⟨.user fn, c⟩) :
    Env.get (step fuel (step fuel env (.assign h (.ident f))).env (.define h sig body)).env
        f.lexeme = some ⟨.user fn, c⟩ ∧
    Env.get (step fuel (step fuel env (.assign h (.ident f))).env (.deleteSig h sig)).env
        f.lexeme = some ⟨.user fn, c⟩ := by
  have hk : ∀ s : Stmt S, s.target = some h.lexeme → some f.lexeme ≠ s.target := by
    intro s hs e
    rw [hs] at e
    exact hne (Option.some.inj e).symm
  constructor
  · rw [C12_frame fuel _ (.define h sig body) (by intro e; cases e) f.lexeme (hk _ rfl),
      C12_frame fuel _ (.assign h (.ident f)) (by intro e; cases e) f.lexeme (hk _ rfl), hf]
  · rw [C12_frame fuel _ (.deleteSig h sig) (by intro e; cases e) f.lexeme (hk _ rfl),
      C12_frame fuel _ (.assign h (.ident f)) (by intro e; cases e) f.lexeme (hk _ rfl), hf]

/-- C12, the copy in `C12_copy_independent` really is made: with fuel for one lookup and `h` not
    bound to a constant, `h = f` is silent and binds `h` to the same function value. -/
theorem C12_copy_made (fuel : Nat) (env : Env S) (h f : Tok S) (fn : UserFn S) (c : Bool)
    (hf : Env.get env f.lexeme = some ⟨.user fn, c⟩)
    (hh : ∀ w, Env.get env h.lexeme = some w → w.constant = false) :
    step (fuel + 1) env (.assign h (.ident f)) =
      ⟨Env.insert env h.lexeme ⟨.user fn, false⟩, []⟩ := by
  simp only [step]
  split
  · next v hg => have := hh _ hg; cases this
  · simp only [eval, lookupIdent, hf]

/-! ### the hypotheses are satisfiable; the side condition of `C12_clear_frame` is needed -/

section Example
variable (a b : S)

/-- `C12_frame`: the side conditions hold for, e.g., `delete x` and the name `y`. -/
example (t : Tok S) (ht : t.lexeme = "x".toList) :
    (Stmt.deleteVar t ≠ .clear) ∧ some "y".toList ≠ (Stmt.deleteVar t).target := by
  refine ⟨(by intro e; cases e), ?_⟩
  simp [Stmt.target, ht]

/-- `C12_copy_independent` / `C12_copy_made`: a table in which `f` is a user function and `h`
    is unbound. -/
example (h f : Tok S) (hh : h.lexeme = "h".toList) (hf : f.lexeme = "f".toList) (fn : UserFn S) :
    h.lexeme ≠ f.lexeme ∧
    Env.get ([("f".toList, ⟨.user fn, false⟩)] : Env S) f.lexeme = some ⟨.user fn, false⟩ ∧
    ∀ w, Env.get ([("f".toList, ⟨.user fn, false⟩)] : Env S) h.lexeme = some w →
      w.constant = false := by
  rw [hh, hf]
  refine ⟨(by decide), rfl, ?_⟩
  intro w hw
  simp [Env.get] at hw

/-- Counterexample to `C12_clear_frame` without distinct keys: in the (unreachable) table
    `[x ↦ a (non-constant), x ↦ b (constant)]` the visible binding of `x` is non-constant, so the
    right-hand side is `none`, but `clear` uncovers the hidden constant entry. -/
example :
    let env : Env S := [("x".toList, ⟨.number a, false⟩), ("x".toList, ⟨.number b, true⟩)]
    Env.get (step 0 env .clear).env "x".toList = some ⟨.number b, true⟩ ∧
    (Env.get env "x".toList).filter (fun v => v.constant) = none := by
  exact ⟨rfl, rfl⟩

end Example

end Calc
