/-
  Property C18, with the hypothesis `Expr.TreeOK` DISCHARGED for bodies that were read from a
  successful scan, and the round trip strengthened to the lexemes of identifiers.

  "… the body, when read again by the calculator, has the same tokens as the body that was defined."

  `C18_reparse` (Calc/Props/C18Parse.lean) assumes `e.TreeOK cfg`: the lexemes stored in the tree
  are what the scanner makes of them.  Here:

    * `C18_scanned_tokens_wf` — scanner invariant: every token of a successful scan is well formed
      (`Tok.WF`: one single-character token character; or a word, whose kind is the table's kind of
      its whole text, else the identifier named by its whole text; or a digit-initial text the
      float reader accepts, with the value read).  `C18_scanned_token_by_kind` spells out the
      consequences per kind when the table yields keyword kinds only.
    * `C18_parsed_tree_ok` — hence `Expr.TreeOK` holds of every matrix-free tree the grammar reads
      from tokens of a successful scan, under the explicit residual hypotheses `TableOK cfg` (on
      the keyword table) and `LitOK z` (every number literal of the phrase prints as a literal of
      its value).
    * `C18_reparse_unconditional` — `C18_reparse` with `TreeOK` replaced by "the body was read from
      tokens of a successful scan" and these hypotheses.
    * `C18_reparse_lexemes` — and the tree read back is `Expr.SimLex` to the body: similar, AND
      corresponding identifier tokens have the same lexeme (what evaluation looks names up by);
      this is the only reading.
    * `C18_reparse_defined_body_scanned` — the same for the body of an accepted
      `name(params) = body` statement whose tokens came from a successful scan.

  Vocabulary: `Tok.WF`, `KwKinds` in Calc/Proofs/ScanTokWF.lean; `LitOK`, `Tok.PrintOK`, `TableOK`,
  `Expr.IdentsNamed`, `Expr.SimLex` in Calc/Proofs/ReparseTreeOK.lean.  Property theorems only.
-/
import Calc.Props.C18Parse
import Calc.Proofs.ScanTokWF
import Calc.Proofs.ReparseTreeOK
namespace Calc.Props.C18Scan
open Calc

variable {S : Type} [Kernel S]

/-! ### the scanner invariant -/

/-- **C18 (scanned tokens are well formed).** Every token of a successful scan is: a token made of
    one single-character token character `c`, of the kind of `c`, with text `c` (`\n` in two
    characters for the newline); or a word — first character an identifier-start character, all
    characters identifier-continue characters — whose kind is the keyword table's kind of the
    whole text, else `.ident` of the whole text; or a digit-initial text that the float reader
    accepts as the decimal `d`, of kind `.number (ofDecimal d)`.  No hypothesis on `cfg`. -/
theorem C18_scanned_tokens_wf (cfg : ScanCfg S) (text : Str) (ts : List (Tok S))
    (h : scan cfg text = .ok ts) : ∀ t ∈ ts, Tok.WF cfg t :=
  scan_all_wf h

/-- … in the declarative form: every token of a `Scanned` text is well formed. -/
theorem C18_scanned_tokens_wf_decl (cfg : ScanCfg S) (p : Pos) (text : Str) (ts : List (Tok S))
    (h : Scanned cfg p text ts) : ∀ t ∈ ts, Tok.WF cfg t :=
  h.all_wf

/-- **C18 (well-formed tokens, by kind).** When the keyword table yields keyword kinds only
    (`KwKinds`: `delete`, `clear`, `as`, `dot`, `cross`, units), a well-formed token `t`:
    of kind `.ident n` has the text `n`, which is a word and no keyword; of kind `.number z` has
    a text the float reader accepts, with value `z`; of kind `.unit u` / `.as_` is a word the table
    reads as that; with the tag of an operator other than `dot`/`cross` is one operator character
    (`OpTok`), and with the tag of `dot`/`cross` is that or a word read as that operator. -/
theorem C18_scanned_token_by_kind (cfg : ScanCfg S) (hk : KwKinds cfg) (t : Tok S)
    (h : Tok.WF cfg t) :
    (∀ n, t.kind = .ident n →
      t.lexeme = n ∧ cfg.keyword n = none ∧ WordLex cfg n (.ident n)) ∧
    (∀ z, t.kind = .number z →
      ∃ d, parseDecimal t.lexeme = some d ∧ z = Kernel.ofDecimal d.mant d.exp) ∧
    (∀ u, t.kind = .unit u → cfg.keyword t.lexeme = some (.unit u)) ∧
    (t.kind = .as_ → cfg.keyword t.lexeme = some .as_) ∧
    (isOpTag t.tag = true → isWordOp t.tag = false → OpTok t) ∧
    (isOpTag t.tag = true → OpTok t ∨ WordLex cfg t.lexeme t.kind) := by
  refine ⟨fun n hn => ?_, fun _ hz => h.number_value hk hz, fun _ hu => h.unit_keyword hu,
    h.as_keyword, h.opTok hk, h.op_or_word⟩
  obtain ⟨h1, h2⟩ := h.ident_name hk hn
  have h3 := h.wordLex_of_ident hn
  rw [hn, h1] at h3
  rw [h1] at h2
  exact ⟨h1, h2, h3⟩

/-! ### `TreeOK` holds of parsed trees -/

/-- **C18 (`TreeOK` holds).** Let `ts` be the tokens of a successful scan, `c` a phrase made of
    tokens of `ts` that the grammar reads, at any level, as the matrix-free tree `e`.  If the
    keyword table satisfies `TableOK` and every number token of `c` carries a value that prints as
    a literal of that value (`LitOK`), then `e.TreeOK cfg`: the hypothesis of `C18_roundtrip` and
    `C18_reparse` holds. -/
theorem C18_parsed_tree_ok (cfg : ScanCfg S) (ht : TableOK cfg) (text : Str) (ts : List (Tok S))
    (hs : scan cfg text = .ok ts) (l : Level) (c : List (Tok S)) (e : Expr S)
    (hd : Derives l c e) (hsub : ∀ t ∈ c, t ∈ ts) (hm : e.NoMatrix)
    (hlit : ∀ t ∈ c, ∀ z, t.kind = .number z → LitOK z) : e.TreeOK cfg :=
  hd.treeOK ht.kinds
    (fun t htc => (scan_all_wf hs t (hsub t htc)).printOK ht (hlit t htc)) hm

/-- … stated on well-formed tokens directly, with the hypotheses on units and `as` restricted to
    the tokens of the phrase (`Tok.PrintOK`: so a table that cannot read the yard's symbol back is
    admissible for a body without yards). -/
theorem C18_parsed_tree_ok_tokens (cfg : ScanCfg S) (hk : KwKinds cfg) (l : Level)
    (c : List (Tok S)) (e : Expr S) (hd : Derives l c e) (hc : ∀ t ∈ c, Tok.PrintOK cfg t)
    (hm : e.NoMatrix) : e.TreeOK cfg :=
  hd.treeOK hk hc hm

/-- **C18 (identifier names are their lexemes).** In a tree read from tokens of a successful scan
    (matrix literals included), every identifier node holds a token of kind `.ident` of its own
    lexeme, when the table yields keyword kinds only. -/
theorem C18_parsed_idents_named (cfg : ScanCfg S) (hk : KwKinds cfg) (text : Str)
    (ts : List (Tok S)) (hs : scan cfg text = .ok ts) (l : Level) (c : List (Tok S)) (e : Expr S)
    (hd : Derives l c e) (hsub : ∀ t ∈ c, t ∈ ts) : e.IdentsNamed :=
  hd.identsNamed (fun t htc => (scan_all_wf hs t (hsub t htc)).named hk)

/-! ### the round trip without `TreeOK` -/

/-- **C18 (round trip, parse level, from a scan).** For a scanner whose alphanumeric class
    contains neither an operator character nor the blank and whose keyword table satisfies
    `TableOK`: if the body `e`, matrix-free, was read by the grammar from a phrase `c` of tokens of
    a successful scan, and every number token of `c` prints as a literal of its value, then
    scanning the printed body succeeds and the grammar reads the resulting tokens, as an
    expression, as a tree similar to `e`. -/
theorem C18_reparse_unconditional (cfg : ScanCfg S) (hop : ∀ c ∈ opChars, cfg.isAlnum c = false)
    (hblank : cfg.isAlnum ' ' = false) (ht : TableOK cfg) (text : Str) (ts : List (Tok S))
    (hs : scan cfg text = .ok ts) (c : List (Tok S)) (e : Expr S) (hd : Derives .expr c e)
    (hsub : ∀ t ∈ c, t ∈ ts) (hm : e.NoMatrix)
    (hlit : ∀ t ∈ c, ∀ z, t.kind = .number z → LitOK z) :
    ∃ toks e', scan cfg (showExpr e) = .ok toks ∧ Derives .expr toks e' ∧ Expr.Sim e e' :=
  C18Parse.C18_reparse cfg hop hblank c e hd hm
    (C18_parsed_tree_ok cfg ht text ts hs .expr c e hd hsub hm hlit)

omit [Kernel S] in
/-- `Expr.SimLex` is `Expr.Sim` plus: corresponding identifier nodes hold tokens with the same
    lexeme. -/
theorem C18_simLex_meaning (e e' : Expr S) (h : Expr.SimLex e e') :
    Expr.Sim e e' ∧ ∀ t, e = .ident t → ∃ t', e' = .ident t' ∧ t.kind = t'.kind ∧
      t.lexeme = t'.lexeme := by
  refine ⟨h.sim, fun t he => ?_⟩
  subst he
  cases h with
  | ident hk hl => exact ⟨_, rfl, hk, hl⟩

/-- **C18 (round trip, lexemes of identifiers).** Under the hypotheses of
    `C18_reparse_unconditional`, the tree `e'` read from the tokens of the printed body is
    `Expr.SimLex` to the body `e`: same shape, numbers, units, grouping kinds, stored tokens of
    equal kinds, and every identifier token of `e'` has the same LEXEME as the corresponding one of
    `e` (evaluation looks a name up by `name.lexeme`); and every tree the grammar reads from these
    tokens is. -/
theorem C18_reparse_lexemes (cfg : ScanCfg S) (hop : ∀ c ∈ opChars, cfg.isAlnum c = false)
    (hblank : cfg.isAlnum ' ' = false) (ht : TableOK cfg) (text : Str) (ts : List (Tok S))
    (hs : scan cfg text = .ok ts) (c : List (Tok S)) (e : Expr S) (hd : Derives .expr c e)
    (hsub : ∀ t ∈ c, t ∈ ts) (hm : e.NoMatrix)
    (hlit : ∀ t ∈ c, ∀ z, t.kind = .number z → LitOK z) :
    ∃ toks e', scan cfg (showExpr e) = .ok toks ∧ Derives .expr toks e' ∧ Expr.SimLex e e' ∧
      ∀ e'', Derives .expr toks e'' → Expr.SimLex e e'' := by
  have hok := C18_parsed_tree_ok cfg ht text ts hs .expr c e hd hsub hm hlit
  obtain ⟨toks, e', h1, d, s⟩ := C18Parse.C18_reparse cfg hop hblank c e hd hm hok
  have hn := C18_parsed_idents_named cfg ht.kinds text ts hs .expr c e hd hsub
  refine ⟨toks, e', h1, d, s.simLex hn ?_, fun e'' d'' => ?_⟩
  · exact C18_parsed_idents_named cfg ht.kinds _ toks h1 .expr toks e' d (fun _ h => h)
  · exact (C18Parse.C18_reparse_unique cfg hop hblank c e hd hm hok toks h1 e'' d'').simLex hn
      (C18_parsed_idents_named cfg ht.kinds _ toks h1 .expr toks e'' d'' (fun _ h => h))

/-- **C18 (the body of a defined function, from a scan).** If `text` scans to `ts`, and
    `statement` accepts `ts` (or any list of tokens of `ts`) as a function definition
    `name(params) = body` with a matrix-free body whose number literals print as literals of their
    values, then scanning the printed body — the part of the listing entry after `= ` — succeeds;
    in front of a statement delimiter, `expression` reads the resulting tokens as a tree
    `Expr.SimLex` to the body that was defined; and every tree the grammar reads from these tokens
    is `Expr.SimLex` to it. -/
theorem C18_reparse_defined_body_scanned (cfg : ScanCfg S)
    (hop : ∀ c ∈ opChars, cfg.isAlnum c = false) (hblank : cfg.isAlnum ' ' = false)
    (ht : TableOK cfg) (text : Str) (ts : List (Tok S)) (hs : scan cfg text = .ok ts)
    (f₀ : Nat) (ts₀ r₀ : List (Tok S)) (hsub : ∀ t ∈ ts₀, t ∈ ts) (name : Tok S) (sig : Sig S)
    (body : Expr S) (hp : pStatement f₀ ts₀ = .ok (.define name sig body) r₀)
    (hm : body.NoMatrix) (hlit : ∀ t ∈ ts₀, ∀ z, t.kind = .number z → LitOK z) :
    ∃ toks body', scan cfg (showExpr body) = .ok toks ∧ Expr.SimLex body body' ∧
      (∀ f (d : Tok S) r, d.isDelim → 10 + 13 * (toks ++ d :: r).length ≤ f →
        pExpression f (toks ++ d :: r) = .ok body' (d :: r)) ∧
      (∀ e'', Derives .expr toks e'' → Expr.SimLex body e'') := by
  obtain ⟨c, d, hts, _, ds⟩ := C03_stmt_shapes f₀ ts₀ _ r₀ hp
  cases ds with
  | @define _ _ _ c₁ c₂ _ _ _ _ _ _ hb =>
    have hmem : ∀ t ∈ c₂, t ∈ ts₀ := fun t h => by rw [hts]; simp [h]
    obtain ⟨toks, body', h1, db, s, hu⟩ := C18_reparse_lexemes cfg hop hblank ht text ts hs c₂
      body hb (fun t h => hsub t (hmem t h)) hm (fun t h => hlit t (hmem t h))
    refine ⟨toks, body', h1, s, ?_, hu⟩
    intro f d r hd hf
    refine C03_complete_expression_fuel toks body' db f (d :: r) (Stop_cons.mpr ?_)
      (NoGlue_cons ?_) hf
    · rcases hd with hd | hd <;> simp [hd, stopSet]
    · rcases hd with hd | hd <;> simp [hd]

/-! ### the hypotheses are satisfiable -/

/-- the hypotheses of `C18_reparse_lexemes` hold of the scan of `-(a+2)!` and of the tree the
    grammar reads from it, when `a` is alphanumeric, the table is empty, and the literal `2` prints
    as `2` and is real; so the conclusion holds of it -/
example (cfg : ScanCfg S) (hop : ∀ c ∈ opChars, cfg.isAlnum c = false)
    (hblank : cfg.isAlnum ' ' = false) (ha : cfg.isAlnum 'a' = true)
    (hkw : ∀ w, cfg.keyword w = none)
    (h2 : complexToString (Kernel.ofDecimal 2 0 : S) = ['2'])
    (h2i : Kernel.imIsZero (Kernel.ofDecimal 2 0 : S) = true) :
    ∃ ts e, scan cfg "-(a+2)!".toList = .ok ts ∧ Derives .expr ts e ∧ e.NoMatrix ∧ TableOK cfg ∧
      (∀ t ∈ ts, Tok.WF cfg t) ∧ (∀ t ∈ ts, ∀ z, t.kind = .number z → LitOK z) ∧ e.TreeOK cfg ∧
      ∃ toks e', scan cfg (showExpr e) = .ok toks ∧ Derives .expr toks e' ∧ Expr.SimLex e e' := by
  let minus : Tok S := ⟨.minus, ['-'], 1, 1⟩
  let plus : Tok S := ⟨.plus, ['+'], 1, 4⟩
  let bang : Tok S := ⟨.bang, ['!'], 1, 7⟩
  let lp : Tok S := ⟨.lparen, ['('], 1, 2⟩
  let rp : Tok S := ⟨.rparen, [')'], 1, 6⟩
  let a : Tok S := ⟨.ident ['a'], ['a'], 1, 3⟩
  let two : Tok S := ⟨.number (Kernel.ofDecimal 2 0), ['2'], 1, 5⟩
  let e0 : Expr S := .unary minus (.unary bang (.grouping lp .grouping
    (.binary (.ident a) plus (.number (Kernel.ofDecimal 2 0)))))
  have hparse : pExpression 40 [minus, lp, a, plus, two, rp, bang] = .ok e0 [] := rfl
  have hNM : e0.NoMatrix := by simp [e0, Expr.NoMatrix]
  have hlit2 : LitOK (Kernel.ofDecimal 2 0 : S) :=
    ⟨by rw [h2]; exact numLit_digits ['2'] (by decide) (by decide), by simp [h2i]⟩
  have hOK : e0.TreeOK cfg := by
    simp only [e0, Expr.TreeOK]
    refine ⟨⟨'-', rfl, by decide, by simp [singleKind, minus]⟩,
      ⟨'!', rfl, by decide, by simp [singleKind, bang]⟩, ?_, ?_, hlit2.1⟩
    · show OpTok plus
      exact ⟨'+', rfl, by decide, by simp [singleKind, plus]⟩
    · refine ⟨⟨'a', [], rfl, by decide⟩, ?_, ?_⟩
      · intro d hd; simp only [a, List.mem_singleton] at hd; subst hd; simp [isIdentCont, ha]
      · simp [wordKindOf, a, hkw]
  have hshow : showExpr e0 = "-(a+2)!".toList := by
    simp [e0, minus, plus, bang, a, showExpr, Tok.tag, Kind.tag, h2]
  obtain ⟨c, hc, hd⟩ := C03_sound_expression 40 _ e0 [] hparse
  rw [List.append_nil] at hc
  subst hc
  obtain ⟨ts, h1, hkinds⟩ := C18Parse.C18_reparse_kinds cfg hop hblank _ e0 hd hNM hOK
  rw [hshow] at h1
  obtain ⟨e, d, s⟩ := hd.of_kinds hkinds.symm
  have hT : TableOK cfg :=
    ⟨fun w k h => (by rw [hkw] at h; cases h), fun w u h => (by rw [hkw] at h; cases h),
      fun w h => (by rw [hkw] at h; cases h)⟩
  have hlit : ∀ t ∈ ts, ∀ z, t.kind = .number z → LitOK z := by
    intro t ht z hz
    have hm : t.kind ∈ ts.map (·.kind) := List.mem_map_of_mem ht
    rw [hkinds, hz] at hm
    simp only [minus, plus, bang, lp, rp, a, two, List.map_cons, List.map_nil, List.mem_cons,
      List.not_mem_nil, or_false] at hm
    rcases hm with h | h | h | h | h | h | h <;> cases h
    exact hlit2
  have hm := s.noMatrix hNM
  exact ⟨ts, e, h1, d, hm, hT, C18_scanned_tokens_wf cfg _ ts h1, hlit,
    C18_parsed_tree_ok cfg hT _ ts h1 .expr ts e d (fun _ h => h) hm hlit,
    let ⟨toks, e', x1, x2, x3, _⟩ := C18_reparse_lexemes cfg hop hblank hT _ ts h1 ts e d
      (fun _ h => h) hm hlit
    ⟨toks, e', x1, x2, x3⟩⟩

end Calc.Props.C18Scan
