/-
  Calc.Proofs.BlameStmt — where the diagnostics of statements point (C14), and that the
  statement loop goes on after a failure.  Core Lean only.
-/
import Calc.Model.Stmt
import Calc.Proofs.EvalPure
import Calc.Proofs.EnvStep
namespace Calc
variable {S : Type} [Add S] [Sub S] [Mul S] [Div S] [Zero S] [One S] [Kernel S]
set_option linter.unusedSectionVars false

theorem mem_errOut {env : Env S} {k : EvalErrKind} {t : Tok S} {info : Str} {d : Diag}
    (h : Line.evalErr d ∈ (errOut env k t info).out) : d = ⟨k, t.line, t.col, info⟩ := by
  simp only [errOut, List.mem_singleton] at h
  cases h; rfl

theorem mem_resLine {r : Res (Value S)} {d : Diag} (h : Line.evalErr d ∈ resLine r) :
    r = .diag d := by
  cases r <;> simp only [resLine, List.mem_singleton] at h <;> cases h
  rfl

theorem step_expr_blame (fuel : Nat) (env : Env S) (e : Expr S) (d : Diag)
    (h : Line.evalErr d ∈ (step fuel env (.expr e)).out) : (eval fuel e env).res = .diag d := by
  simp only [step] at h
  exact mem_resLine h

theorem step_deleteVar_blame (fuel : Nat) (env : Env S) (name : Tok S) (d : Diag)
    (h : Line.evalErr d ∈ (step fuel env (.deleteVar name)).out) :
    d.line = name.line ∧ d.col = name.col ∧
      (d.kind = .constantDeletion ∨ d.kind = .unknownVariable) := by
  simp only [step] at h
  repeat' split at h
  all_goals first
    | (have := mem_errOut h; subst this; simp)
    | (simp at h; done)

theorem step_deleteSig_blame (fuel : Nat) (env : Env S) (name : Tok S) (sig : Sig S) (d : Diag)
    (h : Line.evalErr d ∈ (step fuel env (.deleteSig name sig)).out) :
    d.line = name.line ∧ d.col = name.col ∧
      (d.kind = .constantDeletion ∨ d.kind = .unknownVariable ∨ d.kind = .cantDeleteSignature ∨
       d.kind = .noMatchingSignature ∨ d.kind = .invalidCallable) := by
  simp only [step] at h
  repeat' split at h
  all_goals first
    | (have := mem_errOut h; subst this; simp)
    | (simp at h; done)

theorem step_define_blame (fuel : Nat) (env : Env S) (name : Tok S) (sig : Sig S)
    (body : Expr S) (d : Diag)
    (h : Line.evalErr d ∈ (step fuel env (.define name sig body)).out) :
    d.line = name.line ∧ d.col = name.col ∧
      (d.kind = .constantAssignment ∨ d.kind = .cantAddSignature) := by
  simp only [step] at h
  repeat' split at h
  all_goals first
    | (have := mem_errOut h; subst this; simp)
    | (simp at h; done)

/-- an assignment reports either its own refusal (at the name) or the failure of its right side -/
theorem step_assign_blame (fuel : Nat) (env : Env S) (name : Tok S) (e : Expr S) (d : Diag)
    (h : Line.evalErr d ∈ (step fuel env (.assign name e)).out) :
    (d.line = name.line ∧ d.col = name.col ∧ d.kind = .constantAssignment ∧
      ∃ v, Env.get env name.lexeme = some ⟨v, true⟩) ∨
    ((eval fuel e env).res = .diag d) := by
  simp only [step] at h
  split at h
  · next v hg =>
    have := mem_errOut h; subst this
    exact .inl ⟨rfl, rfl, rfl, v, hg⟩
  · split at h
    · simp at h
    · exact .inr (mem_resLine h)

theorem step_clear_silent (fuel : Nat) (env : Env S) : (step fuel env .clear).out = [] := rfl

/-- the statement loop: the output of `s :: ss` is the output of `s` followed by the output of
    `ss` run from the table `s` leaves -/
theorem runStmts_cons (fuel : Nat) (env : Env S) (s : Stmt S) (ss : List (Stmt S)) :
    (runStmts fuel env (s :: ss)).out =
      (step fuel env s).out ++ (runStmts fuel (step fuel env s).env ss).out := rfl

theorem runStmts_cons_env (fuel : Nat) (env : Env S) (s : Stmt S) (ss : List (Stmt S)) :
    (runStmts fuel env (s :: ss)).env = (runStmts fuel (step fuel env s).env ss).env := rfl

theorem runStmts_append (fuel : Nat) (ss ts : List (Stmt S)) : ∀ env : Env S,
    (runStmts fuel env (ss ++ ts)).out =
      (runStmts fuel env ss).out ++ (runStmts fuel (runStmts fuel env ss).env ts).out := by
  induction ss with
  | nil => intro env; rfl
  | cons s ss ih =>
    intro env
    simp only [List.cons_append, runStmts, ih, List.append_assoc]

end Calc
