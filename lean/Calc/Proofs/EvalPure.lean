/-
  Calc.Proofs.EvalPure — the evaluator hands back the table it was given (used by C11, C10, C09, C12).
  Core Lean only.
-/
import Calc.Model.Eval
namespace Calc

variable {S : Type} [Add S] [Sub S] [Mul S] [Div S] [Zero S] [One S] [Kernel S]

omit [Add S] [Sub S] [Mul S] [Div S] [Zero S] [One S] [Kernel S] in
theorem evalList_env (ev : Evaluator S) (h : ∀ e env, (ev e env).env = env) :
    ∀ es env, (evalList ev es env).2 = env := by
  intro es
  induction es with
  | nil => intro env; rfl
  | cons e es ih =>
    intro env
    unfold evalList
    simp only
    split
    · rw [h]
      have := ih env
      split <;> simp_all
    · exact h _ _
    · exact h _ _
    · exact h _ _

omit [Add S] [Sub S] [Mul S] [Div S] [Zero S] [One S] [Kernel S] in
theorem evalRow_env (ev : Evaluator S) (h : ∀ e env, (ev e env).env = env) (br : Tok S)
    (rowIdx : Nat) : ∀ es colIdx env, (evalRow ev br rowIdx colIdx es env).2 = env := by
  intro es
  induction es with
  | nil => intro c env; rfl
  | cons e es ih =>
    intro c env
    unfold evalRow
    simp only
    split
    · rw [h]
      have := ih (c + 1) env
      split <;> simp_all
    · exact h _ _
    · exact h _ _
    · exact h _ _
    · exact h _ _

omit [Add S] [Sub S] [Mul S] [Div S] [Zero S] [One S] [Kernel S] in
theorem evalRows_env (ev : Evaluator S) (h : ∀ e env, (ev e env).env = env) (br : Tok S) :
    ∀ rows rowIdx env, (evalRows ev br rowIdx rows env).2 = env := by
  intro rows
  induction rows with
  | nil => intro r env; rfl
  | cons row rows ih =>
    intro r env
    unfold evalRows
    have h1 := evalRow_env ev h br r row 0 env
    have h2 := ih (r + 1) env
    simp only
    split <;> (try split) <;> simp_all

theorem eval_env : ∀ (fuel : Nat) (e : Expr S) (env : Env S), (eval fuel e env).env = env := by
  intro fuel
  induction fuel with
  | zero => intro e env; rfl
  | succ f ih =>
    intro e env
    cases e with
    | number z => rfl
    | measurement z u => rfl
    | ident name => rfl
    | as_ x tok u =>
      simp only [eval]
      split
      · exact ih _ _
      · exact ih _ _
    | unary op x =>
      simp only [eval]
      split
      · exact ih _ _
      · exact ih _ _
    | grouping p k x =>
      simp only [eval]
      split
      · exact ih _ _
      · exact ih _ _
    | binary l op r =>
      simp only [eval]
      split
      · split
        · rw [ih, ih]
        · rw [ih, ih]
      · exact ih _ _
    | matrix br rows =>
      simp only [eval]
      split
      · rfl
      · have := evalRows_env (eval f) ih br
        split <;> simp_all
    | call callee paren args =>
      simp only [eval]
      have hl := evalList_env (eval f) ih args env
      split
      · rw [ih]; split <;> simp_all
      · rw [ih]; split <;> simp_all
      · exact ih _ _
      · exact ih _ _

end Calc
