/-
  Calc.Proofs.PrintComplex — the reader of printed numbers (Calc/Spec/Reader.lean) inverts
  `complexToString`, under the hypothesis `FmtSpec` on the formatter of reals.
-/
import Calc.Model.Print
import Calc.Spec.Reader
namespace Calc
open Calc.Spec

/-! ### list lemmas: splitting at the first blank, the last character -/

theorem takeWhile_dropWhile_append {α} (p : α → Bool) (a : List α) (d : α) (r : List α)
    (h : ∀ c ∈ a, p c = true) (hd : p d = false) :
    (a ++ d :: r).takeWhile p = a ∧ (a ++ d :: r).dropWhile p = d :: r := by
  induction a with
  | nil => simp [hd]
  | cons c cs ih =>
    have := ih (fun x hx => h x (by simp [hx]))
    simp [h c (by simp), this]

theorem takeWhile_dropWhile_all {α} (p : α → Bool) (a : List α) (h : ∀ c ∈ a, p c = true) :
    a.takeWhile p = a ∧ a.dropWhile p = [] := by
  induction a with
  | nil => simp
  | cons c cs ih =>
    have := ih (fun x hx => h x (by simp [hx]))
    simp [h c (by simp), this]

theorem noblank_all {a : Str} (h : ' ' ∉ a) : ∀ c ∈ a, (decide (c ≠ ' ')) = true := by
  intro c hc
  have : c ≠ ' ' := fun e => h (e ▸ hc)
  simpa using this

theorem takeWhile_noblank_append (a r : Str) (h : ' ' ∉ a) :
    (a ++ ' ' :: r).takeWhile (· ≠ ' ') = a :=
  (takeWhile_dropWhile_append _ a ' ' r (noblank_all h) (by decide)).1

theorem dropWhile_noblank_append (a r : Str) (h : ' ' ∉ a) :
    (a ++ ' ' :: r).dropWhile (· ≠ ' ') = ' ' :: r :=
  (takeWhile_dropWhile_append _ a ' ' r (noblank_all h) (by decide)).2

theorem takeWhile_noblank (a : Str) (h : ' ' ∉ a) : a.takeWhile (· ≠ ' ') = a :=
  (takeWhile_dropWhile_all _ a (noblank_all h)).1

theorem dropWhile_noblank (a : Str) (h : ' ' ∉ a) : a.dropWhile (· ≠ ' ') = [] :=
  (takeWhile_dropWhile_all _ a (noblank_all h)).2

theorem str_plus : " + ".toList = [' ', '+', ' '] := by decide
theorem str_minus : " - ".toList = [' ', '-', ' '] := by decide

/-- what `realTextEnd` gives about the last character -/
theorem realEndRev_head {l : Str} (h : realEndRev l = true) :
    ∃ c r, l = c :: r ∧ (isDigitCh c = true ∨ c = 'f' ∨ c = 'N') := by
  unfold realEndRev at h
  split at h
  · exact ⟨_, _, rfl, Or.inr (Or.inl rfl)⟩
  · exact ⟨_, _, rfl, Or.inr (Or.inr rfl)⟩
  · exact ⟨_, _, rfl, Or.inl h⟩
  · cases h

theorem realTextEnd_last {s : Str} (h : realTextEnd s = true) :
    ∃ c, s.getLast? = some c ∧ (isDigitCh c = true ∨ c = 'f' ∨ c = 'N') := by
  obtain ⟨c, r, hr, hc⟩ := realEndRev_head h
  exact ⟨c, by rw [List.getLast?_eq_head?_reverse, hr]; rfl, hc⟩

theorem realTextEnd_ne_nil {s : Str} (h : realTextEnd s = true) : s ≠ [] := by
  rintro rfl; simp [realTextEnd, realEndRev] at h

theorem realTextEnd_last_ne {s : Str} (h : realTextEnd s = true) :
    s.getLast? ≠ some 'i' ∧ s.getLast? ≠ some '-' := by
  obtain ⟨c, hc, hcl⟩ := realTextEnd_last h
  rw [hc]
  constructor
  · intro e; injection e with e; subst e
    rcases hcl with h | h | h
    · revert h; decide
    · revert h; decide
    · revert h; decide
  · intro e; injection e with e; subst e
    rcases hcl with h | h | h
    · revert h; decide
    · revert h; decide
    · revert h; decide

theorem realTextEnd_ne_i {s : Str} (h : realTextEnd s = true) : s ≠ ['i'] := by
  rintro rfl; exact (realTextEnd_last_ne h).1 rfl

theorem append_i_ne_i {s : Str} (h : s ≠ []) : s ++ ['i'] ≠ ['i'] := by
  cases s with
  | nil => exact absurd rfl h
  | cons c cs => cases cs <;> simp

theorem append_i_ne_minus_i {s : Str} (h : realTextEnd s = true) : s ++ ['i'] ≠ ['-', 'i'] := by
  intro e
  have : s = ['-'] := by
    have := congrArg List.dropLast e
    simpa using this
  subst this
  exact (realTextEnd_last_ne h).2 rfl

/-! ### the reader inverts the printer -/

section
variable {S R : Type} [Kernel S] [Zero R] [One R] [Neg R]

theorem readImag_fmt (F : FmtSpec S R) (x : R) : readImag F.read (F.fmt x ++ ['i']) = some x := by
  unfold readImag
  rw [if_neg (append_i_ne_i (realTextEnd_ne_nil (F.fmt_end x)))]
  simp [F.read_fmt]

theorem readWord_real (F : FmtSpec S R) (x : R) : readWord F.read (F.fmt x) = some (x, 0) := by
  have he := F.fmt_end x
  unfold readWord
  rw [if_neg (realTextEnd_ne_i he), if_neg, if_neg (realTextEnd_last_ne he).1]
  · simp [F.read_fmt]
  · intro e
    have := (realTextEnd_last_ne he).1
    rw [e] at this; exact this rfl

theorem readWord_imag (F : FmtSpec S R) (x : R) :
    readWord F.read (F.fmt x ++ ['i']) = some (0, x) := by
  have he := F.fmt_end x
  unfold readWord
  rw [if_neg (append_i_ne_i (realTextEnd_ne_nil he)), if_neg (append_i_ne_minus_i he)]
  simp [F.read_fmt]

/-- splitting a two-part text at its first blank -/
theorem readComplex_two (F : FmtSpec S R) (x : R) (sign : Char) (b : Str) :
    (F.fmt x ++ ' ' :: sign :: ' ' :: b).takeWhile (· ≠ ' ') = F.fmt x ∧
    (F.fmt x ++ ' ' :: sign :: ' ' :: b).dropWhile (· ≠ ' ') = ' ' :: sign :: ' ' :: b :=
  ⟨takeWhile_noblank_append _ _ (F.fmt_noblank x), dropWhile_noblank_append _ _ (F.fmt_noblank x)⟩

theorem readComplex_plus (F : FmtSpec S R) (x : R) (b : Str) (y : R)
    (hb : readImag F.read b = some y) :
    readComplex F.read (F.fmt x ++ " + ".toList ++ b) = some (x, y) := by
  have h := readComplex_two F x '+' b
  unfold readComplex
  simp only [str_plus, List.append_assoc, List.cons_append, List.nil_append] at h ⊢
  show (match List.dropWhile (fun x => decide (x ≠ ' ')) (F.fmt x ++ ' ' :: '+' :: ' ' :: b) with
    | [] => _ | ' ' :: '+' :: ' ' :: b => _ | ' ' :: '-' :: ' ' :: b => _ | _ => _) = _
  rw [h.2, h.1]
  simp [F.read_fmt, hb]

theorem readComplex_minus (F : FmtSpec S R) (x : R) (b : Str) (y : R)
    (hb : readImag F.read b = some y) :
    readComplex F.read (F.fmt x ++ " - ".toList ++ b) = some (x, -y) := by
  have h := readComplex_two F x '-' b
  unfold readComplex
  simp only [str_minus, List.append_assoc, List.cons_append, List.nil_append] at h ⊢
  show (match List.dropWhile (fun x => decide (x ≠ ' ')) (F.fmt x ++ ' ' :: '-' :: ' ' :: b) with
    | [] => _ | ' ' :: '+' :: ' ' :: b => _ | ' ' :: '-' :: ' ' :: b => _ | _ => _) = _
  rw [h.2, h.1]
  simp [F.read_fmt, hb]

theorem readComplex_word (F : FmtSpec S R) (a : Str) (h : ' ' ∉ a) :
    readComplex F.read a = readWord F.read a := by
  unfold readComplex
  rw [dropWhile_noblank a h, takeWhile_noblank a h]

omit [Zero R] [Neg R] in
theorem readImag_i (read : Str → Option R) : readImag read ['i'] = some 1 := by simp [readImag]

theorem same_refl (F : FmtSpec S R) (a : R) : F.same a a := Or.inl rfl

theorem same_zero (F : FmtSpec S R) {b : R} (h : F.isZero b = true) : F.same 0 b :=
  Or.inr ⟨F.isZero_zero, h⟩

/-- **the reader inverts `complexToString`**: reading the printed text of `z` gives the parts of
    `z`, each up to the zero test (a part that tests as zero is not printed, or printed as `0`). -/
theorem readComplex_complexToString (F : FmtSpec S R) (z : S) :
    ∃ a b, readComplex F.read (complexToString z) = some (a, b) ∧
      F.same a (F.re z) ∧ F.same b (F.im z) := by
  unfold complexToString
  simp only [F.fmtRe_eq, F.fmtIm_eq, F.fmtAbsIm_eq, F.reIsZero_eq, F.imIsZero_eq, F.imIsNeg_eq]
  cases hre : F.isZero (F.re z) <;> cases him : F.isZero (F.im z) <;>
    simp only [Bool.not_true, Bool.not_false, Bool.and_true, Bool.and_false,
      if_true, if_false, Bool.false_eq_true]
  · -- both parts
    by_cases h1 : Kernel.imIsOne z = true
    · rw [if_pos h1]
      refine ⟨F.re z, 1, ?_, same_refl F _, Or.inl ((F.imIsOne_iff z).1 h1).symm⟩
      have := readComplex_plus F (F.re z) ['i'] 1 (readImag_i _)
      simpa [str_plus] using this
    rw [if_neg h1]
    by_cases h2 : Kernel.imIsNegOne z = true
    · rw [if_pos h2]
      refine ⟨F.re z, -1, ?_, same_refl F _, Or.inl ((F.imIsNegOne_iff z).1 h2).symm⟩
      have := readComplex_minus F (F.re z) ['i'] 1 (readImag_i _)
      simpa [str_minus] using this
    rw [if_neg h2]
    cases h3 : F.isNeg (F.im z)
    · simp only [Bool.false_eq_true, if_false]
      refine ⟨F.re z, F.im z, ?_, same_refl F _, same_refl F _⟩
      rw [List.append_assoc (F.fmt _ ++ _)]
      exact readComplex_plus F _ _ _ (readImag_fmt F _)
    · simp only [if_true]
      refine ⟨F.re z, F.im z, ?_, same_refl F _, same_refl F _⟩
      rw [List.append_assoc (F.fmt _ ++ _)]
      have := readComplex_minus F (F.re z) _ _ (readImag_fmt F (F.abs (F.im z)))
      rw [F.neg_abs _ h3] at this
      exact this
  · -- real part only
    refine ⟨F.re z, 0, ?_, same_refl F _, same_zero F him⟩
    rw [readComplex_word F _ (F.fmt_noblank _)]
    exact readWord_real F _
  · -- imaginary part only
    by_cases h1 : Kernel.imIsOne z = true
    · rw [if_pos h1]
      exact ⟨0, 1, by simp [readComplex, readWord], same_zero F hre,
        Or.inl ((F.imIsOne_iff z).1 h1).symm⟩
    rw [if_neg h1]
    by_cases h2 : Kernel.imIsNegOne z = true
    · rw [if_pos h2]
      exact ⟨0, -1, by simp [readComplex, readWord], same_zero F hre,
        Or.inl ((F.imIsNegOne_iff z).1 h2).symm⟩
    rw [if_neg h2]
    refine ⟨0, F.im z, ?_, same_zero F hre, same_refl F _⟩
    have hnb : ' ' ∉ F.fmt (F.im z) ++ ['i'] := by
      simp only [List.mem_append, List.mem_singleton, not_or]
      exact ⟨F.fmt_noblank _, by decide⟩
    rw [readComplex_word F _ hnb]
    exact readWord_imag F _
  · -- neither part
    by_cases h1 : Kernel.imIsOne z = true
    · rw [if_pos h1]
      exact ⟨0, 1, by simp [readComplex, readWord], same_zero F hre,
        Or.inl ((F.imIsOne_iff z).1 h1).symm⟩
    rw [if_neg h1]
    by_cases h2 : Kernel.imIsNegOne z = true
    · rw [if_pos h2]
      exact ⟨0, -1, by simp [readComplex, readWord], same_zero F hre,
        Or.inl ((F.imIsNegOne_iff z).1 h2).symm⟩
    rw [if_neg h2]
    exact ⟨0, 0, by simp [readComplex, readWord, F.read_zero], same_zero F hre, same_zero F him⟩

end

end Calc
