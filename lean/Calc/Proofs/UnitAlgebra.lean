/-
  Calc.Proofs.UnitAlgebra — algebra of the unit conversion of Calc.Model.Units over a field with
  a lawful kernel: base-unit magnitudes (`size`), the two halves of `to_other_unit` are mutually
  inverse, and the temperature constants cancel.
-/
import Mathlib.Tactic.Ring
import Mathlib.Tactic.FieldSimp
import Mathlib.Tactic.NormNum
import Calc.Model.Eval
import Calc.Proofs.Lawful

namespace Calc

set_option linter.unusedSectionVars false

variable {K : Type} [Field K] [CharZero K] [Kernel K] [LawfulKernel K]

/-- the magnitude of `z u` in the base unit of `u`'s kind (meter, kilogram, byte, kelvin) -/
def size (z : K) (u : Unit) : K := toBase z u

/-- every non-temperature unit has a non-zero factor (a fact about the shipped table) -/
def FactorsNonzero (K : Type) [Field K] [CharZero K] [Kernel K] : Prop :=
  ∀ u : Unit, u.kind ≠ .temperature → (perBase u : K) ≠ 0

/-- the base unit of every non-temperature kind has factor one (a fact about the shipped table) -/
def BaseFactorsOne (K : Type) [Field K] [CharZero K] [Kernel K] : Prop :=
  ∀ u : Unit, u.kind ≠ .temperature → (perBase (baseUnit u) : K) = 1

/-- the diagnostic every refused binary combination yields: kind and the operator's position -/
abbrev unsupportedBin (op : Tok K) : Res (Value K) :=
  .diag ⟨.unsupportedBinaryOperator, op.line, op.col, []⟩

theorem baseUnit_kind (u : Unit) : (baseUnit u).kind = u.kind := by cases u <;> rfl

theorem baseUnit_baseUnit (u : Unit) : baseUnit (baseUnit u) = baseUnit u := by cases u <;> rfl

theorem toBase_of_ne_temp (z : K) {u : Unit} (h : u.kind ≠ .temperature) :
    toBase z u = z / perBase u := by
  cases u <;> first | rfl | exact absurd rfl h

theorem fromBase_of_ne_temp (b : K) {u : Unit} (h : u.kind ≠ .temperature) :
    fromBase b u = b * perBase u := by
  have : fromBase b u = Kernel.mulRe b (perBase u) := by
    cases u <;> first | rfl | exact absurd rfl h
  rw [this]; exact LawfulKernel.mulRe_real b _

theorem ratio_cancel : (Kernel.ofRatio 9 5 : K) * Kernel.ofRatio 5 9 = 1 := by
  rw [LawfulKernel.ofRatio_eq, LawfulKernel.ofRatio_eq]
  have h5 : ((5 : Nat) : K) ≠ 0 := by exact_mod_cast (by decide : (5 : Nat) ≠ 0)
  have h9 : ((9 : Nat) : K) ≠ 0 := by exact_mod_cast (by decide : (9 : Nat) ≠ 0)
  field_simp

theorem ratio_cancel' : (Kernel.ofRatio 5 9 : K) * Kernel.ofRatio 9 5 = 1 := by
  rw [mul_comm]; exact ratio_cancel

/-- going to the base unit and back to the same unit is the identity -/
theorem fromBase_toBase (hpos : FactorsNonzero K) (z : K) (u : Unit) :
    fromBase (toBase z u) u = z := by
  by_cases h : u.kind = .temperature
  · cases u with
    | temperature t =>
      cases t
      · rfl
      · show z + c273 - c273 = z; ring
      · show (z + c459) * Kernel.ofRatio 5 9 * Kernel.ofRatio 9 5 - c459 = z
        rw [mul_assoc, ratio_cancel']; ring
    | _ => exact absurd h (by simp [Unit.kind])
  · rw [toBase_of_ne_temp z h, fromBase_of_ne_temp _ h]
    exact div_mul_cancel₀ z (hpos u h)

/-- coming from the base unit and going back to it is the identity -/
theorem toBase_fromBase (hpos : FactorsNonzero K) (b : K) (u : Unit) :
    toBase (fromBase b u) u = b := by
  by_cases h : u.kind = .temperature
  · cases u with
    | temperature t =>
      cases t
      · rfl
      · show b - c273 + c273 = b; ring
      · show (b * Kernel.ofRatio 9 5 - c459 + c459) * Kernel.ofRatio 5 9 = b
        rw [sub_add_cancel, mul_assoc, ratio_cancel]; ring
    | _ => exact absurd h (by simp [Unit.kind])
  · rw [fromBase_of_ne_temp b h, toBase_of_ne_temp _ h]
    exact mul_div_cancel_right₀ b (hpos u h)

/-- a magnitude already expressed in the base unit is its own size -/
theorem size_baseUnit (hbase : BaseFactorsOne K) (z : K) (u : Unit) : size z (baseUnit u) = z := by
  unfold size
  by_cases h : u.kind = .temperature
  · cases u with
    | temperature t => rfl
    | _ => exact absurd h (by simp [Unit.kind])
  · have h' : (baseUnit u).kind ≠ .temperature := by rw [baseUnit_kind]; exact h
    rw [toBase_of_ne_temp z h', hbase u h, div_one]

theorem toOther_same_kind (z : K) {u v : Unit} (h : u.kind = v.kind) :
    toOther z u v = some (fromBase (toBase z u) v) := by
  unfold toOther; simp [h]

theorem toOther_diff_kind (z : K) {u v : Unit} (h : u.kind ≠ v.kind) :
    toOther z u v = none := by
  unfold toOther; simp [h]

end Calc
