/-
  Calc.Proofs.MatInverse — the model's `inverse` (transpose of the cofactor matrix divided by the
  determinant) is `(det A)⁻¹ • adjugate A`, at every size.
-/
import Mathlib.LinearAlgebra.Matrix.Adjugate
import Mathlib.LinearAlgebra.Matrix.NonsingularInverse
import Calc.Proofs.MatOps

namespace Calc

set_option linter.unusedSectionVars false

open Matrix

variable {K : Type} [Field K] [CharZero K] [Kernel K] [LawfulKernel K]

namespace Mat

theorem cofactors_eq_tab (m : Mat K) :
    cofactors m = tab (nrows m) (nrows m)
      (fun r c => detN (nrows m - 1) (subMat m r c) * sign (r + c)) := rfl

theorem cofactors_isShape (m : Mat K) : IsShape (cofactors m) (nrows m) (nrows m) := by
  rw [cofactors_eq_tab]; exact tab_isShape _ _ _

/-- the transposed cofactor matrix of the model is Mathlib's adjugate -/
theorem toM_transpose_cofactors (m : Mat K) (n : Nat) (h : nrows m = n + 2) :
    toM (n+2) (n+2) (transposeRaw (cofactors m)) = adjugate (toM (n+2) (n+2) m) := by
  have hs : IsShape (cofactors m) (n+2) (n+2) := h ▸ cofactors_isShape m
  rw [toM_transposeRaw hs (by omega)]
  ext i j
  rw [Matrix.transpose_apply, adjugate_fin_succ_eq_det_submatrix]
  show get (cofactors m) j i = _
  rw [cofactors_eq_tab, h, get_tab _ _ _ j.2 i.2]
  show detN (n+1) (subMat m j i) * sign (j + i) = _
  rw [detN_eq_det, toM_subMat, sign_eq, mul_comm]

theorem toM_singleton (x : K) : toM 1 1 ([[x]] : Mat K) = fun _ _ => x := by
  ext i j
  have hi : (i : Nat) = 0 := by omega
  have hj : (j : Nat) = 0 := by omega
  simp only [toM, hi, hj]; rfl

theorem singleton_isShape (x : K) : IsShape ([[x]] : Mat K) 1 1 := by
  refine ⟨rfl, ?_⟩; intro row hrow; simp at hrow; subst hrow; rfl

theorem eq_false_of_ne {a b : K} (h : a ≠ b) : Kernel.eq a b = false := by
  cases h' : Kernel.eq a b
  · rfl
  · exact absurd ((LawfulKernel.eq_iff a b).mp h') h

/-- singular case of `inverse` -/
theorem inverse_singular {m : Mat K} {n : Nat} (hm : IsShape m n n) (hn : 0 < n)
    (hd : detN n m = 0) : inverse m = .ok none := by
  have heq : Kernel.eq (detN n m) (0 : K) = true := (LawfulKernel.eq_iff _ _).mpr hd
  unfold Mat.inverse
  simp only [hm.nrows, hm.ncols hn, ne_eq, not_true_eq_false, if_false,
    Nat.pos_iff_ne_zero.mp hn, heq, if_true]

/-- regular case of `inverse`: the result is well-shaped and is `(det)⁻¹ • adjugate` -/
theorem inverse_regular {m : Mat K} {n : Nat} (hm : IsShape m n n) (hn : 0 < n)
    (hd : detN n m ≠ 0) :
    ∃ inv, inverse m = .ok (some inv) ∧ IsShape inv n n
      ∧ toM n n inv = (detN n m)⁻¹ • adjugate (toM n n m) := by
  have heq : Kernel.eq (detN n m) (0 : K) = false := eq_false_of_ne hd
  obtain rfl | ⟨k, rfl⟩ : n = 1 ∨ ∃ k, n = k + 2 := by
    rcases Nat.lt_or_ge n 2 with h | h
    · left; omega
    · right; exact ⟨n - 2, by omega⟩
  · refine ⟨[[1 / get m 0 0]], ?_, singleton_isShape _, ?_⟩
    · unfold Mat.inverse
      simp only [hm.nrows, hm.ncols hn, ne_eq, not_true_eq_false, if_false, heq,
        Nat.one_ne_zero, if_true, Bool.false_eq_true]
    · rw [toM_singleton, adjugate_subsingleton]
      ext i j
      have hij : i = j := Subsingleton.elim _ _
      simp [hij, Mat.detN]
  · have h0 : ¬ (k + 2 = 0) := by omega
    have h1 : ¬ (k + 2 = 1) := by omega
    have hcs : IsShape (cofactors m) (k+2) (k+2) := by
      have := cofactors_isShape m; rwa [hm.nrows] at this
    have hts : IsShape (transposeRaw (cofactors m)) (k+2) (k+2) :=
      transposeRaw_isShape hcs (by omega)
    refine ⟨divScalar (transposeRaw (cofactors m)) (detN (k+2) m), ?_,
      divScalar_isShape hts _, ?_⟩
    · unfold Mat.inverse
      simp only [hm.nrows, hm.ncols hn, ne_eq, not_true_eq_false, if_false, heq,
        h0, h1, Bool.false_eq_true, hcs.fromRows (by omega) (by omega),
        transpose_ok hcs (by omega) (by omega)]
    · rw [toM_divScalar, toM_transpose_cofactors m k hm.nrows]

/-- `(det A)⁻¹ • adjugate A` is a two-sided inverse when `det A ≠ 0` -/
theorem mul_smul_adjugate {n : Nat} (A : Matrix (Fin n) (Fin n) K) (hd : A.det ≠ 0) :
    A * ((A.det)⁻¹ • adjugate A) = 1 ∧ ((A.det)⁻¹ • adjugate A) * A = 1 := by
  constructor
  · rw [Matrix.mul_smul, mul_adjugate, smul_smul, inv_mul_cancel₀ hd, one_smul]
  · rw [Matrix.smul_mul, adjugate_mul, smul_smul, inv_mul_cancel₀ hd, one_smul]

end Mat
end Calc
