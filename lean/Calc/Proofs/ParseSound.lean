/-
  Calc.Proofs.ParseSound — whatever a parser function accepts is a phrase of the documented
  grammar at the function's level, read as the returned tree (mutual induction on fuel).
  Core Lean only.
-/
import Calc.Spec.Grammar
import Calc.Proofs.ParseBasic
namespace Calc
variable {S : Type}

theorem groupShut_eq (k : GKind) : groupShut k = groupClose k := by cases k <;> rfl

theorem isAddOp_leftOp {tg : Tag} (h : isAddOp tg = true) : Level.leftOp .term tg = true := by
  simp [isAddOp, Level.leftOp] at *; exact h.symm
theorem isMulOp_leftOp {tg : Tag} (h : isMulOp tg = true) : Level.leftOp .factor tg = true := by
  simpa [isMulOp, Level.leftOp] using h
theorem dot_leftOp {tg : Tag} (h : tg = .dot) : Level.leftOp .dot tg = true := by
  simp [Level.leftOp, h]
theorem cross_leftOp {tg : Tag} (h : tg = .cross) : Level.leftOp .cross tg = true := by
  simp [Level.leftOp, h]

/-- `pExponentLoop` stops in front of a token that is not `^` -/
theorem pExponentLoop_stop : ∀ f acc (ts : List (Tok S)) e r,
    pExponentLoop f acc ts = .ok e r → checkTag .caret r = false := by
  intro f
  induction f with
  | zero => intro acc ts e r h; simp [pExponentLoop] at h
  | succ f ih =>
    intro acc ts e r h
    simp only [pExponentLoop] at h
    split at h
    · split at h
      · split at h
        · exact ih _ _ _ _ h
        · cases h
        · cases h
      · rename_i hne
        cases h
        simpa [checkTag] using hne
    · cases h; rfl

theorem pExponent_stop (f) (ts : List (Tok S)) (e r) (h : pExponent f ts = .ok e r) :
    checkTag .caret r = false := by
  cases f with
  | zero => simp [pExponent] at h
  | succ f =>
    simp only [pExponent] at h
    split at h
    · exact pExponentLoop_stop _ _ _ _ _ h
    · cases h
    · cases h

/-- once the next token is not `^`, the exponent loop returns its accumulator -/
theorem pExponentLoop_of_stop (f acc) (ts : List (Tok S)) (e r)
    (hs : checkTag .caret ts = false) (h : pExponentLoop f acc ts = .ok e r) :
    e = acc ∧ r = ts := by
  cases f with
  | zero => simp [pExponentLoop] at h
  | succ f =>
    simp only [pExponentLoop] at h
    split at h
    · split at h
      · rename_i hc; simp [checkTag, hc] at hs
      · cases h; exact ⟨rfl, rfl⟩
    · cases h; exact ⟨rfl, rfl⟩

/-- the soundness statement for all 22 functions at one fuel value -/
structure SoundAt (S : Type) (f : Nat) : Prop where
  expression : ∀ (ts : List (Tok S)) e r, pExpression f ts = .ok e r →
    ∃ c, ts = c ++ r ∧ Derives .expr c e
  term : ∀ (ts : List (Tok S)) e r, pTerm f ts = .ok e r → ∃ c, ts = c ++ r ∧ Derives .term c e
  termLoop : ∀ c₀ acc (ts : List (Tok S)) e r, Derives .term c₀ acc →
    pTermLoop f acc ts = .ok e r → ∃ c, ts = c ++ r ∧ Derives .term (c₀ ++ c) e
  factor : ∀ (ts : List (Tok S)) e r, pFactor f ts = .ok e r →
    ∃ c, ts = c ++ r ∧ Derives .factor c e
  factorLoop : ∀ c₀ acc (ts : List (Tok S)) e r, Derives .factor c₀ acc →
    pFactorLoop f acc ts = .ok e r → ∃ c, ts = c ++ r ∧ Derives .factor (c₀ ++ c) e
  dot : ∀ (ts : List (Tok S)) e r, pDot f ts = .ok e r → ∃ c, ts = c ++ r ∧ Derives .dot c e
  dotLoop : ∀ c₀ acc (ts : List (Tok S)) e r, Derives .dot c₀ acc →
    pDotLoop f acc ts = .ok e r → ∃ c, ts = c ++ r ∧ Derives .dot (c₀ ++ c) e
  cross : ∀ (ts : List (Tok S)) e r, pCross f ts = .ok e r → ∃ c, ts = c ++ r ∧ Derives .cross c e
  crossLoop : ∀ c₀ acc (ts : List (Tok S)) e r, Derives .cross c₀ acc →
    pCrossLoop f acc ts = .ok e r → ∃ c, ts = c ++ r ∧ Derives .cross (c₀ ++ c) e
  exponent : ∀ (ts : List (Tok S)) e r, pExponent f ts = .ok e r →
    ∃ c, ts = c ++ r ∧ Derives .expo c e
  exponentLoop : ∀ c₀ acc (ts : List (Tok S)) e r, Derives .unary c₀ acc →
    pExponentLoop f acc ts = .ok e r → ∃ c, ts = c ++ r ∧ Derives .expo (c₀ ++ c) e
  unary : ∀ (ts : List (Tok S)) e r, pUnary f ts = .ok e r → ∃ c, ts = c ++ r ∧ Derives .unary c e
  factorial : ∀ (ts : List (Tok S)) e r, pFactorial f ts = .ok e r →
    ∃ c, ts = c ++ r ∧ Derives .fact c e
  factorialLoop : ∀ c₀ acc (ts : List (Tok S)) e r, Derives .fact c₀ acc →
    pFactorialLoop f acc ts = .ok e r → ∃ c, ts = c ++ r ∧ Derives .fact (c₀ ++ c) e
  call : ∀ (ts : List (Tok S)) e r, pCall f ts = .ok e r → ∃ c, ts = c ++ r ∧ Derives .call c e
  callLoop : ∀ c₀ acc (ts : List (Tok S)) e r, Derives .call c₀ acc →
    pCallLoop f acc ts = .ok e r → ∃ c, ts = c ++ r ∧ Derives .call (c₀ ++ c) e
  args : ∀ (ts : List (Tok S)) es r, pArgs f ts = .ok es r →
    ∃ c, ts = c ++ r ∧ ((c = [] ∧ es = [] ∧ checkTag .rparen r = true) ∨ DerivesArgs c es)
  argsLoop : ∀ (ts : List (Tok S)) es r, pArgsLoop f ts = .ok es r →
    ∃ c, ts = c ++ r ∧ DerivesArgs c es
  rows : ∀ br prev idx (ts : List (Tok S)) rows r, pRows f br prev idx ts = .ok rows r →
    ∃ c rows', ts = c ++ r ∧ rows = prev ++ rows' ∧ (Uniform prev → Uniform rows) ∧
      (checkTag .rparen r = false → DerivesRows c rows')
  rowsNext : ∀ br rows₀ idx (ts : List (Tok S)) rows r,
    pRowsNext f br rows₀ idx ts = .ok rows r →
    ∃ c rows', ts = c ++ r ∧ rows = rows₀ ++ rows' ∧ (Uniform rows₀ → Uniform rows) ∧
      ((c = [] ∧ rows' = []) ∨
       ∃ semi c', c = semi :: c' ∧ semi.tag = .semicolon ∧
         (checkTag .rparen r = false → DerivesRows c' rows'))
  primary : ∀ (ts : List (Tok S)) e r, pPrimary f ts = .ok e r →
    ∃ c, ts = c ++ r ∧ Derives .primary c e
  group : ∀ o k (ts : List (Tok S)) e r, pGroup f o k ts = .ok e r →
    ∃ c s e', ts = c ++ s :: r ∧ s.tag = groupShut k ∧ Derives .expr c e' ∧ e = .grouping o k e'

set_option hygiene false in
/-- `level = sub-level, then loop` -/
local macro "lvl_step " ih1:term ", " ih2:term : tactic => `(tactic| (
  split at h
  · rename_i e1 r1 h1
    obtain ⟨c1, rfl, d1⟩ := $ih1 _ _ _ h1
    obtain ⟨c2, rfl, d2⟩ := $ih2 _ _ _ _ _ (Derives.incl rfl d1) h
    exact ⟨c1 ++ c2, by simp, d2⟩
  · cases h
  · cases h))

set_option hygiene false in
/-- `loop: operator, operand, loop` for the left-associative levels -/
local macro "loop_step " ih1:term ", " ih2:term ", " cv:term : tactic => `(tactic| (
  split at h
  · rename_i t r0
    split at h
    · rename_i hop
      split at h
      · rename_i e1 r1 h1
        obtain ⟨c1, rfl, d1⟩ := $ih1 _ _ _ h1
        obtain ⟨c2, rfl, d2⟩ := $ih2 _ _ _ _ _ (Derives.binl rfl ($cv hop) hacc d1) h
        exact ⟨t :: (c1 ++ c2), by simp, by simpa using d2⟩
      · cases h
      · cases h
    · cases h; exact ⟨[], by simp, by simpa using hacc⟩
  · cases h; exact ⟨[], by simp, by simpa using hacc⟩))

theorem kind_tag {t : Tok S} {k : Kind S} (h : t.kind = k) : t.tag = k.tag := by
  simp [Tok.tag, h]

theorem soundAt : ∀ f, SoundAt S f := by
  intro f
  induction f with
  | zero => constructor <;> intros <;> rename_i h <;> simp [pExpression, pTerm, pTermLoop, pFactor,
      pFactorLoop, pDot, pDotLoop, pCross, pCrossLoop, pExponent, pExponentLoop, pUnary,
      pFactorial, pFactorialLoop, pCall, pCallLoop, pArgs, pArgsLoop, pRows, pRowsNext,
      pPrimary, pGroup] at h
  | succ f ih =>
    constructor
    case expression =>
      intro ts e r h
      simp only [pExpression] at h
      split at h
      · rename_i e1 r1 h1
        obtain ⟨c1, rfl, d1⟩ := ih.term _ _ _ h1
        split at h
        · split at h
          · rename_i has
            split at h
            · split at h
              · rename_i hu
                cases h
                exact ⟨c1 ++ [_, _], by simp, Derives.as_ d1 has hu⟩
              · cases h
            · cases h
          · cases h; exact ⟨c1, rfl, Derives.incl rfl d1⟩
        · cases h; exact ⟨c1, rfl, Derives.incl rfl d1⟩
      · cases h
      · cases h
    case term => intro ts e r h; simp only [pTerm] at h; lvl_step ih.factor, ih.termLoop
    case factor => intro ts e r h; simp only [pFactor] at h; lvl_step ih.dot, ih.factorLoop
    case dot => intro ts e r h; simp only [pDot] at h; lvl_step ih.cross, ih.dotLoop
    case cross => intro ts e r h; simp only [pCross] at h; lvl_step ih.exponent, ih.crossLoop
    case factorial =>
      intro ts e r h; simp only [pFactorial] at h; lvl_step ih.call, ih.factorialLoop
    case call => intro ts e r h; simp only [pCall] at h; lvl_step ih.primary, ih.callLoop
    case exponent =>
      intro ts e r h
      simp only [pExponent] at h
      split at h
      · rename_i e1 r1 h1
        obtain ⟨c1, rfl, d1⟩ := ih.unary _ _ _ h1
        obtain ⟨c2, rfl, d2⟩ := ih.exponentLoop _ _ _ _ _ d1 h
        exact ⟨c1 ++ c2, by simp, d2⟩
      · cases h
      · cases h
    case termLoop =>
      intro c₀ acc ts e r hacc h; simp only [pTermLoop] at h
      loop_step ih.factor, ih.termLoop, isAddOp_leftOp
    case factorLoop =>
      intro c₀ acc ts e r hacc h; simp only [pFactorLoop] at h
      loop_step ih.dot, ih.factorLoop, isMulOp_leftOp
    case dotLoop =>
      intro c₀ acc ts e r hacc h; simp only [pDotLoop] at h
      loop_step ih.cross, ih.dotLoop, dot_leftOp
    case crossLoop =>
      intro c₀ acc ts e r hacc h; simp only [pCrossLoop] at h
      loop_step ih.exponent, ih.crossLoop, cross_leftOp
    case exponentLoop =>
      intro c₀ acc ts e r hacc h
      simp only [pExponentLoop] at h
      split at h
      · rename_i t r0
        split at h
        · rename_i hop
          split at h
          · rename_i e1 r1 h1
            obtain ⟨c1, rfl, d1⟩ := ih.exponent _ _ _ h1
            obtain ⟨rfl, rfl⟩ := pExponentLoop_of_stop _ _ _ _ _ (pExponent_stop _ _ _ _ h1) h
            exact ⟨t :: c1, by simp, Derives.pow hop hacc d1⟩
          · cases h
          · cases h
        · cases h; exact ⟨[], by simp, by simpa using Derives.incl rfl hacc⟩
      · cases h; exact ⟨[], by simp, by simpa using Derives.incl rfl hacc⟩
    case unary =>
      intro ts e r h
      simp only [pUnary] at h
      split at h
      · rename_i t r0
        split at h
        · rename_i hop
          split at h
          · rename_i x r1 h1
            cases h
            obtain ⟨c1, rfl, d1⟩ := ih.unary _ _ _ h1
            exact ⟨t :: c1, by simp, Derives.pre (by simpa using hop) d1⟩
          · cases h
          · cases h
        · obtain ⟨c1, h1, d1⟩ := ih.factorial _ _ _ h
          exact ⟨c1, h1, Derives.incl rfl d1⟩
      · obtain ⟨c1, h1, d1⟩ := ih.factorial _ _ _ h
        exact ⟨c1, h1, Derives.incl rfl d1⟩
    case factorialLoop =>
      intro c₀ acc ts e r hacc h
      simp only [pFactorialLoop] at h
      split at h
      · rename_i t r0
        split at h
        · rename_i hop
          obtain ⟨c2, rfl, d2⟩ := ih.factorialLoop _ _ _ _ _ (Derives.post hop hacc) h
          exact ⟨t :: c2, by simp, by simpa using d2⟩
        · cases h; exact ⟨[], by simp, by simpa using hacc⟩
      · cases h; exact ⟨[], by simp, by simpa using hacc⟩
    case callLoop =>
      intro c₀ acc ts e r hacc h
      simp only [pCallLoop] at h
      split at h
      · rename_i t r0
        split at h
        · rename_i hop
          split at h
          · rename_i args r1 h1
            split at h
            · rename_i cl r2 h2
              obtain ⟨rfl, hcl⟩ := consume_ok h2
              obtain ⟨c1, rfl, d1⟩ := ih.args _ _ _ h1
              rcases d1 with ⟨rfl, rfl, _⟩ | d1
              · obtain ⟨c2, rfl, d2⟩ := ih.callLoop _ _ _ _ _ (Derives.call0 hop hcl hacc) h
                exact ⟨t :: cl :: c2, by simp, by simpa using d2⟩
              · obtain ⟨c2, rfl, d2⟩ := ih.callLoop _ _ _ _ _ (Derives.call hop hcl hacc d1) h
                exact ⟨t :: (c1 ++ cl :: c2), by simp, by simpa using d2⟩
            · cases h
            · cases h
          · cases h
          · cases h
        · cases h; exact ⟨[], by simp, by simpa using hacc⟩
      · cases h; exact ⟨[], by simp, by simpa using hacc⟩
    case args =>
      intro ts es r h
      simp only [pArgs] at h
      split at h
      · rename_i hc
        cases h; exact ⟨[], rfl, Or.inl ⟨rfl, rfl, hc⟩⟩
      · obtain ⟨c, hc, d⟩ := ih.argsLoop _ _ _ h
        exact ⟨c, hc, Or.inr d⟩
    case argsLoop =>
      intro ts es r h
      simp only [pArgsLoop] at h
      split at h
      · rename_i e1 r1 h1
        obtain ⟨c1, rfl, d1⟩ := ih.expression _ _ _ h1
        split at h
        · rename_i t r0
          split at h
          · rename_i hcomma
            split at h
            · rename_i es' r2 h2
              cases h
              obtain ⟨c2, rfl, d2⟩ := ih.argsLoop _ _ _ h2
              exact ⟨c1 ++ t :: c2, by simp, DerivesArgs.cons d1 hcomma d2⟩
            · cases h
            · cases h
          · cases h; exact ⟨c1, rfl, DerivesArgs.one d1⟩
        · cases h; exact ⟨c1, rfl, DerivesArgs.one d1⟩
      · cases h
      · cases h
    case rows =>
      intro br prev idx ts rows r h
      simp only [pRows] at h
      split at h
      · rename_i row r1 h1
        obtain ⟨c1, rfl, d1⟩ := ih.args _ _ _ h1
        have key : ∀ (hu : Uniform prev → Uniform (prev ++ [row])),
            pRowsNext f br (prev ++ [row]) idx r1 = .ok rows r →
            ∃ c rows', c1 ++ r1 = c ++ r ∧ rows = prev ++ rows' ∧ (Uniform prev → Uniform rows) ∧
              (checkTag .rparen r = false → DerivesRows c rows') := by
          intro hu h
          obtain ⟨c2, rows2, rfl, rfl, hu2, d2⟩ := ih.rowsNext _ _ _ _ _ _ h
          refine ⟨c1 ++ c2, row :: rows2, by simp, by simp, fun hp => hu2 (hu hp), ?_⟩
          intro hr
          rcases d2 with ⟨rfl, rfl⟩ | ⟨semi, c', rfl, hsemi, d2⟩
          · rcases d1 with ⟨_, _, hp⟩ | d1
            · simp [hr] at hp
            · simpa using DerivesRows.one d1
          · rcases d1 with ⟨_, _, hp⟩ | d1
            · simp [checkTag, hsemi] at hp
            · exact DerivesRows.cons d1 hsemi (d2 hr)
        split at h
        · rename_i last hlast
          split at h
          · cases h
          · rename_i hlen
            apply key _ h
            intro hp a ha b hb
            have hl : ∀ x ∈ prev ++ [row], x.length = last.length := by
              intro x hx
              rcases List.mem_append.mp hx with hx | hx
              · exact hp x hx last (List.mem_of_getLast? hlast)
              · simp at hx; subst hx; simp at hlen; exact hlen.symm
            rw [hl a ha, hl b hb]
        · rename_i hnone
          apply key _ h
          intro _ a ha b hb
          simp at hnone; subst hnone
          simp at ha hb; subst ha hb; rfl
      · cases h
      · cases h
    case rowsNext =>
      intro br rows₀ idx ts rows r h
      simp only [pRowsNext] at h
      split at h
      · rename_i t r0
        split at h
        · rename_i hsemi
          obtain ⟨c, rows', rfl, rfl, hu, d⟩ := ih.rows _ _ _ _ _ _ h
          exact ⟨t :: c, rows', by simp, rfl, hu, Or.inr ⟨t, c, rfl, hsemi, d⟩⟩
        · cases h; exact ⟨[], [], by simp, by simp, id, Or.inl ⟨rfl, rfl⟩⟩
      · cases h; exact ⟨[], [], by simp, by simp, id, Or.inl ⟨rfl, rfl⟩⟩
    case primary =>
      intro ts e r h
      simp only [pPrimary] at h
      split at h
      · cases h
      · rename_i t r0
        split at h
        · rename_i z hz
          split at h
          · rename_i u r1
            split at h
            · rename_i un hu
              cases h; exact ⟨[t, u], rfl, Derives.measurement hz hu⟩
            · cases h; exact ⟨[t], rfl, Derives.number hz⟩
          · cases h; exact ⟨[t], rfl, Derives.number hz⟩
        · rename_i n hn
          cases h; exact ⟨[t], rfl, Derives.ident hn⟩
        · rename_i hk
          obtain ⟨c, s, e', rfl, hs, d, rfl⟩ := ih.group _ _ _ _ _ h
          exact ⟨t :: c ++ [s], by simp, Derives.group (kind_tag hk) hs d⟩
        · rename_i hk
          obtain ⟨c, s, e', rfl, hs, d, rfl⟩ := ih.group _ _ _ _ _ h
          exact ⟨t :: c ++ [s], by simp, Derives.group (kind_tag hk) hs d⟩
        · rename_i hk
          obtain ⟨c, s, e', rfl, hs, d, rfl⟩ := ih.group _ _ _ _ _ h
          exact ⟨t :: c ++ [s], by simp, Derives.group (kind_tag hk) hs d⟩
        · rename_i hk
          obtain ⟨c, s, e', rfl, hs, d, rfl⟩ := ih.group _ _ _ _ _ h
          exact ⟨t :: c ++ [s], by simp, Derives.group (kind_tag hk) hs d⟩
        · rename_i hk
          split at h
          · rename_i rows r1 h1
            split at h
            · rename_i cl r2 h2
              obtain ⟨rfl, hcl⟩ := consume_ok h2
              cases h
              obtain ⟨c, rows', rfl, hrows, hu, d⟩ := ih.rows _ _ _ _ _ _ h1
              simp at hrows; subst hrows
              refine ⟨t :: c ++ [cl], by simp, Derives.matrix (kind_tag hk) hcl (d ?_) (hu ?_)⟩
              · simp [checkTag, hcl]
              · intro a ha; simp at ha
            · cases h
            · cases h
          · cases h
          · cases h
        · cases h
    case group =>
      intro o k ts e r h
      simp only [pGroup] at h
      split at h
      · rename_i e1 r1 h1
        split at h
        · rename_i cl r2 h2
          obtain ⟨rfl, hcl⟩ := consume_ok h2
          cases h
          obtain ⟨c, rfl, d⟩ := ih.expression _ _ _ h1
          exact ⟨c, cl, e1, rfl, by rw [groupShut_eq]; exact hcl, d, rfl⟩
        · cases h
        · cases h
      · cases h
      · cases h

/-! ## Statements -/

theorem sigParams_sound : ∀ (args : List (Expr S)) ps, sigParams args = some ps →
    DerivesParams args ps := by
  intro args
  induction args with
  | nil => intro ps h; simp [sigParams] at h; subst h; exact .nil
  | cons a as ih =>
    intro ps h
    cases a <;> simp [sigParams] at h
    · obtain ⟨ps', h', rfl⟩ := h; exact .number (ih _ h')
    · obtain ⟨ps', h', rfl⟩ := h; exact .ident (ih _ h')

theorem sigOfCall_sound {callee : Expr S} {args name sig} (h : sigOfCall callee args = some (name, sig)) :
    callee = .ident name ∧ DerivesParams args sig.params := by
  unfold sigOfCall at h
  split at h
  · simp at h
    obtain ⟨ps, hps, rfl, rfl⟩ := h
    exact ⟨rfl, sigParams_sound _ _ hps⟩
  · cases h

theorem Derives.ident_inv' : ∀ {l} {c : List (Tok S)} {e}, Derives l c e → ∀ name, e = .ident name →
    (∃ n, name.kind = .ident n) ∧ c = [name]
  | _, _, _, .incl _ h => h.ident_inv'
  | _, _, _, .ident hk => fun _ he => by cases he; exact ⟨⟨_, hk⟩, rfl⟩
  | _, _, _, .as_ .. => fun _ he => by cases he
  | _, _, _, .binl .. => fun _ he => by cases he
  | _, _, _, .pow .. => fun _ he => by cases he
  | _, _, _, .pre .. => fun _ he => by cases he
  | _, _, _, .post .. => fun _ he => by cases he
  | _, _, _, .call0 .. => fun _ he => by cases he
  | _, _, _, .call .. => fun _ he => by cases he
  | _, _, _, .number .. => fun _ he => by cases he
  | _, _, _, .measurement .. => fun _ he => by cases he
  | _, _, _, .group .. => fun _ he => by cases he
  | _, _, _, .matrix .. => fun _ he => by cases he

/-- only a single identifier token is read as an identifier -/
theorem Derives.ident_inv {l} {c : List (Tok S)} {name} (h : Derives l c (.ident name)) :
    (∃ n, name.kind = .ident n) ∧ c = [name] := h.ident_inv' _ rfl

theorem Derives.call_ident_inv' : ∀ {l} {c : List (Tok S)} {e}, Derives l c e →
    ∀ name lp args, e = .call (.ident name) lp args →
    ∃ ca rp n, c = name :: lp :: ca ++ [rp] ∧ name.kind = .ident n ∧ lp.tag = .lparen ∧
      rp.tag = .rparen ∧ ((ca = [] ∧ args = []) ∨ DerivesArgs ca args)
  | _, _, _, .incl _ h => h.call_ident_inv'
  | _, _, _, .call0 (rp := rp) hl hr h => fun _ _ _ he => by
    cases he
    obtain ⟨⟨n, hn⟩, rfl⟩ := h.ident_inv
    exact ⟨[], rp, n, rfl, hn, hl, hr, Or.inl ⟨rfl, rfl⟩⟩
  | _, _, _, .call (ca := ca) (rp := rp) hl hr h ha => fun _ _ _ he => by
    cases he
    obtain ⟨⟨n, hn⟩, rfl⟩ := h.ident_inv
    exact ⟨ca, rp, n, by simp, hn, hl, hr, Or.inr ha⟩
  | _, _, _, .ident _ => fun _ _ _ he => by cases he
  | _, _, _, .as_ .. => fun _ _ _ he => by cases he
  | _, _, _, .binl .. => fun _ _ _ he => by cases he
  | _, _, _, .pow .. => fun _ _ _ he => by cases he
  | _, _, _, .pre .. => fun _ _ _ he => by cases he
  | _, _, _, .post .. => fun _ _ _ he => by cases he
  | _, _, _, .number .. => fun _ _ _ he => by cases he
  | _, _, _, .measurement .. => fun _ _ _ he => by cases he
  | _, _, _, .group .. => fun _ _ _ he => by cases he
  | _, _, _, .matrix .. => fun _ _ _ he => by cases he

/-- only `IDENT "(" args? ")"` is read as a call of an identifier -/
theorem Derives.call_ident_inv {l} {c : List (Tok S)} {name lp args}
    (h : Derives l c (.call (.ident name) lp args)) :
    ∃ ca rp n, c = name :: lp :: ca ++ [rp] ∧ name.kind = .ident n ∧ lp.tag = .lparen ∧
      rp.tag = .rparen ∧ ((ca = [] ∧ args = []) ∨ DerivesArgs ca args) :=
  h.call_ident_inv' _ _ _ rfl

theorem Derives.number_inv' : ∀ {l} {c : List (Tok S)} {e}, Derives l c e → ∀ z, e = .number z →
    ∃ t, c = [t] ∧ t.kind = .number z
  | _, _, _, .incl _ h => h.number_inv'
  | _, _, _, .number hk => fun _ he => by cases he; exact ⟨_, rfl, hk⟩
  | _, _, _, .ident _ => fun _ he => by cases he
  | _, _, _, .as_ .. => fun _ he => by cases he
  | _, _, _, .binl .. => fun _ he => by cases he
  | _, _, _, .pow .. => fun _ he => by cases he
  | _, _, _, .pre .. => fun _ he => by cases he
  | _, _, _, .post .. => fun _ he => by cases he
  | _, _, _, .call0 .. => fun _ he => by cases he
  | _, _, _, .call .. => fun _ he => by cases he
  | _, _, _, .measurement .. => fun _ he => by cases he
  | _, _, _, .group .. => fun _ he => by cases he
  | _, _, _, .matrix .. => fun _ he => by cases he

/-- only a single number token is read as a number literal -/
theorem Derives.number_inv {l} {c : List (Tok S)} {z} (h : Derives l c (.number z)) :
    ∃ t, c = [t] ∧ t.kind = .number z := h.number_inv' _ rfl

/-- a parameter list is read from single identifier and number tokens separated by commas -/
theorem DerivesArgs.params_inv {ca : List (Tok S)} {args} (h : DerivesArgs ca args) :
    ∀ {ps}, DerivesParams args ps → ∀ t ∈ ca, t.tag = .ident ∨ t.tag = .number ∨ t.tag = .comma := by
  induction args generalizing ca with
  | nil => cases h
  | cons a as ih =>
    intro ps hp t ht
    have hhead : ∀ {c : List (Tok S)}, Derives .expr c a → ∀ t ∈ c, t.tag = .ident ∨ t.tag = .number := by
      intro c hd t ht
      cases hp with
      | ident _ =>
        obtain ⟨⟨n, hn⟩, rfl⟩ := hd.ident_inv
        simp at ht; subst ht; exact Or.inl (kind_tag hn)
      | number _ =>
        obtain ⟨t', rfl, hk⟩ := hd.number_inv
        simp at ht; subst ht; exact Or.inr (kind_tag hk)
    cases h with
    | one hd =>
      rcases hhead hd t ht with h | h
      · exact Or.inl h
      · exact Or.inr (Or.inl h)
    | cons hd hc hs =>
      rcases List.mem_append.mp ht with ht | ht
      · rcases hhead hd t ht with h | h
        · exact Or.inl h
        · exact Or.inr (Or.inl h)
      · simp at ht
        rcases ht with rfl | ht
        · exact Or.inr (Or.inr hc)
        · cases hp with
          | ident hp' => exact ih hs hp' t ht
          | number hp' => exact ih hs hp' t ht

theorem pDelete_sound {f} {del : Tok S} {ts s r} (hd : del.tag = .delete)
    (h : pDelete f del ts = .ok s r) :
    ∃ c d, ts = c ++ d :: r ∧ d.isDelim ∧ DerivesStmt (del :: c) s := by
  unfold pDelete at h
  split at h
  · rename_i e r1 h1
    obtain ⟨c, rfl, d⟩ := (soundAt f).expression _ _ _ h1
    split at h
    · rename_i name
      split at h
      · rename_i dl r2 h2
        obtain ⟨rfl, hdl⟩ := consumeDelim_ok h2
        cases h
        obtain ⟨⟨n, hn⟩, rfl⟩ := d.ident_inv
        exact ⟨_, dl, rfl, hdl, .deleteVar hd hn⟩
      · cases h
      · cases h
    · rename_i callee lp args
      split at h
      · rename_i dl r2 h2
        obtain ⟨rfl, hdl⟩ := consumeDelim_ok h2
        split at h
        · rename_i name sig hs
          cases h
          obtain ⟨rfl, hp⟩ := sigOfCall_sound hs
          exact ⟨_, dl, rfl, hdl, .deleteSig hd d hp⟩
        · cases h
      · cases h
      · cases h
    · cases h
  · cases h
  · cases h

theorem pStatementExpr_sound {f} {ts : List (Tok S)} {s r}
    (h : pStatement.pStatementExpr f ts = .ok s r) :
    ∃ c d, ts = c ++ d :: r ∧ d.isDelim ∧ DerivesStmt c s := by
  unfold pStatement.pStatementExpr at h
  split at h
  · rename_i e r1 h1
    obtain ⟨c, rfl, d⟩ := (soundAt f).expression _ _ _ h1
    have hexpr : ∀ {s r}, (match consumeDelim r1 with
        | .ok _ r' => PRes.ok (Stmt.expr e) r'
        | .err e => .err e
        | .fuel => .fuel) = PRes.ok s r →
        ∃ c' d, c ++ r1 = c' ++ d :: r ∧ d.isDelim ∧ DerivesStmt c' s := by
      intro s r hh
      split at hh
      · rename_i dl r2 h2
        obtain ⟨rfl, hdl⟩ := consumeDelim_ok h2
        cases hh
        exact ⟨c, dl, rfl, hdl, .expr d⟩
      · cases hh
      · cases hh
    simp only at h
    split at h
    · rename_i name
      split at h
      · rename_i eq r2
        split at h
        · rename_i heq
          split at h
          · rename_i right r3 h3
            obtain ⟨c2, rfl, d2⟩ := (soundAt f).expression _ _ _ h3
            split at h
            · rename_i dl r4 h4
              obtain ⟨rfl, hdl⟩ := consumeDelim_ok h4
              cases h
              obtain ⟨⟨n, hn⟩, rfl⟩ := d.ident_inv
              exact ⟨name :: eq :: c2, dl, by simp, hdl, .assign hn heq d2⟩
            · cases h
            · cases h
          · cases h
          · cases h
        · exact hexpr h
      · exact hexpr h
    · rename_i callee lp args
      split at h
      · rename_i eq r2
        split at h
        · rename_i heq
          split at h
          · rename_i body r3 h3
            obtain ⟨c2, rfl, d2⟩ := (soundAt f).expression _ _ _ h3
            split at h
            · rename_i dl r4 h4
              obtain ⟨rfl, hdl⟩ := consumeDelim_ok h4
              split at h
              · rename_i name sig hs
                cases h
                obtain ⟨rfl, hp⟩ := sigOfCall_sound hs
                exact ⟨c ++ eq :: c2, dl, by simp, hdl, .define d hp heq d2⟩
              · cases h
            · cases h
            · cases h
          · cases h
          · cases h
        · exact hexpr h
      · exact hexpr h
    · exact hexpr h
  · cases h
  · cases h

theorem pStatement_sound {f} {ts : List (Tok S)} {s r} (h : pStatement f ts = .ok s r) :
    ∃ c d, ts = c ++ d :: r ∧ d.isDelim ∧ DerivesStmt c s := by
  unfold pStatement at h
  split at h
  · rename_i t r0
    split at h
    · rename_i hd
      obtain ⟨c, d, rfl, hdl, ds⟩ := pDelete_sound hd h
      exact ⟨t :: c, d, rfl, hdl, ds⟩
    · split at h
      · rename_i hc
        split at h
        · rename_i dl r2 h2
          obtain ⟨rfl, hdl⟩ := consumeDelim_ok h2
          cases h
          exact ⟨[t], dl, rfl, hdl, .clear hc⟩
        · cases h
        · cases h
      · exact pStatementExpr_sound h
  · exact pStatementExpr_sound h

theorem parseLoop_sound (inner : Nat) : ∀ outer (ts : List (Tok S)) ss,
    parseLoop inner outer ts = .ok ss → DerivesProgram ts ss := by
  intro outer
  induction outer with
  | zero =>
    intro ts ss h
    cases ts <;> simp [parseLoop] at h
    subst h; exact .nil
  | succ n ih =>
    intro ts ss h
    cases ts with
    | nil => simp [parseLoop] at h; subst h; exact .nil
    | cons t r =>
      simp only [parseLoop] at h
      split at h
      · rename_i hd
        exact .skip (by simpa [Tok.isDelim] using hd) (ih _ _ h)
      · split at h
        · rename_i s rest hs
          obtain ⟨c, d, hts, hd, ds⟩ := pStatement_sound hs
          rw [hts]
          split at h
          · rename_i ss' hl
            cases h
            exact .stmt ds hd (ih _ _ hl)
          · rename_i hne
            exfalso
            cases hp : parseLoop inner n rest <;> simp [hp] at h
            exact hne _ hp
        · cases h
        · cases h

theorem parse_sound {ts : List (Tok S)} {ss} (h : parse ts = .ok ss) : DerivesProgram ts ss :=
  parseLoop_sound _ _ _ _ h

end Calc
