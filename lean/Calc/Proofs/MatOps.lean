/-
  Calc.Proofs.MatOps — refinement lemmas: each list-level operation of Calc.Model.Matrix is the
  Mathlib operation on `toM`, and preserves well-shapedness (so `Mat.fromRows` succeeds).
-/
import Mathlib.LinearAlgebra.Matrix.Determinant.Basic
import Calc.Proofs.MatDet

namespace Calc

set_option linter.unusedSectionVars false

open Matrix

section lists

variable {α β γ : Type}

theorem getD_zipWith (f : α → β → γ) (l1 : List α) (l2 : List β) (i : Nat) (d1 : α) (d2 : β)
    (d : γ) (hd : f d1 d2 = d) (h : l1.length = l2.length) :
    (List.zipWith f l1 l2).getD i d = f (l1.getD i d1) (l2.getD i d2) := by
  subst hd
  simp only [List.getD_eq_getElem?_getD, List.getElem?_zipWith]
  by_cases hi : i < l1.length
  · have hi2 : i < l2.length := h ▸ hi
    simp [List.getElem?_eq_getElem hi, List.getElem?_eq_getElem hi2]
  · have hi2 : ¬ i < l2.length := h ▸ hi
    simp [List.getElem?_eq_none (Nat.le_of_not_lt hi), List.getElem?_eq_none (Nat.le_of_not_lt hi2)]

theorem getD_map_range (n : Nat) (f : Nat → α) (i : Nat) (d : α) (h : i < n) :
    ((List.range n).map f).getD i d = f i := by
  simp [List.getD_eq_getElem?_getD, List.getElem?_map, List.getElem?_range h]

theorem getD_map (f : α → β) (l : List α) (i : Nat) (d : α) (d' : β) (hd : f d = d') :
    (l.map f).getD i d' = f (l.getD i d) := by
  subst hd
  simp only [List.getD_eq_getElem?_getD, List.getElem?_map]
  cases l[i]? <;> simp

end lists

/-- the `r × c` table of a function, as the model builds `identity`, products and cofactors -/
def Mat.tab {K : Type} (r c : Nat) (f : Nat → Nat → K) : Mat K :=
  (List.range r).map fun i => (List.range c).map fun j => f i j

variable {K : Type} [Field K] [CharZero K] [Kernel K] [LawfulKernel K]

namespace Mat

theorem IsShape.nrows {m : Mat K} {r c : Nat} (h : IsShape m r c) : nrows m = r := h.1

theorem IsShape.ncols {m : Mat K} {r c : Nat} (h : IsShape m r c) (hr : 0 < r) : ncols m = c := by
  obtain ⟨h1, h2⟩ := h
  unfold Mat.ncols
  cases m with
  | nil => simp at h1; omega
  | cons row rest => simpa using h2 row (by simp)

theorem IsShape.row_length {m : Mat K} {r c : Nat} (h : IsShape m r c) {i : Nat} (hi : i < r) :
    (m.getD i []).length = c := by
  obtain ⟨h1, h2⟩ := h
  have hi' : i < m.length := h1 ▸ hi
  rw [List.getD_eq_getElem?_getD, List.getElem?_eq_getElem hi']
  exact h2 _ (List.getElem_mem hi')

/-- a well-shaped matrix with positive sizes passes the three assertions of `from_rows` -/
theorem IsShape.wellShaped {m : Mat K} {r c : Nat} (h : IsShape m r c) (hr : 0 < r) (hc : 0 < c) :
    wellShaped m = true := by
  have hnc := h.ncols hr
  obtain ⟨h1, h2⟩ := h
  unfold Mat.wellShaped
  unfold Mat.ncols at hnc
  simp only [Bool.and_eq_true, Bool.not_eq_true', List.isEmpty_eq_false_iff, List.all_eq_true,
    beq_iff_eq, ne_eq]
  refine ⟨⟨?_, ?_⟩, ?_⟩
  · intro hm; subst hm; simp at h1; omega
  · intro row hrow hE; have := h2 row hrow; subst hE; simp at this; omega
  · intro row hrow; rw [hnc]; exact h2 row hrow

theorem IsShape.fromRows {m : Mat K} {r c : Nat} (h : IsShape m r c) (hr : 0 < r) (hc : 0 < c) :
    Mat.fromRows m = .ok m := by
  unfold Mat.fromRows; rw [h.wellShaped hr hc]; rfl

/-- conversely, what `from_rows` accepts is well-shaped with positive sizes -/
theorem isShape_of_wellShaped {m : Mat K} (h : wellShaped m = true) :
    IsShape m (nrows m) (ncols m) ∧ 0 < nrows m ∧ 0 < ncols m := by
  unfold Mat.wellShaped at h
  simp only [Bool.and_eq_true, Bool.not_eq_true', List.isEmpty_eq_false_iff, List.all_eq_true,
    beq_iff_eq, ne_eq] at h
  obtain ⟨⟨h1, h2⟩, h3⟩ := h
  refine ⟨⟨rfl, fun row hrow => h3 row hrow⟩, ?_, ?_⟩
  · unfold Mat.nrows; exact List.length_pos_of_ne_nil h1
  · unfold Mat.ncols
    cases m with
    | nil => exact absurd rfl h1
    | cons row rest =>
      simp only [List.headD_cons]
      exact List.length_pos_of_ne_nil (h2 row (by simp))

/-! ### extensionality: a well-shaped list matrix is determined by its entries -/

theorem get_eq_getElem {a : Mat K} {i j : Nat} (hi : i < a.length) (hj : j < a[i].length) :
    get a i j = a[i][j] := by
  unfold Mat.get
  simp [List.getD_eq_getElem?_getD, List.getElem?_eq_getElem hi, hj]

theorem toM_injective {a b : Mat K} {r c : Nat} (ha : IsShape a r c) (hb : IsShape b r c)
    (h : toM r c a = toM r c b) : a = b := by
  apply List.ext_getElem (ha.1.trans hb.1.symm)
  intro i hi1 hi2
  have hla : a[i].length = c := ha.2 _ (List.getElem_mem _)
  have hlb : b[i].length = c := hb.2 _ (List.getElem_mem _)
  apply List.ext_getElem (hla.trans hlb.symm)
  intro j hj1 hj2
  have := congrFun (congrFun h ⟨i, ha.1 ▸ hi1⟩) ⟨j, hla ▸ hj1⟩
  simp only [toM] at this
  rwa [get_eq_getElem hi1 hj1, get_eq_getElem hi2 hj2] at this

/-! ### tables -/

theorem tab_isShape (r c : Nat) (f : Nat → Nat → K) : IsShape (tab r c f) r c := by
  refine ⟨by simp [tab], ?_⟩
  intro row hrow
  simp only [tab, List.mem_map, List.mem_range] at hrow
  obtain ⟨i, _, rfl⟩ := hrow
  simp

theorem get_tab (r c : Nat) (f : Nat → Nat → K) {i j : Nat} (hi : i < r) (hj : j < c) :
    get (tab r c f) i j = f i j := by
  unfold Mat.get tab
  rw [getD_map_range _ _ _ _ hi, getD_map_range _ _ _ _ hj]

theorem toM_tab (r c : Nat) (f : Nat → Nat → K) :
    toM r c (tab r c f) = Matrix.of fun (i : Fin r) (j : Fin c) => f i j := by
  ext i j; exact get_tab r c f i.2 j.2

/-! ### addition, scaling, negation, subtraction -/

theorem zipAdd_isShape {a b : Mat K} {r c : Nat} (ha : IsShape a r c) (hb : IsShape b r c) :
    IsShape (List.zipWith (fun r1 r2 => List.zipWith (· + ·) r1 r2) a b) r c := by
  refine ⟨by simp [ha.1, hb.1], ?_⟩
  intro row hrow
  rw [List.mem_iff_getElem] at hrow
  obtain ⟨i, hi, rfl⟩ := hrow
  simp only [List.length_zipWith] at hi
  simp only [List.getElem_zipWith, List.length_zipWith]
  rw [ha.2 _ (List.getElem_mem _), hb.2 _ (List.getElem_mem _)]
  simp

theorem toM_zipAdd {a b : Mat K} {r c : Nat} (ha : IsShape a r c) (hb : IsShape b r c) :
    toM r c (List.zipWith (fun r1 r2 => List.zipWith (· + ·) r1 r2) a b) = toM r c a + toM r c b := by
  ext i j
  simp only [toM, Mat.get, Matrix.add_apply]
  rw [getD_zipWith _ a b i [] [] [] rfl (ha.1.trans hb.1.symm)]
  rw [getD_zipWith (· + ·) _ _ j 0 0 0 (add_zero 0)
    ((ha.row_length i.2).trans (hb.row_length i.2).symm)]

theorem add_ok {a b : Mat K} {r c : Nat} (ha : IsShape a r c) (hb : IsShape b r c) (hr : 0 < r) :
    Mat.add a b = .ok (List.zipWith (fun r1 r2 => List.zipWith (· + ·) r1 r2) a b) := by
  unfold Mat.add
  rw [ha.nrows, hb.nrows, ha.ncols hr, hb.ncols hr]
  simp

theorem scale_isShape {a : Mat K} {r c : Nat} (ha : IsShape a r c) (k : K) :
    IsShape (scale a k) r c := by
  refine ⟨by simp [scale, ha.1], ?_⟩
  intro row hrow
  simp only [scale, List.mem_map] at hrow
  obtain ⟨row', hr', rfl⟩ := hrow
  simp [ha.2 row' hr']

theorem get_scale (a : Mat K) (k : K) (i j : Nat) : get (scale a k) i j = get a i j * k := by
  unfold Mat.get scale
  rw [getD_map _ a i [] [] rfl, getD_map (fun v => v * k) _ j 0 0 (zero_mul k)]

theorem toM_scale (a : Mat K) (k : K) (r c : Nat) : toM r c (scale a k) = k • toM r c a := by
  ext i j
  simp only [toM, get_scale, Matrix.smul_apply, smul_eq_mul, mul_comm]

theorem neg_isShape {a : Mat K} {r c : Nat} (ha : IsShape a r c) : IsShape (neg a) r c :=
  scale_isShape ha _

theorem toM_neg (a : Mat K) (r c : Nat) : toM r c (neg a) = - toM r c a := by
  unfold Mat.neg; rw [toM_scale, LawfulKernel.negOne_eq]; simp

theorem divScalar_isShape {a : Mat K} {r c : Nat} (ha : IsShape a r c) (k : K) :
    IsShape (divScalar a k) r c :=
  scale_isShape ha _

theorem toM_divScalar (a : Mat K) (k : K) (r c : Nat) :
    toM r c (divScalar a k) = k⁻¹ • toM r c a := by
  unfold Mat.divScalar; rw [toM_scale, one_div]

theorem sub_ok {a b : Mat K} {r c : Nat} (ha : IsShape a r c) (hb : IsShape b r c) (hr : 0 < r) :
    Mat.sub a b = .ok (List.zipWith (fun r1 r2 => List.zipWith (· + ·) r1 r2) a (neg b)) := by
  unfold Mat.sub
  rw [ha.nrows, hb.nrows, ha.ncols hr, hb.ncols hr]
  simp only [ne_eq, not_true_eq_false, or_self, if_false]
  exact add_ok ha (neg_isShape hb) hr

theorem toM_subResult {a b : Mat K} {r c : Nat} (ha : IsShape a r c) (hb : IsShape b r c) :
    toM r c (List.zipWith (fun r1 r2 => List.zipWith (· + ·) r1 r2) a (neg b))
      = toM r c a - toM r c b := by
  rw [toM_zipAdd ha (neg_isShape hb), toM_neg, sub_eq_add_neg]

/-! ### product -/

theorem mulRaw_eq_tab (a b : Mat K) : mulRaw a b = tab (nrows a) (ncols b) (mulEntry a b) := rfl

theorem mulEntry_eq_sum (a b : Mat K) {n : Nat} (hn : ncols a = n) (i j : Nat) :
    mulEntry a b i j = ∑ k : Fin n, get a i k * get b k j := by
  unfold mulEntry; rw [hn, foldl_add_eq_sum]

theorem mulRaw_isShape {a b : Mat K} {r n c : Nat} (ha : IsShape a r n) (hb : IsShape b n c)
    (hn : 0 < n) : IsShape (mulRaw a b) r c := by
  rw [mulRaw_eq_tab, ha.nrows, hb.ncols hn]; exact tab_isShape _ _ _

theorem toM_mulRaw {a b : Mat K} {r n c : Nat} (ha : IsShape a r n) (hb : IsShape b n c)
    (hr : 0 < r) (hn : 0 < n) : toM r c (mulRaw a b) = toM r n a * toM n c b := by
  rw [mulRaw_eq_tab, ha.nrows, hb.ncols hn, toM_tab]
  ext i j
  simp only [Matrix.of_apply, Matrix.mul_apply, mulEntry_eq_sum a b (ha.ncols hr)]
  rfl

theorem mul_ok {a b : Mat K} {r n c : Nat} (ha : IsShape a r n) (hb : IsShape b n c)
    (hr : 0 < r) (hn : 0 < n) (hc : 0 < c) : Mat.mul a b = .ok (mulRaw a b) := by
  unfold Mat.mul
  rw [ha.ncols hr, hb.nrows]
  simp only [ne_eq, not_true_eq_false, if_false]
  exact (mulRaw_isShape ha hb hn).fromRows hr hc

/-! ### transpose -/

theorem transposeRaw_isShape {a : Mat K} {r c : Nat} (ha : IsShape a r c) (hr : 0 < r) :
    IsShape (transposeRaw a) c r := by
  unfold transposeRaw
  rw [ha.ncols hr]
  refine ⟨by simp, ?_⟩
  intro row hrow
  simp only [List.mem_map, List.mem_range] at hrow
  obtain ⟨i, _, rfl⟩ := hrow
  simp [ha.1]

theorem get_transposeRaw (a : Mat K) {i : Nat} (hi : i < ncols a) (j : Nat) :
    get (transposeRaw a) i j = get a j i := by
  unfold Mat.get transposeRaw
  rw [getD_map_range _ _ _ _ hi]
  rw [getD_map (fun r : List K => r.getD i 0) a j [] 0 rfl]

theorem toM_transposeRaw {a : Mat K} {r c : Nat} (ha : IsShape a r c) (hr : 0 < r) :
    toM c r (transposeRaw a) = (toM r c a)ᵀ := by
  ext i j
  simp only [toM, Matrix.transpose_apply]
  exact get_transposeRaw a (by rw [ha.ncols hr]; exact i.2) j

theorem transpose_ok {a : Mat K} {r c : Nat} (ha : IsShape a r c) (hr : 0 < r) (hc : 0 < c) :
    Mat.transpose a = .ok (transposeRaw a) :=
  (transposeRaw_isShape ha hr).fromRows hc hr

/-! ### identity -/

/-- the list the model builds for `identity n` -/
def identityRaw (n : Nat) : Mat K := tab n n fun i j => if i = j then (1 : K) else 0

theorem identityRaw_isShape (n : Nat) : IsShape (identityRaw n : Mat K) n n := tab_isShape _ _ _

theorem identity_ok {n : Nat} (hn : 0 < n) : (Mat.identity n : Res (Mat K)) = .ok (identityRaw n) :=
  (identityRaw_isShape n).fromRows hn hn

theorem toM_identityRaw (n : Nat) : toM n n (identityRaw n : Mat K) = 1 := by
  unfold identityRaw
  rw [toM_tab]
  ext i j
  simp only [Matrix.of_apply, Matrix.one_apply, Fin.ext_iff]

theorem identity_zero_panics : ∃ s, (Mat.identity 0 : Res (Mat K)) = .panic s := ⟨_, rfl⟩

end Mat
end Calc
