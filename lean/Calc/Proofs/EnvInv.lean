/-
  Calc.Proofs.EnvInv — the invariant behind C09: relative to an initial table `init` whose
  entries are all constant, every table reachable by statements has exactly the entries of
  `init` as its constant entries, unchanged, and distinct keys.
-/
import Calc.Model.Front
import Calc.Proofs.EnvLemmas
import Calc.Proofs.EvalPure
import Calc.Proofs.EnvStep
namespace Calc

variable {S : Type} [Add S] [Sub S] [Mul S] [Div S] [Zero S] [One S] [Kernel S]

namespace Env

/-- `env` agrees with `init` on constants (`Calc.Inv` of Props/C09 is this, as a conjunction) -/
structure Agrees (init env : Env S) : Prop where
  const_init : ∀ k v, get env k = some v → v.constant = true → get init k = some v
  init_kept : ∀ k v, get init k = some v → get env k = some v
  nodup : (keys env).Nodup

omit [Add S] [Sub S] [Mul S] [Div S] [Zero S] [One S] [Kernel S]

theorem Agrees.refl {init : Env S} (hnd : (keys init).Nodup) : Agrees init init :=
  ⟨fun _ _ h _ => h, fun _ _ h => h, hnd⟩

/-- all entries constant, in lookup form -/
theorem constant_of_get_init {init : Env S} (hc : ∀ kv ∈ init, kv.2.constant = true)
    {k : Str} {v : Variable S} (h : get init k = some v) : v.constant = true :=
  hc _ (mem_of_get h)

/-- a name not bound to a constant in `env` is not a name of `init` -/
private theorem init_none_of_nonconst {init env : Env S}
    (hc : ∀ kv ∈ init, kv.2.constant = true) (ha : Agrees init env) {k : Str}
    (hk : ∀ w, get env k = some w → w.constant = false) : get init k = none := by
  cases hi : get init k with
  | none => rfl
  | some v =>
    have h1 := ha.init_kept k v hi
    have h2 := hk v h1
    rw [constant_of_get_init hc hi] at h2
    cases h2

theorem Agrees.insert {init env : Env S} (hc : ∀ kv ∈ init, kv.2.constant = true)
    (ha : Agrees init env) (k : Str) (v : Value S)
    (hk : ∀ w, get env k = some w → w.constant = false) :
    Agrees init (Env.insert env k ⟨v, false⟩) := by
  have hin := init_none_of_nonconst hc ha hk
  refine ⟨?_, ?_, nodup_insert ha.nodup k _⟩
  · intro k' v' hg hcv
    by_cases e : k' = k
    · subst e
      rw [get_insert_self] at hg
      cases hg
      cases hcv
    · rw [get_insert_ne env _ e] at hg
      exact ha.const_init k' v' hg hcv
  · intro k' v' hg
    by_cases e : k' = k
    · subst e
      rw [hin] at hg
      cases hg
    · rw [get_insert_ne env _ e]
      exact ha.init_kept k' v' hg

theorem Agrees.remove {init env : Env S} (hc : ∀ kv ∈ init, kv.2.constant = true)
    (ha : Agrees init env) (k : Str)
    (hk : ∀ w, get env k = some w → w.constant = false) :
    Agrees init (Env.remove env k) := by
  have hin := init_none_of_nonconst hc ha hk
  refine ⟨?_, ?_, nodup_remove ha.nodup k⟩
  · intro k' v' hg hcv
    by_cases e : k' = k
    · subst e
      rw [get_remove_self] at hg
      cases hg
    · rw [get_remove_ne env e] at hg
      exact ha.const_init k' v' hg hcv
  · intro k' v' hg
    by_cases e : k' = k
    · subst e
      rw [hin] at hg
      cases hg
    · rw [get_remove_ne env e]
      exact ha.init_kept k' v' hg

/-- after `clear`, lookups are exactly those of `init` -/
theorem Agrees.get_retainConstants {init env : Env S}
    (hc : ∀ kv ∈ init, kv.2.constant = true) (ha : Agrees init env) (k : Str) :
    Env.get (Env.retainConstants env) k = Env.get init k := by
  rw [Env.get_retainConstants ha.nodup]
  cases hi : get init k with
  | some v =>
    rw [ha.init_kept k v hi]
    simp only [Option.filter_some, constant_of_get_init hc hi, if_true]
  | none =>
    cases he : get env k with
    | none => rfl
    | some w =>
      by_cases hw : w.constant = true
      · have := ha.const_init k w he hw
        rw [hi] at this
        cases this
      · simp only [Option.filter_some, hw]
        rfl

theorem Agrees.retainConstants {init env : Env S} (hc : ∀ kv ∈ init, kv.2.constant = true)
    (ha : Agrees init env) : Agrees init (Env.retainConstants env) := by
  refine ⟨?_, ?_, nodup_retainConstants ha.nodup⟩
  · intro k v hg _
    rw [ha.get_retainConstants hc] at hg
    exact hg
  · intro k v hg
    rw [ha.get_retainConstants hc]
    exact hg

/-- distinct keys make the list of entries itself duplicate-free -/
theorem nodup_of_keys_nodup {env : Env S} (nd : (keys env).Nodup) : env.Nodup := by
  induction env with
  | nil => exact List.nodup_nil
  | cons hd tl ih =>
    simp only [keys, List.map_cons, List.nodup_cons] at nd
    rw [List.nodup_cons]
    exact ⟨fun hm => nd.1 (List.mem_map.mpr ⟨hd, hm, rfl⟩), ih nd.2⟩

/-- after `clear`, the table is `init` up to the order of its entries -/
theorem Agrees.retainConstants_perm {init env : Env S}
    (hc : ∀ kv ∈ init, kv.2.constant = true) (hnd : (keys init).Nodup) (ha : Agrees init env) :
    (Env.retainConstants env).Perm init := by
  rw [List.perm_ext_iff_of_nodup (nodup_of_keys_nodup (nodup_retainConstants ha.nodup))
    (nodup_of_keys_nodup hnd)]
  rintro ⟨k, v⟩
  constructor
  · intro hm
    have := get_of_mem (nodup_retainConstants ha.nodup) hm
    rw [ha.get_retainConstants hc] at this
    exact mem_of_get this
  · intro hm
    have := get_of_mem hnd hm
    rw [← ha.get_retainConstants hc] at this
    exact mem_of_get this

theorem Agrees.of_effect {init env : Env S} (hc : ∀ kv ∈ init, kv.2.constant = true)
    (ha : Agrees init env) {o : StepOut S} (h : StepEffect env o) : Agrees init o.env := by
  cases h with
  | same => exact ha
  | insert k v hk => exact ha.insert hc k v hk
  | remove k hk => exact ha.remove hc k hk
  | clear => exact ha.retainConstants hc

end Env

/-! ### the invariant along statements, texts, the prompt loop and a whole session -/

theorem agrees_step {init env : Env S} (hc : ∀ kv ∈ init, kv.2.constant = true)
    (ha : Env.Agrees init env) (fuel : Nat) (s : Stmt S) :
    Env.Agrees init (step fuel env s).env :=
  ha.of_effect hc (step_effect fuel env s)

theorem agrees_runStmts {init : Env S} (hc : ∀ kv ∈ init, kv.2.constant = true) (fuel : Nat)
    (ss : List (Stmt S)) :
    ∀ env : Env S, Env.Agrees init env → Env.Agrees init (runStmts fuel env ss).env := by
  induction ss with
  | nil => intro env ha; exact ha
  | cons s ss ih =>
    intro env ha
    simp only [runStmts]
    exact ih _ (agrees_step hc ha fuel s)

theorem agrees_processText {init env : Env S} (hc : ∀ kv ∈ init, kv.2.constant = true)
    (ha : Env.Agrees init env) (cfg : ScanCfg S) (fuel : Nat) (text : Str) :
    Env.Agrees init (processText cfg fuel env text).env := by
  unfold processText
  split
  · exact ha
  · exact ha
  · exact ha
  · split
    · exact ha
    · exact ha
    · exact agrees_runStmts hc fuel _ env ha

theorem agrees_repl {init : Env S} (hc : ∀ kv ∈ init, kv.2.constant = true)
    (cfg : ScanCfg S) (fuel : Nat) (ls : List Str) :
    ∀ env : Env S, Env.Agrees init env → Env.Agrees init (repl cfg fuel env ls).env := by
  induction ls with
  | nil => intro env ha; exact ha
  | cons l ls ih =>
    intro env ha
    simp only [repl]
    split
    · exact ha
    · exact ih _ (agrees_processText hc ha cfg fuel _)

theorem agrees_session {init : Env S} (hc : ∀ kv ∈ init, kv.2.constant = true)
    (hnd : (Env.keys init).Nodup) (cfg : ScanCfg S) (fuel : Nat) (file expr : Option Str)
    (stdin : List Str) :
    Env.Agrees init (session cfg fuel init file expr stdin).env := by
  have h0 : Env.Agrees init init := .refl hnd
  unfold session
  cases file with
  | none =>
    cases expr with
    | none => exact agrees_repl hc cfg fuel stdin _ h0
    | some t => exact agrees_processText hc h0 cfg fuel _
  | some f =>
    have h1 := agrees_processText hc h0 cfg fuel (ensureTrailingNewline f)
    cases expr with
    | none => exact agrees_repl hc cfg fuel stdin _ h1
    | some t => exact agrees_processText hc h1 cfg fuel _

end Calc
