/-
  Calc.Proofs.SigPerScan — where the literal parameters of a stored signature come from.

  `Calc/Proofs/SigPer.lean` proves "every stored signature is self-equivalent" along `runStmts`
  under the hypothesis `∀ s ∈ ss, StmtLitsOK ok s`.  Here that hypothesis is DISCHARGED for every
  program that comes out of the scanner and the parser:

    * scanner: a number token of a successful scan carries `Kernel.ofDecimal m e` (provided the
      keyword table never yields a number kind, `hkw` — without it the model has a counterexample,
      see `Calc/Props/C04Scanner.lean`);
    * parser: every number / measurement leaf of a tree the grammar reads from a phrase `c` is the
      value of a number token of `c`; the literal parameters of a parsed definition are such
      leaves (`sigParams` accepts only a bare identifier or a bare number token as a parameter:
      `-1`, `(2)`, `1+1` make it return `none`, which is the parse error
      `invalidAssignmentTarget`);
    * so `StmtLitsOK ok` holds of every statement of `parse toks` for `scan cfg text = .ok toks`
      whenever `ok` holds of every `Kernel.ofDecimal m e`;
    * and `EnvP (GoodLitFn ok)` is kept by `processText`, `repl`, `session` with no hypothesis on
      literals.
  Core Lean only.
-/
import Calc.Proofs.SigPer
import Calc.Proofs.ScanDecomp
import Calc.Proofs.ParseSound
namespace Calc

/-! ### scanner -/

section Scan
variable {S : Type} [Kernel S]

/-- the keyword table never yields a number kind (true of any table of keywords, operators and
    units) -/
def KeywordsNoNumber (cfg : ScanCfg S) : Prop :=
  ∀ w k, cfg.keyword w = some k → ∀ z, k ≠ .number z

/-- every number token of a successful scan carries the value of a decimal `m · 10^e` -/
theorem scan_number_ofDecimal (cfg : ScanCfg S) (hkw : KeywordsNoNumber cfg)
    (text : List Char) (toks : List (Tok S)) (h : scan cfg text = .ok toks) :
    ∀ t ∈ toks, ∀ z, t.kind = .number z → ∃ (m : Nat) (e : Int), z = Kernel.ofDecimal m e := by
  intro t ht z hz
  obtain ⟨s', ℓ, r', hl, _⟩ := (scan_ok_iff.1 h).mem ht
  rw [hz] at hl
  obtain ⟨c, cs, rfl, hc⟩ := Lexeme.digit_of_number hkw hl
  obtain ⟨_, _, d, _, hk⟩ := hl.number_of_digit hc
  injection hk with hk
  exact ⟨d.mant, d.exp, hk⟩

end Scan

/-! ### parser: number leaves come from number tokens -/

section Parse
variable {S : Type}

mutual
/-- the scalars at the number / measurement leaves of a tree, in reading order -/
def Expr.lits : Expr S → List S
  | .as_ e _ _ => e.lits
  | .binary l _ r => l.lits ++ r.lits
  | .unary _ x => x.lits
  | .grouping _ _ e => e.lits
  | .number z => [z]
  | .measurement z _ => [z]
  | .matrix _ rows => Expr.litsRows rows
  | .ident _ => []
  | .call fn _ args => fn.lits ++ Expr.litsArgs args
def Expr.litsArgs : List (Expr S) → List S
  | [] => []
  | e :: es => e.lits ++ Expr.litsArgs es
def Expr.litsRows : List (List (Expr S)) → List S
  | [] => []
  | r :: rs => Expr.litsArgs r ++ Expr.litsRows rs
end

/-- "`z` is the value of a number token of `c`" -/
def NumTokIn (c : List (Tok S)) (z : S) : Prop := ∃ t ∈ c, t.kind = .number z

theorem NumTokIn.mono {c c' : List (Tok S)} {z : S} (h : NumTokIn c z) (hs : ∀ t ∈ c, t ∈ c') :
    NumTokIn c' z := by
  obtain ⟨t, ht, hk⟩ := h
  exact ⟨t, hs t ht, hk⟩

theorem NumTokIn.append_left {c : List (Tok S)} {z : S} (h : NumTokIn c z) (c' : List (Tok S)) :
    NumTokIn (c ++ c') z :=
  h.mono (fun _ ht => List.mem_append_left _ ht)

theorem NumTokIn.append_right {c : List (Tok S)} {z : S} (h : NumTokIn c z) (c' : List (Tok S)) :
    NumTokIn (c' ++ c) z :=
  h.mono (fun _ ht => List.mem_append_right _ ht)

theorem NumTokIn.cons {c : List (Tok S)} {z : S} (h : NumTokIn c z) (t : Tok S) :
    NumTokIn (t :: c) z :=
  h.mono (fun _ ht => List.mem_cons_of_mem _ ht)

mutual
/-- every number / measurement leaf of a tree read from the phrase `c` is the value of a number
    token of `c` -/
theorem Derives.lits_from_tokens : ∀ {l} {c : List (Tok S)} {e}, Derives l c e →
    ∀ z ∈ e.lits, NumTokIn c z
  | _, _, _, .incl _ h => h.lits_from_tokens
  | _, _, _, .as_ h _ _ => fun z hz => by
    simp only [Expr.lits] at hz
    exact (h.lits_from_tokens z hz).append_left _
  | _, _, _, .binl _ _ h1 h2 => fun z hz => by
    simp only [Expr.lits, List.mem_append] at hz
    rcases hz with hz | hz
    · exact (h1.lits_from_tokens z hz).append_left _
    · exact ((h2.lits_from_tokens z hz).cons _).append_right _
  | _, _, _, .pow _ h1 h2 => fun z hz => by
    simp only [Expr.lits, List.mem_append] at hz
    rcases hz with hz | hz
    · exact (h1.lits_from_tokens z hz).append_left _
    · exact ((h2.lits_from_tokens z hz).cons _).append_right _
  | _, _, _, .pre _ h => fun z hz => by
    simp only [Expr.lits] at hz
    exact (h.lits_from_tokens z hz).cons _
  | _, _, _, .post _ h => fun z hz => by
    simp only [Expr.lits] at hz
    exact (h.lits_from_tokens z hz).append_left _
  | _, _, _, .call0 _ _ h => fun z hz => by
    simp only [Expr.lits, Expr.litsArgs, List.append_nil] at hz
    exact (h.lits_from_tokens z hz).append_left _
  | _, _, _, .call _ _ h ha => fun z hz => by
    simp only [Expr.lits, List.mem_append] at hz
    rcases hz with hz | hz
    · exact ((h.lits_from_tokens z hz).append_left _).append_left _
    · exact (((ha.lits_from_tokens z hz).cons _).append_right _).append_left _
  | _, _, _, .number hk => fun z hz => by
    simp only [Expr.lits, List.mem_singleton] at hz
    subst hz
    exact ⟨_, List.mem_cons_self, hk⟩
  | _, _, _, .measurement hk _ => fun z hz => by
    simp only [Expr.lits, List.mem_singleton] at hz
    subst hz
    exact ⟨_, List.mem_cons_self, hk⟩
  | _, _, _, .ident _ => fun z hz => by simp [Expr.lits] at hz
  | _, _, _, .group _ _ h => fun z hz => by
    simp only [Expr.lits] at hz
    exact ((h.lits_from_tokens z hz).append_left _).cons _
  | _, _, _, .matrix _ _ hr _ => fun z hz => by
    simp only [Expr.lits] at hz
    exact ((hr.lits_from_tokens z hz).append_left _).cons _
theorem DerivesArgs.lits_from_tokens : ∀ {c : List (Tok S)} {es}, DerivesArgs c es →
    ∀ z ∈ Expr.litsArgs es, NumTokIn c z
  | _, _, .one h => fun z hz => by
    simp only [Expr.litsArgs, List.append_nil] at hz
    exact h.lits_from_tokens z hz
  | _, _, .cons h _ hs => fun z hz => by
    simp only [Expr.litsArgs, List.mem_append] at hz
    rcases hz with hz | hz
    · exact (h.lits_from_tokens z hz).append_left _
    · exact ((hs.lits_from_tokens z hz).cons _).append_right _
theorem DerivesRows.lits_from_tokens : ∀ {c : List (Tok S)} {rows}, DerivesRows c rows →
    ∀ z ∈ Expr.litsRows rows, NumTokIn c z
  | _, _, .one h => fun z hz => by
    simp only [Expr.litsRows, List.append_nil] at hz
    exact h.lits_from_tokens z hz
  | _, _, .cons h _ hs => fun z hz => by
    simp only [Expr.litsRows, List.mem_append] at hz
    rcases hz with hz | hz
    · exact (h.lits_from_tokens z hz).append_left _
    · exact ((hs.lits_from_tokens z hz).cons _).append_right _
end

/-- the leaves of an argument that is in the list are leaves of the list -/
theorem Expr.lits_subset_litsArgs {a : Expr S} : ∀ {args : List (Expr S)}, a ∈ args →
    ∀ z ∈ a.lits, z ∈ Expr.litsArgs args
  | [], h => by cases h
  | b :: args, h => fun z hz => by
    simp only [Expr.litsArgs, List.mem_append]
    rcases List.mem_cons.mp h with rfl | h
    · exact .inl hz
    · exact .inr (Expr.lits_subset_litsArgs h z hz)

/-- `Signature::from_call_expression` accepts only BARE identifiers and BARE number literals as
    parameters: any other argument (`-1`, `(2)`, `1+1`, `2 m`, a call, a matrix) makes it fail -/
theorem sigParams_args_plain : ∀ (args : List (Expr S)) (ps : List (Param S)),
    sigParams args = some ps → ∀ a ∈ args, (∃ name, a = .ident name) ∨ (∃ z, a = .number z) := by
  intro args
  induction args with
  | nil => intro ps _ a ha; cases ha
  | cons b args ih =>
    intro ps h a ha
    cases b with
    | ident name =>
      simp only [sigParams, Option.map_eq_some_iff] at h
      obtain ⟨qs, hq, _⟩ := h
      rcases List.mem_cons.mp ha with rfl | ha
      · exact .inl ⟨name, rfl⟩
      · exact ih qs hq a ha
    | number z =>
      simp only [sigParams, Option.map_eq_some_iff] at h
      obtain ⟨qs, hq, _⟩ := h
      rcases List.mem_cons.mp ha with rfl | ha
      · exact .inr ⟨z, rfl⟩
      · exact ih qs hq a ha
    | _ => simp [sigParams] at h

/-- a literal parameter of a signature is a bare number-literal argument -/
theorem DerivesParams.number_mem {args : List (Expr S)} {ps : List (Param S)}
    (h : DerivesParams args ps) : ∀ z, Param.number z ∈ ps → Expr.number z ∈ args := by
  induction h with
  | nil => intro z hz; cases hz
  | ident _ ih =>
    intro z hz
    rcases List.mem_cons.mp hz with h | hz
    · cases h
    · exact List.mem_cons_of_mem _ (ih z hz)
  | number _ ih =>
    intro z hz
    rcases List.mem_cons.mp hz with h | hz
    · cases h; exact List.mem_cons_self
    · exact List.mem_cons_of_mem _ (ih z hz)

/-- the literal parameters of a signature are number leaves of the call expression it is read
    from -/
theorem DerivesParams.number_lits {callee : Expr S} {lp : Tok S} {args : List (Expr S)}
    {ps : List (Param S)} (h : DerivesParams args ps) (z : S) (hz : Param.number z ∈ ps) :
    z ∈ (Expr.call callee lp args).lits := by
  simp only [Expr.lits, List.mem_append]
  exact .inr (Expr.lits_subset_litsArgs (h.number_mem z hz) z (by simp [Expr.lits]))

/-- the literal parameters of a statement: those of the signature of a definition or of a
    signature deletion -/
def Stmt.paramLits : Stmt S → List S
  | .define _ sig _ => sig.params.filterMap (fun p => match p with | .number z => some z | _ => none)
  | .deleteSig _ sig => sig.params.filterMap (fun p => match p with | .number z => some z | _ => none)
  | _ => []

theorem mem_paramLits_iff (ps : List (Param S)) (z : S) :
    z ∈ ps.filterMap (fun p => match p with | .number z => some z | _ => none) ↔
      Param.number z ∈ ps := by
  rw [List.mem_filterMap]
  constructor
  · rintro ⟨p, hp, h⟩
    cases p with
    | ident n => cases h
    | number w => cases h; exact hp
  · intro h
    exact ⟨_, h, rfl⟩

/-- the literal parameters of a statement read from the phrase `c` are values of number tokens
    of `c` -/
theorem DerivesStmt.paramLits_from_tokens {c : List (Tok S)} {s : Stmt S} (h : DerivesStmt c s) :
    ∀ z ∈ s.paramLits, NumTokIn c z := by
  cases h with
  | clear _ => intro z hz; cases hz
  | deleteVar _ _ => intro z hz; cases hz
  | assign _ _ _ => intro z hz; cases hz
  | expr _ => intro z hz; cases hz
  | deleteSig _ hd hp =>
    intro z hz
    simp only [Stmt.paramLits, mem_paramLits_iff] at hz
    exact (hd.lits_from_tokens z (hp.number_lits z hz)).cons _
  | define hd hp _ _ =>
    intro z hz
    simp only [Stmt.paramLits, mem_paramLits_iff] at hz
    exact (hd.lits_from_tokens z (hp.number_lits z hz)).append_left _

/-- the literal parameters of every statement of a program are values of number tokens of the
    program text -/
theorem DerivesProgram.paramLits_from_tokens {ts : List (Tok S)} {ss : List (Stmt S)}
    (h : DerivesProgram ts ss) : ∀ s ∈ ss, ∀ z ∈ s.paramLits, NumTokIn ts z := by
  induction h with
  | nil => intro s hs; cases hs
  | skip _ _ ih => intro s hs z hz; exact (ih s hs z hz).cons _
  | stmt hst _ _ ih =>
    intro s hs z hz
    rcases List.mem_cons.mp hs with rfl | hs
    · exact (hst.paramLits_from_tokens z hz).append_left _
    · exact ((ih s hs z hz).cons _).append_right _

/-- the same for the parser itself -/
theorem parse_paramLits_from_tokens {ts : List (Tok S)} {ss : List (Stmt S)}
    (h : parse ts = .ok ss) : ∀ s ∈ ss, ∀ z ∈ s.paramLits, NumTokIn ts z :=
  (parse_sound h).paramLits_from_tokens

/-- if every number token of `ts` carries an `ok` value, every statement of `parse ts` has `ok`
    literal parameters -/
theorem parse_stmtLitsOK {ok : S → Prop} {ts : List (Tok S)} {ss : List (Stmt S)}
    (h : parse ts = .ok ss) (htok : ∀ t ∈ ts, ∀ z, t.kind = .number z → ok z) :
    ∀ s ∈ ss, StmtLitsOK ok s := by
  intro s hs
  have hl := parse_paramLits_from_tokens h s hs
  cases s with
  | define name sig body =>
    intro p hp
    cases p with
    | ident n => trivial
    | number z =>
      obtain ⟨t, ht, hk⟩ := hl z (by simp only [Stmt.paramLits, mem_paramLits_iff]; exact hp)
      exact htok t ht z hk
  | _ => trivial

end Parse

/-! ### scanner + parser -/

section ScanParse
variable {S : Type} [Kernel S]

/-- every statement of a scanned and parsed text has `ok` literal parameters, as soon as `ok`
    holds of everything a decimal literal denotes -/
theorem scan_parse_stmtLitsOK {ok : S → Prop} (hdec : ∀ (m : Nat) (e : Int), ok (Kernel.ofDecimal m e))
    (cfg : ScanCfg S) (hkw : KeywordsNoNumber cfg) (text : List Char) (toks : List (Tok S))
    (ss : List (Stmt S)) (hscan : scan cfg text = .ok toks) (hparse : parse toks = .ok ss) :
    ∀ s ∈ ss, StmtLitsOK ok s := by
  refine parse_stmtLitsOK hparse ?_
  intro t ht z hz
  obtain ⟨m, e, rfl⟩ := scan_number_ofDecimal cfg hkw text toks hscan t ht z hz
  exact hdec m e

end ScanParse

/-! ### `processText`, `repl`, `session`: a predicate kept by the definitions that can be
    scanned and parsed -/

section Front
variable {S : Type} [Add S] [Sub S] [Mul S] [Div S] [Zero S] [One S] [Kernel S]
variable {P : UserFn S → Prop}

/-- `P` is kept by every definition that the scanner and the parser can produce under `cfg` -/
def ScannedDefineKeeps (P : UserFn S → Prop) (cfg : ScanCfg S) : Prop :=
  ∀ (text : List Char) (toks : List (Tok S)) (ss : List (Stmt S)), scan cfg text = .ok toks →
    parse toks = .ok ss → ∀ s ∈ ss, ∀ name sig body, s = .define name sig body → DefineKeeps P sig

theorem envP_processText_scanned (hfil : FilterKeeps P) (cfg : ScanCfg S)
    (hdef : ScannedDefineKeeps P cfg) (fuel : Nat) (env : Env S) (text : Str) (h : EnvP P env) :
    EnvP P (processText cfg fuel env text).env := by
  unfold processText
  split
  · exact h
  · exact h
  · exact h
  · next toks hs =>
    split
    · exact h
    · exact h
    · next ss hp => exact envP_runStmts hfil fuel _ env (hdef text toks ss hs hp) h

theorem envP_repl_scanned (hfil : FilterKeeps P) (cfg : ScanCfg S)
    (hdef : ScannedDefineKeeps P cfg) (fuel : Nat) (ls : List Str) :
    ∀ env : Env S, EnvP P env → EnvP P (repl cfg fuel env ls).env := by
  induction ls with
  | nil => intro env h; exact h
  | cons l ls ih =>
    intro env h
    simp only [repl]
    split
    · exact h
    · exact ih _ (envP_processText_scanned hfil cfg hdef fuel env _ h)

theorem envP_session_scanned (hfil : FilterKeeps P) (cfg : ScanCfg S)
    (hdef : ScannedDefineKeeps P cfg) (fuel : Nat) (init : Env S) (file expr : Option Str)
    (stdin : List Str) (h : EnvP P init) :
    EnvP P (session cfg fuel init file expr stdin).env := by
  unfold session
  cases file with
  | none =>
    cases expr with
    | none => exact envP_repl_scanned hfil cfg hdef fuel stdin _ h
    | some t => exact envP_processText_scanned hfil cfg hdef fuel _ _ h
  | some f =>
    have h1 := envP_processText_scanned hfil cfg hdef fuel init (ensureTrailingNewline f) h
    cases expr with
    | none => exact envP_repl_scanned hfil cfg hdef fuel stdin _ h1
    | some t => exact envP_processText_scanned hfil cfg hdef fuel _ _ h1

omit [Add S] [Sub S] [Mul S] [Div S] [Zero S] [One S] in
/-- the instance: "well formed, all literal parameters `ok`" is kept by every scanned definition -/
theorem goodLitFn_scannedDefineKeeps {ok : S → Prop} (hper : EqPer S ok)
    (hdec : ∀ (m : Nat) (e : Int), ok (Kernel.ofDecimal m e)) (cfg : ScanCfg S)
    (hkw : KeywordsNoNumber cfg) : ScannedDefineKeeps (GoodLitFn ok) cfg := by
  intro text toks ss hs hp s hm name sig body e
  have := scan_parse_stmtLitsOK hdec cfg hkw text toks ss hs hp s hm
  subst e
  exact goodLitFn_defineKeeps hper sig this

/-- along `processText`: well-formedness and `ok` literals, with no hypothesis on the text -/
theorem goodLit_processText {ok : S → Prop} (hper : EqPer S ok)
    (hdec : ∀ (m : Nat) (e : Int), ok (Kernel.ofDecimal m e)) (cfg : ScanCfg S)
    (hkw : KeywordsNoNumber cfg) (fuel : Nat) (env : Env S) (text : Str)
    (h : EnvP (GoodLitFn ok) env) : EnvP (GoodLitFn ok) (processText cfg fuel env text).env :=
  envP_processText_scanned (goodLitFn_filterKeeps ok) cfg
    (goodLitFn_scannedDefineKeeps hper hdec cfg hkw) fuel env text h

theorem goodLit_repl {ok : S → Prop} (hper : EqPer S ok)
    (hdec : ∀ (m : Nat) (e : Int), ok (Kernel.ofDecimal m e)) (cfg : ScanCfg S)
    (hkw : KeywordsNoNumber cfg) (fuel : Nat) (ls : List Str) (env : Env S)
    (h : EnvP (GoodLitFn ok) env) : EnvP (GoodLitFn ok) (repl cfg fuel env ls).env :=
  envP_repl_scanned (goodLitFn_filterKeeps ok) cfg
    (goodLitFn_scannedDefineKeeps hper hdec cfg hkw) fuel ls env h

theorem goodLit_session {ok : S → Prop} (hper : EqPer S ok)
    (hdec : ∀ (m : Nat) (e : Int), ok (Kernel.ofDecimal m e)) (cfg : ScanCfg S)
    (hkw : KeywordsNoNumber cfg) (fuel : Nat) (init : Env S) (file expr : Option Str)
    (stdin : List Str) (h : EnvP (GoodLitFn ok) init) :
    EnvP (GoodLitFn ok) (session cfg fuel init file expr stdin).env :=
  envP_session_scanned (goodLitFn_filterKeeps ok) cfg
    (goodLitFn_scannedDefineKeeps hper hdec cfg hkw) fuel init file expr stdin h

end Front

/-! ### redefinition replaces in place -/

section Redefine
variable {S : Type} [Kernel S] {ok : S → Prop} (hper : EqPer S ok)
include hper

/-- under the invariant and a partial equivalence, a definition of a signature equivalent to a
    stored one replaces THAT entry in place; nothing has to be assumed of the entries before it -/
theorem defineSig_replace_per (pre post : List (Sig S × Expr S)) (s : Sig S) (b : Expr S)
    (sig : Sig S) (body : Expr S) (hinv : PairwiseInequiv (pre ++ (s, b) :: post))
    (he : sigEquiv s.params sig.params = true) :
    defineSig (pre ++ (s, b) :: post) sig body = pre ++ (sig, body) :: post := by
  refine defineSig_replace pre post s b sig body he ?_
  intro e hm
  unfold PairwiseInequiv at hinv
  rw [List.pairwise_append] at hinv
  have := hinv.2.2 e hm (s, b) List.mem_cons_self
  rw [sigEquiv_congr_right_per hper he] at this
  exact this

/-- … and no OTHER entry is equivalent to the new signature -/
theorem inequiv_others_per (pre post : List (Sig S × Expr S)) (s : Sig S) (b : Expr S)
    (sig : Sig S) (hinv : PairwiseInequiv (pre ++ (s, b) :: post))
    (he : sigEquiv s.params sig.params = true) :
    ∀ e ∈ pre ++ post, sigEquiv e.1.params sig.params = false := by
  unfold PairwiseInequiv at hinv
  rw [List.pairwise_append, List.pairwise_cons] at hinv
  obtain ⟨-, ⟨hpost, -⟩, hpre⟩ := hinv
  intro e hm
  rcases List.mem_append.mp hm with hm | hm
  · have := hpre e hm (s, b) List.mem_cons_self
    rw [sigEquiv_congr_right_per hper he] at this
    exact this
  · have := hpost e hm
    rw [sigEquiv_comm_per hper, sigEquiv_congr_right_per hper he] at this
    exact this

end Redefine

end Calc
