/-
  Calc.Proofs.SigPerLits — every number a scanner literal can denote is not a NaN.

  The scanner turns a decimal literal `m · 10^e` into `Kernel.ofDecimal m e` (Model/Scanner.lean);
  for binary64 that is `⟨decimalToBits m e, +0⟩` (`Calc.Exec.Cx`, and the pattern kernel
  `Calc.F64Eq.kernel`).  C04Round proves `decimalToBits m e ≤ 0x7FF0000000000000`
  (`decimalToBits_nonneg`: a non-negative finite pattern or `+inf`), hence not a NaN.
  (This file depends on Mathlib through `Calc/Proofs/DecimalRound.lean`.)
-/
import Calc.Proofs.DecimalRound
import Calc.Proofs.SigPerBits
namespace Calc.F64Eq
open Calc Calc.Exec

theorem decimalToBits_not_nan (m : Nat) (e : Int) : isNaN (decimalToBits m e) = false :=
  isNaN_of_le_inf (Calc.Proofs.DecimalRound.decimalToBits_nonneg m e)

/-- the scalar a decimal literal denotes has no NaN part -/
theorem ofDecimal_noNaN (m : Nat) (e : Int) : NoNaN (Kernel.ofDecimal m e : Cx64) :=
  ⟨decimalToBits_not_nan m e, (by decide : isNaN posZero = false)⟩

end Calc.F64Eq
