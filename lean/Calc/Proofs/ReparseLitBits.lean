/-
  Calc.Proofs.ReparseLitBits — `LitOK` DISCHARGED for a concrete printing/reading kernel (C18).

  `litKernel` is a kernel on pairs of binary64 bit patterns with the real printer `fmtBits`
  (Calc/Exec/FloatFmt.lean, C15), the IEEE-754 meaning of the zero/one tests on patterns, and the
  REAL reader as `ofDecimal`: `⟨decimalToBits m e, +0⟩` (`f64::from_str`, proved correctly rounded
  in C04).  The printing fields are those of `PrintBits.kernel` (Calc/Proofs/PrintBits.lean), which
  cannot be imported next to Calc/Proofs/PrintRoundtrip.lean (both define `Calc.singleChars`), so
  the few definitions needed are restated here.  Every other field is an arbitrary total
  placeholder: NO arithmetic fact is claimed of this instance.

  For this kernel every literal whose value did not overflow to infinity prints a text that the
  scanner's number rule consumes whole and that reads back to the same bits
  (`fmtBits_reads_back`, C15).  Core Lean only.
-/
import Calc.Proofs.FmtText
import Calc.Proofs.PrintExample
import Calc.Proofs.ReparseTreeOK
namespace Calc.LitBits
open Calc Calc.Spec Calc.Exec Calc.Proofs.DecimalRound Calc.Proofs.FmtText

/-- a complex number as the pair of the binary64 patterns of its parts -/
structure CxPat where
  re : UInt64
  im : UInt64

/-- `x == 0.0`: the pattern is `+0` or `-0` -/
def isZeroBits (b : UInt64) : Bool := decide (b &&& 0x7FFFFFFFFFFFFFFF = 0)
/-- `x < 0.0`: sign bit set, not a zero, not a NaN -/
def isNegBits (b : UInt64) : Bool :=
  decide (b >>> 63 = 1) && !isZeroBits b && decide (b &&& 0x7FFFFFFFFFFFFFFF ≤ 0x7FF0000000000000)

def litBits (m : Nat) (e : Int) : UInt64 := decimalToBits m e

/-- the printing/reading kernel on pairs of patterns: `fmtBits` prints, `decimalToBits` reads -/
@[instance_reducible] def litKernel : Kernel CxPat where
  negOne := ⟨0xBFF0000000000000, 0⟩
  i := ⟨0, 0x3FF0000000000000⟩
  inf := ⟨0x7FF0000000000000, 0⟩
  ofNat _ := ⟨0, 0⟩
  ofDecimal m e := ⟨litBits m e, 0⟩
  ofRatio _ _ := ⟨0, 0⟩
  ofBits _ _ := ⟨0, 0⟩
  eq a b := decide (a.re = b.re ∧ a.im = b.im)
  normIsZero z := isZeroBits z.re && isZeroBits z.im
  reIsZero z := isZeroBits z.re
  imIsZero z := isZeroBits z.im
  imIsOne z := decide (z.im = 0x3FF0000000000000)
  imIsNegOne z := decide (z.im = 0xBFF0000000000000)
  imIsNeg z := isNegBits z.im
  reFractIsZero _ := true
  reNonneg _ := true
  rePos _ := true
  reToNat _ := 0
  mulRe z _ := z
  powc z _ := z
  rem z _ := z
  sqrt z := z
  norm z := z
  normSqr z := z
  ceilRe z := z
  floorRe z := z
  fmtRe z := (fmtBits z.re).toList
  fmtIm z := (fmtBits z.im).toList
  fmtAbsIm z := (fmtBits (z.im &&& 0x7FFFFFFFFFFFFFFF)).toList
  sin z := z
  cos z := z
  tan z := z
  asin z := z
  acos z := z
  atan z := z
  sinh z := z
  cosh z := z
  tanh z := z
  asinh z := z
  acosh z := z
  atanh z := z
  reS z := z
  imS z := z
  argS z := z
  conj z := z
  ln z := z
  log2 z := z
  log10 z := z
  logBase _ z := z
  gcd z _ := z
  lcm z _ := z

/-! ## the shape of the digits text (as in Calc/Proofs/PrintBitsForms.lean) -/

/-- a non-empty string of decimal digits -/
def Digits (s : Str) : Prop := s ≠ [] ∧ ∀ c ∈ s, isDigit c = true

/-- a positional literal: `D` or `D.F` -/
def Positional (s : Str) : Prop :=
  Digits s ∨ ∃ ip fp, Digits ip ∧ Digits fp ∧ s = ip ++ '.' :: fp

theorem digits_toDigits (n : Nat) : Digits (Nat.toDigits 10 n) :=
  ⟨Nat.toDigits_ne_nil, fun _ h => PrintExample.digit_toDigits h⟩

theorem zeros_digits (j : Nat) : ∀ c ∈ List.replicate j '0', isDigit c = true := by
  intro c hc
  rw [(List.mem_replicate.1 hc).2]; decide

theorem fmtDigits_shape (c : Nat) (k : Int) : Positional (fmtDigits c k) := by
  have hd := digits_toDigits c
  unfold fmtDigits
  simp only []
  split
  · refine Or.inl ⟨by simp [hd.1], fun ch h => ?_⟩
    rcases List.mem_append.1 h with h | h
    · exact hd.2 ch h
    · exact zeros_digits _ ch h
  · rename_i hk
    split
    · rename_i hlen
      refine Or.inr ⟨_, _, ⟨?_, fun ch h => hd.2 ch (List.mem_of_mem_take h)⟩,
        ⟨?_, fun ch h => hd.2 ch (List.mem_of_mem_drop h)⟩, rfl⟩
      · intro h
        have := congrArg List.length h
        rw [List.length_take] at this
        simp at this; omega
      · intro h
        have := congrArg List.length h
        rw [List.length_drop] at this
        simp at this; omega
    · refine Or.inr ⟨['0'], _, ⟨by simp, by intro ch h; rw [List.mem_singleton] at h; rw [h]; decide⟩,
        ⟨by simp [hd.1], fun ch h => ?_⟩, rfl⟩
      rcases List.mem_append.1 h with h | h
      · exact zeros_digits _ ch h
      · exact hd.2 ch h

/-! ## a positional literal `D` / `D.F` is what the scanner's number rule consumes -/

theorem positional_head {t : Str} (h : Positional t) : ∃ c cs, t = c :: cs ∧ isDigit c = true := by
  rcases h with h | ⟨ip, fp, hi, _, rfl⟩
  · cases t with
    | nil => exact absurd rfl h.1
    | cons c cs => exact ⟨c, cs, rfl, h.2 c (by simp)⟩
  · cases ip with
    | nil => exact absurd rfl hi.1
    | cons c cs => exact ⟨c, cs ++ '.' :: fp, rfl, hi.2 c (by simp)⟩

theorem positional_scan {t : Str} (h : Positional t) (r : Str) (hr : stopN r.head?) :
    (scanNumber (t ++ r)).text = t ∧ (scanNumber (t ++ r)).rest = r := by
  rcases h with h | ⟨ip, fp, hi, hf, rfl⟩
  · obtain ⟨h1, h2⟩ := takeWhile_dropWhile_stop isDigit t r h.2 (fun c hc => (hr c hc).1)
    unfold scanNumber
    simp only [h1, h2]
    rw [scanExponent_none r (fun c hc => (hr c hc).2.2),
      scanFraction_none r (fun c hc => (hr c hc).2.1)]
    exact ⟨rfl, rfl⟩
  · have e : ip ++ '.' :: fp ++ r = ip ++ ('.' :: (fp ++ r)) := by simp
    obtain ⟨h1, h2⟩ := takeWhile_dropWhile_stop isDigit ip ('.' :: (fp ++ r)) hi.2
      (fun c hc => by injection hc with hc; subst hc; decide)
    obtain ⟨h3, h4⟩ := takeWhile_dropWhile_stop isDigit fp r hf.2 (fun c hc => (hr c hc).1)
    have hne : (fp : Str).isEmpty = false := by
      cases fp with
      | nil => exact absurd rfl hf.1
      | cons _ _ => rfl
    rw [e]
    unfold scanNumber
    simp only [h1, h2]
    rw [scanExponent_none ('.' :: (fp ++ r)) (fun c hc => by injection hc with hc; subst hc; decide)]
    simp only [scanFraction, h3, h4, hne, Bool.false_eq_true, if_false]
    rw [scanExponent_none r (fun c hc => (hr c hc).2.2)]
    exact ⟨rfl, rfl⟩

/-! ## `LitOK` for the literals the reader produces -/

theorem isZeroBits_lit {b : UInt64} (h0 : b ≠ 0) (hfin : b < 0x7FF0000000000000) :
    isZeroBits b = false := by
  have hn : b.toNat < 2047 * 2 ^ 52 := by
    have := UInt64.lt_iff_toNat_lt.1 hfin; rwa [inf_toNat] at this
  have hmag : b &&& 0x7FFFFFFFFFFFFFFF = b := by
    apply UInt64.toNat_inj.1
    rw [UInt64.toNat_and]
    have : (0x7FFFFFFFFFFFFFFF : UInt64).toNat = 2 ^ 63 - 1 := by decide
    rw [this, Nat.and_two_pow_sub_one_eq_mod]
    omega
  unfold isZeroBits
  rw [hmag]
  exact decide_eq_false h0

/-- **`LitOK` holds of every finite literal** of the bit-pattern kernel with the real printer and
    the real reader: if the decimal `m · 10^e` does not read as infinity, the value read prints a
    text that is a number literal of that very value, and the value is real. -/
theorem litOK_bits (m : Nat) (e : Int) (hfin : decimalToBits m e < 0x7FF0000000000000) :
    @LitOK CxPat litKernel (litKernel.ofDecimal m e) := by
  let _ : Kernel CxPat := litKernel
  have him : Kernel.imIsZero (S := CxPat) (litKernel.ofDecimal m e) = true := by
    show isZeroBits 0 = true
    decide
  refine ⟨?_, by rw [him]; simp⟩
  by_cases h0 : decimalToBits m e = 0
  · -- the literal is zero: it prints `0`
    have hz : litKernel.ofDecimal m e = ⟨0, 0⟩ := by
      show (⟨litBits m e, 0⟩ : CxPat) = ⟨0, 0⟩
      unfold litBits; rw [h0]
    have htext : complexToString (S := CxPat) (litKernel.ofDecimal m e) = ['0'] := by
      rw [hz]; decide
    rw [htext]
    have hn := numLit_digits (S := CxPat) ['0'] (by decide) (by decide)
    have hv : (Kernel.ofDecimal (digitsVal ['0']) 0 : CxPat) = litKernel.ofDecimal m e := by
      rw [hz]
      show (⟨litBits (digitsVal ['0']) 0, 0⟩ : CxPat) = ⟨0, 0⟩
      have : digitsVal ['0'] = 0 := by decide
      unfold litBits; rw [this, decimalToBits_zero 0]
    rw [← hv]; exact hn
  · -- positive finite: it prints `fmtBits`, a positional literal that reads back
    have hpos : 0 < decimalToBits m e := by
      rcases UInt64.lt_or_eq_of_le (UInt64.zero_le (a := decimalToBits m e)) with h | h
      · exact h
      · exact absurd h.symm h0
    have hre : Kernel.reIsZero (S := CxPat) (litKernel.ofDecimal m e) = false :=
      isZeroBits_lit h0 hfin
    have htext : complexToString (S := CxPat) (litKernel.ofDecimal m e) =
        (fmtBits (decimalToBits m e)).toList := by
      simp only [complexToString, hre, him]
      rfl
    rw [htext]
    have hshape : Positional (fmtBits (decimalToBits m e)).toList := by
      rw [fmtBits_pos _ hpos hfin, String.toList_ofList]
      exact fmtDigits_shape _ _
    obtain ⟨d, hd1, hd2⟩ := fmtBits_reads_back _ hpos hfin
    refine ⟨positional_head hshape, positional_scan hshape, d, hd1, ?_⟩
    show (⟨litBits d.mant d.exp, 0⟩ : CxPat) = ⟨litBits m e, 0⟩
    unfold litBits; rw [hd2]

end Calc.LitBits
