/-
  Calc.Proofs.BlameOps — where the diagnostics of the value-level operations point (C14):
  `binop`, `unop`, `groupop`, `asop`, `lookupIdent`, `callNative`, `callUser`.
  Core Lean only.
-/
import Calc.Model.Stmt
namespace Calc
variable {S : Type} [Add S] [Sub S] [Mul S] [Div S] [Zero S] [One S] [Kernel S]
set_option linter.unusedSectionVars false

/-! ### `Res.bind` -/

theorem Res.bind_ok_eq_diag {α β} (r : Res α) (f : α → β) (d : Diag) :
    (r.bind (fun x => .ok (f x)) = .diag d) = (r = .diag d) := by
  cases r <;> simp [Res.bind]

theorem Res.bind_eq_diag {α β} {r : Res α} {f : α → Res β} {d : Diag} (h : r.bind f = .diag d) :
    r = .diag d ∨ ∃ x, r = .ok x ∧ f x = .diag d := by
  cases r with
  | ok x => exact .inr ⟨x, rfl, h⟩
  | diag d' => simp only [Res.bind] at h; cases h; exact .inl rfl
  | panic s => simp [Res.bind] at h
  | fuel => simp [Res.bind] at h

/-! ### the matrix operations never produce a diagnostic themselves -/

theorem Mat.fromRows_ne_diag (a : Mat S) (d : Diag) : (Mat.fromRows a = .diag d) = False := by
  unfold Mat.fromRows; split <;> simp
theorem Mat.add_ne_diag (a b : Mat S) (d : Diag) : (Mat.add a b = .diag d) = False := by
  unfold Mat.add; split <;> simp
theorem Mat.sub_ne_diag (a b : Mat S) (d : Diag) : (Mat.sub a b = .diag d) = False := by
  unfold Mat.sub; split
  · simp
  · exact Mat.add_ne_diag _ _ _
theorem Mat.mul_ne_diag (a b : Mat S) (d : Diag) : (Mat.mul a b = .diag d) = False := by
  unfold Mat.mul; split
  · simp
  · exact Mat.fromRows_ne_diag _ _
theorem Mat.rowDot_ne_diag (a b : Mat S) (d : Diag) : (Mat.rowDot a b = .diag d) = False := by
  unfold Mat.rowDot; split <;> simp
theorem Mat.colDot_ne_diag (a b : Mat S) (d : Diag) : (Mat.colDot a b = .diag d) = False := by
  unfold Mat.colDot; split <;> simp
theorem Mat.rowCross_ne_diag (a b : Mat S) (d : Diag) : (Mat.rowCross a b = .diag d) = False := by
  unfold Mat.rowCross; split <;> simp
theorem Mat.colCross_ne_diag (a b : Mat S) (d : Diag) : (Mat.colCross a b = .diag d) = False := by
  unfold Mat.colCross; split <;> simp
theorem Mat.identity_ne_diag (n : Nat) (d : Diag) : (Mat.identity (S := S) n = .diag d) = False := by
  unfold Mat.identity; exact Mat.fromRows_ne_diag _ _
theorem Mat.transpose_ne_diag (a : Mat S) (d : Diag) : (Mat.transpose a = .diag d) = False := by
  unfold Mat.transpose; exact Mat.fromRows_ne_diag _ _
theorem Mat.det_ne_diag (a : Mat S) (d : Diag) : (Mat.det a = .diag d) = False := by
  unfold Mat.det; split
  · simp
  · split <;> simp
theorem Mat.inverse_ne_diag (a : Mat S) (d : Diag) : (Mat.inverse a = .diag d) = False := by
  apply eq_false
  intro h
  unfold Mat.inverse at h
  simp only [] at h
  repeat' split at h
  all_goals first
    | (cases h; done)
    | simp_all only [Mat.fromRows_ne_diag, Mat.transpose_ne_diag]

theorem numArg_ne_diag (args : List (Value S)) (i : Nat) (d : Diag) :
    (numArg args i = .diag d) = False := by
  unfold numArg; split <;> simp
theorem matArg_ne_diag (args : List (Value S)) (i : Nat) (d : Diag) :
    (matArg args i = .diag d) = False := by
  unfold matArg; split <;> simp

/-- closes a goal `d.line = _ ∧ d.col = _` from `h : <leaf of an operator> = .diag d` -/
macro "blame_leaf" h:ident : tactic => `(tactic| first
    | (simp only [Res.bind_ok_eq_diag, Mat.add_ne_diag, Mat.sub_ne_diag, Mat.mul_ne_diag,
        Mat.rowDot_ne_diag, Mat.colDot_ne_diag, Mat.rowCross_ne_diag, Mat.colCross_ne_diag,
        Mat.identity_ne_diag, Mat.transpose_ne_diag, Mat.det_ne_diag,
        numArg_ne_diag, matArg_ne_diag] at $h:ident; done)
    | (cases $h:ident <;> exact ⟨rfl, rfl⟩))

/-- closes any goal from `h : .ok _ = .diag d` or `h : .panic _ = .diag d` -/
macro "res_absurd" h:ident : tactic => `(tactic| (cases $h:ident; done))

/-! ### operators -/

theorem binop_diag_pos (op : Tok S) (a b : Value S) (d : Diag) (h : binop op a b = .diag d) :
    d.line = op.line ∧ d.col = op.col := by
  unfold binop at h
  simp only [diagAt] at h
  split at h
  all_goals (try split at h)
  all_goals (try split at h)
  all_goals (try split at h)
  all_goals blame_leaf h

theorem unop_diag_pos (op : Tok S) (v : Value S) (d : Diag) (h : unop op v = .diag d) :
    d.line = op.line ∧ d.col = op.col := by
  unfold unop at h
  simp only [diagAt] at h
  split at h
  all_goals (try split at h)
  all_goals (try split at h)
  all_goals blame_leaf h

theorem groupop_diag_pos (paren : Tok S) (k : GKind) (v : Value S) (d : Diag)
    (h : groupop paren k v = .diag d) : d.line = paren.line ∧ d.col = paren.col := by
  unfold groupop at h
  simp only [diagAt] at h
  split at h
  all_goals (try split at h)
  all_goals (try split at h)
  all_goals (try split at h)
  all_goals blame_leaf h

theorem asop_diag_pos (tok : Tok S) (u : Unit) (v : Value S) (d : Diag)
    (h : asop tok u v = .diag d) : d.line = tok.line ∧ d.col = tok.col := by
  unfold asop at h
  simp only [diagAt] at h
  split at h
  all_goals (try split at h)
  all_goals blame_leaf h

/-- the kinds `asop` reports -/
theorem asop_diag_kind (tok : Tok S) (u : Unit) (v : Value S) (d : Diag)
    (h : asop tok u v = .diag d) : d.kind = .invalidMeasurementConversion := by
  unfold asop at h
  simp only [diagAt] at h
  split at h
  all_goals (try split at h)
  all_goals first | res_absurd h | (cases h; rfl)

theorem lookupIdent_diag (name : Tok S) (env : Env S) (d : Diag)
    (h : lookupIdent name env = .diag d) :
    d.line = name.line ∧ d.col = name.col ∧ d.kind = .unknownVariable ∧
      Env.get env name.lexeme = none := by
  unfold lookupIdent at h
  simp only [diagAt] at h
  split at h
  · res_absurd h
  · next hn => cases h; exact ⟨rfl, rfl, rfl, hn⟩

/-! ### calls -/

theorem nativeBody_diag_pos (name : Str) (line col : Nat) (args : List (Value S)) (d : Diag)
    (h : nativeBody name line col args = .diag d) : d.line = line ∧ d.col = col := by
  unfold nativeBody at h
  split at h
  case h_30 =>
    rcases Res.bind_eq_diag h with h1 | ⟨m, -, h1⟩
    · simp only [matArg_ne_diag] at h1
    · rcases Res.bind_eq_diag h1 with h2 | ⟨r, -, h2⟩
      · simp only [Mat.inverse_ne_diag] at h2
      · split at h2
        · res_absurd h2
        · cases h2; exact ⟨rfl, rfl⟩
  all_goals first
    | res_absurd h
    | (simp only [num1, Res.bind_ok_eq_diag, numArg_ne_diag] at h; done)
    | (rcases Res.bind_eq_diag h with h1 | ⟨m, -, h1⟩
       · first | (simp only [matArg_ne_diag] at h1; done) | (simp only [numArg_ne_diag] at h1; done)
       · blame_leaf h1)

/-- the only diagnostic a native body produces itself -/
theorem nativeBody_diag_kind (name : Str) (line col : Nat) (args : List (Value S)) (d : Diag)
    (h : nativeBody name line col args = .diag d) : d.kind = .noInverseForMatrix := by
  unfold nativeBody at h
  split at h
  case h_30 =>
    rcases Res.bind_eq_diag h with h1 | ⟨m, -, h1⟩
    · simp only [matArg_ne_diag] at h1
    · rcases Res.bind_eq_diag h1 with h2 | ⟨r, -, h2⟩
      · simp only [Mat.inverse_ne_diag] at h2
      · split at h2
        · res_absurd h2
        · cases h2; rfl
  all_goals first
    | res_absurd h
    | (simp only [num1, Res.bind_ok_eq_diag, numArg_ne_diag] at h; done)
    | (rcases Res.bind_eq_diag h with h1 | ⟨m, -, h1⟩
       · first | (simp only [matArg_ne_diag] at h1; done) | (simp only [numArg_ne_diag] at h1; done)
       · simp only [Res.bind_ok_eq_diag, Mat.identity_ne_diag, Mat.transpose_ne_diag,
           Mat.det_ne_diag, numArg_ne_diag] at h1)

theorem callNative_diag_pos (name : Str) (line col : Nat) (args : List (Value S)) (d : Diag)
    (h : callNative name line col args = .diag d) : d.line = line ∧ d.col = col := by
  unfold callNative at h
  split at h
  · res_absurd h
  · split at h
    · cases h; exact ⟨rfl, rfl⟩
    · split at h
      · cases h; exact ⟨rfl, rfl⟩
      · exact nativeBody_diag_pos _ _ _ _ _ h

/-- a user call either reports "no matching signature" at the call's parenthesis, or its
    result is the result of evaluating the selected body -/
theorem callUser_diag (ev : Evaluator S) (fn : UserFn S) (line col : Nat)
    (args : List (Value S)) (env : Env S) (d : Diag)
    (h : callUser ev fn line col args env = .diag d) :
    (fn.sigs.find? (fun se => sigMatches se.1.params args) = none ∧
      d = ⟨.noMatchingSignature, line, col, fn.name⟩) ∨
    (∃ sig body, fn.sigs.find? (fun se => sigMatches se.1.params args) = some (sig, body) ∧
      (ev body (bindParams sig.params args env)).res = .diag d) := by
  unfold callUser at h
  split at h
  · next sig body hf => exact .inr ⟨sig, body, hf, h⟩
  · next hf => cases h; exact .inl ⟨hf, rfl⟩

end Calc
