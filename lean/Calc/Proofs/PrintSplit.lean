/-
  Calc.Proofs.PrintSplit — a printed measurement `number text ++ unit symbol` splits in only one
  way: some symbols are suffixes of others (`m` of `nm`, `t` of `ft`, `B` of `KiB`), but what is
  then left in front of the shorter symbol (`…n`, `…f`, `…Ki`) never ends like a number text.
-/
import Calc.Proofs.PrintComplex
namespace Calc
open Calc.Spec

/-- the characters a number text can end with -/
def endClass (c : Char) : Bool := isDigitCh c || c = ')' || c = 'i' || c = 'f' || c = 'N'

theorem numEndRev_head {l : Str} (h : numEndRev l = true) : ∃ c r, l = c :: r ∧ endClass c = true := by
  unfold numEndRev at h
  split at h
  · exact ⟨_, _, rfl, by decide⟩
  · exact ⟨_, _, rfl, by decide⟩
  · exact ⟨_, _, rfl, by decide⟩
  · obtain ⟨c, r, rfl, hc⟩ := realEndRev_head h
    refine ⟨c, r, rfl, ?_⟩
    rcases hc with hc | rfl | rfl
    · simp [endClass, hc]
    · decide
    · decide

theorem numEndRev_i {d : Char} {r : Str} (h : numEndRev ('i' :: d :: r) = true) :
    d = ' ' ∨ d = '-' ∨ endClass d = true := by
  unfold numEndRev at h
  split at h
  · rename_i heq; simp at heq
  · rename_i heq; simp at heq
  · rename_i heq
    simp only [List.cons.injEq, true_and] at heq
    obtain ⟨rfl, rfl⟩ := heq
    simp only [Bool.or_eq_true, decide_eq_true_eq] at h
    rcases h with (h | h) | h
    · exact Or.inl h
    · exact Or.inr (Or.inl h)
    · obtain ⟨c, r', he, hc⟩ := realEndRev_head h
      simp only [List.cons.injEq] at he
      obtain ⟨rfl, -⟩ := he
      right; right
      rcases hc with hc | rfl | rfl
      · simp [endClass, hc]
      · decide
      · decide
  · obtain ⟨c, r', he, hc⟩ := realEndRev_head h
    simp only [List.cons.injEq] at he
    obtain ⟨rfl, -⟩ := he
    rcases hc with hc | hc | hc
    · exact absurd hc (by decide)
    · exact absurd hc (by decide)
    · exact absurd hc (by decide)

theorem numEndRev_f {l : Str} (h : numEndRev ('f' :: l) = true) : ∃ r, l = 'n' :: 'i' :: r := by
  unfold numEndRev at h
  split at h
  · rename_i heq; simp at heq
  · rename_i heq; simp at heq
  · rename_i heq; simp at heq
  · unfold realEndRev at h
    split at h
    · rename_i heq; simp at heq; exact ⟨_, heq⟩
    · rename_i heq; simp at heq
    · rename_i heq; simp at heq
      rw [← heq.1] at h; exact absurd h (by decide)
    · cases h

/-- what may be left in front of the shorter of two symbols, read backwards: it does not end like
    a number text whatever stands before it — its last character is none a number text ends with
    (or is an `f`, which would need `in` before it), or it is an `i` after a character no number
    text has before its final `i` -/
def badW (w : Str) : Bool :=
  match w.reverse with
  | [] => false
  | [c] => !(endClass c) || c = 'f'
  | c :: d :: _ => !(endClass c) || (c = 'i' && !(d = ' ' || d = '-' || endClass d))

theorem not_numTextEnd_append (x w : Str) (hx : numTextEnd x = true) (hw : badW w = true) :
    numTextEnd (x ++ w) = false := by
  cases hn : numTextEnd (x ++ w) with
  | false => rfl
  | true =>
    exfalso
    unfold numTextEnd at hn hx
    rw [List.reverse_append] at hn
    unfold badW at hw
    cases hr : w.reverse with
    | nil => rw [hr] at hw; simp at hw
    | cons c t =>
      rw [hr] at hw hn
      obtain ⟨c', r', he, hc⟩ := numEndRev_head hn
      simp only [List.cons_append, List.cons.injEq] at he
      obtain ⟨rfl, -⟩ := he
      cases t with
      | nil =>
        simp only [hc, Bool.not_true, Bool.false_or, decide_eq_true_eq] at hw
        subst hw
        obtain ⟨r, hr'⟩ := numEndRev_f hn
        change List.reverse x = _ at hr'
        obtain ⟨c'', r'', he', hc'⟩ := numEndRev_head hx
        rw [hr'] at he'
        simp only [List.cons.injEq] at he'
        obtain ⟨rfl, -⟩ := he'
        exact absurd hc' (by decide)
      | cons d t' =>
        simp only [hc, Bool.not_true, Bool.false_or, Bool.and_eq_true, decide_eq_true_eq,
          Bool.not_eq_true'] at hw
        obtain ⟨rfl, hd⟩ := hw
        have := numEndRev_i hn
        simp only [Bool.or_eq_false_iff, decide_eq_false_iff_not] at hd
        rcases this with h | h | h
        · exact hd.1.1 h
        · exact hd.1.2 h
        · rw [h] at hd; exact absurd hd.2 (by simp)

/-- the finite check: whenever the symbol `sv` is a proper suffix of the symbol `su`, what is left
    of `su` in front of it is `badW` -/
def suffixCheck (su sv : Str) : Bool :=
  if sv.length < su.length ∧ su.drop (su.length - sv.length) = sv then
    badW (su.take (su.length - sv.length))
  else true

theorem symbol_suffix_table : ∀ u ∈ Unit.all, ∀ v ∈ Unit.all,
    suffixCheck (Gen.unitSymbol u).toList (Gen.unitSymbol v).toList = true := by decide +kernel

theorem symbols_distinct_table : ∀ u ∈ Unit.all, ∀ v ∈ Unit.all,
    Gen.unitSymbol u = Gen.unitSymbol v → u = v := by decide +kernel

theorem split_half (x y w : Str) (u v : Unit) (hu : u ∈ Unit.all) (hv : v ∈ Unit.all)
    (hx : numTextEnd x = true) (hy : numTextEnd y = true)
    (h1 : y = x ++ w) (h2 : unitSymbol u = w ++ unitSymbol v) : x = y ∧ u = v := by
  by_cases hw : w = []
  · subst hw
    simp only [List.append_nil, List.nil_append, unitSymbol] at h1 h2
    exact ⟨h1.symm, symbols_distinct_table u hu v hv (String.toList_inj.1 h2)⟩
  · exfalso
    have hlen : w.length ≠ 0 := fun h => hw (List.length_eq_zero_iff.1 h)
    have hc := symbol_suffix_table u hu v hv
    unfold unitSymbol at h2
    unfold suffixCheck at hc
    rw [h2] at hc
    have e1 : (w ++ (Gen.unitSymbol v).toList).length - (Gen.unitSymbol v).toList.length = w.length := by
      simp
    rw [e1, List.drop_left, List.take_left] at hc
    rw [if_pos ⟨by simp; omega, rfl⟩] at hc
    have := not_numTextEnd_append x w hx hc
    rw [← h1, hy] at this
    cases this

/-- **the split of a printed measurement is unique**: if a number text followed by a unit symbol
    equals a number text followed by a unit symbol, the number texts are equal and the units are
    equal (for texts that end as number texts do, `Spec.numTextEnd`). -/
theorem split_unique (x y : Str) (u v : Unit) (hu : u ∈ Unit.all) (hv : v ∈ Unit.all)
    (hx : numTextEnd x = true) (hy : numTextEnd y = true)
    (h : x ++ unitSymbol u = y ++ unitSymbol v) : x = y ∧ u = v := by
  rcases List.append_eq_append_iff.1 h with ⟨w, h1, h2⟩ | ⟨w, h1, h2⟩
  · exact split_half x y w u v hu hv hx hy h1 h2
  · have := split_half y x w v u hv hu hy hx h1 h2
    exact ⟨this.1.symm, this.2.symm⟩

/-! ### the number part of a printed measurement ends like a number text -/

theorem realEndRev_numEndRev {l : Str} (h : realEndRev l = true) : numEndRev l = true := by
  obtain ⟨c, r, rfl, hc⟩ := realEndRev_head h
  unfold numEndRev
  split
  · rfl
  · rfl
  · rename_i heq
    simp only [List.cons.injEq] at heq
    obtain ⟨rfl, -⟩ := heq
    rcases hc with hc | hc | hc <;> exact absurd hc (by decide)
  · exact h

theorem realEndRev_append (l t : Str) (h : realEndRev l = true) : realEndRev (l ++ t) = true := by
  unfold realEndRev at h
  split at h
  · rfl
  · rfl
  · rename_i c tail h1 h2
    simp only [List.cons_append]
    unfold realEndRev
    split
    · rfl
    · rfl
    · rename_i heq; simp only [List.cons.injEq] at heq; rw [← heq.1]; exact h
    · rename_i heq; simp at heq
  · cases h

theorem numEndRev_i_of_real {c : Char} {l : Str} (h : realEndRev (c :: l) = true) :
    numEndRev ('i' :: c :: l) = true := by
  unfold numEndRev
  split
  · rfl
  · rfl
  · rename_i heq
    simp only [List.cons.injEq, true_and] at heq
    obtain ⟨rfl, rfl⟩ := heq
    simp [h]
  · exfalso
    rename_i h1 h2 h3
    first | exact h3 _ _ rfl | exact h2 _ _ rfl | exact h1 _ _ rfl

section
variable {S R : Type} [Kernel S] [Zero R] [One R] [Neg R]

theorem numTextEnd_fmt (F : FmtSpec S R) (x : R) : numTextEnd (F.fmt x) = true :=
  realEndRev_numEndRev (F.fmt_end x)

theorem numTextEnd_fmt_i (F : FmtSpec S R) (x : R) (pre : Str) :
    numTextEnd (pre ++ F.fmt x ++ ['i']) = true := by
  have h := F.fmt_end x
  unfold realTextEnd at h
  obtain ⟨c, r, hr, -⟩ := realEndRev_head h
  unfold numTextEnd
  simp only [List.reverse_append, List.reverse_cons, List.reverse_nil, List.nil_append, hr,
    List.cons_append]
  rw [hr] at h
  exact numEndRev_i_of_real (realEndRev_append (c :: r) pre.reverse h)

theorem numTextEnd_sp_i (pre : Str) : numTextEnd (pre ++ [' ', 'i']) = true := by
  unfold numTextEnd
  simp only [List.reverse_append, List.reverse_cons, List.reverse_nil, List.nil_append,
    List.cons_append]
  rfl

theorem str_plus_i : " + i".toList = [' ', '+'] ++ [' ', 'i'] := by decide
theorem str_minus_i : " - i".toList = [' ', '-'] ++ [' ', 'i'] := by decide

/-- under `FmtSpec`, the text of a number ends like a number text -/
theorem numTextEnd_complexToString (F : FmtSpec S R) (z : S) :
    numTextEnd (complexToString z) = true := by
  unfold complexToString
  simp only [F.fmtRe_eq, F.fmtIm_eq, F.fmtAbsIm_eq]
  repeat' split
  all_goals first
    | exact numTextEnd_fmt F _
    | exact numTextEnd_fmt_i F _ _
    | (have := numTextEnd_fmt_i F (F.im z) []; simpa using this)
    | (rw [str_plus_i, ← List.append_assoc]; exact numTextEnd_sp_i _)
    | (rw [str_minus_i, ← List.append_assoc]; exact numTextEnd_sp_i _)
    | decide

omit [Kernel S] [Zero R] [One R] [Neg R] in
theorem getLast?_snoc {α : Type} (a : List α) (c : α) : (a ++ [c]).getLast? = some c := by simp

theorem str_plus_i' : " + i".toList = [' ', '+', ' '] ++ ['i'] := by decide
theorem str_minus_i' : " - i".toList = [' ', '-', ' '] ++ ['i'] := by decide

/-- the text of a number never ends with a closing parenthesis -/
theorem complexToString_last_ne_paren (F : FmtSpec S R) (z : S) :
    (complexToString z).getLast? ≠ some ')' := by
  have hf : ∀ x : R, (F.fmt x).getLast? ≠ some ')' := by
    intro x h
    obtain ⟨c, hc, hcl⟩ := realTextEnd_last (F.fmt_end x)
    rw [hc] at h
    injection h with h
    subst h
    rcases hcl with h | h | h <;> exact absurd h (by decide)
  unfold complexToString
  simp only [F.fmtRe_eq, F.fmtIm_eq, F.fmtAbsIm_eq]
  repeat' split
  all_goals first
    | exact hf _
    | (rw [getLast?_snoc]; decide)
    | (rw [str_plus_i', ← List.append_assoc, getLast?_snoc]; decide)
    | (rw [str_minus_i', ← List.append_assoc, getLast?_snoc]; decide)
    | decide

/-- the number part of a printed measurement: parenthesised when both parts are non-zero -/
def measText (z : S) : Str :=
  if !Kernel.reIsZero z && !Kernel.imIsZero z then ['('] ++ complexToString z ++ [')']
  else complexToString z

omit [Zero R] [One R] [Neg R] in
theorem showMeasurement_eq (z : S) (u : Unit) : showMeasurement z u = measText z ++ unitSymbol u := by
  unfold showMeasurement measText
  split <;> simp

theorem numTextEnd_measText (F : FmtSpec S R) (z : S) : numTextEnd (measText z) = true := by
  unfold measText
  split
  · unfold numTextEnd
    simp only [List.reverse_append, List.reverse_cons, List.reverse_nil, List.nil_append,
      List.cons_append]
    rfl
  · exact numTextEnd_complexToString F z

theorem measText_inj (F : FmtSpec S R) (z w : S) (h : measText z = measText w) :
    complexToString z = complexToString w := by
  unfold measText at h
  split at h <;> split at h
  · simpa using h
  · exfalso
    apply complexToString_last_ne_paren F w
    rw [← h]; exact getLast?_snoc _ _
  · exfalso
    apply complexToString_last_ne_paren F z
    rw [h]; exact getLast?_snoc _ _
  · exact h

/-- **a printed measurement determines its number text and its unit** -/
theorem showMeasurement_inj (F : FmtSpec S R) (z w : S) (u v : Unit) (hu : u ∈ Unit.all)
    (hv : v ∈ Unit.all) (h : showMeasurement z u = showMeasurement w v) :
    complexToString z = complexToString w ∧ u = v := by
  rw [showMeasurement_eq, showMeasurement_eq] at h
  have := split_unique _ _ u v hu hv (numTextEnd_measText F z) (numTextEnd_measText F w) h
  exact ⟨measText_inj F z w this.1, this.2⟩

end

end Calc
