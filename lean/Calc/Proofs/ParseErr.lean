/-
  Calc.Proofs.ParseErr — where a parse error points (C14, parser half).

  `ErrSpec ts e`: relative to the input `ts` of a parser function, the error `e` is either an
  "expected … but found" error naming the first token of an unconsumed suffix of `ts` (or end of
  input exactly when that suffix is empty), or a row-length error naming a `[` token of `ts`.
  Proved for all 22 functions of the mutual family by one induction on fuel (`errAt`), then for
  `pDelete`, `pStatement`, `parseLoop`, `parse`.  Core Lean only.
-/
import Calc.Proofs.ParseBasic
namespace Calc
variable {S : Type}

/-- the four "expected … but found …" kinds -/
def ParseErrKind.isExpected : ParseErrKind → Bool
  | .expectedExpression | .expectedUnit | .expectedDelimeter | .expectedToken => true
  | _ => false

/-- the errors a level function may return on input `ts` -/
inductive ErrSpec (ts : List (Tok S)) : PErr → Prop
  /-- "expected … but found": names the head of an unconsumed suffix `rest`; EOF iff `rest = []` -/
  | found (k : ParseErrKind) (hk : k.isExpected = true) (c rest : List (Tok S)) (info : Str)
      (h : ts = c ++ rest) : ErrSpec ts (PErr.found k rest.head? info)
  /-- row-length mismatch: names an opening bracket of the input -/
  | rowlen (c : List (Tok S)) (t : Tok S) (r : List (Tok S)) (info : Str)
      (h : ts = c ++ t :: r) (ht : t.tag = .lbracket) :
      ErrSpec ts ⟨.inconsistentMatrixRowLength, some (t.line, t.col), info⟩

theorem ErrSpec.prepend (c : List (Tok S)) {r : List (Tok S)} {e : PErr} (h : ErrSpec r e) :
    ErrSpec (c ++ r) e := by
  cases h with
  | found k hk c' rest info h => exact .found k hk (c ++ c') rest info (by simp [h])
  | rowlen c' t r' info h ht => exact .rowlen (c ++ c') t r' info (by simp [h]) ht

theorem ErrSpec.cons (t : Tok S) {r : List (Tok S)} {e : PErr} (h : ErrSpec r e) :
    ErrSpec (t :: r) e := ErrSpec.prepend [t] h

theorem ErrSpec.of_suffix {ts r : List (Tok S)} {e : PErr} (hs : Suffix ts r) (h : ErrSpec r e) :
    ErrSpec ts e := by
  obtain ⟨c, rfl⟩ := hs
  exact h.prepend c

/-- an "expected" error found right at the start of `ts` -/
theorem ErrSpec.here (k : ParseErrKind) (hk : k.isExpected = true) (ts : List (Tok S))
    (info : Str := []) : ErrSpec ts (PErr.found k ts.head? info) :=
  .found k hk [] ts info rfl

/-- unfolding `ErrSpec` for the "expected" kinds: the position is that of the first token of an
    unconsumed suffix, `none` exactly when that suffix is empty -/
theorem ErrSpec.expected_pos {ts : List (Tok S)} {e : PErr} (h : ErrSpec ts e)
    (hk : e.kind.isExpected = true) :
    ∃ c rest, ts = c ++ rest ∧ e.pos = rest.head?.map (fun t => (t.line, t.col)) := by
  cases h with
  | found k _ c rest info h => exact ⟨c, rest, h, rfl⟩
  | rowlen c t r info h ht => simp [ParseErrKind.isExpected] at hk

/-- unfolding `ErrSpec` for the row-length kind: the position is that of a `[` of the input -/
theorem ErrSpec.rowlen_pos {ts : List (Tok S)} {e : PErr} (h : ErrSpec ts e)
    (hk : e.kind = .inconsistentMatrixRowLength) :
    ∃ c t r, ts = c ++ t :: r ∧ t.tag = .lbracket ∧ e.pos = some (t.line, t.col) := by
  cases h with
  | found k hk' c rest info h =>
    simp only [PErr.found] at hk
    subst hk
    simp [ParseErrKind.isExpected] at hk'
  | rowlen c t r info h ht => exact ⟨c, t, r, h, ht, rfl⟩

theorem ErrSpec.kind_cases {ts : List (Tok S)} {e : PErr} (h : ErrSpec ts e) :
    e.kind.isExpected = true ∨ e.kind = .inconsistentMatrixRowLength := by
  cases h with
  | found k hk c rest info h => exact .inl hk
  | rowlen c t r info h ht => exact .inr rfl

theorem ErrSpec.kind_ne {ts : List (Tok S)} {e : PErr} (h : ErrSpec ts e) :
    e.kind ≠ .cannotDelete ∧ e.kind ≠ .invalidAssignmentTarget := by
  rcases h.kind_cases with hk | hk
  · constructor <;> intro h' <;> rw [h'] at hk <;> simp [ParseErrKind.isExpected] at hk
  · rw [hk]; simp

theorem consume_err {tg : Tag} {ts : List (Tok S)} {e} (h : consume tg ts = .err e) :
    ErrSpec ts e := by
  unfold consume at h
  split at h
  · split at h
    · cases h
    · cases h; exact ErrSpec.here .expectedToken rfl (_ :: _) _
  · cases h; exact ErrSpec.here .expectedToken rfl [] _

theorem consumeDelim_err {ts : List (Tok S)} {e} (h : consumeDelim ts = .err e) :
    ErrSpec ts e := by
  unfold consumeDelim at h
  split at h
  · split at h
    · cases h
    · cases h; exact ErrSpec.here .expectedDelimeter rfl (_ :: _) _
  · cases h; exact ErrSpec.here .expectedDelimeter rfl [] _

/-- the row-length error of a matrix literal whose opening bracket is `br` -/
def RowLenAt (br : Tok S) (e : PErr) : Prop :=
  e.kind = .inconsistentMatrixRowLength ∧ e.pos = some (br.line, br.col)

/-- the error statement for all 22 functions at one fuel value -/
structure ErrAt (S : Type) (f : Nat) : Prop where
  expression : ∀ (ts : List (Tok S)) e, pExpression f ts = .err e → ErrSpec ts e
  term : ∀ (ts : List (Tok S)) e, pTerm f ts = .err e → ErrSpec ts e
  termLoop : ∀ acc (ts : List (Tok S)) e, pTermLoop f acc ts = .err e → ErrSpec ts e
  factor : ∀ (ts : List (Tok S)) e, pFactor f ts = .err e → ErrSpec ts e
  factorLoop : ∀ acc (ts : List (Tok S)) e, pFactorLoop f acc ts = .err e → ErrSpec ts e
  dot : ∀ (ts : List (Tok S)) e, pDot f ts = .err e → ErrSpec ts e
  dotLoop : ∀ acc (ts : List (Tok S)) e, pDotLoop f acc ts = .err e → ErrSpec ts e
  cross : ∀ (ts : List (Tok S)) e, pCross f ts = .err e → ErrSpec ts e
  crossLoop : ∀ acc (ts : List (Tok S)) e, pCrossLoop f acc ts = .err e → ErrSpec ts e
  exponent : ∀ (ts : List (Tok S)) e, pExponent f ts = .err e → ErrSpec ts e
  exponentLoop : ∀ acc (ts : List (Tok S)) e, pExponentLoop f acc ts = .err e → ErrSpec ts e
  unary : ∀ (ts : List (Tok S)) e, pUnary f ts = .err e → ErrSpec ts e
  factorial : ∀ (ts : List (Tok S)) e, pFactorial f ts = .err e → ErrSpec ts e
  factorialLoop : ∀ acc (ts : List (Tok S)) e, pFactorialLoop f acc ts = .err e → ErrSpec ts e
  call : ∀ (ts : List (Tok S)) e, pCall f ts = .err e → ErrSpec ts e
  callLoop : ∀ acc (ts : List (Tok S)) e, pCallLoop f acc ts = .err e → ErrSpec ts e
  args : ∀ (ts : List (Tok S)) e, pArgs f ts = .err e → ErrSpec ts e
  argsLoop : ∀ (ts : List (Tok S)) e, pArgsLoop f ts = .err e → ErrSpec ts e
  rows : ∀ br prev idx (ts : List (Tok S)) e, pRows f br prev idx ts = .err e →
    ErrSpec ts e ∨ RowLenAt br e
  rowsNext : ∀ br prev idx (ts : List (Tok S)) e, pRowsNext f br prev idx ts = .err e →
    ErrSpec ts e ∨ RowLenAt br e
  primary : ∀ (ts : List (Tok S)) e, pPrimary f ts = .err e → ErrSpec ts e
  group : ∀ o k (ts : List (Tok S)) e, pGroup f o k ts = .err e → ErrSpec ts e

set_option hygiene false in
/-- `level = sub-level, then loop` -/
local macro "lvl_err " sf1:term ", " ih1:term ", " ih2:term : tactic => `(tactic| (
  split at h
  · rename_i e1 r1 h1
    exact ErrSpec.of_suffix ($sf1 _ _ _ h1).suffix ($ih2 _ _ _ h)
  · rename_i e1 h1
    cases h
    exact $ih1 _ _ h1
  · cases h))

set_option hygiene false in
/-- `loop: operator, operand, loop` -/
local macro "loop_err " sf1:term ", " ih1:term ", " ih2:term : tactic => `(tactic| (
  split at h
  · split at h
    · split at h
      · rename_i e1 r1 h1
        exact (ErrSpec.of_suffix ($sf1 _ _ _ h1).suffix ($ih2 _ _ _ h)).cons _
      · rename_i e1 h1
        cases h
        exact ($ih1 _ _ h1).cons _
      · cases h
    · cases h
  · cases h))

theorem errAt : ∀ f, ErrAt S f := by
  intro f
  induction f with
  | zero => constructor <;> intros <;> rename_i h <;> simp [pExpression, pTerm, pTermLoop, pFactor,
      pFactorLoop, pDot, pDotLoop, pCross, pCrossLoop, pExponent, pExponentLoop, pUnary,
      pFactorial, pFactorialLoop, pCall, pCallLoop, pArgs, pArgsLoop, pRows, pRowsNext,
      pPrimary, pGroup] at h
  | succ f ih =>
    have sf := suffixAt (S := S) f
    constructor
    case expression =>
      intro ts e h
      simp only [pExpression] at h
      split at h
      · rename_i e1 r1 h1
        have s1 := (sf.term _ _ _ h1).suffix
        split at h
        · split at h
          · split at h
            · split at h
              · cases h
              · cases h
                exact ErrSpec.of_suffix s1 (.found .expectedUnit rfl [_] (_ :: _) [] rfl)
            · cases h
              exact ErrSpec.of_suffix s1 (.found .expectedUnit rfl [_] [] [] rfl)
          · cases h
        · cases h
      · rename_i e1 h1
        cases h
        exact ih.term _ _ h1
      · cases h
    case term => intro ts e h; simp only [pTerm] at h; lvl_err sf.factor, ih.factor, ih.termLoop
    case factor => intro ts e h; simp only [pFactor] at h; lvl_err sf.dot, ih.dot, ih.factorLoop
    case dot => intro ts e h; simp only [pDot] at h; lvl_err sf.cross, ih.cross, ih.dotLoop
    case cross =>
      intro ts e h; simp only [pCross] at h; lvl_err sf.exponent, ih.exponent, ih.crossLoop
    case exponent =>
      intro ts e h; simp only [pExponent] at h; lvl_err sf.unary, ih.unary, ih.exponentLoop
    case factorial =>
      intro ts e h; simp only [pFactorial] at h; lvl_err sf.call, ih.call, ih.factorialLoop
    case call => intro ts e h; simp only [pCall] at h; lvl_err sf.primary, ih.primary, ih.callLoop
    case termLoop =>
      intro acc ts e h; simp only [pTermLoop] at h; loop_err sf.factor, ih.factor, ih.termLoop
    case factorLoop =>
      intro acc ts e h; simp only [pFactorLoop] at h; loop_err sf.dot, ih.dot, ih.factorLoop
    case dotLoop =>
      intro acc ts e h; simp only [pDotLoop] at h; loop_err sf.cross, ih.cross, ih.dotLoop
    case crossLoop =>
      intro acc ts e h; simp only [pCrossLoop] at h
      loop_err sf.exponent, ih.exponent, ih.crossLoop
    case exponentLoop =>
      intro acc ts e h; simp only [pExponentLoop] at h
      loop_err sf.exponent, ih.exponent, ih.exponentLoop
    case unary =>
      intro ts e h
      simp only [pUnary] at h
      split at h
      · split at h
        · split at h
          · cases h
          · rename_i e1 h1
            cases h
            exact (ih.unary _ _ h1).cons _
          · cases h
        · exact ih.factorial _ _ h
      · exact ih.factorial _ _ h
    case factorialLoop =>
      intro acc ts e h
      simp only [pFactorialLoop] at h
      split at h
      · split at h
        · exact (ih.factorialLoop _ _ _ h).cons _
        · cases h
      · cases h
    case callLoop =>
      intro acc ts e h
      simp only [pCallLoop] at h
      split at h
      · split at h
        · split at h
          · rename_i args r1 h1
            have s1 := sf.args _ _ _ h1
            split at h
            · rename_i cl r2 h2
              obtain ⟨rfl, _⟩ := consume_ok h2
              exact (ErrSpec.of_suffix s1 ((ih.callLoop _ _ _ h).cons _)).cons _
            · rename_i e2 h2
              cases h
              exact (ErrSpec.of_suffix s1 (consume_err h2)).cons _
            · cases h
          · rename_i e1 h1
            cases h
            exact (ih.args _ _ h1).cons _
          · cases h
        · cases h
      · cases h
    case args =>
      intro ts e h
      simp only [pArgs] at h
      split at h
      · cases h
      · exact ih.argsLoop _ _ h
    case argsLoop =>
      intro ts e h
      simp only [pArgsLoop] at h
      split at h
      · rename_i e1 r1 h1
        have s1 := (sf.expression _ _ _ h1).suffix
        split at h
        · split at h
          · split at h
            · cases h
            · rename_i e2 h2
              cases h
              exact ErrSpec.of_suffix s1 ((ih.argsLoop _ _ h2).cons _)
            · cases h
          · cases h
        · cases h
      · rename_i e1 h1
        cases h
        exact ih.expression _ _ h1
      · cases h
    case rows =>
      intro br prev idx ts e h
      simp only [pRows] at h
      split at h
      · rename_i row r1 h1
        have s1 := sf.args _ _ _ h1
        split at h
        · split at h
          · cases h
            exact .inr ⟨rfl, rfl⟩
          · exact (ih.rowsNext _ _ _ _ _ h).imp (ErrSpec.of_suffix s1) id
        · exact (ih.rowsNext _ _ _ _ _ h).imp (ErrSpec.of_suffix s1) id
      · rename_i e1 h1
        cases h
        exact .inl (ih.args _ _ h1)
      · cases h
    case rowsNext =>
      intro br prev idx ts e h
      simp only [pRowsNext] at h
      split at h
      · split at h
        · exact (ih.rows _ _ _ _ _ h).imp (ErrSpec.cons _) id
        · cases h
      · cases h
    case primary =>
      intro ts e h
      simp only [pPrimary] at h
      split at h
      · cases h
        exact ErrSpec.here .expectedExpression rfl []
      · split at h
        · split at h
          · split at h
            · cases h
            · cases h
          · cases h
        · cases h
        · exact (ih.group _ _ _ _ h).cons _
        · exact (ih.group _ _ _ _ h).cons _
        · exact (ih.group _ _ _ _ h).cons _
        · exact (ih.group _ _ _ _ h).cons _
        · rename_i hk
          split at h
          · rename_i rows r1 h1
            have s1 := sf.rows _ _ _ _ _ _ h1
            split at h
            · cases h
            · rename_i e2 h2
              cases h
              exact (ErrSpec.of_suffix s1 (consume_err h2)).cons _
            · cases h
          · rename_i e1 h1
            cases h
            rcases ih.rows _ _ _ _ _ h1 with h' | ⟨hkind, hpos⟩
            · exact h'.cons _
            · obtain ⟨k, p, info⟩ := e
              simp only at hkind hpos
              subst hkind hpos
              exact .rowlen [] _ _ info rfl (by simp [Tok.tag, hk, Kind.tag])
          · cases h
        · cases h
          exact ErrSpec.here .expectedExpression rfl (_ :: _)
    case group =>
      intro o k ts e h
      simp only [pGroup] at h
      split at h
      · rename_i e1 r1 h1
        have s1 := (sf.expression _ _ _ h1).suffix
        split at h
        · cases h
        · rename_i e2 h2
          cases h
          exact ErrSpec.of_suffix s1 (consume_err h2)
        · cases h
      · rename_i e1 h1
        cases h
        exact ih.expression _ _ h1
      · cases h

/-! ## Statements and programs -/

/-- `r` is what is left of `ts` after a prefix that ends with a statement delimiter -/
def DelimEnd (ts r : List (Tok S)) : Prop :=
  ∃ c d, ts = c ++ d :: r ∧ (d.tag = .newline ∨ d.tag = .semicolon)

theorem DelimEnd.of {ts r1 r2 : List (Tok S)} {d : Tok S} (s1 : Suffix ts r1) (hc : r1 = d :: r2)
    (hd : d.tag = .newline ∨ d.tag = .semicolon) : DelimEnd ts r2 := by
  obtain ⟨c, rfl⟩ := s1
  exact ⟨c, d, by rw [hc], hd⟩

theorem DelimEnd.cons (t : Tok S) {ts r : List (Tok S)} (h : DelimEnd ts r) :
    DelimEnd (t :: ts) r := by
  obtain ⟨c, d, rfl, hd⟩ := h
  exact ⟨t :: c, d, rfl, hd⟩

theorem DelimEnd.suffix {ts r : List (Tok S)} (h : DelimEnd ts r) : Suffix ts r := by
  obtain ⟨c, d, rfl, _⟩ := h
  exact ⟨c ++ [d], by simp⟩

theorem pDelete_suffix {fuel : Nat} {del : Tok S} {ts : List (Tok S)} {s r}
    (h : pDelete fuel del ts = .ok s r) : DelimEnd ts r := by
  simp only [pDelete] at h
  split at h
  · rename_i e1 r1 h1
    have s1 := ((suffixAt fuel).expression _ _ _ h1).suffix
    split at h
    · split at h
      · rename_i d r2 h2
        obtain ⟨hc, hd⟩ := consumeDelim_ok h2
        cases h
        exact DelimEnd.of s1 hc hd
      · cases h
      · cases h
    · split at h
      · rename_i d r2 h2
        obtain ⟨hc, hd⟩ := consumeDelim_ok h2
        split at h
        · cases h
          exact DelimEnd.of s1 hc hd
        · cases h
      · cases h
      · cases h
    · cases h
  · cases h
  · cases h

/-- `delete_statement`: an "expected" / row-length error of the operand or the delimiter, or
    `cannotDelete` at the `delete` token -/
theorem pDelete_err {fuel : Nat} {del : Tok S} {ts : List (Tok S)} {e}
    (h : pDelete fuel del ts = .err e) :
    ErrSpec ts e ∨ (e.kind = .cannotDelete ∧ e.pos = some (del.line, del.col)) := by
  simp only [pDelete] at h
  split at h
  · rename_i e1 r1 h1
    have s1 := ((suffixAt fuel).expression _ _ _ h1).suffix
    split at h
    · split at h
      · cases h
      · rename_i e2 h2
        cases h
        exact .inl (ErrSpec.of_suffix s1 (consumeDelim_err h2))
      · cases h
    · split at h
      · split at h
        · cases h
        · cases h
          exact .inr ⟨rfl, rfl⟩
      · rename_i e2 h2
        cases h
        exact .inl (ErrSpec.of_suffix s1 (consumeDelim_err h2))
      · cases h
    · cases h
      exact .inr ⟨rfl, rfl⟩
  · rename_i e1 h1
    cases h
    exact .inl ((errAt fuel).expression _ _ h1)
  · cases h

set_option hygiene false in
/-- the `expression_statement` tail: `h` is about `match consumeDelim r1 with …`, `s1 : Suffix ts r1` -/
local macro "expr_stmt_err" : tactic => `(tactic| (
  split at h
  · cases h
  · rename_i e2 h2
    cases h
    exact .inl (ErrSpec.of_suffix s1 (consumeDelim_err h2))
  · cases h))

set_option hygiene false in
local macro "expr_stmt_suffix" : tactic => `(tactic| (
  split at h
  · rename_i d r2 h2
    obtain ⟨hc, hd⟩ := consumeDelim_ok h2
    cases h
    exact DelimEnd.of s1 hc hd
  · cases h
  · cases h))

/-- assignment / function declaration / expression statement: an "expected" / row-length error,
    or `invalidAssignmentTarget` at the `=` token that directly follows the parsed left side -/
theorem pStatementExpr_err {fuel : Nat} {ts : List (Tok S)} {e}
    (h : pStatement.pStatementExpr fuel ts = .err e) :
    ErrSpec ts e ∨ (e.kind = .invalidAssignmentTarget ∧ ∃ c eq r lhs, ts = c ++ eq :: r ∧
      pExpression fuel ts = .ok lhs (eq :: r) ∧ eq.tag = .equal ∧
      e.pos = some (eq.line, eq.col)) := by
  simp only [pStatement.pStatementExpr] at h
  split at h
  · rename_i e1 r1 h1
    have s1 := ((suffixAt fuel).expression _ _ _ h1).suffix
    split at h
    · split at h
      · split at h
        · split at h
          · rename_i right r2 h2
            have s2 := ((suffixAt fuel).expression _ _ _ h2).suffix
            split at h
            · cases h
            · rename_i e3 h3
              cases h
              exact .inl (ErrSpec.of_suffix s1 ((ErrSpec.of_suffix s2 (consumeDelim_err h3)).cons _))
            · cases h
          · rename_i e2 h2
            cases h
            exact .inl (ErrSpec.of_suffix s1 (((errAt fuel).expression _ _ h2).cons _))
          · cases h
        · expr_stmt_err
      · expr_stmt_err
    · split at h
      · split at h
        · rename_i heq
          split at h
          · rename_i body r2 h2
            have s2 := ((suffixAt fuel).expression _ _ _ h2).suffix
            split at h
            · split at h
              · cases h
              · cases h
                obtain ⟨c, hc⟩ := s1
                exact .inr ⟨rfl, c, _, _, _, hc, h1, heq, rfl⟩
            · rename_i e3 h3
              cases h
              exact .inl (ErrSpec.of_suffix s1 ((ErrSpec.of_suffix s2 (consumeDelim_err h3)).cons _))
            · cases h
          · rename_i e2 h2
            cases h
            exact .inl (ErrSpec.of_suffix s1 (((errAt fuel).expression _ _ h2).cons _))
          · cases h
        · expr_stmt_err
      · expr_stmt_err
    · expr_stmt_err
  · rename_i e1 h1
    cases h
    exact .inl ((errAt fuel).expression _ _ h1)
  · cases h

theorem pStatementExpr_suffix {fuel : Nat} {ts : List (Tok S)} {s r}
    (h : pStatement.pStatementExpr fuel ts = .ok s r) : DelimEnd ts r := by
  simp only [pStatement.pStatementExpr] at h
  split at h
  · rename_i e1 r1 h1
    have s1 := ((suffixAt fuel).expression _ _ _ h1).suffix
    split at h
    · split at h
      · split at h
        · split at h
          · rename_i right r2 h2
            have s2 := ((suffixAt fuel).expression _ _ _ h2).suffix
            split at h
            · rename_i d r3 h3
              obtain ⟨hc, hd⟩ := consumeDelim_ok h3
              cases h
              exact DelimEnd.of (s1.trans (Suffix.cons _ s2).suffix) hc hd
            · cases h
            · cases h
          · cases h
          · cases h
        · expr_stmt_suffix
      · expr_stmt_suffix
    · split at h
      · split at h
        · split at h
          · rename_i body r2 h2
            have s2 := ((suffixAt fuel).expression _ _ _ h2).suffix
            split at h
            · rename_i d r3 h3
              obtain ⟨hc, hd⟩ := consumeDelim_ok h3
              split at h
              · cases h
                exact DelimEnd.of (s1.trans (Suffix.cons _ s2).suffix) hc hd
              · cases h
            · cases h
            · cases h
          · cases h
          · cases h
        · expr_stmt_suffix
      · expr_stmt_suffix
    · expr_stmt_suffix
  · cases h
  · cases h

theorem pStatement_suffix {fuel : Nat} {ts : List (Tok S)} {s r}
    (h : pStatement fuel ts = .ok s r) : DelimEnd ts r := by
  simp only [pStatement] at h
  split at h
  · split at h
    · exact (pDelete_suffix h).cons _
    · split at h
      · split at h
        · rename_i d r2 h2
          obtain ⟨hc, hd⟩ := consumeDelim_ok h2
          cases h
          exact (DelimEnd.of (Suffix.refl _) hc hd).cons _
        · cases h
        · cases h
      · exact pStatementExpr_suffix h
  · exact pStatementExpr_suffix h

/-- `statement`: the trichotomy of C14 -/
theorem pStatement_err {fuel : Nat} {ts : List (Tok S)} {e} (h : pStatement fuel ts = .err e) :
    ErrSpec ts e ∨
    (e.kind = .cannotDelete ∧ ∃ d r, ts = d :: r ∧ d.tag = .delete ∧
      e.pos = some (d.line, d.col)) ∨
    (e.kind = .invalidAssignmentTarget ∧ ∃ c eq r lhs, ts = c ++ eq :: r ∧
      pExpression fuel ts = .ok lhs (eq :: r) ∧ eq.tag = .equal ∧
      e.pos = some (eq.line, eq.col)) := by
  simp only [pStatement] at h
  split at h
  · split at h
    · rename_i hd
      rcases pDelete_err h with h' | ⟨hk, hp⟩
      · exact .inl (h'.cons _)
      · exact .inr (.inl ⟨hk, _, _, rfl, hd, hp⟩)
    · split at h
      · split at h
        · cases h
        · rename_i e2 h2
          cases h
          exact .inl ((consumeDelim_err h2).cons _)
        · cases h
      · exact (pStatementExpr_err h).imp id .inr
  · exact (pStatementExpr_err h).imp id .inr

/-- `c` is empty or ends with a statement delimiter: what follows `c` starts a statement -/
def StmtBoundary (c : List (Tok S)) : Prop :=
  c = [] ∨ ∃ c' d, c = c' ++ [d] ∧ (d.tag = .newline ∨ d.tag = .semicolon)

theorem StmtBoundary.append {c1 c : List (Tok S)}
    (h1 : ∃ c' d, c1 = c' ++ [d] ∧ (d.tag = .newline ∨ d.tag = .semicolon))
    (h : StmtBoundary c) : StmtBoundary (c1 ++ c) := by
  rcases h with rfl | ⟨c', d, rfl, hd⟩
  · simpa using .inr h1
  · exact .inr ⟨c1 ++ c', d, by simp, hd⟩

/-- the errors `parse` may return on the whole input `ts` (`inner` = the fuel of the expression
    parser) -/
def ProgErrSpec (inner : Nat) (ts : List (Tok S)) (e : PErr) : Prop :=
  ErrSpec ts e ∨
  (e.kind = .cannotDelete ∧ ∃ c d r, ts = c ++ d :: r ∧ StmtBoundary c ∧ d.tag = .delete ∧
    e.pos = some (d.line, d.col)) ∨
  (e.kind = .invalidAssignmentTarget ∧ ∃ c0 c eq r lhs, ts = c0 ++ (c ++ eq :: r) ∧
    StmtBoundary c0 ∧ pExpression inner (c ++ eq :: r) = .ok lhs (eq :: r) ∧ eq.tag = .equal ∧
    e.pos = some (eq.line, eq.col))

theorem ProgErrSpec.prepend {inner : Nat} {c : List (Tok S)}
    (hc : ∃ c' d, c = c' ++ [d] ∧ (d.tag = .newline ∨ d.tag = .semicolon))
    {r : List (Tok S)} {e : PErr} (h : ProgErrSpec inner r e) : ProgErrSpec inner (c ++ r) e := by
  rcases h with h | ⟨hk, c', d, r', rfl, hb, hd, hp⟩ | ⟨hk, c0, c', q, r', lhs, rfl, hb, hl, hq, hp⟩
  · exact .inl (h.prepend c)
  · exact .inr (.inl ⟨hk, c ++ c', d, r', by simp, hb.append hc, hd, hp⟩)
  · exact .inr (.inr ⟨hk, c ++ c0, c', q, r', lhs, by simp, hb.append hc, hl, hq, hp⟩)

theorem ProgErrSpec.of_statement {fuel : Nat} {ts : List (Tok S)} {e}
    (h : pStatement fuel ts = .err e) : ProgErrSpec fuel ts e := by
  rcases pStatement_err h with h | ⟨hk, d, r, rfl, hd, hp⟩ | ⟨hk, c, q, r, lhs, hc, hl, hq, hp⟩
  · exact .inl h
  · exact .inr (.inl ⟨hk, [], d, r, rfl, .inl rfl, hd, hp⟩)
  · subst hc
    exact .inr (.inr ⟨hk, [], c, q, r, lhs, rfl, .inl rfl, hl, hq, hp⟩)

theorem parseLoop_err (inner : Nat) : ∀ (f : Nat) (ts : List (Tok S)) e,
    parseLoop inner f ts = .err e → ProgErrSpec inner ts e := by
  intro f
  induction f with
  | zero =>
    intro ts e h
    cases ts <;> simp [parseLoop] at h
  | succ f ih =>
    intro ts e h
    cases ts with
    | nil => simp [parseLoop] at h
    | cons t r =>
      simp only [parseLoop] at h
      split at h
      · rename_i hd
        exact (ih _ _ h).prepend (c := [t]) ⟨[], t, rfl, by simpa using hd⟩
      · split at h
        · rename_i s rest hs
          obtain ⟨c, d, hc, hd⟩ := pStatement_suffix hs
          split at h
          · cases h
          · rw [hc, show c ++ d :: rest = (c ++ [d]) ++ rest by simp]
            exact (ih _ _ h).prepend ⟨c, d, rfl, hd⟩
        · rename_i e1 h1
          cases h
          exact ProgErrSpec.of_statement h1
        · cases h

theorem parse_err {ts : List (Tok S)} {e} (h : parse ts = .err e) :
    ProgErrSpec (parseFuel ts.length) ts e :=
  parseLoop_err _ _ _ _ h

end Calc
