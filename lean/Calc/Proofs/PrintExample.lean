/-
  Calc.Proofs.PrintExample — the hypothesis `FmtSpec` of the C15 theorems is satisfiable:
  Gaussian integers (`Int × Int`) with the usual decimal printing of integers
  (`Nat.toDigits 10`, a leading `-` for negatives) and the usual decimal reader.

  Only the fields of `Kernel` that the printers use are meaningful here; the others are dummies.
-/
import Calc.Spec.Reader
namespace Calc.PrintExample
open Calc Calc.Spec

abbrev G := Int × Int

def fmtInt (x : Int) : Str := (if x < 0 then ['-'] else []) ++ Nat.toDigits 10 x.natAbs

def readInt : Str → Option Int
  | '-' :: ds => some (-(Nat.ofDigitChars 10 ds 0 : Int))
  | ds => some (Nat.ofDigitChars 10 ds 0 : Int)

instance kernel : Kernel G where
  negOne := (-1, 0)
  i := (0, 1)
  inf := (0, 0)
  ofNat n := (n, 0)
  ofDecimal m _ := (m, 0)
  ofRatio a _ := (a, 0)
  ofBits a b := (a, b)
  eq a b := a == b
  normIsZero z := z.1 == 0 && z.2 == 0
  reIsZero z := z.1 == 0
  imIsZero z := z.2 == 0
  imIsOne z := z.2 == 1
  imIsNegOne z := z.2 == -1
  imIsNeg z := decide (z.2 < 0)
  reFractIsZero _ := true
  reNonneg z := decide (0 ≤ z.1)
  rePos z := decide (0 < z.1)
  reToNat z := z.1.toNat
  mulRe z w := (z.1 * w.1, z.2 * w.1)
  powc z _ := z
  rem z _ := z
  sqrt z := z
  norm z := z
  normSqr z := z
  ceilRe z := z
  floorRe z := z
  fmtRe z := fmtInt z.1
  fmtIm z := fmtInt z.2
  fmtAbsIm z := fmtInt z.2.natAbs
  sin z := z
  cos z := z
  tan z := z
  asin z := z
  acos z := z
  atan z := z
  sinh z := z
  cosh z := z
  tanh z := z
  asinh z := z
  acosh z := z
  atanh z := z
  reS z := (z.1, 0)
  imS z := (z.2, 0)
  argS z := z
  conj z := (z.1, -z.2)
  ln z := z
  log2 z := z
  log10 z := z
  logBase _ z := z
  gcd z _ := z
  lcm z _ := z

theorem digit_toDigits {n : Nat} {c : Char} (h : c ∈ Nat.toDigits 10 n) : isDigitCh c = true := by
  have := Nat.isDigit_of_mem_toDigits (by omega) (by omega) h
  simp only [Char.isDigit, Bool.and_eq_true, decide_eq_true_eq] at this
  simp only [isDigitCh, Bool.and_eq_true, decide_eq_true_eq]
  exact ⟨by simpa [Char.le_def, UInt32.le_iff_toNat_le] using this.1,
         by simpa [Char.le_def, UInt32.le_iff_toNat_le] using this.2⟩

theorem realTextEnd_of_last_digit {s : Str} {c : Char} (h : s.getLast? = some c)
    (hc : isDigitCh c = true) : realTextEnd s = true := by
  rw [List.getLast?_eq_head?_reverse] at h
  unfold realTextEnd
  cases hr : s.reverse with
  | nil => rw [hr] at h; simp at h
  | cons d r =>
    rw [hr] at h; simp at h; subst h
    unfold realEndRev
    split
    · rfl
    · rfl
    · rename_i heq; simp at heq; rw [← heq.1]; exact hc
    · rename_i heq; simp at heq

theorem readInt_fmtInt (x : Int) : readInt (fmtInt x) = some x := by
  unfold fmtInt
  by_cases hx : x < 0
  · simp only [hx, if_true, List.singleton_append, readInt, Nat.ofDigitChars_ten_toDigits]
    congr 1; omega
  · simp only [hx, if_false, List.nil_append]
    have hne : ∀ ds, Nat.toDigits 10 x.natAbs ≠ '-' :: ds := by
      intro ds e
      have := digit_toDigits (n := x.natAbs) (c := '-') (by rw [e]; simp)
      revert this; decide
    unfold readInt
    split
    · rename_i ds e; exact absurd e (hne ds)
    · rw [Nat.ofDigitChars_ten_toDigits]; congr 1; omega

theorem fmtInt_noblank (x : Int) : ' ' ∉ fmtInt x := by
  unfold fmtInt
  intro h
  rcases List.mem_append.1 h with h | h
  · split at h <;> simp at h
  · have := digit_toDigits h
    revert this; decide

theorem fmtInt_end (x : Int) : realTextEnd (fmtInt x) = true := by
  have hne : Nat.toDigits 10 x.natAbs ≠ [] := Nat.toDigits_ne_nil
  have hl : (fmtInt x).getLast? = some ((Nat.toDigits 10 x.natAbs).getLast hne) := by
    unfold fmtInt
    rw [List.getLast?_append, List.getLast?_eq_some_getLast hne]; rfl
  exact realTextEnd_of_last_digit hl (digit_toDigits (List.getLast_mem hne))

theorem fmtInt_clean (x : Int) : ',' ∉ fmtInt x ∧ '\n' ∉ fmtInt x := by
  unfold fmtInt
  constructor <;>
  · intro h
    rcases List.mem_append.1 h with h | h
    · split at h <;> simp at h
    · exact absurd (digit_toDigits h) (by decide)

/-- the instance: `FmtSpec` holds of the Gaussian integers with decimal printing -/
def fmtSpec : FmtSpec G Int where
  re z := z.1
  im z := z.2
  fmt := fmtInt
  read := readInt
  isZero x := x == 0
  isNeg x := decide (x < 0)
  abs x := x.natAbs
  reIsZero_eq _ := rfl
  imIsZero_eq _ := rfl
  imIsOne_iff z := by show (z.2 == 1) = true ↔ z.2 = 1; simp
  imIsNegOne_iff z := by show (z.2 == -1) = true ↔ z.2 = -1; simp
  imIsNeg_eq _ := rfl
  fmtRe_eq _ := rfl
  fmtIm_eq _ := rfl
  fmtAbsIm_eq _ := rfl
  isZero_zero := rfl
  read_zero := by decide
  neg_abs x h := by simp only [decide_eq_true_eq] at h; omega
  read_fmt := readInt_fmtInt
  fmt_noblank := fmtInt_noblank
  fmt_end := fmtInt_end

/-- in this instance the zero test is equality with zero -/
theorem fmtSpec_isZero (x : Int) : fmtSpec.isZero x = true → x = 0 := by
  show (x == 0) = true → x = 0
  simp

end Calc.PrintExample
