/-
  Calc.Proofs.ParseErrLocal — an "expected … but found" error points at the first unconsumed
  token, exactly (C14, parser half, error locality).

  `ErrLoc p ts e`: the input splits as `ts = c ++ rest`, the error `e` carries the position of the
  head of `rest` (end of input when `rest = []`), and the error is determined by the consumed
  prefix `c` and the *tag* of the head of `rest` alone: on `c ++ rest'`, for any `rest'` whose
  head has the same tag (so `rest' = []` iff `rest = []`), `p` fails with the same kind and info
  and the position of the head of `rest'`.  Hence the reported token is the one at index
  `c.length`: moving that token moves the reported position, and nothing after it matters.

  Proved for all 22 parser functions by one induction on fuel (`errLocalAt`), using the
  ok-locality of Calc.Proofs.ParseLocality for the sub-calls that succeeded before the failing
  one; then for `pDelete`, `pStatement`.  Core Lean only.
-/
import Calc.Proofs.ParseErr
import Calc.Proofs.ParseLocality
namespace Calc
variable {S : Type}

/-! ## Heads -/

/-- `b` starts with a token of the same tag as `a` does, or both are empty -/
def SameHeadTag (a b : List (Tok S)) : Prop := b.head?.map Tok.tag = a.head?.map Tok.tag

/-- the position an "expected … but found" error reports when the unconsumed input is `l` -/
def posOf (l : List (Tok S)) : Option (Nat × Nat) := l.head?.map (fun t => (t.line, t.col))

theorem SameHeadTag.refl (a : List (Tok S)) : SameHeadTag a a := rfl

theorem SameHeadTag.nil_inv {b : List (Tok S)} (h : SameHeadTag [] b) : b = [] := by
  cases b with
  | nil => rfl
  | cons t r => simp [SameHeadTag] at h

theorem SameHeadTag.cons_inv {t : Tok S} {r b : List (Tok S)} (h : SameHeadTag (t :: r) b) :
    ∃ t' r', b = t' :: r' ∧ t'.tag = t.tag := by
  cases b with
  | nil => simp [SameHeadTag] at h
  | cons t' r' => exact ⟨t', r', rfl, by simpa [SameHeadTag] using h⟩

theorem SameHeadTag.cons {t t' : Tok S} (h : t'.tag = t.tag) (r r' : List (Tok S)) :
    SameHeadTag (t :: r) (t' :: r') := by simp [SameHeadTag, h]

theorem SameHeadTag.append (c : List (Tok S)) {a b : List (Tok S)} (h : SameHeadTag a b) :
    SameHeadTag (c ++ a) (c ++ b) := by
  cases c with
  | nil => exact h
  | cons t c => rfl

theorem SameHeadTag.checkTag {a b : List (Tok S)} (h : SameHeadTag a b) (tg : Tag) :
    checkTag tg b = checkTag tg a := by
  cases a with
  | nil => rw [h.nil_inv]
  | cons t r =>
    obtain ⟨t', r', rfl, ht⟩ := h.cons_inv
    simp [Calc.checkTag, ht]

/-! ## Sequencing -/

def PRes.bind {α β : Type} (x : PRes S α) (k : α → List (Tok S) → PRes S β) : PRes S β :=
  match x with
  | .ok a r => k a r
  | .err e => .err e
  | .fuel => .fuel

/-- closes `(match q with | .ok a r => k a r | .err e => .err e | .fuel => .fuel) = q.bind k` -/
local macro "bind_rfl" : tactic =>
  `(tactic| first | rfl | (split <;> (rename_i hq; rw [hq]; rfl)))

/-- ok-locality with the whole rest replaced: what a successful `p` returns does not change when
    the rest it stopped at is replaced by one whose head has the same tag -/
theorem Loc.replace {α : Type} {R : Tok S → Tok S → Prop} {p : List (Tok S) → PRes S α}
    (hp : Loc R p) (hR : ∀ d d' : Tok S, d'.tag = d.tag → R d d') {ts : List (Tok S)} {a : α}
    (c2 : List (Tok S)) {rest : List (Tok S)} (h : p ts = .ok a (c2 ++ rest)) :
    ∃ c, ts = c ++ (c2 ++ rest) ∧
      ∀ rest', SameHeadTag rest rest' → p (c ++ (c2 ++ rest')) = .ok a (c2 ++ rest') := by
  cases c2 with
  | cons t c2 =>
    obtain ⟨c, hc, H⟩ := hp _ _ _ _ (show p ts = .ok a (t :: (c2 ++ rest)) from h)
    exact ⟨c, hc, fun rest' _ => H t (c2 ++ rest') (hR t t rfl)⟩
  | nil =>
    cases rest with
    | nil =>
      refine ⟨ts, by simp, fun rest' hs => ?_⟩
      rw [hs.nil_inv]
      simpa using h
    | cons d r =>
      obtain ⟨c, hc, H⟩ := hp _ _ _ _ (show p ts = .ok a (d :: r) from h)
      refine ⟨c, hc, fun rest' hs => ?_⟩
      obtain ⟨d', r', rfl, hd⟩ := hs.cons_inv
      exact H d' r' (hR d d' hd)

/-! ## Error locality -/

/-- `p` fails on `ts` with `e`, which points exactly at the first token `p` did not consume -/
def ErrLoc {α : Type} (p : List (Tok S) → PRes S α) (ts : List (Tok S)) (e : PErr) : Prop :=
  ∃ c rest, ts = c ++ rest ∧ e.pos = posOf rest ∧
    ∀ rest', SameHeadTag rest rest' → p (c ++ rest') = .err ⟨e.kind, posOf rest', e.info⟩

section
variable {α β : Type} {p p' : List (Tok S) → PRes S α} {ts : List (Tok S)} {e : PErr}

theorem ErrLoc.err (h : ErrLoc p ts e) : p ts = .err e := by
  obtain ⟨c, rest, rfl, hpos, H⟩ := h
  rw [H rest (SameHeadTag.refl _), ← hpos]

/-- `p` agrees with `p'` on every input with the same head tag as `ts` -/
theorem ErrLoc.congrHead (hp : ∀ ts', SameHeadTag ts ts' → p ts' = p' ts') (h : ErrLoc p' ts e) :
    ErrLoc p ts e := by
  obtain ⟨c, rest, rfl, hpos, H⟩ := h
  exact ⟨c, rest, rfl, hpos, fun rest' hs => by rw [hp _ (hs.append c)]; exact H rest' hs⟩

theorem ErrLoc.congr (hp : ∀ ts', p ts' = p' ts') (h : ErrLoc p' ts e) : ErrLoc p ts e :=
  h.congrHead (fun ts' _ => hp ts')

theorem ErrLoc.cons (t : Tok S) {r : List (Tok S)} (h : ErrLoc (fun r => p (t :: r)) r e) :
    ErrLoc p (t :: r) e := by
  obtain ⟨c, rest, rfl, hpos, H⟩ := h
  exact ⟨t :: c, rest, rfl, hpos, H⟩

theorem ErrLoc.here_nil {k : ParseErrKind} {info : Str} (hp : p [] = .err ⟨k, none, info⟩) :
    ErrLoc p [] ⟨k, none, info⟩ :=
  ⟨[], [], rfl, rfl, fun rest' hs => by rw [hs.nil_inv]; exact hp⟩

theorem ErrLoc.here_cons {k : ParseErrKind} {info : Str} {t : Tok S} {r : List (Tok S)}
    (hp : ∀ t' r', t'.tag = t.tag → p (t' :: r') = .err ⟨k, some (t'.line, t'.col), info⟩) :
    ErrLoc p (t :: r) ⟨k, some (t.line, t.col), info⟩ :=
  ⟨[], t :: r, rfl, rfl, fun rest' hs => by
    obtain ⟨t', r', rfl, ht⟩ := hs.cons_inv
    exact hp t' r' ht⟩

theorem ErrLoc.bind_err {q : List (Tok S) → PRes S β} (k : β → List (Tok S) → PRes S α)
    (h : ErrLoc q ts e) : ErrLoc (fun ts => (q ts).bind k) ts e := by
  obtain ⟨c, rest, rfl, hpos, H⟩ := h
  exact ⟨c, rest, rfl, hpos, fun rest' hs => by simp only [H rest' hs, PRes.bind]⟩

theorem ErrLoc.bind_ok {R : Tok S → Tok S → Prop} {q : List (Tok S) → PRes S β}
    (k : β → List (Tok S) → PRes S α) (hq : Loc R q)
    (hR : ∀ d d' : Tok S, d'.tag = d.tag → R d d') {a : β} {r1 : List (Tok S)}
    (h1 : q ts = .ok a r1) (h : ErrLoc (k a) r1 e) : ErrLoc (fun ts => (q ts).bind k) ts e := by
  obtain ⟨c2, rest, rfl, hpos, H⟩ := h
  obtain ⟨c, rfl, H1⟩ := hq.replace hR c2 h1
  refine ⟨c ++ c2, rest, by simp, hpos, fun rest' hs => ?_⟩
  simp only [List.append_assoc, H1 rest' hs, PRes.bind, H rest' hs]

end

theorem sw_of_tag (d d' : Tok S) (h : d'.tag = d.tag) : Sw d d' := Or.inl h
theorem sameTag_of_tag (d d' : Tok S) (h : d'.tag = d.tag) : SameTag d d' := h

theorem consume_errLoc {tg : Tag} {ts : List (Tok S)} {e} (h : consume tg ts = .err e) :
    ErrLoc (consume tg) ts e := by
  unfold consume at h
  split at h
  · rename_i t r
    split at h
    · cases h
    · rename_i hne
      cases h
      exact ErrLoc.here_cons (fun t' r' ht => by simp [consume, ht, hne, PErr.found])
  · cases h
    exact ErrLoc.here_nil (by simp [consume, PErr.found])

theorem consumeDelim_errLoc {ts : List (Tok S)} {e} (h : consumeDelim ts = .err e) :
    ErrLoc consumeDelim ts e := by
  unfold consumeDelim at h
  split at h
  · rename_i t r
    split at h
    · cases h
    · rename_i hne
      cases h
      exact ErrLoc.here_cons (fun t' r' ht => by simp [consumeDelim, ht, hne, PErr.found])
  · cases h
    exact ErrLoc.here_nil (by simp [consumeDelim, PErr.found])

/-! ## The tails of the functions that are not a plain `bind` -/

/-- what `expression` does after `term` -/
def exprTail (e : Expr S) (r : List (Tok S)) : PRes S (Expr S) :=
  match r with
  | t :: r' =>
    if t.tag = .as_ then
      match r' with
      | u :: r'' =>
        match u.kind with
        | .unit un => .ok (.as_ e t un) r''
        | _ => .err (PErr.found .expectedUnit (some u))
      | [] => .err (PErr.found (S := S) .expectedUnit none)
    else .ok e r
  | [] => .ok e r

/-- what the argument loop does after one `expression` -/
def argsTail (f : Nat) (e : Expr S) (r : List (Tok S)) : PRes S (List (Expr S)) :=
  match r with
  | t :: r' =>
    if t.tag = .comma then (pArgsLoop f r').bind (fun es r'' => .ok (e :: es) r'')
    else .ok [e] r
  | [] => .ok [e] r

/-- what the row loop does after one row -/
def rowsTail (f : Nat) (br : Tok S) (prev : List (List (Expr S))) (idx : Nat) (row : List (Expr S))
    (r : List (Tok S)) : PRes S (List (List (Expr S))) :=
  match prev.getLast? with
  | some last =>
    if last.length ≠ row.length then
      .err ⟨.inconsistentMatrixRowLength, some (br.line, br.col),
            (toString (idx + 1) ++ ":" ++ toString last.length ++ ":" ++ toString row.length).toList⟩
    else pRowsNext f br (prev ++ [row]) idx r
  | none => pRowsNext f br (prev ++ [row]) idx r

/-- tags that can start a primary expression -/
def primaryStart : Tag → Bool
  | .number | .ident | .lparen | .pipe | .lceil | .lfloor | .lbracket => true
  | _ => false

theorem pPrimary_bad {f : Nat} {t : Tok S} {r : List (Tok S)} (h : primaryStart t.tag = false) :
    pPrimary (f + 1) (t :: r) = .err (PErr.found .expectedExpression (some t)) := by
  unfold Tok.tag at h
  simp only [pPrimary]
  cases hk : t.kind <;> simp [hk, Kind.tag, primaryStart] at h ⊢

/-- the error-locality statement for all 22 functions at one fuel value -/
structure ErrLocalAt (S : Type) (f : Nat) : Prop where
  expression : ∀ (ts : List (Tok S)) e, pExpression f ts = .err e → e.kind.isExpected = true →
    ErrLoc (pExpression f) ts e
  term : ∀ (ts : List (Tok S)) e, pTerm f ts = .err e → e.kind.isExpected = true →
    ErrLoc (pTerm f) ts e
  termLoop : ∀ acc (ts : List (Tok S)) e, pTermLoop f acc ts = .err e →
    e.kind.isExpected = true → ErrLoc (pTermLoop f acc) ts e
  factor : ∀ (ts : List (Tok S)) e, pFactor f ts = .err e → e.kind.isExpected = true →
    ErrLoc (pFactor f) ts e
  factorLoop : ∀ acc (ts : List (Tok S)) e, pFactorLoop f acc ts = .err e →
    e.kind.isExpected = true → ErrLoc (pFactorLoop f acc) ts e
  dot : ∀ (ts : List (Tok S)) e, pDot f ts = .err e → e.kind.isExpected = true →
    ErrLoc (pDot f) ts e
  dotLoop : ∀ acc (ts : List (Tok S)) e, pDotLoop f acc ts = .err e →
    e.kind.isExpected = true → ErrLoc (pDotLoop f acc) ts e
  cross : ∀ (ts : List (Tok S)) e, pCross f ts = .err e → e.kind.isExpected = true →
    ErrLoc (pCross f) ts e
  crossLoop : ∀ acc (ts : List (Tok S)) e, pCrossLoop f acc ts = .err e →
    e.kind.isExpected = true → ErrLoc (pCrossLoop f acc) ts e
  exponent : ∀ (ts : List (Tok S)) e, pExponent f ts = .err e → e.kind.isExpected = true →
    ErrLoc (pExponent f) ts e
  exponentLoop : ∀ acc (ts : List (Tok S)) e, pExponentLoop f acc ts = .err e →
    e.kind.isExpected = true → ErrLoc (pExponentLoop f acc) ts e
  unary : ∀ (ts : List (Tok S)) e, pUnary f ts = .err e → e.kind.isExpected = true →
    ErrLoc (pUnary f) ts e
  factorial : ∀ (ts : List (Tok S)) e, pFactorial f ts = .err e → e.kind.isExpected = true →
    ErrLoc (pFactorial f) ts e
  factorialLoop : ∀ acc (ts : List (Tok S)) e, pFactorialLoop f acc ts = .err e →
    e.kind.isExpected = true → ErrLoc (pFactorialLoop f acc) ts e
  call : ∀ (ts : List (Tok S)) e, pCall f ts = .err e → e.kind.isExpected = true →
    ErrLoc (pCall f) ts e
  callLoop : ∀ acc (ts : List (Tok S)) e, pCallLoop f acc ts = .err e →
    e.kind.isExpected = true → ErrLoc (pCallLoop f acc) ts e
  args : ∀ (ts : List (Tok S)) e, pArgs f ts = .err e → e.kind.isExpected = true →
    ErrLoc (pArgs f) ts e
  argsLoop : ∀ (ts : List (Tok S)) e, pArgsLoop f ts = .err e → e.kind.isExpected = true →
    ErrLoc (pArgsLoop f) ts e
  rows : ∀ br prev idx (ts : List (Tok S)) e, pRows f br prev idx ts = .err e →
    e.kind.isExpected = true → ErrLoc (pRows f br prev idx) ts e
  rowsNext : ∀ br prev idx (ts : List (Tok S)) e, pRowsNext f br prev idx ts = .err e →
    e.kind.isExpected = true → ErrLoc (pRowsNext f br prev idx) ts e
  primary : ∀ (ts : List (Tok S)) e, pPrimary f ts = .err e → e.kind.isExpected = true →
    ErrLoc (pPrimary f) ts e
  group : ∀ o k (ts : List (Tok S)) e, pGroup f o k ts = .err e → e.kind.isExpected = true →
    ErrLoc (pGroup f o k) ts e

set_option hygiene false in
/-- `level = sub-level, then loop` -/
local macro "lvl_el " fn:ident ", " l1:term ", " ih1:term ", " ih2:term : tactic => `(tactic| (
  split at h
  · rename_i e1 r1 h1
    exact (ErrLoc.bind_ok _ $l1 sw_of_tag h1 ($ih2 _ _ _ h hk)).congr
      (fun ts' => by simp only [$fn:ident]; bind_rfl)
  · rename_i e1 h1
    cases h
    exact (ErrLoc.bind_err _ ($ih1 _ _ h1 hk)).congr
      (fun ts' => by simp only [$fn:ident]; bind_rfl)
  · cases h))

set_option hygiene false in
/-- `loop: operator, operand, loop` -/
local macro "loop_el " fn:ident ", " l1:term ", " ih1:term ", " ih2:term : tactic => `(tactic| (
  split at h
  · rename_i t r0
    split at h
    · rename_i hop
      split at h
      · rename_i e1 r1 h1
        exact ErrLoc.cons t ((ErrLoc.bind_ok (fun right r' => $fn:ident f (.binary acc t right) r')
          $l1 sw_of_tag h1 ($ih2 _ _ _ h hk)).congr
          (fun ts' => by simp only [$fn:ident, hop, if_true]; bind_rfl))
      · rename_i e1 h1
        cases h
        exact ErrLoc.cons t ((ErrLoc.bind_err (fun right r' => $fn:ident f (.binary acc t right) r')
          ($ih1 _ _ h1 hk)).congr (fun ts' => by simp only [$fn:ident, hop, if_true]; bind_rfl))
      · cases h
    · cases h
  · cases h))

theorem errLocalAt : ∀ f, ErrLocalAt S f := by
  intro f
  induction f with
  | zero => constructor <;> intros <;> rename_i h _ <;> simp [pExpression, pTerm, pTermLoop,
      pFactor, pFactorLoop, pDot, pDotLoop, pCross, pCrossLoop, pExponent, pExponentLoop, pUnary,
      pFactorial, pFactorialLoop, pCall, pCallLoop, pArgs, pArgsLoop, pRows, pRowsNext,
      pPrimary, pGroup] at h
  | succ f ih =>
    have L := localAt (S := S) f
    constructor
    case term =>
      intro ts e h hk; simp only [pTerm] at h; lvl_el pTerm, L.factor, ih.factor, ih.termLoop
    case factor =>
      intro ts e h hk; simp only [pFactor] at h; lvl_el pFactor, L.dot, ih.dot, ih.factorLoop
    case dot =>
      intro ts e h hk; simp only [pDot] at h; lvl_el pDot, L.cross, ih.cross, ih.dotLoop
    case cross =>
      intro ts e h hk; simp only [pCross] at h
      lvl_el pCross, L.exponent, ih.exponent, ih.crossLoop
    case exponent =>
      intro ts e h hk; simp only [pExponent] at h
      lvl_el pExponent, L.unary, ih.unary, ih.exponentLoop
    case factorial =>
      intro ts e h hk; simp only [pFactorial] at h
      lvl_el pFactorial, L.call, ih.call, ih.factorialLoop
    case call =>
      intro ts e h hk; simp only [pCall] at h; lvl_el pCall, L.primary, ih.primary, ih.callLoop
    case termLoop =>
      intro acc ts e h hk; simp only [pTermLoop] at h
      loop_el pTermLoop, L.factor, ih.factor, ih.termLoop
    case factorLoop =>
      intro acc ts e h hk; simp only [pFactorLoop] at h
      loop_el pFactorLoop, L.dot, ih.dot, ih.factorLoop
    case dotLoop =>
      intro acc ts e h hk; simp only [pDotLoop] at h
      loop_el pDotLoop, L.cross, ih.cross, ih.dotLoop
    case crossLoop =>
      intro acc ts e h hk; simp only [pCrossLoop] at h
      loop_el pCrossLoop, L.exponent, ih.exponent, ih.crossLoop
    case exponentLoop =>
      intro acc ts e h hk; simp only [pExponentLoop] at h
      loop_el pExponentLoop, L.exponent, ih.exponent, ih.exponentLoop
    case expression =>
      intro ts e h hk
      have hE : ∀ ts' : List (Tok S), pExpression (f + 1) ts' = (pTerm f ts').bind exprTail :=
        fun ts' => by simp only [pExpression]; bind_rfl
      simp only [pExpression] at h
      split at h
      · rename_i e1 r1 h1
        refine (ErrLoc.bind_ok exprTail L.term sw_of_tag h1 ?_).congr hE
        split at h
        · rename_i t r1'
          split at h
          · rename_i has
            refine ErrLoc.cons t ?_
            split at h
            · rename_i u r2
              split at h
              · cases h
              · rename_i hnu
                cases h
                refine ErrLoc.here_cons (fun u' r' hu' => ?_)
                have hnu' := (sw_of_tag u u' hu').not_unit (fun un hun => hnu un hun)
                simp only [exprTail, has, if_true]
                first
                  | rfl
                  | (split
                     · rename_i un hun
                       exact absurd hun (hnu' un)
                     · rfl)
            · cases h
              exact ErrLoc.here_nil (by simp only [exprTail, has, if_true]; rfl)
          · cases h
        · cases h
      · rename_i e1 h1
        cases h
        exact (ErrLoc.bind_err _ (ih.term _ _ h1 hk)).congr hE
      · cases h
    case unary =>
      intro ts e h hk
      simp only [pUnary] at h
      split at h
      · rename_i t r0
        split at h
        · rename_i hop
          split at h
          · cases h
          · rename_i e1 h1
            cases h
            exact ErrLoc.cons t ((ErrLoc.bind_err (fun x r' => PRes.ok (.unary t x) r')
              (ih.unary _ _ h1 hk)).congr (fun ts' => by simp only [pUnary, hop, if_true]; bind_rfl))
          · cases h
        · rename_i hop
          refine (ih.factorial _ _ h hk).congrHead (fun ts' hs => ?_)
          obtain ⟨t', r', rfl, ht⟩ := hs.cons_inv
          simp only [pUnary, ht]
          rw [if_neg hop]
      · refine (ih.factorial _ _ h hk).congrHead (fun ts' hs => ?_)
        rw [hs.nil_inv]
        simp only [pUnary]
    case factorialLoop =>
      intro acc ts e h hk
      simp only [pFactorialLoop] at h
      split at h
      · rename_i t r0
        split at h
        · rename_i hop
          exact ErrLoc.cons t ((ih.factorialLoop _ _ _ h hk).congr
            (fun ts' => by simp only [pFactorialLoop, hop, if_true]))
        · cases h
      · cases h
    case callLoop =>
      intro acc ts e h hk
      simp only [pCallLoop] at h
      split at h
      · rename_i t r0
        split at h
        · rename_i hop
          have hC : ∀ ts' : List (Tok S), pCallLoop (f + 1) acc (t :: ts') = (pArgs f ts').bind
              (fun args r1 => (consume .rparen r1).bind
                (fun _ r2 => pCallLoop f (.call acc t args) r2)) :=
            fun ts' => by
              simp only [pCallLoop, hop, if_true]
              split
              · rename_i hq; rw [hq]; simp only [PRes.bind] <;>
                  (generalize consume Tag.rparen _ = x; cases x <;> rfl)
              · rename_i hq; rw [hq]; rfl
              · rename_i hq; rw [hq]; rfl
          refine ErrLoc.cons t (ErrLoc.congr hC ?_)
          split at h
          · rename_i args r1 h1
            refine ErrLoc.bind_ok _ L.args sw_of_tag h1 ?_
            split at h
            · rename_i cl r2 h2
              obtain ⟨rfl, hcl⟩ := consume_ok h2
              exact ErrLoc.cons cl ((ih.callLoop _ _ _ h hk).congr
                (fun ts' => by simp only [consume, hcl, if_true, PRes.bind]))
            · rename_i e2 h2
              cases h
              exact ErrLoc.bind_err _ (consume_errLoc h2)
            · cases h
          · rename_i e1 h1
            cases h
            exact ErrLoc.bind_err _ (ih.args _ _ h1 hk)
          · cases h
        · cases h
      · cases h
    case args =>
      intro ts e h hk
      simp only [pArgs] at h
      split at h
      · cases h
      · rename_i hck
        refine (ih.argsLoop _ _ h hk).congrHead (fun ts' hs => ?_)
        simp only [pArgs, hs.checkTag, hck]
        rfl
    case argsLoop =>
      intro ts e h hk
      have hA : ∀ ts' : List (Tok S), pArgsLoop (f + 1) ts' = (pExpression f ts').bind (argsTail f) :=
        fun ts' => by
          simp only [pArgsLoop]
          cases pExpression f ts' with
          | ok e0 r0 =>
            cases r0 with
            | nil => rfl
            | cons t r' =>
              by_cases hc : t.tag = .comma
              · simp only [PRes.bind, argsTail, hc, if_true] <;>
                  (generalize pArgsLoop f r' = x; cases x <;> rfl)
              · simp only [PRes.bind, argsTail, hc, if_false]
          | err e0 => rfl
          | fuel => rfl
      simp only [pArgsLoop] at h
      split at h
      · rename_i e1 r1 h1
        refine (ErrLoc.bind_ok (argsTail f) L.expression sw_of_tag h1 ?_).congr hA
        split at h
        · rename_i t r1'
          split at h
          · rename_i hcomma
            split at h
            · cases h
            · rename_i e2 h2
              cases h
              exact ErrLoc.cons t ((ErrLoc.bind_err (fun es r'' => PRes.ok (e1 :: es) r'')
                (ih.argsLoop _ _ h2 hk)).congr
                (fun ts' => by simp only [argsTail, hcomma, if_true]))
            · cases h
          · cases h
        · cases h
      · rename_i e1 h1
        cases h
        exact (ErrLoc.bind_err _ (ih.expression _ _ h1 hk)).congr hA
      · cases h
    case rows =>
      intro br prev idx ts e h hk
      have hR : ∀ ts' : List (Tok S), pRows (f + 1) br prev idx ts' = (pArgs f ts').bind (rowsTail f br prev idx) :=
        fun ts' => by
          simp only [pRows]
          split
          · rename_i hq; rw [hq]; rfl
          · rename_i hq; rw [hq]; rfl
          · rename_i hq; rw [hq]; rfl
      simp only [pRows] at h
      split at h
      · rename_i row r1 h1
        refine (ErrLoc.bind_ok (rowsTail f br prev idx) L.args sw_of_tag h1 ?_).congr hR
        split at h
        · rename_i last hlast
          split at h
          · cases h
            simp [ParseErrKind.isExpected] at hk
          · rename_i hlen
            exact (ih.rowsNext _ _ _ _ _ h hk).congr
              (fun ts' => by simp only [rowsTail, hlast]; rw [if_neg hlen])
        · rename_i hlast
          exact (ih.rowsNext _ _ _ _ _ h hk).congr (fun ts' => by simp only [rowsTail, hlast])
      · rename_i e1 h1
        cases h
        exact (ErrLoc.bind_err _ (ih.args _ _ h1 hk)).congr hR
      · cases h
    case rowsNext =>
      intro br prev idx ts e h hk
      simp only [pRowsNext] at h
      split at h
      · rename_i t r0
        split at h
        · rename_i hsemi
          exact ErrLoc.cons t ((ih.rows _ _ _ _ _ h hk).congr
            (fun ts' => by simp only [pRowsNext, hsemi, if_true]))
        · cases h
      · cases h
    case primary =>
      intro ts e h hk
      simp only [pPrimary] at h
      split at h
      · cases h
        exact ErrLoc.here_nil (by simp only [pPrimary]; rfl)
      · rename_i t r0
        split at h
        · split at h
          · split at h
            · cases h
            · cases h
          · cases h
        · cases h
        · rename_i hkd
          exact ErrLoc.cons t ((ih.group _ _ _ _ h hk).congr
            (fun ts' => by simp only [pPrimary, hkd]))
        · rename_i hkd
          exact ErrLoc.cons t ((ih.group _ _ _ _ h hk).congr
            (fun ts' => by simp only [pPrimary, hkd]))
        · rename_i hkd
          exact ErrLoc.cons t ((ih.group _ _ _ _ h hk).congr
            (fun ts' => by simp only [pPrimary, hkd]))
        · rename_i hkd
          exact ErrLoc.cons t ((ih.group _ _ _ _ h hk).congr
            (fun ts' => by simp only [pPrimary, hkd]))
        · rename_i hkd
          have hP : ∀ ts' : List (Tok S), pPrimary (f + 1) (t :: ts') = (pRows f t [] 0 ts').bind
              (fun rows r1 => (consume .rbracket r1).bind
                (fun close r2 => PRes.ok (.matrix close rows) r2)) :=
            fun ts' => by
              simp only [pPrimary, hkd]
              split
              · rename_i hq; rw [hq]; simp only [PRes.bind] <;>
                  (generalize consume Tag.rbracket _ = x; cases x <;> rfl)
              · rename_i hq; rw [hq]; rfl
              · rename_i hq; rw [hq]; rfl
          refine ErrLoc.cons t (ErrLoc.congr hP ?_)
          split at h
          · rename_i rows r1 h1
            refine ErrLoc.bind_ok _ (L.rows _ _ _) sameTag_of_tag h1 ?_
            split at h
            · cases h
            · rename_i e2 h2
              cases h
              exact ErrLoc.bind_err _ (consume_errLoc h2)
            · cases h
          · rename_i e1 h1
            cases h
            exact ErrLoc.bind_err _ (ih.rows _ _ _ _ _ h1 hk)
          · cases h
        · rename_i h1 h2 h3 h4 h5 h6 h7
          cases h
          have hps : primaryStart t.tag = false := by
            unfold Tok.tag
            cases hkd : t.kind <;> simp [Kind.tag, primaryStart]
            all_goals first
              | exact h1 _ hkd
              | exact h2 _ hkd
              | exact h3 hkd
              | exact h4 hkd
              | exact h5 hkd
              | exact h6 hkd
              | exact h7 hkd
          exact ErrLoc.here_cons (fun t' r' ht => by
            rw [pPrimary_bad (by rw [ht]; exact hps)]; rfl)
    case group =>
      intro o k ts e h hk
      have hG : ∀ ts' : List (Tok S), pGroup (f + 1) o k ts' = (pExpression f ts').bind
          (fun e r => (consume (groupClose k) r).bind
            (fun _ r' => PRes.ok (.grouping o k e) r')) :=
        fun ts' => by
          simp only [pGroup]
          split
          · rename_i hq; rw [hq]; simp only [PRes.bind] <;>
              (generalize consume (groupClose k) _ = x; cases x <;> rfl)
          · rename_i hq; rw [hq]; rfl
          · rename_i hq; rw [hq]; rfl
      simp only [pGroup] at h
      split at h
      · rename_i e1 r1 h1
        refine (ErrLoc.bind_ok _ L.expression sw_of_tag h1 ?_).congr hG
        split at h
        · cases h
        · rename_i e2 h2
          cases h
          exact ErrLoc.bind_err _ (consume_errLoc h2)
        · cases h
      · rename_i e1 h1
        cases h
        exact (ErrLoc.bind_err _ (ih.expression _ _ h1 hk)).congr hG
      · cases h

/-! ## Statements -/

/-- what `delete_statement` does after `expression` -/
def delTail (del : Tok S) (e : Expr S) (r : List (Tok S)) : PRes S (Stmt S) :=
  match e with
  | .ident name =>
    match consumeDelim r with
    | .ok _ r' => .ok (.deleteVar name) r'
    | .err e => .err e
    | .fuel => .fuel
  | .call callee _ args =>
    match consumeDelim r with
    | .ok _ r' =>
      match sigOfCall callee args with
      | some (name, sig) => .ok (.deleteSig name sig) r'
      | none => .err ⟨.cannotDelete, some (del.line, del.col), []⟩
    | .err e => .err e
    | .fuel => .fuel
  | _ => .err ⟨.cannotDelete, some (del.line, del.col), []⟩

theorem pDelete_eq (fuel : Nat) (del : Tok S) (ts : List (Tok S)) :
    pDelete fuel del ts = (pExpression fuel ts).bind (delTail del) := by
  simp only [pDelete]
  cases pExpression fuel ts <;> rfl

/-- error locality for `delete_statement` -/
theorem pDelete_errLoc {fuel : Nat} {del : Tok S} {ts : List (Tok S)} {e}
    (h : pDelete fuel del ts = .err e) (hk : e.kind.isExpected = true) :
    ErrLoc (pDelete fuel del) ts e := by
  refine ErrLoc.congr (pDelete_eq fuel del) ?_
  simp only [pDelete] at h
  split at h
  · rename_i e1 r1 h1
    refine ErrLoc.bind_ok (delTail del) (localAt fuel).expression sw_of_tag h1 ?_
    split at h
    · rename_i name
      split at h
      · cases h
      · rename_i e2 h2
        cases h
        exact (ErrLoc.bind_err (fun _ r' => PRes.ok (.deleteVar name) r')
          (consumeDelim_errLoc h2)).congr (fun ts' => by
            simp only [delTail]; generalize consumeDelim ts' = x; cases x <;> rfl)
      · cases h
    · rename_i callee paren args
      split at h
      · split at h
        · cases h
        · cases h
          simp [ParseErrKind.isExpected] at hk
      · rename_i e2 h2
        cases h
        exact (ErrLoc.bind_err (fun _ r' => match sigOfCall callee args with
            | some (name, sig) => PRes.ok (.deleteSig name sig) r'
            | none => .err ⟨.cannotDelete, some (del.line, del.col), []⟩)
          (consumeDelim_errLoc h2)).congr (fun ts' => by
            simp only [delTail]; generalize consumeDelim ts' = x; cases x <;> rfl)
      · cases h
    · cases h
      simp [ParseErrKind.isExpected] at hk
  · rename_i e1 h1
    cases h
    exact ErrLoc.bind_err _ ((errLocalAt fuel).expression _ _ h1 hk)
  · cases h

/-- `expression_statement`: the statement delimiter after the expression -/
def exprStmtTail (e : Expr S) (r : List (Tok S)) : PRes S (Stmt S) :=
  match consumeDelim r with
  | .ok _ r' => .ok (.expr e) r'
  | .err e => .err e
  | .fuel => .fuel

/-- what `statement` does after the first `expression` -/
def stmtTail (fuel : Nat) (e : Expr S) (r : List (Tok S)) : PRes S (Stmt S) :=
  match e with
  | .ident name =>
    match r with
    | eq :: r1 =>
      if eq.tag = .equal then
        match pExpression fuel r1 with
        | .ok right r2 =>
          match consumeDelim r2 with
          | .ok _ r3 => .ok (.assign name right) r3
          | .err e => .err e
          | .fuel => .fuel
        | .err e => .err e
        | .fuel => .fuel
      else exprStmtTail e r
    | [] => exprStmtTail e r
  | .call callee _ args =>
    match r with
    | eq :: r1 =>
      if eq.tag = .equal then
        match pExpression fuel r1 with
        | .ok body r2 =>
          match consumeDelim r2 with
          | .ok _ r3 =>
            match sigOfCall callee args with
            | some (name, sig) => .ok (.define name sig body) r3
            | none => .err ⟨.invalidAssignmentTarget, some (eq.line, eq.col), []⟩
          | .err e => .err e
          | .fuel => .fuel
        | .err e => .err e
        | .fuel => .fuel
      else exprStmtTail e r
    | [] => exprStmtTail e r
  | _ => exprStmtTail e r

theorem pStatementExpr_eq (fuel : Nat) (ts : List (Tok S)) :
    pStatement.pStatementExpr fuel ts = (pExpression fuel ts).bind (stmtTail fuel) := by
  simp only [pStatement.pStatementExpr]
  cases pExpression fuel ts <;> rfl

theorem exprStmtTail_errLoc {e1 : Expr S} {r : List (Tok S)} {e}
    (h : consumeDelim r = .err e) : ErrLoc (exprStmtTail e1) r e :=
  (ErrLoc.bind_err (fun _ r' => PRes.ok (.expr e1) r') (consumeDelim_errLoc h)).congr
    (fun ts' => by simp only [exprStmtTail]; generalize consumeDelim ts' = x; cases x <;> rfl)

set_option hygiene false in
/-- the `expression_statement` fall-back: `h` is about `match consumeDelim r1 with …` -/
local macro "expr_stmt_el" : tactic => `(tactic| (
  split at h
  · cases h
  · rename_i e2 h2
    cases h
    exact exprStmtTail_errLoc h2
  · cases h))

/-- error locality for assignment / function declaration / expression statement -/
theorem pStatementExpr_errLoc {fuel : Nat} {ts : List (Tok S)} {e}
    (h : pStatement.pStatementExpr fuel ts = .err e) (hk : e.kind.isExpected = true) :
    ErrLoc (pStatement.pStatementExpr fuel) ts e := by
  refine ErrLoc.congr (pStatementExpr_eq fuel) ?_
  simp only [pStatement.pStatementExpr] at h
  split at h
  · rename_i e1 r1 h1
    refine ErrLoc.bind_ok (stmtTail fuel) (localAt fuel).expression sw_of_tag h1 ?_
    split at h
    · rename_i name
      split at h
      · rename_i eq r1'
        split at h
        · rename_i heq
          refine ErrLoc.cons eq (ErrLoc.congr (p' := fun ts' => (pExpression fuel ts').bind
            (fun right r2 => (consumeDelim r2).bind
              (fun _ r3 => PRes.ok (.assign name right) r3))) (fun ts' => ?_) ?_)
          · simp only [stmtTail, heq, if_true]
            cases pExpression fuel ts' with
            | ok a b => simp only [PRes.bind]; generalize consumeDelim b = x; cases x <;> rfl
            | err a => rfl
            | fuel => rfl
          · split at h
            · rename_i right r2 h2
              refine ErrLoc.bind_ok _ (localAt fuel).expression sw_of_tag h2 ?_
              split at h
              · cases h
              · rename_i e3 h3
                cases h
                exact ErrLoc.bind_err _ (consumeDelim_errLoc h3)
              · cases h
            · rename_i e2 h2
              cases h
              exact ErrLoc.bind_err _ ((errLocalAt fuel).expression _ _ h2 hk)
            · cases h
        · rename_i hne
          refine ErrLoc.congrHead (p' := exprStmtTail (.ident name)) (fun ts' hs => ?_) ?_
          · obtain ⟨t', r', rfl, ht⟩ := hs.cons_inv
            simp only [stmtTail, ht]
            rw [if_neg hne]
          · expr_stmt_el
      · refine ErrLoc.congrHead (p' := exprStmtTail (.ident name)) (fun ts' hs => ?_) ?_
        · rw [hs.nil_inv]; rfl
        · expr_stmt_el
    · rename_i callee paren args
      split at h
      · rename_i eq r1'
        split at h
        · rename_i heq
          refine ErrLoc.cons eq (ErrLoc.congr (p' := fun ts' => (pExpression fuel ts').bind
            (fun body r2 => (consumeDelim r2).bind
              (fun _ r3 => match sigOfCall callee args with
                | some (name, sig) => PRes.ok (.define name sig body) r3
                | none => .err ⟨.invalidAssignmentTarget, some (eq.line, eq.col), []⟩)))
            (fun ts' => ?_) ?_)
          · simp only [stmtTail, heq, if_true]
            cases pExpression fuel ts' with
            | ok a b => simp only [PRes.bind]; generalize consumeDelim b = x; cases x <;> rfl
            | err a => rfl
            | fuel => rfl
          · split at h
            · rename_i body r2 h2
              refine ErrLoc.bind_ok _ (localAt fuel).expression sw_of_tag h2 ?_
              split at h
              · split at h
                · cases h
                · cases h
                  simp [ParseErrKind.isExpected] at hk
              · rename_i e3 h3
                cases h
                exact ErrLoc.bind_err _ (consumeDelim_errLoc h3)
              · cases h
            · rename_i e2 h2
              cases h
              exact ErrLoc.bind_err _ ((errLocalAt fuel).expression _ _ h2 hk)
            · cases h
        · rename_i hne
          refine ErrLoc.congrHead (p' := exprStmtTail (.call callee paren args))
            (fun ts' hs => ?_) ?_
          · obtain ⟨t', r', rfl, ht⟩ := hs.cons_inv
            simp only [stmtTail, ht]
            rw [if_neg hne]
          · expr_stmt_el
      · refine ErrLoc.congrHead (p' := exprStmtTail (.call callee paren args))
          (fun ts' hs => ?_) ?_
        · rw [hs.nil_inv]; rfl
        · expr_stmt_el
    · rename_i hni hnc
      refine ErrLoc.congr (p' := exprStmtTail e1) (fun ts' => ?_) ?_
      · cases e1 <;> first
          | rfl
          | exact absurd rfl (fun hh => hni _ hh)
          | exact absurd rfl (fun hh => hnc _ _ _ hh)
      · expr_stmt_el
  · rename_i e1 h1
    cases h
    exact ErrLoc.bind_err _ ((errLocalAt fuel).expression _ _ h1 hk)
  · cases h

/-- **error locality for `statement`** -/
theorem pStatement_errLoc {fuel : Nat} {ts : List (Tok S)} {e}
    (h : pStatement fuel ts = .err e) (hk : e.kind.isExpected = true) :
    ErrLoc (pStatement fuel) ts e := by
  simp only [pStatement] at h
  split at h
  · rename_i t r
    split at h
    · rename_i hd
      exact ErrLoc.cons t ((pDelete_errLoc h hk).congr
        (fun ts' => by simp only [pStatement, hd, if_true]))
    · rename_i hd
      split at h
      · rename_i hc
        split at h
        · cases h
        · rename_i e2 h2
          cases h
          exact ErrLoc.cons t ((ErrLoc.bind_err (fun _ r' => PRes.ok Stmt.clear r')
            (consumeDelim_errLoc h2)).congr (fun ts' => by
              simp only [pStatement]
              rw [if_neg hd, if_pos hc]
              generalize consumeDelim ts' = x; cases x <;> rfl))
        · cases h
      · rename_i hc
        refine (pStatementExpr_errLoc h hk).congrHead (fun ts' hs => ?_)
        obtain ⟨t', r', rfl, ht⟩ := hs.cons_inv
        simp only [pStatement, ht]
        rw [if_neg hd, if_neg hc]
  · refine (pStatementExpr_errLoc h hk).congrHead (fun ts' hs => ?_)
    rw [hs.nil_inv]
    simp only [pStatement]

/-! ## Reading `ErrLoc` -/

/-- `ErrLoc` spelled out -/
theorem ErrLoc.iff {α : Type} (p : List (Tok S) → PRes S α) (ts : List (Tok S)) (e : PErr) :
    ErrLoc p ts e ↔ ∃ c rest, ts = c ++ rest ∧
      e.pos = rest.head?.map (fun t => (t.line, t.col)) ∧
      ∀ rest', rest'.head?.map Tok.tag = rest.head?.map Tok.tag →
        p (c ++ rest') = .err ⟨e.kind, rest'.head?.map (fun t => (t.line, t.col)), e.info⟩ :=
  Iff.rfl

/-- the two readings of `ErrLoc`: at end of input the error says "end of input" and `p` fails
    the same way on the consumed prefix alone; otherwise the error names the offending token `t`,
    and replacing `t` by any token of the same tag and the tail by anything makes `p` fail the
    same way at the new token's position -/
theorem ErrLoc.cases {α : Type} {p : List (Tok S) → PRes S α} {ts : List (Tok S)} {e : PErr}
    (h : ErrLoc p ts e) :
    (e.pos = none ∧ p ts = .err e) ∨
    (∃ c t r, ts = c ++ t :: r ∧ e.pos = some (t.line, t.col) ∧
      ∀ t' r', t'.tag = t.tag →
        p (c ++ t' :: r') = .err ⟨e.kind, some (t'.line, t'.col), e.info⟩) := by
  have herr := h.err
  obtain ⟨c, rest, rfl, hpos, H⟩ := h
  cases rest with
  | nil => exact .inl ⟨hpos, herr⟩
  | cons t r =>
    exact .inr ⟨c, t, r, rfl, hpos, fun t' r' ht => H (t' :: r') (SameHeadTag.cons ht r r')⟩

end Calc
