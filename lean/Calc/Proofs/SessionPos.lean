/-
  Calc.Proofs.SessionPos — `repl` and `session` (Calc/Model/Front.lean) respect "equal up to the
  line/column of stored tokens".  Vocabulary: `ScanSim` (two scan results that are both token
  lists, pointwise `EqModPos`, or the same scan error / panic site / both out of fuel),
  `TextSim` (two texts whose scans, after `ensureTrailingNewline`, are `ScanSim`), `PromptSim`
  (two prompt lines: same `exit` test, and `TextSim` when not `exit`).
-/
import Calc.Proofs.ParsePos
namespace Calc

variable {S : Type}

/-- related scan results: token lists pointwise equal up to line/col, or the same failure -/
inductive ScanSim : ScanRes S → ScanRes S → Prop
  | ok {ts ts' : List (Tok S)} : All₂ Tok.EqModPos ts ts' → ScanSim (.ok ts) (.ok ts')
  | bad (e : ScanErr) : ScanSim (.bad e) (.bad e)
  | panic (s : Str) : ScanSim (.panic s) (.panic s)
  | fuel : ScanSim .fuel .fuel

variable [Add S] [Sub S] [Mul S] [Div S] [Zero S] [One S] [Kernel S]

/-- two texts as `session` / `repl` process them: scans of the newline-terminated texts related -/
def TextSim (cfg : ScanCfg S) (t t' : Str) : Prop :=
  ScanSim (scan cfg (ensureTrailingNewline t)) (scan cfg (ensureTrailingNewline t'))

/-- two prompt lines: the `exit` test agrees, and lines that are not `exit` are `TextSim` -/
def PromptSim (cfg : ScanCfg S) (l l' : Str) : Prop :=
  isExit l = isExit l' ∧ (isExit l = false → TextSim cfg l l')

/-- optional texts (the file, the `-e` expression): both absent, or both present and related -/
inductive OptTextSim (cfg : ScanCfg S) : Option Str → Option Str → Prop
  | none : OptTextSim cfg none none
  | some {t t' : Str} : TextSim cfg t t' → OptTextSim cfg (some t) (some t')

/-- `processText` on texts with related scans (failures included) -/
theorem processText_scanSim {cfg : ScanCfg S} {text text' : Str}
    (h : ScanSim (scan cfg text) (scan cfg text')) (fuel : Nat) {env env' : Env S}
    (he : Env.SimP env env') :
    StepOut.SimP (processText cfg fuel env text) (processText cfg fuel env' text') := by
  generalize h1 : scan cfg text = r at h
  generalize h2 : scan cfg text' = r' at h
  cases h with
  | ok ht => exact processText_simP h1 h2 ht fuel he
  | bad e =>
    simp only [processText, h1, h2]
    exact ⟨he, .cons (.scanErr e) .nil⟩
  | panic s =>
    simp only [processText, h1, h2]
    exact ⟨he, .cons (.panic s) .nil⟩
  | fuel =>
    simp only [processText, h1, h2]
    exact ⟨he, .cons .fuel .nil⟩

theorem repl_simP (cfg : ScanCfg S) (fuel : Nat) {ls ls' : List Str}
    (h : All₂ (PromptSim cfg) ls ls') :
    ∀ {env env' : Env S}, Env.SimP env env' →
      StepOut.SimP (repl cfg fuel env ls) (repl cfg fuel env' ls') := by
  induction h with
  | nil => intro env env' he; exact ⟨he, .nil⟩
  | @cons l l' ls ls' hl _ ih =>
    intro env env' he
    cases hx : isExit l with
    | true =>
      have hx' : isExit l' = true := hl.1 ▸ hx
      simp only [repl, hx, hx', if_true]
      exact ⟨he, .nil⟩
    | false =>
      have hx' : isExit l' = false := hl.1 ▸ hx
      have h1 := processText_scanSim (hl.2 hx) fuel he
      have h2 := ih h1.env
      simp only [repl, hx, hx', Bool.false_eq_true, if_false]
      exact ⟨h2.env, h1.out.append h2.out⟩

theorem session_simP (cfg : ScanCfg S) (fuel : Nat) {init init' : Env S}
    (hi : Env.SimP init init') {file file' expr expr' : Option Str}
    (hf : OptTextSim cfg file file') (hx : OptTextSim cfg expr expr') {stdin stdin' : List Str}
    (hs : All₂ (PromptSim cfg) stdin stdin') :
    StepOut.SimP (session cfg fuel init file expr stdin)
      (session cfg fuel init' file' expr' stdin') := by
  have hb : ∀ {a a' b b' : List (Line S)}, All₂ Line.SimP a a' → All₂ Line.SimP b b' →
      All₂ Line.SimP (a ++ [.banner] ++ b ++ [.goodbye]) (a' ++ [.banner] ++ b' ++ [.goodbye]) :=
    fun ha hb => ((ha.append (.cons .banner .nil)).append hb).append (.cons .goodbye .nil)
  cases hf with
  | none =>
    cases hx with
    | some ht =>
      have h2 := processText_scanSim ht fuel hi
      exact ⟨h2.env, All₂.append .nil h2.out⟩
    | none =>
      have h2 := repl_simP cfg fuel hs hi
      exact ⟨h2.env, hb .nil h2.out⟩
  | some hft =>
    have h1 := processText_scanSim hft fuel hi
    cases hx with
    | some ht =>
      have h2 := processText_scanSim ht fuel h1.env
      exact ⟨h2.env, h1.out.append h2.out⟩
    | none =>
      have h2 := repl_simP cfg fuel hs h1.env
      exact ⟨h2.env, hb h1.out h2.out⟩

end Calc
