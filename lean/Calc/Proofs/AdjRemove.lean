/-
  Calc.Proofs.AdjRemove — removing blanks at a token boundary (C17, the converse of
  Calc.Proofs.ScanBlank): the adjacency rule `needsSepAt`, and the proof that where the rule
  does not ask for a separator the blanks between two tokens can be removed without changing
  any token kind, value or text.

  The rule looks at the last two characters before the gap and the first character after it.
  It is conservative: it may ask for a separator that is not needed, never the reverse.
    (1) word/number character | word/number character, `.` or `e`   (`ab|c`, `2|3`, `2|.5`, `2|e1`, `x|2`)
    (2) `e`, `.` or `e-` | digit      (`2e|5`, `2.|5`, `2e-|5`: an exponent or fraction begun
                                        before the gap would be completed)
    (3) `e` | `-`                     (`2e|-5`)
  Core Lean only.
-/
import Calc.Proofs.AdjNumber
namespace Calc
open List

variable {S : Type}
set_option linter.unusedSectionVars false

/-! ### the adjacency rule -/

/-- the rule on the REVERSED text before the gap (`c` = last character, head of `rest` = the
    one before it) and the first character `d` after the gap -/
def sepRule (cfg : ScanCfg S) : List Char → Char → Bool
  | [], _ => false
  | c :: rest, d =>
    ((isIdentCont cfg c || isDigit c) &&
      (isIdentCont cfg d || isDigit d || d == '.' || d == 'e')) ||
    (isDigit d && (c == 'e' || c == '.' || (c == '-' && rest.head? == some 'e'))) ||
    (d == '-' && c == 'e')

/-- **the adjacency rule**: must `x` and `y` be kept apart?  (`false` when `y` is empty.) -/
def needsSepAt (cfg : ScanCfg S) (x y : List Char) : Bool :=
  match y with
  | [] => false
  | d :: _ => sepRule cfg x.reverse d

theorem sepRule_false_iff {cfg : ScanCfg S} {c d : Char} {rest : List Char} :
    sepRule cfg (c :: rest) d = false ↔
      ((isIdentCont cfg c = true ∨ isDigit c = true) →
        isIdentCont cfg d = false ∧ isDigit d = false ∧ d ≠ '.' ∧ d ≠ 'e') ∧
      (isDigit d = true → c ≠ 'e' ∧ c ≠ '.' ∧ ¬ (c = '-' ∧ rest.head? = some 'e')) ∧
      (d = '-' → c ≠ 'e') := by
  simp only [sepRule, Bool.or_eq_false_iff, Bool.and_eq_false_iff, beq_eq_false_iff_ne, ne_eq]
  constructor
  · rintro ⟨⟨h1, h2⟩, h3⟩
    refine ⟨?_, ?_, ?_⟩
    · intro hc
      rcases h1 with h1 | h1
      · rcases hc with hc | hc
        · rw [hc] at h1; exact absurd h1.1 (by decide)
        · rw [hc] at h1; exact absurd h1.2 (by decide)
      · exact ⟨h1.1.1.1, h1.1.1.2, h1.1.2, h1.2⟩
    · intro hd
      rcases h2 with h2 | h2
      · rw [hd] at h2; cases h2
      · refine ⟨h2.1.1, h2.1.2, ?_⟩
        rintro ⟨hc, hr⟩
        rcases h2.2 with h | h
        · exact h hc
        · exact h hr
    · intro hd
      rcases h3 with h3 | h3
      · exact absurd hd h3
      · exact h3
  · rintro ⟨h1, h2, h3⟩
    refine ⟨⟨?_, ?_⟩, ?_⟩
    · cases hc1 : isIdentCont cfg c
      · cases hc2 : isDigit c
        · exact .inl ⟨rfl, rfl⟩
        · obtain ⟨a, b, c', d'⟩ := h1 (.inr hc2); exact .inr ⟨⟨⟨a, b⟩, c'⟩, d'⟩
      · obtain ⟨a, b, c', d'⟩ := h1 (.inl hc1); exact .inr ⟨⟨⟨a, b⟩, c'⟩, d'⟩
    · cases hd : isDigit d
      · exact .inl rfl
      · obtain ⟨a, b, c'⟩ := h2 hd
        refine .inr ⟨⟨a, b⟩, ?_⟩
        by_cases hc : c = '-'
        · exact .inr (fun hr => c' ⟨hc, hr⟩)
        · exact .inl hc
    · by_cases hd : d = '-'
      · exact .inr (h3 hd)
      · exact .inl hd

/-- the rule is monotone in the text before the gap: what is allowed after `u ++ z` is allowed
    after `z` -/
theorem needsSepAt_suffix {cfg : ScanCfg S} {u z y : List Char}
    (h : needsSepAt cfg (u ++ z) y = false) : needsSepAt cfg z y = false := by
  rcases y with _ | ⟨d, y'⟩
  · rfl
  simp only [needsSepAt, reverse_append] at h ⊢
  rcases hz : z.reverse with _ | ⟨c, rest⟩
  · rfl
  rw [hz, cons_append] at h
  rw [sepRule_false_iff] at h ⊢
  refine ⟨h.1, fun hd => ?_, h.2.2⟩
  obtain ⟨a, b, c'⟩ := h.2.1 hd
  refine ⟨a, b, ?_⟩
  rintro ⟨hc, hr⟩
  apply c'
  refine ⟨hc, ?_⟩
  rcases rest with _ | ⟨c2, rest⟩
  · cases hr
  · exact hr

/-- reading the rule when the text before the gap ends with `c` -/
theorem needsSepAt_last {cfg : ScanCfg S} {z y' : List Char} {c d : Char}
    (h : needsSepAt cfg (z ++ [c]) (d :: y') = false) :
    ((isIdentCont cfg c = true ∨ isDigit c = true) →
      isIdentCont cfg d = false ∧ isDigit d = false ∧ d ≠ '.' ∧ d ≠ 'e') ∧
    (isDigit d = true → c ≠ 'e' ∧ c ≠ '.' ∧ ¬ (c = '-' ∧ z.getLast? = some 'e')) ∧
    (d = '-' → c ≠ 'e') := by
  simp only [needsSepAt, reverse_append, reverse_cons, reverse_nil, nil_append, cons_append,
    sepRule_false_iff, head?_reverse] at h
  exact h

/-! ### one token -/

variable [Kernel S] {cfg : ScanCfg S}

/-- the text of a number token ends with a digit -/
theorem NumberVal.last_digit {t : List Char} {d : Decimal} (h : NumberVal t d) :
    ∃ t' c, t = t' ++ [c] ∧ isDigit c = true := by
  have key : ∀ {E : List Char}, IsDigits E → ∃ E' c, E = E' ++ [c] ∧ isDigit c = true := by
    intro E hE
    have hne := hE.ne
    refine ⟨E.dropLast, E.getLast hne, (dropLast_concat_getLast hne).symm, ?_⟩
    exact hE.all _ (getLast_mem hne)
  have keyE : ∀ {e : List Char} {x : Int} (pre : List Char), ExpVal e x → e ≠ [] →
      ∃ t' c, pre ++ e = t' ++ [c] ∧ isDigit c = true := by
    intro e x pre he hne
    cases he with
    | none => exact absurd rfl hne
    | pos hE =>
      obtain ⟨E', c, rfl, hc⟩ := key hE
      exact ⟨pre ++ 'e' :: E', c, by simp, hc⟩
    | neg hE =>
      obtain ⟨E', c, rfl, hc⟩ := key hE
      exact ⟨pre ++ 'e' :: '-' :: E', c, by simp, hc⟩
  cases h with
  | @int D e x hD hx =>
    by_cases he : e = []
    · subst he
      obtain ⟨D', c, rfl, hc⟩ := key hD
      exact ⟨D', c, by simp, hc⟩
    · exact keyE D hx he
  | @frac D F e x hD hF hx =>
    by_cases he : e = []
    · subst he
      obtain ⟨F', c, rfl, hc⟩ := key hF
      exact ⟨D ++ '.' :: F', c, by simp, hc⟩
    · exact keyE (D ++ '.' :: F) hx he

/-- **a token is unchanged when a run `b` is removed from the text after it**, if the rule does
    not ask for a separator at the gap.  `x` is what stands between the token and the gap. -/
theorem Lexeme.remove_blank {ℓ x b y : List Char} {k : Kind S}
    (h : Lexeme cfg (ℓ ++ (x ++ (b ++ y))) k ℓ (x ++ (b ++ y)))
    (hsep : needsSepAt cfg (ℓ ++ x) y = false) :
    Lexeme cfg (ℓ ++ (x ++ y)) k ℓ (x ++ y) := by
  obtain ⟨_, c, ℓ', cs, rfl, hs⟩ := h.split
  rw [cons_append] at hs
  injection hs with _ hcs
  generalize hz : (c :: ℓ') ++ (x ++ (b ++ y)) = z at h
  generalize hr : x ++ (b ++ y) = r at h
  generalize hw : c :: ℓ' = w at h
  cases h with
  | single hbk hk =>
    injection hw with _ hw
    subst hw
    exact .single hbk hk
  | @word c₁ cs₁ hbk hsk hi hne =>
    injection hz with hc hz
    subst hc
    have hall : ∀ a ∈ c :: ℓ', isIdentCont cfg a = true := by
      rw [hw]; exact all_takeWhile _ _
    have hst0 : Stops (isIdentCont cfg) (x ++ (b ++ y)) := by
      rw [hr]; exact stops_dropWhile _ _
    have hst : Stops (isIdentCont cfg) (x ++ y) := by
      refine stops_remove hst0 ?_
      intro hx d y' hy
      subst hx; subst hy
      rw [append_nil] at hsep
      have hne' : c :: ℓ' ≠ [] := cons_ne_nil _ _
      rw [← dropLast_concat_getLast hne'] at hsep
      exact ((needsSepAt_last hsep).1 (.inl (hall _ (getLast_mem hne')))).1
    have htw := takeWhile_append_stop hall hst
    have hdw := dropWhile_append_stop hall hst
    have := Lexeme.word (cfg := cfg) (c := c) (cs := ℓ' ++ (x ++ y)) hbk hsk hi
      (by rw [← cons_append, htw]; exact cons_ne_nil _ _)
    rw [← cons_append, htw, hdw] at this
    rw [← hw]
    exact this
  | @number c₁ cs₁ dec hbk hsk hi hd hp =>
    injection hz with hc hz
    subst hc
    have hv : NumberVal (c :: ℓ') dec := by rw [hw]; exact parseDecimal_iff.1 hp
    have hscan : scanNumber ((c :: ℓ') ++ (x ++ (b ++ y))) = ⟨c :: ℓ', x ++ (b ++ y)⟩ := by
      have hz' : ℓ' ++ (x ++ (b ++ y)) = cs₁ := hz
      rw [cons_append, hz', hw, hr]
    obtain ⟨t', cl, ht', hcl⟩ := hv.last_digit
    have key : scanNumber ((c :: ℓ') ++ (x ++ y)) = ⟨c :: ℓ', x ++ y⟩ := by
      refine scanNumber_remove hv hscan ?_ ?_ ?_ ?_
      · intro hx d y' hy
        subst hx; subst hy
        rw [append_nil, ht'] at hsep
        have := (needsSepAt_last hsep).1 (.inr hcl)
        exact ⟨this.2.1, this.2.2.1, this.2.2.2⟩
      · intro hx d y' hy
        subst hx; subst hy
        have h1 := needsSepAt_last hsep
        refine ⟨?_, fun hm => (h1.2.2 hm) rfl⟩
        cases hdd : isDigit d
        · rfl
        · exact absurd rfl (h1.2.1 hdd).1
      · intro hx d y' hy
        subst hx; subst hy
        have e : (c :: ℓ') ++ ['e', '-'] = ((c :: ℓ') ++ ['e']) ++ ['-'] := by simp
        rw [e] at hsep
        have h1 := needsSepAt_last hsep
        cases hdd : isDigit d
        · rfl
        · exact absurd ⟨rfl, by rw [getLast?_append]; rfl⟩ (h1.2.1 hdd).2.2
      · intro hx d y' hy
        subst hx; subst hy
        have h1 := needsSepAt_last hsep
        cases hdd : isDigit d
        · rfl
        · exact absurd rfl (h1.2.1 hdd).2.1
    have := Lexeme.number (cfg := cfg) (c := c) (cs := ℓ' ++ (x ++ y)) hbk hsk hi hd (d := dec)
      (by rw [← cons_append, key]; simp only; rw [hw]; exact hp)
    rw [← cons_append, key] at this
    rw [← hw]
    exact this

/-! ### the whole scan -/

theorem Scanned.drop_blanks {b : List Char} (hb : b.all isBlank = true) {p : Pos}
    {s : List Char} {toks : List (Tok S)} (h : Scanned cfg p (b ++ s) toks) :
    Scanned cfg (advs cfg.tab p b) s toks := by
  induction b generalizing p with
  | nil => exact h
  | cons c b ih =>
    simp only [all_cons, Bool.and_eq_true] at hb
    exact ih hb.2 (h.of_blank hb.1)

/-- **blanks removed at a token boundary change no token kind, lexeme or value**, where the rule
    does not ask for a separator -/
theorem Scanned.remove_blank {x y b : List Char} (hbd : Boundary cfg x (b ++ y))
    (hb : b.all isBlank = true) (hsep : needsSepAt cfg x y = false) {p : Pos}
    {toks : List (Tok S)} (h : Scanned cfg p (x ++ (b ++ y)) toks) :
    ∃ toks', Scanned cfg p (x ++ y) toks' ∧ toks'.map Tok.noPos = toks.map Tok.noPos := by
  generalize hy' : b ++ y = y' at hbd
  induction hbd generalizing p toks with
  | nil =>
    subst hy'
    exact (h.drop_blanks hb).change_pos p
  | @blank c x y' hc _ ih =>
    subst hy'
    have hsep' : needsSepAt cfg x y = false := needsSepAt_suffix (u := [c]) hsep
    obtain ⟨ts', hs', he⟩ := ih hsep' (h.of_blank hc) rfl
    exact ⟨ts', .blank hc hs', he⟩
  | @tok k ℓ x y' hl _ ih =>
    subst hy'
    rw [append_assoc] at h ⊢
    obtain ⟨ts, rfl, hs⟩ := h.of_lexeme hl
    have hsep' : needsSepAt cfg x y = false := needsSepAt_suffix (u := ℓ) hsep
    obtain ⟨ts', hs', he⟩ := ih hsep' hs rfl
    refine ⟨_, .lexeme (hl.remove_blank hsep) hs', ?_⟩
    simp only [map_cons, he]

end Calc
