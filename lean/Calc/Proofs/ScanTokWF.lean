/-
  Calc.Proofs.ScanTokWF — a scanner invariant: every token of a successful scan is well formed
  (`Tok.WF`): it was made from one single-character token character, or it is a word with the
  kind the keyword table gives its whole text (else the identifier named by its text), or it is a
  digit-initial text the float reader accepts, with the value read.

  Derived from the declarative description of the scan (`Scanned` / `Lexeme`,
  Calc/Spec/Lexeme.lean, `scan_ok_iff` in Calc/Proofs/ScanLoop.lean).  Then, under the hypothesis
  that the keyword table yields keyword kinds only (`KwKinds`), what a well-formed token of a
  given kind looks like.  Core Lean only.
-/
import Calc.Proofs.ScanLoop
import Calc.Proofs.PrintRoundtrip
namespace Calc
open List

variable {S : Type} [Kernel S] {cfg : ScanCfg S}

/-- a token as the scanner makes it -/
inductive Tok.WF (cfg : ScanCfg S) (t : Tok S) : Prop
  /-- one single-character token character (the newline token's text is `\n` in two characters) -/
  | single (c : Char) : singleKind c = some t.kind → t.lexeme = lexemeOf [c] → Tok.WF cfg t
  /-- a word: identifier-start character, identifier-continue characters, and the kind is the
      table's kind of the whole text, else the identifier named by the whole text -/
  | word : WordLex cfg t.lexeme t.kind → Tok.WF cfg t
  /-- a number: digit-initial text accepted by the float reader, the kind carries the value -/
  | number (d : Decimal) : (∃ c cs, t.lexeme = c :: cs ∧ isDigit c = true) →
      parseDecimal t.lexeme = some d → t.kind = .number (Kernel.ofDecimal d.mant d.exp) →
      Tok.WF cfg t

/-- the token the declarative scan makes of a `Lexeme` is well formed -/
theorem Lexeme.tokWF {s ℓ r : List Char} {k : Kind S} (h : Lexeme cfg s k ℓ r) (ln col : Nat) :
    Tok.WF cfg ⟨k, Calc.lexemeOf ℓ, ln, col⟩ := by
  obtain ⟨_, c', ℓ', cs', hℓ, hs⟩ := h.split
  cases h with
  | single _ hk => exact .single _ hk rfl
  | @word c cs hb hs' hi hne =>
    injection hs with hc _
    subst hc
    have hn : c ≠ '\n' := by rintro rfl; exact absurd hi (by decide)
    refine .word ?_
    show WordLex cfg (Calc.lexemeOf _) _
    rw [hℓ, lexemeOf_cons_ne _ hn, ← hℓ]
    exact ⟨⟨c, ℓ', hℓ, hi⟩, all_takeWhile _ _, rfl⟩
  | @number c cs d hb hs' hi hd hp =>
    injection hs with hc _
    subst hc
    have hn : c ≠ '\n' := by rintro rfl; exact absurd hd (by decide)
    have hl : Calc.lexemeOf (scanNumber (c :: cs)).text = (scanNumber (c :: cs)).text := by
      rw [hℓ, lexemeOf_cons_ne _ hn]
    refine .number d ⟨c, ℓ', ?_, hd⟩ ?_ rfl
    · show Calc.lexemeOf _ = _
      rw [hl, hℓ]
    · show parseDecimal (Calc.lexemeOf _) = _
      rw [hl, hp]

/-- **scanner invariant**: every token of a declarative scan is well formed -/
theorem Scanned.all_wf {p : Pos} {s : List Char} {toks : List (Tok S)} (h : Scanned cfg p s toks) :
    ∀ t ∈ toks, Tok.WF cfg t := by
  induction h with
  | done _ => intro t ht; cases ht
  | tok _ hl _ ih =>
    intro t ht
    rcases mem_cons.1 ht with rfl | ht
    · exact hl.tokWF _ _
    · exact ih t ht

/-- **scanner invariant**: every token of a successful scan is well formed -/
theorem scan_all_wf {input : List Char} {toks : List (Tok S)} (h : scan cfg input = .ok toks) :
    ∀ t ∈ toks, Tok.WF cfg t :=
  (scan_ok_iff.1 h).all_wf

/-! ## the single-character tokens -/

/-- the tags of the unary and binary operators -/
def isOpTag : Tag → Bool
  | .plus | .minus | .slash | .star | .caret | .bang | .percent | .sqrt | .dot | .cross => true
  | _ => false

omit [Kernel S] in
theorem singleKind_mem {c : Char} {k : Kind S} (h : singleKind (S := S) c = some k) :
    c ∈ singleChars := by
  by_cases hc : c ∈ singleChars
  · exact hc
  · have := singleKind_none_of (S := S) c (fun x => decide (x ∉ singleChars)) (by simpa using hc)
      (by decide)
    rw [this] at h; cases h

omit [Kernel S] in
/-- a single-character token is no identifier, number, unit or `as`; and when its tag is an
    operator tag, its character is an operator character (not the newline) -/
theorem singleKind_spec {c : Char} {k : Kind S} (h : singleKind (S := S) c = some k) :
    (∀ n, k ≠ .ident n) ∧ (∀ z, k ≠ .number z) ∧ (∀ u, k ≠ .unit u) ∧ k ≠ .as_ ∧
      (isOpTag k.tag = true → c ∈ opChars ∧ c ≠ '\n') := by
  have hc := singleKind_mem h
  simp only [singleChars, mem_cons, not_mem_nil, or_false] at hc
  rcases hc with rfl | rfl | rfl | rfl | rfl | rfl | rfl | rfl | rfl | rfl | rfl | rfl | rfl | rfl |
    rfl | rfl | rfl | rfl | rfl | rfl | rfl | rfl | rfl
  all_goals
    cases h
    exact ⟨fun _ e => (nomatch e), fun _ e => (nomatch e), fun _ e => (nomatch e),
      fun e => (nomatch e), by simp only [Kind.tag]; decide⟩

/-! ## well-formed tokens, by kind -/

/-- the keyword table yields keyword kinds only: `delete`, `clear`, `as`, `dot`, `cross`, units
    (the constructors of `Gen.KwKind` other than `other`) -/
def KwKinds (cfg : ScanCfg S) : Prop :=
  ∀ w k, cfg.keyword w = some k →
    k = .dot ∨ k = .cross ∨ k = .delete ∨ k = .clear ∨ k = .as_ ∨ ∃ u, k = .unit u

omit [Kernel S] in
/-- the kind of a word is a keyword kind of the table at that word, or the identifier it spells -/
theorem wordKindOf_cases (w : Str) (k : Kind S) (h : wordKindOf cfg w = k) :
    cfg.keyword w = some k ∨ (cfg.keyword w = none ∧ k = .ident w) := by
  unfold wordKindOf at h
  split at h
  · next k' hk' => subst h; exact .inl hk'
  · next hk' => exact .inr ⟨hk', h.symm⟩

/-- an identifier token is a word, whatever the table -/
theorem Tok.WF.wordLex_of_ident {t : Tok S} (h : Tok.WF cfg t) {n : Str} (hn : t.kind = .ident n) :
    WordLex cfg t.lexeme t.kind := by
  cases h with
  | single c hk _ => rw [hn] at hk; exact absurd rfl ((singleKind_spec hk).1 n)
  | word hw => exact hw
  | number d _ _ hk => rw [hn] at hk; cases hk

/-- **the name of an identifier token is its text**: when the table yields keyword kinds only, an
    identifier token's kind is `.ident` of its own lexeme, and its lexeme is no keyword -/
theorem Tok.WF.ident_name {t : Tok S} (h : Tok.WF cfg t) (hk : KwKinds cfg) {n : Str}
    (hn : t.kind = .ident n) : t.lexeme = n ∧ cfg.keyword t.lexeme = none := by
  obtain ⟨_, _, hw⟩ := h.wordLex_of_ident hn
  rcases wordKindOf_cases _ _ hw with h1 | ⟨h1, h2⟩
  · rw [hn] at h1
    rcases hk _ _ h1 with e | e | e | e | e | ⟨u, e⟩ <;> cases e
  · rw [hn] at h2
    injection h2 with h2
    exact ⟨h2.symm, h1⟩

/-- a unit token is a word that the table reads as that unit -/
theorem Tok.WF.unit_keyword {t : Tok S} (h : Tok.WF cfg t) {u : Unit} (hu : t.kind = .unit u) :
    cfg.keyword t.lexeme = some (.unit u) := by
  cases h with
  | single c hk _ => rw [hu] at hk; exact absurd rfl ((singleKind_spec hk).2.2.1 u)
  | word hw =>
    rcases wordKindOf_cases _ _ hw.2.2 with h1 | ⟨_, h2⟩
    · rw [hu] at h1; exact h1
    · rw [hu] at h2; cases h2
  | number d _ _ hk => rw [hu] at hk; cases hk

/-- an `as` token is a word that the table reads as `as` -/
theorem Tok.WF.as_keyword {t : Tok S} (h : Tok.WF cfg t) (ha : t.kind = .as_) :
    cfg.keyword t.lexeme = some .as_ := by
  cases h with
  | single c hk _ => rw [ha] at hk; exact absurd rfl (singleKind_spec hk).2.2.2.1
  | word hw =>
    rcases wordKindOf_cases _ _ hw.2.2 with h1 | ⟨_, h2⟩
    · rw [ha] at h1; exact h1
    · rw [ha] at h2; cases h2
  | number d _ _ hk => rw [ha] at hk; cases hk

/-- a number token's text is accepted by the float reader and its value is the value read, when
    the table yields keyword kinds only -/
theorem Tok.WF.number_value {t : Tok S} (h : Tok.WF cfg t) (hk : KwKinds cfg) {z : S}
    (hz : t.kind = .number z) :
    ∃ d, parseDecimal t.lexeme = some d ∧ z = Kernel.ofDecimal d.mant d.exp := by
  cases h with
  | single c hk' _ => rw [hz] at hk'; exact absurd rfl ((singleKind_spec hk').2.1 z)
  | word hw =>
    rcases wordKindOf_cases _ _ hw.2.2 with h1 | ⟨_, h2⟩
    · rw [hz] at h1
      rcases hk _ _ h1 with e | e | e | e | e | ⟨u, e⟩ <;> cases e
    · rw [hz] at h2; cases h2
  | number d _ hp hk' => rw [hz] at hk'; injection hk' with hk'; exact ⟨d, hp, hk'⟩

/-- an operator token is one operator character, or a word read as that operator -/
theorem Tok.WF.op_or_word {t : Tok S} (h : Tok.WF cfg t) (ht : isOpTag t.tag = true) :
    OpTok t ∨ WordLex cfg t.lexeme t.kind := by
  cases h with
  | single c hk hl =>
    obtain ⟨hc, hn⟩ := (singleKind_spec hk).2.2.2.2 ht
    refine .inl ⟨c, ?_, hc, hk⟩
    rw [hl, lexemeOf_cons_ne _ hn]
  | word hw => exact .inr hw
  | number d _ _ hk => rw [Tok.tag, hk] at ht; cases ht

/-- an operator token other than `dot` / `cross` is one operator character, when the table yields
    keyword kinds only -/
theorem Tok.WF.opTok {t : Tok S} (h : Tok.WF cfg t) (hk : KwKinds cfg)
    (ht : isOpTag t.tag = true) (hw : isWordOp t.tag = false) : OpTok t := by
  rcases h.op_or_word ht with h1 | h1
  · exact h1
  · exfalso
    rcases wordKindOf_cases _ _ h1.2.2 with h2 | ⟨_, h2⟩
    · rcases hk _ _ h2 with e | e | e | e | e | ⟨u, e⟩ <;>
        simp only [Tok.tag, e, Kind.tag, isOpTag, isWordOp] at ht hw <;> simp at ht hw
    · simp only [Tok.tag, h2, Kind.tag, isOpTag] at ht
      cases ht

/-- what `Expr.TreeOK` asks of a binary operator token -/
theorem Tok.WF.binOp {t : Tok S} (h : Tok.WF cfg t) (hk : KwKinds cfg)
    (ht : isOpTag t.tag = true) :
    (if isWordOp t.tag then OpTok t ∨ WordLex cfg t.lexeme t.kind else OpTok t) := by
  cases hw : isWordOp t.tag with
  | true => simpa using h.op_or_word ht
  | false => simpa using h.opTok hk ht hw

end Calc
