/-
  Calc.Proofs.BlameData — the operators and the native functions never produce a user-function
  value: function values only travel (out of the table, through groupings, arguments and calls).
  Core Lean only.
-/
import Calc.Proofs.BlamePos
import Calc.Proofs.BlameOps
namespace Calc
variable {S : Type} [Add S] [Sub S] [Mul S] [Div S] [Zero S] [One S] [Kernel S]
set_option linter.unusedSectionVars false

theorem Res.ok_of_bind_eq_ok {α β} {r : Res α} {f : α → Res β} {b : β} (h : r.bind f = .ok b) :
    ∃ x, r = .ok x ∧ f x = .ok b := by
  cases r with
  | ok x => exact ⟨x, rfl, h⟩
  | diag d => simp [Res.bind] at h
  | panic s => simp [Res.bind] at h
  | fuel => simp [Res.bind] at h

/-- closes `v.bodyPositions = []` from `h : <leaf> = .ok v` -/
macro "data_leaf" h:ident : tactic => `(tactic| first
    | (obtain ⟨_, _, h'⟩ := Res.ok_of_bind_eq_ok $h; cases h'; rfl)
    | (cases $h:ident; rfl)
    | (cases $h:ident; done))

theorem binop_ok_data (op : Tok S) (a b v : Value S) (h : binop op a b = .ok v) :
    v.bodyPositions = [] := by
  unfold binop at h
  simp only [diagAt] at h
  split at h
  all_goals (try split at h)
  all_goals (try split at h)
  all_goals (try split at h)
  all_goals data_leaf h

theorem unop_ok_data (op : Tok S) (a v : Value S) (h : unop op a = .ok v) :
    v.bodyPositions = [] := by
  unfold unop at h
  simp only [diagAt] at h
  split at h
  all_goals (try split at h)
  all_goals (try split at h)
  all_goals data_leaf h

theorem groupop_ok_data (p : Tok S) (k : GKind) (a v : Value S) (h : groupop p k a = .ok v) :
    v = a ∨ v.bodyPositions = [] := by
  unfold groupop at h
  simp only [diagAt] at h
  split at h
  · cases h; exact .inl rfl
  all_goals (try split at h)
  all_goals (try split at h)
  all_goals (try split at h)
  all_goals (right; data_leaf h)

theorem asop_ok_data (t : Tok S) (u : Unit) (a v : Value S) (h : asop t u a = .ok v) :
    v.bodyPositions = [] := by
  unfold asop at h
  simp only [diagAt] at h
  split at h
  all_goals (try split at h)
  all_goals data_leaf h

theorem nativeBody_ok_data (name : Str) (l c : Nat) (args : List (Value S)) (v : Value S)
    (h : nativeBody name l c args = .ok v) : v.bodyPositions = [] := by
  unfold nativeBody at h
  split at h
  case h_30 =>
    obtain ⟨m, -, h1⟩ := Res.ok_of_bind_eq_ok h
    obtain ⟨r, -, h2⟩ := Res.ok_of_bind_eq_ok h1
    split at h2
    · cases h2; rfl
    · cases h2
  all_goals first
    | (simp only [num1] at h; obtain ⟨_, _, h'⟩ := Res.ok_of_bind_eq_ok h; cases h'; rfl)
    | (obtain ⟨_, _, h1⟩ := Res.ok_of_bind_eq_ok h; obtain ⟨_, _, h2⟩ := Res.ok_of_bind_eq_ok h1; cases h2; rfl)
    | (cases h; done)

theorem callNative_ok_data (name : Str) (l c : Nat) (args : List (Value S)) (v : Value S)
    (h : callNative name l c args = .ok v) : v.bodyPositions = [] := by
  unfold callNative at h
  split at h
  · cases h
  · split at h
    · cases h
    · split at h
      · cases h
      · exact nativeBody_ok_data _ _ _ _ _ h

end Calc
