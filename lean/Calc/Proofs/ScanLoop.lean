/-
  Calc.Proofs.ScanLoop — the scanner loop against the declarative `Lexeme` / `Scanned`
  vocabulary: one-step unfolding, fuel adequacy, absence of panics, and the equivalence
  `scan cfg input = .ok toks ↔ Scanned cfg ⟨1,1⟩ input toks`.  Core Lean only.
-/
import Calc.Proofs.ScanLemmas
namespace Calc
open List

variable {S : Type}

/-! ### `ScanRes.cons` -/

theorem ScanRes.cons_eq_ok {x : ScanRes S} {t : Tok S} {ts : List (Tok S)} :
    x.cons t = .ok ts ↔ ∃ ts', x = .ok ts' ∧ ts = t :: ts' := by
  cases x <;> simp [ScanRes.cons, eq_comm]

theorem ScanRes.cons_eq_bad {x : ScanRes S} {t : Tok S} {e : ScanErr} :
    x.cons t = .bad e ↔ x = .bad e := by
  cases x <;> simp [ScanRes.cons]

theorem ScanRes.cons_eq_panic {x : ScanRes S} {t : Tok S} {site : Str} :
    x.cons t = .panic site ↔ x = .panic site := by
  cases x <;> simp [ScanRes.cons]

theorem ScanRes.cons_eq_fuel {x : ScanRes S} {t : Tok S} :
    x.cons t = .fuel ↔ x = .fuel := by
  cases x <;> simp [ScanRes.cons]

/-! ### Character classes are disjoint from blanks -/

theorem singleKind_not_blank {c : Char} {k : Kind S} (h : singleKind (S := S) c = some k) :
    isBlank c = false := by
  cases hb : isBlank c
  · rfl
  · simp only [isBlank, Bool.or_eq_true, decide_eq_true_eq] at hb
    rcases hb with (rfl | rfl) | rfl <;> simp [singleKind] at h

theorem isIdentStart_not_blank {c : Char} (h : isIdentStart c = true) : isBlank c = false := by
  cases hb : isBlank c
  · rfl
  · simp only [isBlank, Bool.or_eq_true, decide_eq_true_eq] at hb
    rcases hb with (rfl | rfl) | rfl <;> exact absurd h (by decide)

theorem singleKind_newline : singleKind (S := S) '\n' = some .newline := rfl

/-! ### One loop iteration -/

variable [Kernel S] {cfg : ScanCfg S}

theorem scanLoop_nil (f : Nat) (p : Pos) : scanLoop cfg f [] p = .ok [] := by
  cases f <;> rfl

theorem scanLoop_blank {c : Char} (h : isBlank c = true) (f : Nat) (cs : List Char) (p : Pos) :
    scanLoop cfg (f + 1) (c :: cs) p = scanLoop cfg f cs (adv cfg.tab p c) := by
  rw [scanLoop]; simp [h]

/-- the slice of a token starts with the head of the text and, with the rest, rebuilds it -/
theorem Lexeme.split {s ℓ r : List Char} {k : Kind S} (h : Lexeme cfg s k ℓ r) :
    ℓ ++ r = s ∧ ∃ c ℓ' cs, ℓ = c :: ℓ' ∧ s = c :: cs := by
  cases h with
  | single _ _ => exact ⟨rfl, _, _, _, rfl, rfl⟩
  | @word c cs _ _ _ hne =>
    refine ⟨takeWhile_append_dropWhile, ?_⟩
    rw [takeWhile_cons] at hne ⊢
    split
    · exact ⟨_, _, _, rfl, rfl⟩
    · next hc => simp [hc] at hne
  | @number c cs d _ _ _ hd _ =>
    refine ⟨scanNumber_text_rest _, ?_⟩
    have h2 := scanNumber_text_rest (c :: cs)
    obtain ⟨d', hv⟩ := (scanNumber_spec (cs := cs) hd).1
    obtain ⟨c', ℓ', ht, _⟩ := hv.head
    rw [ht] at h2 ⊢
    injection h2 with hc _
    subst hc
    exact ⟨_, _, _, rfl, rfl⟩

theorem Lexeme.rest_lt {s ℓ r : List Char} {k : Kind S} (h : Lexeme cfg s k ℓ r) :
    r.length < s.length := by
  obtain ⟨h1, c, ℓ', cs, rfl, _⟩ := h.split
  rw [← h1]; simp; omega

theorem Lexeme.not_blank {c : Char} {cs ℓ r : List Char} {k : Kind S}
    (h : Lexeme cfg (c :: cs) k ℓ r) : isBlank c = false := by
  cases h <;> assumption

/-- only the newline token's text differs from its slice -/
theorem Lexeme.lexemeOf {s ℓ r : List Char} {k : Kind S} (h : Lexeme cfg s k ℓ r) :
    lexemeOf ℓ = ℓ ∨ (ℓ = ['\n'] ∧ k = .newline) := by
  by_cases hn : ℓ = ['\n']
  · right
    refine ⟨hn, ?_⟩
    obtain ⟨_, c, ℓ', cs, h1, rfl⟩ := h.split
    rw [h1] at hn
    injection hn with hc _
    subst hc
    cases h with
    | single _ hk => rw [singleKind_newline] at hk; cases hk; rfl
    | word _ hs _ _ => rw [singleKind_newline] at hs; cases hs
    | number _ hs _ _ _ => rw [singleKind_newline] at hs; cases hs
  · left; simp [Calc.lexemeOf, hn]

theorem lexemeOf_cons_ne {c : Char} (ℓ : List Char) (h : c ≠ '\n') :
    lexemeOf (c :: ℓ) = c :: ℓ := by
  have : c :: ℓ ≠ ['\n'] := by intro e; injection e with e _; exact h e
  simp [lexemeOf, this]

/-- the iteration at a token start emits the token and continues after its slice -/
theorem scanLoop_lexeme {c : Char} {cs ℓ r : List Char} {k : Kind S}
    (h : Lexeme cfg (c :: cs) k ℓ r) (f : Nat) (p : Pos) :
    scanLoop cfg (f + 1) (c :: cs) p =
      (scanLoop cfg f r (advs cfg.tab p ℓ)).cons ⟨k, lexemeOf ℓ, p.line, p.col⟩ := by
  obtain ⟨_, c', ℓ', cs', h1, h2⟩ := h.split
  injection h2 with hc _
  subst hc
  cases h with
  | single hb hk =>
    rw [scanLoop]; simp only [hb, hk]; rfl
  | word hb hs hi hne =>
    have hcn : c ≠ '\n' := fun e => by rw [e, singleKind_newline] at hs; cases hs
    rw [scanLoop]
    simp only [hb, hs, hi]
    have : ((c :: cs).takeWhile (isIdentCont cfg)).isEmpty = false := by
      cases hw : (c :: cs).takeWhile (isIdentCont cfg)
      · exact absurd hw hne
      · rfl
    simp only [this]
    rw [h1, lexemeOf_cons_ne _ hcn]
    rfl
  | number hb hs hi hd hp =>
    have hcn : c ≠ '\n' := fun e => by rw [e, singleKind_newline] at hs; cases hs
    rw [scanLoop]
    simp only [hb, hs, hi, hd, hp]
    rw [h1, lexemeOf_cons_ne _ hcn]
    rfl

/-- every text `scanNumber` returns is accepted by the float reader -/
theorem parseDecimal_scanNumber {c : Char} (cs : List Char) (hc : isDigit c = true) :
    ∃ d, parseDecimal (scanNumber (c :: cs)).text = some d := by
  obtain ⟨d, hv⟩ := (scanNumber_spec (cs := cs) hc).1
  exact ⟨d, parseDecimal_iff.2 hv⟩

/-- what the iteration at a non-blank character does: it finds a token, or reports the
    character, or (only when an identifier-start character is not a continue character)
    hits the empty-identifier site -/
theorem scanLoop_step (c : Char) (cs : List Char) (hb : isBlank c = false) :
    (∃ k ℓ r, Lexeme cfg (c :: cs) k ℓ r) ∨
    (CannotBegin S c ∧ ∀ f p, scanLoop cfg (f + 1) (c :: cs) p = .bad ⟨p.line, p.col, c⟩) ∨
    (isIdentStart c = true ∧ isIdentCont cfg c = false ∧
      ∀ f p, scanLoop cfg (f + 1) (c :: cs) p = .panic "ident-empty".toList) := by
  rcases hs : singleKind (S := S) c with _ | k
  · cases hi : isIdentStart c
    · cases hd : isDigit c
      · right; left
        refine ⟨⟨hb, hs, hi, hd⟩, fun f p => ?_⟩
        rw [scanLoop]; simp [hb, hs, hi, hd]
      · left
        obtain ⟨d, hp⟩ := parseDecimal_scanNumber cs hd
        exact ⟨_, _, _, .number hb hs hi hd hp⟩
    · cases hc : isIdentCont cfg c
      · right; right
        refine ⟨rfl, rfl, fun f p => ?_⟩
        rw [scanLoop]; simp [hb, hs, hi, hc]
      · left
        exact ⟨_, _, _, .word hb hs hi (by simp [hc])⟩
  · left
    exact ⟨_, _, _, .single hb hs⟩

/-! ### Fuel -/

/-- one unit of fuel per character suffices -/
theorem scanLoop_ne_fuel (f : Nat) (s : List Char) (p : Pos) (h : s.length < f) :
    scanLoop cfg f s p ≠ .fuel := by
  induction f generalizing s p with
  | zero => omega
  | succ f ih =>
    rcases s with _ | ⟨c, cs⟩
    · rw [scanLoop_nil]; intro h; cases h
    cases hb : isBlank c
    · rcases scanLoop_step (cfg := cfg) c cs hb with ⟨k, ℓ, r, hl⟩ | ⟨_, hbad⟩ | ⟨_, _, hpan⟩
      · rw [scanLoop_lexeme hl, Ne, ScanRes.cons_eq_fuel]
        have := hl.rest_lt
        exact ih _ _ (by simp at h this; omega)
      · rw [hbad]; intro h; cases h
      · rw [hpan]; intro h; cases h
    · rw [scanLoop_blank hb]
      exact ih _ _ (by simp at h; omega)

/-! ### No panic -/

theorem scanLoop_ne_panic (hstart : ∀ c, isIdentStart c = true → isIdentCont cfg c = true)
    (f : Nat) (s : List Char) (p : Pos) (site : Str) :
    scanLoop cfg f s p ≠ .panic site := by
  induction f generalizing s p with
  | zero => cases s <;> (intro h; cases h)
  | succ f ih =>
    rcases s with _ | ⟨c, cs⟩
    · rw [scanLoop_nil]; intro h; cases h
    cases hb : isBlank c
    · rcases scanLoop_step (cfg := cfg) c cs hb with ⟨k, ℓ, r, hl⟩ | ⟨_, hbad⟩ | ⟨hi, hc, _⟩
      · rw [scanLoop_lexeme hl, Ne, ScanRes.cons_eq_panic]
        exact ih _ _
      · rw [hbad]; intro h; cases h
      · rw [hstart c hi] at hc; cases hc
    · rw [scanLoop_blank hb]
      exact ih _ _

/-! ### The loop and `Scanned` -/

theorem Scanned.blank {c : Char} {cs : List Char} {p : Pos} {ts : List (Tok S)}
    (hc : isBlank c = true) (h : Scanned cfg (adv cfg.tab p c) cs ts) :
    Scanned cfg p (c :: cs) ts := by
  cases h with
  | done hb => exact .done (by simp [hc, hb])
  | @tok _ b s k ℓ r ts hb hl hs =>
    exact Scanned.tok (p := p) (b := c :: b) (by simp [hc, hb]) hl hs

theorem Scanned.lexeme {s ℓ r : List Char} {k : Kind S} {p : Pos} {ts : List (Tok S)}
    (hl : Lexeme cfg s k ℓ r) (h : Scanned cfg (advs cfg.tab p ℓ) r ts) :
    Scanned cfg p s (⟨k, lexemeOf ℓ, p.line, p.col⟩ :: ts) :=
  Scanned.tok (p := p) (b := []) rfl hl h

theorem scanLoop_ok_scanned (f : Nat) (s : List Char) (p : Pos) (toks : List (Tok S))
    (h : scanLoop cfg f s p = .ok toks) : Scanned cfg p s toks := by
  induction f generalizing s p toks with
  | zero =>
    rcases s with _ | ⟨c, cs⟩
    · cases h; exact .done rfl
    · cases h
  | succ f ih =>
    rcases s with _ | ⟨c, cs⟩
    · rw [scanLoop_nil] at h; cases h; exact .done rfl
    cases hb : isBlank c
    · rcases scanLoop_step (cfg := cfg) c cs hb with ⟨k, ℓ, r, hl⟩ | ⟨_, hbad⟩ | ⟨_, _, hpan⟩
      · rw [scanLoop_lexeme hl, ScanRes.cons_eq_ok] at h
        obtain ⟨ts', h', rfl⟩ := h
        exact .lexeme hl (ih _ _ _ h')
      · rw [hbad] at h; cases h
      · rw [hpan] at h; cases h
    · rw [scanLoop_blank hb] at h
      exact .blank hb (ih _ _ _ h)

theorem scanLoop_blanks {b : List Char} (hb : b.all isBlank = true) (f : Nat) (s : List Char)
    (p : Pos) :
    scanLoop cfg (f + b.length) (b ++ s) p = scanLoop cfg f s (advs cfg.tab p b) := by
  induction b generalizing p with
  | nil => rfl
  | cons c b ih =>
    simp only [all_cons, Bool.and_eq_true] at hb
    rw [length_cons, ← Nat.add_assoc, cons_append, scanLoop_blank hb.1, ih hb.2]
    rfl

theorem scanned_scanLoop_ok {p : Pos} {s : List Char} {toks : List (Tok S)}
    (h : Scanned cfg p s toks) (f : Nat) (hf : s.length < f) :
    scanLoop cfg f s p = .ok toks := by
  induction h generalizing f with
  | @done p b hb =>
    obtain ⟨f', rfl⟩ : ∃ f', f = f' + b.length := ⟨f - b.length, by omega⟩
    have := scanLoop_blanks (cfg := cfg) hb f' [] p
    rw [append_nil] at this
    rw [this, scanLoop_nil]
  | @tok p b s k ℓ r ts hb hl _ ih =>
    have hlt := hl.rest_lt
    simp only [length_append] at hf
    obtain ⟨f', rfl⟩ : ∃ f', f = (f' + 1) + b.length := ⟨f - b.length - 1, by omega⟩
    rw [scanLoop_blanks hb]
    obtain ⟨_, c, ℓ', cs, _, rfl⟩ := hl.split
    rw [scanLoop_lexeme hl, ih f' (by omega)]
    rfl

/-- the scanner succeeds with `toks` exactly when `toks` is the declarative scan of `input` -/
theorem scan_ok_iff {input : List Char} {toks : List (Tok S)} :
    scan cfg input = .ok toks ↔ Scanned cfg Pos.start input toks :=
  ⟨scanLoop_ok_scanned _ _ _ _, fun h => scanned_scanLoop_ok h _ (Nat.lt_succ_self _)⟩

end Calc
