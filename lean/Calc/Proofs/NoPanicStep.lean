/-
  Calc.Proofs.NoPanicStep — statements keep the table well formed and print no panic line
  (C01), for lists of statements of any length.
-/
import Calc.Proofs.NoPanicEval
import Calc.Proofs.EnvStep
namespace Calc
variable {S : Type} [Add S] [Sub S] [Mul S] [Div S] [Zero S] [One S] [Kernel S]
set_option linter.unusedSectionVars false

/-- the output line that reports a Rust panic -/
def Line.isPanic : Line S → Bool
  | .panic _ => true
  | _ => false

theorem mem_defineSig_cases {sigs : List (Sig S × Expr S)} {sig : Sig S} {body : Expr S}
    {se : Sig S × Expr S} (h : se ∈ defineSig sigs sig body) : se ∈ sigs ∨ se = (sig, body) := by
  induction sigs with
  | nil =>
    simp only [defineSig, List.mem_singleton] at h
    exact .inr h
  | cons hd tl ih =>
    obtain ⟨s, b⟩ := hd
    simp only [defineSig] at h
    split at h
    · rcases List.mem_cons.mp h with rfl | h
      · exact .inr rfl
      · exact .inl (List.mem_cons_of_mem _ h)
    · rcases List.mem_cons.mp h with rfl | h
      · exact .inl List.mem_cons_self
      · rcases ih h with h | h
        · exact .inl (List.mem_cons_of_mem _ h)
        · exact .inr h

theorem resLine_noPanic {r : Res (Value S)} {P : Value S → Prop} (h : r.NoPanic P) :
    ∀ l ∈ resLine r, l.isPanic = false := by
  intro l hl
  cases r with
  | ok v => simp only [resLine, List.mem_singleton] at hl; subst hl; rfl
  | diag d => simp only [resLine, List.mem_singleton] at hl; subst hl; rfl
  | panic s => exact absurd h id
  | fuel => simp only [resLine, List.mem_singleton] at hl; subst hl; rfl

theorem errOut_noPanic (env : Env S) (k : EvalErrKind) (t : Tok S) (info : Str) :
    ∀ l ∈ (errOut env k t info).out, l.isPanic = false := by
  intro l hl
  simp only [errOut, List.mem_singleton] at hl
  subst hl; rfl

/-- one statement: the table stays well formed and no panic line is printed -/
structure StepGood (o : StepOut S) : Prop where
  env : EnvWF o.env
  out : ∀ l ∈ o.out, l.isPanic = false

theorem StepGood.errOut {env : Env S} (h : EnvWF env) (k : EvalErrKind) (t : Tok S) (info : Str) :
    StepGood (Calc.errOut env k t info) :=
  ⟨h, errOut_noPanic env k t info⟩

theorem StepGood.silent {env : Env S} (h : EnvWF env) : StepGood (⟨env, []⟩ : StepOut S) :=
  ⟨h, by intro l hl; cases hl⟩

theorem step_good (hpos : PosToNat S) (fuel : Nat) (env : Env S) (s : Stmt S)
    (henv : EnvWF env) (hs : s.EvalWF) : StepGood (step fuel env s) := by
  cases s with
  | expr e =>
    have h := eval_noPanic hpos fuel e env hs henv
    simp only [step]
    exact ⟨by rw [eval_env]; exact henv, resLine_noPanic h⟩
  | deleteVar name =>
    simp only [step]
    split
    · split
      · exact .errOut henv ..
      · exact .silent (henv.remove _)
    · exact .errOut henv ..
  | deleteSig name sig =>
    simp only [step]
    split
    · next v hg =>
      split
      · exact .errOut henv ..
      · split
        · exact .errOut henv ..
        · next fn hv =>
          have hfn : (Value.user fn).WF := by rw [← hv]; exact henv.get hg
          split
          · exact .errOut henv ..
          · split
            · exact .silent (henv.remove _)
            · refine .silent (henv.insert _ ?_ false)
              intro se hse
              exact hfn se (List.mem_filter.mp hse).1
        · exact .errOut henv ..
    · exact .errOut henv ..
  | assign name e =>
    have h := eval_noPanic hpos fuel e env hs henv
    simp only [step]
    split
    · exact .errOut henv ..
    · split
      · next v hv =>
        rw [hv] at h
        refine .silent ?_
        rw [eval_env]
        exact henv.insert _ h false
      · exact ⟨by rw [eval_env]; exact henv, resLine_noPanic h⟩
  | define name sig body =>
    have hfresh : (Value.user (S := S) ⟨name.lexeme, [(sig, body)]⟩).WF := by
      intro se hse
      simp only [List.mem_singleton] at hse
      subst hse; exact hs
    simp only [step]
    split
    · next v hg =>
      split
      · exact .errOut henv ..
      · split
        · next fn hv =>
          have hfn : (Value.user fn).WF := by rw [← hv]; exact henv.get hg
          refine .silent (henv.insert _ ?_ false)
          intro se hse
          rcases mem_defineSig_cases hse with h | h
          · exact hfn se h
          · subst h; exact hs
        · exact .errOut henv ..
        · exact .silent (henv.insert _ hfresh false)
    · exact .silent (henv.insert _ hfresh false)
  | clear => exact .silent henv.retainConstants

theorem runStmts_good (hpos : PosToNat S) (fuel : Nat) (ss : List (Stmt S)) :
    ∀ env : Env S, EnvWF env → (∀ s ∈ ss, s.EvalWF) → StepGood (runStmts fuel env ss) := by
  induction ss with
  | nil => intro env henv _; exact .silent henv
  | cons s ss ih =>
    intro env henv hss
    have h1 := step_good hpos fuel env s henv (hss s List.mem_cons_self)
    have h2 := ih (step fuel env s).env h1.env (fun t ht => hss t (List.mem_cons_of_mem _ ht))
    refine ⟨h2.env, ?_⟩
    intro l hl
    simp only [runStmts, List.mem_append] at hl
    rcases hl with hl | hl
    · exact h1.out l hl
    · exact h2.out l hl

end Calc
