/-
  Calc.Proofs.ReparseEntry — the whole listing ENTRY `name(params) = body` reads back as the
  definition it was stored from (C18).

  The left-hand side `name(p₁, …, pₙ)` of an entry is the printed text of the call expression the
  parser read on the left of `=` when the function was defined (`showSigEntry_eq`), so its scan is
  the round trip of that call expression (Calc/Proofs/PrintRoundtrip.lean); ` = ` is a blank, the
  single-character token `=`, a blank; the body is the round trip of the body.  The grammar then
  reads the tokens as a definition (`DerivesStmt.define`).  Core Lean only.
-/
import Calc.Proofs.ReparseTable
import Calc.Proofs.ParseProgram
import Calc.Proofs.ParseFuel
namespace Calc

variable {S : Type}

/-! ## parameters -/

theorem DerivesParams.noMatrixArgs {args : List (Expr S)} {ps} (h : DerivesParams args ps) :
    Expr.NoMatrixArgs args := by
  induction h with
  | nil => simp [Expr.NoMatrixArgs]
  | ident _ ih => simp only [Expr.NoMatrixArgs, Expr.NoMatrix]; exact ⟨trivial, ih⟩
  | number _ ih => simp only [Expr.NoMatrixArgs, Expr.NoMatrix]; exact ⟨trivial, ih⟩

/-- arguments similar (with equal identifier lexemes) to parameters are the same parameters -/
theorem DerivesParams.of_simLex {args : List (Expr S)} {ps} (h : DerivesParams args ps) :
    ∀ {args'}, Expr.SimLexArgs args args' → DerivesParams args' ps := by
  induction h with
  | nil => intro args' hs; cases hs; exact .nil
  | ident _ ih =>
    intro args' hs
    cases hs with
    | cons h1 hs =>
      cases h1 with
      | ident _ hl => rw [hl]; exact .ident (ih hs)
  | number _ ih =>
    intro args' hs
    cases hs with
    | cons h1 hs =>
      cases h1 with
      | number => exact .number (ih hs)

section
variable [Kernel S]

/-- the parameters print as the arguments they were read from -/
theorem DerivesParams.showArgs_eq {args : List (Expr S)} {ps} (h : DerivesParams args ps) :
    showArgs args = ps.map showParam := by
  induction h with
  | nil => rfl
  | ident _ ih => simp [showArgs, showExpr, showParam, ih]
  | number _ ih => simp [showArgs, showExpr, showParam, ih]

/-- **an entry is the printed call, ` = `, the printed body** -/
theorem showSigEntry_eq (name lp : Tok S) (args : List (Expr S)) (ps : List (Param S))
    (body : Expr S) (h : DerivesParams args ps) :
    showSigEntry name.lexeme (⟨ps⟩, body) =
      showExpr (.call (.ident name) lp args) ++ (" = ".toList ++ showExpr body) := by
  have e : ") = ".toList = [')'] ++ " = ".toList := rfl
  simp only [showSigEntry, showExpr, h.showArgs_eq, e, List.append_assoc]

/-! ## scanning ` = ` and the line break -/

theorem scansAs_equal (cfg : ScanCfg S) : ScansAs cfg ['='] [Kind.equal] anyNext := by
  intro r _ f p hf
  obtain ⟨f0, rfl⟩ : ∃ f0, f = f0 + 1 := ⟨f - 1, by simp at hf; omega⟩
  refine ⟨[⟨.equal, ['='], p.line, p.col⟩], adv cfg.tab p '=', f0, ?_, rfl, by simp at hf; omega⟩
  exact scanLoop_single cfg '=' .equal (by decide) (by simp [singleKind]) (by decide) f0 r p

theorem scansAs_newline (cfg : ScanCfg S) : ScansAs cfg ['\n'] [Kind.newline] anyNext := by
  intro r _ f p hf
  obtain ⟨f0, rfl⟩ : ∃ f0, f = f0 + 1 := ⟨f - 1, by simp at hf; omega⟩
  refine ⟨[⟨.newline, ['\\', 'n'], p.line, p.col⟩], adv cfg.tab p '\n', f0, ?_, rfl, by
    simp at hf; omega⟩
  have hb : isBlank '\n' = false := by decide
  have hk : singleKind (S := S) '\n' = some .newline := by simp [singleKind]
  simp only [List.cons_append, List.nil_append, scanLoop, hb, hk, Bool.false_eq_true, if_false]
  rfl

theorem scansAs_blank_equal_blank (cfg : ScanCfg S) :
    ScansAs cfg " = ".toList [Kind.equal] anyNext := by
  have hb := scansAs_blank cfg
  have h1 : ScansAs cfg (['='] ++ [' ']) ([Kind.equal] ++ []) anyNext :=
    ScansAs.append (scansAs_equal cfg) hb (fun _ _ => trivial)
  have h2 : ScansAs cfg ([' '] ++ (['='] ++ [' '])) ([] ++ ([Kind.equal] ++ [])) anyNext :=
    ScansAs.append hb h1 (fun _ _ => trivial)
  exact h2

/-- the printed call, ` = `, the printed body: scanned piece by piece -/
theorem scansAs_entry (cfg : ScanCfg S) (hop : ∀ c ∈ opChars, cfg.isAlnum c = false)
    (hblank : cfg.isAlnum ' ' = false) (head body : Expr S) (hh : head.TreeOK cfg)
    (hb : body.TreeOK cfg) :
    ScansAs cfg (showExpr head ++ (" = ".toList ++ showExpr body))
      (head.kinds ++ ([Kind.equal] ++ body.kinds)) (stop cfg) := by
  have h1 := scansAs_showExpr cfg hop hblank head hh
  have h2 := scansAs_showExpr cfg hop hblank body hb
  have h3 : ScansAs cfg (" = ".toList ++ showExpr body) ([Kind.equal] ++ body.kinds) (stop cfg) :=
    ScansAs.append (scansAs_blank_equal_blank cfg) h2 (fun _ _ => trivial)
  exact ScansAs.append h1 h3 (fun _ _ => stop_blank cfg hblank)

/-- a `ScansAs` text on its own scans to tokens of these kinds -/
theorem ScansAs.scan_ok {cfg : ScanCfg S} {a : Str} {ks : List (Kind S)}
    (h : ScansAs cfg a ks (stop cfg)) : ∃ toks, scan cfg a = .ok toks ∧ toks.map (·.kind) = ks := by
  obtain ⟨ts, p', f', h1, h2, -⟩ := h [] (stop_none cfg) (a.length + 1) ⟨1, 1⟩ (by simp)
  refine ⟨ts, ?_, h2⟩
  unfold scan
  rw [List.append_nil] at h1
  rw [h1]
  have : scanLoop cfg f' [] p' = .ok [] := by cases f' <;> rfl
  rw [this, consAll_ok]

/-- … and, followed by a line break, to these tokens and a newline token -/
theorem ScansAs.scan_ok_newline {cfg : ScanCfg S} (hnl : cfg.isAlnum '\n' = false) {a : Str}
    {ks : List (Kind S)} (h : ScansAs cfg a ks (stop cfg)) :
    ∃ toks nl, scan cfg (a ++ ['\n']) = .ok (toks ++ [nl]) ∧ toks.map (·.kind) = ks ∧
      nl.kind = .newline := by
  have hstop : stop cfg (some '\n') := by
    refine ⟨fun d h => ?_, fun d h => ?_⟩
    · injection h with h; subst h; decide
    · injection h with h; subst h; simp [isIdentCont, hnl]
  obtain ⟨ts, p', f', h1, h2, h3⟩ := h ['\n'] hstop ((a ++ ['\n']).length + 1) ⟨1, 1⟩ (by simp)
  obtain ⟨ts', p'', f'', h1', h2', -⟩ := scansAs_newline cfg [] trivial f' p' (by simpa using h3)
  have hts' : ∃ nl, ts' = [nl] ∧ nl.kind = .newline := by
    cases ts' with
    | nil => simp at h2'
    | cons nl rest =>
      cases rest with
      | nil => exact ⟨nl, rfl, by simpa using h2'⟩
      | cons _ _ => simp at h2'
  obtain ⟨nl, rfl, hnlk⟩ := hts'
  refine ⟨ts, nl, ?_, h2, hnlk⟩
  unfold scan
  rw [h1]
  rw [List.append_nil] at h1'
  rw [h1']
  have : scanLoop cfg f'' [] p'' = .ok [] := by cases f'' <;> rfl
  rw [this, ← consAll_append, consAll_ok]

/-! ## the entry read as a definition -/

/-- **the entry reads back as the definition.**  For a scanner whose alphanumeric class contains
    no operator character and not the blank and whose keyword table satisfies `TableOK`: if
    `statement` accepted tokens `ts₀` satisfying `Tok.PrintOK` as the definition
    `.define name sig body`, with a matrix-free body, then any token list `toks` whose kinds are
    those of the printed call, `=`, and the printed body, made of well-formed tokens, followed by a
    delimiter, is accepted by `statement` as a definition of the same name lexeme, the SAME
    signature, and a body `SimLex` to `body`. -/
theorem entry_tokens_reparse {cfg : ScanCfg S} (hk : KwKinds cfg) {f₀ : Nat}
    {ts₀ r₀ : List (Tok S)} (hwf₀ : ∀ t ∈ ts₀, Tok.WF cfg t) {name : Tok S} {sig : Sig S}
    {body : Expr S} (hp : pStatement f₀ ts₀ = .ok (.define name sig body) r₀) (hm : body.NoMatrix) :
    ∃ (lp : Tok S) (args : List (Expr S)) (c₁ c₂ : List (Tok S)),
      Derives .expr c₁ (.call (.ident name) lp args) ∧ DerivesParams args sig.params ∧
      Derives .expr c₂ body ∧ (∀ t ∈ c₁, t ∈ ts₀) ∧ (∀ t ∈ c₂, t ∈ ts₀) ∧
      (Expr.call (.ident name) lp args).NoMatrix ∧
      ∀ toks : List (Tok S), (∀ t ∈ toks, Tok.WF cfg t) →
        toks.map (·.kind) =
          (Expr.call (.ident name) lp args).kinds ++ ([Kind.equal] ++ body.kinds) →
        ∃ name' body', name'.lexeme = name.lexeme ∧ name'.kind = name.kind ∧
          Expr.SimLex body body' ∧
          ∀ f (d : Tok S) r, d.isDelim → 10 + 13 * (toks ++ d :: r).length ≤ f →
            pStatement f (toks ++ d :: r) = .ok (.define name' sig body') r := by
  obtain ⟨c, d, hts, _, ds⟩ := pStatement_sound hp
  cases ds with
  | @define _ lp eq c₁ c₂ args ps _ hc hps heq hb =>
    have hmh : (Expr.call (.ident name) lp args).NoMatrix := by
      simp only [Expr.NoMatrix]; exact ⟨trivial, hps.noMatrixArgs⟩
    have hm1 : ∀ t ∈ c₁, t ∈ ts₀ := fun t h => by rw [hts]; simp [h]
    have hm2 : ∀ t ∈ c₂, t ∈ ts₀ := fun t h => by rw [hts]; simp [h]
    refine ⟨lp, args, c₁, c₂, hc, hps, hb, hm1, hm2, hmh, ?_⟩
    intro toks hwf hkinds
    obtain ⟨a', b', rfl, ha', hb'⟩ := List.map_eq_append_iff.mp hkinds
    obtain ⟨e', c', rfl, he', hc'⟩ := List.map_eq_cons_iff.mp hb'
    obtain ⟨head', dh, sh⟩ := hc.of_kinds (c' := a') (by rw [ha', hc.map_kind hmh])
    have hc'' : c'.map (·.kind) = body.kinds := hc'
    obtain ⟨body', db, sb⟩ := hb.of_kinds (c' := c') (by rw [hc'', hb.map_kind hm])
    have named₀ : ∀ t ∈ ts₀, Tok.Named t := fun t h => (hwf₀ t h).named hk
    have named' : ∀ t ∈ a' ++ e' :: c', Tok.Named t := fun t h => (hwf t h).named hk
    have slh := sh.simLex (hc.identsNamed (fun t h => named₀ t (hm1 t h)))
      (dh.identsNamed (fun t h => named' t (by simp [h])))
    have slb := sb.simLex (hb.identsNamed (fun t h => named₀ t (hm2 t h)))
      (db.identsNamed (fun t h => named' t (by simp [h])))
    cases slh with
    | @call _ fn' _ lp' _ args' hfn hlp hargs =>
      cases hfn with
      | @ident _ name' hkn hln =>
        have hps' := hps.of_simLex hargs
        have hetag : e'.tag = .equal := by simp [Tok.tag, he', Kind.tag]
        have dstmt : DerivesStmt (a' ++ e' :: c') (.define name' ⟨ps⟩ body') :=
          .define dh hps' hetag db
        refine ⟨name', body', hln.symm, hkn.symm, slb, ?_⟩
        intro f d r hd hf
        obtain ⟨N, hN⟩ := dstmt.complete
        have h1 : pStatement f ((a' ++ e' :: c') ++ d :: r) ≠ .fuel := pStatement_adequate hf
        have h2 := pStatement_mono h1 (Nat.le_max_left f N)
        rw [← h2]
        exact hN (max f N) (Nat.le_max_right f N) d r hd

end

end Calc
