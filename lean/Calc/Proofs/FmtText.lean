/-
  Calc.Proofs.FmtText — the text `Calc.Exec.fmtBits` prints for a positive finite binary64 is a
  number literal `D` or `D.F`, and reading that text (`parseDecimal`, then `decimalToBits`) gives
  back the same bit pattern.
-/
import Calc.Proofs.ShortestRoundTrip
import Calc.Proofs.ScanLemmas

namespace Calc.Proofs.FmtText
open Calc Calc.Exec Calc.Proofs.DecimalRound Calc.Proofs.ShortestRoundTrip

set_option exponentiation.threshold 2100

/-! ### digit strings -/

theorem digitsVal_append_single (l : List Char) (c : Char) :
    digitsVal (l ++ [c]) = digitsVal l * 10 + digitVal c := by
  unfold digitsVal; rw [List.foldl_append]; rfl

theorem digitsVal_append (a b : List Char) :
    digitsVal (a ++ b) = digitsVal a * 10 ^ b.length + digitsVal b := by
  induction b using List.reverseRecOn with
  | nil => simp [digitsVal]
  | append_singleton b c ih =>
    rw [← List.append_assoc, digitsVal_append_single, digitsVal_append_single, ih]
    simp only [List.length_append, List.length_singleton, Nat.pow_succ]
    ring

theorem digitVal_digitChar (d : Nat) (hd : d < 10) : digitVal (Nat.digitChar d) = d := by
  unfold digitVal
  have : '0'.toNat = 48 := by decide
  rw [this]; exact Nat.toNat_digitChar_sub_48_of_lt_ten hd

theorem isDigit_digitChar (d : Nat) (hd : d < 10) : isDigit (Nat.digitChar d) = true := by
  have : ∀ d < 10, isDigit (Nat.digitChar d) = true := by decide
  exact this d hd

theorem toDigits_spec : ∀ n : Nat,
    digitsVal (Nat.toDigits 10 n) = n ∧ (∀ c ∈ Nat.toDigits 10 n, isDigit c = true) := by
  intro n
  induction n using Nat.strongRecOn with
  | _ n ih =>
    rw [Nat.toDigits_eq_if (by decide)]
    split
    · rename_i h
      refine ⟨?_, ?_⟩
      · show digitsVal ([] ++ [Nat.digitChar n]) = n
        rw [digitsVal_append_single, digitVal_digitChar n h]; simp [digitsVal]
      · intro c hc
        rw [List.mem_singleton] at hc
        rw [hc]; exact isDigit_digitChar n h
    · obtain ⟨a, b⟩ := ih (n / 10) (by omega)
      refine ⟨?_, ?_⟩
      · rw [digitsVal_append_single, a, digitVal_digitChar _ (Nat.mod_lt _ (by decide))]
        omega
      · intro c hc
        rw [List.mem_append, List.mem_singleton] at hc
        rcases hc with hc | hc
        · exact b c hc
        · rw [hc]; exact isDigit_digitChar _ (Nat.mod_lt _ (by decide))

theorem digitsVal_zeros (j : Nat) : digitsVal (List.replicate j '0') = 0 := by
  induction j with
  | zero => rfl
  | succ j ih =>
    rw [List.replicate_succ']
    rw [digitsVal_append_single, ih]; rfl

theorem toDigits_ne_nil (n : Nat) : Nat.toDigits 10 n ≠ [] := by
  intro h
  have := @Nat.length_toDigits_pos 10 n
  rw [h] at this; exact absurd this (by decide)

/-! ### the printed text is a literal with the printed value -/

theorem fmtDigits_numberVal (c : Nat) (k : Int) :
    ∃ d : Decimal, NumberVal (fmtDigits c k) d ∧ decVal d.mant d.exp = decVal c k := by
  obtain ⟨hv, hd⟩ := toDigits_spec c
  have hne := toDigits_ne_nil c
  obtain ⟨ds, hds⟩ : ∃ ds, ds = Nat.toDigits 10 c := ⟨_, rfl⟩
  rw [← hds] at hv hd hne
  have hz : ∀ j, ∀ ch ∈ List.replicate j '0', isDigit ch = true := by
    intro j ch hch
    rw [(List.mem_replicate.1 hch).2]; decide
  unfold fmtDigits
  simp only [← hds]
  by_cases hk : k ≥ 0
  · rw [if_pos hk]
    obtain ⟨j, rfl⟩ := Int.eq_ofNat_of_zero_le hk
    rw [Int.toNat_natCast]
    refine ⟨⟨digitsVal (ds ++ List.replicate j '0'), 0⟩, ?_, ?_⟩
    · have := @NumberVal.int (ds ++ List.replicate j '0') [] 0
        ⟨by simp [hne], by
          intro ch hch
          rcases List.mem_append.1 hch with h | h
          · exact hd ch h
          · exact hz j ch h⟩ ExpVal.none
      rwa [List.append_nil] at this
    · rw [digitsVal_append, hv, digitsVal_zeros, List.length_replicate]
      unfold decVal
      simp only [zpow_zero, zpow_natCast]
      push_cast; ring
  · rw [if_neg hk]
    obtain ⟨j, hj⟩ : ∃ j : ℕ, (-k).toNat = j := ⟨_, rfl⟩
    have hkj : k = -(j : ℤ) := by omega
    have hj0 : 0 < j := by omega
    rw [hj]
    by_cases hlen : ds.length > j
    · rw [if_pos hlen]
      refine ⟨⟨digitsVal (ds.take (ds.length - j) ++ ds.drop (ds.length - j)),
        0 - ((ds.drop (ds.length - j)).length : ℤ)⟩, ?_, ?_⟩
      · have := @NumberVal.frac (ds.take (ds.length - j)) (ds.drop (ds.length - j)) [] 0
          ⟨by
            intro h
            have := congrArg List.length h
            rw [List.length_take] at this
            simp at this; omega, fun ch hch => hd ch (List.mem_of_mem_take hch)⟩
          ⟨by
            intro h
            have := congrArg List.length h
            rw [List.length_drop] at this
            simp at this; omega, fun ch hch => hd ch (List.mem_of_mem_drop hch)⟩ ExpVal.none
        rwa [List.append_nil] at this
      · rw [List.take_append_drop, hv, List.length_drop]
        unfold decVal
        have : (0 : ℤ) - ((ds.length - (ds.length - j) : ℕ) : ℤ) = k := by omega
        rw [this]
    · rw [if_neg hlen]
      refine ⟨⟨digitsVal (['0'] ++ (List.replicate (j - ds.length) '0' ++ ds)),
        0 - ((List.replicate (j - ds.length) '0' ++ ds).length : ℤ)⟩, ?_, ?_⟩
      · have := @NumberVal.frac ['0'] (List.replicate (j - ds.length) '0' ++ ds) [] 0
          ⟨by simp, by intro ch hch; rw [List.mem_singleton] at hch; rw [hch]; decide⟩
          ⟨by simp [hne], by
            intro ch hch
            rcases List.mem_append.1 hch with h | h
            · exact hz _ ch h
            · exact hd ch h⟩ ExpVal.none
        rw [List.append_nil] at this
        exact this
      · rw [digitsVal_append, digitsVal_append, digitsVal_zeros, hv]
        have e0 : digitsVal ['0'] = 0 := rfl
        rw [e0, List.length_append, List.length_replicate]
        unfold decVal
        have : (0 : ℤ) - ((j - ds.length + ds.length : ℕ) : ℤ) = k := by omega
        rw [this]
        simp

open Calc Calc.Exec Calc.Proofs.DecimalRound Calc.Proofs.ShortestRoundTrip
set_option exponentiation.threshold 2100

/-! ### the printed text reads back -/

theorem roundtrip_of_value (b : UInt64) (hb0 : 0 < b) (hb : b < 0x7FF0000000000000)
    (c' : Nat) (k' : Int)
    (h : decVal c' k' = decVal (shortestDigits b).1 (shortestDigits b).2) :
    decimalToBits c' k' = b := by
  have hfound := shortestDigits_found_all b hb0 hb
  unfold shortestDigits_found at hfound
  obtain ⟨⟨c, k⟩, hs⟩ := Option.isSome_iff_exists.1 hfound
  obtain ⟨j, _, hj⟩ := List.exists_of_findSome?_eq_some hs
  unfold sdCand at hj
  obtain ⟨hk, hc, hin⟩ := sdCandAt_some _ _ _ _ _ _ hj
  have hsd : shortestDigits b = stripZeros 20 c k := by
    unfold shortestDigits; rw [hs]
  rw [hsd, (stripZeros_spec 20 c k hc).2] at h
  rw [← hk] at hin
  exact roundtrip_of_candidate b hb0 hb c k hin _ _ h

theorem fmtBits_pos (b : UInt64) (hb0 : 0 < b) (hb : b < 0x7FF0000000000000) :
    fmtBits b = String.ofList (fmtDigits (shortestDigits b).1 (shortestDigits b).2) := by
  have hn0 : 0 < b.toNat := by
    have := UInt64.lt_iff_toNat_lt.1 hb0; simpa using this
  have hn : b.toNat < 2047 * 2 ^ 52 := by
    have := UInt64.lt_iff_toNat_lt.1 hb; rwa [inf_toNat] at this
  have hmag : b &&& 0x7FFFFFFFFFFFFFFF = b := by
    apply UInt64.toNat_inj.1
    rw [UInt64.toNat_and]
    have : (0x7FFFFFFFFFFFFFFF : UInt64).toNat = 2 ^ 63 - 1 := by decide
    rw [this, Nat.and_two_pow_sub_one_eq_mod]
    omega
  have hneg : ¬ ((b >>> 63) = 1) := by
    intro h
    have := congrArg UInt64.toNat h
    rw [UInt64.toNat_shiftRight, Nat.shiftRight_eq_div_pow] at this
    have e1 : (63 : UInt64).toNat % 64 = 63 := by decide
    have e2 : (1 : UInt64).toNat = 1 := by decide
    rw [e1, e2] at this
    omega
  unfold fmtBits
  simp only [hmag]
  rw [if_neg (by
    intro h; have := UInt64.lt_iff_toNat_lt.1 h; rw [inf_toNat] at this; omega)]
  rw [if_neg (by
    intro h; have := congrArg UInt64.toNat h; rw [inf_toNat] at this; omega)]
  rw [if_neg (by
    intro h; have := congrArg UInt64.toNat h
    have e : (0 : UInt64).toNat = 0 := rfl
    rw [e] at this; omega)]
  rw [if_neg hneg]
  simp

/-- the text printed for a positive finite binary64 is a literal `D` or `D.F` that the number
    reader accepts, and reading it gives back the same bits -/
theorem fmtBits_reads_back (b : UInt64) (hb0 : 0 < b) (hb : b < 0x7FF0000000000000) :
    ∃ d : Decimal, parseDecimal (fmtBits b).toList = some d ∧ decimalToBits d.mant d.exp = b := by
  rw [fmtBits_pos b hb0 hb, String.toList_ofList]
  obtain ⟨d, h1, h2⟩ := fmtDigits_numberVal (shortestDigits b).1 (shortestDigits b).2
  exact ⟨d, parseDecimal_iff.2 h1, roundtrip_of_value b hb0 hb _ _ h2⟩

end Calc.Proofs.FmtText
