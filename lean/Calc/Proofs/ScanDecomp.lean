/-
  Calc.Proofs.ScanDecomp — consequences of `Scanned`: character classes of the token kinds,
  the explicit decomposition of a scanned text, and the bad-character report.  Core Lean only.
-/
import Calc.Proofs.ScanLoop
namespace Calc
open List

/-! ### The single-character tokens -/

variable {S : Type}

/-- the characters with a `singleKind` -/
def singleCharsD : List Char :=
  ['\n', ';', '(', ')', '[', ']', '⌈', '⌉', '⌊', '⌋', '+', '-', '/', '*', '^', '!', '|', '%', ',', '=', '√', '•', '×']

theorem singleKind_none_ofD {c : Char} (h : ∀ d ∈ singleCharsD, c ≠ d) :
    singleKind (S := S) c = none := by
  rw [singleKind,
    if_neg (h '\n' (by decide)),
    if_neg (h ';' (by decide)),
    if_neg (h '(' (by decide)),
    if_neg (h ')' (by decide)),
    if_neg (h '[' (by decide)),
    if_neg (h ']' (by decide)),
    if_neg (h '⌈' (by decide)),
    if_neg (h '⌉' (by decide)),
    if_neg (h '⌊' (by decide)),
    if_neg (h '⌋' (by decide)),
    if_neg (h '+' (by decide)),
    if_neg (h '-' (by decide)),
    if_neg (h '/' (by decide)),
    if_neg (h '*' (by decide)),
    if_neg (h '^' (by decide)),
    if_neg (h '!' (by decide)),
    if_neg (h '|' (by decide)),
    if_neg (h '%' (by decide)),
    if_neg (h ',' (by decide)),
    if_neg (h '=' (by decide)),
    if_neg (h '√' (by decide)),
    if_neg (h '•' (by decide)),
    if_neg (h '×' (by decide))]

theorem singleKind_some {c : Char} {k : Kind S} (h : singleKind (S := S) c = some k) :
    c ∈ singleCharsD := by
  by_cases hc : c ∈ singleCharsD
  · exact hc
  · rw [singleKind_none_ofD (fun d hd e => hc (by rw [e]; exact hd))] at h; cases h

theorem singleKind_classes {c : Char} {k : Kind S} (h : singleKind (S := S) c = some k) :
    isIdentStart c = false ∧ isDigit c = false := by
  have key : ∀ d ∈ singleCharsD, isIdentStart d = false ∧ isDigit d = false := by decide
  exact key c (singleKind_some h)

theorem singleKind_kind {c : Char} {k : Kind S} (h : singleKind (S := S) c = some k) :
    (∀ z, k ≠ .number z) ∧ (∀ w, k ≠ .ident w) := by
  have hc := singleKind_some h
  simp only [singleCharsD, mem_cons, not_mem_nil, or_false] at hc
  rcases hc with rfl | rfl | rfl | rfl | rfl | rfl | rfl | rfl | rfl | rfl | rfl | rfl | rfl | rfl | rfl | rfl | rfl | rfl | rfl | rfl | rfl | rfl | rfl
  all_goals (cases h; exact ⟨fun _ e => (nomatch e), fun _ e => (nomatch e)⟩)

theorem isDigit_not_identStart {c : Char} (h : isDigit c = true) : isIdentStart c = false := by
  cases hi : isIdentStart c
  · rfl
  · simp only [isDigit, Bool.and_eq_true, decide_eq_true_eq] at h
    simp only [isIdentStart, Bool.or_eq_true, Bool.and_eq_true, decide_eq_true_eq] at hi
    rcases hi with ((((((h1 | h1) | rfl) | rfl) | rfl) | rfl) | rfl) | rfl
    · exact absurd (Char.le_trans h1.1 h.2) (by decide)
    · exact absurd (Char.le_trans h1.1 h.2) (by decide)
    all_goals exact absurd h.2 (by decide)

/-! ### The explicit decomposition -/

variable [Kernel S] {cfg : ScanCfg S}

theorem advs_append (tab : Nat) (p : Pos) (a b : List Char) :
    advs tab p (a ++ b) = advs tab (advs tab p a) b := by
  simp [advs, foldl_append]

theorem flat_append (a b : List (List Char × List Char)) : flat (a ++ b) = flat a ++ flat b := by
  induction a with
  | nil => rfl
  | cons x a ih => obtain ⟨b', l⟩ := x; simp [flat, ih]

theorem Boundary.blanks {b x y : List Char} (hb : b.all isBlank = true)
    (h : Boundary cfg x y) : Boundary cfg (b ++ x) y := by
  induction b with
  | nil => exact h
  | cons c b ih =>
    simp only [all_cons, Bool.and_eq_true] at hb
    exact .blank hb.1 (ih hb.2)

theorem Scanned.decomp {p : Pos} {s : List Char} {toks : List (Tok S)}
    (h : Scanned cfg p s toks) : ∃ segs bn, Decomp cfg p s toks segs bn := by
  induction h with
  | @done p b hb =>
    refine ⟨[], b, rfl, hb, ?_, ?_, rfl, ?_, ?_⟩
    · intro sg h; cases h
    · intro sg h; cases h
    · intro pre sg post h; cases pre <;> cases h
    · intro pre post h
      rcases pre with _ | ⟨x, pre⟩
      · exact .nil
      · cases h
  | @tok p b s k ℓ r ts hb hl _ ih =>
    obtain ⟨segs, bn, hd⟩ := ih
    obtain ⟨hsplit, c, ℓ', cs, hℓ, _⟩ := hl.split
    refine ⟨(b, ℓ) :: segs, bn, ?_, hd.trailing, ?_, ?_, ?_, ?_, ?_⟩
    · rw [← hsplit, hd.text]; simp [flat]
    · intro sg h
      rcases mem_cons.1 h with rfl | h
      · exact hb
      · exact hd.blanks sg h
    · intro sg h
      rcases mem_cons.1 h with rfl | h
      · rw [hℓ]; exact cons_ne_nil _ _
      · exact hd.nonempty sg h
    · simp [hd.lexemes]
    · intro pre sg post hseg
      rcases pre with _ | ⟨x, pre⟩
      · injection hseg with h1 h2
        subst h1; subst h2
        refine ⟨_, rfl, ?_, rfl, by simp [flat]⟩
        rw [← hd.text, hsplit]
        exact hl
      · injection hseg with h1 h2
        subst h1
        obtain ⟨t, ht, hlex, htext, hpos⟩ := hd.token pre sg post h2
        refine ⟨t, by simpa using ht, hlex, htext, ?_⟩
        rw [hpos]
        simp [flat, advs_append]
    · intro pre post hseg
      rcases pre with _ | ⟨x, pre⟩
      · exact .nil
      · injection hseg with h1 h2
        subst h1
        have h2 : segs = pre ++ post := h2
        have hbd := hd.boundary pre post h2
        have hl' : Lexeme cfg (ℓ ++ (flat pre ++ (flat post ++ bn))) k ℓ
            (flat pre ++ (flat post ++ bn)) := by
          have e : flat pre ++ (flat post ++ bn) = r := by
            rw [hd.text, h2, flat_append, append_assoc]
          rw [e, hsplit]; exact hl
        have := Boundary.blanks hb (Boundary.tok hl' hbd)
        simpa [flat] using this

/-! ### The bad-character report -/

theorem scanLoop_bad (f : Nat) (s : List Char) (p : Pos) (e : ScanErr)
    (h : scanLoop cfg f s p = .bad e) :
    ∃ pre post, s = pre ++ e.ch :: post ∧ Boundary cfg pre (e.ch :: post) ∧
      (⟨e.line, e.col⟩ : Pos) = advs cfg.tab p pre ∧ CannotBegin S e.ch := by
  induction f generalizing s p with
  | zero => cases s <;> cases h
  | succ f ih =>
    rcases s with _ | ⟨c, cs⟩
    · rw [scanLoop_nil] at h; cases h
    cases hb : isBlank c
    · rcases scanLoop_step (cfg := cfg) c cs hb with ⟨k, ℓ, r, hl⟩ | ⟨hcb, hbad⟩ | ⟨_, _, hpan⟩
      · rw [scanLoop_lexeme hl, ScanRes.cons_eq_bad] at h
        obtain ⟨pre, post, hr, hbd, hpos, hcb⟩ := ih _ _ h
        obtain ⟨hsplit, _⟩ := hl.split
        refine ⟨ℓ ++ pre, post, ?_, ?_, ?_, hcb⟩
        · rw [← hsplit, hr, append_assoc]
        · refine .tok (k := k) ?_ hbd
          rw [← hr, hsplit]; exact hl
        · rw [hpos, advs_append]
      · rw [hbad] at h; cases h
        exact ⟨[], cs, rfl, .nil, rfl, hcb⟩
      · rw [hpan] at h; cases h
    · rw [scanLoop_blank hb] at h
      obtain ⟨pre, post, hr, hbd, hpos, hcb⟩ := ih _ _ h
      exact ⟨c :: pre, post, by rw [hr]; rfl, .blank hb hbd, by rw [hpos]; rfl, hcb⟩

/-! ### Per-token facts -/

theorem Scanned.mem {p : Pos} {s : List Char} {toks : List (Tok S)} (h : Scanned cfg p s toks)
    {t : Tok S} (ht : t ∈ toks) :
    ∃ s' ℓ r, Lexeme cfg s' t.kind ℓ r ∧ t.lexeme = lexemeOf ℓ := by
  induction h with
  | done _ => cases ht
  | tok _ hl _ ih =>
    rcases mem_cons.1 ht with rfl | ht
    · exact ⟨_, _, _, hl, rfl⟩
    · exact ih ht

/-- the first character of a token's text is the first character of its slice, unless the
    token is the newline token (text `\\n`) -/
theorem Lexeme.lexeme_head {s ℓ r : List Char} {k : Kind S} (h : Lexeme cfg s k ℓ r)
    {c : Char} {t : List Char} (ht : Calc.lexemeOf ℓ = c :: t)
    (hc : isDigit c = true ∨ isIdentStart c = true) :
    Calc.lexemeOf ℓ = ℓ ∧ ∃ cs, s = c :: cs := by
  rcases h.lexemeOf with h1 | ⟨h1, _⟩
  · refine ⟨h1, ?_⟩
    obtain ⟨_, c', ℓ', cs, h2, h3⟩ := h.split
    rw [h1, h2] at ht
    injection ht with h4 _
    subst h4
    exact ⟨cs, h3⟩
  · subst h1
    have : Calc.lexemeOf ['\n'] = ['\\', 'n'] := by decide
    rw [this] at ht
    injection ht with h4 _
    subst h4
    rcases hc with hc | hc <;> exact absurd hc (by decide)

theorem Lexeme.number_of_digit {c : Char} {cs ℓ r : List Char} {k : Kind S}
    (h : Lexeme cfg (c :: cs) k ℓ r) (hc : isDigit c = true) :
    ℓ = (scanNumber (c :: cs)).text ∧ r = (scanNumber (c :: cs)).rest ∧
      ∃ d, parseDecimal ℓ = some d ∧ k = .number (Kernel.ofDecimal d.mant d.exp) := by
  cases h with
  | single _ hk => rw [(singleKind_classes hk).2] at hc; cases hc
  | word _ _ hi _ => rw [isDigit_not_identStart hc] at hi; cases hi
  | number _ _ _ _ hp => exact ⟨rfl, rfl, _, hp, rfl⟩

theorem Lexeme.word_of_start {c : Char} {cs ℓ r : List Char} {k : Kind S}
    (h : Lexeme cfg (c :: cs) k ℓ r) (hc : isIdentStart c = true) :
    ℓ = (c :: cs).takeWhile (isIdentCont cfg) ∧ r = (c :: cs).dropWhile (isIdentCont cfg) ∧
      k = wordKind cfg ℓ := by
  cases h with
  | single _ hk => rw [(singleKind_classes hk).1] at hc; cases hc
  | word _ _ _ _ => exact ⟨rfl, rfl, rfl⟩
  | number _ _ hi _ _ => rw [hc] at hi; cases hi

/-- when the keyword table never yields a number kind, only digit-initial slices are numbers -/
theorem Lexeme.digit_of_number (hkw : ∀ w k, cfg.keyword w = some k → ∀ z, k ≠ .number z)
    {s ℓ r : List Char} {z : S} (h : Lexeme cfg s (.number z) ℓ r) :
    ∃ c cs, s = c :: cs ∧ isDigit c = true := by
  generalize hk : Kind.number z = k at h
  cases h with
  | single _ hs => exact absurd hk.symm ((singleKind_kind hs).1 z)
  | @word c cs _ _ _ _ =>
    exfalso
    unfold wordKind at hk
    split at hk
    · next k' hk' => exact hkw _ _ hk' z hk.symm
    · cases hk
  | number _ _ _ hd _ => exact ⟨_, _, rfl, hd⟩

end Calc
