/-
  Calc.Proofs.ReparseKinds — the kinds of the tokens the grammar consumes for a matrix-free tree
  are exactly the in-order kinds of that tree (`Expr.kinds`, Calc/Proofs/PrintRoundtrip.lean).

  `Derives l c e → e.NoMatrix → c.map (·.kind) = e.kinds`, by mutual induction over `Derives` and
  `DerivesArgs`.  The equation holds as stated for every rule: the payload-free tokens (`as`,
  brackets, `(`, `)`, `,`) are fixed by the `tag` side conditions of the rules because a
  payload-free kind is determined by its tag (`Kind.eq_of_tag`), the opening and closing token of
  a grouping of kind `k` have the kinds `openKind k` / `closeKind k` that `Expr.kinds` lists, and
  number / unit / identifier tokens carry their payload in the kind the rule mentions.
-/
import Calc.Spec.Grammar
import Calc.Proofs.PrintRoundtrip
import Calc.Proofs.ReparseSim
namespace Calc
variable {S : Type}

/-! ## a payload-free kind is determined by its tag -/

/-- for the payload-free tags the grammar's side conditions mention, the tag fixes the kind -/
theorem Kind.eq_of_tag (k : Kind S) :
    (k.tag = .lparen → k = .lparen) ∧ (k.tag = .rparen → k = .rparen) ∧
    (k.tag = .pipe → k = .pipe) ∧ (k.tag = .lceil → k = .lceil) ∧ (k.tag = .rceil → k = .rceil) ∧
    (k.tag = .lfloor → k = .lfloor) ∧ (k.tag = .rfloor → k = .rfloor) ∧
    (k.tag = .comma → k = .comma) ∧ (k.tag = .as_ → k = .as_) := by
  cases k <;> simp [Kind.tag]

theorem Tok.kind_of_lparen {t : Tok S} (h : t.tag = .lparen) : t.kind = .lparen :=
  (Kind.eq_of_tag t.kind).1 h
theorem Tok.kind_of_rparen {t : Tok S} (h : t.tag = .rparen) : t.kind = .rparen :=
  (Kind.eq_of_tag t.kind).2.1 h
theorem Tok.kind_of_comma {t : Tok S} (h : t.tag = .comma) : t.kind = .comma :=
  (Kind.eq_of_tag t.kind).2.2.2.2.2.2.2.1 h
theorem Tok.kind_of_as {t : Tok S} (h : t.tag = .as_) : t.kind = .as_ :=
  (Kind.eq_of_tag t.kind).2.2.2.2.2.2.2.2 h

/-- the opening token of a grouping of kind `k` has kind `openKind k` -/
theorem Tok.kind_of_groupOpen {t : Tok S} {k : GKind} (h : t.tag = groupOpen k) :
    t.kind = openKind k := by
  have := Kind.eq_of_tag t.kind
  cases k <;> simp only [groupOpen] at h <;> simp only [openKind]
  · exact this.1 h
  · exact this.2.2.1 h
  · exact this.2.2.2.1 h
  · exact this.2.2.2.2.2.1 h

/-- the closing token of a grouping of kind `k` has kind `closeKind k` -/
theorem Tok.kind_of_groupShut {t : Tok S} {k : GKind} (h : t.tag = groupShut k) :
    t.kind = closeKind k := by
  have := Kind.eq_of_tag t.kind
  cases k <;> simp only [groupShut] at h <;> simp only [closeKind]
  · exact this.2.1 h
  · exact this.2.2.1 h
  · exact this.2.2.2.2.1 h
  · exact this.2.2.2.2.2.2.1 h

/-! ## matrix-free trees -/

mutual
/-- no matrix literal anywhere in the tree -/
def Expr.NoMatrix : Expr S → Prop
  | .as_ e _ _ => e.NoMatrix
  | .binary l _ r => l.NoMatrix ∧ r.NoMatrix
  | .unary _ x => x.NoMatrix
  | .grouping _ _ e => e.NoMatrix
  | .number _ => True
  | .measurement _ _ => True
  | .matrix _ _ => False
  | .ident _ => True
  | .call callee _ args => callee.NoMatrix ∧ Expr.NoMatrixArgs args
/-- no matrix literal anywhere in the trees of the list -/
def Expr.NoMatrixArgs : List (Expr S) → Prop
  | [] => True
  | e :: es => e.NoMatrix ∧ Expr.NoMatrixArgs es
end

theorem joinL_cons_of_ne_nil {α : Type} (sep x : List α) {xs : List (List α)} (h : xs ≠ []) :
    joinL sep (x :: xs) = x ++ sep ++ joinL sep xs := by
  cases xs with
  | nil => exact absurd rfl h
  | cons y ys => rfl

theorem DerivesArgs.ne_nil {c : List (Tok S)} {es} (h : DerivesArgs c es) : es ≠ [] := by
  cases h <;> simp

theorem Expr.argKinds_ne_nil {es : List (Expr S)} (h : es ≠ []) : Expr.argKinds es ≠ [] := by
  cases es with
  | nil => exact absurd rfl h
  | cons e es => simp [Expr.argKinds]

/-! ## the consumed kinds are the tree's kinds -/

mutual
/-- the kinds of the tokens of a phrase read as a matrix-free tree are the in-order kinds of
    that tree -/
theorem Derives.map_kind : ∀ {l} {c : List (Tok S)} {e}, Derives l c e → e.NoMatrix →
    c.map (·.kind) = e.kinds
  | _, _, _, .incl _ h => fun hn => h.map_kind hn
  | _, _, _, .as_ h ha hu => fun hn => by
    simp only [Expr.NoMatrix] at hn
    simp only [Expr.kinds, List.map_append, List.map_cons, List.map_nil, h.map_kind hn,
      Tok.kind_of_as ha, hu]
  | _, _, _, .binl _ _ h1 h2 => fun hn => by
    simp only [Expr.NoMatrix] at hn
    simp only [Expr.kinds, List.map_append, List.map_cons, h1.map_kind hn.1, h2.map_kind hn.2]
  | _, _, _, .pow _ h1 h2 => fun hn => by
    simp only [Expr.NoMatrix] at hn
    simp only [Expr.kinds, List.map_append, List.map_cons, h1.map_kind hn.1, h2.map_kind hn.2]
  | _, _, _, .pre (op := op) hop h => fun hn => by
    simp only [Expr.NoMatrix] at hn
    have : ¬ op.tag = Tag.bang := by rcases hop with h' | h' <;> simp [h']
    simp only [Expr.kinds, this, if_false, List.map_cons, h.map_kind hn]
  | _, _, _, .post hop h => fun hn => by
    simp only [Expr.NoMatrix] at hn
    simp only [Expr.kinds, hop, if_true, List.map_append, List.map_cons, List.map_nil,
      h.map_kind hn]
  | _, _, _, .call0 hl hr h => fun hn => by
    simp only [Expr.NoMatrix] at hn
    simp only [Expr.kinds, Expr.argKinds, joinL, List.map_append, List.map_cons, List.map_nil,
      h.map_kind hn.1, Tok.kind_of_lparen hl, Tok.kind_of_rparen hr, List.append_assoc,
      List.cons_append, List.nil_append]
  | _, _, _, .call hl hr h ha => fun hn => by
    simp only [Expr.NoMatrix] at hn
    simp only [Expr.kinds, List.map_append, List.map_cons, List.map_nil,
      h.map_kind hn.1, ha.map_kind hn.2, Tok.kind_of_lparen hl, Tok.kind_of_rparen hr,
      List.append_assoc, List.cons_append]
  | _, _, _, .number hz => fun _ => by
    simp only [Expr.kinds, List.map_cons, List.map_nil, hz]
  | _, _, _, .measurement hz hu => fun _ => by
    simp only [Expr.kinds, List.map_cons, List.map_nil, hz, hu]
  | _, _, _, .ident _ => fun _ => by
    simp only [Expr.kinds, List.map_cons, List.map_nil]
  | _, _, _, .group ho hs h => fun hn => by
    simp only [Expr.NoMatrix] at hn
    simp only [Expr.kinds, List.map_append, List.map_cons, List.map_nil, h.map_kind hn,
      Tok.kind_of_groupOpen ho, Tok.kind_of_groupShut hs, List.cons_append]
  | _, _, _, .matrix _ _ _ _ => fun hn => by
    simp only [Expr.NoMatrix] at hn
/-- … and the kinds of an argument phrase are the kinds of the arguments, separated by commas -/
theorem DerivesArgs.map_kind : ∀ {c : List (Tok S)} {es}, DerivesArgs c es →
    Expr.NoMatrixArgs es → c.map (·.kind) = joinL [.comma] (Expr.argKinds es)
  | _, _, .one h => fun hn => by
    simp only [Expr.NoMatrixArgs] at hn
    simp only [Expr.argKinds, joinL, h.map_kind hn.1]
  | _, _, .cons h hc hs => fun hn => by
    simp only [Expr.NoMatrixArgs] at hn
    simp only [Expr.argKinds, joinL_cons_of_ne_nil _ _ (Expr.argKinds_ne_nil hs.ne_nil),
      List.map_append, List.map_cons, h.map_kind hn.1, hs.map_kind hn.2, Tok.kind_of_comma hc,
      List.append_assoc, List.cons_append, List.nil_append]
end

/-! ## similar trees have the same kinds -/

mutual
/-- similar trees list the same kinds -/
theorem Expr.Sim.kinds_eq : ∀ {e e' : Expr S}, Expr.Sim e e' → e.kinds = e'.kinds
  | _, _, .as_ h _ => by simp only [Expr.kinds, h.kinds_eq]
  | _, _, .binary h1 ht h2 => by simp only [Expr.kinds, h1.kinds_eq, h2.kinds_eq, ht]
  | _, _, .unary (op := op) (op' := op') ht h => by
    have htag : op.tag = op'.tag := by simp only [Tok.tag, ht]
    simp only [Expr.kinds, h.kinds_eq, htag, ht]
  | _, _, .grouping _ h => by simp only [Expr.kinds, h.kinds_eq]
  | _, _, .number => rfl
  | _, _, .measurement => rfl
  | _, _, .matrix _ _ => by simp only [Expr.kinds]
  | _, _, .ident ht => by simp only [Expr.kinds, ht]
  | _, _, .call h _ ha => by simp only [Expr.kinds, h.kinds_eq, ha.argKinds_eq]
theorem Expr.SimArgs.argKinds_eq : ∀ {es es' : List (Expr S)}, Expr.SimArgs es es' →
    Expr.argKinds es = Expr.argKinds es'
  | _, _, .nil => rfl
  | _, _, .cons h hs => by simp only [Expr.argKinds, h.kinds_eq, hs.argKinds_eq]
end

mutual
/-- a tree similar to a matrix-free tree is matrix-free -/
theorem Expr.Sim.noMatrix : ∀ {e e' : Expr S}, Expr.Sim e e' → e.NoMatrix → e'.NoMatrix
  | _, _, .as_ h _ => fun hn => by
    simp only [Expr.NoMatrix] at hn ⊢; exact h.noMatrix hn
  | _, _, .binary h1 _ h2 => fun hn => by
    simp only [Expr.NoMatrix] at hn ⊢; exact ⟨h1.noMatrix hn.1, h2.noMatrix hn.2⟩
  | _, _, .unary _ h => fun hn => by
    simp only [Expr.NoMatrix] at hn ⊢; exact h.noMatrix hn
  | _, _, .grouping _ h => fun hn => by
    simp only [Expr.NoMatrix] at hn ⊢; exact h.noMatrix hn
  | _, _, .number => fun hn => hn
  | _, _, .measurement => fun hn => hn
  | _, _, .matrix _ _ => fun hn => by simp only [Expr.NoMatrix] at hn
  | _, _, .ident _ => fun _ => by simp only [Expr.NoMatrix]
  | _, _, .call h _ ha => fun hn => by
    simp only [Expr.NoMatrix] at hn ⊢; exact ⟨h.noMatrix hn.1, ha.noMatrixArgs hn.2⟩
theorem Expr.SimArgs.noMatrixArgs : ∀ {es es' : List (Expr S)}, Expr.SimArgs es es' →
    Expr.NoMatrixArgs es → Expr.NoMatrixArgs es'
  | _, _, .nil => fun hn => hn
  | _, _, .cons h hs => fun hn => by
    simp only [Expr.NoMatrixArgs] at hn ⊢; exact ⟨h.noMatrix hn.1, hs.noMatrixArgs hn.2⟩
end

end Calc
