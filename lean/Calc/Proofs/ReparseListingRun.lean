/-
  Calc.Proofs.ReparseListingRun — running the definitions read back from a listing rebuilds the
  function: same name, same signatures in the same order, similar bodies (C18).
-/
import Calc.Proofs.ReparseListingText
namespace Calc

variable {S : Type}

/-- entry lists with the same signatures in the same order and `SimLex` bodies -/
inductive SimEntries : List (Sig S × Expr S) → List (Sig S × Expr S) → Prop
  | nil : SimEntries [] []
  | cons {sig : Sig S} {body body' : Expr S} {es es'} : Expr.SimLex body body' →
      SimEntries es es' → SimEntries ((sig, body) :: es) ((sig, body') :: es')

variable [Add S] [Sub S] [Mul S] [Div S] [Zero S] [One S] [Kernel S]

theorem readBack_run_acc (fuel : Nat) (n : Str) {es : List (Sig S × Expr S)} {ss : List (Stmt S)}
    (h : ReadBack n es ss) : ∀ (env : Env S) (acc : List (Sig S × Expr S)),
    Env.get env n = some ⟨.user ⟨n, acc⟩, false⟩ →
    (∀ a ∈ acc, ∀ e ∈ es, sigEquiv a.1.params e.1.params = false) → PairwiseInequiv es →
    ∃ es', SimEntries es es' ∧
      Env.get (runStmts fuel env ss).env n = some ⟨.user ⟨n, acc ++ es'⟩, false⟩ := by
  induction h with
  | nil =>
    intro env acc hg _ _
    exact ⟨[], .nil, by simpa [runStmts] using hg⟩
  | @cons e es ss name' body' hn hsl _ ih =>
    intro env acc hg hacc hp
    obtain ⟨sig, body⟩ := e
    have hnone : ∀ a ∈ acc, sigEquiv a.1.params sig.params = false :=
      fun a ha => hacc a ha (sig, body) List.mem_cons_self
    have hstep : step fuel env (.define name' sig body') =
        ⟨Env.insert env n ⟨.user ⟨n, acc ++ [(sig, body')]⟩, false⟩, []⟩ := by
      simp [step, hn, hg, defineSig_append acc sig body' hnone]
    have hp' := List.pairwise_cons.mp hp
    obtain ⟨es', hsim, hget⟩ := ih (Env.insert env n ⟨.user ⟨n, acc ++ [(sig, body')]⟩, false⟩)
      (acc ++ [(sig, body')]) (Env.get_insert_self _ _ _)
      (by
        intro a ha e he
        rcases List.mem_append.mp ha with ha | ha
        · exact hacc a ha e (List.mem_cons_of_mem _ he)
        · simp at ha; subst ha; exact hp'.1 e he)
      hp'.2
    refine ⟨(sig, body') :: es', .cons hsl hsim, ?_⟩
    simp only [runStmts, hstep]
    simpa using hget

theorem readBack_run (fuel : Nat) (n : Str) {es : List (Sig S × Expr S)} {ss : List (Stmt S)}
    (h : ReadBack n es ss) (hne : es ≠ []) (env : Env S) (hg : Env.get env n = none)
    (hp : PairwiseInequiv es) :
    ∃ es', SimEntries es es' ∧
      Env.get (runStmts fuel env ss).env n = some ⟨.user ⟨n, es'⟩, false⟩ := by
  cases h with
  | nil => exact absurd rfl hne
  | @cons e es ss name' body' hn hsl hrb =>
    obtain ⟨sig, body⟩ := e
    have hstep : step fuel env (.define name' sig body') =
        ⟨Env.insert env n ⟨.user ⟨n, [(sig, body')]⟩, false⟩, []⟩ := by
      simp [step, hn, hg]
    have hp' := List.pairwise_cons.mp hp
    obtain ⟨es', hsim, hget⟩ := readBack_run_acc fuel n hrb
      (Env.insert env n ⟨.user ⟨n, [(sig, body')]⟩, false⟩) [(sig, body')]
      (Env.get_insert_self _ _ _)
      (by intro a ha e he; simp at ha; subst ha; exact hp'.1 e he) hp'.2
    refine ⟨(sig, body') :: es', .cons hsl hsim, ?_⟩
    simp only [runStmts, hstep]
    simpa using hget

end Calc
