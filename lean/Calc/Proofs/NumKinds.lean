/-
  Calc.Proofs.NumKinds — the kind table of the operators (used by C02): which ordered pairs of
  operand kinds each operator is defined for, and that every other pair is refused at the operator.
  Core Lean only; generic in the scalar type.
-/
import Calc.Model.Eval
namespace Calc

/-- what a value is, as far as the operators can tell -/
inductive VKind | number | measurement | matrix | function
  deriving DecidableEq, Repr, Inhabited

def Value.vkind {S} : Value S → VKind
  | .number _ => .number
  | .measurement _ _ => .measurement
  | .matrix _ => .matrix
  | .native _ => .function
  | .user _ => .function

/-- the token kinds `binop` is ever called with (parser.rs: term, factor, dot, cross, exponent) -/
def binaryTags : List Tag := [.plus, .minus, .star, .slash, .caret, .percent, .dot, .cross]

/-- the token kinds `unop` is ever called with -/
def unaryTags : List Tag := [.minus, .sqrt, .bang]

/-- the ordered pairs of operand kinds each binary operator is defined for (README operator table;
    `binop`).  Everything else is refused. -/
def binSupported : Tag → VKind → VKind → Bool
  | .plus, .number, .number | .plus, .measurement, .measurement | .plus, .matrix, .matrix => true
  | .minus, .number, .number | .minus, .measurement, .measurement | .minus, .matrix, .matrix => true
  | .star, .number, .number | .star, .number, .matrix | .star, .matrix, .number
  | .star, .matrix, .matrix | .star, .number, .measurement | .star, .measurement, .number => true
  | .slash, .number, .number | .slash, .matrix, .number | .slash, .measurement, .number => true
  | .caret, .number, .number => true
  | .percent, .number, .number => true
  | .dot, .matrix, .matrix => true
  | .cross, .matrix, .matrix => true
  | _, _, _ => false

/-- the operand kinds each unary operator is defined for -/
def unSupported : Tag → VKind → Bool
  | .minus, .number | .minus, .measurement | .minus, .matrix => true
  | .sqrt, .number => true
  | .bang, .number => true
  | _, _ => false

/-- the operand kinds each bracket pair is defined for -/
def grpSupported : GKind → VKind → Bool
  | .grouping, _ => true
  | .absolute, .number | .absolute, .matrix => true
  | .ceil, .number => true
  | .floor, .number => true
  | _, _ => false

set_option linter.unusedSectionVars false

variable {S : Type} [Add S] [Sub S] [Mul S] [Div S] [Zero S] [One S] [Kernel S]

theorem binop_unsupported (op : Tok S) (a b : Value S) (hop : op.tag ∈ binaryTags)
    (h : binSupported op.tag a.vkind b.vkind = false) :
    binop op a b = .diag ⟨.unsupportedBinaryOperator, op.line, op.col, []⟩ := by
  simp only [binaryTags, List.mem_cons, List.not_mem_nil, or_false] at hop
  rcases hop with ht | ht | ht | ht | ht | ht | ht | ht <;> rw [ht] at h <;>
    cases a <;> cases b <;>
    first
      | (simp only [binop, ht, diagAt]; done)
      | (simp [binSupported, Value.vkind] at h)

theorem unop_unsupported (op : Tok S) (v : Value S) (hop : op.tag ∈ unaryTags)
    (h : unSupported op.tag v.vkind = false) :
    unop op v = .diag ⟨.unsupportedUnaryOperator, op.line, op.col, []⟩ := by
  simp only [unaryTags, List.mem_cons, List.not_mem_nil, or_false] at hop
  rcases hop with ht | ht | ht <;> rw [ht] at h <;> cases v <;>
    first
      | (simp only [unop, ht, diagAt]; done)
      | (simp [unSupported, Value.vkind] at h)

theorem groupop_unsupported (p : Tok S) (k : GKind) (v : Value S)
    (h : grpSupported k v.vkind = false) :
    groupop p k v = .diag ⟨.invalidGroupingOperand, p.line, p.col, []⟩ := by
  cases k <;> cases v <;>
    first
      | (simp only [groupop, diagAt]; done)
      | (simp [grpSupported, Value.vkind] at h)

end Calc
