/-
  Calc.Proofs.ScanLemmas — facts about the scanner's helper functions (`takeWhile` runs,
  `scanExponent`, `scanFraction`, `scanNumber`, `parseDecimal`).  Core Lean only.
-/
import Calc.Spec.Lexeme
namespace Calc
open List

theorem isDigit_ne_of {c d : Char} (h : isDigit c = true) (hd : isDigit d = false) : c ≠ d := by
  intro e; subst e; rw [h] at hd; cases hd

theorem isDigit_not_blank {c : Char} (h : isDigit c = true) : isBlank c = false := by
  have h1 := isDigit_ne_of h (d := ' ') (by decide)
  have h2 := isDigit_ne_of h (d := '\t') (by decide)
  have h3 := isDigit_ne_of h (d := '\r') (by decide)
  simp [isBlank, h1, h2, h3]

/-- the head of `r`, if any, fails `p` -/
def Stops {α} (p : α → Bool) (r : List α) : Prop := ∀ c r', r = c :: r' → p c = false

theorem stops_nil {α} (p : α → Bool) : Stops p [] := by intro c r' h; cases h
theorem stops_cons {α} {p : α → Bool} {c : α} {r : List α} (h : p c = false) : Stops p (c :: r) := by
  intro c' r' e; cases e; exact h

theorem takeWhile_append_stop {α} {p : α → Bool} {d r : List α} (hd : ∀ x ∈ d, p x = true)
    (hr : Stops p r) : takeWhile p (d ++ r) = d := by
  rw [takeWhile_append_of_pos hd]
  cases r with
  | nil => simp
  | cons c r' => simp [hr c r' rfl]

theorem dropWhile_append_stop {α} {p : α → Bool} {d r : List α} (hd : ∀ x ∈ d, p x = true)
    (hr : Stops p r) : dropWhile p (d ++ r) = r := by
  rw [dropWhile_append_of_pos hd]
  cases r with
  | nil => simp
  | cons c r' => simp [hr c r' rfl]

theorem stops_dropWhile {α} (p : α → Bool) (l : List α) : Stops p (dropWhile p l) := by
  induction l with
  | nil => exact stops_nil p
  | cons a l ih =>
    rw [dropWhile_cons]
    split
    · exact ih
    · next h => exact stops_cons (by simpa using h)

theorem all_takeWhile {α} (p : α → Bool) (l : List α) : ∀ x ∈ takeWhile p l, p x = true := by
  induction l with
  | nil => simp
  | cons a l ih =>
    rw [takeWhile_cons]
    split
    · next h => intro x hx; rcases mem_cons.1 hx with rfl | hx; exact h; exact ih x hx
    · simp

theorem scanExponent_minus (t : List Char) :
    scanExponent ('e' :: '-' :: t) =
      if (t.takeWhile isDigit).isEmpty then none
      else some ('e' :: '-' :: t.takeWhile isDigit, t.dropWhile isDigit) := by
  simp [scanExponent]

theorem scanExponent_other {s : List Char} (h : ∀ r, s ≠ 'e' :: r) : scanExponent s = none := by
  unfold scanExponent
  split
  · next r => exact absurd rfl (h r)
  · rfl

theorem scanFraction_dot (r : List Char) :
    scanFraction ('.' :: r) =
      if (r.takeWhile isDigit).isEmpty then none
      else some ('.' :: r.takeWhile isDigit, r.dropWhile isDigit) := by
  simp [scanFraction]

theorem scanFraction_other {s : List Char} (h : ∀ r, s ≠ '.' :: r) : scanFraction s = none := by
  unfold scanFraction
  split
  · next r => exact absurd rfl (h r)
  · rfl

theorem scanExponent_plain {r : List Char} (h : ∀ t, r ≠ '-' :: t) :
    scanExponent ('e' :: r) =
      if (r.takeWhile isDigit).isEmpty then none
      else some ('e' :: r.takeWhile isDigit, r.dropWhile isDigit) := by
  rcases r with _ | ⟨c, t⟩
  · simp [scanExponent]
  · have hc : c ≠ '-' := fun e => h t (by rw [e])
    simp [scanExponent]

theorem isDigits_takeWhile {l : List Char} (h : (l.takeWhile isDigit).isEmpty = false) :
    IsDigits (l.takeWhile isDigit) :=
  ⟨fun e => by (rw [e] at h; cases h), all_takeWhile _ _⟩

/-- a successful exponent scan: shape of the consumed text, exact split, and the rest does not
    start with a digit -/
theorem scanExponent_some {s e r : List Char} (h : scanExponent s = some (e, r)) :
    ExpText e ∧ s = e ++ r ∧ Stops isDigit r := by
  rcases s with _ | ⟨c, s⟩
  · rw [scanExponent_other (by intro r h; cases h)] at h; cases h
  by_cases hc : c = 'e'
  · subst hc
    by_cases hm : ∃ t, s = '-' :: t
    · obtain ⟨t, rfl⟩ := hm
      rw [scanExponent_minus] at h
      split at h
      · cases h
      · next hne =>
        cases h
        refine ⟨.neg (isDigits_takeWhile (by simpa using hne)), ?_, stops_dropWhile _ _⟩
        simp [takeWhile_append_dropWhile]
    · rw [scanExponent_plain (fun t e => hm ⟨t, e⟩)] at h
      split at h
      · cases h
      · next hne =>
        cases h
        refine ⟨.pos (isDigits_takeWhile (by simpa using hne)), ?_, stops_dropWhile _ _⟩
        simp [takeWhile_append_dropWhile]
  · rw [scanExponent_other (by intro r h; cases h; exact hc rfl)] at h; cases h

theorem scanFraction_some {s f r : List Char} (h : scanFraction s = some (f, r)) :
    (∃ F, IsDigits F ∧ f = '.' :: F) ∧ s = f ++ r ∧ Stops isDigit r := by
  rcases s with _ | ⟨c, s⟩
  · rw [scanFraction_other (by intro r h; cases h)] at h; cases h
  by_cases hc : c = '.'
  · subst hc
    rw [scanFraction_dot] at h
    split at h
    · cases h
    · next hne =>
      cases h
      refine ⟨⟨_, isDigits_takeWhile (by simpa using hne), rfl⟩, ?_, stops_dropWhile _ _⟩
      simp [takeWhile_append_dropWhile]
  · rw [scanFraction_other (by intro r h; cases h; exact hc rfl)] at h; cases h

theorem ExpText.val {e : List Char} (h : ExpText e) : ∃ x, ExpVal e x := by
  cases h with
  | pos hE => exact ⟨_, .pos hE⟩
  | neg hE => exact ⟨_, .neg hE⟩

theorem NumberText.int {D : List Char} (hD : IsDigits D) : NumberText D :=
  ⟨_, by simpa using NumberVal.int hD .none⟩

theorem NumberText.intExp {D e : List Char} (hD : IsDigits D) (he : ExpText e) :
    NumberText (D ++ e) := by
  obtain ⟨x, hx⟩ := he.val
  exact ⟨_, .int hD hx⟩

theorem NumberText.frac {D F : List Char} (hD : IsDigits D) (hF : IsDigits F) :
    NumberText (D ++ '.' :: F) :=
  ⟨_, by simpa using NumberVal.frac hD hF .none⟩

theorem NumberText.fracExp {D F e : List Char} (hD : IsDigits D) (hF : IsDigits F)
    (he : ExpText e) : NumberText (D ++ '.' :: F ++ e) := by
  obtain ⟨x, hx⟩ := he.val
  exact ⟨_, .frac hD hF hx⟩

/-- everything `scanNumber` says, in one statement: the text has the literal shape, text and
    rest split the input exactly, and the rest does not start with a digit -/
theorem scanNumber_spec {c : Char} {cs : List Char} (hc : isDigit c = true) :
    NumberText (scanNumber (c :: cs)).text ∧
    (scanNumber (c :: cs)).text ++ (scanNumber (c :: cs)).rest = c :: cs ∧
    Stops isDigit (scanNumber (c :: cs)).rest := by
  have hD : IsDigits ((c :: cs).takeWhile isDigit) :=
    isDigits_takeWhile (by simp [hc])
  have hsplit := takeWhile_append_dropWhile (p := isDigit) (l := c :: cs)
  unfold scanNumber
  simp only
  split
  · next e r' he =>
    obtain ⟨hE, hs, hst⟩ := scanExponent_some he
    refine ⟨.intExp hD hE, ?_, hst⟩
    rw [append_assoc, ← hs, hsplit]
  · split
    · next f r1 hf =>
      obtain ⟨⟨F, hF, rfl⟩, hs, hst⟩ := scanFraction_some hf
      split
      · next e r2 he =>
        obtain ⟨hE, hs2, hst2⟩ := scanExponent_some he
        refine ⟨by simpa using NumberText.fracExp hD hF hE, ?_, hst2⟩
        rw [append_assoc, append_assoc, ← hs2, ← hs, hsplit]
      · refine ⟨.frac hD hF, ?_, hst⟩
        rw [append_assoc, ← hs, hsplit]
    · exact ⟨.int hD, hsplit, stops_dropWhile _ _⟩

theorem scanNumber_text_rest (s : List Char) :
    (scanNumber s).text ++ (scanNumber s).rest = s := by
  have hsplit := takeWhile_append_dropWhile (p := isDigit) (l := s)
  unfold scanNumber
  simp only
  split
  · next e r' he =>
    obtain ⟨_, hs, _⟩ := scanExponent_some he
    rw [append_assoc, ← hs, hsplit]
  · split
    · next f r1 hf =>
      obtain ⟨_, hs, _⟩ := scanFraction_some hf
      split
      · next e r2 he =>
        obtain ⟨_, hs2, _⟩ := scanExponent_some he
        rw [append_assoc, append_assoc, ← hs2, ← hs, hsplit]
      · rw [append_assoc, ← hs, hsplit]
    · exact hsplit

/-! ### `parseDecimal` -/

/-- the exponent-reading tail of `parseDecimal`, with mantissa `m` and `fl` fraction digits -/
def parseExp (m : Nat) (fl : Nat) (r1 : List Char) : Option Decimal :=
  match r1 with
  | [] => some ⟨m, - (fl : Int)⟩
  | 'e' :: r2 =>
    let (neg, r3) : Bool × List Char :=
      match r2 with
      | '-' :: t => (true, t)
      | _ => (false, r2)
    if r3.isEmpty || !(r3.all isDigit) then none else
    let ex : Int := digitsVal r3
    some ⟨m, (if neg then -ex else ex) - (fl : Int)⟩
  | _ => none

theorem parseDecimal_dot {t r' : List Char} (h : t.dropWhile isDigit = '.' :: r') :
    parseDecimal t =
      if (t.takeWhile isDigit).isEmpty then none
      else if (r'.takeWhile isDigit).isEmpty then none
      else parseExp (digitsVal (t.takeWhile isDigit ++ r'.takeWhile isDigit))
          (r'.takeWhile isDigit).length (r'.dropWhile isDigit) := by
  unfold parseDecimal
  simp only
  rw [h]
  generalize t.takeWhile isDigit = D
  split
  · rfl
  · simp only [parseExp]
    split
    · simp_all
    · simp; rfl

theorem parseDecimal_nodot {t : List Char} (h : ∀ r', t.dropWhile isDigit ≠ '.' :: r') :
    parseDecimal t =
      if (t.takeWhile isDigit).isEmpty then none
      else parseExp (digitsVal (t.takeWhile isDigit)) 0 (t.dropWhile isDigit) := by
  unfold parseDecimal
  simp only
  generalize t.dropWhile isDigit = r at h
  generalize t.takeWhile isDigit = D
  split
  · rfl
  · rcases r with _ | ⟨c, r'⟩
    · simp [parseExp]
    · have hc : c ≠ '.' := fun e => h r' (by rw [e])
      split
      · next h => simp_all
      · simp only [List.append_nil, List.length_nil]
        rfl

theorem parseExp_nil (m fl : Nat) : parseExp m fl [] = some ⟨m, -(fl : Int)⟩ := rfl

theorem parseExp_minus (m fl : Nat) (t : List Char) :
    parseExp m fl ('e' :: '-' :: t) =
      if t.isEmpty || !(t.all isDigit) then none
      else some ⟨m, -(digitsVal t : Int) - (fl : Int)⟩ := by
  simp [parseExp]

theorem parseExp_plain (m fl : Nat) {r : List Char} (h : ∀ t, r ≠ '-' :: t) :
    parseExp m fl ('e' :: r) =
      if r.isEmpty || !(r.all isDigit) then none
      else some ⟨m, (digitsVal r : Int) - (fl : Int)⟩ := by
  rcases r with _ | ⟨c, t⟩
  · simp [parseExp]
  · have hc : c ≠ '-' := fun e => h t (by rw [e])
    simp [parseExp]

theorem parseExp_other (m fl : Nat) {c : Char} (r : List Char) (h : c ≠ 'e') :
    parseExp m fl (c :: r) = none := by
  unfold parseExp
  split
  · next h' => cases h'
  · next h' => cases h'; exact absurd rfl h
  · rfl

theorem isDigits_iff {r : List Char} : (r.isEmpty || !(r.all isDigit)) = false ↔ IsDigits r := by
  constructor
  · intro h
    simp only [Bool.or_eq_false_iff, Bool.not_eq_false', all_eq_true] at h
    exact ⟨fun e => by (rw [e] at h; simp at h), h.2⟩
  · intro h
    have := h.ne
    simp only [Bool.or_eq_false_iff, Bool.not_eq_false', all_eq_true]
    exact ⟨by cases r <;> simp_all, h.all⟩

theorem IsDigits.head {E : List Char} (h : IsDigits E) : ∃ c t, E = c :: t ∧ isDigit c = true := by
  rcases E with _ | ⟨c, t⟩
  · exact absurd rfl h.ne
  · exact ⟨c, t, rfl, h.all c mem_cons_self⟩

theorem IsDigits.stops {E : List Char} (h : IsDigits E) {p : Char → Bool}
    (hp : ∀ c, isDigit c = true → p c = false) : Stops p E := by
  obtain ⟨c, t, rfl, hc⟩ := h.head
  exact stops_cons (hp c hc)

theorem IsDigits.not_minus {E : List Char} (h : IsDigits E) : ∀ t, E ≠ '-' :: t := by
  intro t e
  obtain ⟨c, t', rfl, hc⟩ := h.head
  cases e
  exact absurd hc (by decide)

theorem parseExp_some_iff {m fl : Nat} {r : List Char} {d : Decimal} :
    parseExp m fl r = some d ↔ ∃ x, ExpVal r x ∧ d = ⟨m, x - (fl : Int)⟩ := by
  constructor
  · intro h
    rcases r with _ | ⟨c, r⟩
    · rw [parseExp_nil] at h; cases h
      exact ⟨0, .none, by simp⟩
    by_cases hc : c = 'e'
    · subst hc
      by_cases hm : ∃ t, r = '-' :: t
      · obtain ⟨t, rfl⟩ := hm
        rw [parseExp_minus] at h
        split at h
        · cases h
        · next hne =>
          cases h
          exact ⟨_, .neg (isDigits_iff.1 (by simpa using hne)), rfl⟩
      · rw [parseExp_plain _ _ (fun t e => hm ⟨t, e⟩)] at h
        split at h
        · cases h
        · next hne =>
          cases h
          exact ⟨_, .pos (isDigits_iff.1 (by simpa using hne)), rfl⟩
    · rw [parseExp_other _ _ _ hc] at h; cases h
  · rintro ⟨x, hx, rfl⟩
    cases hx with
    | none => rw [parseExp_nil]; simp
    | pos hE =>
      rw [parseExp_plain _ _ hE.not_minus, isDigits_iff.2 hE]; rfl
    | neg hE =>
      rw [parseExp_minus, isDigits_iff.2 hE]; rfl

theorem ExpVal.stops {e : List Char} {x : Int} (h : ExpVal e x) : Stops isDigit e := by
  cases h with
  | none => exact stops_nil _
  | pos _ => exact stops_cons (by decide)
  | neg _ => exact stops_cons (by decide)

theorem ExpVal.not_dot {e : List Char} {x : Int} (h : ExpVal e x) : ∀ r, e ≠ '.' :: r := by
  intro r e'
  cases h <;> cases e'

/-- `parseDecimal` accepts exactly the texts `D(.F)?(e-?E)?` and returns their value -/
theorem parseDecimal_iff {t : List Char} {d : Decimal} :
    parseDecimal t = some d ↔ NumberVal t d := by
  constructor
  · intro h
    have hsplit := takeWhile_append_dropWhile (p := isDigit) (l := t)
    by_cases hdot : ∃ r', t.dropWhile isDigit = '.' :: r'
    · obtain ⟨r', hr⟩ := hdot
      rw [parseDecimal_dot hr] at h
      split at h
      · cases h
      next hD =>
      split at h
      · cases h
      next hF =>
      obtain ⟨x, hx, rfl⟩ := parseExp_some_iff.1 h
      have key := NumberVal.frac (isDigits_takeWhile (by simpa using hD))
        (isDigits_takeWhile (by simpa using hF)) hx
      have e : t = t.takeWhile isDigit ++ '.' :: r'.takeWhile isDigit ++ r'.dropWhile isDigit := by
        rw [append_assoc, cons_append, takeWhile_append_dropWhile, ← hr, hsplit]
      revert key e
      generalize t.takeWhile isDigit = D
      intro key e
      rw [e]; exact key
    · rw [parseDecimal_nodot (fun r' e => hdot ⟨r', e⟩)] at h
      split at h
      · cases h
      next hD =>
      obtain ⟨x, hx, rfl⟩ := parseExp_some_iff.1 h
      have key := NumberVal.int (isDigits_takeWhile (by simpa using hD)) hx
      rw [hsplit] at key
      simpa using key
  · intro h
    cases h with
    | @int D e x hD hx =>
      have htw : (D ++ e).takeWhile isDigit = D := takeWhile_append_stop hD.all hx.stops
      have hdw : (D ++ e).dropWhile isDigit = e := dropWhile_append_stop hD.all hx.stops
      rw [parseDecimal_nodot (by rw [hdw]; exact hx.not_dot), htw, hdw]
      have : D.isEmpty = false := by
        obtain ⟨c, t, rfl, _⟩ := hD.head; rfl
      rw [this]
      exact parseExp_some_iff.2 ⟨x, hx, by simp⟩
    | @frac D F e x hD hF hx =>
      have hst : Stops isDigit ('.' :: (F ++ e)) := stops_cons (by decide)
      have e1 : D ++ '.' :: F ++ e = D ++ '.' :: (F ++ e) := by simp
      have htw : (D ++ '.' :: F ++ e).takeWhile isDigit = D := by
        rw [e1]; exact takeWhile_append_stop hD.all hst
      have hdw : (D ++ '.' :: F ++ e).dropWhile isDigit = '.' :: (F ++ e) := by
        rw [e1]; exact dropWhile_append_stop hD.all hst
      rw [parseDecimal_dot hdw, htw, takeWhile_append_stop hF.all hx.stops,
        dropWhile_append_stop hF.all hx.stops]
      have h1 : D.isEmpty = false := by
        obtain ⟨c, t, rfl, _⟩ := hD.head; rfl
      have h2 : F.isEmpty = false := by
        obtain ⟨c, t, rfl, _⟩ := hF.head; rfl
      rw [h1, h2]
      exact parseExp_some_iff.2 ⟨x, hx, rfl⟩

theorem NumberVal.head {t : List Char} {d : Decimal} (h : NumberVal t d) :
    ∃ c t', t = c :: t' ∧ isDigit c = true := by
  cases h with
  | int hD _ => obtain ⟨a, t, rfl, ha⟩ := hD.head; exact ⟨a, _, rfl, ha⟩
  | frac hD _ _ => obtain ⟨a, t, rfl, ha⟩ := hD.head; exact ⟨a, _, rfl, ha⟩

/-! ### Longest match for numbers -/

theorem prefix_takeWhile {α} {p : α → Bool} {E l : List α} (hE : ∀ x ∈ E, p x = true)
    (h : E <+: l) : E <+: takeWhile p l := by
  obtain ⟨k, rfl⟩ := h
  rw [takeWhile_append_of_pos hE]
  exact prefix_append _ _

theorem prefix_stop {α} {p : α → Bool} {D rest s : List α} {c : α} (h : D ++ c :: rest <+: s)
    (hD : ∀ x ∈ D, p x = true) (hc : p c = false) :
    takeWhile p s = D ∧ ∃ rest', dropWhile p s = c :: rest' ∧ rest <+: rest' := by
  obtain ⟨k, rfl⟩ := h
  have e : D ++ c :: rest ++ k = D ++ c :: (rest ++ k) := by simp
  rw [e]
  exact ⟨takeWhile_append_stop hD (stops_cons hc),
    _, dropWhile_append_stop hD (stops_cons hc), prefix_append _ _⟩

theorem ExpVal.cases' {e : List Char} {x : Int} (h : ExpVal e x) : e = [] ∨ ExpText e := by
  cases h with
  | none => exact .inl rfl
  | pos hE => exact .inr (.pos hE)
  | neg hE => exact .inr (.neg hE)

theorem ExpText.head {e : List Char} (h : ExpText e) : ∃ e1, e = 'e' :: e1 := by
  cases h <;> exact ⟨_, rfl⟩

/-- an exponent text that is a prefix of `r` is found (possibly extended) by `scanExponent` -/
theorem scanExponent_of_prefix {e r : List Char} (he : ExpText e) (h : e <+: r) :
    ∃ e' r', scanExponent r = some (e', r') ∧ e.length ≤ e'.length := by
  cases he with
  | @pos E hE =>
    obtain ⟨k, rfl⟩ := h
    have hp : E <+: E ++ k := prefix_append _ _
    have hnm : ∀ t, E ++ k ≠ '-' :: t := by
      obtain ⟨c, t', rfl, hc⟩ := hE.head
      intro t e; cases e; exact absurd hc (by decide)
    have hpre := prefix_takeWhile hE.all hp
    have hne : ((E ++ k).takeWhile isDigit).isEmpty = false := by
      obtain ⟨c, t', rfl, hc⟩ := hE.head
      obtain ⟨k', hk'⟩ := hpre
      rw [← hk']; rfl
    rw [cons_append, scanExponent_plain hnm, hne]
    exact ⟨_, _, rfl, by simpa using hpre.length_le⟩
  | @neg E hE =>
    obtain ⟨k, rfl⟩ := h
    have hp : E <+: E ++ k := prefix_append _ _
    have hpre := prefix_takeWhile hE.all hp
    have hne : ((E ++ k).takeWhile isDigit).isEmpty = false := by
      obtain ⟨c, t', rfl, hc⟩ := hE.head
      obtain ⟨k', hk'⟩ := hpre
      rw [← hk']; rfl
    rw [cons_append, cons_append, scanExponent_minus, hne]
    exact ⟨_, _, rfl, by simpa using hpre.length_le⟩

theorem scanNumber_text_exp {s e r' : List Char}
    (h : scanExponent (s.dropWhile isDigit) = some (e, r')) :
    (scanNumber s).text = s.takeWhile isDigit ++ e := by
  unfold scanNumber; simp only [h]

theorem scanNumber_text_fracExp {s f r1 e r2 : List Char}
    (h0 : scanExponent (s.dropWhile isDigit) = none)
    (h1 : scanFraction (s.dropWhile isDigit) = some (f, r1))
    (h2 : scanExponent r1 = some (e, r2)) :
    (scanNumber s).text = s.takeWhile isDigit ++ f ++ e := by
  unfold scanNumber; simp only [h0, h1, h2]

theorem scanNumber_text_frac {s f r1 : List Char}
    (h0 : scanExponent (s.dropWhile isDigit) = none)
    (h1 : scanFraction (s.dropWhile isDigit) = some (f, r1))
    (h2 : scanExponent r1 = none) :
    (scanNumber s).text = s.takeWhile isDigit ++ f := by
  unfold scanNumber; simp only [h0, h1, h2]

theorem takeWhile_prefix_text (s : List Char) :
    (s.takeWhile isDigit).length ≤ (scanNumber s).text.length := by
  unfold scanNumber
  simp only
  split
  · simp
  · split
    · split <;> simp <;> omega
    · simp

/-- T2, numbers: no accepted literal that is a prefix of `s` is longer than the text
    `scanNumber` returns -/
theorem scanNumber_longest {s t : List Char} {d : Decimal} (hp : t <+: s) (ht : NumberVal t d) :
    t.length ≤ (scanNumber s).text.length := by
  cases ht with
  | @int D e x hD hx =>
    rcases hx.cases' with rfl | he
    · have := (prefix_takeWhile hD.all (by simpa using hp)).length_le
      have := takeWhile_prefix_text s
      simp; omega
    · obtain ⟨e1, rfl⟩ := he.head
      obtain ⟨htw, rest', hdw, hpre⟩ := prefix_stop hp hD.all (by decide)
      obtain ⟨e', r', hse, hlen⟩ := scanExponent_of_prefix (r := s.dropWhile isDigit) he
        (by rw [hdw]; exact (prefix_cons_inj _).2 hpre)
      rw [scanNumber_text_exp hse, htw]
      simp at hlen ⊢; omega
  | @frac D F e x hD hF hx =>
    have e0 : D ++ '.' :: F ++ e = D ++ '.' :: (F ++ e) := by simp
    rw [e0] at hp
    obtain ⟨htw, r0', hdw, hpre⟩ := prefix_stop hp hD.all (by decide)
    have h0 : scanExponent (s.dropWhile isDigit) = none := by
      rw [hdw]; exact scanExponent_other (by intro r h; cases h)
    have hFpre : F <+: r0' := (prefix_append F e).trans hpre
    have hFtw := prefix_takeWhile hF.all hFpre
    have hne : (r0'.takeWhile isDigit).isEmpty = false := by
      obtain ⟨c, t', rfl, hc⟩ := hF.head
      obtain ⟨k', hk'⟩ := hFtw
      rw [← hk']; rfl
    have h1 : scanFraction (s.dropWhile isDigit) =
        some ('.' :: r0'.takeWhile isDigit, r0'.dropWhile isDigit) := by
      rw [hdw, scanFraction_dot, hne]; rfl
    rcases hx.cases' with rfl | he
    · have := hFtw.length_le
      rcases h2 : scanExponent (r0'.dropWhile isDigit) with _ | ⟨e', r2⟩
      · rw [scanNumber_text_frac h0 h1 h2, htw]; simp; omega
      · rw [scanNumber_text_fracExp h0 h1 h2, htw]; simp; omega
    · obtain ⟨e1, rfl⟩ := he.head
      obtain ⟨htw2, r1', hdw2, hpre2⟩ := prefix_stop hpre hF.all (by decide)
      obtain ⟨e', r2, h2, hlen⟩ := scanExponent_of_prefix (r := r0'.dropWhile isDigit) he
        (by rw [hdw2]; exact (prefix_cons_inj _).2 hpre2)
      rw [scanNumber_text_fracExp h0 h1 h2, htw, htw2]
      simp at hlen ⊢; omega

end Calc
