/-
  Calc.Proofs.ModesErase — positions never influence evaluation (C16): the value-level
  operations, the evaluator, the statement step and the statement loop commute with erasing
  positions.  Positions are only ever COPIED from a token into a diagnostic; no decision depends
  on a line or a column.

  Erasure: `Tok.erasePos`, `Expr.erasePos`, `Stmt.erasePos` (Calc.Proofs.FrontScanTab /
  FrontParseTab) and, here, `Value.erasePos` (positions inside the stored bodies of a user
  function), `Env.erasePos`, `Diag.erasePos` (kind and info stay), `Res.erasePos`,
  `Line.erasePos`, `StepOut.erasePos`.  Core Lean only.
-/
import Calc.Model.Stmt
import Calc.Proofs.FrontParseTab
import Calc.Proofs.BlameOps
import Calc.Proofs.EvalPure
namespace Calc
open List

variable {S : Type} [Add S] [Sub S] [Mul S] [Div S] [Zero S] [One S] [Kernel S]
set_option linter.unusedSectionVars false

/-! ### erasing positions in values, tables, diagnostics, output lines -/

/-- the stored bodies of a user function with their positions erased -/
def eraseSigs (sigs : List (Sig S × Expr S)) : List (Sig S × Expr S) :=
  sigs.map (fun se => (se.1, se.2.erasePos))

def UserFn.erasePos (f : UserFn S) : UserFn S := ⟨f.name, eraseSigs f.sigs⟩

/-- a value with every position inside it erased: only a user function holds any -/
def Value.erasePos : Value S → Value S
  | .number z => .number z
  | .measurement z u => .measurement z u
  | .matrix m => .matrix m
  | .native n => .native n
  | .user f => .user f.erasePos

def Variable.erasePos (v : Variable S) : Variable S := ⟨v.value.erasePos, v.constant⟩

/-- a table with every position inside its values erased; names and flags stay -/
def Env.erasePos (env : Env S) : Env S := env.map (fun kv => (kv.1, kv.2.erasePos))

/-- a diagnostic without its position: kind and identifying details stay -/
def Diag.erasePos (d : Diag) : Diag := { d with line := 0, col := 0 }

def Res.erasePos {α : Type} (g : α → α) : Res α → Res α
  | .ok a => .ok (g a)
  | .diag d => .diag d.erasePos
  | .panic s => .panic s
  | .fuel => .fuel

def EvalOut.erasePos (o : EvalOut S) : EvalOut S :=
  ⟨o.res.erasePos Value.erasePos, Env.erasePos o.env⟩

/-- an output line without positions: a value line keeps its value (bodies of a printed user
    function erased), a diagnostic keeps kind and details -/
def Line.erasePos : Line S → Line S
  | .value v => .value v.erasePos
  | .evalErr d => .evalErr d.erasePos
  | .parseErr e => .parseErr e.erasePos
  | .scanErr e => .scanErr ⟨0, 0, e.ch⟩
  | .banner => .banner
  | .goodbye => .goodbye
  | .panic s => .panic s
  | .fuel => .fuel

def StepOut.erasePos (o : StepOut S) : StepOut S :=
  ⟨Env.erasePos o.env, o.out.map Line.erasePos⟩

/-! ### `Res` -/

theorem Res.erasePos_ok {α : Type} (g : α → α) (a : α) : (Res.ok a).erasePos g = .ok (g a) := rfl
theorem Res.erasePos_diag {α : Type} (g : α → α) (d : Diag) :
    (Res.diag d : Res α).erasePos g = .diag d.erasePos := rfl
theorem Res.erasePos_panic {α : Type} (g : α → α) (s : Str) :
    (Res.panic s : Res α).erasePos g = .panic s := rfl
theorem Res.erasePos_fuel {α : Type} (g : α → α) : (Res.fuel : Res α).erasePos g = .fuel := rfl

theorem Value.erasePos_native (n : Str) : (Value.native n : Value S).erasePos = .native n := rfl
theorem Value.erasePos_user (f : UserFn S) : (Value.user f).erasePos = .user f.erasePos := rfl

theorem Res.erasePos_bind_ok {α : Type} (r : Res α) (hr : ∀ d, (r = .diag d) = False)
    (g : α → Value S) (hg : ∀ x, (g x).erasePos = g x) :
    (r.bind fun x => .ok (g x)).erasePos Value.erasePos = r.bind fun x => .ok (g x) := by
  cases r with
  | ok a => simp [Res.bind, Res.erasePos, hg]
  | diag d => exact absurd rfl (fun h => (hr d).mp h)
  | panic s => rfl
  | fuel => rfl

theorem Res.erasePos_bind_matrix (r : Res (Mat S)) (hr : ∀ d, (r = .diag d) = False) :
    (r.bind fun x => .ok (.matrix x)).erasePos Value.erasePos =
      r.bind fun x => .ok (Value.matrix x) :=
  Res.erasePos_bind_ok r hr _ (fun _ => rfl)

theorem Res.erasePos_bind_number (r : Res S) (hr : ∀ d, (r = .diag d) = False) :
    (r.bind fun x => .ok (.number x)).erasePos Value.erasePos =
      r.bind fun x => .ok (Value.number x) :=
  Res.erasePos_bind_ok r hr _ (fun _ => rfl)

/-! ### operators -/

/-- closes one leaf of an operator: both sides reduce to the same constructor -/
local macro "erase_leaf" : tactic => `(tactic| first
  | (simp only [Res.erasePos, Value.erasePos, diagAt, Diag.erasePos, Tok.erasePos]; done)
  | (simp only [*, ↓reduceIte, Bool.false_eq_true, Res.erasePos, Value.erasePos, diagAt, Diag.erasePos, Tok.erasePos]; done)
  | (apply Eq.symm
     first | apply Res.erasePos_bind_matrix | apply Res.erasePos_bind_number
     intro d
     simp only [Mat.add_ne_diag, Mat.sub_ne_diag, Mat.mul_ne_diag, Mat.rowDot_ne_diag,
       Mat.colDot_ne_diag, Mat.rowCross_ne_diag, Mat.colCross_ne_diag]; done))

theorem binop_erasePos (op : Tok S) (a b : Value S) :
    binop op.erasePos a.erasePos b.erasePos = (binop op a b).erasePos Value.erasePos := by
  unfold binop
  simp only [Tok.erasePos_tag]
  split
  all_goals (cases a <;> cases b <;> (try simp only [Value.erasePos]))
  all_goals first
    | erase_leaf
    | (split <;> first | erase_leaf | (split <;> erase_leaf))

theorem unop_erasePos (op : Tok S) (v : Value S) :
    unop op.erasePos v.erasePos = (unop op v).erasePos Value.erasePos := by
  unfold unop
  simp only [Tok.erasePos_tag]
  split
  all_goals (cases v <;> (try simp only [Value.erasePos]))
  all_goals first
    | erase_leaf
    | (split <;> erase_leaf)

theorem groupop_erasePos (paren : Tok S) (k : GKind) (v : Value S) :
    groupop paren.erasePos k v.erasePos = (groupop paren k v).erasePos Value.erasePos := by
  unfold groupop
  cases k
  all_goals (cases v <;> (try simp only [Value.erasePos]))
  all_goals first
    | erase_leaf
    | (split <;> first | erase_leaf | (split <;> erase_leaf))

theorem asop_erasePos (tok : Tok S) (u : Unit) (v : Value S) :
    asop tok.erasePos u v.erasePos = (asop tok u v).erasePos Value.erasePos := by
  unfold asop
  cases v <;> (try simp only [Value.erasePos])
  all_goals first
    | erase_leaf
    | (split <;> erase_leaf)

/-! ### the table -/

theorem Env.get_erasePos (env : Env S) (k : Str) :
    Env.get (Env.erasePos env) k = (Env.get env k).map Variable.erasePos := by
  induction env with
  | nil => rfl
  | cons kv env ih =>
    obtain ⟨k', v⟩ := kv
    simp only [Env.erasePos, map_cons, Env.get] at ih ⊢
    split
    · rfl
    · exact ih

theorem Env.remove_erasePos (env : Env S) (k : Str) :
    Env.remove (Env.erasePos env) k = Env.erasePos (Env.remove env k) := by
  simp only [Env.remove, Env.erasePos, filter_map]
  rfl

theorem Env.insert_erasePos (env : Env S) (k : Str) (v : Variable S) :
    Env.insert (Env.erasePos env) k v.erasePos = Env.erasePos (Env.insert env k v) := by
  simp only [Env.insert, Env.remove_erasePos]
  rfl

theorem Env.retainConstants_erasePos (env : Env S) :
    Env.retainConstants (Env.erasePos env) = Env.erasePos (Env.retainConstants env) := by
  simp only [Env.retainConstants, Env.erasePos, filter_map]
  rfl

theorem lookupIdent_erasePos (name : Tok S) (env : Env S) :
    lookupIdent name.erasePos (Env.erasePos env) =
      (lookupIdent name env).erasePos Value.erasePos := by
  unfold lookupIdent
  rw [Tok.erasePos_lexeme, Env.get_erasePos]
  cases Env.get env name.lexeme <;> rfl

/-! ### native calls -/

theorem fits_erasePos (c : Gen.Constraint) (v : Value S) : fits c v.erasePos = fits c v := by
  cases v <;> cases c <;> rfl

theorem firstMisfit_erasePos (ps : List Gen.ParamSpec) (args : List (Value S)) (i : Nat) :
    firstMisfit i ps (args.map Value.erasePos) = firstMisfit i ps args := by
  induction ps generalizing args i with
  | nil => rfl
  | cons p ps ih =>
    cases args with
    | nil => rfl
    | cons a as =>
      simp only [map_cons, firstMisfit, fits_erasePos, ih]

theorem numArg_erasePos (args : List (Value S)) (i : Nat) :
    numArg (args.map Value.erasePos) i = numArg args i := by
  unfold numArg
  rw [getElem?_map]
  cases args[i]? with
  | none => rfl
  | some v => cases v <;> rfl

theorem matArg_erasePos (args : List (Value S)) (i : Nat) :
    matArg (args.map Value.erasePos) i = matArg args i := by
  unfold matArg
  rw [getElem?_map]
  cases args[i]? with
  | none => rfl
  | some v => cases v <;> rfl

theorem Res.erasePos_bind' {α : Type} (r : Res α) (hr : ∀ d, (r = .diag d) = False)
    (k k' : α → Res (Value S)) (hk : ∀ x, k' x = (k x).erasePos Value.erasePos) :
    r.bind k' = (r.bind k).erasePos Value.erasePos := by
  cases r with
  | ok a => exact hk a
  | diag d => exact absurd rfl (fun h => (hr d).mp h)
  | panic s => rfl
  | fuel => rfl

theorem nativeBody_erasePos (name : Str) (line col : Nat) (args : List (Value S)) :
    nativeBody name 0 0 (args.map Value.erasePos) =
      (nativeBody name line col args).erasePos Value.erasePos := by
  unfold nativeBody
  simp only [num1, numArg_erasePos, matArg_erasePos]
  split
  all_goals repeat' first
    | rfl
    | (apply Res.erasePos_bind' <;> intro _)
    | (simp only [numArg_ne_diag, matArg_ne_diag, Mat.identity_ne_diag, Mat.transpose_ne_diag,
        Mat.det_ne_diag, Mat.inverse_ne_diag]; done)
    | (split <;> rfl)

theorem callNative_erasePos (name : Str) (line col : Nat) (args : List (Value S)) :
    callNative name 0 0 (args.map Value.erasePos) =
      (callNative name line col args).erasePos Value.erasePos := by
  unfold callNative
  split
  · rfl
  · simp only [length_map, firstMisfit_erasePos]
    split
    · rfl
    · split
      · rfl
      · exact nativeBody_erasePos name line col args

/-! ### user calls -/

theorem sigMatches_erasePos (ps : List (Param S)) (args : List (Value S)) :
    sigMatches ps (args.map Value.erasePos) = sigMatches ps args := by
  induction ps generalizing args with
  | nil => cases args <;> rfl
  | cons p ps ih =>
    cases args with
    | nil => cases p <;> rfl
    | cons a as =>
      cases p with
      | ident n => simp only [map_cons, sigMatches, ih]
      | number z => cases a <;> simp only [map_cons, sigMatches, Value.erasePos, ih]

theorem bindParams_erasePos (ps : List (Param S)) (args : List (Value S)) (env : Env S) :
    bindParams ps (args.map Value.erasePos) (Env.erasePos env) =
      Env.erasePos (bindParams ps args env) := by
  induction ps generalizing args env with
  | nil => cases args <;> rfl
  | cons p ps ih =>
    cases args with
    | nil => cases p <;> rfl
    | cons a as =>
      cases p with
      | ident n =>
        simp only [map_cons, bindParams]
        rw [← ih, ← Env.insert_erasePos]
        rfl
      | number z => simp only [map_cons, bindParams, ih]

/-- an evaluator pair related by erasure (in `eval`: both are `eval f`) -/
@[reducible] def ErasedEv (ev' ev : Evaluator S) : Prop :=
  ∀ e env, ev' e.erasePos (Env.erasePos env) = (ev e env).erasePos

theorem callUser_erasePos {ev' ev : Evaluator S} (h : ErasedEv ev' ev) (fn : UserFn S)
    (line col : Nat) (args : List (Value S)) (env : Env S) :
    callUser ev' fn.erasePos 0 0 (args.map Value.erasePos) (Env.erasePos env) =
      (callUser ev fn line col args env).erasePos Value.erasePos := by
  unfold callUser
  simp only [UserFn.erasePos, eraseSigs, find?_map, Function.comp_def, sigMatches_erasePos]
  cases fn.sigs.find? (fun se => sigMatches se.1.params args) with
  | none => rfl
  | some sb =>
    obtain ⟨sig, body⟩ := sb
    simp only [Option.map_some]
    rw [bindParams_erasePos, h]
    rfl

/-! ### lists of operands -/

def eraseListOut (p : Res (List (Value S)) × Env S) : Res (List (Value S)) × Env S :=
  (p.1.erasePos (List.map Value.erasePos), Env.erasePos p.2)

theorem evalList_erasePos {ev' ev : Evaluator S} (h : ErasedEv ev' ev) :
    ∀ (es : List (Expr S)) (env : Env S),
      evalList ev' (eraseArgs es) (Env.erasePos env) = eraseListOut (evalList ev es env) := by
  intro es
  induction es with
  | nil => intro env; rfl
  | cons e es ih =>
    intro env
    simp only [eraseArgs, evalList, h]
    generalize ev e env = o
    obtain ⟨res, env1⟩ := o
    cases res with
    | ok v =>
      simp only [EvalOut.erasePos, Res.erasePos, ih]
      generalize evalList ev es env1 = q
      obtain ⟨r, env2⟩ := q
      cases r <;> rfl
    | diag d => rfl
    | panic s => rfl
    | fuel => rfl

def eraseRowOut {α : Type} (p : Res α × Env S) : Res α × Env S :=
  (p.1.erasePos id, Env.erasePos p.2)

theorem evalRow_erasePos {ev' ev : Evaluator S} (h : ErasedEv ev' ev) (br : Tok S)
    (rowIdx : Nat) : ∀ (es : List (Expr S)) (colIdx : Nat) (env : Env S),
      evalRow ev' br.erasePos rowIdx colIdx (eraseArgs es) (Env.erasePos env) =
        eraseRowOut (evalRow ev br rowIdx colIdx es env) := by
  intro es
  induction es with
  | nil => intro c env; rfl
  | cons e es ih =>
    intro c env
    simp only [eraseArgs, evalRow, h]
    generalize ev e env = o
    obtain ⟨res, env1⟩ := o
    cases res with
    | ok v =>
      cases v with
      | number z =>
        simp only [EvalOut.erasePos, Res.erasePos, Value.erasePos, ih]
        generalize evalRow ev br rowIdx (c + 1) es env1 = q
        obtain ⟨r, env2⟩ := q
        cases r <;> rfl
      | _ => rfl
    | diag d => rfl
    | panic s => rfl
    | fuel => rfl

theorem evalRows_erasePos {ev' ev : Evaluator S} (h : ErasedEv ev' ev) (br : Tok S) :
    ∀ (rows : List (List (Expr S))) (rowIdx : Nat) (env : Env S),
      evalRows ev' br.erasePos rowIdx (eraseRows rows) (Env.erasePos env) =
        eraseRowOut (evalRows ev br rowIdx rows env) := by
  intro rows
  induction rows with
  | nil => intro r env; rfl
  | cons row rows ih =>
    intro r env
    simp only [eraseRows, evalRows, evalRow_erasePos h]
    generalize evalRow ev br r 0 row env = q
    obtain ⟨res, env1⟩ := q
    cases res with
    | ok zs =>
      simp only [eraseRowOut, Res.erasePos, ih]
      generalize evalRows ev br (r + 1) rows env1 = q2
      obtain ⟨rs, env2⟩ := q2
      cases rs <;> rfl
    | diag d => rfl
    | panic s => rfl
    | fuel => rfl

/-! ### the evaluator -/

/-- **evaluation commutes with erasing positions**: evaluating the erased tree in the erased
    table gives the erased result (value with erased stored bodies, or the diagnostic of the same
    kind and details without its position) and the erased table. -/
theorem eval_erasePos : ∀ f : Nat, ErasedEv (eval (S := S) f) (eval f) := by
  intro f
  induction f with
  | zero => intro e env; rfl
  | succ f ih =>
    intro e env
    cases e with
    | number z => rfl
    | measurement z u => rfl
    | ident name =>
      simp only [Expr.erasePos, eval, lookupIdent_erasePos]
      rfl
    | as_ x tok u =>
      simp only [Expr.erasePos, eval, ih x env]
      generalize eval f x env = o
      obtain ⟨res, env1⟩ := o
      cases res with
      | ok v => simp only [EvalOut.erasePos, Res.erasePos_ok, asop_erasePos]
      | _ => rfl
    | unary op x =>
      simp only [Expr.erasePos, eval, ih x env]
      generalize eval f x env = o
      obtain ⟨res, env1⟩ := o
      cases res with
      | ok v => simp only [EvalOut.erasePos, Res.erasePos_ok, unop_erasePos]
      | _ => rfl
    | grouping p k x =>
      simp only [Expr.erasePos, eval, ih x env]
      generalize eval f x env = o
      obtain ⟨res, env1⟩ := o
      cases res with
      | ok v => simp only [EvalOut.erasePos, Res.erasePos_ok, groupop_erasePos]
      | _ => rfl
    | binary l op r =>
      simp only [Expr.erasePos, eval, ih l env]
      generalize eval f l env = o1
      obtain ⟨res1, env1⟩ := o1
      cases res1 with
      | ok a =>
        simp only [EvalOut.erasePos, Res.erasePos_ok, ih r env1]
        generalize eval f r env1 = o2
        obtain ⟨res2, env2⟩ := o2
        cases res2 with
        | ok b => simp only [Res.erasePos_ok, binop_erasePos]
        | _ => rfl
      | _ => rfl
    | matrix br rows =>
      cases rows with
      | nil => rfl
      | cons row rows =>
        have key := evalRows_erasePos ih br (row :: rows) 0 env
        simp only [eraseRows] at key
        simp only [Expr.erasePos, eraseRows, eval, key]
        generalize evalRows (eval f) br 0 (row :: rows) env = q
        obtain ⟨r, env'⟩ := q
        cases r with
        | ok zss =>
          simp only [eraseRowOut, Res.erasePos_ok, EvalOut.erasePos, id]
          rw [Res.erasePos_bind_matrix _ (Mat.fromRows_ne_diag _)]
        | _ => rfl
    | call callee paren args =>
      simp only [Expr.erasePos, eval, ih callee env]
      generalize eval f callee env = o
      obtain ⟨res, env1⟩ := o
      cases res with
      | ok v =>
        cases v with
        | native name =>
          simp only [EvalOut.erasePos, Res.erasePos_ok, Value.erasePos_native,
            evalList_erasePos ih]
          generalize evalList (eval f) args env1 = q
          obtain ⟨r, env2⟩ := q
          cases r with
          | ok vs =>
            simp only [eraseListOut, Res.erasePos_ok]
            rw [← callNative_erasePos name paren.line paren.col vs]
            rfl
          | _ => rfl
        | user fn =>
          simp only [EvalOut.erasePos, Res.erasePos_ok, Value.erasePos_user,
            evalList_erasePos ih]
          generalize evalList (eval f) args env1 = q
          obtain ⟨r, env2⟩ := q
          cases r with
          | ok vs =>
            simp only [eraseListOut, Res.erasePos_ok]
            rw [← callUser_erasePos ih fn paren.line paren.col vs env2]
            rfl
          | _ => rfl
        | _ => rfl
      | _ => rfl

/-! ### statements -/

theorem errOut_erasePos (env : Env S) (k : EvalErrKind) (t : Tok S) (info : Str) :
    errOut (Env.erasePos env) k t.erasePos info = (errOut env k t info).erasePos := rfl

theorem resLine_erasePos (r : Res (Value S)) :
    resLine (r.erasePos Value.erasePos) = (resLine r).map Line.erasePos := by
  cases r <;> rfl

theorem defineSig_erasePos (sigs : List (Sig S × Expr S)) (sig : Sig S) (body : Expr S) :
    defineSig (eraseSigs sigs) sig body.erasePos = eraseSigs (defineSig sigs sig body) := by
  induction sigs with
  | nil => rfl
  | cons sb rest ih =>
    obtain ⟨s, b⟩ := sb
    simp only [eraseSigs, map_cons, defineSig] at ih ⊢
    split
    · rfl
    · rw [ih]; rfl

theorem eraseSigs_filter (sigs : List (Sig S × Expr S)) (sig : Sig S) :
    (eraseSigs sigs).filter (fun se => !sigEq se.1.params sig.params) =
      eraseSigs (sigs.filter (fun se => !sigEq se.1.params sig.params)) := by
  simp only [eraseSigs, filter_map]
  rfl

theorem stepOut_insert (env : Env S) (k : Str) (v : Variable S) :
    (⟨Env.insert (Env.erasePos env) k v.erasePos, []⟩ : StepOut S) =
      StepOut.erasePos ⟨Env.insert env k v, []⟩ := by
  rw [Env.insert_erasePos]; rfl

theorem stepOut_remove (env : Env S) (k : Str) :
    (⟨Env.remove (Env.erasePos env) k, []⟩ : StepOut S) =
      StepOut.erasePos ⟨Env.remove env k, []⟩ := by
  rw [Env.remove_erasePos]; rfl

/-- **one statement commutes with erasing positions** -/
theorem step_erasePos (fuel : Nat) (env : Env S) (s : Stmt S) :
    step fuel (Env.erasePos env) s.erasePos = (step fuel env s).erasePos := by
  cases s with
  | expr e =>
    simp only [Stmt.erasePos, step, eval_erasePos fuel e env, EvalOut.erasePos, resLine_erasePos]
    rfl
  | clear =>
    simp only [Stmt.erasePos, step, Env.retainConstants_erasePos]
    rfl
  | deleteVar name =>
    simp only [Stmt.erasePos, step, Tok.erasePos_lexeme, Env.get_erasePos]
    cases Env.get env name.lexeme with
    | none => rfl
    | some v =>
      simp only [Option.map_some, Variable.erasePos]
      split
      · rfl
      · exact stepOut_remove _ _
  | deleteSig name sig =>
    simp only [Stmt.erasePos, step, Tok.erasePos_lexeme, Env.get_erasePos]
    cases Env.get env name.lexeme with
    | none => rfl
    | some v =>
      obtain ⟨val, c⟩ := v
      simp only [Option.map_some, Variable.erasePos]
      split
      · rfl
      · cases val with
        | user fn =>
          simp only [Value.erasePos_user, UserFn.erasePos, eraseSigs_filter]
          simp only [eraseSigs, length_map, isEmpty_map]
          split
          · rfl
          · split
            · exact stepOut_remove _ _
            · exact stepOut_insert env name.lexeme
                ⟨.user { fn with sigs := fn.sigs.filter (fun se => !sigEq se.1.params sig.params) },
                 false⟩
        | _ => rfl
  | assign name e =>
    simp only [Stmt.erasePos, step, Tok.erasePos_lexeme, Env.get_erasePos]
    cases Env.get env name.lexeme with
    | none =>
      simp only [Option.map_none, eval_erasePos fuel e env]
      generalize eval fuel e env = o
      obtain ⟨res, env1⟩ := o
      cases res with
      | ok v =>
        simp only [EvalOut.erasePos, Res.erasePos_ok]
        exact stepOut_insert env1 name.lexeme ⟨v, false⟩
      | _ => rfl
    | some v =>
      obtain ⟨val, c⟩ := v
      cases c with
      | true => rfl
      | false =>
        simp only [Option.map_some, Variable.erasePos, eval_erasePos fuel e env]
        generalize eval fuel e env = o
        obtain ⟨res, env1⟩ := o
        cases res with
        | ok v =>
          simp only [EvalOut.erasePos, Res.erasePos_ok]
          exact stepOut_insert env1 name.lexeme ⟨v, false⟩
        | _ => rfl
  | define name sig body =>
    simp only [Stmt.erasePos, step, Tok.erasePos_lexeme, Env.get_erasePos]
    cases Env.get env name.lexeme with
    | none =>
      simp only [Option.map_none]
      exact stepOut_insert env name.lexeme ⟨.user ⟨name.lexeme, [(sig, body)]⟩, false⟩
    | some v =>
      obtain ⟨val, c⟩ := v
      simp only [Option.map_some, Variable.erasePos]
      split
      · rfl
      · cases val with
        | user fn =>
          simp only [Value.erasePos_user, UserFn.erasePos, defineSig_erasePos]
          exact stepOut_insert env name.lexeme
            ⟨.user { fn with sigs := defineSig fn.sigs sig body }, false⟩
        | native n => rfl
        | _ =>
          simp only [Value.erasePos]
          exact stepOut_insert env name.lexeme ⟨.user ⟨name.lexeme, [(sig, body)]⟩, false⟩

theorem StepOut.erasePos_env (o : StepOut S) : o.erasePos.env = Env.erasePos o.env := rfl
theorem StepOut.erasePos_out (o : StepOut S) : o.erasePos.out = o.out.map Line.erasePos := rfl

/-- **the statement loop commutes with erasing positions** -/
theorem runStmts_erasePos (fuel : Nat) (ss : List (Stmt S)) :
    ∀ env : Env S, runStmts fuel (Env.erasePos env) (ss.map Stmt.erasePos) =
      (runStmts fuel env ss).erasePos := by
  induction ss with
  | nil => intro env; rfl
  | cons s ss ih =>
    intro env
    simp only [map_cons, runStmts, step_erasePos, StepOut.erasePos_env, ih,
      StepOut.erasePos_out]
    simp only [StepOut.erasePos, map_append]

theorem runStmts_append_full (fuel : Nat) (ss₁ ss₂ : List (Stmt S)) :
    ∀ env : Env S, runStmts fuel env (ss₁ ++ ss₂) =
      ⟨(runStmts fuel (runStmts fuel env ss₁).env ss₂).env,
       (runStmts fuel env ss₁).out ++ (runStmts fuel (runStmts fuel env ss₁).env ss₂).out⟩ := by
  induction ss₁ with
  | nil => intro env; rfl
  | cons s ss ih =>
    intro env
    simp only [cons_append, runStmts, ih, append_assoc]

end Calc
