/-
  Calc.Proofs.BlameEval — every diagnostic of the evaluator is located at a token of the
  failing construct (C14): one level (`eval_blame_step`: own token, or the diagnostic of a
  sub-expression, or the diagnostic of the called function's body) and whole trees
  (`eval_blame`).  Core Lean only.
-/
import Calc.Proofs.EvalPure
import Calc.Proofs.EnvLemmas
import Calc.Proofs.BlameOps
import Calc.Proofs.BlameOrder
import Calc.Proofs.BlamePos
import Calc.Proofs.BlameData
namespace Calc
variable {S : Type} [Add S] [Sub S] [Mul S] [Div S] [Zero S] [One S] [Kernel S]
set_option linter.unusedSectionVars false

/-- the diagnostic arose in the body of the user function the node `e` calls: the callee is a
    user function, all arguments are values, a signature matches, and evaluating its body with
    the parameters bound reports `d` -/
def FromBody (fuel : Nat) (e : Expr S) (env : Env S) (d : Diag) : Prop :=
  ∃ callee paren args fn vs sig body,
    e = .call callee paren args ∧
    (eval fuel callee env).res = .ok (.user fn) ∧
    (evalList (eval fuel) args env).1 = .ok vs ∧
    fn.sigs.find? (fun se => sigMatches se.1.params vs) = some (sig, body) ∧
    (eval fuel body (bindParams sig.params vs env)).res = .diag d

/-- one level of evaluation: a diagnostic of a node is at the node's own token, or is the
    diagnostic of one of its direct sub-expressions (evaluated in the same table), or arose in
    the body of the user function the node calls -/
theorem eval_blame_step (fuel : Nat) (e : Expr S) (env : Env S) (d : Diag)
    (h : (eval (fuel + 1) e env).res = .diag d) :
    (d.line, d.col) ∈ e.ownPositions ∨
    (∃ c ∈ e.children, (eval fuel c env).res = .diag d) ∨
    FromBody fuel e env d := by
  cases e with
  | number z => simp only [eval] at h; cases h
  | measurement z u => simp only [eval] at h; cases h
  | ident name =>
    simp only [eval] at h
    obtain ⟨h1, h2, -⟩ := lookupIdent_diag name env d h
    left; rw [h1, h2]; exact List.mem_singleton.mpr rfl
  | as_ x tok u =>
    simp only [eval] at h
    split at h
    · obtain ⟨h1, h2⟩ := asop_diag_pos tok u _ d h
      left; rw [h1, h2]; exact List.mem_singleton.mpr rfl
    · exact .inr (.inl ⟨x, List.mem_singleton.mpr rfl, h⟩)
  | unary op x =>
    simp only [eval] at h
    split at h
    · obtain ⟨h1, h2⟩ := unop_diag_pos op _ d h
      left; rw [h1, h2]; exact List.mem_singleton.mpr rfl
    · exact .inr (.inl ⟨x, List.mem_singleton.mpr rfl, h⟩)
  | grouping p k x =>
    simp only [eval] at h
    split at h
    · obtain ⟨h1, h2⟩ := groupop_diag_pos p k _ d h
      left; rw [h1, h2]; exact List.mem_singleton.mpr rfl
    · exact .inr (.inl ⟨x, List.mem_singleton.mpr rfl, h⟩)
  | binary l op r =>
    simp only [eval, eval_env] at h
    split at h
    · split at h
      · obtain ⟨h1, h2⟩ := binop_diag_pos op _ _ d h
        left; rw [h1, h2]; exact List.mem_singleton.mpr rfl
      · exact .inr (.inl ⟨r, by simp [Expr.children], h⟩)
    · exact .inr (.inl ⟨l, by simp [Expr.children], h⟩)
  | matrix br rows =>
    cases rows with
    | nil => simp only [eval] at h; cases h
    | cons r0 rs =>
      cases hr : (evalRows (eval fuel) br 0 (r0 :: rs) env).1 with
      | ok zss =>
        rw [eval_matrix_rows_ok fuel br r0 rs env zss hr, Res.bind_ok_eq_diag,
          Mat.fromRows_ne_diag] at h
        exact h.elim
      | diag d' =>
        rw [eval_matrix_rows_diag fuel br r0 rs env d' hr] at h
        cases h
        obtain ⟨pre, row, post, hrows, -, hrow⟩ :=
          evalRows_first_failure (eval fuel) (eval_env fuel) br (r0 :: rs) 0 env d hr
        obtain ⟨pre', x, post', hx, -, hfail⟩ :=
          evalRow_first_failure (eval fuel) (eval_env fuel) br _ row 0 env d hrow
        rcases hfail with hfail | ⟨v, -, -, hd⟩
        · refine .inr (.inl ⟨x, ?_, hfail⟩)
          simp only [Expr.children, List.mem_flatten]
          exact ⟨row, by rw [hrows]; simp, by rw [hx]; simp⟩
        · left; rw [hd]; exact List.mem_singleton.mpr rfl
      | panic s =>
        simp only [eval] at h
        cases hq : evalRows (eval fuel) br 0 (r0 :: rs) env with
        | mk r e1 => rw [hq] at hr h; simp only at hr; subst hr; cases h
      | fuel =>
        simp only [eval] at h
        cases hq : evalRows (eval fuel) br 0 (r0 :: rs) env with
        | mk r e1 => rw [hq] at hr h; simp only at hr; subst hr; cases h
  | call callee paren args =>
    cases hc : (eval fuel callee env).res with
    | diag d' =>
      rw [eval_call_callee fuel callee paren args env (by intro a ha; rw [hc] at ha; cases ha),
        hc] at h
      cases h
      exact .inr (.inl ⟨callee, by simp [Expr.children], hc⟩)
    | panic s =>
      rw [eval_call_callee fuel callee paren args env (by intro a ha; rw [hc] at ha; cases ha),
        hc] at h
      cases h
    | fuel =>
      rw [eval_call_callee fuel callee paren args env (by intro a ha; rw [hc] at ha; cases ha),
        hc] at h
      cases h
    | ok v =>
      have hargs : ∀ d', (evalList (eval fuel) args env).1 = .diag d' →
          ∃ c ∈ (Expr.call callee paren args).children, (eval fuel c env).res = .diag d' := by
        intro d' hd'
        obtain ⟨pre, x, post, hx, -, hfail⟩ :=
          evalList_first_failure (eval fuel) (eval_env fuel) args env d' hd'
        exact ⟨x, by simp [Expr.children, hx], hfail⟩
      have hfun : ∀ (hf : (∃ n, v = .native n) ∨ (∃ f, v = .user f)),
          (∀ vs, (evalList (eval fuel) args env).1 ≠ .ok vs) →
          ∃ c ∈ (Expr.call callee paren args).children, (eval fuel c env).res = .diag d := by
        intro hf hno
        rw [eval_call_args fuel callee paren args env v hc hf hno] at h
        cases hl : (evalList (eval fuel) args env).1 with
        | ok vs => exact absurd hl (hno vs)
        | diag d' => rw [hl] at h; cases h; exact hargs d hl
        | panic s => rw [hl] at h; cases h
        | fuel => rw [hl] at h; cases h
      cases v with
      | native n =>
        cases hl : (evalList (eval fuel) args env).1 with
        | ok vs =>
          rw [eval_call_native fuel callee paren args env n vs hc hl] at h
          obtain ⟨h1, h2⟩ := callNative_diag_pos n _ _ vs d h
          left; rw [h1, h2]; exact List.mem_singleton.mpr rfl
        | diag d' =>
          exact .inr (.inl (hfun (.inl ⟨n, rfl⟩) (by intro vs hvs; rw [hl] at hvs; cases hvs)))
        | panic s =>
          exact .inr (.inl (hfun (.inl ⟨n, rfl⟩) (by intro vs hvs; rw [hl] at hvs; cases hvs)))
        | fuel =>
          exact .inr (.inl (hfun (.inl ⟨n, rfl⟩) (by intro vs hvs; rw [hl] at hvs; cases hvs)))
      | user fn =>
        cases hl : (evalList (eval fuel) args env).1 with
        | ok vs =>
          rw [eval_call_user fuel callee paren args env fn vs hc hl] at h
          rcases callUser_diag (eval fuel) fn _ _ vs env d h with ⟨-, hd⟩ | ⟨sig, body, hf, hb⟩
          · left; rw [hd]; exact List.mem_singleton.mpr rfl
          · exact .inr (.inr ⟨callee, paren, args, fn, vs, sig, body, rfl, hc, hl, hf, hb⟩)
        | diag d' =>
          exact .inr (.inl (hfun (.inr ⟨fn, rfl⟩) (by intro vs hvs; rw [hl] at hvs; cases hvs)))
        | panic s =>
          exact .inr (.inl (hfun (.inr ⟨fn, rfl⟩) (by intro vs hvs; rw [hl] at hvs; cases hvs)))
        | fuel =>
          exact .inr (.inl (hfun (.inr ⟨fn, rfl⟩) (by intro vs hvs; rw [hl] at hvs; cases hvs)))
      | number z =>
        rw [eval_call_not_callable fuel callee paren args env _ hc (by intro n hn; cases hn)
          (by intro f hf; cases hf)] at h
        cases h; left; exact List.mem_singleton.mpr rfl
      | measurement z u =>
        rw [eval_call_not_callable fuel callee paren args env _ hc (by intro n hn; cases hn)
          (by intro f hf; cases hf)] at h
        cases h; left; exact List.mem_singleton.mpr rfl
      | matrix m =>
        rw [eval_call_not_callable fuel callee paren args env _ hc (by intro n hn; cases hn)
          (by intro f hf; cases hf)] at h
        cases h; left; exact List.mem_singleton.mpr rfl

/-! ### function values only travel -/

theorem evalList_ok_forall {ev : Evaluator S} (hp : ∀ e env, (ev e env).env = env)
    {Q : Value S → Prop} (env : Env S) :
    ∀ (es : List (Expr S)) (vs : List (Value S)),
      (∀ e ∈ es, ∀ v, (ev e env).res = .ok v → Q v) →
      (evalList ev es env).1 = .ok vs → ∀ v ∈ vs, Q v := by
  intro es
  induction es with
  | nil => intro vs _ h v hv; simp only [evalList] at h; cases h; cases hv
  | cons e es ih =>
    intro vs hq h
    cases hr : (ev e env).res with
    | ok v =>
      rw [evalList_head_ok ev e es env v hr, hp] at h
      cases hl : (evalList ev es env).1 with
      | ok ws =>
        rw [hl] at h
        simp only at h
        cases h
        intro w hw
        rcases List.mem_cons.mp hw with rfl | hw
        · exact hq e List.mem_cons_self _ hr
        · exact ih ws (fun x hx => hq x (List.mem_cons_of_mem _ hx)) hl w hw
      | diag d => rw [hl] at h; cases h
      | panic s => rw [hl] at h; cases h
      | fuel => rw [hl] at h; cases h
    | diag d => rw [evalList_head_diag ev e es env d hr] at h; cases h
    | panic s =>
      have := evalList_head_fail ev e es env (by intro v hv; rw [hr] at hv; cases hv)
      rw [hr] at this; rw [this] at h; cases h
    | fuel =>
      have := evalList_head_fail ev e es env (by intro v hv; rw [hr] at hv; cases hv)
      rw [hr] at this; rw [this] at h; cases h

theorem EnvPosIn.remove {P : SrcPos → Prop} {env : Env S} (h : EnvPosIn P env) (k : Str) :
    EnvPosIn P (Env.remove env k) := fun kv hkv => h kv (List.mem_filter.mp hkv).1

theorem EnvPosIn.insert {P : SrcPos → Prop} {env : Env S} (h : EnvPosIn P env) (k : Str)
    {v : Value S} (hv : v.PosIn P) (c : Bool) : EnvPosIn P (Env.insert env k ⟨v, c⟩) := by
  intro kv hkv
  rcases List.mem_cons.mp hkv with rfl | hkv
  · exact hv
  · exact h.remove k kv hkv

theorem EnvPosIn.bindParams {P : SrcPos → Prop} (ps : List (Param S)) :
    ∀ (vs : List (Value S)) (env : Env S), EnvPosIn P env → (∀ v ∈ vs, v.PosIn P) →
      EnvPosIn P (bindParams ps vs env) := by
  induction ps with
  | nil => intro vs env he _; unfold Calc.bindParams; exact he
  | cons p ps ih =>
    intro vs env he hvs
    cases vs with
    | nil => cases p <;> (unfold Calc.bindParams; exact he)
    | cons v vs =>
      have hv : v.PosIn P := hvs v List.mem_cons_self
      have hrest : ∀ w ∈ vs, w.PosIn P := fun w hw => hvs w (List.mem_cons_of_mem _ hw)
      cases p with
      | ident n => unfold Calc.bindParams; exact ih vs _ (he.insert n hv false) hrest
      | number z => unfold Calc.bindParams; exact ih vs _ he hrest

/-- the tokens of a body of a function are body tokens of the function value -/
theorem body_positions_sub {fn : UserFn S} {se : Sig S × Expr S} (h : se ∈ fn.sigs) {p : SrcPos}
    (hp : p ∈ se.2.allPositions) : p ∈ (Value.user fn).bodyPositions :=
  List.mem_flatMap.mpr ⟨se, h, hp⟩

/-- Whole trees.  `P` is any set of positions that contains the body tokens of every function
    stored in the table; then every value `eval` returns has its body tokens in `P` (function
    values only travel), and every diagnostic is at a token of the evaluated tree or in `P`. -/
theorem eval_blame_gen (P : SrcPos → Prop) : ∀ (fuel : Nat) (e : Expr S) (env : Env S),
    EnvPosIn P env →
    (∀ v, (eval fuel e env).res = .ok v → v.PosIn P) ∧
    (∀ d, (eval fuel e env).res = .diag d → (d.line, d.col) ∈ e.allPositions ∨ P (d.line, d.col)) := by
  intro fuel
  induction fuel with
  | zero =>
    intro e env _
    exact ⟨fun v h => (by cases h), fun d h => (by cases h)⟩
  | succ f ih =>
    intro e env henv
    constructor
    · -- values
      intro v h
      cases e with
      | number z => simp only [eval] at h; cases h; exact Value.posIn_of_data rfl
      | measurement z u => simp only [eval] at h; cases h; exact Value.posIn_of_data rfl
      | ident name =>
        simp only [eval, lookupIdent] at h
        split at h
        · next w hg => cases h; exact henv _ (Env.mem_of_get hg)
        · cases h
      | as_ x tok u =>
        simp only [eval] at h
        split at h
        · exact Value.posIn_of_data (asop_ok_data _ _ _ _ h)
        · next hne => exact absurd h (hne v)
      | unary op x =>
        simp only [eval] at h
        split at h
        · exact Value.posIn_of_data (unop_ok_data _ _ _ h)
        · next hne => exact absurd h (hne v)
      | grouping p k x =>
        simp only [eval] at h
        split at h
        · next w hw =>
          rcases groupop_ok_data _ _ _ _ h with rfl | hd
          · exact (ih x env henv).1 _ hw
          · exact Value.posIn_of_data hd
        · next hne => exact absurd h (hne v)
      | binary l op r =>
        simp only [eval, eval_env] at h
        split at h
        · split at h
          · exact Value.posIn_of_data (binop_ok_data _ _ _ _ h)
          · next hne => exact absurd h (hne v)
        · next hne => exact absurd h (hne v)
      | matrix br rows =>
        cases rows with
        | nil => simp only [eval] at h; cases h
        | cons r0 rs =>
          simp only [eval] at h
          split at h
          · obtain ⟨m, -, hm⟩ := Res.ok_of_bind_eq_ok h
            cases hm; exact Value.posIn_of_data rfl
          · cases h
          · cases h
          · cases h
      | call callee paren args =>
        cases hc : (eval f callee env).res with
        | diag d' =>
          rw [eval_call_callee f callee paren args env (by intro a ha; rw [hc] at ha; cases ha),
            hc] at h
          cases h
        | panic s =>
          rw [eval_call_callee f callee paren args env (by intro a ha; rw [hc] at ha; cases ha),
            hc] at h
          cases h
        | fuel =>
          rw [eval_call_callee f callee paren args env (by intro a ha; rw [hc] at ha; cases ha),
            hc] at h
          cases h
        | ok w =>
          have hnoargs : ∀ (hf : (∃ n, w = .native n) ∨ (∃ g, w = .user g)),
              (∀ vs, (evalList (eval f) args env).1 ≠ .ok vs) → False := by
            intro hf hno
            rw [eval_call_args f callee paren args env w hc hf hno] at h
            cases hl : (evalList (eval f) args env).1 with
            | ok vs => exact hno vs hl
            | diag d' => rw [hl] at h; cases h
            | panic s => rw [hl] at h; cases h
            | fuel => rw [hl] at h; cases h
          cases w with
          | native n =>
            cases hl : (evalList (eval f) args env).1 with
            | ok vs =>
              rw [eval_call_native f callee paren args env n vs hc hl] at h
              exact Value.posIn_of_data (callNative_ok_data _ _ _ _ _ h)
            | diag d' =>
              exact (hnoargs (.inl ⟨n, rfl⟩) (by intro vs hvs; rw [hl] at hvs; cases hvs)).elim
            | panic s =>
              exact (hnoargs (.inl ⟨n, rfl⟩) (by intro vs hvs; rw [hl] at hvs; cases hvs)).elim
            | fuel =>
              exact (hnoargs (.inl ⟨n, rfl⟩) (by intro vs hvs; rw [hl] at hvs; cases hvs)).elim
          | user fn =>
            cases hl : (evalList (eval f) args env).1 with
            | ok vs =>
              rw [eval_call_user f callee paren args env fn vs hc hl] at h
              unfold callUser at h
              split at h
              · next sig body hf =>
                have hvs : ∀ v ∈ vs, v.PosIn P :=
                  evalList_ok_forall (eval_env f) env args vs
                    (fun x _ v hv => (ih x env henv).1 v hv) hl
                exact (ih body _ (EnvPosIn.bindParams sig.params vs env henv hvs)).1 v h
              · cases h
            | diag d' =>
              exact (hnoargs (.inr ⟨fn, rfl⟩) (by intro vs hvs; rw [hl] at hvs; cases hvs)).elim
            | panic s =>
              exact (hnoargs (.inr ⟨fn, rfl⟩) (by intro vs hvs; rw [hl] at hvs; cases hvs)).elim
            | fuel =>
              exact (hnoargs (.inr ⟨fn, rfl⟩) (by intro vs hvs; rw [hl] at hvs; cases hvs)).elim
          | number z =>
            rw [eval_call_not_callable f callee paren args env _ hc (by intro n hn; cases hn)
              (by intro g hg; cases hg)] at h
            cases h
          | measurement z u =>
            rw [eval_call_not_callable f callee paren args env _ hc (by intro n hn; cases hn)
              (by intro g hg; cases hg)] at h
            cases h
          | matrix m =>
            rw [eval_call_not_callable f callee paren args env _ hc (by intro n hn; cases hn)
              (by intro g hg; cases hg)] at h
            cases h
    · -- diagnostics
      intro d h
      rcases eval_blame_step f e env d h with hown | ⟨c, hc, hd⟩ | hbody
      · exact .inl (e.own_sub_all hown)
      · rcases (ih c env henv).2 d hd with hp | hp
        · exact .inl (Expr.child_sub_all hc hp)
        · exact .inr hp
      · obtain ⟨callee, paren, args, fn, vs, sig, body, rfl, hc, hl, hf, hb⟩ := hbody
        have hfn : (Value.user fn).PosIn P := (ih callee env henv).1 _ hc
        have hvs : ∀ v ∈ vs, v.PosIn P :=
          evalList_ok_forall (eval_env f) env args vs
            (fun x _ v hv => (ih x env henv).1 v hv) hl
        have hmem := List.mem_of_find?_eq_some hf
        rcases (ih body _ (EnvPosIn.bindParams sig.params vs env henv hvs)).2 d hb with hp | hp
        · exact .inr (hfn _ (body_positions_sub hmem hp))
        · exact .inr hp

/-- every diagnostic of the evaluator is at a token of the evaluated tree, or at a token of the
    body of a function stored in the table -/
theorem eval_blame (fuel : Nat) (e : Expr S) (env : Env S) (d : Diag)
    (h : (eval fuel e env).res = .diag d) :
    (d.line, d.col) ∈ e.allPositions ++ EnvPositions env := by
  rcases (eval_blame_gen (· ∈ EnvPositions env) fuel e env (envPosIn_self env)).2 d h with hp | hp
  · exact List.mem_append_left _ hp
  · exact List.mem_append_right _ hp

/-- a tree that calls no user function (in a table without stored functions, any tree):
    the diagnostic is at a token of the tree itself -/
theorem eval_blame_no_functions (fuel : Nat) (e : Expr S) (env : Env S) (d : Diag)
    (hnf : EnvPositions env = []) (h : (eval fuel e env).res = .diag d) :
    (d.line, d.col) ∈ e.allPositions := by
  have := eval_blame fuel e env d h
  rwa [hnf, List.append_nil] at this

end Calc
