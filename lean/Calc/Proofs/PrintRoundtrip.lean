/-
  Calc.Proofs.PrintRoundtrip — scanning the printed text of an expression tree yields the token
  kinds of the tree, in order (C18, round trip), under explicit hypotheses on the lexemes of the
  tree (`Expr.TreeOK`) and on the scanner's alphanumeric class.

  Self-contained: uses only the definition of the scanner (Calc/Model/Scanner.lean), not the
  scanner theorems of Calc/Proofs/Scan*.lean.
-/
import Calc.Proofs.PrintExpr
namespace Calc

variable {S : Type} [Kernel S]

/-! ## character classes -/

def singleChars : List Char :=
  ['\n', ';', '(', ')', '[', ']', '⌈', '⌉', '⌊', '⌋', '+', '-', '/', '*', '^', '!', '|', '%', ',',
   '=', '√', '•', '×']

omit [Kernel S] in
/-- a character of a class that contains none of the single-character tokens is none of them -/
theorem singleKind_none_of (c : Char) (P : Char → Bool) (hP : P c = true)
    (hx : ∀ x ∈ singleChars, P x = false) : singleKind (S := S) c = none := by
  have hne : ∀ x ∈ singleChars, c ≠ x := by
    intro x hx' e; subst e; rw [hx c hx'] at hP; cases hP
  unfold singleKind
  iterate 23 (rw [if_neg (hne _ (by simp [singleChars]))])

theorem not_blank_of (c : Char) (P : Char → Bool) (hP : P c = true)
    (hx : P ' ' = false ∧ P '\t' = false ∧ P '\r' = false) : isBlank c = false := by
  cases hb : isBlank c with
  | false => rfl
  | true =>
    simp only [isBlank, Bool.or_eq_true, decide_eq_true_eq] at hb
    rcases hb with (rfl | rfl) | rfl
    · rw [hx.1] at hP; cases hP
    · rw [hx.2.1] at hP; cases hP
    · rw [hx.2.2] at hP; cases hP

theorem digit_not_identStart (c : Char) (hc : isDigit c = true) : isIdentStart c = false := by
  cases hi : isIdentStart c with
  | false => rfl
  | true =>
    exfalso
    simp only [isDigit, Bool.and_eq_true, decide_eq_true_eq] at hc
    simp only [isIdentStart, Bool.or_eq_true, Bool.and_eq_true, decide_eq_true_eq] at hi
    have h0 : '0'.toNat ≤ c.toNat := by simpa [Char.le_def, UInt32.le_iff_toNat_le] using hc.1
    have h9 : c.toNat ≤ '9'.toNat := by simpa [Char.le_def, UInt32.le_iff_toNat_le] using hc.2
    have e0 : '0'.toNat = 48 := by decide
    have e9 : '9'.toNat = 57 := by decide
    rcases hi with ((((((⟨h1, _⟩ | ⟨h1, h2⟩) | h) | h) | h) | h) | h) | h
    · have : 'a'.toNat ≤ c.toNat := by simpa [Char.le_def, UInt32.le_iff_toNat_le] using h1
      have ea : 'a'.toNat = 97 := by decide
      omega
    · have : 'A'.toNat ≤ c.toNat := by simpa [Char.le_def, UInt32.le_iff_toNat_le] using h1
      have ea : 'A'.toNat = 65 := by decide
      omega
    all_goals (subst h; revert h0 h9; decide)

/-- no unit symbol begins with the letter `e` (which could continue a number as an exponent) -/
theorem unitSymbol_head_ne_e (u : Unit) : (unitSymbol u).head? ≠ some 'e' := by
  cases u <;> rename_i d <;> cases d <;> decide

/-! ## what may follow a lexeme -/

/-- the next character (if any) cannot continue a number: no digit, not `.`, not `e` -/
def stopN (h : Option Char) : Prop := ∀ c, h = some c → isDigit c = false ∧ c ≠ '.' ∧ c ≠ 'e'

/-- the next character (if any) cannot continue a word -/
def stopW (cfg : ScanCfg S) (h : Option Char) : Prop := ∀ c, h = some c → isIdentCont cfg c = false

/-- the next character (if any) ends both a word and a number -/
def stop (cfg : ScanCfg S) (h : Option Char) : Prop := stopN h ∧ stopW cfg h

def anyNext (_ : Option Char) : Prop := True

omit [Kernel S] in
theorem stop_none (cfg : ScanCfg S) : stop cfg none :=
  ⟨fun _ h => (nomatch h), fun _ h => (nomatch h)⟩

omit [Kernel S] in
theorem stop_opChar (cfg : ScanCfg S) (hop : ∀ c ∈ opChars, cfg.isAlnum c = false) (c : Char)
    (hc : c ∈ opChars) : stop cfg (some c) := by
  have := opChar_stops cfg hop c hc
  exact ⟨fun d h => by injection h with h; subst h; exact ⟨this.2.1, this.2.2.1, this.2.2.2⟩,
         fun d h => by injection h with h; subst h; exact this.1⟩

omit [Kernel S] in
theorem stop_blank (cfg : ScanCfg S) (hb : cfg.isAlnum ' ' = false) : stop cfg (some ' ') := by
  refine ⟨fun d h => ?_, fun d h => ?_⟩
  · injection h with h; subst h; decide
  · injection h with h; subst h; simp [isIdentCont, hb]

/-! ## scanning a piece of text in front of the rest -/

def consAll (ts : List (Tok S)) (r : ScanRes S) : ScanRes S := ts.foldr ScanRes.cons r

omit [Kernel S] in
theorem consAll_append (ts ts' : List (Tok S)) (r : ScanRes S) :
    consAll (ts ++ ts') r = consAll ts (consAll ts' r) := by simp [consAll]

omit [Kernel S] in
theorem consAll_ok (ts : List (Tok S)) : consAll ts (.ok []) = .ok ts := by
  induction ts with
  | nil => rfl
  | cons t ts ih => simp only [consAll, List.foldr_cons] at ih ⊢; rw [ih]; rfl

/-- `ScansAs cfg a ks ok`: wherever the text `a` stands in front of a rest `r` whose first
    character is acceptable (`ok`), and whatever the position, the scanner (with enough fuel)
    emits tokens of the kinds `ks` for `a` and continues with `r` (with enough fuel). -/
def ScansAs (cfg : ScanCfg S) (a : Str) (ks : List (Kind S)) (ok : Option Char → Prop) : Prop :=
  ∀ (r : Str), ok r.head? → ∀ (f : Nat) (p : Pos), a.length + r.length + 1 ≤ f →
    ∃ (ts : List (Tok S)) (p' : Pos) (f' : Nat),
      scanLoop cfg f (a ++ r) p = consAll ts (scanLoop cfg f' r p') ∧
      ts.map (·.kind) = ks ∧ r.length + 1 ≤ f'

theorem ScansAs.nil (cfg : ScanCfg S) (ok : Option Char → Prop) : ScansAs cfg [] [] ok :=
  fun _ _ f p hf => ⟨[], p, f, rfl, rfl, by simpa using hf⟩

theorem ScansAs.append {cfg : ScanCfg S} {a b : Str} {ks ks' : List (Kind S)}
    {oka okb : Option Char → Prop} (ha : ScansAs cfg a ks oka) (hb : ScansAs cfg b ks' okb)
    (hlink : ∀ r : Str, okb r.head? → oka (b ++ r).head?) :
    ScansAs cfg (a ++ b) (ks ++ ks') okb := by
  intro r hr f p hf
  obtain ⟨ts, p', f', h1, h2, h3⟩ := ha (b ++ r) (hlink r hr) f p (by
    simp only [List.length_append] at hf ⊢; omega)
  obtain ⟨ts', p'', f'', h1', h2', h3'⟩ := hb r hr f' p' (by
    simp only [List.length_append] at h3; omega)
  refine ⟨ts ++ ts', p'', f'', ?_, by simp [h2, h2'], h3'⟩
  rw [List.append_assoc, h1, h1', consAll_append]

theorem ScansAs.weaken {cfg : ScanCfg S} {a : Str} {ks : List (Kind S)}
    {ok ok' : Option Char → Prop} (h : ScansAs cfg a ks ok) (hw : ∀ x, ok' x → ok x) :
    ScansAs cfg a ks ok' :=
  fun r hr f p hf => h r (hw _ hr) f p hf

/-- in front of a non-empty text whose first character is `c`, the next character is `c` -/
theorem head?_cons_append (c : Char) (b r : Str) : ((c :: b) ++ r).head? = some c := rfl

/-! ### the primitive cases -/

/-- one blank: skipped -/
theorem scansAs_blank (cfg : ScanCfg S) : ScansAs cfg [' '] [] anyNext := by
  intro r _ f p hf
  obtain ⟨f0, rfl⟩ : ∃ f0, f = f0 + 1 := ⟨f - 1, by simp at hf; omega⟩
  refine ⟨[], adv cfg.tab p ' ', f0, ?_, rfl, by simp at hf; omega⟩
  simp [scanLoop, isBlank, consAll]

/-- one operator character: one token of its kind -/
theorem scansAs_opChar (cfg : ScanCfg S) (c : Char) (hc : c ∈ opChars) (k : Kind S)
    (hk : singleKind c = some k) : ScansAs cfg [c] [k] anyNext := by
  intro r _ f p hf
  obtain ⟨f0, rfl⟩ : ∃ f0, f = f0 + 1 := ⟨f - 1, by simp at hf; omega⟩
  obtain ⟨hb, hn, -⟩ := opChar_single (S := S) c hc
  refine ⟨[⟨k, [c], p.line, p.col⟩], adv cfg.tab p c, f0, ?_, rfl, by simp at hf; omega⟩
  exact scanLoop_single cfg c k hb hk hn f0 r p

/-- the kind the scanner gives a word: the table entry, else an identifier -/
def wordKindOf (cfg : ScanCfg S) (w : Str) : Kind S :=
  match cfg.keyword w with
  | some k => k
  | none => .ident w

/-- `w` is a word the scanner reads as one token of kind `k`: it begins with an identifier-start
    character, consists of identifier-continue characters, and `k` is its kind -/
def WordLex (cfg : ScanCfg S) (w : Str) (k : Kind S) : Prop :=
  (∃ c cs, w = c :: cs ∧ isIdentStart c = true) ∧ (∀ d ∈ w, isIdentCont cfg d = true) ∧
    wordKindOf cfg w = k

theorem takeWhile_dropWhile_stop {α} (p : α → Bool) (a r : List α) (h : ∀ c ∈ a, p c = true)
    (hr : ∀ c, r.head? = some c → p c = false) :
    (a ++ r).takeWhile p = a ∧ (a ++ r).dropWhile p = r := by
  induction a with
  | nil =>
    cases r with
    | nil => simp
    | cons d r' => simp [hr d rfl]
  | cons c cs ih =>
    have := ih (fun x hx => h x (by simp [hx]))
    simp [h c (by simp), this]

theorem scansAs_word (cfg : ScanCfg S) (w : Str) (k : Kind S) (hw : WordLex cfg w k) :
    ScansAs cfg w [k] (stopW cfg) := by
  obtain ⟨⟨c, cs, rfl, hc⟩, hall, hk⟩ := hw
  intro r hr f p hf
  obtain ⟨f0, rfl⟩ : ∃ f0, f = f0 + 1 := ⟨f - 1, by simp at hf; omega⟩
  have hb : isBlank c = false := not_blank_of c isIdentStart hc (by decide)
  have hs : singleKind (S := S) c = none := singleKind_none_of c isIdentStart hc (by decide)
  obtain ⟨ht, hd⟩ := takeWhile_dropWhile_stop (isIdentCont cfg) (c :: cs) r hall hr
  refine ⟨[⟨k, c :: cs, p.line, p.col⟩], advs cfg.tab p (c :: cs), f0, ?_, rfl, by
    simp at hf; omega⟩
  simp only [List.cons_append] at ht hd ⊢
  simp only [scanLoop, hb, hs, hc, ht, hd, Bool.false_eq_true, if_false, if_true, List.isEmpty_cons]
  unfold wordKindOf at hk
  cases hkw : cfg.keyword (c :: cs) <;> simp only [hkw] at hk ⊢ <;> subst hk <;> rfl

/-- `t` is the text of a number literal of value `z`: it begins with a digit, the scanner's number
    rule reads exactly `t` when what follows cannot continue a number, and `t` denotes `z` -/
structure NumLit (t : Str) (z : S) : Prop where
  head : ∃ c cs, t = c :: cs ∧ isDigit c = true
  scan : ∀ r : Str, stopN r.head? → (scanNumber (t ++ r)).text = t ∧ (scanNumber (t ++ r)).rest = r
  value : ∃ d, parseDecimal t = some d ∧ Kernel.ofDecimal d.mant d.exp = z

theorem scansAs_number (cfg : ScanCfg S) (t : Str) (z : S) (ht : NumLit t z) :
    ScansAs cfg t [.number z] stopN := by
  obtain ⟨⟨c, cs, rfl, hc⟩, hscan, d, hd, hz⟩ := ht
  intro r hr f p hf
  obtain ⟨f0, rfl⟩ : ∃ f0, f = f0 + 1 := ⟨f - 1, by simp at hf; omega⟩
  have hb : isBlank c = false := not_blank_of c isDigit hc (by decide)
  have hs : singleKind (S := S) c = none := singleKind_none_of c isDigit hc (by decide)
  have hi : isIdentStart c = false := digit_not_identStart c hc
  obtain ⟨h1, h2⟩ := hscan r hr
  refine ⟨[⟨.number z, c :: cs, p.line, p.col⟩], advs cfg.tab p (c :: cs), f0, ?_, rfl, by
    simp at hf; omega⟩
  simp only [List.cons_append] at h1 h2 ⊢
  simp only [scanLoop, hb, hs, hi, hc, h1, h2, hd, hz, Bool.false_eq_true, if_false, if_true]
  rfl

theorem scanExponent_none (r : Str) (h : ∀ c, r.head? = some c → c ≠ 'e') : scanExponent r = none := by
  unfold scanExponent
  split
  · exact absurd rfl (h 'e' rfl)
  · rfl

theorem scanFraction_none (r : Str) (h : ∀ c, r.head? = some c → c ≠ '.') : scanFraction r = none := by
  unfold scanFraction
  split
  · exact absurd rfl (h '.' rfl)
  · rfl

/-- a non-empty run of digits is a number literal: of the value `Kernel.ofDecimal n 0`, `n` its
    decimal value -/
theorem numLit_digits (t : Str) (hne : t ≠ []) (hd : ∀ c ∈ t, isDigit c = true) :
    NumLit (S := S) t (Kernel.ofDecimal (digitsVal t) 0) := by
  refine ⟨?_, ?_, ?_⟩
  · cases t with
    | nil => exact absurd rfl hne
    | cons c cs => exact ⟨c, cs, rfl, hd c (by simp)⟩
  · intro r hr
    obtain ⟨h1, h2⟩ := takeWhile_dropWhile_stop isDigit t r hd (fun c hc => (hr c hc).1)
    unfold scanNumber
    simp only [h1, h2]
    rw [scanExponent_none r (fun c hc => (hr c hc).2.2), scanFraction_none r (fun c hc => (hr c hc).2.1)]
    exact ⟨rfl, rfl⟩
  · obtain ⟨h1, h2⟩ := takeWhile_dropWhile_stop isDigit t [] hd (fun c hc => by cases hc)
    rw [List.append_nil] at h1 h2
    refine ⟨⟨digitsVal t, 0⟩, ?_, rfl⟩
    unfold parseDecimal
    simp only [h1, h2]
    have : t.isEmpty = false := by cases t with
      | nil => exact absurd rfl hne
      | cons _ _ => rfl
    simp [this]

/-! ## the token kinds of a tree -/

def openKind : GKind → Kind S
  | .grouping => .lparen | .absolute => .pipe | .ceil => .lceil | .floor => .lfloor
def closeKind : GKind → Kind S
  | .grouping => .rparen | .absolute => .pipe | .ceil => .rceil | .floor => .rfloor

mutual
/-- the kinds of the tokens of a tree, in source order (a measurement literal is a number token
    followed by a unit token; matrix literals are excluded by `Expr.TreeOK`) -/
def Expr.kinds : Expr S → List (Kind S)
  | .as_ e _ u => e.kinds ++ [.as_, .unit u]
  | .binary l op r => l.kinds ++ op.kind :: r.kinds
  | .unary op x => if op.tag = .bang then x.kinds ++ [op.kind] else op.kind :: x.kinds
  | .grouping _ k e => openKind k :: e.kinds ++ [closeKind k]
  | .number z => [.number z]
  | .measurement z u => [.number z, .unit u]
  | .matrix _ _ => []
  | .ident name => [name.kind]
  | .call callee _ args => callee.kinds ++ .lparen :: joinL [.comma] (Expr.argKinds args) ++ [.rparen]
def Expr.argKinds : List (Expr S) → List (List (Kind S))
  | [] => []
  | e :: es => e.kinds :: Expr.argKinds es
end

/-- an operator token as the scanner makes it from one operator character -/
def OpTok (t : Tok S) : Prop := ∃ c, t.lexeme = [c] ∧ c ∈ opChars ∧ singleKind c = some t.kind

mutual
/-- the hypotheses of the round trip on the lexemes of a tree -/
def Expr.TreeOK (cfg : ScanCfg S) : Expr S → Prop
  | .as_ e _ u => e.TreeOK cfg ∧ WordLex cfg "as".toList .as_ ∧ WordLex cfg (unitSymbol u) (.unit u)
  | .binary l op r =>
    (if isWordOp op.tag then OpTok op ∨ WordLex cfg op.lexeme op.kind else OpTok op) ∧
      l.TreeOK cfg ∧ r.TreeOK cfg
  | .unary op x => OpTok op ∧ x.TreeOK cfg
  | .grouping _ _ e => e.TreeOK cfg
  | .number z => NumLit (complexToString z) z
  | .measurement z u =>
    (!Kernel.reIsZero z && !Kernel.imIsZero z) = false ∧ NumLit (complexToString z) z ∧
      WordLex cfg (unitSymbol u) (.unit u)
  | .matrix _ _ => False
  | .ident name => WordLex cfg name.lexeme name.kind
  | .call callee _ args => callee.TreeOK cfg ∧ Expr.ArgsOK cfg args
def Expr.ArgsOK (cfg : ScanCfg S) : List (Expr S) → Prop
  | [] => True
  | e :: es => e.TreeOK cfg ∧ Expr.ArgsOK cfg es
end

/-- the texts scan, one by one, to the kinds, each in front of a character that ends words and
    numbers -/
def AllScan (cfg : ScanCfg S) : List Str → List (List (Kind S)) → Prop
  | [], [] => True
  | t :: ts, k :: ks => ScansAs cfg t k (stop cfg) ∧ AllScan cfg ts ks
  | _, _ => False

section
variable (cfg : ScanCfg S)

theorem scansAs_opTok (t : Tok S) (ht : OpTok t) : ScansAs cfg t.lexeme [t.kind] anyNext := by
  obtain ⟨c, hl, hc, hk⟩ := ht
  rw [hl]; exact scansAs_opChar cfg c hc _ hk

omit [Kernel S] in
theorem opTok_head (hop : ∀ c ∈ opChars, cfg.isAlnum c = false) (t : Tok S) (ht : OpTok t) (r : Str) : stop cfg (t.lexeme ++ r).head? := by
  obtain ⟨c, hl, hc, -⟩ := ht
  rw [hl]; exact stop_opChar cfg hop c hc

theorem scansAs_comma_blank : ScansAs cfg ", ".toList [Kind.comma] anyNext := by
  have h1 := scansAs_opChar cfg ',' (by decide) (Kind.comma (S := S)) (by simp [singleKind])
  have h2 := scansAs_blank cfg
  have := ScansAs.append h1 h2 (fun _ _ => trivial)
  simpa using this

theorem allScan_join (hop : ∀ c ∈ opChars, cfg.isAlnum c = false) (ts : List Str) (ks : List (List (Kind S))) (h : AllScan cfg ts ks) :
    ScansAs cfg (joinWith ", ".toList ts) (joinL [Kind.comma] ks) (stop cfg) := by
  induction ts generalizing ks with
  | nil =>
    cases ks with
    | nil => exact ScansAs.nil cfg _
    | cons _ _ => exact absurd h (by simp [AllScan])
  | cons t ts ih =>
    cases ks with
    | nil => exact absurd h (by simp [AllScan])
    | cons k ks =>
      simp only [AllScan] at h
      cases ts with
      | nil =>
        cases ks with
        | nil => simpa [joinWith, joinL] using h.1
        | cons _ _ => exact absurd h.2 (by simp [AllScan])
      | cons t' ts' =>
        cases ks with
        | nil => exact absurd h.2 (by simp [AllScan])
        | cons k' ks' =>
          have hrest := ih (k' :: ks') h.2
          simp only [joinWith, joinL, List.append_assoc]
          refine ScansAs.append h.1
            (ScansAs.append (scansAs_comma_blank cfg) hrest (fun _ _ => trivial)) ?_
          intro r _
          exact stop_opChar cfg hop ',' (by decide)

omit [Kernel S] in
theorem openKind_single (k : GKind) :
    ∃ c, openBr k = [c] ∧ c ∈ opChars ∧ singleKind (S := S) c = some (openKind k) := by
  cases k
  · exact ⟨'(', rfl, by decide, by simp [singleKind, openKind]⟩
  · exact ⟨'|', rfl, by decide, by simp [singleKind, openKind]⟩
  · exact ⟨'⌈', rfl, by decide, by simp [singleKind, openKind]⟩
  · exact ⟨'⌊', rfl, by decide, by simp [singleKind, openKind]⟩

omit [Kernel S] in
theorem closeKind_single (k : GKind) :
    ∃ c, closeBr k = [c] ∧ c ∈ opChars ∧ singleKind (S := S) c = some (closeKind k) := by
  cases k
  · exact ⟨')', rfl, by decide, by simp [singleKind, closeKind]⟩
  · exact ⟨'|', rfl, by decide, by simp [singleKind, closeKind]⟩
  · exact ⟨'⌉', rfl, by decide, by simp [singleKind, closeKind]⟩
  · exact ⟨'⌋', rfl, by decide, by simp [singleKind, closeKind]⟩

theorem scansAs_as_unit (hblank : cfg.isAlnum ' ' = false) (u : Unit) (h1 : WordLex cfg "as".toList .as_)
    (h2 : WordLex cfg (unitSymbol u) (.unit u)) :
    ScansAs cfg (" as ".toList ++ unitSymbol u) [Kind.as_, Kind.unit u] (stop cfg) := by
  have e : " as ".toList = [' '] ++ ("as".toList ++ [' ']) := by decide
  rw [e, List.append_assoc, List.append_assoc]
  have hu := (scansAs_word cfg _ _ h2).weaken (fun x (hx : stop cfg x) => hx.2)
  have hb := scansAs_blank cfg
  have ha := scansAs_word cfg _ _ h1
  have h3 : ScansAs cfg ([' '] ++ unitSymbol u) ([] ++ [Kind.unit u]) (stop cfg) :=
    ScansAs.append hb hu (fun _ _ => trivial)
  have h4 : ScansAs cfg ("as".toList ++ ([' '] ++ unitSymbol u)) ([Kind.as_] ++ ([] ++ [Kind.unit u]))
      (stop cfg) :=
    ScansAs.append ha h3 (fun r _ => (stop_blank cfg hblank).2)
  exact ScansAs.append hb h4 (fun _ _ => trivial)

mutual
theorem scansAs_showExpr (hop : ∀ c ∈ opChars, cfg.isAlnum c = false) (hblank : cfg.isAlnum ' ' = false) : ∀ e : Expr S, e.TreeOK cfg → ScansAs cfg (showExpr e) e.kinds (stop cfg)
  | .as_ e _ u, h => by
    simp only [Expr.TreeOK] at h
    simp only [showExpr, Expr.kinds]
    rw [List.append_assoc]
    refine ScansAs.append (scansAs_showExpr hop hblank e h.1) (scansAs_as_unit cfg hblank u h.2.1 h.2.2) ?_
    intro r _
    exact stop_blank cfg hblank
  | .binary l op r, h => by
    simp only [Expr.TreeOK] at h
    have hl := scansAs_showExpr hop hblank l h.2.1
    have hr := scansAs_showExpr hop hblank r h.2.2
    by_cases hw : isWordOp op.tag = true
    · have hw' : (decide (op.tag = Tag.dot) || decide (op.tag = Tag.cross)) = true := hw
      simp only [hw, if_true] at h
      simp only [showExpr, Expr.kinds, hw', if_true]
      have hop' : ScansAs cfg op.lexeme [op.kind] (stop cfg) := by
        rcases h.1 with h1 | h1
        · exact (scansAs_opTok cfg op h1).weaken (fun _ _ => trivial)
        · exact (scansAs_word cfg _ _ h1).weaken (fun x (hx : stop cfg x) => hx.2)
      have hb := scansAs_blank cfg
      have h3 : ScansAs cfg ([' '] ++ showExpr r) ([] ++ r.kinds) (stop cfg) :=
        ScansAs.append hb hr (fun _ _ => trivial)
      have h4 : ScansAs cfg (op.lexeme ++ ([' '] ++ showExpr r)) ([op.kind] ++ ([] ++ r.kinds))
          (stop cfg) := ScansAs.append hop' h3 (fun _ _ => stop_blank cfg hblank)
      have h5 : ScansAs cfg ([' '] ++ (op.lexeme ++ ([' '] ++ showExpr r)))
          ([] ++ ([op.kind] ++ ([] ++ r.kinds))) (stop cfg) :=
        ScansAs.append hb h4 (fun _ _ => trivial)
      have h6 := ScansAs.append hl h5 (fun _ _ => stop_blank cfg hblank)
      simpa using h6
    · have hw' : ¬ (decide (op.tag = Tag.dot) || decide (op.tag = Tag.cross)) = true := hw
      simp only [hw, Bool.false_eq_true, if_false] at h
      simp only [showExpr, Expr.kinds, hw']
      have hop' := scansAs_opTok cfg op h.1
      have h3 : ScansAs cfg (op.lexeme ++ showExpr r) ([op.kind] ++ r.kinds) (stop cfg) :=
        ScansAs.append hop' hr (fun _ _ => trivial)
      have h4 := ScansAs.append hl h3 (fun r' _ => by
        rw [List.append_assoc]; exact opTok_head cfg hop op h.1 _)
      simpa using h4
  | .unary op x, h => by
    simp only [Expr.TreeOK] at h
    have hx := scansAs_showExpr hop hblank x h.2
    have hop' := scansAs_opTok cfg op h.1
    simp only [showExpr, Expr.kinds]
    split
    · exact ScansAs.append hx (hop'.weaken (fun _ _ => trivial))
        (fun r' _ => opTok_head cfg hop op h.1 _)
    · exact ScansAs.append hop' hx (fun _ _ => trivial)
  | .grouping _ k e, h => by
    simp only [Expr.TreeOK] at h
    have he := scansAs_showExpr hop hblank e h
    obtain ⟨co, ho, hco, hko⟩ := openKind_single (S := S) k
    obtain ⟨cc, hc, hcc, hkc⟩ := closeKind_single (S := S) k
    have hopen := scansAs_opChar cfg co hco _ hko
    have hclose := (scansAs_opChar cfg cc hcc _ hkc).weaken (ok' := stop cfg) (fun _ _ => trivial)
    have h1 : ScansAs cfg (showExpr e ++ [cc]) (e.kinds ++ [closeKind k]) (stop cfg) :=
      ScansAs.append he hclose (fun _ _ => stop_opChar cfg hop cc hcc)
    have h2 := ScansAs.append hopen h1 (fun _ _ => trivial)
    have e1 : showExpr (.grouping ‹Tok S› k e) = [co] ++ (showExpr e ++ [cc]) := by
      rw [← ho, ← hc]; cases k <;> simp [showExpr, openBr, closeBr]
    rw [e1]
    simpa [Expr.kinds] using h2
  | .number z, h => by
    simp only [Expr.TreeOK] at h
    simp only [showExpr, Expr.kinds]
    exact (scansAs_number cfg _ z h).weaken (fun x (hx : stop cfg x) => hx.1)
  | .measurement z u, h => by
    simp only [Expr.TreeOK] at h
    simp only [showExpr, Expr.kinds, showMeasurement, h.1, Bool.false_eq_true, if_false]
    have hn := scansAs_number cfg _ z h.2.1
    have hu := (scansAs_word cfg _ _ h.2.2).weaken (fun x (hx : stop cfg x) => hx.2)
    refine ScansAs.append hn hu ?_
    intro r _
    obtain ⟨⟨c, cs, hcs, hc⟩, -, -⟩ := h.2.2
    rw [hcs]
    intro d hd
    injection hd with hd
    subst hd
    refine ⟨?_, ?_, ?_⟩
    · cases hdg : isDigit c with
      | false => rfl
      | true => rw [digit_not_identStart c hdg] at hc; cases hc
    · rintro rfl; exact absurd hc (by decide)
    · rintro rfl
      exact unitSymbol_head_ne_e u (by rw [hcs]; rfl)
  | .matrix _ _, h => by simp only [Expr.TreeOK] at h
  | .ident name, h => by
    simp only [Expr.TreeOK] at h
    simp only [showExpr, Expr.kinds]
    exact (scansAs_word cfg _ _ h).weaken (fun x (hx : stop cfg x) => hx.2)
  | .call callee _ args, h => by
    simp only [Expr.TreeOK] at h
    have hc := scansAs_showExpr hop hblank callee h.1
    have ha := allScan_join cfg hop _ _ (allScan_showArgs hop hblank args h.2)
    have hl := scansAs_opChar cfg '(' (by decide) (Kind.lparen (S := S)) (by simp [singleKind])
    have hr := (scansAs_opChar cfg ')' (by decide) (Kind.rparen (S := S)) (by simp [singleKind])).weaken
      (ok' := stop cfg) (fun _ _ => trivial)
    have h1 := ScansAs.append ha hr (fun _ _ => stop_opChar cfg hop ')' (by decide))
    have h2 := ScansAs.append hl h1 (fun _ _ => trivial)
    have h3 := ScansAs.append hc h2 (fun _ _ => stop_opChar cfg hop '(' (by decide))
    simpa [showExpr, Expr.kinds] using h3
theorem allScan_showArgs (hop : ∀ c ∈ opChars, cfg.isAlnum c = false) (hblank : cfg.isAlnum ' ' = false) : ∀ es : List (Expr S), Expr.ArgsOK cfg es →
    AllScan cfg (showArgs es) (Expr.argKinds es)
  | [], _ => by simp [showArgs, Expr.argKinds, AllScan]
  | e :: es, h => by
    simp only [Expr.ArgsOK] at h
    simp only [showArgs, Expr.argKinds, AllScan]
    exact ⟨scansAs_showExpr hop hblank e h.1, allScan_showArgs hop hblank es h.2⟩
end

/-- **the round trip**: scanning the printed text of a tree satisfying `Expr.TreeOK` succeeds and
    yields tokens whose kinds are the kinds of the tree's tokens, in order -/
theorem scan_showExpr (hop : ∀ c ∈ opChars, cfg.isAlnum c = false) (hblank : cfg.isAlnum ' ' = false) (e : Expr S) (h : e.TreeOK cfg) :
    ∃ toks, scan cfg (showExpr e) = .ok toks ∧ toks.map (·.kind) = e.kinds := by
  obtain ⟨ts, p', f', h1, h2, -⟩ :=
    scansAs_showExpr cfg hop hblank e h [] (stop_none cfg) ((showExpr e).length + 1) ⟨1, 1⟩ (by simp)
  refine ⟨ts, ?_, h2⟩
  unfold scan
  rw [List.append_nil] at h1
  rw [h1]
  have : scanLoop cfg f' [] p' = .ok [] := by cases f' <;> rfl
  rw [this, consAll_ok]

end

end Calc
