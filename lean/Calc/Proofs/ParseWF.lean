/-
  Calc.Proofs.ParseWF — well-formedness of the trees the parser returns, derived from the
  grammar (`Derives`) and soundness.  Core Lean only.
-/
import Calc.Proofs.ParseSound
namespace Calc
variable {S : Type}

/-- the tags a `binary` node may carry -/
def isBinaryOp : Tag → Bool
  | .plus | .minus | .star | .slash | .percent | .caret | .dot | .cross => true
  | _ => false

mutual
/-- well-formed trees: operator nodes carry operator tokens of the right arity, `as` nodes the
    `as` token, groupings their opening token, calls the `(`, identifiers an identifier token;
    a matrix literal carries its closing `]`, has at least one row, every row at least one
    entry, and all rows the same length -/
def Expr.WF : Expr S → Prop
  | .as_ e t _ => t.tag = .as_ ∧ e.WF
  | .binary l op r => isBinaryOp op.tag = true ∧ l.WF ∧ r.WF
  | .unary op x => (op.tag = .minus ∨ op.tag = .sqrt ∨ op.tag = .bang) ∧ x.WF
  | .grouping o k e => o.tag = groupOpen k ∧ e.WF
  | .number _ => True
  | .measurement _ _ => True
  | .matrix br rows => br.tag = .rbracket ∧ rows ≠ [] ∧ Uniform rows ∧ Expr.WFRows rows
  | .ident name => ∃ n, name.kind = .ident n
  | .call callee lp args => lp.tag = .lparen ∧ callee.WF ∧ Expr.WFArgs args
def Expr.WFArgs : List (Expr S) → Prop
  | [] => True
  | e :: es => e.WF ∧ Expr.WFArgs es
def Expr.WFRows : List (List (Expr S)) → Prop
  | [] => True
  | r :: rs => r ≠ [] ∧ Expr.WFArgs r ∧ Expr.WFRows rs
end

def Stmt.WF : Stmt S → Prop
  | .expr e => e.WF
  | .assign name e => (∃ n, name.kind = .ident n) ∧ e.WF
  | .define name _ body => (∃ n, name.kind = .ident n) ∧ body.WF
  | .deleteVar name => ∃ n, name.kind = .ident n
  | .deleteSig name _ => ∃ n, name.kind = .ident n
  | .clear => True

theorem leftOp_isBinaryOp {l : Level} {tg : Tag} (h : l.leftOp tg = true) : isBinaryOp tg = true := by
  cases l <;> simp [Level.leftOp] at h
  · rcases h with rfl | rfl <;> rfl
  · rcases h with (rfl | rfl) | rfl <;> rfl
  · subst h; rfl
  · subst h; rfl

mutual
theorem Derives.wf : ∀ {l} {c : List (Tok S)} {e}, Derives l c e → e.WF
  | _, _, _, .incl _ h => h.wf
  | _, _, _, .as_ h ha _ => by simp only [Expr.WF]; exact ⟨ha, h.wf⟩
  | _, _, _, .binl _ hop h1 h2 => by
    simp only [Expr.WF]; exact ⟨leftOp_isBinaryOp hop, h1.wf, h2.wf⟩
  | _, _, _, .pow hop h1 h2 => by
    simp only [Expr.WF]; exact ⟨by rw [hop]; rfl, h1.wf, h2.wf⟩
  | _, _, _, .pre hop h => by
    simp only [Expr.WF]; exact ⟨by rcases hop with h | h <;> simp [h], h.wf⟩
  | _, _, _, .post hop h => by simp only [Expr.WF]; exact ⟨by simp [hop], h.wf⟩
  | _, _, _, .call0 hl _ h => by simp only [Expr.WF]; exact ⟨hl, h.wf, trivial⟩
  | _, _, _, .call hl _ h ha => by simp only [Expr.WF]; exact ⟨hl, h.wf, ha.wf.2⟩
  | _, _, _, .number _ => by simp only [Expr.WF]
  | _, _, _, .measurement _ _ => by simp only [Expr.WF]
  | _, _, _, .ident hk => by simp only [Expr.WF]; exact ⟨_, hk⟩
  | _, _, _, .group ho _ h => by simp only [Expr.WF]; exact ⟨ho, h.wf⟩
  | _, _, _, .matrix _ hs hr hu => by simp only [Expr.WF]; exact ⟨hs, hr.wf.1, hu, hr.wf.2⟩
theorem DerivesArgs.wf : ∀ {c : List (Tok S)} {es}, DerivesArgs c es → es ≠ [] ∧ Expr.WFArgs es
  | _, _, .one h => by simp only [Expr.WFArgs]; exact ⟨by simp, h.wf, trivial⟩
  | _, _, .cons h _ hs => by simp only [Expr.WFArgs]; exact ⟨by simp, h.wf, hs.wf.2⟩
theorem DerivesRows.wf : ∀ {c : List (Tok S)} {rows}, DerivesRows c rows →
    rows ≠ [] ∧ Expr.WFRows rows
  | _, _, .one h => by simp only [Expr.WFRows]; exact ⟨by simp, h.wf.1, h.wf.2, trivial⟩
  | _, _, .cons h _ hs => by simp only [Expr.WFRows]; exact ⟨by simp, h.wf.1, h.wf.2, hs.wf.2⟩
end

mutual
theorem Derives.ne_nil : ∀ {l} {c : List (Tok S)} {e}, Derives l c e → c ≠ []
  | _, _, _, .incl _ h => h.ne_nil
  | _, _, _, .as_ .. => by simp
  | _, _, _, .binl .. => by simp
  | _, _, _, .pow .. => by simp
  | _, _, _, .pre .. => by simp
  | _, _, _, .post .. => by simp
  | _, _, _, .call0 .. => by simp
  | _, _, _, .call .. => by simp
  | _, _, _, .number .. => by simp
  | _, _, _, .measurement .. => by simp
  | _, _, _, .ident .. => by simp
  | _, _, _, .group .. => by simp
  | _, _, _, .matrix .. => by simp
end

theorem DerivesStmt.wf {c : List (Tok S)} {s} (h : DerivesStmt c s) : s.WF := by
  cases h with
  | clear => trivial
  | deleteVar _ hn => exact ⟨_, hn⟩
  | deleteSig _ hc _ =>
    have := hc.wf
    simp only [Expr.WF] at this
    exact this.2.1
  | assign hn _ he => exact ⟨⟨_, hn⟩, he.wf⟩
  | define hc _ _ hb =>
    have := hc.wf
    simp only [Expr.WF] at this
    exact ⟨this.2.1, hb.wf⟩
  | expr he => exact he.wf

theorem pExpression_wf {f} {ts : List (Tok S)} {e r} (h : pExpression f ts = .ok e r) : e.WF :=
  let ⟨_, _, d⟩ := (soundAt f).expression _ _ _ h; d.wf

theorem pStatement_wf {f} {ts : List (Tok S)} {s r} (h : pStatement f ts = .ok s r) : s.WF :=
  let ⟨_, _, _, _, d⟩ := pStatement_sound h; d.wf

theorem parseLoop_wf (inner : Nat) : ∀ outer (ts : List (Tok S)) ss,
    parseLoop inner outer ts = .ok ss → ∀ s ∈ ss, s.WF := by
  intro outer
  induction outer with
  | zero =>
    intro ts ss h
    cases ts <;> simp [parseLoop] at h
    subst h; simp
  | succ n ih =>
    intro ts ss h
    cases ts with
    | nil => simp [parseLoop] at h; subst h; simp
    | cons t r =>
      simp only [parseLoop] at h
      split at h
      · exact ih _ _ h
      · split at h
        · rename_i s rest hs
          split at h
          · rename_i ss' hl
            cases h
            intro s' hs'
            simp at hs'
            rcases hs' with rfl | hs'
            · exact pStatement_wf hs
            · exact ih _ _ hl _ hs'
          · rename_i hne
            exfalso
            cases hp : parseLoop inner n rest <;> simp [hp] at h
            exact hne _ hp
        · cases h
        · cases h

theorem parse_wf {ts : List (Tok S)} {ss} (h : parse ts = .ok ss) : ∀ s ∈ ss, s.WF :=
  parseLoop_wf _ _ _ _ h

end Calc
