/-
  Calc.Proofs.FrontLemmas — facts about the front end (used by C16): `ensureTrailingNewline`,
  the prompt loop `repl` and its exit line.  Core Lean only.
-/
import Calc.Model.Front
namespace Calc

/-! ### `ensureTrailingNewline` -/

theorem ensureTrailingNewline_of_ends {t : Str} (h : t.getLast? = some '\n') :
    ensureTrailingNewline t = t := if_pos h

theorem ensureTrailingNewline_of_not_ends {t : Str} (h : t.getLast? ≠ some '\n') :
    ensureTrailingNewline t = t ++ ['\n'] := if_neg h

theorem getLast?_append_newline (t : Str) : (t ++ ['\n']).getLast? = some '\n' := by
  simp

theorem ensureTrailingNewline_append_newline (t : Str) :
    ensureTrailingNewline (t ++ ['\n']) = t ++ ['\n'] :=
  ensureTrailingNewline_of_ends (getLast?_append_newline t)

theorem ensureTrailingNewline_ends (t : Str) :
    (ensureTrailingNewline t).getLast? = some '\n' := by
  by_cases h : t.getLast? = some '\n'
  · rw [ensureTrailingNewline_of_ends h]; exact h
  · rw [ensureTrailingNewline_of_not_ends h]; exact getLast?_append_newline t

theorem ensureTrailingNewline_idem (t : Str) :
    ensureTrailingNewline (ensureTrailingNewline t) = ensureTrailingNewline t :=
  ensureTrailingNewline_of_ends (ensureTrailingNewline_ends t)

/-- a text without its final newline is normalised to the text with it -/
theorem ensureTrailingNewline_missing {t : Str} (h : t.getLast? ≠ some '\n') :
    ensureTrailingNewline t = ensureTrailingNewline (t ++ ['\n']) := by
  rw [ensureTrailingNewline_of_not_ends h, ensureTrailingNewline_append_newline]

/-! ### the prompt loop -/

section Repl
variable {S : Type} [Add S] [Sub S] [Mul S] [Div S] [Zero S] [One S] [Kernel S]

/-- the prompt loop without the exit test: every line is processed, each from the table the
    previous one left -/
def replRun (cfg : ScanCfg S) (fuel : Nat) : Env S → List Str → StepOut S
  | env, [] => ⟨env, []⟩
  | env, l :: ls =>
    let o1 := processText cfg fuel env (ensureTrailingNewline l)
    let o2 := replRun cfg fuel o1.env ls
    ⟨o2.env, o1.out ++ o2.out⟩

theorem repl_nil (cfg : ScanCfg S) (fuel : Nat) (env : Env S) :
    repl cfg fuel env [] = ⟨env, []⟩ := rfl

theorem repl_cons_exit (cfg : ScanCfg S) (fuel : Nat) (env : Env S) (l : Str) (ls : List Str)
    (h : isExit l = true) : repl cfg fuel env (l :: ls) = ⟨env, []⟩ := by
  simp only [repl, h, if_true]

theorem repl_cons_not_exit (cfg : ScanCfg S) (fuel : Nat) (env : Env S) (l : Str)
    (ls : List Str) (h : isExit l = false) :
    repl cfg fuel env (l :: ls) =
      ⟨(repl cfg fuel (processText cfg fuel env (ensureTrailingNewline l)).env ls).env,
       (processText cfg fuel env (ensureTrailingNewline l)).out ++
         (repl cfg fuel (processText cfg fuel env (ensureTrailingNewline l)).env ls).out⟩ := by
  simp only [repl, h, Bool.false_eq_true, if_false]

theorem repl_eq_replRun (cfg : ScanCfg S) (fuel : Nat) (ls : List Str)
    (h : ∀ l ∈ ls, isExit l = false) :
    ∀ env : Env S, repl cfg fuel env ls = replRun cfg fuel env ls := by
  induction ls with
  | nil => intro env; rfl
  | cons l ls ih =>
    intro env
    rw [repl_cons_not_exit cfg fuel env l ls (h l List.mem_cons_self),
      ih (fun x hx => h x (List.mem_cons_of_mem _ hx))]
    rfl

theorem repl_stop_at_exit (cfg : ScanCfg S) (fuel : Nat) (pre : List Str) (x : Str)
    (post : List Str) (hx : isExit x = true) (h : ∀ l ∈ pre, isExit l = false) :
    ∀ env : Env S, repl cfg fuel env (pre ++ x :: post) = replRun cfg fuel env pre := by
  induction pre with
  | nil => intro env; exact repl_cons_exit cfg fuel env x post hx
  | cons l ls ih =>
    intro env
    rw [List.cons_append, repl_cons_not_exit cfg fuel env l _ (h l List.mem_cons_self),
      ih (fun y hy => h y (List.mem_cons_of_mem _ hy))]
    rfl

end Repl

end Calc
