/-
  Calc.Proofs.NoPanicOps — the value-level operations on well-formed values never reach a panic
  site, never run out of fuel, and return well-formed values (C01).  Core Lean only.
-/
import Calc.Proofs.WfDefs
import Calc.Proofs.NoPanicMat
import Calc.Proofs.EnvLemmas
namespace Calc
variable {S : Type} [Add S] [Sub S] [Mul S] [Div S] [Zero S] [One S] [Kernel S]
set_option linter.unusedSectionVars false

/-- `r.bind (fun x => .ok (g x))` is safe when `r` is `.ok x` with `g x` good -/
theorem Res.safe_bind_ok {α β} {Q : β → Prop} {r : Res α} {g : α → β} {x : α}
    (h : r = .ok x) (hq : Q (g x)) : (r.bind fun y => .ok (g y)).Safe Q := by
  subst h; exact hq

/-- closes a `Res.Safe Value.WF _` goal at a leaf of an operator that involves no matrix -/
macro "safe_leaf" : tactic => `(tactic| first
    | exact trivial
    | (simp only [diagAt, Res.Safe, Value.WF]; done))

theorem binop_safe (op : Tok S) (a b : Value S) (hop : binTag op.tag = true)
    (ha : a.WF) (hb : b.WF) : (binop op a b).Safe Value.WF := by
  unfold binop
  simp only
  split
  -- plus
  · split
    · safe_leaf
    · split <;> safe_leaf
    · next m n =>
      split
      · next h =>
        obtain ⟨r, hr, hw, -, -⟩ := Mat.NoPanic.add_ok ha hb h.1 h.2
        exact Res.safe_bind_ok hr hw
      · safe_leaf
    · safe_leaf
  -- minus
  · split
    · safe_leaf
    · split <;> safe_leaf
    · next m n =>
      split
      · next h =>
        obtain ⟨r, hr, hw, -, -⟩ := Mat.NoPanic.sub_ok ha hb h.1 h.2
        exact Res.safe_bind_ok hr hw
      · safe_leaf
    · safe_leaf
  -- star
  · split
    · safe_leaf
    · next k m => exact (Mat.NoPanic.scale_shape k hb).1
    · next m k => exact (Mat.NoPanic.scale_shape k ha).1
    · next m n =>
      split
      · next h =>
        obtain ⟨r, hr, hw, -, -⟩ := Mat.NoPanic.mul_ok ha hb h
        exact Res.safe_bind_ok hr hw
      · safe_leaf
    · safe_leaf
    · safe_leaf
    · safe_leaf
  -- slash
  · split
    · split <;> safe_leaf
    · next m k =>
      split
      · safe_leaf
      · exact (Mat.NoPanic.divScalar_shape k ha).1
    · split <;> safe_leaf
    · safe_leaf
  -- caret
  · split <;> safe_leaf
  -- percent
  · split
    · split <;> safe_leaf
    · safe_leaf
  -- dot
  · split
    · next m n =>
      split
      · next h =>
        obtain ⟨z, hz⟩ := Mat.NoPanic.rowDot_ok h.1 h.2.1 h.2.2
        exact Res.safe_bind_ok hz trivial
      · split
        · next h =>
          obtain ⟨z, hz⟩ := Mat.NoPanic.colDot_ok h.1 h.2.1 h.2.2
          exact Res.safe_bind_ok hz trivial
        · safe_leaf
    · safe_leaf
  -- cross
  · split
    · next m n =>
      split
      · next h =>
        obtain ⟨r, hr, hw, -, -⟩ := Mat.NoPanic.rowCross_ok h.1 h.2.1 h.2.2.1 h.2.2.2
        exact Res.safe_bind_ok hr hw
      · split
        · next h =>
          obtain ⟨r, hr, hw, -, -⟩ := Mat.NoPanic.colCross_ok h.1 h.2.1 h.2.2.1 h.2.2.2
          exact Res.safe_bind_ok hr hw
        · safe_leaf
    · safe_leaf
  -- no other tag
  · next h1 h2 h3 h4 h5 h6 h7 h8 =>
    exfalso
    generalize op.tag = t at *
    cases t <;> simp_all [binTag]

theorem unop_safe (op : Tok S) (v : Value S) (hop : unTag op.tag = true) (hv : v.WF) :
    (unop op v).Safe Value.WF := by
  unfold unop
  simp only
  split
  · split
    · safe_leaf
    · safe_leaf
    · next m => exact (Mat.NoPanic.neg_shape hv).1
    · safe_leaf
  · split <;> safe_leaf
  · split
    · split <;> safe_leaf
    · safe_leaf
  · next h1 h2 h3 =>
    exfalso
    generalize op.tag = t at *
    cases t <;> simp_all [unTag]

theorem groupop_safe (paren : Tok S) (k : GKind) (v : Value S) (hv : v.WF) :
    (groupop paren k v).Safe Value.WF := by
  unfold groupop
  simp only
  split
  · exact hv
  · split
    · safe_leaf
    · split
      · safe_leaf
      · split <;> safe_leaf
    · safe_leaf
  · split
    · split <;> safe_leaf
    · safe_leaf
  · split
    · split <;> safe_leaf
    · safe_leaf

theorem asop_safe (tok : Tok S) (u : Unit) (v : Value S) : (asop tok u v).Safe Value.WF := by
  unfold asop
  split
  · split <;> safe_leaf
  · safe_leaf
  · safe_leaf

theorem lookupIdent_safe (name : Tok S) (env : Env S) (henv : EnvWF env) :
    (lookupIdent name env).Safe Value.WF := by
  unfold lookupIdent
  split
  · next v hg => exact henv _ (Env.mem_of_get hg)
  · safe_leaf

end Calc
