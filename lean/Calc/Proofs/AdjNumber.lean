/-
  Calc.Proofs.AdjNumber — when the number rule of the scanner reads exactly a given literal
  (C17, removing blanks; numbers).

  `scanNumber` looks ahead: after the digits it tries `e`, `e-` followed by a digit, and `.`
  followed by a digit.  The lemmas here say
    * what in the text after a literal `t` makes `scanNumber (t ++ R)` stop after `t`
      (`scanNumber_*_stop`), and conversely what a stop after `t` says about `R`
      (`scanExponent_none_of_text`, `scanFraction_none_of_text`);
    * that these conditions survive the removal of a run `b` from `R = x ++ b ++ y` provided the
      characters around the gap cannot complete an exponent or a fraction
      (`stops_remove`, `scanExponent_remove`, `scanFraction_remove`);
    * hence `scanNumber_remove`: a literal that ends before `x ++ b ++ y` ends before `x ++ y`.
  Core Lean only.
-/
import Calc.Proofs.ScanBlank
namespace Calc
open List

/-! ### stop conditions -/

theorem IsDigits.isEmpty_false {E : List Char} (h : IsDigits E) : E.isEmpty = false := by
  obtain ⟨c, t, rfl, _⟩ := h.head; rfl

theorem ExpText.stops {e : List Char} (he : ExpText e) (R : List Char) :
    Stops isDigit (e ++ R) := by
  obtain ⟨e1, rfl⟩ := he.head
  exact stops_cons (by decide)

/-- an exponent text followed by a non-digit is read exactly -/
theorem scanExponent_exp_stop {e R : List Char} (he : ExpText e) (hR : Stops isDigit R) :
    scanExponent (e ++ R) = some (e, R) := by
  cases he with
  | @pos E hE =>
    have hnm : ∀ t, E ++ R ≠ '-' :: t := by
      obtain ⟨c, t', rfl, hc⟩ := hE.head
      intro t e; cases e; exact absurd hc (by decide)
    rw [cons_append, scanExponent_plain hnm, takeWhile_append_stop hE.all hR,
      dropWhile_append_stop hE.all hR, hE.isEmpty_false]
    rfl
  | @neg E hE =>
    rw [cons_append, cons_append, scanExponent_minus, takeWhile_append_stop hE.all hR,
      dropWhile_append_stop hE.all hR, hE.isEmpty_false]
    rfl

/-- a fraction followed by a non-digit is read exactly -/
theorem scanFraction_frac_stop {F R : List Char} (hF : IsDigits F) (hR : Stops isDigit R) :
    scanFraction ('.' :: (F ++ R)) = some ('.' :: F, R) := by
  rw [scanFraction_dot, takeWhile_append_stop hF.all hR, dropWhile_append_stop hF.all hR,
    hF.isEmpty_false]
  rfl

/-- digits only: the rest must not begin with a digit, an exponent or a fraction -/
theorem scanNumber_int_stop {D R : List Char} (hD : IsDigits D) (h0 : Stops isDigit R)
    (h1 : scanExponent R = none) (h2 : scanFraction R = none) :
    scanNumber (D ++ R) = ⟨D, R⟩ := by
  unfold scanNumber
  simp only [takeWhile_append_stop hD.all h0, dropWhile_append_stop hD.all h0, h1, h2]

/-- digits and exponent: the rest must not begin with a digit -/
theorem scanNumber_intExp_stop {D e R : List Char} (hD : IsDigits D) (he : ExpText e)
    (h0 : Stops isDigit R) : scanNumber (D ++ e ++ R) = ⟨D ++ e, R⟩ := by
  have hst := he.stops R
  unfold scanNumber
  rw [append_assoc]
  simp only [takeWhile_append_stop hD.all hst, dropWhile_append_stop hD.all hst,
    scanExponent_exp_stop he h0]

/-- digits and fraction: the rest must not begin with a digit or an exponent -/
theorem scanNumber_frac_stop {D F R : List Char} (hD : IsDigits D) (hF : IsDigits F)
    (h0 : Stops isDigit R) (h1 : scanExponent R = none) :
    scanNumber (D ++ '.' :: F ++ R) = ⟨D ++ '.' :: F, R⟩ := by
  have e0 : D ++ '.' :: F ++ R = D ++ ('.' :: (F ++ R)) := by simp
  have hst : Stops isDigit ('.' :: (F ++ R)) := stops_cons (by decide)
  have hE0 : scanExponent ('.' :: (F ++ R)) = none := scanExponent_other (by intro r h; cases h)
  unfold scanNumber
  rw [e0]
  simp only [takeWhile_append_stop hD.all hst, dropWhile_append_stop hD.all hst, hE0,
    scanFraction_frac_stop hF h0, h1]

/-- digits, fraction and exponent: the rest must not begin with a digit -/
theorem scanNumber_fracExp_stop {D F e R : List Char} (hD : IsDigits D) (hF : IsDigits F)
    (he : ExpText e) (h0 : Stops isDigit R) :
    scanNumber (D ++ '.' :: F ++ e ++ R) = ⟨D ++ '.' :: F ++ e, R⟩ := by
  have e0 : D ++ '.' :: F ++ e ++ R = D ++ ('.' :: (F ++ (e ++ R))) := by simp
  have hst : Stops isDigit ('.' :: (F ++ (e ++ R))) := stops_cons (by decide)
  have hE0 : scanExponent ('.' :: (F ++ (e ++ R))) = none :=
    scanExponent_other (by intro r h; cases h)
  unfold scanNumber
  rw [e0]
  simp only [takeWhile_append_stop hD.all hst, dropWhile_append_stop hD.all hst, hE0,
    scanFraction_frac_stop hF (he.stops R), scanExponent_exp_stop he h0]

/-! ### what a stop says about the rest -/

/-- if the literal read from `t ++ R` is `t`, and `t` could take an exponent, then `R` does not
    begin with one -/
theorem scanExponent_none_of_text {t R : List Char}
    (hnum : ∀ e, ExpText e → NumberText (t ++ e)) (h : (scanNumber (t ++ R)).text = t) :
    scanExponent R = none := by
  cases hs : scanExponent R with
  | none => rfl
  | some p =>
    obtain ⟨e, r'⟩ := p
    obtain ⟨he, hR, _⟩ := scanExponent_some hs
    obtain ⟨d, hv⟩ := hnum e he
    have hp : t ++ e <+: t ++ R := by rw [hR, ← append_assoc]; exact prefix_append _ _
    have := scanNumber_longest hp hv
    rw [h] at this
    obtain ⟨e1, rfl⟩ := he.head
    simp at this
    omega

/-- if the literal read from `D ++ R` is the digit run `D`, then `R` does not begin with a
    fraction -/
theorem scanFraction_none_of_text {D R : List Char} (hD : IsDigits D)
    (h : (scanNumber (D ++ R)).text = D) : scanFraction R = none := by
  cases hs : scanFraction R with
  | none => rfl
  | some p =>
    obtain ⟨f, r1⟩ := p
    obtain ⟨⟨F, hF, rfl⟩, hR, _⟩ := scanFraction_some hs
    obtain ⟨d, hv⟩ := NumberText.frac hD hF
    have hp : D ++ '.' :: F <+: D ++ R := by rw [hR, ← append_assoc]; exact prefix_append _ _
    have := scanNumber_longest hp hv
    rw [h] at this
    simp at this
    omega

/-! ### removing a run from the rest -/

theorem takeWhile_isEmpty_cons {α} (p : α → Bool) (c : α) (l : List α) :
    ((c :: l).takeWhile p).isEmpty = !p c := by
  rw [takeWhile_cons]
  cases p c <;> rfl

theorem stops_remove {p : Char → Bool} {x b y : List Char} (h : Stops p (x ++ (b ++ y)))
    (hA : x = [] → ∀ d y', y = d :: y' → p d = false) : Stops p (x ++ y) := by
  rcases x with _ | ⟨c, x⟩
  · rcases y with _ | ⟨d, y'⟩
    · exact stops_nil p
    · exact stops_cons (hA rfl d y' rfl)
  · exact stops_cons (h c _ rfl)

/-- the rest still does not begin with an exponent when `b` is removed, provided the gap is not
    where an exponent would be completed: not `|e…`, `e|5`, `e|-…`, `e-|5` -/
theorem scanExponent_remove {x b y : List Char} (h : scanExponent (x ++ (b ++ y)) = none)
    (hA : x = [] → ∀ d y', y = d :: y' → d ≠ 'e')
    (hB : x = ['e'] → ∀ d y', y = d :: y' → isDigit d = false ∧ d ≠ '-')
    (hC : x = ['e', '-'] → ∀ d y', y = d :: y' → isDigit d = false) :
    scanExponent (x ++ y) = none := by
  rcases x with _ | ⟨c1, x⟩
  · -- the gap is directly after the literal
    rcases y with _ | ⟨d, y'⟩
    · rfl
    · exact scanExponent_other (fun r e => hA rfl d y' rfl (by cases e; rfl))
  by_cases h1 : c1 ≠ 'e'
  · exact scanExponent_other (fun r e => h1 (by cases e; rfl))
  have h1 : c1 = 'e' := Decidable.of_not_not h1
  subst h1
  rcases x with _ | ⟨c2, x⟩
  · -- `e|`
    rcases y with _ | ⟨d, y'⟩
    · rfl
    · obtain ⟨hd, hm⟩ := hB rfl d y' rfl
      rw [cons_append, nil_append,
        scanExponent_plain (fun t e => hm (by cases e; rfl)), takeWhile_isEmpty_cons, hd]
      rfl
  by_cases h2 : c2 = '-'
  · subst h2
    rw [cons_append, cons_append, scanExponent_minus] at h ⊢
    rcases x with _ | ⟨c3, x⟩
    · -- `e-|`
      rcases y with _ | ⟨d, y'⟩
      · rfl
      · rw [nil_append, takeWhile_isEmpty_cons, hC rfl d y' rfl]; rfl
    · rw [cons_append, takeWhile_isEmpty_cons] at h ⊢
      cases hc3 : isDigit c3
      · rfl
      · rw [hc3] at h; simp at h
  · have hnm : ∀ r t, c2 :: r ≠ '-' :: t := fun r t e => h2 (by cases e; rfl)
    rw [cons_append, cons_append, scanExponent_plain (hnm _), takeWhile_isEmpty_cons] at h ⊢
    cases hc2 : isDigit c2
    · rfl
    · rw [hc2] at h; simp at h

/-- the rest still does not begin with a fraction when `b` is removed, provided the gap is not
    where a fraction would be completed: not `|.…`, `.|5` -/
theorem scanFraction_remove {x b y : List Char} (h : scanFraction (x ++ (b ++ y)) = none)
    (hA : x = [] → ∀ d y', y = d :: y' → d ≠ '.')
    (hD : x = ['.'] → ∀ d y', y = d :: y' → isDigit d = false) :
    scanFraction (x ++ y) = none := by
  rcases x with _ | ⟨c1, x⟩
  · rcases y with _ | ⟨d, y'⟩
    · rfl
    · exact scanFraction_other (fun r e => hA rfl d y' rfl (by cases e; rfl))
  by_cases h1 : c1 ≠ '.'
  · exact scanFraction_other (fun r e => h1 (by cases e; rfl))
  have h1 : c1 = '.' := Decidable.of_not_not h1
  subst h1
  rw [cons_append, scanFraction_dot] at h ⊢
  rcases x with _ | ⟨c2, x⟩
  · rcases y with _ | ⟨d, y'⟩
    · rfl
    · rw [nil_append, takeWhile_isEmpty_cons, hD rfl d y' rfl]; rfl
  · rw [cons_append, takeWhile_isEmpty_cons] at h ⊢
    cases hc2 : isDigit c2
    · rfl
    · rw [hc2] at h; simp at h

/-- **a literal that ends before `x ++ b ++ y` ends before `x ++ y`**, provided the characters
    around the gap cannot continue the literal (`hA`) or complete an exponent or a fraction begun
    in `x` (`hB`, `hC`, `hD`).  Nothing is assumed about `b`. -/
theorem scanNumber_remove {ℓ x b y : List Char} {dec : Decimal} (hv : NumberVal ℓ dec)
    (h : scanNumber (ℓ ++ (x ++ (b ++ y))) = ⟨ℓ, x ++ (b ++ y)⟩)
    (hA : x = [] → ∀ d y', y = d :: y' → isDigit d = false ∧ d ≠ '.' ∧ d ≠ 'e')
    (hB : x = ['e'] → ∀ d y', y = d :: y' → isDigit d = false ∧ d ≠ '-')
    (hC : x = ['e', '-'] → ∀ d y', y = d :: y' → isDigit d = false)
    (hDot : x = ['.'] → ∀ d y', y = d :: y' → isDigit d = false) :
    scanNumber (ℓ ++ (x ++ y)) = ⟨ℓ, x ++ y⟩ := by
  have htext : (scanNumber (ℓ ++ (x ++ (b ++ y)))).text = ℓ := by rw [h]
  have hrest : (scanNumber (ℓ ++ (x ++ (b ++ y)))).rest = x ++ (b ++ y) := by rw [h]
  obtain ⟨c, cs, hℓ, hc⟩ := hv.head
  have hst : Stops isDigit (x ++ (b ++ y)) := by
    have := (scanNumber_spec (c := c) (cs := cs ++ (x ++ (b ++ y))) hc).2.2
    rw [← cons_append, ← hℓ, hrest] at this
    exact this
  have h0 : Stops isDigit (x ++ y) :=
    stops_remove hst (fun hx d y' hy => (hA hx d y' hy).1)
  cases hv with
  | @int D e xv hD hx =>
    rcases hx.cases' with rfl | he
    · rw [append_nil] at htext h ⊢
      have hE := scanExponent_none_of_text (fun e he => NumberText.intExp hD he) htext
      have hF := scanFraction_none_of_text hD htext
      exact scanNumber_int_stop hD h0
        (scanExponent_remove hE (fun hx d y' hy => (hA hx d y' hy).2.2) hB hC)
        (scanFraction_remove hF (fun hx d y' hy => (hA hx d y' hy).2.1) hDot)
    · exact scanNumber_intExp_stop hD he h0
  | @frac D F e xv hD hF hx =>
    rcases hx.cases' with rfl | he
    · rw [append_nil] at htext h ⊢
      have hE := scanExponent_none_of_text
        (fun e he => by simpa using NumberText.fracExp hD hF he) htext
      exact scanNumber_frac_stop hD hF h0
        (scanExponent_remove hE (fun hx d y' hy => (hA hx d y' hy).2.2) hB hC)
    · exact scanNumber_fracExp_stop hD hF he h0

end Calc
