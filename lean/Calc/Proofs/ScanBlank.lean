/-
  Calc.Proofs.ScanBlank — inserting blanks at a token boundary (C17, scanner half): one token
  is unchanged when blanks are inserted anywhere in the text after it, hence the whole token
  list is unchanged up to positions.  Core Lean only.
-/
import Calc.Proofs.ScanDecomp
namespace Calc
open List

variable {S : Type}

/-! ### Lists -/

theorem stops_insert {α} {p : α → Bool} {u b v : List α} (h : Stops p (u ++ v))
    (hb : ∀ x ∈ b, p x = false) : Stops p (u ++ (b ++ v)) := by
  rcases u with _ | ⟨a, u⟩
  · rcases b with _ | ⟨x, b⟩
    · exact h
    · exact stops_cons (hb x mem_cons_self)
  · exact stops_cons (h a _ rfl)

theorem prefix_remove {α} {q : α → Bool} {w u b v : List α} (h : w <+: u ++ (b ++ v))
    (hw : ∀ x ∈ w, q x = false) (hb : ∀ x ∈ b, q x = true) : w <+: u ++ v := by
  induction u generalizing w with
  | nil =>
    rcases b with _ | ⟨x, b⟩
    · exact h
    · rcases w with _ | ⟨y, w⟩
      · exact nil_prefix
      · rw [nil_append, cons_append, cons_prefix_cons] at h
        have h1 := hw y mem_cons_self
        rw [h.1, hb x mem_cons_self] at h1
        cases h1
  | cons a u ih =>
    rcases w with _ | ⟨y, w⟩
    · exact nil_prefix
    · rw [cons_append, cons_prefix_cons] at h ⊢
      exact ⟨h.1, ih h.2 (fun x hx => hw x (mem_cons_of_mem _ hx))⟩

/-! ### Number texts contain no blanks -/

theorem IsDigits.no_blank {E : List Char} (h : IsDigits E) : ∀ c ∈ E, isBlank c = false :=
  fun c hc => isDigit_not_blank (h.all c hc)

theorem ExpVal.no_blank {e : List Char} {x : Int} (h : ExpVal e x) :
    ∀ c ∈ e, isBlank c = false := by
  intro c hc
  cases h with
  | none => cases hc
  | pos hE =>
    rcases mem_cons.1 hc with rfl | hc
    · decide
    · exact hE.no_blank c hc
  | neg hE =>
    rcases mem_cons.1 hc with rfl | hc
    · decide
    rcases mem_cons.1 hc with rfl | hc
    · decide
    · exact hE.no_blank c hc

theorem NumberVal.no_blank {t : List Char} {d : Decimal} (h : NumberVal t d) :
    ∀ c ∈ t, isBlank c = false := by
  intro c hc
  cases h with
  | int hD hx =>
    rcases mem_append.1 hc with hc | hc
    · exact hD.no_blank c hc
    · exact hx.no_blank c hc
  | frac hD hF hx =>
    rcases mem_append.1 hc with hc | hc
    · rcases mem_append.1 hc with hc | hc
      · exact hD.no_blank c hc
      · rcases mem_cons.1 hc with rfl | hc
        · decide
        · exact hF.no_blank c hc
    · exact hx.no_blank c hc

/-- a number token is unchanged when blanks are inserted anywhere in the text after it -/
theorem scanNumber_insert_blank {c : Char} {cs u b v : List Char} (hc : isDigit c = true)
    (hrest : (scanNumber (c :: cs)).rest = u ++ v) (hb : b.all isBlank = true) :
    scanNumber ((scanNumber (c :: cs)).text ++ (u ++ (b ++ v))) =
      ⟨(scanNumber (c :: cs)).text, u ++ (b ++ v)⟩ := by
  obtain ⟨⟨d, hv⟩, hsplit, _⟩ := scanNumber_spec (cs := cs) hc
  generalize ht : (scanNumber (c :: cs)).text = t at hv hsplit ⊢
  rw [hrest] at hsplit
  obtain ⟨c', t', rfl, hc'⟩ := hv.head
  -- the new text and its scan
  obtain ⟨⟨d', hv'⟩, hsplit', _⟩ := scanNumber_spec (cs := t' ++ (u ++ (b ++ v))) hc'
  rw [← cons_append] at hv' hsplit'
  generalize hT : (scanNumber (c' :: t' ++ (u ++ (b ++ v)))).text = T at hv' hsplit'
  generalize hR : (scanNumber (c' :: t' ++ (u ++ (b ++ v)))).rest = R at hsplit'
  have hTpre : T <+: c' :: t' ++ (u ++ (b ++ v)) := ⟨R, hsplit'⟩
  have htpre : c' :: t' <+: c' :: t' ++ (u ++ (b ++ v)) := prefix_append _ _
  have h1 : (c' :: t').length ≤ T.length := by
    have := scanNumber_longest htpre hv
    rwa [hT] at this
  have hTpre0 : T <+: c' :: t' ++ (u ++ v) := by
    rw [← append_assoc] at hTpre ⊢
    exact prefix_remove hTpre hv'.no_blank (all_eq_true.1 hb)
  have h2 : T.length ≤ (c' :: t').length := by
    have := scanNumber_longest hTpre0 hv'
    rwa [hsplit, ht] at this
  have hTt : T = c' :: t' :=
    (prefix_of_prefix_length_le hTpre htpre h2).eq_of_length (by omega)
  subst hTt
  have hRR : R = u ++ (b ++ v) := append_cancel_left hsplit'
  have e : scanNumber (c' :: t' ++ (u ++ (b ++ v))) =
      ⟨(scanNumber (c' :: t' ++ (u ++ (b ++ v)))).text,
       (scanNumber (c' :: t' ++ (u ++ (b ++ v)))).rest⟩ := rfl
  rw [e, hT, hR, hRR]

variable [Kernel S] {cfg : ScanCfg S}

/-! ### One token -/

theorem Lexeme.det {s ℓ r ℓ' r' : List Char} {k k' : Kind S}
    (h : Lexeme cfg s k ℓ r) (h' : Lexeme cfg s k' ℓ' r') : k = k' ∧ ℓ = ℓ' ∧ r = r' := by
  cases h with
  | single _ hk =>
    cases h' with
    | single _ hk' => rw [hk] at hk'; cases hk'; exact ⟨rfl, rfl, rfl⟩
    | word _ hs _ _ => rw [hk] at hs; cases hs
    | number _ hs _ _ _ => rw [hk] at hs; cases hs
  | word _ hs hi _ =>
    cases h' with
    | single _ hk' => rw [hs] at hk'; cases hk'
    | word _ _ _ _ => exact ⟨rfl, rfl, rfl⟩
    | number _ _ hi' _ _ => rw [hi] at hi'; cases hi'
  | number _ hs hi _ hp =>
    cases h' with
    | single _ hk' => rw [hs] at hk'; cases hk'
    | word _ _ hi' _ => rw [hi] at hi'; cases hi'
    | number _ _ _ _ hp' => rw [hp] at hp'; cases hp'; exact ⟨rfl, rfl, rfl⟩

/-- a token is unchanged when blanks are inserted anywhere in the text after it -/
theorem Lexeme.insert_blank (hblank : ∀ c, isBlank c = true → isIdentCont cfg c = false)
    {ℓ u v b : List Char} {k : Kind S} (h : Lexeme cfg (ℓ ++ (u ++ v)) k ℓ (u ++ v))
    (hb : b.all isBlank = true) :
    Lexeme cfg (ℓ ++ (u ++ (b ++ v))) k ℓ (u ++ (b ++ v)) := by
  obtain ⟨_, c, ℓ', cs, rfl, hs⟩ := h.split
  rw [cons_append] at hs
  injection hs with _ hcs
  generalize hz : (c :: ℓ') ++ (u ++ v) = z at h
  generalize hr : u ++ v = r at h
  generalize hw : c :: ℓ' = w at h
  cases h with
  | single hbk hk =>
    injection hw with _ hw
    subst hw
    exact .single hbk hk
  | @word c₁ cs₁ hbk hs hi hne =>
    injection hz with hc hz
    subst hc
    have hst : Stops (isIdentCont cfg) (u ++ (b ++ v)) := by
      refine stops_insert ?_ (fun x hx => hblank x (all_eq_true.1 hb x hx))
      rw [hr]; exact stops_dropWhile _ _
    have hall : ∀ x ∈ c :: ℓ', isIdentCont cfg x = true := by
      rw [hw]; exact all_takeWhile _ _
    have htw := takeWhile_append_stop hall hst
    have hdw := dropWhile_append_stop hall hst
    have := Lexeme.word (cfg := cfg) (c := c) (cs := ℓ' ++ (u ++ (b ++ v))) hbk hs hi
      (by rw [← cons_append, htw]; exact cons_ne_nil _ _)
    rw [← cons_append, htw, hdw] at this
    rw [← hw]
    exact this
  | @number c₁ cs₁ d hbk hs hi hd hp =>
    injection hz with hc hz
    subst hc
    have key := scanNumber_insert_blank (b := b) hd hr.symm hb
    rw [← hw] at key
    have := Lexeme.number (cfg := cfg) (c := c) (cs := ℓ' ++ (u ++ (b ++ v))) hbk hs hi hd
      (d := d) (by rw [← cons_append, key]; simp only; rw [hw]; exact hp)
    rw [← cons_append, key] at this
    rw [← hw]
    exact this

/-! ### The whole scan -/

theorem Scanned.change_pos {p : Pos} {s : List Char} {toks : List (Tok S)}
    (h : Scanned cfg p s toks) (p' : Pos) :
    ∃ toks', Scanned cfg p' s toks' ∧ toks'.map Tok.noPos = toks.map Tok.noPos := by
  induction h generalizing p' with
  | done hb => exact ⟨[], .done hb, rfl⟩
  | tok hb hl _ ih =>
    obtain ⟨ts', hs', he⟩ := ih _
    exact ⟨_, .tok hb hl hs', by simp [Tok.noPos] at he ⊢; exact he⟩

theorem Scanned.prepend_blanks {b : List Char} (hb : b.all isBlank = true) {p : Pos}
    {s : List Char} {toks : List (Tok S)} (h : Scanned cfg (advs cfg.tab p b) s toks) :
    Scanned cfg p (b ++ s) toks := by
  induction b generalizing p with
  | nil => exact h
  | cons c b ih =>
    simp only [all_cons, Bool.and_eq_true] at hb
    exact .blank hb.1 (ih hb.2 h)

theorem Scanned.of_blank {c : Char} {s : List Char} {p : Pos} {toks : List (Tok S)}
    (hc : isBlank c = true) (h : Scanned cfg p (c :: s) toks) :
    Scanned cfg (adv cfg.tab p c) s toks := by
  have := scanned_scanLoop_ok h _ (Nat.lt_succ_self _)
  rw [length_cons, scanLoop_blank hc] at this
  exact scanLoop_ok_scanned _ _ _ _ this

theorem Scanned.of_lexeme {s ℓ r : List Char} {k : Kind S} {p : Pos} {toks : List (Tok S)}
    (hl : Lexeme cfg s k ℓ r) (h : Scanned cfg p s toks) :
    ∃ ts, toks = ⟨k, lexemeOf ℓ, p.line, p.col⟩ :: ts ∧ Scanned cfg (advs cfg.tab p ℓ) r ts := by
  obtain ⟨_, c, ℓ', cs, _, rfl⟩ := hl.split
  have := scanned_scanLoop_ok h _ (Nat.lt_succ_self _)
  rw [length_cons, scanLoop_lexeme hl, ScanRes.cons_eq_ok] at this
  obtain ⟨ts, h', rfl⟩ := this
  exact ⟨ts, rfl, scanLoop_ok_scanned _ _ _ _ h'⟩

/-- blanks inserted at a token boundary change no token kind, lexeme or value -/
theorem Scanned.insert_blank (hblank : ∀ c, isBlank c = true → isIdentCont cfg c = false)
    {x y b : List Char} (hbd : Boundary cfg x y) (hb : b.all isBlank = true) {p : Pos}
    {toks : List (Tok S)} (h : Scanned cfg p (x ++ y) toks) :
    ∃ toks', Scanned cfg p (x ++ (b ++ y)) toks' ∧
      toks'.map Tok.noPos = toks.map Tok.noPos := by
  induction hbd generalizing p toks with
  | nil =>
    obtain ⟨ts', hs', he⟩ := h.change_pos (advs cfg.tab p b)
    exact ⟨ts', .prepend_blanks hb hs', he⟩
  | blank hc _ ih =>
    obtain ⟨ts', hs', he⟩ := ih (h.of_blank hc)
    exact ⟨ts', .blank hc hs', he⟩
  | @tok k ℓ x y hl _ ih =>
    rw [append_assoc] at h ⊢
    obtain ⟨ts, rfl, hs⟩ := h.of_lexeme hl
    obtain ⟨ts', hs', he⟩ := ih hs
    refine ⟨_, .lexeme (hl.insert_blank hblank hb) hs', ?_⟩
    simp only [map_cons, he]

/-- a split point inside the blank run that follows a boundary is a boundary too -/
theorem Boundary.append_blanks {x b y : List Char} (h : Boundary cfg x (b ++ y))
    (hb : b.all isBlank = true) : Boundary cfg (x ++ b) y := by
  generalize hy : b ++ y = y' at h
  induction h with
  | nil =>
    have := Boundary.blanks (cfg := cfg) (y := y) hb .nil
    simpa using this
  | blank hc _ ih => exact .blank hc (ih hy)
  | @tok k ℓ x y' hl _ ih =>
    subst hy
    rw [append_assoc]
    refine .tok (k := k) ?_ (ih rfl)
    rw [append_assoc]; exact hl

end Calc
