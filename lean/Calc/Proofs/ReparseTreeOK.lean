/-
  Calc.Proofs.ReparseTreeOK — `Expr.TreeOK` HOLDS of every matrix-free tree the grammar reads from
  well-formed tokens (`Tok.WF`, Calc/Proofs/ScanTokWF.lean), because a tree stores tokens of the
  phrase it was read from; and the identifier tokens of such a tree are named by their lexemes
  (`Expr.IdentsNamed`), which upgrades `Expr.Sim` (kinds) to `Expr.SimLex` (kinds, and lexemes of
  the identifier tokens).  Core Lean only.
-/
import Calc.Proofs.ScanTokWF
import Calc.Proofs.ReparseKinds
namespace Calc

variable {S : Type}

/-! ## what is asked of the tokens of a phrase for its tree to print and read back -/

/-- the printed text of the literal value `z` is a number literal of value `z`, and `z` does not
    have two non-zero parts (so that a measurement prints `number` `unit` without parentheses) -/
def LitOK [Kernel S] (z : S) : Prop :=
  NumLit (complexToString z) z ∧ (!Kernel.reIsZero z && !Kernel.imIsZero z) = false

/-- a token as the scanner makes it, whose payload prints as something that reads back:
    a number prints as a literal of its value, a unit prints a symbol that the table reads as
    that unit, and where there is an `as` token, `as` is a keyword -/
structure Tok.PrintOK [Kernel S] (cfg : ScanCfg S) (t : Tok S) : Prop where
  wf : Tok.WF cfg t
  lit : ∀ z, t.kind = .number z → LitOK z
  unit : ∀ u, t.kind = .unit u → WordLex cfg (unitSymbol u) (.unit u)
  as_ : t.kind = .as_ → WordLex cfg "as".toList .as_

theorem leftOp_isOpTag {l : Level} {tg : Tag} (h : l.leftOp tg = true) : isOpTag tg = true := by
  revert h
  cases l <;> cases tg <;> decide

theorem leftOp_tok {l : Level} {t : Tok S} (h : l.leftOp t.tag = true) : isOpTag t.tag = true :=
  leftOp_isOpTag h

section
variable [Kernel S] {cfg : ScanCfg S}

mutual
/-- **`TreeOK` holds of parsed trees**: a matrix-free tree read from a phrase of tokens satisfying
    `Tok.PrintOK` satisfies `Expr.TreeOK` -/
theorem Derives.treeOK (hk : KwKinds cfg) : ∀ {l} {c : List (Tok S)} {e}, Derives l c e →
    (∀ t ∈ c, Tok.PrintOK cfg t) → e.NoMatrix → e.TreeOK cfg
  | _, _, _, .incl _ h => fun hc hn => h.treeOK hk hc hn
  | _, _, _, .as_ (a := a) (u := u) h ha hu => fun hc hn => by
    simp only [Expr.NoMatrix] at hn
    simp only [Expr.TreeOK]
    exact ⟨h.treeOK hk (fun t ht => hc t (by simp [ht])) hn,
      (hc a (by simp)).as_ (Tok.kind_of_as ha), (hc u (by simp)).unit _ hu⟩
  | _, _, _, .binl (op := op) _ hop h1 h2 => fun hc hn => by
    simp only [Expr.NoMatrix] at hn
    simp only [Expr.TreeOK]
    exact ⟨(hc op (by simp)).wf.binOp hk (leftOp_tok hop),
      h1.treeOK hk (fun t ht => hc t (by simp [ht])) hn.1,
      h2.treeOK hk (fun t ht => hc t (by simp [ht])) hn.2⟩
  | _, _, _, .pow (op := op) hop h1 h2 => fun hc hn => by
    simp only [Expr.NoMatrix] at hn
    simp only [Expr.TreeOK]
    exact ⟨(hc op (by simp)).wf.binOp hk (by rw [hop]; rfl),
      h1.treeOK hk (fun t ht => hc t (by simp [ht])) hn.1,
      h2.treeOK hk (fun t ht => hc t (by simp [ht])) hn.2⟩
  | _, _, _, .pre (op := op) hop h => fun hc hn => by
    simp only [Expr.NoMatrix] at hn
    simp only [Expr.TreeOK]
    refine ⟨(hc op (by simp)).wf.opTok hk ?_ ?_, h.treeOK hk (fun t ht => hc t (by simp [ht])) hn⟩
    · rcases hop with h' | h' <;> rw [h'] <;> rfl
    · rcases hop with h' | h' <;> rw [h'] <;> rfl
  | _, _, _, .post (op := op) hop h => fun hc hn => by
    simp only [Expr.NoMatrix] at hn
    simp only [Expr.TreeOK]
    exact ⟨(hc op (by simp)).wf.opTok hk (by rw [hop]; rfl) (by rw [hop]; rfl),
      h.treeOK hk (fun t ht => hc t (by simp [ht])) hn⟩
  | _, _, _, .call0 _ _ h => fun hc hn => by
    simp only [Expr.NoMatrix] at hn
    simp only [Expr.TreeOK, Expr.ArgsOK, and_true]
    exact h.treeOK hk (fun t ht => hc t (by simp [ht])) hn.1
  | _, _, _, .call _ _ h ha => fun hc hn => by
    simp only [Expr.NoMatrix] at hn
    simp only [Expr.TreeOK]
    exact ⟨h.treeOK hk (fun t ht => hc t (by simp [ht])) hn.1,
      ha.argsOK hk (fun t ht => hc t (by simp [ht])) hn.2⟩
  | _, _, _, .number (t := t) hz => fun hc _ => by
    simp only [Expr.TreeOK]
    exact ((hc t (by simp)).lit _ hz).1
  | _, _, _, .measurement (t := t) (u := u) hz hu => fun hc _ => by
    simp only [Expr.TreeOK]
    have := (hc t (by simp)).lit _ hz
    exact ⟨this.2, this.1, (hc u (by simp)).unit _ hu⟩
  | _, _, _, .ident (t := t) hn' => fun hc _ => by
    simp only [Expr.TreeOK]
    exact (hc t (by simp)).wf.wordLex_of_ident hn'
  | _, _, _, .group _ _ h => fun hc hn => by
    simp only [Expr.NoMatrix] at hn
    simp only [Expr.TreeOK]
    exact h.treeOK hk (fun t ht => hc t (by simp [ht])) hn
  | _, _, _, .matrix _ _ _ _ => fun _ hn => by
    simp only [Expr.NoMatrix] at hn
theorem DerivesArgs.argsOK (hk : KwKinds cfg) : ∀ {c : List (Tok S)} {es}, DerivesArgs c es →
    (∀ t ∈ c, Tok.PrintOK cfg t) → Expr.NoMatrixArgs es → Expr.ArgsOK cfg es
  | _, _, .one h => fun hc hn => by
    simp only [Expr.NoMatrixArgs] at hn
    simp only [Expr.ArgsOK, and_true]
    exact h.treeOK hk hc hn.1
  | _, _, .cons h _ hs => fun hc hn => by
    simp only [Expr.NoMatrixArgs] at hn
    simp only [Expr.ArgsOK]
    exact ⟨h.treeOK hk (fun t ht => hc t (by simp [ht])) hn.1,
      hs.argsOK hk (fun t ht => hc t (by simp [ht])) hn.2⟩
end

end

/-! ## identifier tokens named by their lexemes -/

/-- the name carried by the kind of an identifier token is the token's text -/
def Tok.Named (t : Tok S) : Prop := ∀ n, t.kind = .ident n → t.lexeme = n

mutual
/-- every identifier node of the tree holds a token whose kind is `.ident` of its own lexeme -/
def Expr.IdentsNamed : Expr S → Prop
  | .as_ e _ _ => e.IdentsNamed
  | .binary l _ r => l.IdentsNamed ∧ r.IdentsNamed
  | .unary _ x => x.IdentsNamed
  | .grouping _ _ e => e.IdentsNamed
  | .number _ => True
  | .measurement _ _ => True
  | .matrix _ rows => Expr.IdentsNamedRows rows
  | .ident name => name.kind = .ident name.lexeme
  | .call callee _ args => callee.IdentsNamed ∧ Expr.IdentsNamedArgs args
def Expr.IdentsNamedArgs : List (Expr S) → Prop
  | [] => True
  | e :: es => e.IdentsNamed ∧ Expr.IdentsNamedArgs es
def Expr.IdentsNamedRows : List (List (Expr S)) → Prop
  | [] => True
  | r :: rs => Expr.IdentsNamedArgs r ∧ Expr.IdentsNamedRows rs
end

mutual
/-- a tree read from a phrase whose identifier tokens are named by their lexemes has its
    identifier nodes named by their lexemes (matrix literals included) -/
theorem Derives.identsNamed : ∀ {l} {c : List (Tok S)} {e}, Derives l c e →
    (∀ t ∈ c, Tok.Named t) → e.IdentsNamed
  | _, _, _, .incl _ h => fun hc => h.identsNamed hc
  | _, _, _, .as_ h _ _ => fun hc => by
    simp only [Expr.IdentsNamed]
    exact h.identsNamed (fun t ht => hc t (by simp [ht]))
  | _, _, _, .binl _ _ h1 h2 => fun hc => by
    simp only [Expr.IdentsNamed]
    exact ⟨h1.identsNamed (fun t ht => hc t (by simp [ht])),
      h2.identsNamed (fun t ht => hc t (by simp [ht]))⟩
  | _, _, _, .pow _ h1 h2 => fun hc => by
    simp only [Expr.IdentsNamed]
    exact ⟨h1.identsNamed (fun t ht => hc t (by simp [ht])),
      h2.identsNamed (fun t ht => hc t (by simp [ht]))⟩
  | _, _, _, .pre _ h => fun hc => by
    simp only [Expr.IdentsNamed]
    exact h.identsNamed (fun t ht => hc t (by simp [ht]))
  | _, _, _, .post _ h => fun hc => by
    simp only [Expr.IdentsNamed]
    exact h.identsNamed (fun t ht => hc t (by simp [ht]))
  | _, _, _, .call0 _ _ h => fun hc => by
    simp only [Expr.IdentsNamed, Expr.IdentsNamedArgs, and_true]
    exact h.identsNamed (fun t ht => hc t (by simp [ht]))
  | _, _, _, .call _ _ h ha => fun hc => by
    simp only [Expr.IdentsNamed]
    exact ⟨h.identsNamed (fun t ht => hc t (by simp [ht])),
      ha.identsNamed (fun t ht => hc t (by simp [ht]))⟩
  | _, _, _, .number _ => fun _ => by simp only [Expr.IdentsNamed]
  | _, _, _, .measurement _ _ => fun _ => by simp only [Expr.IdentsNamed]
  | _, _, _, .ident (t := t) (name := n) hn => fun hc => by
    simp only [Expr.IdentsNamed]
    rw [hc t (by simp) n hn]; exact hn
  | _, _, _, .group _ _ h => fun hc => by
    simp only [Expr.IdentsNamed]
    exact h.identsNamed (fun t ht => hc t (by simp [ht]))
  | _, _, _, .matrix _ _ hr _ => fun hc => by
    simp only [Expr.IdentsNamed]
    exact hr.identsNamed (fun t ht => hc t (by simp [ht]))
theorem DerivesArgs.identsNamed : ∀ {c : List (Tok S)} {es}, DerivesArgs c es →
    (∀ t ∈ c, Tok.Named t) → Expr.IdentsNamedArgs es
  | _, _, .one h => fun hc => by
    simp only [Expr.IdentsNamedArgs, and_true]
    exact h.identsNamed hc
  | _, _, .cons h _ hs => fun hc => by
    simp only [Expr.IdentsNamedArgs]
    exact ⟨h.identsNamed (fun t ht => hc t (by simp [ht])),
      hs.identsNamed (fun t ht => hc t (by simp [ht]))⟩
theorem DerivesRows.identsNamed : ∀ {c : List (Tok S)} {rows}, DerivesRows c rows →
    (∀ t ∈ c, Tok.Named t) → Expr.IdentsNamedRows rows
  | _, _, .one h => fun hc => by
    simp only [Expr.IdentsNamedRows, and_true]
    exact h.identsNamed hc
  | _, _, .cons h _ hs => fun hc => by
    simp only [Expr.IdentsNamedRows]
    exact ⟨h.identsNamed (fun t ht => hc t (by simp [ht])),
      hs.identsNamed (fun t ht => hc t (by simp [ht]))⟩
end

/-! ## similarity that also compares the lexemes of identifiers -/

mutual
/-- same tree up to positions and the lexeme texts of the NON-identifier tokens: `Expr.Sim`, and
    corresponding identifier tokens have the same lexeme (evaluation looks a name up by
    `name.lexeme`) -/
inductive Expr.SimLex : Expr S → Expr S → Prop
  | as_ {e e' : Expr S} {t t' : Tok S} {u : Unit} : Expr.SimLex e e' → t.kind = t'.kind →
      Expr.SimLex (.as_ e t u) (.as_ e' t' u)
  | binary {l l' r r' : Expr S} {op op' : Tok S} : Expr.SimLex l l' → op.kind = op'.kind →
      Expr.SimLex r r' → Expr.SimLex (.binary l op r) (.binary l' op' r')
  | unary {x x' : Expr S} {op op' : Tok S} : op.kind = op'.kind → Expr.SimLex x x' →
      Expr.SimLex (.unary op x) (.unary op' x')
  | grouping {e e' : Expr S} {o o' : Tok S} {k : GKind} : o.kind = o'.kind → Expr.SimLex e e' →
      Expr.SimLex (.grouping o k e) (.grouping o' k e')
  | number {z : S} : Expr.SimLex (.number z) (.number z)
  | measurement {z : S} {u : Unit} : Expr.SimLex (.measurement z u) (.measurement z u)
  | matrix {rows rows' : List (List (Expr S))} {s s' : Tok S} : s.kind = s'.kind →
      Expr.SimLexRows rows rows' → Expr.SimLex (.matrix s rows) (.matrix s' rows')
  | ident {t t' : Tok S} : t.kind = t'.kind → t.lexeme = t'.lexeme →
      Expr.SimLex (.ident t) (.ident t')
  | call {fn fn' : Expr S} {lp lp' : Tok S} {args args' : List (Expr S)} : Expr.SimLex fn fn' →
      lp.kind = lp'.kind → Expr.SimLexArgs args args' →
      Expr.SimLex (.call fn lp args) (.call fn' lp' args')
inductive Expr.SimLexArgs : List (Expr S) → List (Expr S) → Prop
  | nil : Expr.SimLexArgs [] []
  | cons {e e' : Expr S} {es es' : List (Expr S)} : Expr.SimLex e e' → Expr.SimLexArgs es es' →
      Expr.SimLexArgs (e :: es) (e' :: es')
inductive Expr.SimLexRows : List (List (Expr S)) → List (List (Expr S)) → Prop
  | nil : Expr.SimLexRows [] []
  | cons {r r' : List (Expr S)} {rs rs' : List (List (Expr S))} : Expr.SimLexArgs r r' →
      Expr.SimLexRows rs rs' → Expr.SimLexRows (r :: rs) (r' :: rs')
end

mutual
theorem Expr.SimLex.sim : ∀ {e e' : Expr S}, Expr.SimLex e e' → Expr.Sim e e'
  | _, _, .as_ h ht => .as_ h.sim ht
  | _, _, .binary h1 ht h2 => .binary h1.sim ht h2.sim
  | _, _, .unary ht h => .unary ht h.sim
  | _, _, .grouping ht h => .grouping ht h.sim
  | _, _, .number => .number
  | _, _, .measurement => .measurement
  | _, _, .matrix ht h => .matrix ht h.sim
  | _, _, .ident ht _ => .ident ht
  | _, _, .call h ht ha => .call h.sim ht ha.sim
theorem Expr.SimLexArgs.sim : ∀ {es es' : List (Expr S)}, Expr.SimLexArgs es es' →
    Expr.SimArgs es es'
  | _, _, .nil => .nil
  | _, _, .cons h hs => .cons h.sim hs.sim
theorem Expr.SimLexRows.sim : ∀ {rs rs' : List (List (Expr S))}, Expr.SimLexRows rs rs' →
    Expr.SimRows rs rs'
  | _, _, .nil => .nil
  | _, _, .cons h hs => .cons h.sim hs.sim
end

mutual
/-- similar trees whose identifier nodes are named by their lexemes have the same identifier
    lexemes -/
theorem Expr.Sim.simLex : ∀ {e e' : Expr S}, Expr.Sim e e' → e.IdentsNamed → e'.IdentsNamed →
    Expr.SimLex e e'
  | _, _, .as_ h ht => fun h1 h2 => by
    simp only [Expr.IdentsNamed] at h1 h2
    exact .as_ (h.simLex h1 h2) ht
  | _, _, .binary ha ht hb => fun h1 h2 => by
    simp only [Expr.IdentsNamed] at h1 h2
    exact .binary (ha.simLex h1.1 h2.1) ht (hb.simLex h1.2 h2.2)
  | _, _, .unary ht h => fun h1 h2 => by
    simp only [Expr.IdentsNamed] at h1 h2
    exact .unary ht (h.simLex h1 h2)
  | _, _, .grouping ht h => fun h1 h2 => by
    simp only [Expr.IdentsNamed] at h1 h2
    exact .grouping ht (h.simLex h1 h2)
  | _, _, .number => fun _ _ => .number
  | _, _, .measurement => fun _ _ => .measurement
  | _, _, .matrix ht h => fun h1 h2 => by
    simp only [Expr.IdentsNamed] at h1 h2
    exact .matrix ht (h.simLex h1 h2)
  | _, _, .ident (t := t) (t' := t') ht => fun h1 h2 => by
    simp only [Expr.IdentsNamed] at h1 h2
    refine .ident ht ?_
    rw [h1, h2] at ht
    injection ht
  | _, _, .call h ht ha => fun h1 h2 => by
    simp only [Expr.IdentsNamed] at h1 h2
    exact .call (h.simLex h1.1 h2.1) ht (ha.simLex h1.2 h2.2)
theorem Expr.SimArgs.simLex : ∀ {es es' : List (Expr S)}, Expr.SimArgs es es' →
    Expr.IdentsNamedArgs es → Expr.IdentsNamedArgs es' → Expr.SimLexArgs es es'
  | _, _, .nil => fun _ _ => .nil
  | _, _, .cons h hs => fun h1 h2 => by
    simp only [Expr.IdentsNamedArgs] at h1 h2
    exact .cons (h.simLex h1.1 h2.1) (hs.simLex h1.2 h2.2)
theorem Expr.SimRows.simLex : ∀ {rs rs' : List (List (Expr S))}, Expr.SimRows rs rs' →
    Expr.IdentsNamedRows rs → Expr.IdentsNamedRows rs' → Expr.SimLexRows rs rs'
  | _, _, .nil => fun _ _ => .nil
  | _, _, .cons h hs => fun h1 h2 => by
    simp only [Expr.IdentsNamedRows] at h1 h2
    exact .cons (h.simLex h1.1 h2.1) (hs.simLex h1.2 h2.2)
end

/-! ## the hypotheses on the keyword table -/

/-- what the round trip asks of the keyword table: it yields keyword kinds only; every unit it
    can yield prints a symbol that it reads as that very unit; and if it has a spelling of `as`
    at all, then `as` is one -/
structure TableOK [Kernel S] (cfg : ScanCfg S) : Prop where
  kinds : KwKinds cfg
  units : ∀ w u, cfg.keyword w = some (.unit u) → WordLex cfg (unitSymbol u) (.unit u)
  as_ : ∀ w, cfg.keyword w = some .as_ → WordLex cfg "as".toList .as_

/-- a well-formed token whose number value (if any) prints as a literal of that value satisfies
    `Tok.PrintOK`, for a table satisfying `TableOK` -/
theorem Tok.WF.printOK [Kernel S] {cfg : ScanCfg S} {t : Tok S} (h : Tok.WF cfg t)
    (ht : TableOK cfg) (hl : ∀ z, t.kind = .number z → LitOK z) : Tok.PrintOK cfg t :=
  ⟨h, hl, fun u hu => ht.units _ u (h.unit_keyword hu), fun ha => ht.as_ _ (h.as_keyword ha)⟩

/-- a well-formed token is named by its lexeme, when the table yields keyword kinds only -/
theorem Tok.WF.named [Kernel S] {cfg : ScanCfg S} {t : Tok S} (h : Tok.WF cfg t)
    (hk : KwKinds cfg) : Tok.Named t :=
  fun _ hn => (h.ident_name hk hn).1

end Calc
