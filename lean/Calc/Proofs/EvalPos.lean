/-
  Calc.Proofs.EvalPos — evaluation does not read token positions.

  `Tok.EqModPos t t'` : same kind (hence tag, identifier name, number value) and same lexeme text;
  line and column are free.  `Expr.SimP` lifts it to trees, `Value.SimP` to values (a user
  function value carries bodies), `Env.SimP` to tables (same keys in the same order, same constant
  flags, related values), `Diag.SimPos` to diagnostics (same kind and info text; line and column
  free), `Res.SimP` to outcomes, `Line.SimP` to printed lines, `Stmt.SimP` to statements.

  Main results: `eval_simP`, `step_simP`, `runStmts_simP` (a logical relation: related inputs give
  related outputs, with the same fuel), `showValue_simP` (related values print the same text).
  Core Lean only.
-/
import Calc.Model.Stmt
import Calc.Model.Print
import Calc.Proofs.EvalPure
namespace Calc

variable {S : Type}

/-! ## the relations -/

/-- all token fields equal except line and column -/
def Tok.EqModPos (t t' : Tok S) : Prop := t.kind = t'.kind ∧ t.lexeme = t'.lexeme

theorem Tok.EqModPos.refl (t : Tok S) : Tok.EqModPos t t := ⟨rfl, rfl⟩
theorem Tok.EqModPos.symm {t t' : Tok S} (h : Tok.EqModPos t t') : Tok.EqModPos t' t :=
  ⟨h.1.symm, h.2.symm⟩
theorem Tok.EqModPos.trans {a b c : Tok S} (h : Tok.EqModPos a b) (h' : Tok.EqModPos b c) :
    Tok.EqModPos a c := ⟨h.1.trans h'.1, h.2.trans h'.2⟩
theorem Tok.EqModPos.tag {t t' : Tok S} (h : Tok.EqModPos t t') : t.tag = t'.tag := by
  simp only [Tok.tag, h.1]

mutual
/-- same tree up to the positions of the stored tokens -/
inductive Expr.SimP : Expr S → Expr S → Prop
  | as_ {e e' : Expr S} {t t' : Tok S} {u : Unit} : Expr.SimP e e' → Tok.EqModPos t t' →
      Expr.SimP (.as_ e t u) (.as_ e' t' u)
  | binary {l l' r r' : Expr S} {op op' : Tok S} : Expr.SimP l l' → Tok.EqModPos op op' →
      Expr.SimP r r' → Expr.SimP (.binary l op r) (.binary l' op' r')
  | unary {x x' : Expr S} {op op' : Tok S} : Tok.EqModPos op op' → Expr.SimP x x' →
      Expr.SimP (.unary op x) (.unary op' x')
  | grouping {e e' : Expr S} {o o' : Tok S} {k : GKind} : Tok.EqModPos o o' → Expr.SimP e e' →
      Expr.SimP (.grouping o k e) (.grouping o' k e')
  | number {z : S} : Expr.SimP (.number z) (.number z)
  | measurement {z : S} {u : Unit} : Expr.SimP (.measurement z u) (.measurement z u)
  | matrix {rows rows' : List (List (Expr S))} {s s' : Tok S} : Tok.EqModPos s s' →
      Expr.SimPRows rows rows' → Expr.SimP (.matrix s rows) (.matrix s' rows')
  | ident {t t' : Tok S} : Tok.EqModPos t t' → Expr.SimP (.ident t) (.ident t')
  | call {fn fn' : Expr S} {lp lp' : Tok S} {args args' : List (Expr S)} : Expr.SimP fn fn' →
      Tok.EqModPos lp lp' → Expr.SimPArgs args args' →
      Expr.SimP (.call fn lp args) (.call fn' lp' args')
/-- pointwise related lists of trees (same length) -/
inductive Expr.SimPArgs : List (Expr S) → List (Expr S) → Prop
  | nil : Expr.SimPArgs [] []
  | cons {e e' : Expr S} {es es' : List (Expr S)} : Expr.SimP e e' → Expr.SimPArgs es es' →
      Expr.SimPArgs (e :: es) (e' :: es')
/-- pointwise related lists of rows (same lengths) -/
inductive Expr.SimPRows : List (List (Expr S)) → List (List (Expr S)) → Prop
  | nil : Expr.SimPRows [] []
  | cons {r r' : List (Expr S)} {rs rs' : List (List (Expr S))} : Expr.SimPArgs r r' →
      Expr.SimPRows rs rs' → Expr.SimPRows (r :: rs) (r' :: rs')
end

mutual
theorem Expr.SimP.refl : ∀ e : Expr S, Expr.SimP e e
  | .as_ e _ _ => .as_ (Expr.SimP.refl e) (.refl _)
  | .binary l _ r => .binary (Expr.SimP.refl l) (.refl _) (Expr.SimP.refl r)
  | .unary _ x => .unary (.refl _) (Expr.SimP.refl x)
  | .grouping _ _ e => .grouping (.refl _) (Expr.SimP.refl e)
  | .number _ => .number
  | .measurement _ _ => .measurement
  | .matrix _ rows => .matrix (.refl _) (Expr.SimPRows.refl rows)
  | .ident _ => .ident (.refl _)
  | .call fn _ args => .call (Expr.SimP.refl fn) (.refl _) (Expr.SimPArgs.refl args)
theorem Expr.SimPArgs.refl : ∀ es : List (Expr S), Expr.SimPArgs es es
  | [] => .nil
  | e :: es => .cons (Expr.SimP.refl e) (Expr.SimPArgs.refl es)
theorem Expr.SimPRows.refl : ∀ rs : List (List (Expr S)), Expr.SimPRows rs rs
  | [] => .nil
  | r :: rs => .cons (Expr.SimPArgs.refl r) (Expr.SimPRows.refl rs)
end

mutual
theorem Expr.SimP.symm : ∀ {e e' : Expr S}, Expr.SimP e e' → Expr.SimP e' e
  | _, _, .as_ h ht => .as_ h.symm ht.symm
  | _, _, .binary h1 ht h2 => .binary h1.symm ht.symm h2.symm
  | _, _, .unary ht h => .unary ht.symm h.symm
  | _, _, .grouping ht h => .grouping ht.symm h.symm
  | _, _, .number => .number
  | _, _, .measurement => .measurement
  | _, _, .matrix ht h => .matrix ht.symm h.symm
  | _, _, .ident ht => .ident ht.symm
  | _, _, .call h ht ha => .call h.symm ht.symm ha.symm
theorem Expr.SimPArgs.symm : ∀ {es es' : List (Expr S)}, Expr.SimPArgs es es' →
    Expr.SimPArgs es' es
  | _, _, .nil => .nil
  | _, _, .cons h hs => .cons h.symm hs.symm
theorem Expr.SimPRows.symm : ∀ {rs rs' : List (List (Expr S))}, Expr.SimPRows rs rs' →
    Expr.SimPRows rs' rs
  | _, _, .nil => .nil
  | _, _, .cons h hs => .cons h.symm hs.symm
end

/-- pointwise related lists (same length) -/
inductive All₂ {α : Type} (R : α → α → Prop) : List α → List α → Prop
  | nil : All₂ R [] []
  | cons {a b : α} {l l' : List α} : R a b → All₂ R l l' → All₂ R (a :: l) (b :: l')

/-- one entry of a user function: the signature has no tokens, so it is equal -/
def SigBody.SimP (a b : Sig S × Expr S) : Prop := a.1 = b.1 ∧ Expr.SimP a.2 b.2

structure UserFn.SimP (f f' : UserFn S) : Prop where
  name : f.name = f'.name
  sigs : All₂ SigBody.SimP f.sigs f'.sigs

inductive Value.SimP : Value S → Value S → Prop
  | number (z : S) : Value.SimP (.number z) (.number z)
  | measurement (z : S) (u : Unit) : Value.SimP (.measurement z u) (.measurement z u)
  | matrix (m : List (List S)) : Value.SimP (.matrix m) (.matrix m)
  | native (n : Str) : Value.SimP (.native n) (.native n)
  | user {f f' : UserFn S} : UserFn.SimP f f' → Value.SimP (.user f) (.user f')

/-- one table entry: same key, same constant flag, related values -/
def Var.SimP (a b : Str × Variable S) : Prop :=
  a.1 = b.1 ∧ a.2.constant = b.2.constant ∧ Value.SimP a.2.value b.2.value

/-- same keys in the same order, same flags, related values -/
def Env.SimP (e e' : Env S) : Prop := All₂ Var.SimP e e'

/-- same diagnostic up to line and column -/
def Diag.SimPos (d d' : Diag) : Prop := d.kind = d'.kind ∧ d.info = d'.info

inductive Res.SimP {α : Type} (R : α → α → Prop) : Res α → Res α → Prop
  | ok {a b : α} : R a b → Res.SimP R (.ok a) (.ok b)
  | diag {d d' : Diag} : Diag.SimPos d d' → Res.SimP R (.diag d) (.diag d')
  | panic (s : Str) : Res.SimP R (.panic s) (.panic s)
  | fuel : Res.SimP R .fuel .fuel

/-- same parse error up to the position (both at end of input, or both at a token) -/
def PErr.SimPos (e e' : PErr) : Prop :=
  e.kind = e'.kind ∧ e.info = e'.info ∧ e.pos.isSome = e'.pos.isSome

inductive Line.SimP : Line S → Line S → Prop
  | value {v v' : Value S} : Value.SimP v v' → Line.SimP (.value v) (.value v')
  | evalErr {d d' : Diag} : Diag.SimPos d d' → Line.SimP (.evalErr d) (.evalErr d')
  | parseErr {e e' : PErr} : PErr.SimPos e e' → Line.SimP (.parseErr e) (.parseErr e')
  | scanErr (e : ScanErr) : Line.SimP (.scanErr e) (.scanErr e)
  | banner : Line.SimP .banner .banner
  | goodbye : Line.SimP .goodbye .goodbye
  | panic (s : Str) : Line.SimP (.panic s) (.panic s)
  | fuel : Line.SimP .fuel .fuel

inductive Stmt.SimP : Stmt S → Stmt S → Prop
  | expr {e e' : Expr S} : Expr.SimP e e' → Stmt.SimP (.expr e) (.expr e')
  | deleteVar {t t' : Tok S} : Tok.EqModPos t t' → Stmt.SimP (.deleteVar t) (.deleteVar t')
  | deleteSig {t t' : Tok S} (sig : Sig S) : Tok.EqModPos t t' →
      Stmt.SimP (.deleteSig t sig) (.deleteSig t' sig)
  | assign {t t' : Tok S} {e e' : Expr S} : Tok.EqModPos t t' → Expr.SimP e e' →
      Stmt.SimP (.assign t e) (.assign t' e')
  | define {t t' : Tok S} (sig : Sig S) {e e' : Expr S} : Tok.EqModPos t t' → Expr.SimP e e' →
      Stmt.SimP (.define t sig e) (.define t' sig e')
  | clear : Stmt.SimP .clear .clear

/-- related outputs of a statement (or a statement list) -/
structure StepOut.SimP (o o' : StepOut S) : Prop where
  env : Env.SimP o.env o'.env
  out : All₂ Line.SimP o.out o'.out

/-! ## reflexivity -/

theorem All₂.refl' {α : Type} {R : α → α → Prop} (h : ∀ a, R a a) :
    ∀ l : List α, All₂ R l l
  | [] => .nil
  | a :: l => .cons (h a) (All₂.refl' h l)

theorem UserFn.SimP.refl (f : UserFn S) : UserFn.SimP f f :=
  ⟨rfl, All₂.refl' (fun a => ⟨rfl, Expr.SimP.refl a.2⟩) _⟩

theorem Value.SimP.refl : ∀ v : Value S, Value.SimP v v
  | .number z => .number z
  | .measurement z u => .measurement z u
  | .matrix m => .matrix m
  | .native n => .native n
  | .user f => .user (UserFn.SimP.refl f)

theorem Env.SimP.refl (env : Env S) : Env.SimP env env :=
  All₂.refl' (fun _ => ⟨rfl, rfl, Value.SimP.refl _⟩) _

theorem Diag.SimPos.refl (d : Diag) : Diag.SimPos d d := ⟨rfl, rfl⟩

theorem Res.SimP.refl {α : Type} {R : α → α → Prop} (h : ∀ a, R a a) : ∀ r : Res α, Res.SimP R r r
  | .ok a => .ok (h a)
  | .diag d => .diag (.refl d)
  | .panic s => .panic s
  | .fuel => .fuel

theorem Res.SimP.vrefl (r : Res (Value S)) : Res.SimP Value.SimP r r :=
  Res.SimP.refl Value.SimP.refl r

/-! ## the table operations -/

theorem Env.get_simP {env env' : Env S} (h : Env.SimP env env') (k : Str) :
    (Env.get env k = none ∧ Env.get env' k = none) ∨
    ∃ v v', Env.get env k = some v ∧ Env.get env' k = some v' ∧ v.constant = v'.constant ∧
      Value.SimP v.value v'.value := by
  induction h with
  | nil => exact .inl ⟨rfl, rfl⟩
  | @cons a b l l' hab _ ih =>
    obtain ⟨ka, va⟩ := a
    obtain ⟨kb, vb⟩ := b
    obtain ⟨hk, hc, hv⟩ := hab
    simp only at hk hc hv
    subst hk
    simp only [Env.get]
    by_cases hkk : ka = k
    · simp only [hkk, if_true]
      exact .inr ⟨va, vb, rfl, rfl, hc, hv⟩
    · simp only [hkk, if_false]
      exact ih

theorem All₂.filter_simP {α : Type} {R : α → α → Prop} {p : α → Bool}
    (hp : ∀ a b, R a b → p a = p b) {l l' : List α} (h : All₂ R l l') :
    All₂ R (l.filter p) (l'.filter p) := by
  induction h with
  | nil => exact .nil
  | @cons a b l l' hab _ ih =>
    simp only [List.filter_cons, ← hp a b hab]
    cases p a
    · exact ih
    · exact .cons hab ih

theorem Env.remove_simP {env env' : Env S} (h : Env.SimP env env') (k : Str) :
    Env.SimP (Env.remove env k) (Env.remove env' k) :=
  All₂.filter_simP (fun a b hab => by simp only [hab.1]) h

theorem Env.insert_simP {env env' : Env S} (h : Env.SimP env env') (k : Str)
    {v v' : Value S} (hv : Value.SimP v v') (c : Bool) :
    Env.SimP (Env.insert env k ⟨v, c⟩) (Env.insert env' k ⟨v', c⟩) :=
  .cons ⟨rfl, rfl, hv⟩ (Env.remove_simP h k)

theorem Env.retainConstants_simP {env env' : Env S} (h : Env.SimP env env') :
    Env.SimP (Env.retainConstants env) (Env.retainConstants env') :=
  All₂.filter_simP (fun a b hab => by simp only [hab.2.1]) h

/-! ## the operators -/

section ops
set_option linter.unusedSectionVars false
set_option linter.unusedSimpArgs false
set_option linter.unusedVariables false
variable [Add S] [Sub S] [Mul S] [Div S] [Zero S] [One S] [Kernel S]

/-- closes a leaf `Res.SimP _ r r'` where the two sides differ at most in a diagnostic position -/
macro "simp_leaf" : tactic => `(tactic| first
    | exact Res.SimP.vrefl _
    | exact Res.SimP.diag ⟨rfl, rfl⟩
    | exact Res.SimP.ok (by assumption)
    | exact Res.SimP.ok (Value.SimP.user (by assumption)))

theorem binop_simP {op op' : Tok S} (ht : Tok.EqModPos op op') {a a' b b' : Value S}
    (ha : Value.SimP a a') (hb : Value.SimP b b') :
    Res.SimP Value.SimP (binop op a b) (binop op' a' b') := by
  unfold binop
  simp only [diagAt, ← ht.tag]
  generalize op.tag = tg
  cases tg <;> simp only [] <;> (try exact .panic _) <;>
    (cases ha <;> cases hb <;> simp only [] <;>
      first | simp_leaf | (split <;> first | simp_leaf | (split <;> simp_leaf)))

theorem unop_simP {op op' : Tok S} (ht : Tok.EqModPos op op') {v v' : Value S}
    (hv : Value.SimP v v') : Res.SimP Value.SimP (unop op v) (unop op' v') := by
  unfold unop
  simp only [diagAt, ← ht.tag]
  generalize op.tag = tg
  cases tg <;> simp only [] <;> (try exact .panic _) <;>
    (cases hv <;> simp only [] <;> first | simp_leaf | (split <;> simp_leaf))

theorem groupop_simP {p p' : Tok S} (k : GKind) {v v' : Value S}
    (hv : Value.SimP v v') : Res.SimP Value.SimP (groupop p k v) (groupop p' k v') := by
  unfold groupop
  simp only [diagAt]
  cases k <;> simp only [] <;>
    (cases hv <;> (try simp only []) <;>
      first | simp_leaf | (split <;> first | simp_leaf | (split <;> simp_leaf)))

theorem asop_simP {t t' : Tok S} (u : Unit) {v v' : Value S}
    (hv : Value.SimP v v') : Res.SimP Value.SimP (asop t u v) (asop t' u v') := by
  unfold asop
  simp only [diagAt]
  cases hv <;> simp only [] <;> first | simp_leaf | (split <;> simp_leaf)

theorem lookupIdent_simP {t t' : Tok S} (ht : Tok.EqModPos t t') {env env' : Env S}
    (he : Env.SimP env env') : Res.SimP Value.SimP (lookupIdent t env) (lookupIdent t' env') := by
  unfold lookupIdent
  simp only [diagAt, ← ht.2]
  rcases Env.get_simP he t.lexeme with ⟨h1, h2⟩ | ⟨v, v', h1, h2, _, hv⟩
  · rw [h1, h2]; exact .diag ⟨rfl, rfl⟩
  · rw [h1, h2]; exact .ok hv

/-! ## native calls -/

theorem fits_simP (c : Gen.Constraint) {v v' : Value S} (hv : Value.SimP v v') :
    fits c v = fits c v' := by
  cases hv <;> first | rfl | (cases c <;> rfl)

theorem firstMisfit_simP {as as' : List (Value S)} (h : All₂ Value.SimP as as') :
    ∀ (i : Nat) (ps : List Gen.ParamSpec), firstMisfit i ps as = firstMisfit i ps as' := by
  induction h with
  | nil => intro i ps; cases ps <;> rfl
  | cons hab _ ih =>
    intro i ps
    cases ps with
    | nil => rfl
    | cons p ps => simp only [firstMisfit, fits_simP p.constraint hab, ih]

theorem All₂.length_eq {α : Type} {R : α → α → Prop} {l l' : List α} (h : All₂ R l l') :
    l.length = l'.length := by
  induction h with
  | nil => rfl
  | cons _ _ ih => simp only [List.length_cons, ih]

theorem All₂.getElem? {α : Type} {R : α → α → Prop} {l l' : List α} (h : All₂ R l l') :
    ∀ i : Nat, (l[i]? = none ∧ l'[i]? = none) ∨ ∃ a b, l[i]? = some a ∧ l'[i]? = some b ∧ R a b := by
  induction h with
  | nil => intro i; exact .inl ⟨rfl, rfl⟩
  | @cons a b l l' hab _ ih =>
    intro i
    cases i with
    | zero => exact .inr ⟨a, b, rfl, rfl, hab⟩
    | succ i => simpa only [List.getElem?_cons_succ] using ih i

theorem numArg_simP {as as' : List (Value S)} (h : All₂ Value.SimP as as') (i : Nat) :
    numArg as i = numArg as' i := by
  unfold numArg
  rcases h.getElem? i with ⟨h1, h2⟩ | ⟨a, b, h1, h2, hab⟩
  · rw [h1, h2]
  · rw [h1, h2]; cases hab <;> rfl

theorem matArg_simP {as as' : List (Value S)} (h : All₂ Value.SimP as as') (i : Nat) :
    matArg as i = matArg as' i := by
  unfold matArg
  rcases h.getElem? i with ⟨h1, h2⟩ | ⟨a, b, h1, h2, hab⟩
  · rw [h1, h2]
  · rw [h1, h2]; cases hab <;> rfl

theorem nativeBody_simP (name : Str) (l c l' c' : Nat) {as as' : List (Value S)}
    (h : All₂ Value.SimP as as') :
    Res.SimP Value.SimP (nativeBody name l c as) (nativeBody name l' c' as') := by
  unfold nativeBody
  simp only [num1, numArg_simP h, matArg_simP h]
  split
  case h_30 =>
    cases matArg as' 0 <;> simp only [Res.bind] <;> try simp_leaf
    next m =>
      cases Mat.inverse m <;> simp only [Res.bind] <;> try simp_leaf
      next r => cases r <;> simp only [] <;> simp_leaf
  all_goals simp_leaf

theorem callNative_simP (name : Str) (l c l' c' : Nat) {as as' : List (Value S)}
    (h : All₂ Value.SimP as as') :
    Res.SimP Value.SimP (callNative name l c as) (callNative name l' c' as') := by
  unfold callNative
  simp only [firstMisfit_simP h, h.length_eq]
  split
  · exact .panic _
  · split
    · exact .diag ⟨rfl, rfl⟩
    · split
      · exact .diag ⟨rfl, rfl⟩
      · exact nativeBody_simP name l c l' c' h

/-! ## user calls -/

theorem sigMatches_simP {as as' : List (Value S)} (h : All₂ Value.SimP as as') :
    ∀ ps : List (Param S), sigMatches ps as = sigMatches ps as' := by
  induction h with
  | nil => intro ps; rfl
  | cons hab _ ih =>
    intro ps
    cases ps with
    | nil => rfl
    | cons p ps =>
      cases p with
      | ident n => simp only [sigMatches, ih]
      | number z => cases hab <;> simp only [sigMatches, ih]

theorem bindParams_simP {as as' : List (Value S)} (h : All₂ Value.SimP as as') :
    ∀ (ps : List (Param S)) {env env' : Env S}, Env.SimP env env' →
      Env.SimP (bindParams ps as env) (bindParams ps as' env') := by
  induction h with
  | nil => intro ps env env' he; cases ps with
    | nil => exact he
    | cons p ps => cases p <;> exact he
  | cons hab _ ih =>
    intro ps env env' he
    cases ps with
    | nil => exact he
    | cons p ps =>
      cases p with
      | ident n => simp only [bindParams]; exact ih ps (Env.insert_simP he n hab false)
      | number z => simp only [bindParams]; exact ih ps he

theorem find?_simP {α : Type} {R : α → α → Prop} {p p' : α → Bool} {l l' : List α}
    (h : All₂ R l l') (hp : ∀ a b, R a b → p a = p' b) :
    (l.find? p = none ∧ l'.find? p' = none) ∨
      ∃ a b, l.find? p = some a ∧ l'.find? p' = some b ∧ R a b := by
  induction h with
  | nil => exact .inl ⟨rfl, rfl⟩
  | @cons a b l l' hab _ ih =>
    simp only [List.find?_cons, ← hp a b hab]
    cases p a
    · exact ih
    · exact .inr ⟨a, b, rfl, rfl, hab⟩

/-- an evaluator that respects the relation -/
def Evaluator.Resp (ev : Evaluator S) : Prop :=
  ∀ e e' env env', Expr.SimP e e' → Env.SimP env env' →
    Res.SimP Value.SimP (ev e env).res (ev e' env').res

theorem callUser_simP {ev : Evaluator S} (hev : Evaluator.Resp ev) {fn fn' : UserFn S}
    (hf : UserFn.SimP fn fn') (l c l' c' : Nat) {as as' : List (Value S)}
    (h : All₂ Value.SimP as as') {env env' : Env S} (he : Env.SimP env env') :
    Res.SimP Value.SimP (callUser ev fn l c as env) (callUser ev fn' l' c' as' env') := by
  unfold callUser
  rcases find?_simP (p := fun se => sigMatches se.1.params as)
      (p' := fun se => sigMatches se.1.params as') hf.sigs
      (fun a b hab => by simp only [hab.1, sigMatches_simP h]) with
    ⟨h1, h2⟩ | ⟨⟨sg, bd⟩, ⟨sg', bd'⟩, h1, h2, hs, hb⟩
  · rw [h1, h2]; exact .diag ⟨rfl, hf.name⟩
  · rw [h1, h2]
    simp only at hs hb
    subst hs
    exact hev _ _ _ _ hb (bindParams_simP h _ he)

/-! ## lists of arguments, rows -/

theorem evalList_simP {ev : Evaluator S} (hev : Evaluator.Resp ev)
    (henv : ∀ e env, (ev e env).env = env) :
    ∀ {es es' : List (Expr S)}, Expr.SimPArgs es es' → ∀ (env env' : Env S), Env.SimP env env' →
      Res.SimP (All₂ Value.SimP) (evalList ev es env).1 (evalList ev es' env').1
  | _, _, .nil => fun _ _ _ => .ok .nil
  | _, _, .cons (e := e) (e' := e') (es := es) (es' := es') h hs => fun env env' he => by
    have h1 := hev _ _ _ _ h he
    have ih := evalList_simP hev henv hs _ _ he
    simp only [evalList, henv]
    revert h1
    generalize (ev e env).res = r1
    generalize (ev e' env').res = r1'
    intro h1
    cases h1 with
    | ok hv =>
      simp only []
      revert ih
      generalize evalList ev es env = p
      generalize evalList ev es' env' = p'
      obtain ⟨r, e2⟩ := p
      obtain ⟨r', e2'⟩ := p'
      intro ih
      simp only at ih ⊢
      cases ih with
      | ok hvs => exact .ok (.cons hv hvs)
      | diag hd => exact .diag hd
      | panic s => exact .panic s
      | fuel => exact .fuel
    | diag hd => exact .diag hd
    | panic s => exact .panic s
    | fuel => exact .fuel

theorem evalRow_simP {ev : Evaluator S} (hev : Evaluator.Resp ev)
    (henv : ∀ e env, (ev e env).env = env) (br br' : Tok S) (ri : Nat) :
    ∀ {es es' : List (Expr S)}, Expr.SimPArgs es es' → ∀ (ci : Nat) (env env' : Env S),
      Env.SimP env env' →
      Res.SimP Eq (evalRow ev br ri ci es env).1 (evalRow ev br' ri ci es' env').1
  | _, _, .nil => fun _ _ _ _ => .ok rfl
  | _, _, .cons (e := e) (e' := e') (es := es) (es' := es') h hs => fun ci env env' he => by
    have h1 := hev _ _ _ _ h he
    have ih := evalRow_simP hev henv br br' ri hs (ci + 1) _ _ he
    simp only [evalRow, henv]
    revert h1
    generalize (ev e env).res = r1
    generalize (ev e' env').res = r1'
    intro h1
    cases h1 with
    | ok hv =>
      cases hv <;> simp only [] <;> try exact .diag ⟨rfl, rfl⟩
      revert ih
      generalize evalRow ev br ri (ci + 1) es env = p
      generalize evalRow ev br' ri (ci + 1) es' env' = p'
      obtain ⟨r, e2⟩ := p
      obtain ⟨r', e2'⟩ := p'
      intro ih
      simp only at ih ⊢
      cases ih with
      | ok hvs => subst hvs; exact .ok rfl
      | diag hd => exact .diag hd
      | panic s => exact .panic s
      | fuel => exact .fuel
    | diag hd => exact .diag hd
    | panic s => exact .panic s
    | fuel => exact .fuel

theorem evalRows_simP {ev : Evaluator S} (hev : Evaluator.Resp ev)
    (henv : ∀ e env, (ev e env).env = env) (br br' : Tok S) :
    ∀ {rs rs' : List (List (Expr S))}, Expr.SimPRows rs rs' → ∀ (ri : Nat) (env env' : Env S),
      Env.SimP env env' →
      Res.SimP Eq (evalRows ev br ri rs env).1 (evalRows ev br' ri rs' env').1
  | _, _, .nil => fun _ _ _ _ => .ok rfl
  | _, _, .cons (r := row) (r' := row') (rs := rs) (rs' := rs') h hs => fun ri env env' he => by
    have h1 := evalRow_simP hev henv br br' ri h 0 _ _ he
    have ih := evalRows_simP hev henv br br' hs (ri + 1) _ _ he
    have e1 := evalRow_env ev henv br ri row 0 env
    have e1' := evalRow_env ev henv br' ri row' 0 env'
    simp only [evalRows]
    revert h1 e1 e1'
    generalize evalRow ev br ri 0 row env = p
    generalize evalRow ev br' ri 0 row' env' = p'
    obtain ⟨r, e2⟩ := p
    obtain ⟨r', e2'⟩ := p'
    intro h1 e1 e1'
    simp only at h1 e1 e1' ⊢
    subst e1 e1'
    cases h1 with
    | ok hv =>
      subst hv
      simp only []
      revert ih
      generalize evalRows ev br (ri + 1) rs e2 = q
      generalize evalRows ev br' (ri + 1) rs' e2' = q'
      obtain ⟨r, e3⟩ := q
      obtain ⟨r', e3'⟩ := q'
      intro ih
      simp only at ih ⊢
      cases ih with
      | ok hvs => subst hvs; exact .ok rfl
      | diag hd => exact .diag hd
      | panic s => exact .panic s
      | fuel => exact .fuel
    | diag hd => exact .diag hd
    | panic s => exact .panic s
    | fuel => exact .fuel

/-! ## the evaluator -/

/-- the shape shared by `as`, unary operators and groupings -/
theorem post_simP {o o' : EvalOut S} (h : Res.SimP Value.SimP o.res o'.res)
    {g g' : Value S → Res (Value S)}
    (hg : ∀ v v', Value.SimP v v' → Res.SimP Value.SimP (g v) (g' v')) :
    Res.SimP Value.SimP
      (match o.res with | .ok v => (⟨g v, o.env⟩ : EvalOut S) | _ => o).res
      (match o'.res with | .ok v => (⟨g' v, o'.env⟩ : EvalOut S) | _ => o').res := by
  obtain ⟨r, e⟩ := o
  obtain ⟨r', e'⟩ := o'
  simp only at h ⊢
  cases h with
  | ok hv => exact hg _ _ hv
  | diag hd => exact .diag hd
  | panic s => exact .panic s
  | fuel => exact .fuel

theorem eval_simP : ∀ f : Nat, Evaluator.Resp (eval f : Evaluator S) := by
  intro f
  induction f with
  | zero => intro e e' env env' _ _; exact .fuel
  | succ f ih =>
    intro e e' env env' h he
    cases h with
    | number => exact .ok (.number _)
    | measurement => exact .ok (.measurement _ _)
    | ident ht => exact lookupIdent_simP ht he
    | as_ hx ht =>
      simp only [eval]
      exact post_simP (ih _ _ _ _ hx he) (fun v v' hv => asop_simP _ hv)
    | unary ht hx =>
      simp only [eval]
      exact post_simP (ih _ _ _ _ hx he) (fun v v' hv => unop_simP ht hv)
    | grouping ht hx =>
      simp only [eval]
      exact post_simP (ih _ _ _ _ hx he) (fun v v' hv => groupop_simP _ hv)
    | @binary l l' r r' op op' hl ht hr =>
      simp only [eval, eval_env]
      have h1 := ih _ _ _ _ hl he
      have h2 := ih _ _ _ _ hr he
      revert h1 h2
      generalize eval f l env = o1
      generalize eval f l' env' = o1'
      generalize eval f r env = o2
      generalize eval f r' env' = o2'
      obtain ⟨r1, e1⟩ := o1
      obtain ⟨r1', e1'⟩ := o1'
      obtain ⟨r2, e2⟩ := o2
      obtain ⟨r2', e2'⟩ := o2'
      intro h1 h2
      simp only at h1 h2 ⊢
      cases h1 with
      | ok ha =>
        simp only []
        cases h2 with
        | ok hb => exact binop_simP ht ha hb
        | diag hd => exact .diag hd
        | panic s => exact .panic s
        | fuel => exact .fuel
      | diag hd => exact .diag hd
      | panic s => exact .panic s
      | fuel => exact .fuel
    | @matrix rows rows' br br' ht hrows =>
      simp only [eval]
      cases hrows with
      | nil => exact .panic _
      | @cons row row' rs rs' hrow hrs =>
        have h1 := evalRows_simP ih (eval_env f) br br' (.cons hrow hrs) 0 _ _ he
        revert h1
        generalize evalRows (eval f) br 0 (row :: rs) env = p
        generalize evalRows (eval f) br' 0 (row' :: rs') env' = p'
        obtain ⟨r, e2⟩ := p
        obtain ⟨r', e2'⟩ := p'
        intro h1
        simp only at h1 ⊢
        cases h1 with
        | ok hv => subst hv; exact Res.SimP.vrefl _
        | diag hd => exact .diag hd
        | panic s => exact .panic s
        | fuel => exact .fuel
    | @call fn fn' lp lp' args args' hfn ht hargs =>
      simp only [eval, eval_env]
      have h1 := ih _ _ _ _ hfn he
      have h2 := evalList_simP ih (eval_env f) hargs _ _ he
      have e2 := evalList_env (eval f) (eval_env f) args env
      have e2' := evalList_env (eval f) (eval_env f) args' env'
      revert h1 h2 e2 e2'
      generalize eval f fn env = o1
      generalize eval f fn' env' = o1'
      generalize evalList (eval f) args env = p
      generalize evalList (eval f) args' env' = p'
      obtain ⟨r1, e1⟩ := o1
      obtain ⟨r1', e1'⟩ := o1'
      obtain ⟨r, e2⟩ := p
      obtain ⟨r', e2'⟩ := p'
      intro h1 h2 e2 e2'
      simp only at h1 h2 e2 e2' ⊢
      subst e2 e2'
      cases h1 with
      | ok hv =>
        cases hv with
        | number => exact .diag ⟨rfl, rfl⟩
        | measurement => exact .diag ⟨rfl, rfl⟩
        | matrix => exact .diag ⟨rfl, rfl⟩
        | native n =>
          simp only []
          cases h2 with
          | ok hvs => exact callNative_simP _ _ _ _ _ hvs
          | diag hd => exact .diag hd
          | panic s => exact .panic s
          | fuel => exact .fuel
        | user hf =>
          simp only []
          cases h2 with
          | ok hvs => exact callUser_simP ih hf _ _ _ _ hvs he
          | diag hd => exact .diag hd
          | panic s => exact .panic s
          | fuel => exact .fuel
      | diag hd => exact .diag hd
      | panic s => exact .panic s
      | fuel => exact .fuel

/-! ## statements -/

theorem resLine_simP {r r' : Res (Value S)} (h : Res.SimP Value.SimP r r') :
    All₂ Line.SimP (resLine r) (resLine r') := by
  cases h with
  | ok hv => exact .cons (.value hv) .nil
  | diag hd => exact .cons (.evalErr hd) .nil
  | panic s => exact .cons (.panic s) .nil
  | fuel => exact .cons .fuel .nil

theorem errOut_simP {env env' : Env S} (he : Env.SimP env env') (k : EvalErrKind) (t t' : Tok S)
    (info : Str) : StepOut.SimP (errOut env k t info) (errOut env' k t' info) :=
  ⟨he, .cons (.evalErr ⟨rfl, rfl⟩) .nil⟩

theorem defineSig_simP {sigs sigs' : List (Sig S × Expr S)} (h : All₂ SigBody.SimP sigs sigs')
    (sig : Sig S) {b b' : Expr S} (hb : Expr.SimP b b') :
    All₂ SigBody.SimP (defineSig sigs sig b) (defineSig sigs' sig b') := by
  induction h with
  | nil => exact .cons ⟨rfl, hb⟩ .nil
  | @cons x y l l' hxy hl ih =>
    obtain ⟨s1, b1⟩ := x
    obtain ⟨s2, b2⟩ := y
    obtain ⟨hs, hbb⟩ := hxy
    simp only at hs hbb
    subst hs
    simp only [defineSig]
    split
    · exact .cons ⟨rfl, hb⟩ hl
    · exact .cons ⟨rfl, hbb⟩ ih

theorem All₂.isEmpty_eq {α : Type} {R : α → α → Prop} {l l' : List α} (h : All₂ R l l') :
    l.isEmpty = l'.isEmpty := by
  cases h <;> rfl

theorem assignTail_simP {r r' : Res (Value S)} {env env' : Env S}
    (he : Env.SimP env env') (k : Str) : Res.SimP Value.SimP r r' →
    StepOut.SimP
      (match r with
        | .ok v => (⟨Env.insert env k ⟨v, false⟩, []⟩ : StepOut S)
        | r => ⟨env, resLine r⟩)
      (match r' with
        | .ok v => (⟨Env.insert env' k ⟨v, false⟩, []⟩ : StepOut S)
        | r => ⟨env', resLine r⟩) := by
  intro h
  cases h with
  | ok hv => exact ⟨Env.insert_simP he k hv false, .nil⟩
  | diag hd => exact ⟨he, resLine_simP (.diag hd)⟩
  | panic s => exact ⟨he, resLine_simP (.panic s)⟩
  | fuel => exact ⟨he, resLine_simP .fuel⟩

theorem step_simP (fuel : Nat) {env env' : Env S} (he : Env.SimP env env') {s s' : Stmt S}
    (hs : Stmt.SimP s s') : StepOut.SimP (step fuel env s) (step fuel env' s') := by
  cases hs with
  | expr hx =>
    simp only [step, eval_env]
    exact ⟨he, resLine_simP (eval_simP fuel _ _ _ _ hx he)⟩
  | @deleteVar t t' ht =>
    simp only [step, ← ht.2]
    rcases Env.get_simP he t.lexeme with ⟨h1, h2⟩ | ⟨v, v', h1, h2, hc, hv⟩
    · rw [h1, h2]; exact errOut_simP he _ _ _ _
    · rw [h1, h2]; simp only [← hc]
      split
      · exact errOut_simP he _ _ _ _
      · exact ⟨Env.remove_simP he _, .nil⟩
  | @deleteSig t t' sig ht =>
    simp only [step, ← ht.2]
    rcases Env.get_simP he t.lexeme with ⟨h1, h2⟩ | ⟨v, v', h1, h2, hc, hv⟩
    · rw [h1, h2]; exact errOut_simP he _ _ _ _
    · rw [h1, h2]; simp only [← hc]
      split
      · exact errOut_simP he _ _ _ _
      · obtain ⟨val, c⟩ := v
        obtain ⟨val', c'⟩ := v'
        simp only at hv ⊢
        cases hv with
        | number => exact errOut_simP he _ _ _ _
        | measurement => exact errOut_simP he _ _ _ _
        | matrix => exact errOut_simP he _ _ _ _
        | native => exact errOut_simP he _ _ _ _
        | @user f f' hf =>
          simp only []
          have hk := All₂.filter_simP (p := fun se : Sig S × Expr S => !sigEq se.1.params sig.params)
            (fun a b hab => by simp only [hab.1]) hf.sigs
          rw [← hk.length_eq, ← hf.sigs.length_eq, ← hk.isEmpty_eq, ← hf.name]
          split
          · exact errOut_simP he _ _ _ _
          · split
            · exact ⟨Env.remove_simP he _, .nil⟩
            · refine ⟨Env.insert_simP he _ (.user ?_) false, .nil⟩
              exact ⟨rfl, hk⟩
  | @assign t t' e e' ht hx =>
    simp only [step, ← ht.2, eval_env]
    have hev := eval_simP fuel _ _ _ _ hx he
    rcases Env.get_simP he t.lexeme with ⟨h1, h2⟩ | ⟨v, v', h1, h2, hc, hv⟩
    · rw [h1, h2]; simp only []; exact assignTail_simP he _ hev
    · rw [h1, h2]
      obtain ⟨val, c⟩ := v
      obtain ⟨val', c'⟩ := v'
      simp only at hc
      subst hc
      cases c
      · simp only []; exact assignTail_simP he _ hev
      · exact errOut_simP he _ _ _ _
  | @define t t' sig b b' ht hb =>
    simp only [step, ← ht.2]
    rcases Env.get_simP he t.lexeme with ⟨h1, h2⟩ | ⟨v, v', h1, h2, hc, hv⟩
    · rw [h1, h2]
      refine ⟨Env.insert_simP he _ (.user ?_) false, .nil⟩
      exact ⟨rfl, .cons ⟨rfl, hb⟩ .nil⟩
    · rw [h1, h2]; simp only [← hc]
      split
      · exact errOut_simP he _ _ _ _
      · obtain ⟨val, c⟩ := v
        obtain ⟨val', c'⟩ := v'
        simp only at hv ⊢
        cases hv with
        | number =>
          refine ⟨Env.insert_simP he _ (.user ?_) false, .nil⟩
          exact ⟨rfl, .cons ⟨rfl, hb⟩ .nil⟩
        | measurement =>
          refine ⟨Env.insert_simP he _ (.user ?_) false, .nil⟩
          exact ⟨rfl, .cons ⟨rfl, hb⟩ .nil⟩
        | matrix =>
          refine ⟨Env.insert_simP he _ (.user ?_) false, .nil⟩
          exact ⟨rfl, .cons ⟨rfl, hb⟩ .nil⟩
        | native => exact errOut_simP he _ _ _ _
        | @user f f' hf =>
          refine ⟨Env.insert_simP he _ (.user ?_) false, .nil⟩
          exact ⟨hf.name, defineSig_simP hf.sigs sig hb⟩
  | clear => exact ⟨Env.retainConstants_simP he, .nil⟩

theorem All₂.append {α : Type} {R : α → α → Prop} {l l' m m' : List α} (h : All₂ R l l')
    (h' : All₂ R m m') : All₂ R (l ++ m) (l' ++ m') := by
  induction h with
  | nil => exact h'
  | cons hab _ ih => exact .cons hab ih

theorem runStmts_simP (fuel : Nat) {ss ss' : List (Stmt S)} (hs : All₂ Stmt.SimP ss ss') :
    ∀ {env env' : Env S}, Env.SimP env env' →
      StepOut.SimP (runStmts fuel env ss) (runStmts fuel env' ss') := by
  induction hs with
  | nil => intro env env' he; exact ⟨he, .nil⟩
  | cons hab _ ih =>
    intro env env' he
    have h1 := step_simP fuel he hab
    have h2 := ih h1.env
    exact ⟨h2.env, h1.out.append h2.out⟩

end ops

/-! ## printing -/

section print
variable [Kernel S]

mutual
theorem showExpr_simP : ∀ {e e' : Expr S}, Expr.SimP e e' → showExpr e = showExpr e'
  | _, _, .as_ h _ => by simp only [showExpr, showExpr_simP h]
  | _, _, .binary h1 ht h2 => by
    simp only [showExpr, showExpr_simP h1, showExpr_simP h2, ht.tag, ht.2]
  | _, _, .unary ht h => by simp only [showExpr, showExpr_simP h, ht.tag, ht.2]
  | _, _, .grouping _ h => by simp only [showExpr, showExpr_simP h]
  | _, _, .number => rfl
  | _, _, .measurement => rfl
  | _, _, .matrix _ h => by simp only [showExpr, showRows_simP h]
  | _, _, .ident ht => by simp only [showExpr, ht.2]
  | _, _, .call h _ ha => by simp only [showExpr, showExpr_simP h, showArgs_simP ha]
theorem showArgs_simP : ∀ {es es' : List (Expr S)}, Expr.SimPArgs es es' →
    showArgs es = showArgs es'
  | _, _, .nil => rfl
  | _, _, .cons h hs => by simp only [showArgs, showExpr_simP h, showArgs_simP hs]
theorem showRows_simP : ∀ {rs rs' : List (List (Expr S))}, Expr.SimPRows rs rs' →
    showRows rs = showRows rs'
  | _, _, .nil => rfl
  | _, _, .cons h hs => by simp only [showRows, showArgs_simP h, showRows_simP hs]
end

theorem map_showSigEntry_simP {l l' : List (Sig S × Expr S)} (h : All₂ SigBody.SimP l l')
    (n : Str) : l.map (showSigEntry n) = l'.map (showSigEntry n) := by
  induction h with
  | nil => rfl
  | @cons a b l l' hab _ ih =>
    simp only [List.map_cons, ih, showSigEntry, hab.1, showExpr_simP hab.2]

theorem showValue_simP {v v' : Value S} (h : Value.SimP v v') : showValue v = showValue v' := by
  cases h with
  | number => rfl
  | measurement => rfl
  | matrix => rfl
  | native => rfl
  | @user f f' hf =>
    simp only [showValue, showUserFn, ← hf.name, map_showSigEntry_simP hf.sigs]

end print

end Calc
