/-
  Calc.Proofs.SigPer — the C13 invariants re-proved under a hypothesis binary64 satisfies.

  `Calc/Proofs/SigLemmas.lean` and `Calc/Proofs/SigInv.lean` take
  `heq : ∀ a b, Kernel.eq a b = true ↔ a = b`, which is FALSE for IEEE binary64
  (`NaN == NaN` is false, `-0.0 == 0.0` is true).  Here `Kernel.eq` is only assumed to be a
  PARTIAL EQUIVALENCE (`EqPer`): symmetric, transitive, and reflexive on the scalars satisfying
  `ok` ("is not NaN").  `LitsOK`-style predicates say that every literal parameter satisfies `ok`.

  What turns out to be needed where:
    * symmetry + transitivity of `Kernel.eq` are enough for `PairwiseInequiv` to be preserved by
      `defineSig`, by `filter`, by every statement, and along `runStmts` / `session`;
    * reflexivity (hence `ok` on the literals) is needed only for `sigEquiv ps ps = true`, i.e. for
      "redefining the very same signature replaces it"; the predicate `FnLitsOK` is carried along
      statements so that this holds of every stored signature.
  Core Lean only.
-/
import Calc.Model.Front
import Calc.Proofs.EnvLemmas
import Calc.Proofs.EvalPure
import Calc.Proofs.SigLemmas
import Calc.Proofs.SigInv
namespace Calc

/-- `Kernel.eq` is a partial equivalence relation, reflexive on the scalars satisfying `ok`.
    IEEE-754 `==` on binary64 (and on pairs of binary64) satisfies this with `ok` = "no part is a
    NaN" (`Calc/Proofs/SigPerBits.lean`); it does NOT satisfy `Kernel.eq a b = true ↔ a = b`. -/
structure EqPer (S : Type) [Kernel S] (ok : S → Prop) : Prop where
  refl : ∀ a : S, ok a → Kernel.eq a a = true
  symm : ∀ a b : S, Kernel.eq a b = true → Kernel.eq b a = true
  trans : ∀ a b c : S, Kernel.eq a b = true → Kernel.eq b c = true → Kernel.eq a c = true

/-- the exact hypothesis of `Calc/Props/C13.lean` is the special case `ok := fun _ => True` -/
theorem EqPer.of_eq {S : Type} [Kernel S] (heq : ∀ a b : S, Kernel.eq a b = true ↔ a = b) :
    EqPer S (fun _ => True) where
  refl a _ := (heq a a).mpr rfl
  symm a b h := (heq b a).mpr ((heq a b).mp h).symm
  trans a b c h1 h2 := (heq a c).mpr (((heq a b).mp h1).trans ((heq b c).mp h2))

/-! ### `LitsOK`: every literal parameter satisfies `ok` -/

section Lits
variable {S : Type}

/-- a parameter whose literal (if it is one) satisfies `ok` -/
def ParamLitsOK (ok : S → Prop) : Param S → Prop
  | .ident _ => True
  | .number z => ok z

/-- a parameter list all of whose literals satisfy `ok` -/
def SigLitsOK (ok : S → Prop) (ps : List (Param S)) : Prop := ∀ p ∈ ps, ParamLitsOK ok p

/-- a signature list all of whose literal parameters satisfy `ok` -/
def SigsLitsOK (ok : S → Prop) (sigs : List (Sig S × Expr S)) : Prop :=
  ∀ e ∈ sigs, SigLitsOK ok e.1.params

def FnLitsOK (ok : S → Prop) (fn : UserFn S) : Prop := SigsLitsOK ok fn.sigs

def ValLitsOK (ok : S → Prop) (v : Value S) : Prop := ∀ fn, v = .user fn → FnLitsOK ok fn

/-- every function value stored in the table (visible or not) has `ok` literal parameters -/
def EnvLitsOK (ok : S → Prop) (env : Env S) : Prop := ∀ kv ∈ env, ValLitsOK ok kv.2.value

/-- The only statement that stores parameters is a definition: its signature must have `ok`
    literals.  (The parser builds that signature from the number-literal arguments of the call
    expression on the left of `=`; literals inside bodies and other expressions never become
    parameters, and the signature of a deletion is only compared, never stored.) -/
def StmtLitsOK (ok : S → Prop) : Stmt S → Prop
  | .define _ sig _ => SigLitsOK ok sig.params
  | _ => True

theorem SigLitsOK.nil (ok : S → Prop) : SigLitsOK ok ([] : List (Param S)) := by
  intro p h; cases h

theorem SigLitsOK.cons {ok : S → Prop} {p : Param S} {ps : List (Param S)} :
    SigLitsOK ok (p :: ps) ↔ ParamLitsOK ok p ∧ SigLitsOK ok ps := by
  unfold SigLitsOK
  constructor
  · intro h
    exact ⟨h p List.mem_cons_self, fun q hq => h q (List.mem_cons_of_mem _ hq)⟩
  · rintro ⟨h1, h2⟩ q hq
    rcases List.mem_cons.mp hq with rfl | hq
    · exact h1
    · exact h2 q hq

theorem SigsLitsOK.filter {ok : S → Prop} {sigs : List (Sig S × Expr S)} (h : SigsLitsOK ok sigs)
    (p : Sig S × Expr S → Bool) : SigsLitsOK ok (sigs.filter p) :=
  fun e he => h e (List.mem_filter.mp he).1

theorem SigsLitsOK.singleton {ok : S → Prop} {sig : Sig S} (h : SigLitsOK ok sig.params)
    (body : Expr S) : SigsLitsOK ok [(sig, body)] := by
  intro e he
  rcases List.mem_cons.mp he with rfl | he
  · exact h
  · cases he

/-- where literal parameters come from (`Signature::from_call_expression`, `sigParams` in
    `Model/Parser.lean`): each is a number-literal ARGUMENT of the call expression left of `=`.
    If those literals are `ok`, so are the literal parameters of the signature built from them. -/
theorem sigParams_litsOK {ok : S → Prop} : ∀ (args : List (Expr S)) (ps : List (Param S)),
    sigParams args = some ps → (∀ z, Expr.number z ∈ args → ok z) → SigLitsOK ok ps := by
  intro args
  induction args with
  | nil =>
    intro ps h _
    simp only [sigParams, Option.some.injEq] at h
    subst h
    exact SigLitsOK.nil ok
  | cons a args ih =>
    intro ps h hok
    have hok' : ∀ z, Expr.number z ∈ args → ok z := fun z hz => hok z (List.mem_cons_of_mem _ hz)
    cases a with
    | ident name =>
      simp only [sigParams, Option.map_eq_some_iff] at h
      obtain ⟨qs, hq, rfl⟩ := h
      exact SigLitsOK.cons.mpr ⟨trivial, ih qs hq hok'⟩
    | number z =>
      simp only [sigParams, Option.map_eq_some_iff] at h
      obtain ⟨qs, hq, rfl⟩ := h
      exact SigLitsOK.cons.mpr ⟨hok z List.mem_cons_self, ih qs hq hok'⟩
    | _ => simp [sigParams] at h

end Lits

/-! ### `sigEquiv` under a partial equivalence -/

section Equiv
variable {S : Type} [Kernel S]

/-- what `paramEquiv` says, with no assumption on `Kernel.eq`: two names, or two literals that
    are `==` -/
theorem paramEquiv_iff' (p q : Param S) :
    paramEquiv p q = true ↔
      (∃ a b, p = .ident a ∧ q = .ident b) ∨
      (∃ z w, p = .number z ∧ q = .number w ∧ Kernel.eq z w = true) := by
  cases p with
  | ident a =>
    cases q with
    | ident b => simp [paramEquiv]
    | number w => simp [paramEquiv]
  | number z =>
    cases q with
    | ident b => simp [paramEquiv]
    | number w => simp [paramEquiv]

/-- what `sigEquiv` says, with no assumption on `Kernel.eq`: same length, and position by position
    the parameters are `paramEquiv` -/
theorem sigEquiv_iff' (ps qs : List (Param S)) :
    sigEquiv ps qs = true ↔
      ps.length = qs.length ∧
      ∀ (i : Nat) (p q : Param S), ps[i]? = some p → qs[i]? = some q → paramEquiv p q = true := by
  induction ps generalizing qs with
  | nil =>
    cases qs with
    | nil => simp [sigEquiv_nil_nil]
    | cons q qs => simp [sigEquiv_nil_cons]
  | cons p ps ih =>
    cases qs with
    | nil => simp [sigEquiv_cons_nil]
    | cons q qs =>
      rw [sigEquiv_cons_cons, Bool.and_eq_true, ih]
      constructor
      · rintro ⟨hp, hl, h⟩
        refine ⟨by simp [hl], ?_⟩
        intro i p' q' hi hj
        cases i with
        | zero =>
          simp only [List.getElem?_cons_zero, Option.some.injEq] at hi hj
          subst hi; subst hj
          exact hp
        | succ i => exact h i p' q' (by simpa using hi) (by simpa using hj)
      · rintro ⟨hl, h⟩
        exact ⟨h 0 p q (by simp) (by simp), by simpa using hl,
          fun i p' q' hi hj => h (i + 1) p' q' (by simpa using hi) (by simpa using hj)⟩

variable {ok : S → Prop} (hper : EqPer S ok)
include hper

theorem paramEquiv_refl_per {p : Param S} (h : ParamLitsOK ok p) : paramEquiv p p = true := by
  cases p with
  | ident a => rfl
  | number z =>
    simp only [paramEquiv]
    exact hper.refl z h

theorem paramEquiv_symm_per {p q : Param S} (h : paramEquiv p q = true) :
    paramEquiv q p = true := by
  cases p with
  | ident a =>
    cases q with
    | ident b => rfl
    | number w => simp [paramEquiv] at h
  | number z =>
    cases q with
    | ident b => simp [paramEquiv] at h
    | number w =>
      simp only [paramEquiv] at h ⊢
      exact hper.symm z w h

theorem paramEquiv_trans_per {p q r : Param S} (h1 : paramEquiv p q = true)
    (h2 : paramEquiv q r = true) : paramEquiv p r = true := by
  cases p with
  | ident a =>
    cases q with
    | ident b =>
      cases r with
      | ident c => rfl
      | number v => simp [paramEquiv] at h2
    | number w => simp [paramEquiv] at h1
  | number z =>
    cases q with
    | ident b => simp [paramEquiv] at h1
    | number w =>
      cases r with
      | ident c => simp [paramEquiv] at h2
      | number v =>
        simp only [paramEquiv] at h1 h2 ⊢
        exact hper.trans z w v h1 h2

/-- `sigEquiv` is reflexive on signatures whose literals are `ok` (not NaN) -/
theorem sigEquiv_refl_per {ps : List (Param S)} (h : SigLitsOK ok ps) : sigEquiv ps ps = true := by
  induction ps with
  | nil => exact sigEquiv_nil_nil
  | cons p ps ih =>
    rw [SigLitsOK.cons] at h
    rw [sigEquiv_cons_cons, Bool.and_eq_true]
    exact ⟨paramEquiv_refl_per hper h.1, ih h.2⟩

theorem sigEquiv_symm_per : ∀ {ps qs : List (Param S)}, sigEquiv ps qs = true →
    sigEquiv qs ps = true := by
  intro ps
  induction ps with
  | nil =>
    intro qs h
    cases qs with
    | nil => exact sigEquiv_nil_nil
    | cons q qs => rw [sigEquiv_nil_cons] at h; cases h
  | cons p ps ih =>
    intro qs h
    cases qs with
    | nil => rw [sigEquiv_cons_nil] at h; cases h
    | cons q qs =>
      rw [sigEquiv_cons_cons, Bool.and_eq_true] at h
      rw [sigEquiv_cons_cons, Bool.and_eq_true]
      exact ⟨paramEquiv_symm_per hper h.1, ih h.2⟩

theorem sigEquiv_trans_per : ∀ {ps qs rs : List (Param S)}, sigEquiv ps qs = true →
    sigEquiv qs rs = true → sigEquiv ps rs = true := by
  intro ps
  induction ps with
  | nil =>
    intro qs rs h1 h2
    cases qs with
    | nil => exact h2
    | cons q qs => rw [sigEquiv_nil_cons] at h1; cases h1
  | cons p ps ih =>
    intro qs rs h1 h2
    cases qs with
    | nil => rw [sigEquiv_cons_nil] at h1; cases h1
    | cons q qs =>
      cases rs with
      | nil => rw [sigEquiv_cons_nil] at h2; cases h2
      | cons r rs =>
        rw [sigEquiv_cons_cons, Bool.and_eq_true] at h1 h2
        rw [sigEquiv_cons_cons, Bool.and_eq_true]
        exact ⟨paramEquiv_trans_per hper h1.1 h2.1, ih h1.2 h2.2⟩

/-- a signature that is equivalent to anything is equivalent to itself (so `sigEquiv` restricted
    to the signatures that occur in some equivalence is an equivalence relation) -/
theorem sigEquiv_self_of_left {ps qs : List (Param S)} (h : sigEquiv ps qs = true) :
    sigEquiv ps ps = true :=
  sigEquiv_trans_per hper h (sigEquiv_symm_per hper h)

theorem sigEquiv_congr_right_per {ps qs rs : List (Param S)} (h : sigEquiv qs rs = true) :
    sigEquiv ps qs = sigEquiv ps rs := by
  cases h1 : sigEquiv ps rs with
  | true => exact sigEquiv_trans_per hper h1 (sigEquiv_symm_per hper h)
  | false =>
    cases h2 : sigEquiv ps qs with
    | false => rfl
    | true => rw [sigEquiv_trans_per hper h2 h] at h1; cases h1

theorem sigEquiv_comm_per (ps qs : List (Param S)) : sigEquiv ps qs = sigEquiv qs ps := by
  cases h1 : sigEquiv qs ps with
  | true => exact sigEquiv_symm_per hper h1
  | false =>
    cases h2 : sigEquiv ps qs with
    | false => rfl
    | true => rw [sigEquiv_symm_per hper h2] at h1; cases h1

end Equiv

/-! ### `defineSig` and deletion under a partial equivalence -/

section Define
variable {S : Type} [Kernel S]

/-- a definition keeps `ok` literals -/
theorem SigsLitsOK.defineSig {ok : S → Prop} {sigs : List (Sig S × Expr S)}
    (h : SigsLitsOK ok sigs) {sig : Sig S} (hs : SigLitsOK ok sig.params) (body : Expr S) :
    SigsLitsOK ok (Calc.defineSig sigs sig body) := by
  intro e he
  rcases mem_defineSig he with he | rfl
  · exact h e he
  · exact hs

variable {ok : S → Prop} (hper : EqPer S ok)
include hper

/-- a definition keeps the invariant when `Kernel.eq` is a partial equivalence; reflexivity is not
    used, so nothing is asked of the literals -/
theorem PairwiseInequiv.defineSig_per {sigs : List (Sig S × Expr S)} (h : PairwiseInequiv sigs)
    (sig : Sig S) (body : Expr S) : PairwiseInequiv (Calc.defineSig sigs sig body) := by
  induction sigs with
  | nil => exact PairwiseInequiv.singleton _
  | cons e sigs ih =>
    obtain ⟨s', b'⟩ := e
    unfold PairwiseInequiv at h ih ⊢
    rw [List.pairwise_cons] at h
    rw [defineSig_cons]
    split
    · next he =>
      rw [List.pairwise_cons]
      refine ⟨?_, h.2⟩
      intro e hm
      have := h.1 e hm
      rw [sigEquiv_comm_per hper, ← sigEquiv_congr_right_per hper he, sigEquiv_comm_per hper]
      exact this
    · next he =>
      rw [List.pairwise_cons]
      refine ⟨?_, ih h.2⟩
      intro e hm
      rcases mem_defineSig hm with hm | rfl
      · exact h.1 e hm
      · simpa using he

/-- under the invariant at most one entry is `==` to a given signature -/
theorem countP_sigEq_le_one_per {sigs : List (Sig S × Expr S)} (h : PairwiseInequiv sigs)
    (sig : Sig S) : sigs.countP (fun se => sigEq se.1.params sig.params) ≤ 1 := by
  apply countP_le_one_of_pairwise _ _ sigs h
  intro a b hab ha hb
  have h1 := sigEquiv_of_sigEq ha
  have h2 := sigEquiv_of_sigEq hb
  rw [sigEquiv_trans_per hper h1 (sigEquiv_symm_per hper h2)] at hab
  cases hab

/-- under the invariant at most one entry is EQUIVALENT to a given signature (this is the count
    that matters for `defineSig`: at most one entry can be replaced) -/
theorem countP_sigEquiv_le_one_per {sigs : List (Sig S × Expr S)} (h : PairwiseInequiv sigs)
    (sig : Sig S) : sigs.countP (fun se => sigEquiv se.1.params sig.params) ≤ 1 := by
  apply countP_le_one_of_pairwise _ _ sigs h
  intro a b hab ha hb
  rw [sigEquiv_trans_per hper ha (sigEquiv_symm_per hper hb)] at hab
  cases hab

/-- under the invariant, deleting a signature that is present removes exactly that one entry:
    everything before and after it is kept, in order -/
theorem filter_sigEq_remove_exactly_per (pre post : List (Sig S × Expr S)) (s : Sig S)
    (b : Expr S) (sig : Sig S) (h : PairwiseInequiv (pre ++ (s, b) :: post))
    (hs : sigEq s.params sig.params = true) :
    (pre ++ (s, b) :: post).filter (fun se => !sigEq se.1.params sig.params) = pre ++ post := by
  unfold PairwiseInequiv at h
  rw [List.pairwise_append, List.pairwise_cons] at h
  obtain ⟨-, ⟨hpost, -⟩, hpre⟩ := h
  have hse := sigEquiv_of_sigEq hs
  have h1 : ∀ e ∈ pre, (!sigEq e.1.params sig.params) = true := by
    intro e he
    cases hq : sigEq e.1.params sig.params with
    | false => rfl
    | true =>
      have := hpre e he (s, b) List.mem_cons_self
      rw [sigEquiv_trans_per hper (sigEquiv_of_sigEq hq) (sigEquiv_symm_per hper hse)] at this
      cases this
  have h2 : ∀ e ∈ post, (!sigEq e.1.params sig.params) = true := by
    intro e he
    cases hq : sigEq e.1.params sig.params with
    | false => rfl
    | true =>
      have := hpost e he
      rw [sigEquiv_trans_per hper hse (sigEquiv_symm_per hper (sigEquiv_of_sigEq hq))] at this
      cases this
  rw [List.filter_append, List.filter_cons]
  simp only [hs, Bool.not_true, Bool.false_eq_true, if_false]
  rw [List.filter_eq_self.mpr h1, List.filter_eq_self.mpr h2]

/-- under the invariant, once the entry `==` to `sig` is gone, no remaining entry is even
    EQUIVALENT to `sig`: a later definition of `sig` is appended at the end -/
theorem inequiv_after_delete_per (pre post : List (Sig S × Expr S)) (s : Sig S)
    (b : Expr S) (sig : Sig S) (h : PairwiseInequiv (pre ++ (s, b) :: post))
    (hs : sigEq s.params sig.params = true) :
    ∀ e ∈ pre ++ post, sigEquiv e.1.params sig.params = false := by
  unfold PairwiseInequiv at h
  rw [List.pairwise_append, List.pairwise_cons] at h
  obtain ⟨-, ⟨hpost, -⟩, hpre⟩ := h
  have hse := sigEquiv_of_sigEq hs
  intro e he
  rcases List.mem_append.mp he with he | he
  · have := hpre e he (s, b) List.mem_cons_self
    rw [sigEquiv_congr_right_per hper hse] at this
    exact this
  · have := hpost e he
    rw [sigEquiv_comm_per hper, sigEquiv_congr_right_per hper hse] at this
    exact this

end Define

/-! ### the evaluator only returns stored function values — for an arbitrary predicate on
    function values (`SigInv.lean` proves this for `GoodFn` only) -/

section EvalP
variable {S : Type} [Add S] [Sub S] [Mul S] [Div S] [Zero S] [One S] [Kernel S]

/-- a value that, if it is a user function, satisfies `P` -/
def ValP (P : UserFn S → Prop) (v : Value S) : Prop := ∀ fn, v = .user fn → P fn

/-- every function value stored in the table (visible or not) satisfies `P` -/
def EnvP (P : UserFn S → Prop) (env : Env S) : Prop := ∀ kv ∈ env, ValP P kv.2.value

def ResP (P : UserFn S → Prop) (r : Res (Value S)) : Prop := ∀ v, r = .ok v → ValP P v

section Basic
omit [Add S] [Sub S] [Mul S] [Div S] [Zero S] [One S]
variable {P : UserFn S → Prop}

omit [Kernel S] in
theorem NotUser.resP {r : Res (Value S)} (h : NotUser r) : ResP P r := by
  intro v hv fn hfn
  subst hfn
  exact absurd hv (h fn)

omit [Kernel S] in
theorem ValP.user {fn : UserFn S} (h : P fn) : ValP P (.user fn) := by
  intro fn' e; cases e; exact h

omit [Kernel S] in
theorem EnvP.get {env : Env S} (h : EnvP P env) {k : Str} {v : Variable S}
    (hg : Env.get env k = some v) : ValP P v.value :=
  h _ (Env.mem_of_get hg)

omit [Kernel S] in
theorem EnvP.filter {env : Env S} (h : EnvP P env) (p : Str × Variable S → Bool) :
    EnvP P (env.filter p) :=
  fun kv hm => h kv (List.mem_filter.mp hm).1

omit [Kernel S] in
theorem EnvP.remove {env : Env S} (h : EnvP P env) (k : Str) : EnvP P (Env.remove env k) :=
  h.filter _

omit [Kernel S] in
theorem EnvP.retainConstants {env : Env S} (h : EnvP P env) : EnvP P (Env.retainConstants env) :=
  h.filter _

omit [Kernel S] in
theorem EnvP.insert {env : Env S} (h : EnvP P env) (k : Str) {v : Value S} (hv : ValP P v)
    (c : Bool) : EnvP P (Env.insert env k ⟨v, c⟩) := by
  intro kv hm
  rcases List.mem_cons.mp hm with rfl | hm
  · exact hv
  · exact h.remove k kv hm

omit [Kernel S] in
theorem EnvP.of_no_user {env : Env S} (h : ∀ kv ∈ env, ∀ fn, kv.2.value ≠ .user fn) :
    EnvP P env :=
  fun kv hm fn e => absurd e (h kv hm fn)

omit [Kernel S] in
theorem EnvP.and {Q : UserFn S → Prop} {env : Env S} (h1 : EnvP P env) (h2 : EnvP Q env) :
    EnvP (fun fn => P fn ∧ Q fn) env :=
  fun kv hm fn e => ⟨h1 kv hm fn e, h2 kv hm fn e⟩

omit [Kernel S] in
theorem bindParams_envP (ps : List (Param S)) :
    ∀ (as : List (Value S)) (env : Env S), EnvP P env → (∀ a ∈ as, ValP P a) →
      EnvP P (bindParams ps as env) := by
  induction ps with
  | nil => intro as env h _; rw [bindParams_nil]; exact h
  | cons p ps ih =>
    intro as env h has
    cases as with
    | nil => rw [bindParams_cons_nil]; exact h
    | cons a as =>
      have has' : ∀ a ∈ as, ValP P a := fun x hx => has x (List.mem_cons_of_mem _ hx)
      cases p with
      | ident n =>
        rw [bindParams_ident]
        exact ih as _ (h.insert n (has a List.mem_cons_self) false) has'
      | number z => rw [bindParams_number]; exact ih as _ h has'

end Basic

variable {P : UserFn S → Prop}

omit [Sub S] [Mul S] [Div S] [One S] in
theorem groupop_resP (paren : Tok S) (k : GKind) {v : Value S} (hv : ValP P v) :
    ResP P (groupop paren k v) := by
  cases k with
  | grouping =>
    intro w hw
    simp only [groupop] at hw
    cases hw
    exact hv
  | absolute =>
    apply NotUser.resP
    intro fn h
    simp only [groupop, diagAt] at h
    repeat' split at h
    all_goals first | cases h | (simp at h)
  | ceil =>
    apply NotUser.resP
    intro fn h
    simp only [groupop, diagAt] at h
    repeat' split at h
    all_goals first | cases h | (simp at h)
  | floor =>
    apply NotUser.resP
    intro fn h
    simp only [groupop, diagAt] at h
    repeat' split at h
    all_goals first | cases h | (simp at h)

omit [Add S] [Sub S] [Mul S] [Div S] [Zero S] [One S] [Kernel S] in
theorem evalList_resP (ev : Evaluator S) (henv : ∀ e env, (ev e env).env = env)
    (hev : ∀ e env, EnvP P env → ResP P (ev e env).res) :
    ∀ (es : List (Expr S)) (env : Env S), EnvP P env →
      ∀ vs, (evalList ev es env).1 = .ok vs → ∀ v ∈ vs, ValP P v := by
  intro es
  induction es with
  | nil =>
    intro env _ vs h v hv
    simp only [evalList] at h
    cases h
    cases hv
  | cons e es ih =>
    intro env hinv vs h v hv
    have h1 := hev e env hinv
    have h2 := ih env hinv
    unfold evalList at h
    simp only [henv] at h
    generalize evalList ev es env = q at h h2
    obtain ⟨r, env'⟩ := q
    cases hr : (ev e env).res with
    | ok w =>
      rw [hr] at h
      cases r with
      | ok ws =>
        simp only at h
        cases h
        rcases List.mem_cons.mp hv with rfl | hv
        · exact h1 _ hr
        · exact h2 ws rfl v hv
      | diag d => simp at h
      | panic s => simp at h
      | fuel => simp at h
    | diag d => rw [hr] at h; simp at h
    | panic s => rw [hr] at h; simp at h
    | fuel => rw [hr] at h; simp at h

omit [Add S] [Sub S] [Mul S] [Div S] [Zero S] [One S] in
theorem callUser_resP (ev : Evaluator S) (hev : ∀ e env, EnvP P env → ResP P (ev e env).res)
    (fn : UserFn S) (line col : Nat) (vs : List (Value S)) (env : Env S) (hinv : EnvP P env)
    (hvs : ∀ v ∈ vs, ValP P v) : ResP P (callUser ev fn line col vs env) := by
  unfold callUser
  split
  · exact hev _ _ (bindParams_envP _ _ _ hinv hvs)
  · intro v h; cases h

/-- the evaluator returns, from a table all of whose stored functions satisfy `P`, only function
    values that satisfy `P` -/
theorem eval_resP : ∀ (fuel : Nat) (e : Expr S) (env : Env S), EnvP P env →
    ResP P (eval fuel e env).res := by
  intro fuel
  induction fuel with
  | zero => intro e env _ v h; cases h
  | succ f ih =>
    intro e env hinv
    cases e with
    | number z => intro v h; cases h; intro fn e; cases e
    | measurement z u => intro v h; cases h; intro fn e; cases e
    | ident name =>
      intro v h
      simp only [eval, lookupIdent] at h
      split at h
      · next w hg => cases h; exact hinv.get hg
      · simp [diagAt] at h
    | as_ x tok u =>
      simp only [eval]
      split
      · exact (asop_notUser tok u _).resP
      · exact ih _ _ hinv
    | unary op x =>
      simp only [eval]
      split
      · exact (unop_notUser op _).resP
      · exact ih _ _ hinv
    | grouping p k x =>
      simp only [eval]
      split
      · next v hv => exact groupop_resP p k (ih x env hinv v hv)
      · exact ih _ _ hinv
    | binary l op r =>
      simp only [eval, eval_env]
      split
      · split
        · exact (binop_notUser op _ _).resP
        · exact ih _ _ hinv
      · exact ih _ _ hinv
    | matrix br rows =>
      simp only [eval]
      split
      · intro v h; cases h
      · generalize evalRows (eval f) br 0 _ env = q
        obtain ⟨r, env'⟩ := q
        apply NotUser.resP
        intro fn h
        cases r <;> simp [Res.bind_eq_ok] at h
    | call callee paren args =>
      simp only [eval, eval_env]
      have hl := evalList_resP (eval f) (eval_env f) ih args env hinv
      have hl2 := evalList_env (eval f) (eval_env f) args env
      generalize evalList (eval f) args env = q at hl hl2
      obtain ⟨r, env'⟩ := q
      simp only at hl hl2
      subst hl2
      have hc := ih callee env' hinv
      split
      · apply NotUser.resP
        intro fn h
        cases r with
        | ok vs => exact callNative_notUser _ _ _ _ fn h
        | diag d => simp at h
        | panic s => simp at h
        | fuel => simp at h
      · next fn hfn =>
        cases r with
        | ok vs => exact callUser_resP (eval f) ih fn _ _ vs env' hinv (hl vs rfl)
        | diag d => intro v h; simp at h
        | panic s => intro v h; simp at h
        | fuel => intro v h; simp at h
      · intro v h; simp at h
      · exact hc

/-! ### every statement keeps `EnvP P`, given what `P` must satisfy at a definition and at a
    deletion -/

/-- what a predicate on function values has to satisfy for a definition of `sig` to keep it -/
structure DefineKeeps (P : UserFn S → Prop) (sig : Sig S) : Prop where
  fresh : ∀ (n : Str) (body : Expr S), P ⟨n, [(sig, body)]⟩
  update : ∀ (fn : UserFn S) (body : Expr S), P fn →
    P { fn with sigs := defineSig fn.sigs sig body }

/-- what it has to satisfy for a signature deletion to keep it -/
def FilterKeeps (P : UserFn S → Prop) : Prop :=
  ∀ (fn : UserFn S) (p : Sig S × Expr S → Bool), P fn → fn.sigs.filter p ≠ [] →
    P { fn with sigs := fn.sigs.filter p }

theorem envP_step (hfil : FilterKeeps P) (fuel : Nat) (env : Env S) (s : Stmt S)
    (hdef : ∀ name sig body, s = .define name sig body → DefineKeeps P sig)
    (hinv : EnvP P env) : EnvP P (step fuel env s).env := by
  cases s with
  | expr e => simp only [step, eval_env]; exact hinv
  | deleteVar name =>
    simp only [step]
    repeat' split
    all_goals first | exact hinv | exact hinv.remove _
  | clear => exact hinv.retainConstants
  | assign name e =>
    simp only [step, eval_env]
    split
    · exact hinv
    · split
      · next v hv => exact hinv.insert _ (eval_resP fuel e env hinv v hv) false
      · exact hinv
  | deleteSig name sig =>
    simp only [step]
    split
    · next v hg =>
      split
      · exact hinv
      · split
        · exact hinv
        · next fn hfn =>
          have hgood : P fn := hinv.get hg fn hfn
          split
          · exact hinv
          · split
            · exact hinv.remove _
            · next hne =>
              refine hinv.insert _ (ValP.user (hfil fn _ hgood ?_)) false
              intro he
              rw [he] at hne
              exact hne rfl
        · exact hinv
    · exact hinv
  | define name sig body =>
    have hk := hdef name sig body rfl
    have hfresh : ValP P (.user ⟨name.lexeme, [(sig, body)]⟩ : Value S) :=
      ValP.user (hk.fresh _ _)
    simp only [step]
    split
    · next v hg =>
      split
      · exact hinv
      · split
        · next fn hfn =>
          have hgood : P fn := hinv.get hg fn hfn
          exact hinv.insert _ (ValP.user (hk.update fn body hgood)) false
        · exact hinv
        · exact hinv.insert _ hfresh false
    · exact hinv.insert _ hfresh false

theorem envP_runStmts (hfil : FilterKeeps P) (fuel : Nat) (ss : List (Stmt S)) :
    ∀ env : Env S, (∀ s ∈ ss, ∀ name sig body, s = .define name sig body → DefineKeeps P sig) →
      EnvP P env → EnvP P (runStmts fuel env ss).env := by
  induction ss with
  | nil => intro env _ h; exact h
  | cons s ss ih =>
    intro env hd h
    simp only [runStmts]
    exact ih _ (fun s' hs' => hd s' (List.mem_cons_of_mem _ hs'))
      (envP_step hfil fuel env s (hd s List.mem_cons_self) h)

theorem envP_processText (hfil : FilterKeeps P) (hdef : ∀ sig : Sig S, DefineKeeps P sig)
    (cfg : ScanCfg S) (fuel : Nat) (env : Env S) (text : Str) (h : EnvP P env) :
    EnvP P (processText cfg fuel env text).env := by
  unfold processText
  split
  · exact h
  · exact h
  · exact h
  · split
    · exact h
    · exact h
    · exact envP_runStmts hfil fuel _ env (fun _ _ _ sig _ _ => hdef sig) h

theorem envP_repl (hfil : FilterKeeps P) (hdef : ∀ sig : Sig S, DefineKeeps P sig)
    (cfg : ScanCfg S) (fuel : Nat) (ls : List Str) :
    ∀ env : Env S, EnvP P env → EnvP P (repl cfg fuel env ls).env := by
  induction ls with
  | nil => intro env h; exact h
  | cons l ls ih =>
    intro env h
    simp only [repl]
    split
    · exact h
    · exact ih _ (envP_processText hfil hdef cfg fuel env _ h)

theorem envP_session (hfil : FilterKeeps P) (hdef : ∀ sig : Sig S, DefineKeeps P sig)
    (cfg : ScanCfg S) (fuel : Nat) (init : Env S) (file expr : Option Str) (stdin : List Str)
    (h : EnvP P init) : EnvP P (session cfg fuel init file expr stdin).env := by
  unfold session
  cases file with
  | none =>
    cases expr with
    | none => exact envP_repl hfil hdef cfg fuel stdin _ h
    | some t => exact envP_processText hfil hdef cfg fuel _ _ h
  | some f =>
    have h1 := envP_processText hfil hdef cfg fuel init (ensureTrailingNewline f) h
    cases expr with
    | none => exact envP_repl hfil hdef cfg fuel stdin _ h1
    | some t => exact envP_processText hfil hdef cfg fuel _ _ h1

/-! ### the two instances: `GoodFn` (needs symmetry + transitivity only) and
    `GoodFn ∧ FnLitsOK` (what makes stored signatures self-equivalent) -/

omit [Add S] [Sub S] [Mul S] [Div S] [Zero S] [One S] in
theorem goodFn_filterKeeps : FilterKeeps (GoodFn (S := S)) :=
  fun _ p h hne => ⟨hne, h.2.filter p⟩

omit [Add S] [Sub S] [Mul S] [Div S] [Zero S] [One S] in
theorem goodFn_defineKeeps {ok : S → Prop} (hper : EqPer S ok) (sig : Sig S) :
    DefineKeeps (GoodFn (S := S)) sig where
  fresh _ _ := ⟨by simp, PairwiseInequiv.singleton _⟩
  update fn body h := ⟨defineSig_ne_nil _ _ _, PairwiseInequiv.defineSig_per hper h.2 sig body⟩

/-- a well-formed function all of whose literal parameters are `ok` -/
def GoodLitFn (ok : S → Prop) (fn : UserFn S) : Prop := GoodFn fn ∧ FnLitsOK ok fn

omit [Add S] [Sub S] [Mul S] [Div S] [Zero S] [One S] in
theorem goodLitFn_filterKeeps (ok : S → Prop) : FilterKeeps (GoodLitFn ok) :=
  fun fn p h hne => ⟨goodFn_filterKeeps fn p h.1 hne, SigsLitsOK.filter h.2 p⟩

omit [Add S] [Sub S] [Mul S] [Div S] [Zero S] [One S] in
theorem goodLitFn_defineKeeps {ok : S → Prop} (hper : EqPer S ok) (sig : Sig S)
    (hs : SigLitsOK ok sig.params) : DefineKeeps (GoodLitFn ok) sig where
  fresh n body := ⟨(goodFn_defineKeeps hper sig).fresh n body, SigsLitsOK.singleton hs body⟩
  update fn body h :=
    ⟨(goodFn_defineKeeps hper sig).update fn body h.1, SigsLitsOK.defineSig h.2 hs body⟩

omit [Add S] [Sub S] [Mul S] [Div S] [Zero S] [One S] in
theorem envP_goodFn_iff (env : Env S) : EnvP GoodFn env ↔ FnInv env := Iff.rfl

/-- every statement keeps `FnInv`, when `Kernel.eq` is a partial equivalence -/
theorem fnInv_step_per {ok : S → Prop} (hper : EqPer S ok) (fuel : Nat) (env : Env S)
    (s : Stmt S) (hinv : FnInv env) : FnInv (step fuel env s).env :=
  envP_step goodFn_filterKeeps fuel env s (fun _ sig _ _ => goodFn_defineKeeps hper sig) hinv

theorem fnInv_runStmts_per {ok : S → Prop} (hper : EqPer S ok) (fuel : Nat) (ss : List (Stmt S))
    (env : Env S) (hinv : FnInv env) : FnInv (runStmts fuel env ss).env :=
  envP_runStmts goodFn_filterKeeps fuel ss env
    (fun _ _ _ sig _ _ => goodFn_defineKeeps hper sig) hinv

theorem fnInv_session_per {ok : S → Prop} (hper : EqPer S ok) (cfg : ScanCfg S) (fuel : Nat)
    (init : Env S) (file expr : Option Str) (stdin : List Str) (h : FnInv init) :
    FnInv (session cfg fuel init file expr stdin).env :=
  envP_session goodFn_filterKeeps (goodFn_defineKeeps hper) cfg fuel init file expr stdin h

/-- every statement whose definition literals are `ok` keeps "well formed, and all stored literal
    parameters `ok`" -/
theorem goodLit_step {ok : S → Prop} (hper : EqPer S ok) (fuel : Nat) (env : Env S) (s : Stmt S)
    (hs : StmtLitsOK ok s) (hinv : EnvP (GoodLitFn ok) env) :
    EnvP (GoodLitFn ok) (step fuel env s).env := by
  refine envP_step (goodLitFn_filterKeeps ok) fuel env s ?_ hinv
  intro name sig body e
  subst e
  exact goodLitFn_defineKeeps hper sig hs

theorem goodLit_runStmts {ok : S → Prop} (hper : EqPer S ok) (fuel : Nat) (ss : List (Stmt S))
    (env : Env S) (hs : ∀ s ∈ ss, StmtLitsOK ok s) (hinv : EnvP (GoodLitFn ok) env) :
    EnvP (GoodLitFn ok) (runStmts fuel env ss).env := by
  refine envP_runStmts (goodLitFn_filterKeeps ok) fuel ss env ?_ hinv
  intro s hm name sig body e
  have := hs s hm
  subst e
  exact goodLitFn_defineKeeps hper sig this

end EvalP

end Calc
