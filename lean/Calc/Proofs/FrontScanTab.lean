/-
  Calc.Proofs.FrontScanTab — positions never influence the control flow of the scanner: two
  configurations that differ only in the tab size produce the same token kinds and lexemes (and
  fail on the same character), only `line` / `col` may differ.  Used by C16_tabsize.
  Core Lean only; independent of the other scanner proof files.
-/
import Calc.Model.Scanner
namespace Calc

variable {S : Type}

/-- a token with its position erased -/
def Tok.erasePos (t : Tok S) : Tok S := { t with line := 0, col := 0 }

/-- a scan result with every position erased (tokens and the scan error) -/
def ScanRes.erasePos : ScanRes S → ScanRes S
  | .ok toks => .ok (toks.map Tok.erasePos)
  | .bad e => .bad ⟨0, 0, e.ch⟩
  | .panic s => .panic s
  | .fuel => .fuel

theorem ScanRes.erasePos_cons (t : Tok S) (r : ScanRes S) :
    (r.cons t).erasePos = r.erasePos.cons t.erasePos := by
  cases r <;> rfl

theorem isIdentCont_congr {cfg₁ cfg₂ : ScanCfg S} (h : cfg₁.isAlnum = cfg₂.isAlnum) :
    isIdentCont cfg₁ = isIdentCont cfg₂ := by
  funext c
  simp only [isIdentCont, h]

/-- the loop, from any two start positions, under any two tab sizes -/
theorem scanLoop_erasePos [Kernel S] (cfg₁ cfg₂ : ScanCfg S)
    (ha : cfg₁.isAlnum = cfg₂.isAlnum) (hk : cfg₁.keyword = cfg₂.keyword) :
    ∀ (f : Nat) (s : List Char) (p₁ p₂ : Pos),
      (scanLoop cfg₁ f s p₁).erasePos = (scanLoop cfg₂ f s p₂).erasePos := by
  have hc := isIdentCont_congr ha
  intro f
  induction f with
  | zero =>
    intro s p₁ p₂
    cases s <;> rfl
  | succ f ih =>
    intro s p₁ p₂
    cases s with
    | nil => rfl
    | cons c cs =>
      simp only [scanLoop]
      split
      · exact ih _ _ _
      · split
        · rw [ScanRes.erasePos_cons, ScanRes.erasePos_cons, ih cs _ (adv cfg₂.tab p₂ c)]
          rfl
        · split
          · rw [hc, hk]
            split
            · rfl
            · rw [ScanRes.erasePos_cons, ScanRes.erasePos_cons,
                ih _ _ (advs cfg₂.tab p₂ (List.takeWhile (isIdentCont cfg₂) (c :: cs)))]
              rfl
          · split
            · split
              · rfl
              · next d _ =>
                rw [ScanRes.erasePos_cons, ScanRes.erasePos_cons,
                  ih _ _ (advs cfg₂.tab p₂ (scanNumber (c :: cs)).text)]
                rfl
            · rfl

theorem scan_erasePos [Kernel S] (cfg₁ cfg₂ : ScanCfg S)
    (ha : cfg₁.isAlnum = cfg₂.isAlnum) (hk : cfg₁.keyword = cfg₂.keyword) (t : List Char) :
    (scan cfg₁ t).erasePos = (scan cfg₂ t).erasePos :=
  scanLoop_erasePos cfg₁ cfg₂ ha hk _ _ _ _

end Calc
