/-
  Calc.Proofs.ParseTokens — the tokens stored in a tree the grammar reads from a phrase occur in
  that phrase, in reading order.  Core Lean only.
-/
import Calc.Proofs.ParseSound
namespace Calc
variable {S : Type}

mutual
/-- the tokens stored in a tree, in reading order (number literals, units and the closing tokens
    of groupings and calls, the opening `[` and the `,`/`;` of lists are not stored) -/
def Expr.toks : Expr S → List (Tok S)
  | .as_ e t _ => e.toks ++ [t]
  | .binary l op r => l.toks ++ op :: r.toks
  | .unary op x => if op.tag = .bang then x.toks ++ [op] else op :: x.toks
  | .grouping o _ e => o :: e.toks
  | .number _ => []
  | .measurement _ _ => []
  | .matrix br rows => Expr.toksRows rows ++ [br]
  | .ident name => [name]
  | .call fn lp args => fn.toks ++ lp :: Expr.toksArgs args
def Expr.toksArgs : List (Expr S) → List (Tok S)
  | [] => []
  | e :: es => e.toks ++ Expr.toksArgs es
def Expr.toksRows : List (List (Expr S)) → List (Tok S)
  | [] => []
  | r :: rs => Expr.toksArgs r ++ Expr.toksRows rs
end

mutual
theorem Derives.toks_sublist : ∀ {l} {c : List (Tok S)} {e}, Derives l c e → e.toks.Sublist c
  | _, _, _, .incl _ h => h.toks_sublist
  | _, _, _, .as_ h _ _ => by
    simp only [Expr.toks]
    exact h.toks_sublist.append (List.Sublist.cons_cons _ (List.nil_sublist _))
  | _, _, _, .binl _ _ h1 h2 => by
    simp only [Expr.toks]
    exact h1.toks_sublist.append (List.Sublist.cons_cons _ h2.toks_sublist)
  | _, _, _, .pow _ h1 h2 => by
    simp only [Expr.toks]
    exact h1.toks_sublist.append (List.Sublist.cons_cons _ h2.toks_sublist)
  | _, _, _, .pre (op := op) hop h => by
    have : ¬ op.tag = Tag.bang := by rcases hop with h' | h' <;> simp [h']
    simp only [Expr.toks, this, if_false]
    exact List.Sublist.cons_cons _ h.toks_sublist
  | _, _, _, .post hop h => by
    simp only [Expr.toks, hop, if_true]
    exact h.toks_sublist.append (List.Sublist.refl _)
  | _, _, _, .call0 _ _ h => by
    simp only [Expr.toks, Expr.toksArgs]
    exact h.toks_sublist.append (List.Sublist.cons_cons _ (List.nil_sublist _))
  | _, _, _, .call _ _ h ha => by
    simp only [Expr.toks]
    exact (h.toks_sublist.append (List.Sublist.cons_cons _ ha.toks_sublist)).trans
      (List.sublist_append_left _ _)
  | _, _, _, .number _ => by simp only [Expr.toks]; exact List.nil_sublist _
  | _, _, _, .measurement _ _ => by simp only [Expr.toks]; exact List.nil_sublist _
  | _, _, _, .ident _ => by simp only [Expr.toks]; exact List.Sublist.refl _
  | _, _, _, .group _ _ h => by
    simp only [Expr.toks]
    exact (List.Sublist.cons_cons _ h.toks_sublist).trans (List.sublist_append_left _ _)
  | _, _, _, .matrix _ _ hr _ => by
    simp only [Expr.toks]
    exact (List.Sublist.cons _ hr.toks_sublist).append (List.Sublist.refl _)
theorem DerivesArgs.toks_sublist : ∀ {c : List (Tok S)} {es}, DerivesArgs c es →
    (Expr.toksArgs es).Sublist c
  | _, _, .one h => by simpa [Expr.toksArgs] using h.toks_sublist
  | _, _, .cons h _ hs => by
    simp only [Expr.toksArgs]
    exact h.toks_sublist.append (List.Sublist.cons _ hs.toks_sublist)
theorem DerivesRows.toks_sublist : ∀ {c : List (Tok S)} {rows}, DerivesRows c rows →
    (Expr.toksRows rows).Sublist c
  | _, _, .one h => by simpa [Expr.toksRows] using h.toks_sublist
  | _, _, .cons h _ hs => by
    simp only [Expr.toksRows]
    exact h.toks_sublist.append (List.Sublist.cons _ hs.toks_sublist)
end

end Calc
