/-
  Calc.Proofs.NoPanicFuel — the magnitude of the numbers plays no role in termination (C01):
  `factorial` multiplies at most 169 times whatever its argument, and a tree without calls is
  evaluated with fuel proportional to its depth only.  Core Lean only.
-/
import Calc.Model.Stmt
import Calc.Proofs.BlameOps
namespace Calc
variable {S : Type} [Add S] [Sub S] [Mul S] [Div S] [Zero S] [One S] [Kernel S]
set_option linter.unusedSectionVars false

/-! ### factorial -/

theorem factorial_big (n : Nat) (h : 170 < n) : factorial (S := S) n = Kernel.inf := by
  simp [factorial, h]

theorem factorial_small (n : Nat) (h : n ≤ 170) :
    factorial (S := S) n =
      (List.range' 2 (n - 1)).foldl (fun acc k => acc * Kernel.ofNat k) 1 ∧
    (List.range' 2 (n - 1)).length ≤ 169 := by
  constructor
  · have : ¬ n > 170 := by omega
    simp [factorial, this]
  · simp only [List.length_range']; omega

/-! ### depth, call-free trees -/

mutual
/-- nesting depth of a tree (a leaf has depth 0) -/
def Expr.depth : Expr S → Nat
  | .as_ e _ _ => e.depth + 1
  | .binary l _ r => max l.depth r.depth + 1
  | .unary _ x => x.depth + 1
  | .grouping _ _ e => e.depth + 1
  | .number _ => 0
  | .measurement _ _ => 0
  | .matrix _ rows => Expr.depthRows rows + 1
  | .ident _ => 0
  | .call callee _ args => max callee.depth (Expr.depthArgs args) + 1
def Expr.depthArgs : List (Expr S) → Nat
  | [] => 0
  | e :: es => max e.depth (Expr.depthArgs es)
def Expr.depthRows : List (List (Expr S)) → Nat
  | [] => 0
  | r :: rs => max (Expr.depthArgs r) (Expr.depthRows rs)
end

mutual
/-- a tree without any call node -/
def Expr.callFree : Expr S → Prop
  | .as_ e _ _ => e.callFree
  | .binary l _ r => l.callFree ∧ r.callFree
  | .unary _ x => x.callFree
  | .grouping _ _ e => e.callFree
  | .number _ => True
  | .measurement _ _ => True
  | .matrix _ rows => Expr.callFreeRows rows
  | .ident _ => True
  | .call _ _ _ => False
def Expr.callFreeArgs : List (Expr S) → Prop
  | [] => True
  | e :: es => e.callFree ∧ Expr.callFreeArgs es
def Expr.callFreeRows : List (List (Expr S)) → Prop
  | [] => True
  | r :: rs => Expr.callFreeArgs r ∧ Expr.callFreeRows rs
end

/-! ### nothing but `eval` itself consumes fuel -/

theorem Res.bind_ok_eq_fuel {α β} (r : Res α) (f : α → β) :
    (r.bind (fun x => .ok (f x)) = .fuel) = (r = .fuel) := by
  cases r <;> simp [Res.bind]

theorem Mat.fromRows_ne_fuel (a : Mat S) : (Mat.fromRows a = .fuel) = False := by
  unfold Mat.fromRows; split <;> simp
theorem Mat.add_ne_fuel (a b : Mat S) : (Mat.add a b = .fuel) = False := by
  unfold Mat.add; split <;> simp
theorem Mat.sub_ne_fuel (a b : Mat S) : (Mat.sub a b = .fuel) = False := by
  unfold Mat.sub; split
  · simp
  · exact Mat.add_ne_fuel _ _
theorem Mat.mul_ne_fuel (a b : Mat S) : (Mat.mul a b = .fuel) = False := by
  unfold Mat.mul; split
  · simp
  · exact Mat.fromRows_ne_fuel _
theorem Mat.rowDot_ne_fuel (a b : Mat S) : (Mat.rowDot a b = .fuel) = False := by
  unfold Mat.rowDot; split <;> simp
theorem Mat.colDot_ne_fuel (a b : Mat S) : (Mat.colDot a b = .fuel) = False := by
  unfold Mat.colDot; split <;> simp
theorem Mat.rowCross_ne_fuel (a b : Mat S) : (Mat.rowCross a b = .fuel) = False := by
  unfold Mat.rowCross; split <;> simp
theorem Mat.colCross_ne_fuel (a b : Mat S) : (Mat.colCross a b = .fuel) = False := by
  unfold Mat.colCross; split <;> simp

macro "fuel_leaf" h:ident : tactic => `(tactic| first
    | (simp only [Res.bind_ok_eq_fuel, Mat.add_ne_fuel, Mat.sub_ne_fuel, Mat.mul_ne_fuel,
        Mat.rowDot_ne_fuel, Mat.colDot_ne_fuel, Mat.rowCross_ne_fuel, Mat.colCross_ne_fuel]
        at $h:ident; done)
    | (cases $h:ident; done))

theorem binop_ne_fuel (op : Tok S) (a b : Value S) : binop op a b ≠ .fuel := by
  intro h
  unfold binop at h
  simp only [diagAt] at h
  split at h
  all_goals (try split at h)
  all_goals (try split at h)
  all_goals (try split at h)
  all_goals fuel_leaf h

theorem unop_ne_fuel (op : Tok S) (a : Value S) : unop op a ≠ .fuel := by
  intro h
  unfold unop at h
  simp only [diagAt] at h
  split at h
  all_goals (try split at h)
  all_goals (try split at h)
  all_goals fuel_leaf h

theorem groupop_ne_fuel (p : Tok S) (k : GKind) (a : Value S) : groupop p k a ≠ .fuel := by
  intro h
  unfold groupop at h
  simp only [diagAt] at h
  split at h
  all_goals (try split at h)
  all_goals (try split at h)
  all_goals (try split at h)
  all_goals fuel_leaf h

theorem asop_ne_fuel (t : Tok S) (u : Unit) (a : Value S) : asop t u a ≠ .fuel := by
  intro h
  unfold asop at h
  simp only [diagAt] at h
  split at h
  all_goals (try split at h)
  all_goals fuel_leaf h

theorem lookupIdent_ne_fuel (n : Tok S) (env : Env S) : lookupIdent n env ≠ .fuel := by
  intro h
  unfold lookupIdent at h
  simp only [diagAt] at h
  split at h <;> cases h

theorem evalRow_ne_fuel (ev : Evaluator S) (br : Tok S) (ri : Nat) :
    ∀ (es : List (Expr S)) (ci : Nat) (env : Env S),
      (∀ e ∈ es, ∀ env, (ev e env).res ≠ .fuel) → (evalRow ev br ri ci es env).1 ≠ .fuel := by
  intro es
  induction es with
  | nil => intro ci env _ h; cases h
  | cons e es ih =>
    intro ci env hes h
    have h1 := hes e List.mem_cons_self env
    have h2 := ih (ci + 1) (ev e env).env (fun x hx => hes x (List.mem_cons_of_mem _ hx))
    unfold evalRow at h
    simp only at h
    split at h
    · split at h
      · cases h
      · next r hne => exact h2 h
    · cases h
    · cases h
    · cases h
    · next hf => exact h1 hf

theorem evalRows_ne_fuel (ev : Evaluator S) (br : Tok S) :
    ∀ (rows : List (List (Expr S))) (ri : Nat) (env : Env S),
      (∀ row ∈ rows, ∀ e ∈ row, ∀ env, (ev e env).res ≠ .fuel) →
      (evalRows ev br ri rows env).1 ≠ .fuel := by
  intro rows
  induction rows with
  | nil => intro ri env _ h; cases h
  | cons row rows ih =>
    intro ri env hrows h
    have h1 := evalRow_ne_fuel ev br ri row 0 env (hrows row List.mem_cons_self)
    have h2 := ih (ri + 1) (evalRow ev br ri 0 row env).2
      (fun r hr => hrows r (List.mem_cons_of_mem _ hr))
    unfold evalRows at h
    simp only at h
    split at h
    · split at h
      · cases h
      · exact h2 h
    · cases h
    · cases h
    · next hf => exact h1 hf

theorem Expr.depth_le_depthArgs {es : List (Expr S)} {e : Expr S} (h : e ∈ es) :
    e.depth ≤ Expr.depthArgs es := by
  induction es with
  | nil => cases h
  | cons x xs ih =>
    simp only [Expr.depthArgs]
    rcases List.mem_cons.mp h with rfl | h
    · exact Nat.le_max_left _ _
    · exact Nat.le_trans (ih h) (Nat.le_max_right _ _)

theorem Expr.depthArgs_le_depthRows {rows : List (List (Expr S))} {row : List (Expr S)}
    (h : row ∈ rows) : Expr.depthArgs row ≤ Expr.depthRows rows := by
  induction rows with
  | nil => cases h
  | cons x xs ih =>
    simp only [Expr.depthRows]
    rcases List.mem_cons.mp h with rfl | h
    · exact Nat.le_max_left _ _
    · exact Nat.le_trans (ih h) (Nat.le_max_right _ _)

theorem Expr.callFree_of_mem_args {es : List (Expr S)} {e : Expr S} (hcf : Expr.callFreeArgs es)
    (h : e ∈ es) : e.callFree := by
  induction es with
  | nil => cases h
  | cons x xs ih =>
    rcases List.mem_cons.mp h with rfl | h
    · exact hcf.1
    · exact ih hcf.2 h

theorem Expr.callFree_of_mem_rows {rows : List (List (Expr S))} {row : List (Expr S)}
    (hcf : Expr.callFreeRows rows) (h : row ∈ rows) : Expr.callFreeArgs row := by
  induction rows with
  | nil => cases h
  | cons x xs ih =>
    rcases List.mem_cons.mp h with rfl | h
    · exact hcf.1
    · exact ih hcf.2 h

/-- a tree without calls never runs out of fuel when given more fuel than its depth -/
theorem eval_callFree_ne_fuel : ∀ (fuel : Nat) (e : Expr S) (env : Env S),
    e.callFree → e.depth < fuel → (eval fuel e env).res ≠ .fuel := by
  intro fuel
  induction fuel with
  | zero => intro e env _ h; exact absurd h (Nat.not_lt_zero _)
  | succ f ih =>
    intro e env hcf hd
    cases e with
    | number z => intro h; simp only [eval] at h; cases h
    | measurement z u => intro h; simp only [eval] at h; cases h
    | ident n => simp only [eval]; exact lookupIdent_ne_fuel n env
    | as_ x t u =>
      simp only [Expr.depth] at hd
      simp only [Expr.callFree] at hcf
      have h1 := ih x env hcf (by omega)
      simp only [eval]
      split
      · exact asop_ne_fuel _ _ _
      · exact h1
    | unary op x =>
      simp only [Expr.depth] at hd
      simp only [Expr.callFree] at hcf
      have h1 := ih x env hcf (by omega)
      simp only [eval]
      split
      · exact unop_ne_fuel _ _
      · exact h1
    | grouping p k x =>
      simp only [Expr.depth] at hd
      simp only [Expr.callFree] at hcf
      have h1 := ih x env hcf (by omega)
      simp only [eval]
      split
      · exact groupop_ne_fuel _ _ _
      · exact h1
    | binary l op r =>
      simp only [Expr.depth] at hd
      simp only [Expr.callFree] at hcf
      have h1 := ih l env hcf.1 (by omega)
      have h2 := ih r (eval f l env).env hcf.2 (by omega)
      simp only [eval]
      split
      · split
        · exact binop_ne_fuel _ _ _
        · exact h2
      · exact h1
    | matrix br rows =>
      simp only [Expr.depth] at hd
      simp only [Expr.callFree] at hcf
      have hrows : ∀ row ∈ rows, ∀ e ∈ row, ∀ env, (eval f e env).res ≠ .fuel := by
        intro row hrow e he env'
        apply ih e env' (Expr.callFree_of_mem_args (Expr.callFree_of_mem_rows hcf hrow) he)
        have := Expr.depth_le_depthArgs he
        have := Expr.depthArgs_le_depthRows hrow
        omega
      simp only [eval]
      split
      · intro h; cases h
      · have h1 := evalRows_ne_fuel (eval f) br _ 0 env hrows
        split
        · intro h
          simp only [Res.bind_ok_eq_fuel, Mat.fromRows_ne_fuel] at h
        · intro h; cases h
        · intro h; cases h
        · next hf => exact absurd hf h1
    | call c p args => exact hcf.elim

end Calc
