/-
  Calc.Proofs.FrontParseTab — positions never influence the control flow of the parser: parsing
  a token list with all positions erased gives the result of parsing the original list, with all
  positions erased (in the statements, and in the parse error).  Together with
  `Calc.Proofs.FrontScanTab` this is the model half of "the tab size only moves positions"
  (C16_tabsize).  Core Lean only; independent of the other parser proof files.
-/
import Calc.Model.Parser
import Calc.Proofs.FrontScanTab
namespace Calc

variable {S : Type}

/-! ### erasing positions in expressions, statements, errors -/

mutual
def Expr.erasePos : Expr S → Expr S
  | .as_ e tok u => .as_ e.erasePos tok.erasePos u
  | .binary l op r => .binary l.erasePos op.erasePos r.erasePos
  | .unary op x => .unary op.erasePos x.erasePos
  | .grouping p k e => .grouping p.erasePos k e.erasePos
  | .number z => .number z
  | .measurement z u => .measurement z u
  | .matrix br rows => .matrix br.erasePos (eraseRows rows)
  | .ident name => .ident name.erasePos
  | .call c p args => .call c.erasePos p.erasePos (eraseArgs args)
def eraseArgs : List (Expr S) → List (Expr S)
  | [] => []
  | e :: es => e.erasePos :: eraseArgs es
def eraseRows : List (List (Expr S)) → List (List (Expr S))
  | [] => []
  | r :: rs => eraseArgs r :: eraseRows rs
end

def Stmt.erasePos : Stmt S → Stmt S
  | .expr e => .expr e.erasePos
  | .deleteVar name => .deleteVar name.erasePos
  | .deleteSig name sig => .deleteSig name.erasePos sig
  | .assign name e => .assign name.erasePos e.erasePos
  | .define name sig body => .define name.erasePos sig body.erasePos
  | .clear => .clear

/-- a parse error with its position erased ("found EOF" stays "found EOF") -/
def PErr.erasePos (e : PErr) : PErr := { e with pos := e.pos.map (fun _ => (0, 0)) }

def PRes.erasePos {α : Type} (g : α → α) : PRes S α → PRes S α
  | .ok a rest => .ok (g a) (rest.map Tok.erasePos)
  | .err e => .err e.erasePos
  | .fuel => .fuel

def ParseRes.erasePos : ParseRes S → ParseRes S
  | .ok ss => .ok (ss.map Stmt.erasePos)
  | .err e => .err e.erasePos
  | .fuel => .fuel

set_option hygiene false in
/-- split an `if` that occurs on both sides of the goal -/
local macro "split_ite" : tactic => `(tactic| (
  split <;> rename_i hc <;> first | simp only [if_pos hc] | simp only [if_neg hc] | skip))

theorem Tok.erasePos_tag (t : Tok S) : t.erasePos.tag = t.tag := rfl
theorem Tok.erasePos_kind (t : Tok S) : t.erasePos.kind = t.kind := rfl
theorem Tok.erasePos_lexeme (t : Tok S) : t.erasePos.lexeme = t.lexeme := rfl

theorem eraseArgs_length (es : List (Expr S)) : (eraseArgs es).length = es.length := by
  induction es with
  | nil => simp [eraseArgs]
  | cons e es ih => simp [eraseArgs, ih]

theorem eraseRows_append (a b : List (List (Expr S))) :
    eraseRows (a ++ b) = eraseRows a ++ eraseRows b := by
  induction a with
  | nil => simp [eraseRows]
  | cons r rs ih => simp [eraseRows, ih]

theorem eraseRows_singleton (row : List (Expr S)) : eraseRows [row] = [eraseArgs row] := by
  simp [eraseRows]

theorem eraseRows_getLast? (rows : List (List (Expr S))) :
    (eraseRows rows).getLast? = rows.getLast?.map eraseArgs := by
  induction rows with
  | nil => simp [eraseRows]
  | cons r rs ih =>
    cases rs with
    | nil => simp [eraseRows]
    | cons r' rs' =>
      have : eraseRows (r :: r' :: rs') = eraseArgs r :: eraseRows (r' :: rs') := by
        simp [eraseRows]
      rw [this]
      have h2 : eraseRows (r' :: rs') = eraseArgs r' :: eraseRows rs' := by simp [eraseRows]
      rw [h2, List.getLast?_cons_cons, ← h2, ih, List.getLast?_cons_cons]

theorem checkTag_erasePos (tg : Tag) (ts : List (Tok S)) :
    checkTag tg (ts.map Tok.erasePos) = checkTag tg ts := by
  cases ts <;> rfl

theorem consume_erasePos (tg : Tag) (ts : List (Tok S)) :
    consume tg (ts.map Tok.erasePos) = (consume tg ts).erasePos Tok.erasePos := by
  cases ts with
  | nil => rfl
  | cons t r =>
    simp only [List.map_cons, consume]
    rw [Tok.erasePos_tag]
    split_ite <;> rfl

theorem consumeDelim_erasePos (ts : List (Tok S)) :
    consumeDelim (ts.map Tok.erasePos) = (consumeDelim ts).erasePos Tok.erasePos := by
  cases ts with
  | nil => rfl
  | cons t r =>
    simp only [List.map_cons, consumeDelim]
    rw [Tok.erasePos_tag]
    split_ite <;> rfl

theorem sigParams_erasePos (args : List (Expr S)) :
    sigParams (eraseArgs args) = sigParams args := by
  induction args with
  | nil => simp [eraseArgs]
  | cons e es ih =>
    cases e <;> simp [eraseArgs, Expr.erasePos, sigParams, ih, Tok.erasePos_lexeme]

theorem sigOfCall_erasePos (callee : Expr S) (args : List (Expr S)) :
    sigOfCall callee.erasePos (eraseArgs args) =
      (sigOfCall callee args).map (fun p => (p.1.erasePos, p.2)) := by
  cases callee with
  | ident name =>
    simp only [Expr.erasePos, sigOfCall, sigParams_erasePos]
    cases sigParams args <;> rfl
  | _ => simp [Expr.erasePos, sigOfCall]

/-! ### the 22 functions of the expression parser, at one fuel value -/

structure ErasedAt (S : Type) (f : Nat) : Prop where
  expression : ∀ ts : List (Tok S),
    pExpression f (ts.map Tok.erasePos) = (pExpression f ts).erasePos Expr.erasePos
  term : ∀ ts : List (Tok S),
    pTerm f (ts.map Tok.erasePos) = (pTerm f ts).erasePos Expr.erasePos
  termLoop : ∀ (acc : Expr S) (ts : List (Tok S)),
    pTermLoop f acc.erasePos (ts.map Tok.erasePos) = (pTermLoop f acc ts).erasePos Expr.erasePos
  factor : ∀ ts : List (Tok S),
    pFactor f (ts.map Tok.erasePos) = (pFactor f ts).erasePos Expr.erasePos
  factorLoop : ∀ (acc : Expr S) (ts : List (Tok S)),
    pFactorLoop f acc.erasePos (ts.map Tok.erasePos) =
      (pFactorLoop f acc ts).erasePos Expr.erasePos
  dot : ∀ ts : List (Tok S),
    pDot f (ts.map Tok.erasePos) = (pDot f ts).erasePos Expr.erasePos
  dotLoop : ∀ (acc : Expr S) (ts : List (Tok S)),
    pDotLoop f acc.erasePos (ts.map Tok.erasePos) = (pDotLoop f acc ts).erasePos Expr.erasePos
  cross : ∀ ts : List (Tok S),
    pCross f (ts.map Tok.erasePos) = (pCross f ts).erasePos Expr.erasePos
  crossLoop : ∀ (acc : Expr S) (ts : List (Tok S)),
    pCrossLoop f acc.erasePos (ts.map Tok.erasePos) = (pCrossLoop f acc ts).erasePos Expr.erasePos
  exponent : ∀ ts : List (Tok S),
    pExponent f (ts.map Tok.erasePos) = (pExponent f ts).erasePos Expr.erasePos
  exponentLoop : ∀ (acc : Expr S) (ts : List (Tok S)),
    pExponentLoop f acc.erasePos (ts.map Tok.erasePos) =
      (pExponentLoop f acc ts).erasePos Expr.erasePos
  unary : ∀ ts : List (Tok S),
    pUnary f (ts.map Tok.erasePos) = (pUnary f ts).erasePos Expr.erasePos
  factorial : ∀ ts : List (Tok S),
    pFactorial f (ts.map Tok.erasePos) = (pFactorial f ts).erasePos Expr.erasePos
  factorialLoop : ∀ (acc : Expr S) (ts : List (Tok S)),
    pFactorialLoop f acc.erasePos (ts.map Tok.erasePos) =
      (pFactorialLoop f acc ts).erasePos Expr.erasePos
  call : ∀ ts : List (Tok S),
    pCall f (ts.map Tok.erasePos) = (pCall f ts).erasePos Expr.erasePos
  callLoop : ∀ (acc : Expr S) (ts : List (Tok S)),
    pCallLoop f acc.erasePos (ts.map Tok.erasePos) = (pCallLoop f acc ts).erasePos Expr.erasePos
  args : ∀ ts : List (Tok S),
    pArgs f (ts.map Tok.erasePos) = (pArgs f ts).erasePos eraseArgs
  argsLoop : ∀ ts : List (Tok S),
    pArgsLoop f (ts.map Tok.erasePos) = (pArgsLoop f ts).erasePos eraseArgs
  rows : ∀ (br : Tok S) (prev : List (List (Expr S))) (idx : Nat) (ts : List (Tok S)),
    pRows f br.erasePos (eraseRows prev) idx (ts.map Tok.erasePos) =
      (pRows f br prev idx ts).erasePos eraseRows
  rowsNext : ∀ (br : Tok S) (prev : List (List (Expr S))) (idx : Nat) (ts : List (Tok S)),
    pRowsNext f br.erasePos (eraseRows prev) idx (ts.map Tok.erasePos) =
      (pRowsNext f br prev idx ts).erasePos eraseRows
  primary : ∀ ts : List (Tok S),
    pPrimary f (ts.map Tok.erasePos) = (pPrimary f ts).erasePos Expr.erasePos
  group : ∀ (o : Tok S) (k : GKind) (ts : List (Tok S)),
    pGroup f o.erasePos k (ts.map Tok.erasePos) = (pGroup f o k ts).erasePos Expr.erasePos

theorem erasedAt : ∀ f, ErasedAt S f := by
  intro f
  induction f with
  | zero =>
    constructor <;> intros <;> simp only [pExpression, pTerm, pTermLoop, pFactor,
      pFactorLoop, pDot, pDotLoop, pCross, pCrossLoop, pExponent, pExponentLoop, pUnary,
      pFactorial, pFactorialLoop, pCall, pCallLoop, pArgs, pArgsLoop, pRows, pRowsNext,
      pPrimary, pGroup] <;> rfl
  | succ f ih =>
    constructor
    case expression =>
      intro ts
      simp only [pExpression]
      rw [ih.term]
      cases pTerm f ts with
      | err e => rfl
      | fuel => rfl
      | ok e r =>
        simp only [PRes.erasePos]
        cases r with
        | nil => rfl
        | cons t r' =>
          simp only [List.map_cons]
          rw [Tok.erasePos_tag]
          split_ite
          · cases r' with
            | nil => rfl
            | cons u r'' =>
              simp only [List.map_cons, Tok.erasePos_kind]
              generalize u.kind = k
              cases k <;> rfl
          · rfl
    case term =>
      intro ts
      simp only [pTerm]
      rw [ih.factor]
      cases pFactor f ts with
      | err e => rfl
      | fuel => rfl
      | ok e r => exact ih.termLoop e r
    case factor =>
      intro ts
      simp only [pFactor]
      rw [ih.dot]
      cases pDot f ts with
      | err e => rfl
      | fuel => rfl
      | ok e r => exact ih.factorLoop e r
    case dot =>
      intro ts
      simp only [pDot]
      rw [ih.cross]
      cases pCross f ts with
      | err e => rfl
      | fuel => rfl
      | ok e r => exact ih.dotLoop e r
    case cross =>
      intro ts
      simp only [pCross]
      rw [ih.exponent]
      cases pExponent f ts with
      | err e => rfl
      | fuel => rfl
      | ok e r => exact ih.crossLoop e r
    case exponent =>
      intro ts
      simp only [pExponent]
      rw [ih.unary]
      cases pUnary f ts with
      | err e => rfl
      | fuel => rfl
      | ok e r => exact ih.exponentLoop e r
    case factorial =>
      intro ts
      simp only [pFactorial]
      rw [ih.call]
      cases pCall f ts with
      | err e => rfl
      | fuel => rfl
      | ok e r => exact ih.factorialLoop e r
    case call =>
      intro ts
      simp only [pCall]
      rw [ih.primary]
      cases pPrimary f ts with
      | err e => rfl
      | fuel => rfl
      | ok e r => exact ih.callLoop e r
    case termLoop =>
      intro acc ts
      cases ts with
      | nil => simp only [List.map_nil, pTermLoop]; rfl
      | cons t r =>
        simp only [List.map_cons, pTermLoop]
        rw [Tok.erasePos_tag]
        split_ite
        · rw [ih.factor]
          cases pFactor f r with
          | err e => rfl
          | fuel => rfl
          | ok right r' => exact ih.termLoop (.binary acc t right) r'
        · rfl
    case factorLoop =>
      intro acc ts
      cases ts with
      | nil => simp only [List.map_nil, pFactorLoop]; rfl
      | cons t r =>
        simp only [List.map_cons, pFactorLoop]
        rw [Tok.erasePos_tag]
        split_ite
        · rw [ih.dot]
          cases pDot f r with
          | err e => rfl
          | fuel => rfl
          | ok right r' => exact ih.factorLoop (.binary acc t right) r'
        · rfl
    case dotLoop =>
      intro acc ts
      cases ts with
      | nil => simp only [List.map_nil, pDotLoop]; rfl
      | cons t r =>
        simp only [List.map_cons, pDotLoop]
        rw [Tok.erasePos_tag]
        split_ite
        · rw [ih.cross]
          cases pCross f r with
          | err e => rfl
          | fuel => rfl
          | ok right r' => exact ih.dotLoop (.binary acc t right) r'
        · rfl
    case crossLoop =>
      intro acc ts
      cases ts with
      | nil => simp only [List.map_nil, pCrossLoop]; rfl
      | cons t r =>
        simp only [List.map_cons, pCrossLoop]
        rw [Tok.erasePos_tag]
        split_ite
        · rw [ih.exponent]
          cases pExponent f r with
          | err e => rfl
          | fuel => rfl
          | ok right r' => exact ih.crossLoop (.binary acc t right) r'
        · rfl
    case exponentLoop =>
      intro acc ts
      cases ts with
      | nil => simp only [List.map_nil, pExponentLoop]; rfl
      | cons t r =>
        simp only [List.map_cons, pExponentLoop]
        rw [Tok.erasePos_tag]
        split_ite
        · rw [ih.exponent]
          cases pExponent f r with
          | err e => rfl
          | fuel => rfl
          | ok right r' => exact ih.exponentLoop (.binary acc t right) r'
        · rfl
    case unary =>
      intro ts
      cases ts with
      | nil => simp only [List.map_nil, pUnary]; exact ih.factorial []
      | cons t r =>
        simp only [List.map_cons, pUnary]
        rw [Tok.erasePos_tag]
        split_ite
        · rw [ih.unary]
          cases pUnary f r with
          | err e => rfl
          | fuel => rfl
          | ok x r' => rfl
        · exact ih.factorial (t :: r)
    case factorialLoop =>
      intro acc ts
      cases ts with
      | nil => simp only [List.map_nil, pFactorialLoop]; rfl
      | cons t r =>
        simp only [List.map_cons, pFactorialLoop]
        rw [Tok.erasePos_tag]
        split_ite
        · exact ih.factorialLoop (.unary t acc) r
        · rfl
    case callLoop =>
      intro acc ts
      cases ts with
      | nil => simp only [List.map_nil, pCallLoop]; rfl
      | cons t r =>
        simp only [List.map_cons, pCallLoop]
        rw [Tok.erasePos_tag]
        split_ite
        · rw [ih.args]
          cases pArgs f r with
          | err e => rfl
          | fuel => rfl
          | ok args r' =>
            simp only [PRes.erasePos]
            rw [consume_erasePos]
            cases consume Tag.rparen r' with
            | err e => rfl
            | fuel => rfl
            | ok cl r'' => exact ih.callLoop (.call acc t args) r''
        · rfl
    case args =>
      intro ts
      simp only [pArgs, checkTag_erasePos]
      split_ite
      · rfl
      · exact ih.argsLoop ts
    case argsLoop =>
      intro ts
      simp only [pArgsLoop]
      rw [ih.expression]
      cases pExpression f ts with
      | err e => rfl
      | fuel => rfl
      | ok e r =>
        simp only [PRes.erasePos]
        cases r with
        | nil => rfl
        | cons t r' =>
          simp only [List.map_cons]
          rw [Tok.erasePos_tag]
          split_ite
          · rw [ih.argsLoop]
            cases pArgsLoop f r' with
            | err e => rfl
            | fuel => rfl
            | ok es r'' => rfl
          · rfl
    case rows =>
      intro br prev idx ts
      simp only [pRows]
      rw [ih.args]
      cases pArgs f ts with
      | err e => rfl
      | fuel => rfl
      | ok row r =>
        simp only [PRes.erasePos, eraseRows_getLast?]
        have hnext := ih.rowsNext br (prev ++ [row]) idx r
        rw [eraseRows_append, eraseRows_singleton] at hnext
        cases prev.getLast? with
        | none => exact hnext
        | some last =>
          simp only [Option.map_some, eraseArgs_length]
          split_ite
          · rfl
          · exact hnext
    case rowsNext =>
      intro br prev idx ts
      cases ts with
      | nil => simp only [List.map_nil, pRowsNext]; rfl
      | cons t r =>
        simp only [List.map_cons, pRowsNext]
        rw [Tok.erasePos_tag]
        split_ite
        · exact ih.rows br prev (idx + 1) r
        · rfl
    case group =>
      intro o k ts
      simp only [pGroup]
      rw [ih.expression]
      cases pExpression f ts with
      | err e => rfl
      | fuel => rfl
      | ok e r =>
        simp only [PRes.erasePos]
        rw [consume_erasePos]
        cases consume (groupClose k) r with
        | err e => rfl
        | fuel => rfl
        | ok cl r' => rfl
    case primary =>
      intro ts
      cases ts with
      | nil => simp only [List.map_nil, pPrimary]; rfl
      | cons t r =>
        simp only [List.map_cons, pPrimary, Tok.erasePos_kind]
        have hg := ih.group t
        have hr := ih.rows t [] 0 r
        generalize t.kind = k at *
        cases k with
        | number z =>
          cases r with
          | nil => rfl
          | cons u r' =>
            simp only [List.map_cons, Tok.erasePos_kind]
            generalize u.kind = ku
            cases ku <;> rfl
        | ident n => rfl
        | lparen => exact hg .grouping r
        | pipe => exact hg .absolute r
        | lceil => exact hg .ceil r
        | lfloor => exact hg .floor r
        | lbracket =>
          simp only
          have : eraseRows ([] : List (List (Expr S))) = [] := by simp [eraseRows]
          rw [this] at hr
          rw [hr]
          cases pRows f t [] 0 r with
          | err e => rfl
          | fuel => rfl
          | ok rows r' =>
            simp only [PRes.erasePos]
            rw [consume_erasePos]
            cases consume Tag.rbracket r' with
            | err e => rfl
            | fuel => rfl
            | ok cl r'' => rfl
        | _ => rfl

/-! ### statements and the statement loop -/

theorem pDelete_erasePos (fuel : Nat) (del : Tok S) (ts : List (Tok S)) :
    pDelete fuel del.erasePos (ts.map Tok.erasePos) =
      (pDelete fuel del ts).erasePos Stmt.erasePos := by
  simp only [pDelete]
  rw [(erasedAt fuel).expression]
  cases pExpression fuel ts with
  | err e => rfl
  | fuel => rfl
  | ok e r =>
    simp only [PRes.erasePos]
    cases e with
    | ident name =>
      simp only [Expr.erasePos]
      rw [consumeDelim_erasePos]
      cases consumeDelim r <;> rfl
    | call callee p args =>
      simp only [Expr.erasePos]
      rw [consumeDelim_erasePos]
      cases consumeDelim r with
      | err e => rfl
      | fuel => rfl
      | ok d r' =>
        simp only [PRes.erasePos, sigOfCall_erasePos]
        cases sigOfCall callee args with
        | none => rfl
        | some p => rfl
    | as_ x tok u => rfl
    | binary l op r => rfl
    | unary op x => rfl
    | grouping p k x => rfl
    | number z => rfl
    | measurement z u => rfl
    | matrix br rows => rfl

theorem pStatementExpr_erasePos (fuel : Nat) (ts : List (Tok S)) :
    pStatement.pStatementExpr fuel (ts.map Tok.erasePos) =
      (pStatement.pStatementExpr fuel ts).erasePos Stmt.erasePos := by
  simp only [pStatement.pStatementExpr]
  rw [(erasedAt fuel).expression]
  cases pExpression fuel ts with
  | err e => rfl
  | fuel => rfl
  | ok e r =>
    simp only [PRes.erasePos]
    have hexpr : ∀ e : Expr S,
        (match consumeDelim (r.map Tok.erasePos) with
          | .ok _ r' => (PRes.ok (Stmt.expr e.erasePos) r' : PRes S (Stmt S))
          | .err e => .err e
          | .fuel => .fuel) =
        (match consumeDelim r with
          | .ok _ r' => (PRes.ok (Stmt.expr e) r' : PRes S (Stmt S))
          | .err e => .err e
          | .fuel => .fuel).erasePos Stmt.erasePos := by
      intro e
      rw [consumeDelim_erasePos]
      cases consumeDelim r <;> rfl
    cases e with
    | ident name =>
      simp only [Expr.erasePos]
      cases r with
      | nil => exact hexpr (.ident name)
      | cons eq r1 =>
        simp only [List.map_cons]
        rw [Tok.erasePos_tag]
        split_ite
        · rw [(erasedAt fuel).expression]
          cases pExpression fuel r1 with
          | err e => rfl
          | fuel => rfl
          | ok right r2 =>
            simp only [PRes.erasePos]
            rw [consumeDelim_erasePos]
            cases consumeDelim r2 <;> rfl
        · exact hexpr (.ident name)
    | call callee p args =>
      simp only [Expr.erasePos]
      cases r with
      | nil => exact hexpr (.call callee p args)
      | cons eq r1 =>
        simp only [List.map_cons]
        rw [Tok.erasePos_tag]
        split_ite
        · rw [(erasedAt fuel).expression]
          cases pExpression fuel r1 with
          | err e => rfl
          | fuel => rfl
          | ok body r2 =>
            simp only [PRes.erasePos]
            rw [consumeDelim_erasePos]
            cases consumeDelim r2 with
            | err e => rfl
            | fuel => rfl
            | ok d r3 =>
              simp only [PRes.erasePos, sigOfCall_erasePos]
              cases sigOfCall callee args with
              | none => rfl
              | some p => rfl
        · exact hexpr (.call callee p args)
    | as_ x tok u => exact hexpr _
    | binary l op r => exact hexpr _
    | unary op x => exact hexpr _
    | grouping p k x => exact hexpr _
    | number z => exact hexpr _
    | measurement z u => exact hexpr _
    | matrix br rows => exact hexpr _

theorem pStatement_erasePos (fuel : Nat) (ts : List (Tok S)) :
    pStatement fuel (ts.map Tok.erasePos) = (pStatement fuel ts).erasePos Stmt.erasePos := by
  cases ts with
  | nil =>
    simp only [List.map_nil, pStatement]
    exact pStatementExpr_erasePos fuel []
  | cons t r =>
    simp only [List.map_cons, pStatement]
    rw [Tok.erasePos_tag]
    split_ite
    · exact pDelete_erasePos fuel t r
    · split
      · rw [consumeDelim_erasePos]
        cases consumeDelim r <;> rfl
      · exact pStatementExpr_erasePos fuel (t :: r)

theorem parseLoop_erasePos (inner : Nat) :
    ∀ (f : Nat) (ts : List (Tok S)),
      parseLoop inner f (ts.map Tok.erasePos) = (parseLoop inner f ts).erasePos := by
  intro f
  induction f with
  | zero => intro ts; cases ts <;> rfl
  | succ f ih =>
    intro ts
    cases ts with
    | nil => rfl
    | cons t r =>
      simp only [List.map_cons, parseLoop]
      rw [Tok.erasePos_tag]
      split_ite
      · exact ih r
      · have := pStatement_erasePos inner (t :: r)
        simp only [List.map_cons] at this
        rw [this]
        cases pStatement inner (t :: r) with
        | err e => rfl
        | fuel => rfl
        | ok s rest =>
          simp only [PRes.erasePos]
          rw [ih rest]
          cases parseLoop inner f rest <;> rfl

/-- parsing commutes with erasing positions -/
theorem parse_erasePos (ts : List (Tok S)) :
    parse (ts.map Tok.erasePos) = (parse ts).erasePos := by
  simp only [parse, List.length_map]
  exact parseLoop_erasePos _ _ ts

/-- scanning then parsing under two configurations that differ only in the tab size: if the
    first scan succeeds so does the second, the tokens agree up to positions, and the parse
    results (statements or parse error) agree up to positions -/
theorem scan_parse_erasePos [Kernel S] (cfg₁ cfg₂ : ScanCfg S)
    (ha : cfg₁.isAlnum = cfg₂.isAlnum) (hk : cfg₁.keyword = cfg₂.keyword) (t : List Char)
    (toks₁ : List (Tok S)) (h1 : scan cfg₁ t = .ok toks₁) :
    ∃ toks₂, scan cfg₂ t = .ok toks₂ ∧
      toks₁.map Tok.erasePos = toks₂.map Tok.erasePos ∧
      (parse toks₁).erasePos = (parse toks₂).erasePos := by
  have h := scan_erasePos cfg₁ cfg₂ ha hk t
  rw [h1] at h
  cases h2 : scan cfg₂ t with
  | ok toks₂ =>
    rw [h2] at h
    simp only [ScanRes.erasePos, ScanRes.ok.injEq] at h
    exact ⟨toks₂, rfl, h, by rw [← parse_erasePos, ← parse_erasePos, h]⟩
  | bad e => rw [h2] at h; simp [ScanRes.erasePos] at h
  | panic s => rw [h2] at h; simp [ScanRes.erasePos] at h
  | fuel => rw [h2] at h; simp [ScanRes.erasePos] at h

end Calc
