/-
  Calc.Proofs.PrintExpr — structure of the text `showExpr` prints for an expression tree (C18):
  the in-order sequence of lexemes of the tree, the glue (blanks) the printer puts between some
  of them, and the fact that two lexemes printed without glue between them cannot fuse.
-/
import Calc.Model.Print
import Calc.Model.Scanner
namespace Calc

variable {S : Type} [Kernel S]

/-! ## joining -/

/-- `xs₀ ++ sep ++ xs₁ ++ sep ++ … ++ xsₙ` for any element type (`joinWith` is the `Char` case) -/
def joinL {α : Type} (sep : List α) : List (List α) → List α
  | [] => []
  | [x] => x
  | x :: y :: xs => x ++ sep ++ joinL sep (y :: xs)

theorem joinWith_eq_joinL (sep : Str) (xs : List Str) : joinWith sep xs = joinL sep xs := by
  induction xs with
  | nil => rfl
  | cons x xs ih =>
    cases xs with
    | nil => rfl
    | cons y ys => simp only [joinWith, joinL, ih]

theorem joinL_cons_cons {α} (sep : List α) (x y : List α) (xs : List (List α)) :
    joinL sep (x :: y :: xs) = x ++ sep ++ joinL sep (y :: xs) := rfl

theorem joinL_flatten_map {α β} (f : List α → List β) (hf : ∀ a b, f (a ++ b) = f a ++ f b)
    (sep : List α) (xs : List (List α)) :
    f (joinL sep xs) = (if xs = [] then f [] else joinL (f sep) (xs.map f)) := by
  induction xs with
  | nil => simp [joinL]
  | cons x xs ih =>
    cases xs with
    | nil => simp [joinL]
    | cons y ys =>
      simp only [joinL, List.map, hf] at ih ⊢
      simp only [reduceCtorEq, if_false] at ih ⊢
      rw [ih]

theorem length_joinL {α} (sep : List α) (xs : List (List α)) :
    (joinL sep xs).length = (xs.map List.length).sum + (xs.length - 1) * sep.length := by
  induction xs with
  | nil => simp [joinL]
  | cons x xs ih =>
    cases xs with
    | nil => simp [joinL]
    | cons y ys =>
      simp only [joinL, List.length_append, ih, List.map, List.sum_cons, List.length_cons]
      simp only [Nat.add_sub_cancel, Nat.succ_mul]
      omega

/-! ## pieces: lexemes and glue -/

/-- what the printer emits: a lexeme of the tree, or glue (blanks that are not part of a lexeme) -/
inductive Piece
  | lex (s : Str)
  | glue (s : Str)
  deriving DecidableEq, Repr

def Piece.text : Piece → Str
  | .lex s => s
  | .glue s => s

/-- the text of a sequence of pieces: the concatenation of their texts -/
def render (ps : List Piece) : Str := (ps.map Piece.text).flatten

/-- the lexemes among the pieces, in order -/
def lexemesOf (ps : List Piece) : List Str :=
  ps.filterMap fun | .lex s => some s | .glue _ => none

/-- the glue among the pieces, in order -/
def gluesOf (ps : List Piece) : List Str :=
  ps.filterMap fun | .glue s => some s | .lex _ => none

theorem render_append (a b : List Piece) : render (a ++ b) = render a ++ render b := by
  simp [render]

theorem render_nil : render [] = [] := rfl

theorem lexemesOf_append (a b : List Piece) : lexemesOf (a ++ b) = lexemesOf a ++ lexemesOf b := by
  simp [lexemesOf]

theorem gluesOf_append (a b : List Piece) : gluesOf (a ++ b) = gluesOf a ++ gluesOf b := by
  simp [gluesOf]

def openBr : GKind → Str
  | .grouping => ['('] | .absolute => ['|'] | .ceil => ['⌈'] | .floor => ['⌊']
def closeBr : GKind → Str
  | .grouping => [')'] | .absolute => ['|'] | .ceil => ['⌉'] | .floor => ['⌋']

/-- is this the tag of an operator that may be spelled as a word (`dot`, `cross`)? -/
def isWordOp (t : Tag) : Bool := t = .dot || t = .cross

/-- the separator of call arguments: the comma lexeme and one blank of glue -/
def argSep : List Piece := [.lex [','], .glue [' ']]

mutual
/-- what `showExpr` emits for a tree, piece by piece.  A number literal, a measurement literal and
    a matrix literal are one piece each (their texts are the subject of C15). -/
def Expr.pieces : Expr S → List Piece
  | .as_ e _ u => e.pieces ++ [.glue [' '], .lex "as".toList, .glue [' '], .lex (unitSymbol u)]
  | .binary l op r =>
    if isWordOp op.tag then l.pieces ++ [.glue [' '], .lex op.lexeme, .glue [' ']] ++ r.pieces
    else l.pieces ++ [.lex op.lexeme] ++ r.pieces
  | .unary op x => if op.tag = .bang then x.pieces ++ [.lex op.lexeme] else [.lex op.lexeme] ++ x.pieces
  | .grouping _ k e => [.lex (openBr k)] ++ e.pieces ++ [.lex (closeBr k)]
  | .number z => [.lex (complexToString z)]
  | .measurement z u => [.lex (showMeasurement z u)]
  | .matrix _ rows => [.lex (matrixFormat (showRows rows))]
  | .ident name => [.lex name.lexeme]
  | .call callee _ args => callee.pieces ++ [.lex ['(']] ++ joinL argSep (Expr.argPieces args) ++ [.lex [')']]
def Expr.argPieces : List (Expr S) → List (List Piece)
  | [] => []
  | e :: es => e.pieces :: Expr.argPieces es
end

mutual
/-- the lexemes of a tree in source order (in-order traversal): left operand, operator, right
    operand; a prefix operator before and the postfix `!` after its operand; both brackets of a
    grouping around its contents; callee, `(`, the arguments separated by `,`, `)`;
    `as` and the unit's symbol after the converted expression. -/
def Expr.lexemes : Expr S → List Str
  | .as_ e _ u => e.lexemes ++ ["as".toList, unitSymbol u]
  | .binary l op r => l.lexemes ++ op.lexeme :: r.lexemes
  | .unary op x => if op.tag = .bang then x.lexemes ++ [op.lexeme] else op.lexeme :: x.lexemes
  | .grouping _ k e => openBr k :: e.lexemes ++ [closeBr k]
  | .number z => [complexToString z]
  | .measurement z u => [showMeasurement z u]
  | .matrix _ rows => [matrixFormat (showRows rows)]
  | .ident name => [name.lexeme]
  | .call callee _ args => callee.lexemes ++ ['('] :: joinL [[',']] (Expr.argLexemes args) ++ [[')']]
def Expr.argLexemes : List (Expr S) → List (List Str)
  | [] => []
  | e :: es => e.lexemes :: Expr.argLexemes es
end

mutual
/-- the number of tokens of a tree (literals count as one) -/
def Expr.tokenCount : Expr S → Nat
  | .as_ e _ _ => e.tokenCount + 2
  | .binary l _ r => l.tokenCount + 1 + r.tokenCount
  | .unary _ x => 1 + x.tokenCount
  | .grouping _ _ e => e.tokenCount + 2
  | .number _ => 1
  | .measurement _ _ => 1
  | .matrix _ _ => 1
  | .ident _ => 1
  | .call callee _ args => callee.tokenCount + 2 + Expr.argTokens args + (args.length - 1)
def Expr.argTokens : List (Expr S) → Nat
  | [] => 0
  | e :: es => e.tokenCount + Expr.argTokens es
end

theorem argPieces_length (es : List (Expr S)) : (Expr.argPieces es).length = es.length := by
  induction es with
  | nil => rfl
  | cons e es ih => simp [Expr.argPieces, ih]

theorem argLexemes_length (es : List (Expr S)) : (Expr.argLexemes es).length = es.length := by
  induction es with
  | nil => rfl
  | cons e es ih => simp [Expr.argLexemes, ih]

theorem render_joinL_argSep (pss : List (List Piece)) :
    render (joinL argSep pss) = joinWith ", ".toList (pss.map render) := by
  rw [joinWith_eq_joinL, joinL_flatten_map render render_append]
  split
  · next h => subst h; rfl
  · rfl

theorem lexemesOf_joinL_argSep (pss : List (List Piece)) :
    lexemesOf (joinL argSep pss) = joinL [[',']] (pss.map lexemesOf) := by
  rw [joinL_flatten_map lexemesOf lexemesOf_append]
  split
  · next h => subst h; rfl
  · rfl

/-! ## the printed text is the rendering of the pieces -/

mutual
theorem showExpr_eq_render : ∀ e : Expr S, showExpr e = render e.pieces
  | .as_ e _ u => by
    simp only [showExpr, Expr.pieces, render_append, showExpr_eq_render e]
    simp [render, Piece.text]
  | .binary l op r => by
    by_cases h : isWordOp op.tag = true
    · have h' : (decide (op.tag = Tag.dot) || decide (op.tag = Tag.cross)) = true := h
      simp only [showExpr, Expr.pieces, h, h', if_true, render_append, showExpr_eq_render l,
        showExpr_eq_render r]
      simp [render, Piece.text]
    · have h' : ¬ (decide (op.tag = Tag.dot) || decide (op.tag = Tag.cross)) = true := h
      simp only [showExpr, Expr.pieces, h, h', showExpr_eq_render l, showExpr_eq_render r]
      simp [render, Piece.text]
  | .unary op x => by
    simp only [showExpr, Expr.pieces]
    split
    · simp only [render_append, showExpr_eq_render x]; simp [render, Piece.text]
    · simp only [render_append, showExpr_eq_render x]; simp [render, Piece.text]
  | .grouping _ k e => by
    simp only [Expr.pieces, render_append, ← showExpr_eq_render e]
    cases k <;> simp [showExpr, render, Piece.text, openBr, closeBr]
  | .number z => by simp [showExpr, Expr.pieces, render, Piece.text]
  | .measurement z u => by simp [showExpr, Expr.pieces, render, Piece.text]
  | .matrix _ rows => by simp [showExpr, Expr.pieces, render, Piece.text]
  | .ident name => by simp [showExpr, Expr.pieces, render, Piece.text]
  | .call callee _ args => by
    simp only [showExpr, Expr.pieces, render_append, render_joinL_argSep,
      showExpr_eq_render callee, showArgs_eq_render args]
    simp [render, Piece.text]
theorem showArgs_eq_render : ∀ es : List (Expr S), showArgs es = (Expr.argPieces es).map render
  | [] => rfl
  | e :: es => by
    simp only [showArgs, Expr.argPieces, List.map, showExpr_eq_render e, showArgs_eq_render es]
end

/-! ## the lexemes among the pieces are the in-order lexemes of the tree -/

mutual
theorem lexemesOf_pieces : ∀ e : Expr S, lexemesOf e.pieces = e.lexemes
  | .as_ e _ u => by
    simp only [Expr.pieces, Expr.lexemes, lexemesOf_append, lexemesOf_pieces e]
    simp [lexemesOf]
  | .binary l op r => by
    simp only [Expr.pieces, Expr.lexemes]
    split
    · simp only [lexemesOf_append, lexemesOf_pieces l, lexemesOf_pieces r]; simp [lexemesOf]
    · simp only [lexemesOf_append, lexemesOf_pieces l, lexemesOf_pieces r]; simp [lexemesOf]
  | .unary op x => by
    simp only [Expr.pieces, Expr.lexemes]
    split
    · simp only [lexemesOf_append, lexemesOf_pieces x]; simp [lexemesOf]
    · simp only [lexemesOf_append, lexemesOf_pieces x]; simp [lexemesOf]
  | .grouping _ k e => by
    simp only [Expr.pieces, Expr.lexemes, lexemesOf_append, lexemesOf_pieces e]
    simp [lexemesOf]
  | .number z => by simp [Expr.pieces, Expr.lexemes, lexemesOf]
  | .measurement z u => by simp [Expr.pieces, Expr.lexemes, lexemesOf]
  | .matrix _ rows => by simp [Expr.pieces, Expr.lexemes, lexemesOf]
  | .ident name => by simp [Expr.pieces, Expr.lexemes, lexemesOf]
  | .call callee _ args => by
    simp only [Expr.pieces, Expr.lexemes, lexemesOf_append, lexemesOf_joinL_argSep,
      lexemesOf_pieces callee, lexemesOf_argPieces args]
    simp [lexemesOf]
theorem lexemesOf_argPieces : ∀ es : List (Expr S),
    (Expr.argPieces es).map lexemesOf = Expr.argLexemes es
  | [] => rfl
  | e :: es => by
    simp only [Expr.argPieces, Expr.argLexemes, List.map, lexemesOf_pieces e, lexemesOf_argPieces es]
end

/-! ## nothing is dropped: as many lexemes as the tree has tokens -/

mutual
theorem length_lexemes : ∀ e : Expr S, e.lexemes.length = e.tokenCount
  | .as_ e _ u => by simp [Expr.lexemes, Expr.tokenCount, length_lexemes e]
  | .binary l op r => by
    simp [Expr.lexemes, Expr.tokenCount, length_lexemes l, length_lexemes r]; omega
  | .unary op x => by
    simp only [Expr.lexemes, Expr.tokenCount]
    split <;> simp [length_lexemes x] <;> omega
  | .grouping _ k e => by simp [Expr.lexemes, Expr.tokenCount, length_lexemes e]
  | .number z => rfl
  | .measurement z u => rfl
  | .matrix _ rows => rfl
  | .ident name => rfl
  | .call callee _ args => by
    simp only [Expr.lexemes, Expr.tokenCount, List.length_append, List.length_cons, length_joinL,
      length_lexemes callee, sum_length_argLexemes args, argLexemes_length, List.length_nil]
    omega
theorem sum_length_argLexemes : ∀ es : List (Expr S),
    ((Expr.argLexemes es).map List.length).sum = Expr.argTokens es
  | [] => rfl
  | e :: es => by
    simp only [Expr.argLexemes, Expr.argTokens, List.map, List.sum_cons, length_lexemes e,
      sum_length_argLexemes es]
end

/-! ## lexemes printed without glue between them cannot fuse -/

/-- the characters that are a token on their own wherever they stand: operators, brackets, comma -/
def opChars : List Char :=
  ['+', '-', '*', '/', '%', '^', '!', '√', '(', ')', '|', '⌈', '⌉', '⌊', '⌋', '[', ']', ',', '•', '×']

/-- a lexeme that is one operator / bracket / comma character -/
def isOpLexeme : Str → Bool
  | [c] => opChars.contains c
  | _ => false

/-- a piece next to which any lexeme may stand: glue, or an operator-character lexeme -/
def Piece.isSep : Piece → Bool
  | .glue _ => true
  | .lex s => isOpLexeme s

/-- every two lexemes that are adjacent with no glue between them include an operator-character
    lexeme -/
def safeB : List Piece → Bool
  | .lex a :: .lex b :: rest => (isOpLexeme a || isOpLexeme b) && safeB (.lex b :: rest)
  | _ :: rest => safeB rest
  | [] => true

theorem safeB_cons_sep (p : Piece) (ys : List Piece) (hp : p.isSep = true) (hy : safeB ys = true) :
    safeB (p :: ys) = true := by
  cases p with
  | glue g => simpa [safeB] using hy
  | lex o =>
    have ho : isOpLexeme o = true := hp
    cases ys with
    | nil => simp [safeB]
    | cons y r =>
      cases y with
      | glue g => simpa [safeB] using hy
      | lex b => simp [safeB, ho, hy]

theorem safeB_tail (x : Piece) (ys : List Piece) (h : safeB (x :: ys) = true) : safeB ys = true := by
  cases x with
  | glue g => simpa [safeB] using h
  | lex a =>
    cases ys with
    | nil => rfl
    | cons y r =>
      cases y with
      | glue g => simpa [safeB] using h
      | lex b => simp [safeB] at h; exact h.2

/-- two safe sequences joined through a separator piece are safe -/
theorem safeB_append_sep (xs : List Piece) (p : Piece) (ys : List Piece)
    (hx : safeB xs = true) (hp : p.isSep = true) (hy : safeB ys = true) :
    safeB (xs ++ p :: ys) = true := by
  induction xs with
  | nil => exact safeB_cons_sep p ys hp hy
  | cons x t ih =>
    have iht := ih (safeB_tail x t hx)
    cases t with
    | nil =>
      cases x with
      | glue g => simpa [safeB] using iht
      | lex a =>
        cases p with
        | glue g => simpa [safeB] using hy
        | lex o =>
          have ho : isOpLexeme o = true := hp
          have : safeB (Piece.lex o :: ys) = true := iht
          simp [safeB, ho, this]
    | cons x' r =>
      cases x with
      | glue g => simpa [safeB] using iht
      | lex a =>
        cases x' with
        | glue g => simpa [safeB] using iht
        | lex b =>
          simp only [safeB, List.cons_append, Bool.and_eq_true] at hx ⊢
          exact ⟨hx.1, iht⟩

/-- what `safeB` says about one adjacent pair -/
theorem safeB_pair (pre : List Piece) (a b : Str) (post : List Piece)
    (h : safeB (pre ++ .lex a :: .lex b :: post) = true) :
    isOpLexeme a = true ∨ isOpLexeme b = true := by
  induction pre with
  | nil => simp [safeB] at h; exact h.1
  | cons x t ih => exact ih (safeB_tail x _ h)

mutual
/-- the tokens of the tree carry the lexemes the scanner gives them: an operator token that is
    not spelled as a word (every unary operator; every binary operator other than `dot`/`cross`)
    has a lexeme of one operator character -/
def Expr.OpLexemes : Expr S → Prop
  | .as_ e _ _ => e.OpLexemes
  | .binary l op r => (isWordOp op.tag = false → isOpLexeme op.lexeme = true) ∧ l.OpLexemes ∧ r.OpLexemes
  | .unary op x => isOpLexeme op.lexeme = true ∧ x.OpLexemes
  | .grouping _ _ e => e.OpLexemes
  | .number _ => True
  | .measurement _ _ => True
  | .matrix _ _ => True
  | .ident _ => True
  | .call callee _ args => callee.OpLexemes ∧ Expr.ArgsOpLexemes args
def Expr.ArgsOpLexemes : List (Expr S) → Prop
  | [] => True
  | e :: es => e.OpLexemes ∧ Expr.ArgsOpLexemes es
end

theorem safeB_joinL_argSep (pss : List (List Piece)) (h : ∀ ps ∈ pss, safeB ps = true) :
    safeB (joinL argSep pss) = true := by
  induction pss with
  | nil => rfl
  | cons x xs ih =>
    cases xs with
    | nil => exact h x (by simp)
    | cons y ys =>
      have hrest := ih (fun ps hps => h ps (by simp [hps]))
      rw [joinL_cons_cons]
      show safeB (x ++ [Piece.lex [','], Piece.glue [' ']] ++ joinL argSep (y :: ys)) = true
      rw [List.append_assoc]
      exact safeB_append_sep x _ _ (h x (by simp)) (by decide)
        (safeB_cons_sep _ _ rfl hrest)

theorem isSep_openBr (k : GKind) : (Piece.lex (openBr k)).isSep = true := by cases k <;> decide
theorem isSep_closeBr (k : GKind) : (Piece.lex (closeBr k)).isSep = true := by cases k <;> decide

mutual
theorem safeB_pieces : ∀ e : Expr S, e.OpLexemes → safeB e.pieces = true
  | .as_ e _ u, h => by
    simp only [Expr.OpLexemes] at h
    simp only [Expr.pieces]
    exact safeB_append_sep _ _ _ (safeB_pieces e h) rfl (by simp [safeB])
  | .binary l op r, h => by
    simp only [Expr.OpLexemes] at h
    simp only [Expr.pieces]
    split
    · rw [List.append_assoc]
      exact safeB_append_sep _ _ _ (safeB_pieces l h.2.1) rfl
        (safeB_append_sep [Piece.lex op.lexeme] _ _ rfl rfl (safeB_pieces r h.2.2))
    · next hw =>
      rw [List.append_assoc]
      exact safeB_append_sep _ _ _ (safeB_pieces l h.2.1) (h.1 (by simpa using hw))
        (safeB_pieces r h.2.2)
  | .unary op x, h => by
    simp only [Expr.OpLexemes] at h
    simp only [Expr.pieces]
    split
    · exact safeB_append_sep _ _ [] (safeB_pieces x h.2) h.1 rfl
    · exact safeB_cons_sep _ _ h.1 (safeB_pieces x h.2)
  | .grouping _ k e, h => by
    simp only [Expr.OpLexemes] at h
    simp only [Expr.pieces]
    rw [List.append_assoc]
    exact safeB_cons_sep _ _ (isSep_openBr k)
      (safeB_append_sep _ _ [] (safeB_pieces e h) (isSep_closeBr k) rfl)
  | .number z, _ => rfl
  | .measurement z u, _ => rfl
  | .matrix _ rows, _ => rfl
  | .ident name, _ => rfl
  | .call callee _ args, h => by
    simp only [Expr.OpLexemes] at h
    simp only [Expr.pieces]
    rw [List.append_assoc, List.append_assoc]
    exact safeB_append_sep _ _ _ (safeB_pieces callee h.1) (by decide)
      (safeB_append_sep _ _ [] (safeB_joinL_argSep _ (safeB_argPieces args h.2)) (by decide) rfl)
theorem safeB_argPieces : ∀ es : List (Expr S), Expr.ArgsOpLexemes es →
    ∀ ps ∈ Expr.argPieces es, safeB ps = true
  | [], _ => by intro ps hps; simp [Expr.argPieces] at hps
  | e :: es, h => by
    simp only [Expr.ArgsOpLexemes] at h
    intro ps hps
    simp only [Expr.argPieces, List.mem_cons] at hps
    rcases hps with rfl | hps
    · exact safeB_pieces e h.1
    · exact safeB_argPieces es h.2 ps hps
end

/-! ## all glue is one blank -/

theorem gluesOf_joinL_argSep (pss : List (List Piece))
    (h : ∀ ps ∈ pss, ∀ g ∈ gluesOf ps, g = [' ']) : ∀ g ∈ gluesOf (joinL argSep pss), g = [' '] := by
  induction pss with
  | nil => intro g hg; simp [joinL, gluesOf] at hg
  | cons x xs ih =>
    cases xs with
    | nil => exact h x (by simp)
    | cons y ys =>
      have hrest := ih (fun ps hps => h ps (by simp [hps]))
      intro g hg
      rw [joinL_cons_cons, gluesOf_append, gluesOf_append] at hg
      rcases List.mem_append.1 hg with hg | hg
      · rcases List.mem_append.1 hg with hg | hg
        · exact h x (by simp) g hg
        · simpa [gluesOf, argSep] using hg
      · exact hrest g hg

mutual
theorem gluesOf_pieces : ∀ e : Expr S, ∀ g ∈ gluesOf e.pieces, g = [' ']
  | .as_ e _ u => by
    intro g hg
    simp only [Expr.pieces, gluesOf_append] at hg
    rcases List.mem_append.1 hg with hg | hg
    · exact gluesOf_pieces e g hg
    · simp [gluesOf] at hg; exact hg
  | .binary l op r => by
    intro g hg
    simp only [Expr.pieces] at hg
    split at hg
    · simp only [gluesOf_append] at hg
      rcases List.mem_append.1 hg with hg | hg
      · rcases List.mem_append.1 hg with hg | hg
        · exact gluesOf_pieces l g hg
        · simp [gluesOf] at hg; exact hg
      · exact gluesOf_pieces r g hg
    · simp only [gluesOf_append] at hg
      rcases List.mem_append.1 hg with hg | hg
      · rcases List.mem_append.1 hg with hg | hg
        · exact gluesOf_pieces l g hg
        · simp [gluesOf] at hg
      · exact gluesOf_pieces r g hg
  | .unary op x => by
    intro g hg
    simp only [Expr.pieces] at hg
    split at hg
    · simp only [gluesOf_append] at hg
      rcases List.mem_append.1 hg with hg | hg
      · exact gluesOf_pieces x g hg
      · simp [gluesOf] at hg
    · simp only [gluesOf_append] at hg
      rcases List.mem_append.1 hg with hg | hg
      · simp [gluesOf] at hg
      · exact gluesOf_pieces x g hg
  | .grouping _ k e => by
    intro g hg
    simp only [Expr.pieces, gluesOf_append] at hg
    rcases List.mem_append.1 hg with hg | hg
    · rcases List.mem_append.1 hg with hg | hg
      · simp [gluesOf] at hg
      · exact gluesOf_pieces e g hg
    · simp [gluesOf] at hg
  | .number z => by intro g hg; simp [Expr.pieces, gluesOf] at hg
  | .measurement z u => by intro g hg; simp [Expr.pieces, gluesOf] at hg
  | .matrix _ rows => by intro g hg; simp [Expr.pieces, gluesOf] at hg
  | .ident name => by intro g hg; simp [Expr.pieces, gluesOf] at hg
  | .call callee _ args => by
    intro g hg
    simp only [Expr.pieces, gluesOf_append] at hg
    rcases List.mem_append.1 hg with hg | hg
    · rcases List.mem_append.1 hg with hg | hg
      · rcases List.mem_append.1 hg with hg | hg
        · exact gluesOf_pieces callee g hg
        · simp [gluesOf] at hg
      · exact gluesOf_joinL_argSep _ (gluesOf_argPieces args) g hg
    · simp [gluesOf] at hg
theorem gluesOf_argPieces : ∀ es : List (Expr S), ∀ ps ∈ Expr.argPieces es, ∀ g ∈ gluesOf ps, g = [' ']
  | [] => by intro ps hps; simp [Expr.argPieces] at hps
  | e :: es => by
    intro ps hps
    simp only [Expr.argPieces, List.mem_cons] at hps
    rcases hps with rfl | hps
    · exact gluesOf_pieces e
    · exact gluesOf_argPieces es ps hps
end

/-! ## the scanner at an operator character -/

/-- the characters that can continue a word or a number: identifier-continue characters
    (`ScanCfg.isAlnum`, `_`, `°`) — digits and `e` are among the alphanumerics -/
def wordish (cfg : ScanCfg S) (c : Char) : Bool := isIdentCont cfg c

/-- `a` directly followed by `b` could be read as something else than `a` then `b`: `a` ends with
    a word/number character and `b` begins with one, or with the decimal point -/
def needsSep (cfg : ScanCfg S) (a b : Str) : Prop :=
  ∃ c d, a.getLast? = some c ∧ b.head? = some d ∧ wordish cfg c = true ∧ (wordish cfg d = true ∨ d = '.')

omit [Kernel S] in
theorem opChar_not_wordish (cfg : ScanCfg S) (hop : ∀ c ∈ opChars, cfg.isAlnum c = false)
    (c : Char) (hc : c ∈ opChars) : wordish cfg c = false ∧ c ≠ '.' := by
  have h1 := hop c hc
  simp only [wordish, isIdentCont, h1, Bool.false_or]
  simp only [opChars, List.mem_cons, List.not_mem_nil, or_false] at hc
  rcases hc with rfl | rfl | rfl | rfl | rfl | rfl | rfl | rfl | rfl | rfl | rfl | rfl | rfl | rfl |
    rfl | rfl | rfl | rfl | rfl | rfl <;> decide

theorem isOpLexeme_iff {s : Str} (h : isOpLexeme s = true) : ∃ c, s = [c] ∧ c ∈ opChars := by
  match s, h with
  | [c], h => exact ⟨c, rfl, by simpa [isOpLexeme] using h⟩

omit [Kernel S] in
theorem not_needsSep_of_op (cfg : ScanCfg S) (hop : ∀ c ∈ opChars, cfg.isAlnum c = false)
    (a b : Str) (h : isOpLexeme a = true ∨ isOpLexeme b = true) : ¬ needsSep cfg a b := by
  rintro ⟨c, d, hc, hd, hwc, hwd⟩
  rcases h with h | h
  · obtain ⟨o, rfl, ho⟩ := isOpLexeme_iff h
    simp at hc; subst hc
    rw [(opChar_not_wordish cfg hop _ ho).1] at hwc; cases hwc
  · obtain ⟨o, rfl, ho⟩ := isOpLexeme_iff h
    simp at hd; subst hd
    have := opChar_not_wordish cfg hop _ ho
    rcases hwd with hwd | hwd
    · rw [this.1] at hwd; cases hwd
    · exact this.2 hwd

/-- a non-blank character with a single-character token kind (other than the newline) is a token
    on its own whatever follows it -/
theorem scanLoop_single (cfg : ScanCfg S) (c : Char) (k : Kind S) (hb : isBlank c = false)
    (hk : singleKind c = some k) (hn : c ≠ '\n') (f : Nat) (cs : List Char) (p : Pos) :
    scanLoop cfg (f + 1) (c :: cs) p =
      (scanLoop cfg f cs (adv cfg.tab p c)).cons ⟨k, [c], p.line, p.col⟩ := by
  simp [scanLoop, hb, hk, lexemeOf, hn]

omit [Kernel S] in
theorem opChar_single (c : Char) (hc : c ∈ opChars) :
    isBlank c = false ∧ c ≠ '\n' ∧ (singleKind (S := S) c).isSome = true := by
  simp only [opChars, List.mem_cons, List.not_mem_nil, or_false] at hc
  rcases hc with rfl | rfl | rfl | rfl | rfl | rfl | rfl | rfl | rfl | rfl | rfl | rfl | rfl | rfl |
    rfl | rfl | rfl | rfl | rfl | rfl <;>
  exact ⟨by decide, by decide, by simp [singleKind]⟩

/-- an operator character is a token on its own whatever follows it: the scanner emits the token
    of that single character and continues with the rest -/
theorem scanLoop_opChar (cfg : ScanCfg S) (c : Char) (hc : c ∈ opChars) (f : Nat) (cs : List Char)
    (p : Pos) :
    ∃ k, singleKind (S := S) c = some k ∧
      scanLoop cfg (f + 1) (c :: cs) p =
        (scanLoop cfg f cs (adv cfg.tab p c)).cons ⟨k, [c], p.line, p.col⟩ := by
  obtain ⟨hb, hn, hs⟩ := opChar_single (S := S) c hc
  obtain ⟨k, hk⟩ := Option.isSome_iff_exists.1 hs
  exact ⟨k, hk, scanLoop_single cfg c k hb hk hn f cs p⟩

omit [Kernel S] in
/-- an operator character ends a word and a number: it is no identifier-continue character, no
    digit, not `.` and not `e` -/
theorem opChar_stops (cfg : ScanCfg S) (hop : ∀ c ∈ opChars, cfg.isAlnum c = false)
    (c : Char) (hc : c ∈ opChars) :
    isIdentCont cfg c = false ∧ isDigit c = false ∧ c ≠ '.' ∧ c ≠ 'e' := by
  have h := opChar_not_wordish cfg hop c hc
  refine ⟨h.1, ?_, h.2, ?_⟩ <;>
  · simp only [opChars, List.mem_cons, List.not_mem_nil, or_false] at hc
    rcases hc with rfl | rfl | rfl | rfl | rfl | rfl | rfl | rfl | rfl | rfl | rfl | rfl | rfl |
      rfl | rfl | rfl | rfl | rfl | rfl | rfl <;> decide

/-- a token the scanner made from one operator character (`singleKind`, lexeme = that character)
    carries an operator-character lexeme -/
theorem isOpLexeme_of_single (c : Char) (hc : c ∈ opChars) : isOpLexeme [c] = true := by
  simpa [isOpLexeme] using hc

end Calc
