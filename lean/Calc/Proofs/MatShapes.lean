/-
  Calc.Proofs.MatShapes — the matrix branches of `binop`, `unop` and `groupop` (Calc.Model.Eval)
  on well-shaped operands, in normal form: which shape pairs are accepted, what is computed, and
  that every other pair is the `unsupportedBinaryOperator` diagnostic at the operator token.
  The `Mat.*` assertions (`.panic`) are never reached.
-/
import Calc.Proofs.MatVec

namespace Calc

set_option linter.unusedSectionVars false

open Matrix

variable {K : Type} [Field K] [CharZero K] [Kernel K] [LawfulKernel K]

/-- the diagnostic of a refused operand pair: kind and the operator's position, no details -/
abbrev unsupportedAt (op : Tok K) : Res (Value K) :=
  .diag ⟨.unsupportedBinaryOperator, op.line, op.col, []⟩

/-- the list-level sum of two matrices, as `Mat.add` builds it -/
abbrev Mat.addRaw (a b : Mat K) : Mat K :=
  List.zipWith (fun r1 r2 => List.zipWith (· + ·) r1 r2) a b

/-- the first column of a matrix as a list, as `column_dot` and `|v|` read it -/
abbrev Mat.col0 (a : Mat K) : List K := a.map fun r => r.getD 0 0

section
variable {a b : Mat K} {r c r' c' : Nat}
  (ha : Mat.IsShape a r c) (hb : Mat.IsShape b r' c')
  (hr : 0 < r) (hr' : 0 < r')

include ha hb hr hr'

theorem binop_plus_matrix (op : Tok K) (hop : op.tag = .plus) :
    binop op (.matrix a) (.matrix b)
      = if r = r' ∧ c = c' then .ok (.matrix (Mat.addRaw a b)) else unsupportedAt op := by
  unfold binop
  simp only [hop, ha.nrows, ha.ncols hr, hb.nrows, hb.ncols hr']
  split
  · next h =>
    obtain ⟨rfl, rfl⟩ := h
    rw [Mat.add_ok ha hb hr]; rfl
  · rfl

theorem binop_minus_matrix (op : Tok K) (hop : op.tag = .minus) :
    binop op (.matrix a) (.matrix b)
      = if r = r' ∧ c = c' then .ok (.matrix (Mat.addRaw a (Mat.neg b))) else unsupportedAt op := by
  unfold binop
  simp only [hop, ha.nrows, ha.ncols hr, hb.nrows, hb.ncols hr']
  split
  · next h =>
    obtain ⟨rfl, rfl⟩ := h
    rw [Mat.sub_ok ha hb hr]; rfl
  · rfl

theorem binop_star_matrix (hc' : 0 < c') (op : Tok K) (hop : op.tag = .star) :
    binop op (.matrix a) (.matrix b)
      = if c = r' then .ok (.matrix (Mat.mulRaw a b)) else unsupportedAt op := by
  unfold binop
  simp only [hop, ha.ncols hr, hb.nrows]
  split
  · next h =>
    subst h
    rw [Mat.mul_ok ha hb hr hr' hc']; rfl
  · rfl

theorem binop_dot_matrix (op : Tok K) (hop : op.tag = .dot) :
    binop op (.matrix a) (.matrix b)
      = if r = 1 ∧ r' = 1 ∧ c = c' then .ok (.number (Mat.dotList (a.headD []) (b.headD [])))
        else if c = 1 ∧ c' = 1 ∧ r = r' then .ok (.number (Mat.dotList (Mat.col0 a) (Mat.col0 b)))
        else unsupportedAt op := by
  unfold binop
  simp only [hop, ha.nrows, ha.ncols hr, hb.nrows, hb.ncols hr']
  split
  · next h =>
    obtain ⟨rfl, rfl, rfl⟩ := h
    unfold Mat.rowDot
    simp only [ha.nrows, ha.ncols hr, hb.nrows, hb.ncols hr', ne_eq, not_true_eq_false, or_self,
      if_false]
    rfl
  · split
    · next h =>
      obtain ⟨rfl, rfl, rfl⟩ := h
      unfold Mat.colDot
      simp only [ha.nrows, ha.ncols hr, hb.nrows, hb.ncols hr', ne_eq, not_true_eq_false, or_self,
        if_false]
      rfl
    · rfl

theorem binop_cross_matrix (op : Tok K) (hop : op.tag = .cross) :
    binop op (.matrix a) (.matrix b)
      = if r = 1 ∧ r' = 1 ∧ c = 3 ∧ c' = 3 then
          .ok (.matrix [Mat.cross3 (Mat.get a 0 0) (Mat.get a 0 1) (Mat.get a 0 2)
                                   (Mat.get b 0 0) (Mat.get b 0 1) (Mat.get b 0 2)])
        else if c = 1 ∧ c' = 1 ∧ r = 3 ∧ r' = 3 then
          .ok (.matrix [Mat.cross3 (Mat.get a 0 0) (Mat.get a 1 0) (Mat.get a 2 0)
                                   (Mat.get b 0 0) (Mat.get b 1 0) (Mat.get b 2 0)])
        else unsupportedAt op := by
  unfold binop
  simp only [hop, ha.nrows, ha.ncols hr, hb.nrows, hb.ncols hr']
  split
  · next h =>
    obtain ⟨rfl, rfl, rfl, rfl⟩ := h
    unfold Mat.rowCross
    simp only [ha.nrows, ha.ncols hr, hb.nrows, hb.ncols hr', ne_eq, not_true_eq_false, or_self,
      if_false]
    rfl
  · split
    · next h =>
      obtain ⟨rfl, rfl, rfl, rfl⟩ := h
      unfold Mat.colCross
      simp only [ha.nrows, ha.ncols hr, hb.nrows, hb.ncols hr', ne_eq, not_true_eq_false, or_self,
        if_false]
      rfl
    · rfl

end

theorem binop_slash_matrix_zero (a : Mat K) (op : Tok K) (hop : op.tag = .slash) :
    binop op (.matrix a) (.number 0) = .diag ⟨.divisionByZero, op.line, op.col, []⟩ := by
  have hz : Kernel.normIsZero (0 : K) = true := (LawfulKernel.normIsZero_iff 0).mpr rfl
  unfold binop; simp only [hop, hz]; rfl

theorem binop_slash_matrix_number (a : Mat K) {k : K} (hk : k ≠ 0) (op : Tok K)
    (hop : op.tag = .slash) :
    binop op (.matrix a) (.number k) = .ok (.matrix (Mat.divScalar a k)) := by
  have hz : Kernel.normIsZero k = false := by
    cases h : Kernel.normIsZero k
    · rfl
    · exact absurd ((LawfulKernel.normIsZero_iff k).mp h) hk
  unfold binop; simp only [hop, hz]; rfl

theorem binop_matrix_other (a b : Mat K) (op : Tok K)
    (hop : op.tag = .slash ∨ op.tag = .caret ∨ op.tag = .percent) :
    binop op (.matrix a) (.matrix b) = unsupportedAt op := by
  rcases hop with hop | hop | hop <;> (unfold binop; simp only [hop]; rfl)

/-- `|m|` on a well-shaped matrix: the Euclidean length of a row vector, else of a column
    vector, else refused -/
theorem groupop_abs_matrix {a : Mat K} {r c : Nat} (ha : Mat.IsShape a r c) (hr : 0 < r)
    (paren : Tok K) :
    groupop paren .absolute (.matrix a)
      = if r = 1 then .ok (.number (vecNorm (a.headD [])))
        else if c = 1 then .ok (.number (vecNorm (Mat.col0 a)))
        else .diag ⟨.invalidGroupingOperand, paren.line, paren.col, []⟩ := by
  unfold groupop
  simp only [ha.nrows, ha.ncols hr]
  rfl

theorem unop_minus_matrix (a : Mat K) (op : Tok K) (hop : op.tag = .minus) :
    unop op (.matrix a) = .ok (.matrix (Mat.neg a)) := by
  unfold unop; simp only [hop]

/-! ### the four matrix builtins, after the arity and domain checks of `callNative` -/

theorem nativeBody_determinant (m : Mat K) (line col : Nat) :
    nativeBody "determinant".toList line col [.matrix m]
      = (Mat.det m).bind fun d => .ok (.number d) := by
  unfold nativeBody; simp [matArg, Res.bind]

theorem nativeBody_transpose (m : Mat K) (line col : Nat) :
    nativeBody "transpose".toList line col [.matrix m]
      = (Mat.transpose m).bind fun t => .ok (.matrix t) := by
  unfold nativeBody; simp [matArg, Res.bind]

theorem nativeBody_inverse_none {m : Mat K} (h : Mat.inverse m = .ok none) (line col : Nat) :
    nativeBody "inverse".toList line col [.matrix m]
      = .diag ⟨.noInverseForMatrix, line, col, []⟩ := by
  unfold nativeBody; simp [matArg, Res.bind, h]

theorem nativeBody_inverse_some {m inv : Mat K} (h : Mat.inverse m = .ok (some inv))
    (line col : Nat) :
    nativeBody "inverse".toList line col [.matrix m] = .ok (.matrix inv) := by
  unfold nativeBody; simp [matArg, Res.bind, h]

theorem nativeBody_identity (z : K) (line col : Nat) :
    nativeBody "identity".toList line col [.number z]
      = (Mat.identity (Kernel.reToNat z)).bind fun m => .ok (.matrix m) := by
  unfold nativeBody; simp [numArg, Res.bind]

end Calc
