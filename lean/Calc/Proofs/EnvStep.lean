/-
  Calc.Proofs.EnvStep — what one statement can do to the table (used by C09, C10, C12):
  nothing, insert a non-constant entry under a name not bound to a constant, remove a
  non-constant entry, or `clear`.
-/
import Calc.Model.Stmt
import Calc.Proofs.EnvLemmas
import Calc.Proofs.EvalPure
namespace Calc

variable {S : Type} [Add S] [Sub S] [Mul S] [Div S] [Zero S] [One S] [Kernel S]

omit [Add S] [Sub S] [Mul S] [Div S] [Zero S] [One S] [Kernel S] in
theorem resLine_length (r : Res (Value S)) : (resLine r).length = 1 := by
  cases r <;> rfl

/-- The possible effects of one statement on the table, with its output.
    `same`: table untouched, at most one line.  The other three are silent. -/
inductive StepEffect (env : Env S) : StepOut S → Prop
  | same (out : List (Line S)) (hl : out.length ≤ 1) : StepEffect env ⟨env, out⟩
  | insert (k : Str) (v : Value S) (h : ∀ w, Env.get env k = some w → w.constant = false) :
      StepEffect env ⟨Env.insert env k ⟨v, false⟩, []⟩
  | remove (k : Str) (h : ∀ w, Env.get env k = some w → w.constant = false) :
      StepEffect env ⟨Env.remove env k, []⟩
  | clear : StepEffect env ⟨Env.retainConstants env, []⟩

omit [Add S] [Sub S] [Mul S] [Div S] [Zero S] [One S] [Kernel S] in
theorem StepEffect.errOut (env : Env S) (k : EvalErrKind) (t : Tok S) (info : Str) :
    StepEffect env (errOut env k t info) :=
  .same _ (Nat.le_refl 1)

omit [Add S] [Sub S] [Mul S] [Div S] [Zero S] [One S] [Kernel S] in
private theorem nonconst_of_get {env : Env S} {k : Str} {v : Variable S}
    (hg : Env.get env k = some v) (hc : ¬ v.constant = true) :
    ∀ w, Env.get env k = some w → w.constant = false := by
  intro w hw
  rw [hg] at hw
  cases hw
  simpa using hc

omit [Add S] [Sub S] [Mul S] [Div S] [Zero S] [One S] [Kernel S] in
private theorem nonconst_of_none {env : Env S} {k : Str}
    (hg : Env.get env k = none) :
    ∀ w, Env.get env k = some w → w.constant = false := by
  intro w hw
  rw [hg] at hw
  cases hw

theorem step_effect (fuel : Nat) (env : Env S) (s : Stmt S) :
    StepEffect env (step fuel env s) := by
  cases s with
  | expr e =>
    simp only [step, eval_env]
    exact .same _ (Nat.le_of_eq (resLine_length _))
  | deleteVar name =>
    simp only [step]
    split
    · next v hg =>
      split
      · exact .errOut ..
      · next hc => exact .remove _ (nonconst_of_get hg hc)
    · exact .errOut ..
  | deleteSig name sig =>
    simp only [step]
    split
    · next v hg =>
      split
      · exact .errOut ..
      · next hc =>
        split
        · exact .errOut ..
        · split
          · exact .errOut ..
          · split
            · exact .remove _ (nonconst_of_get hg hc)
            · exact .insert _ _ (nonconst_of_get hg hc)
        · exact .errOut ..
    · exact .errOut ..
  | assign name e =>
    simp only [step]
    split
    · exact .errOut ..
    · next hnc =>
      have hk : ∀ w, Env.get env name.lexeme = some w → w.constant = false := by
        intro w hw
        cases w with
        | mk val c =>
          cases c with
          | false => rfl
          | true => exact absurd hw (hnc val)
      split
      · rw [eval_env]
        exact .insert _ _ hk
      · rw [eval_env]
        exact .same _ (Nat.le_of_eq (resLine_length _))
  | define name sig body =>
    simp only [step]
    split
    · next v hg =>
      split
      · exact .errOut ..
      · next hc =>
        split
        · exact .insert _ _ (nonconst_of_get hg hc)
        · exact .errOut ..
        · exact .insert _ _ (nonconst_of_get hg hc)
    · next hg => exact .insert _ _ (nonconst_of_none hg)
  | clear => exact .clear

/-! ### consequences that do not mention the kind of statement -/

omit [Add S] [Sub S] [Mul S] [Div S] [Zero S] [One S] [Kernel S] in
theorem StepEffect.env_or_silent {env : Env S} {o : StepOut S} (h : StepEffect env o) :
    o.env = env ∨ o.out = [] := by
  cases h with
  | same => exact .inl rfl
  | insert => exact .inr rfl
  | remove => exact .inr rfl
  | clear => exact .inr rfl

omit [Add S] [Sub S] [Mul S] [Div S] [Zero S] [One S] [Kernel S] in
theorem StepEffect.out_length {env : Env S} {o : StepOut S} (h : StepEffect env o) :
    o.out.length ≤ 1 := by
  cases h with
  | same _ hl => exact hl
  | insert => exact Nat.zero_le _
  | remove => exact Nat.zero_le _
  | clear => exact Nat.zero_le _

omit [Add S] [Sub S] [Mul S] [Div S] [Zero S] [One S] [Kernel S] in
theorem StepEffect.nodup {env : Env S} {o : StepOut S} (h : StepEffect env o)
    (nd : (Env.keys env).Nodup) : (Env.keys o.env).Nodup := by
  cases h with
  | same => exact nd
  | insert k v _ => exact Env.nodup_insert nd k _
  | remove k _ => exact Env.nodup_remove nd k
  | clear => exact Env.nodup_retainConstants nd

/-- a statement keeps the keys of the table distinct -/
theorem step_keys_nodup (fuel : Nat) (env : Env S) (s : Stmt S)
    (nd : (Env.keys env).Nodup) : (Env.keys (step fuel env s).env).Nodup :=
  (step_effect fuel env s).nodup nd

theorem runStmts_keys_nodup (fuel : Nat) (ss : List (Stmt S)) :
    ∀ env : Env S, (Env.keys env).Nodup → (Env.keys (runStmts fuel env ss).env).Nodup := by
  induction ss with
  | nil => intro env nd; exact nd
  | cons s ss ih =>
    intro env nd
    simp only [runStmts]
    exact ih _ (step_keys_nodup fuel env s nd)

theorem step_env_or_silent (fuel : Nat) (env : Env S) (s : Stmt S) :
    (step fuel env s).env = env ∨ (step fuel env s).out = [] :=
  (step_effect fuel env s).env_or_silent

theorem step_out_length (fuel : Nat) (env : Env S) (s : Stmt S) :
    (step fuel env s).out.length ≤ 1 :=
  (step_effect fuel env s).out_length

/-! ### frame lemmas: a statement touches only the name it is about -/

theorem step_expr_env (fuel : Nat) (env : Env S) (e : Expr S) :
    (step fuel env (.expr e)).env = env := by
  simp only [step, eval_env]

theorem step_deleteVar_frame (fuel : Nat) (env : Env S) (name : Tok S) {k : Str}
    (hk : k ≠ name.lexeme) :
    Env.get (step fuel env (.deleteVar name)).env k = Env.get env k := by
  simp only [step]
  repeat' split
  all_goals first | rfl | exact Env.get_remove_ne env hk

theorem step_deleteSig_frame (fuel : Nat) (env : Env S) (name : Tok S) (sig : Sig S) {k : Str}
    (hk : k ≠ name.lexeme) :
    Env.get (step fuel env (.deleteSig name sig)).env k = Env.get env k := by
  simp only [step]
  repeat' split
  all_goals first | rfl | exact Env.get_remove_ne env hk | exact Env.get_insert_ne env _ hk

theorem step_assign_frame (fuel : Nat) (env : Env S) (name : Tok S) (e : Expr S) {k : Str}
    (hk : k ≠ name.lexeme) :
    Env.get (step fuel env (.assign name e)).env k = Env.get env k := by
  simp only [step, eval_env]
  repeat' split
  all_goals first | rfl | exact Env.get_insert_ne env _ hk

theorem step_define_frame (fuel : Nat) (env : Env S) (name : Tok S) (sig : Sig S)
    (body : Expr S) {k : Str} (hk : k ≠ name.lexeme) :
    Env.get (step fuel env (.define name sig body)).env k = Env.get env k := by
  simp only [step]
  repeat' split
  all_goals first | rfl | exact Env.get_insert_ne env _ hk

/-! ### refused statements -/

theorem step_assign_constant (fuel : Nat) (env : Env S) (name : Tok S) (e : Expr S)
    {v : Variable S} (hg : Env.get env name.lexeme = some v) (hc : v.constant = true) :
    step fuel env (.assign name e) =
      ⟨env, [.evalErr ⟨.constantAssignment, name.line, name.col, name.lexeme⟩]⟩ := by
  obtain ⟨val, c⟩ := v
  simp only at hc
  subst hc
  simp only [step, hg, errOut]

theorem step_define_constant (fuel : Nat) (env : Env S) (name : Tok S) (sig : Sig S)
    (body : Expr S) {v : Variable S} (hg : Env.get env name.lexeme = some v)
    (hc : v.constant = true) :
    step fuel env (.define name sig body) =
      ⟨env, [.evalErr ⟨.constantAssignment, name.line, name.col, name.lexeme⟩]⟩ := by
  simp only [step, hg, hc, if_true, errOut]

theorem step_deleteVar_constant (fuel : Nat) (env : Env S) (name : Tok S)
    {v : Variable S} (hg : Env.get env name.lexeme = some v) (hc : v.constant = true) :
    step fuel env (.deleteVar name) =
      ⟨env, [.evalErr ⟨.constantDeletion, name.line, name.col, name.lexeme⟩]⟩ := by
  simp only [step, hg, hc, if_true, errOut]

theorem step_deleteSig_constant (fuel : Nat) (env : Env S) (name : Tok S) (sig : Sig S)
    {v : Variable S} (hg : Env.get env name.lexeme = some v) (hc : v.constant = true) :
    step fuel env (.deleteSig name sig) =
      ⟨env, [.evalErr ⟨.constantDeletion, name.line, name.col, name.lexeme⟩]⟩ := by
  simp only [step, hg, hc, if_true, errOut]

theorem step_define_native (fuel : Nat) (env : Env S) (name : Tok S) (sig : Sig S)
    (body : Expr S) {n : Str} (hg : Env.get env name.lexeme = some ⟨.native n, false⟩) :
    step fuel env (.define name sig body) =
      ⟨env, [.evalErr ⟨.cantAddSignature, name.line, name.col, name.lexeme⟩]⟩ := by
  simp [step, hg, errOut]

theorem step_deleteSig_native (fuel : Nat) (env : Env S) (name : Tok S) (sig : Sig S)
    {n : Str} (hg : Env.get env name.lexeme = some ⟨.native n, false⟩) :
    step fuel env (.deleteSig name sig) =
      ⟨env, [.evalErr ⟨.cantDeleteSignature, name.line, name.col, name.lexeme⟩]⟩ := by
  simp [step, hg, errOut]

end Calc
