/-
  Calc.Proofs.ComplexKernel — the exact numeric kernel: `Kernel ℂ` built from Mathlib, and the proof
  that it satisfies the contract `LawfulKernel ℂ` (so that contract is satisfiable, and C02 has an
  instance to be stated at).

  Every field is the mathematical operation the corresponding `Complex64` method approximates.
  `inf` is junk (ℂ has no infinity): every theorem that meets it is restricted to `n ≤ 170`.
  The `fmt*` fields are junk too: printing is not part of any theorem stated at ℂ.
-/
import Mathlib.Analysis.SpecialFunctions.Pow.Complex
import Mathlib.Analysis.SpecialFunctions.Complex.Log
import Mathlib.Analysis.SpecialFunctions.Trigonometric.Basic
import Mathlib.Algebra.Order.Floor.Ring
import Mathlib.Data.Complex.Basic
import Calc.Proofs.Lawful

namespace Calc
open Complex

/-- round a real toward zero (`f64::trunc`; `x - x % 1.0`) -/
noncomputable def truncR (r : ℝ) : ℤ := if 0 ≤ r then ⌊r⌋ else ⌈r⌉

/-- the Gaussian integer nearest to `z` toward zero, part by part (num-complex `Rem`) -/
noncomputable def truncC (z : ℂ) : ℂ := (truncR z.re : ℂ) + (truncR z.im : ℂ) * I

/-- principal square root -/
noncomputable def csqrt (z : ℂ) : ℂ := z ^ ((1 : ℂ) / 2)

open Classical in
noncomputable instance instKernelComplex : Kernel ℂ where
  negOne := -1
  i := I
  inf := 0
  ofNat n := (n : ℂ)
  ofDecimal m e := (m : ℂ) * (10 : ℂ) ^ e
  ofRatio a b := (a : ℂ) / (b : ℂ)
  ofBits re im := ((bitsToRat re : ℚ) : ℂ) + ((bitsToRat im : ℚ) : ℂ) * I
  eq a b := decide (a = b)
  normIsZero z := decide (z = 0)
  reIsZero z := decide (z.re = 0)
  imIsZero z := decide (z.im = 0)
  imIsOne z := decide (z.im = 1)
  imIsNegOne z := decide (z.im = -1)
  imIsNeg z := decide (z.im < 0)
  reFractIsZero z := decide (Int.fract z.re = 0)
  reNonneg z := decide (0 ≤ z.re)
  rePos z := decide (0 < z.re)
  reToNat z := ⌊z.re⌋₊
  mulRe z w := z * (w.re : ℂ)
  powc x y := x ^ y
  rem x y := x - y * truncC (x / y)
  sqrt z := csqrt z
  norm z := (‖z‖ : ℂ)
  normSqr z := (Complex.normSq z : ℂ)
  ceilRe z := ((⌈z.re⌉ : ℤ) : ℂ)
  floorRe z := ((⌊z.re⌋ : ℤ) : ℂ)
  fmtRe _ := []
  fmtIm _ := []
  fmtAbsIm _ := []
  sin := Complex.sin
  cos := Complex.cos
  tan := Complex.tan
  asin z := -I * Complex.log (csqrt (1 - z * z) + I * z)
  acos z := -I * Complex.log (I * csqrt (1 - z * z) + z)
  atan z := (Complex.log (1 + I * z) - Complex.log (1 - I * z)) / (2 * I)
  sinh := Complex.sinh
  cosh := Complex.cosh
  tanh := Complex.tanh
  asinh z := Complex.log (z + csqrt (1 + z * z))
  acosh z := 2 * Complex.log (csqrt ((z + 1) / 2) + csqrt ((z - 1) / 2))
  atanh z := (Complex.log (1 + z) - Complex.log (1 - z)) / 2
  reS z := (z.re : ℂ)
  imS z := (z.im : ℂ)
  argS z := (Complex.arg z : ℂ)
  conj := starRingEnd ℂ
  ln := Complex.log
  log2 z := Complex.log z / (Real.log 2 : ℂ)
  log10 z := Complex.log z / (Real.log 10 : ℂ)
  logBase b v := Complex.log v / (Real.log b.re : ℂ)
  gcd a b := ((Nat.gcd ⌊|a.re|⌋₊ ⌊|b.re|⌋₊ : ℕ) : ℂ)
  lcm a b := ((Nat.lcm ⌊|a.re|⌋₊ ⌊|b.re|⌋₊ : ℕ) : ℂ)

theorem bitsToRat_zero : bitsToRat 0 = 0 := by decide +kernel

instance instLawfulKernelComplex : LawfulKernel ℂ where
  negOne_eq := rfl
  ofNat_eq _ := rfl
  ofRatio_eq _ _ := rfl
  ofDecimal_eq _ _ := rfl
  ofBits_real b := by
    show ((bitsToRat b : ℚ) : ℂ) + ((bitsToRat 0 : ℚ) : ℂ) * I = _
    rw [bitsToRat_zero]; simp
  eq_iff a b := by
    show decide (a = b) = true ↔ _
    exact decide_eq_true_iff
  normIsZero_iff z := by
    show decide (z = 0) = true ↔ _
    exact decide_eq_true_iff
  mulRe_real z b := by
    show z * ((((bitsToRat b : ℚ) : ℂ) + ((bitsToRat 0 : ℚ) : ℂ) * I).re : ℂ)
        = z * (((bitsToRat b : ℚ) : ℂ) + ((bitsToRat 0 : ℚ) : ℂ) * I)
    rw [bitsToRat_zero]; simp

/-! the kernel's predicates, unfolded -/

@[simp] theorem kernel_normIsZero (z : ℂ) : (Kernel.normIsZero z = true) ↔ z = 0 :=
  LawfulKernel.normIsZero_iff z
@[simp] theorem kernel_imIsZero (z : ℂ) : (Kernel.imIsZero z = true) ↔ z.im = 0 := by
  show decide (z.im = 0) = true ↔ _; exact decide_eq_true_iff
@[simp] theorem kernel_reFractIsZero (z : ℂ) : (Kernel.reFractIsZero z = true) ↔ Int.fract z.re = 0 := by
  show decide (Int.fract z.re = 0) = true ↔ _; exact decide_eq_true_iff
@[simp] theorem kernel_reNonneg (z : ℂ) : (Kernel.reNonneg z = true) ↔ 0 ≤ z.re := by
  show decide (0 ≤ z.re) = true ↔ _; exact decide_eq_true_iff
@[simp] theorem kernel_rePos (z : ℂ) : (Kernel.rePos z = true) ↔ 0 < z.re := by
  show decide (0 < z.re) = true ↔ _; exact decide_eq_true_iff
theorem kernel_reToNat (z : ℂ) : Kernel.reToNat z = ⌊z.re⌋₊ := rfl
theorem kernel_negOne : (Kernel.negOne : ℂ) = -1 := rfl
theorem kernel_powc (x y : ℂ) : Kernel.powc x y = x ^ y := rfl
theorem kernel_rem (x y : ℂ) : Kernel.rem x y = x - y * truncC (x / y) := rfl
theorem kernel_sqrt (z : ℂ) : Kernel.sqrt z = z ^ ((1 : ℂ) / 2) := rfl
theorem kernel_norm (z : ℂ) : Kernel.norm z = (‖z‖ : ℂ) := rfl
theorem kernel_ceilRe (z : ℂ) : Kernel.ceilRe z = ((⌈z.re⌉ : ℤ) : ℂ) := rfl
theorem kernel_floorRe (z : ℂ) : Kernel.floorRe z = ((⌊z.re⌋ : ℤ) : ℂ) := rfl

end Calc
