/-
  Calc.Proofs.MatDet — the model's matrices as Mathlib matrices (`toM`), the shape predicate,
  and the identification of the model's cofactor-expansion determinant `Mat.detN` with
  `Matrix.det`, for every size.
-/
import Mathlib.LinearAlgebra.Matrix.Determinant.Basic
import Calc.Model.Matrix
import Calc.Proofs.Lawful

namespace Calc

set_option linter.unusedSectionVars false

open Matrix

/-- the model's list-of-rows matrix read as an `r × c` Mathlib matrix (entries outside the
    lists read as `0`, as `Mat.get` does) -/
def toM {K : Type} [Zero K] (r c : Nat) (m : Mat K) : Matrix (Fin r) (Fin c) K :=
  fun i j => Mat.get m i j

/-- `m` has exactly `r` rows, each of length `c` -/
def Mat.IsShape {K : Type} (m : Mat K) (r c : Nat) : Prop :=
  m.length = r ∧ ∀ row ∈ m, row.length = c

section lists

theorem getD_eraseIdx {α} (l : List α) (i k : Nat) (d : α) :
    (l.eraseIdx i).getD k d = if k < i then l.getD k d else l.getD (k+1) d := by
  simp only [List.getD_eq_getElem?_getD, List.getElem?_eraseIdx]; split <;> rfl

theorem succAbove_val {n} (i : Fin (n+1)) (a : Fin n) :
    (i.succAbove a : Nat) = if (a : Nat) < i then (a : Nat) else a + 1 := by
  unfold Fin.succAbove; split <;> rename_i h <;> simp [Fin.lt_def] at h <;> simp [h]

theorem getD_map_eraseIdx {α} (rows : List (List α)) (j k : Nat) :
    ((rows.map (fun r => r.eraseIdx j)).getD k []) = (rows.getD k []).eraseIdx j := by
  simp only [List.getD_eq_getElem?_getD, List.getElem?_map]; cases rows[k]? <;> simp

theorem foldl_add_eq_sum {K : Type} [AddCommMonoid K] (n : Nat) (f : Nat → K) :
    (List.range n).foldl (fun acc c => acc + f c) 0 = ∑ j : Fin n, f j := by
  rw [Fin.sum_univ_eq_sum_range (fun c => f c) n]
  induction n with
  | zero => simp
  | succ n ih => rw [List.range_succ, List.foldl_append, ih, Finset.sum_range_succ]; simp

end lists

variable {K : Type} [Field K] [CharZero K] [Kernel K] [LawfulKernel K]

theorem Mat.sign_eq (k : Nat) : (Mat.sign k : K) = (-1) ^ k := by
  unfold Mat.sign
  rcases Nat.even_or_odd k with he | ho
  · have : k % 2 = 0 := Nat.even_iff.mp he
    simp [this, he.neg_one_pow]
  · have : k % 2 = 1 := Nat.odd_iff.mp ho
    simp [this, ho.neg_one_pow, LawfulKernel.negOne_eq]

/-- a minor of the model is the Mathlib submatrix -/
theorem toM_subMat (n : Nat) (m : Mat K) (i j : Fin (n+1)) :
    toM n n (Mat.subMat m i j) = (toM (n+1) (n+1) m).submatrix i.succAbove j.succAbove := by
  ext a b
  simp only [toM, Mat.get, Mat.subMat, submatrix_apply, succAbove_val, getD_map_eraseIdx,
    getD_eraseIdx]
  split <;> split <;> rfl

/-- the model's determinant is the determinant, at every size `n + 1` (no shape hypothesis is
    needed: out-of-range entries read as `0` on both sides) -/
theorem detN_eq_det : ∀ (n : Nat) (m : Mat K), Mat.detN (n+1) m = det (toM (n+1) (n+1) m)
  | 0, m => by simp [Mat.detN, toM, det_unique]
  | 1, m => by
    rw [Matrix.det_fin_two]; rfl
  | n+2, m => by
    rw [det_succ_row_zero]; unfold Mat.detN; rw [foldl_add_eq_sum]
    refine Finset.sum_congr rfl fun j _ => ?_
    have h := toM_subMat (n+2) m 0 j
    rw [detN_eq_det (n+1), show ((0 : Fin (n+3)) : Nat) = 0 from rfl] at *
    rw [h, Mat.sign_eq]
    have : (toM (n+3) (n+3) m) 0 j = Mat.get m 0 j := rfl
    rw [this]
    have hs : ((toM (n+2+1) (n+2+1) m).submatrix (Fin.succAbove 0) j.succAbove)
        = ((toM (n+2+1) (n+2+1) m).submatrix Fin.succ j.succAbove) := by congr 1
    rw [hs]
    ring

end Calc
