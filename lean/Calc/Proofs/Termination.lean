/-
  Calc.Proofs.Termination — which evaluations are guaranteed to return (C01), with an explicit
  fuel bound, and which provably never do.

  * nothing but `eval` itself consumes fuel: native functions return at once (`callNative_ne_fuel`);
  * one step of `eval` (`eval_succ_ne_fuel`): a node returns when its immediate sub-trees return
    and — for a call node whose callee is a user function — the selected body returns;
  * `eval_noUser_ne_fuel`: no callee of the tree ever evaluates to a user function ⇒ fuel above the
    depth of the tree suffices (covers call-free trees and calls of native functions);
  * `eval_ranked_ne_fuel`: ranked (non-recursive, first-order) user functions ⇒ fuel above
    `depth e + K * (D + 1)` suffices (`K` rank levels, bodies of depth ≤ `D`);
  * divergence, for every amount of fuel: `f(x) = f(x); f(1)`, `w(hh) = hh(hh); w(w)`,
    `r(0) = 1; r(n) = n * r(n - 1); r(a)` when `a, a-1, a-2, …` never equals `0`.
  Core Lean only.
-/
import Calc.Proofs.NoPanicFuel
import Calc.Proofs.BlameOrder
import Calc.Proofs.EnvLemmas
namespace Calc
variable {S : Type} [Add S] [Sub S] [Mul S] [Div S] [Zero S] [One S] [Kernel S]
set_option linter.unusedSectionVars false

/-! ### native functions consume no fuel -/

theorem Res.bind_eq_fuel {α β} {r : Res α} {f : α → Res β} (h : r.bind f = .fuel) :
    r = .fuel ∨ ∃ a, r = .ok a ∧ f a = .fuel := by
  cases r with
  | ok a => exact .inr ⟨a, rfl, h⟩
  | diag d => cases h
  | panic s => cases h
  | fuel => exact .inl rfl

theorem Mat.identity_ne_fuel (n : Nat) : (Mat.identity (S := S) n = .fuel) = False := by
  unfold Mat.identity; exact Mat.fromRows_ne_fuel _
theorem Mat.transpose_ne_fuel (a : Mat S) : (Mat.transpose a = .fuel) = False := by
  unfold Mat.transpose; exact Mat.fromRows_ne_fuel _
theorem Mat.det_ne_fuel (a : Mat S) : (Mat.det a = .fuel) = False := by
  unfold Mat.det; split
  · simp
  · split <;> simp
theorem Mat.inverse_ne_fuel (a : Mat S) : (Mat.inverse a = .fuel) = False := by
  apply eq_false
  intro h
  unfold Mat.inverse at h
  simp only [] at h
  repeat' split at h
  all_goals first
    | (cases h; done)
    | simp_all only [Mat.fromRows_ne_fuel, Mat.transpose_ne_fuel]

theorem numArg_ne_fuel (args : List (Value S)) (i : Nat) : (numArg args i = .fuel) = False := by
  unfold numArg; split <;> simp
theorem matArg_ne_fuel (args : List (Value S)) (i : Nat) : (matArg args i = .fuel) = False := by
  unfold matArg; split <;> simp

theorem nativeBody_ne_fuel (name : Str) (line col : Nat) (args : List (Value S)) :
    nativeBody name line col args ≠ .fuel := by
  intro h
  unfold nativeBody at h
  split at h
  case h_30 =>
    rcases Res.bind_eq_fuel h with h1 | ⟨m, -, h1⟩
    · simp only [matArg_ne_fuel] at h1
    · rcases Res.bind_eq_fuel h1 with h2 | ⟨r, -, h2⟩
      · simp only [Mat.inverse_ne_fuel] at h2
      · split at h2 <;> cases h2
  all_goals first
    | (cases h; done)
    | (simp only [num1, Res.bind_ok_eq_fuel, numArg_ne_fuel] at h; done)
    | (rcases Res.bind_eq_fuel h with h1 | ⟨m, -, h1⟩
       · first | (simp only [matArg_ne_fuel] at h1; done) | (simp only [numArg_ne_fuel] at h1; done)
       · simp only [Res.bind_ok_eq_fuel, Mat.identity_ne_fuel, Mat.transpose_ne_fuel,
           Mat.det_ne_fuel, numArg_ne_fuel] at h1)

/-- a native function never runs out of fuel: it does not call back into `eval` -/
theorem callNative_ne_fuel (name : Str) (line col : Nat) (args : List (Value S)) :
    callNative name line col args ≠ .fuel := by
  intro h
  unfold callNative at h
  split at h
  · cases h
  · split at h
    · cases h
    · split at h
      · cases h
      · exact nativeBody_ne_fuel _ _ _ _ h

/-! ### sub-trees and callees -/

/-- the immediate sub-trees of a node: exactly the trees `eval` recurses into directly -/
def Expr.children : Expr S → List (Expr S)
  | .as_ e _ _ => [e]
  | .binary l _ r => [l, r]
  | .unary _ x => [x]
  | .grouping _ _ e => [e]
  | .number _ => []
  | .measurement _ _ => []
  | .matrix _ rows => rows.flatten
  | .ident _ => []
  | .call c _ args => c :: args

mutual
/-- the callee expressions of all call nodes of a tree (at any depth, including inside callees
    and arguments) -/
def Expr.callees : Expr S → List (Expr S)
  | .as_ e _ _ => e.callees
  | .binary l _ r => l.callees ++ r.callees
  | .unary _ x => x.callees
  | .grouping _ _ e => e.callees
  | .number _ => []
  | .measurement _ _ => []
  | .matrix _ rows => Expr.calleesRows rows
  | .ident _ => []
  | .call c _ args => c :: (c.callees ++ Expr.calleesArgs args)
def Expr.calleesArgs : List (Expr S) → List (Expr S)
  | [] => []
  | e :: es => e.callees ++ Expr.calleesArgs es
def Expr.calleesRows : List (List (Expr S)) → List (Expr S)
  | [] => []
  | r :: rs => Expr.calleesArgs r ++ Expr.calleesRows rs
end

theorem Expr.callees_sub_calleesArgs {es : List (Expr S)} {x : Expr S} (h : x ∈ es) :
    ∀ c ∈ x.callees, c ∈ Expr.calleesArgs es := by
  induction es with
  | nil => cases h
  | cons y ys ih =>
    intro c hc
    simp only [Expr.calleesArgs, List.mem_append]
    rcases List.mem_cons.mp h with rfl | h
    · exact .inl hc
    · exact .inr (ih h c hc)

theorem Expr.calleesArgs_sub_calleesRows {rows : List (List (Expr S))} {row : List (Expr S)}
    (h : row ∈ rows) : ∀ c ∈ Expr.calleesArgs row, c ∈ Expr.calleesRows rows := by
  induction rows with
  | nil => cases h
  | cons y ys ih =>
    intro c hc
    simp only [Expr.calleesRows, List.mem_append]
    rcases List.mem_cons.mp h with rfl | h
    · exact .inl hc
    · exact .inr (ih h c hc)

/-- the callees of a sub-tree are callees of the tree -/
theorem Expr.callees_of_child {e x : Expr S} (h : x ∈ e.children) :
    ∀ c ∈ x.callees, c ∈ e.callees := by
  intro c hc
  cases e with
  | number z => cases h
  | measurement z u => cases h
  | ident n => cases h
  | as_ y t u =>
    simp only [Expr.children, List.mem_singleton] at h; subst h
    simpa only [Expr.callees] using hc
  | unary op y =>
    simp only [Expr.children, List.mem_singleton] at h; subst h
    simpa only [Expr.callees] using hc
  | grouping p k y =>
    simp only [Expr.children, List.mem_singleton] at h; subst h
    simpa only [Expr.callees] using hc
  | binary l op r =>
    simp only [Expr.children, List.mem_cons, List.not_mem_nil, or_false] at h
    simp only [Expr.callees, List.mem_append]
    rcases h with rfl | rfl
    · exact .inl hc
    · exact .inr hc
  | matrix br rows =>
    simp only [Expr.children, List.mem_flatten] at h
    obtain ⟨row, hrow, hx⟩ := h
    simp only [Expr.callees]
    exact Expr.calleesArgs_sub_calleesRows hrow c (Expr.callees_sub_calleesArgs hx c hc)
  | call c' p args =>
    simp only [Expr.children, List.mem_cons] at h
    simp only [Expr.callees, List.mem_cons, List.mem_append]
    rcases h with rfl | h
    · exact .inr (.inl hc)
    · exact .inr (.inr (Expr.callees_sub_calleesArgs h c hc))

/-- a sub-tree is strictly less deep than the tree -/
theorem Expr.depth_of_child {e x : Expr S} (h : x ∈ e.children) : x.depth < e.depth := by
  cases e with
  | number z => cases h
  | measurement z u => cases h
  | ident n => cases h
  | as_ y t u =>
    simp only [Expr.children, List.mem_singleton] at h; subst h
    simp only [Expr.depth]; omega
  | unary op y =>
    simp only [Expr.children, List.mem_singleton] at h; subst h
    simp only [Expr.depth]; omega
  | grouping p k y =>
    simp only [Expr.children, List.mem_singleton] at h; subst h
    simp only [Expr.depth]; omega
  | binary l op r =>
    simp only [Expr.children, List.mem_cons, List.not_mem_nil, or_false] at h
    simp only [Expr.depth]
    rcases h with rfl | rfl <;> omega
  | matrix br rows =>
    simp only [Expr.children, List.mem_flatten] at h
    obtain ⟨row, hrow, hx⟩ := h
    simp only [Expr.depth]
    have := Expr.depth_le_depthArgs hx
    have := Expr.depthArgs_le_depthRows hrow
    omega
  | call c' p args =>
    simp only [Expr.children, List.mem_cons] at h
    simp only [Expr.depth]
    rcases h with rfl | h
    · omega
    · have := Expr.depth_le_depthArgs h
      omega

/-! ### lists of sub-trees, at a fixed table -/

theorem evalList_ne_fuel_at (ev : Evaluator S) (hp : ∀ e env, (ev e env).env = env) (env : Env S) :
    ∀ (es : List (Expr S)), (∀ e ∈ es, (ev e env).res ≠ .fuel) → (evalList ev es env).1 ≠ .fuel := by
  intro es
  induction es with
  | nil => intro _ h; cases h
  | cons e es ih =>
    intro hes h
    have h1 := hes e List.mem_cons_self
    have h2 := ih (fun x hx => hes x (List.mem_cons_of_mem _ hx))
    unfold evalList at h
    simp only [hp] at h
    split at h
    · split at h
      · cases h
      · exact h2 h
    · cases h
    · cases h
    · next hf => exact h1 hf

theorem evalRow_ne_fuel_at (ev : Evaluator S) (hp : ∀ e env, (ev e env).env = env) (br : Tok S)
    (ri : Nat) (env : Env S) :
    ∀ (es : List (Expr S)) (ci : Nat), (∀ e ∈ es, (ev e env).res ≠ .fuel) →
      (evalRow ev br ri ci es env).1 ≠ .fuel := by
  intro es
  induction es with
  | nil => intro ci _ h; cases h
  | cons e es ih =>
    intro ci hes h
    have h1 := hes e List.mem_cons_self
    have h2 := ih (ci + 1) (fun x hx => hes x (List.mem_cons_of_mem _ hx))
    unfold evalRow at h
    simp only [hp] at h
    split at h
    · split at h
      · cases h
      · exact h2 h
    · cases h
    · cases h
    · cases h
    · next hf => exact h1 hf

theorem evalRows_ne_fuel_at (ev : Evaluator S) (hp : ∀ e env, (ev e env).env = env) (br : Tok S)
    (env : Env S) :
    ∀ (rows : List (List (Expr S))) (ri : Nat),
      (∀ row ∈ rows, ∀ e ∈ row, (ev e env).res ≠ .fuel) →
      (evalRows ev br ri rows env).1 ≠ .fuel := by
  intro rows
  induction rows with
  | nil => intro ri _ h; cases h
  | cons row rows ih =>
    intro ri hrows h
    have h1 := evalRow_ne_fuel_at ev hp br ri env row 0 (hrows row List.mem_cons_self)
    have h2 := ih (ri + 1) (fun r hr => hrows r (List.mem_cons_of_mem _ hr))
    have he := evalRow_env ev hp br ri row 0 env
    unfold evalRows at h
    simp only at h
    split at h
    · split at h
      · cases h
      · rw [he] at h; exact h2 h
    · cases h
    · cases h
    · next hf => exact h1 hf

/-! ### one step of the evaluator -/

/-- One step.  With `f + 1` units of fuel a node returns (does not run out of fuel) as soon as
    * each immediate sub-tree returns with `f` units in the same table, and
    * if the node is a call whose callee evaluates to a user function and whose arguments
      evaluate to values, the application of that function with `f` units returns.
    Everything else the evaluator does at a node (operators, look-ups, native functions,
    matrix construction) consumes no fuel. -/
theorem eval_succ_ne_fuel (f : Nat) (e : Expr S) (env : Env S)
    (hsub : ∀ x ∈ e.children, (eval f x env).res ≠ .fuel)
    (hcall : ∀ c p args fn vs, e = .call c p args → (eval f c env).res = .ok (.user fn) →
      (evalList (eval f) args env).1 = .ok vs →
      callUser (eval f) fn p.line p.col vs env ≠ .fuel) :
    (eval (f + 1) e env).res ≠ .fuel := by
  cases e with
  | number z => intro h; simp only [eval] at h; cases h
  | measurement z u => intro h; simp only [eval] at h; cases h
  | ident n => simp only [eval]; exact lookupIdent_ne_fuel n env
  | as_ x t u =>
    have h1 := hsub x (by simp [Expr.children])
    simp only [eval]
    split
    · exact asop_ne_fuel _ _ _
    · exact h1
  | unary op x =>
    have h1 := hsub x (by simp [Expr.children])
    simp only [eval]
    split
    · exact unop_ne_fuel _ _
    · exact h1
  | grouping p k x =>
    have h1 := hsub x (by simp [Expr.children])
    simp only [eval]
    split
    · exact groupop_ne_fuel _ _ _
    · exact h1
  | binary l op r =>
    have h1 := hsub l (by simp [Expr.children])
    have h2 := hsub r (by simp [Expr.children])
    simp only [eval, eval_env]
    split
    · split
      · exact binop_ne_fuel _ _ _
      · exact h2
    · exact h1
  | matrix br rows =>
    have hrows : ∀ row ∈ rows, ∀ x ∈ row, (eval f x env).res ≠ .fuel := by
      intro row hrow x hx
      exact hsub x (by simp only [Expr.children, List.mem_flatten]; exact ⟨row, hrow, hx⟩)
    simp only [eval]
    split
    · intro h; cases h
    · have h1 := evalRows_ne_fuel_at (eval f) (eval_env f) br env _ 0 hrows
      split
      · intro h
        simp only [Res.bind_ok_eq_fuel, Mat.fromRows_ne_fuel] at h
      · intro h; cases h
      · intro h; cases h
      · next hf => exact absurd hf h1
  | call c p args =>
    have hc := hsub c (by simp [Expr.children])
    have hargs := evalList_ne_fuel_at (eval f) (eval_env f) env args
      (fun x hx => hsub x (by simp [Expr.children, hx]))
    have henv := evalList_env (eval f) (eval_env f) args env
    cases hr : (eval f c env).res with
    | fuel => exact absurd hr hc
    | diag d => rw [eval_call_callee f c p args env (by rw [hr]; intro a h; cases h), hr]; intro h; cases h
    | panic s => rw [eval_call_callee f c p args env (by rw [hr]; intro a h; cases h), hr]; intro h; cases h
    | ok v =>
      by_cases hfn : (∃ n, v = .native n) ∨ (∃ fn, v = .user fn)
      · cases hl : (evalList (eval f) args env).1 with
        | fuel => exact absurd hl hargs
        | diag d =>
          rw [eval_call_args f c p args env v hr hfn (by rw [hl]; intro vs h; cases h), hl]
          intro h; cases h
        | panic s =>
          rw [eval_call_args f c p args env v hr hfn (by rw [hl]; intro vs h; cases h), hl]
          intro h; cases h
        | ok vs =>
          rcases hfn with ⟨n, rfl⟩ | ⟨fn, rfl⟩
          · rw [eval_call_native f c p args env n vs hr hl]
            exact callNative_ne_fuel _ _ _ _
          · rw [eval_call_user f c p args env fn vs hr hl]
            exact hcall c p args fn vs rfl hr hl
      · rw [eval_call_not_callable f c p args env v hr
          (fun n h => hfn (.inl ⟨n, h⟩)) (fun fn h => hfn (.inr ⟨fn, h⟩))]
        intro h; cases h

/-! ### no user function in callee position: fuel above the depth suffices -/

/-- If no callee expression of the tree evaluates (in the given table, with less fuel) to a
    user function, fuel above the depth of the tree is enough: call-free trees, calls of native
    functions, calls of things that are not functions. -/
theorem eval_noUser_ne_fuel : ∀ (fuel : Nat) (e : Expr S) (env : Env S),
    (∀ c ∈ e.callees, ∀ f', f' < fuel → ∀ fn, (eval f' c env).res ≠ .ok (.user fn)) →
    e.depth < fuel → (eval fuel e env).res ≠ .fuel := by
  intro fuel
  induction fuel with
  | zero => intro e env _ h; exact absurd h (Nat.not_lt_zero _)
  | succ f ih =>
    intro e env hno hd
    apply eval_succ_ne_fuel
    · intro x hx
      apply ih x env
      · intro c hc f' hf' fn
        exact hno c (Expr.callees_of_child hx c hc) f' (by omega) fn
      · have := Expr.depth_of_child hx
        omega
    · intro c p args fn vs he hc _
      subst he
      exact absurd hc (hno c (by simp [Expr.callees]) f (by omega) fn)

/-- `m` is bound to a native function in the table -/
def IsNativeIn (env : Env S) (m : Str) : Prop :=
  ∃ nm c, Env.get env m = some ⟨.native nm, c⟩

/-- `m` is bound to the user function `fn` in the table -/
def IsUserIn (env : Env S) (m : Str) (fn : UserFn S) : Prop :=
  ∃ c, Env.get env m = some ⟨.user fn, c⟩

/-- an identifier bound to a native function evaluates to that native function or runs out of
    fuel — never to a user function -/
theorem eval_ident_native_ne_user {env : Env S} {t : Tok S} (h : IsNativeIn env t.lexeme)
    (f : Nat) (fn : UserFn S) : (eval f (.ident t) env).res ≠ .ok (.user fn) := by
  obtain ⟨nm, c, hg⟩ := h
  cases f with
  | zero => intro h; simp only [eval] at h; cases h
  | succ f =>
    simp only [eval, lookupIdent, hg]
    intro h; cases h

/-- every call node of the tree is `name(args…)` with `name` an identifier satisfying `ok` -/
def Expr.CallsOnly (ok : Str → Prop) (e : Expr S) : Prop :=
  ∀ c ∈ e.callees, ∃ t : Tok S, c = .ident t ∧ ok t.lexeme

theorem Expr.CallsOnly.child {ok : Str → Prop} {e x : Expr S} (h : e.CallsOnly ok)
    (hx : x ∈ e.children) : x.CallsOnly ok :=
  fun c hc => h c (Expr.callees_of_child hx c hc)

theorem Expr.CallsOnly.mono {ok ok' : Str → Prop} {e : Expr S} (h : e.CallsOnly ok)
    (hm : ∀ m, ok m → ok' m) : e.CallsOnly ok' := by
  intro c hc
  obtain ⟨t, rfl, ht⟩ := h c hc
  exact ⟨t, rfl, hm _ ht⟩

/-- Calls of native functions only: every call node is `name(args…)` where `name` is bound in
    the table to a native function.  Fuel above the depth of the tree suffices. -/
theorem eval_nativeCalls_ne_fuel (fuel : Nat) (e : Expr S) (env : Env S)
    (h : e.CallsOnly (IsNativeIn env)) (hd : e.depth < fuel) : (eval fuel e env).res ≠ .fuel := by
  apply eval_noUser_ne_fuel fuel e env _ hd
  intro c hc f' _ fn
  obtain ⟨t, rfl, ht⟩ := h c hc
  exact eval_ident_native_ne_user ht f' fn

/-! ### ranked user functions -/

/-- parameters that are not `m` leave the binding of `m` alone -/
theorem bindParams_get_of_not_param (m : Str) :
    ∀ (ps : List (Param S)) (vs : List (Value S)) (env : Env S),
      (∀ p, Param.ident p ∈ ps → p ≠ m) → Env.get (bindParams ps vs env) m = Env.get env m := by
  intro ps
  induction ps with
  | nil => intro vs env _; cases vs <;> rfl
  | cons p ps ih =>
    intro vs env hp
    cases vs with
    | nil => cases p <;> rfl
    | cons v vs =>
      cases p with
      | ident n =>
        simp only [bindParams]
        rw [ih vs _ (fun q hq => hp q (List.mem_cons_of_mem _ hq))]
        exact Env.get_insert_ne env _ (fun e => hp n List.mem_cons_self e.symm)
      | number z =>
        simp only [bindParams]
        exact ih vs env (fun q hq => hp q (List.mem_cons_of_mem _ hq))

/-- **Ranked tables.**  `Ranked env scope rank D`: the names in `scope` (the names used in callee
    position) are bound in `env` to functions; for each user function among them and each of its
    signatures
    * no named parameter is a name of `scope` (a parameter is never called, and never shadows a
      function that is called),
    * the body has depth at most `D`,
    * every call node of the body is `name(args…)` with `name` an identifier of `scope` that is
      bound to a native function or has a strictly smaller rank than the function itself. -/
structure Ranked (env : Env S) (scope : Str → Prop) (rank : Str → Nat) (D : Nat) : Prop where
  fn : ∀ m, scope m → IsNativeIn env m ∨ ∃ fn, IsUserIn env m fn ∧ ∀ sb ∈ fn.sigs,
        (∀ p, Param.ident p ∈ sb.1.params → ¬ scope p) ∧ sb.2.depth ≤ D ∧
        sb.2.CallsOnly (fun m' => scope m' ∧ (IsNativeIn env m' ∨ rank m' < rank m))

/-- the core induction: any table `env'` that agrees with `env` on the names of `scope` (the
    table of a call in progress: `env` extended by parameter bindings) -/
theorem eval_ranked_ne_fuel_gen {env : Env S} {scope : Str → Prop} {rank : Str → Nat} {D : Nat}
    (hR : Ranked env scope rank D) :
    ∀ (fuel K : Nat) (e : Expr S) (env' : Env S),
      (∀ m, scope m → Env.get env' m = Env.get env m) →
      e.CallsOnly (fun m => scope m ∧ (IsNativeIn env m ∨ rank m < K)) →
      e.depth + K * (D + 1) < fuel → (eval fuel e env').res ≠ .fuel := by
  intro fuel
  induction fuel with
  | zero => intro K e env' _ _ h; exact absurd h (Nat.not_lt_zero _)
  | succ f ih =>
    intro K e env' hag hco hd
    apply eval_succ_ne_fuel
    · intro x hx
      apply ih K x env' hag (hco.child hx)
      have := Expr.depth_of_child hx
      omega
    · intro c p args fn vs he hc _
      subst he
      obtain ⟨t, rfl, hsc, hrk⟩ := hco c (by simp [Expr.callees])
      -- what the callee identifier is bound to
      have hf1 : 1 ≤ f := by
        simp only [Expr.depth] at hd; omega
      obtain ⟨f0, rfl⟩ : ∃ f0, f = f0 + 1 := ⟨f - 1, by omega⟩
      simp only [eval, lookupIdent, hag _ hsc] at hc
      rcases hR.fn _ hsc with ⟨nm, cst, hg⟩ | ⟨fn', ⟨cst, hg⟩, hsigs⟩
      · rw [hg] at hc; cases hc
      · rw [hg] at hc
        simp only [Res.ok.injEq, Value.user.injEq] at hc
        subst hc
        have hrank : rank t.lexeme < K := by
          rcases hrk with ⟨nm, cst', hg'⟩ | h
          · rw [hg] at hg'; cases hg'
          · exact h
        unfold callUser
        split
        · next sig body hfind =>
          have hmem := List.mem_of_find?_eq_some hfind
          obtain ⟨hpar, hdep, hbody⟩ := hsigs _ hmem
          apply ih (rank t.lexeme) body _ _ hbody
          · have h1 : (rank t.lexeme + 1) * (D + 1) ≤ K * (D + 1) :=
              Nat.mul_le_mul_right _ hrank
            rw [Nat.succ_mul] at h1
            simp only at hdep
            omega
          · intro m hm
            rw [bindParams_get_of_not_param m _ _ _
              (fun q hq e => hpar q hq (e ▸ hm))]
            exact hag m hm
        · intro h; cases h

/-- **Ranked user functions terminate.**  In a ranked table, a tree whose call nodes are
    `name(args…)` with `name` in `scope`, native or of rank below `K`, never runs out of fuel
    once the fuel exceeds `depth e + K * (D + 1)`. -/
theorem eval_ranked_ne_fuel {env : Env S} {scope : Str → Prop} {rank : Str → Nat} {D : Nat}
    (hR : Ranked env scope rank D) (K : Nat) (e : Expr S)
    (hco : e.CallsOnly (fun m => scope m ∧ (IsNativeIn env m ∨ rank m < K)))
    (fuel : Nat) (hd : e.depth + K * (D + 1) < fuel) : (eval fuel e env).res ≠ .fuel :=
  eval_ranked_ne_fuel_gen hR fuel K e env (fun _ _ => rfl) hco hd

/-! ### the whole table ranked -/

/-- `m` is bound to a function (native or user) in the table -/
def IsFunIn (env : Env S) (m : Str) : Prop :=
  IsNativeIn env m ∨ ∃ fn, IsUserIn env m fn

/-- **Ranked table** (the special case `scope` = all function names of the table): for every
    user function bound in the table under a name `n`, and each of its signatures,
    * no named parameter is the name of a function of the table,
    * the body has depth at most `D`,
    * every call node of the body is `name(args…)` with `name` an identifier bound in the table
      to a native function, or to a user function with `rank name < rank n`. -/
structure RankedTable (env : Env S) (rank : Str → Nat) (D : Nat) : Prop where
  fn : ∀ n fn, IsUserIn env n fn → ∀ sb ∈ fn.sigs,
        (∀ p, Param.ident p ∈ sb.1.params → ¬ IsFunIn env p) ∧ sb.2.depth ≤ D ∧
        sb.2.CallsOnly (fun m => IsNativeIn env m ∨ ((∃ fn', IsUserIn env m fn') ∧ rank m < rank n))

theorem RankedTable.ranked {env : Env S} {rank : Str → Nat} {D : Nat}
    (h : RankedTable env rank D) : Ranked env (IsFunIn env) rank D := by
  constructor
  intro m hm
  rcases hm with hn | ⟨fn, hu⟩
  · exact .inl hn
  · refine .inr ⟨fn, hu, fun sb hsb => ?_⟩
    obtain ⟨h1, h2, h3⟩ := h.fn m fn hu sb hsb
    refine ⟨h1, h2, h3.mono ?_⟩
    intro m' hm'
    rcases hm' with hn | ⟨hu', hr⟩
    · exact ⟨.inl hn, .inl hn⟩
    · exact ⟨.inr hu', .inr hr⟩

theorem eval_rankedTable_ne_fuel {env : Env S} {rank : Str → Nat} {D : Nat}
    (hR : RankedTable env rank D) (K : Nat) (e : Expr S)
    (hco : e.CallsOnly (fun m => IsNativeIn env m ∨ ((∃ fn, IsUserIn env m fn) ∧ rank m < K)))
    (fuel : Nat) (hd : e.depth + K * (D + 1) < fuel) : (eval fuel e env).res ≠ .fuel := by
  apply eval_ranked_ne_fuel hR.ranked K e _ fuel hd
  apply hco.mono
  intro m hm
  rcases hm with hn | ⟨hu, hr⟩
  · exact ⟨.inl hn, .inl hn⟩
  · exact ⟨.inr hu, .inr hr⟩

/-! ### running out of fuel requires the application of a user function -/

/-- `Expr.SubTree x e`: `x` is a sub-tree of `e` (possibly `e` itself) -/
inductive Expr.SubTree : Expr S → Expr S → Prop
  | refl (e : Expr S) : Expr.SubTree e e
  | step {x y e : Expr S} : y ∈ e.children → Expr.SubTree x y → Expr.SubTree x e

/-- If an evaluation with fuel above the depth of the tree runs out of fuel, a user function
    was applied and it is that application that ran out of fuel: some call node `c(args…)` of
    the tree was reached (in the same table, with `f' < fuel` units), its callee evaluated to a
    user function `fn`, its arguments evaluated to values `vs`, and `fn(vs)` did not return
    within `f'` units. -/
theorem fuel_reaches_user_call : ∀ (fuel : Nat) (e : Expr S) (env : Env S),
    e.depth < fuel → (eval fuel e env).res = .fuel →
    ∃ (f' : Nat) (c : Expr S) (p : Tok S) (args : List (Expr S)) (fn : UserFn S)
      (vs : List (Value S)),
      f' < fuel ∧ Expr.SubTree (.call c p args) e ∧
      (eval f' c env).res = .ok (.user fn) ∧ (evalList (eval f') args env).1 = .ok vs ∧
      callUser (eval f') fn p.line p.col vs env = .fuel := by
  intro fuel
  induction fuel with
  | zero => intro e env h _; exact absurd h (Nat.not_lt_zero _)
  | succ f ih =>
    intro e env hd hres
    by_cases h1 : ∃ x ∈ e.children, (eval f x env).res = .fuel
    · obtain ⟨x, hx, hxf⟩ := h1
      have hdx := Expr.depth_of_child hx
      obtain ⟨f', c, p, args, fn, vs, hlt, hsub, h3, h4, h5⟩ := ih x env (by omega) hxf
      exact ⟨f', c, p, args, fn, vs, by omega, .step hx hsub, h3, h4, h5⟩
    · by_cases h2 : ∃ c p args fn vs, e = .call c p args ∧ (eval f c env).res = .ok (.user fn) ∧
          (evalList (eval f) args env).1 = .ok vs ∧
          callUser (eval f) fn p.line p.col vs env = .fuel
      · obtain ⟨c, p, args, fn, vs, rfl, h3, h4, h5⟩ := h2
        exact ⟨f, c, p, args, fn, vs, by omega, .refl _, h3, h4, h5⟩
      · exfalso
        refine eval_succ_ne_fuel f e env ?_ ?_ hres
        · intro x hx hxf; exact h1 ⟨x, hx, hxf⟩
        · intro c p args fn vs he h3 h4 h5
          exact h2 ⟨c, p, args, fn, vs, he, h3, h4, h5⟩

/-- the callee of a call node of a sub-tree is one of the callees of the tree -/
theorem Expr.SubTree.callee_mem {c : Expr S} {p : Tok S} {args : List (Expr S)} {e : Expr S}
    (h : Expr.SubTree (.call c p args) e) : c ∈ e.callees := by
  generalize hx : Expr.call c p args = x at h
  induction h with
  | refl => subst hx; simp [Expr.callees]
  | step hy _ ih => exact Expr.callees_of_child hy c ih

/-! ### divergence: evaluations that run out of fuel whatever the fuel -/

section Diverge

/-- the body `f(x)` of `f(x) = f(x)` -/
def loopBody (tf tx p : Tok S) : Expr S := .call (.ident tf) p [.ident tx]

/-- the function value stored by `f(x) = f(x)` (`nm`, `px`: the names `f`, `x`) -/
def loopFn (nm px : Str) (tf tx p : Tok S) : UserFn S :=
  ⟨nm, [(⟨[.ident px]⟩, loopBody tf tx p)]⟩

/-- inside `f`: with `f` bound to the function and `x` bound, `f(x)` never returns -/
theorem loopBody_diverges (nm px : Str) (tf tx p : Tok S) (htf : tf.lexeme = nm)
    (htx : tx.lexeme = px) (hne : nm ≠ px) :
    ∀ (fuel : Nat) (env : Env S), (∃ c, Env.get env nm = some ⟨.user (loopFn nm px tf tx p), c⟩) →
      (∃ v, Env.get env px = some v) →
      (eval fuel (loopBody tf tx p) env).res = .fuel := by
  intro fuel
  induction fuel with
  | zero => intro env _ _; rfl
  | succ n ih =>
    intro env hf hx
    obtain ⟨c, hf⟩ := hf
    obtain ⟨v, hx⟩ := hx
    cases n with
    | zero => simp [loopBody, eval]
    | succ k =>
      have hc : (eval (k + 1) (.ident tf) env).res = .ok (.user (loopFn nm px tf tx p)) := by
        simp [eval, lookupIdent, htf, hf]
      have ha : (evalList (eval (k + 1)) [.ident tx] env).1 = .ok [v.value] := by
        simp [evalList, eval, lookupIdent, htx, hx]
      unfold loopBody
      rw [eval_call_user (k + 1) _ p _ env _ _ hc ha]
      have hu : callUser (eval (k + 1)) (loopFn nm px tf tx p) p.line p.col [v.value] env =
          (eval (k + 1) (loopBody tf tx p) (Env.insert env px ⟨v.value, false⟩)).res := by
        simp [callUser, loopFn, sigMatches, bindParams]
      rw [hu]
      apply ih
      · exact ⟨c, by rw [Env.get_insert_ne env _ hne]; exact hf⟩
      · exact ⟨_, Env.get_insert_self env _ _⟩

/-- the call `f(z)` from outside -/
theorem loopCall_diverges (nm px : Str) (tf tx p tc p' : Tok S) (htf : tf.lexeme = nm)
    (htx : tx.lexeme = px) (htc : tc.lexeme = nm) (hne : nm ≠ px) (z : S)
    (fuel : Nat) (env : Env S)
    (hf : ∃ c, Env.get env nm = some ⟨.user (loopFn nm px tf tx p), c⟩) :
    (eval fuel (.call (.ident tc) p' [.number z]) env).res = .fuel := by
  obtain ⟨c, hf⟩ := hf
  cases fuel with
  | zero => rfl
  | succ n =>
    cases n with
    | zero => simp [eval]
    | succ k =>
      have hc : (eval (k + 1) (.ident tc) env).res = .ok (.user (loopFn nm px tf tx p)) := by
        simp [eval, lookupIdent, htc, hf]
      have ha : (evalList (eval (k + 1)) [.number z] env).1 = .ok [.number z] := by
        simp [evalList, eval]
      rw [eval_call_user (k + 1) _ p' _ env _ _ hc ha]
      have hu : callUser (eval (k + 1)) (loopFn nm px tf tx p) p'.line p'.col [.number z] env =
          (eval (k + 1) (loopBody tf tx p) (Env.insert env px ⟨.number z, false⟩)).res := by
        simp [callUser, loopFn, sigMatches, bindParams]
      rw [hu]
      apply loopBody_diverges nm px tf tx p htf htx hne
      · exact ⟨c, by rw [Env.get_insert_ne env _ hne]; exact hf⟩
      · exact ⟨_, Env.get_insert_self env _ _⟩

/-- `f(x) = f(x)` then `f(z)`, as two statements from any table in which `f` is unbound: the
    definition prints nothing, the call prints the fuel line — for every amount of fuel.
    `td`, `tf`, `tc` are the three occurrences of the name `f` (= `nm`), `tx` the occurrence of
    `x` (= `px`) in the body. -/
theorem named_recursion_diverges (nm px : Str) (td tf tx p tc p' : Tok S) (htd : td.lexeme = nm)
    (htf : tf.lexeme = nm) (htx : tx.lexeme = px) (htc : tc.lexeme = nm) (hne : nm ≠ px) (z : S)
    (env : Env S) (hfree : Env.get env nm = none) (fuel : Nat) :
    (runStmts fuel env
      [.define td ⟨[.ident px]⟩ (.call (.ident tf) p [.ident tx]),
       .expr (.call (.ident tc) p' [.number z])]).out = [.fuel] := by
  have h := loopCall_diverges nm px tf tx p tc p' htf htx htc hne z fuel
    (Env.insert env nm ⟨.user (loopFn nm px tf tx p), false⟩) ⟨false, Env.get_insert_self _ _ _⟩
  simp only [runStmts, step, htd, hfree, List.nil_append, List.append_nil]
  unfold loopFn loopBody at h
  rw [h]
  rfl

/-- the body `hh(hh)` of `w(hh) = hh(hh)` -/
def selfAppBody (th1 th2 p : Tok S) : Expr S := .call (.ident th1) p [.ident th2]

/-- the function value stored by `w(hh) = hh(hh)` (`nm`, `ph`: the names `w`, `hh`) -/
def selfAppFn (nm ph : Str) (th1 th2 p : Tok S) : UserFn S :=
  ⟨nm, [(⟨[.ident ph]⟩, selfAppBody th1 th2 p)]⟩

/-- with a name bound to the self-application function, `name(name)` never returns (for the
    parameter name `hh` inside the function, and for the global name `w` outside) -/
theorem selfApp_diverges (nm ph : Str) (th1 th2 p : Tok S) (h1 : th1.lexeme = ph)
    (h2 : th2.lexeme = ph) :
    ∀ (fuel : Nat) (name : Str) (t1 t2 p' : Tok S) (env : Env S),
      t1.lexeme = name → t2.lexeme = name →
      (∃ c, Env.get env name = some ⟨.user (selfAppFn nm ph th1 th2 p), c⟩) →
      (eval fuel (.call (.ident t1) p' [.ident t2]) env).res = .fuel := by
  intro fuel
  induction fuel with
  | zero => intro name t1 t2 p' env _ _ _; rfl
  | succ n ih =>
    intro name t1 t2 p' env ht1 ht2 hf
    obtain ⟨c, hf⟩ := hf
    cases n with
    | zero => simp [eval]
    | succ k =>
      have hc : (eval (k + 1) (.ident t1) env).res =
          .ok (.user (selfAppFn nm ph th1 th2 p)) := by
        simp [eval, lookupIdent, ht1, hf]
      have ha : (evalList (eval (k + 1)) [.ident t2] env).1 =
          .ok [.user (selfAppFn nm ph th1 th2 p)] := by
        simp [evalList, eval, lookupIdent, ht2, hf]
      rw [eval_call_user (k + 1) _ p' _ env _ _ hc ha]
      have hu : callUser (eval (k + 1)) (selfAppFn nm ph th1 th2 p) p'.line p'.col
            [.user (selfAppFn nm ph th1 th2 p)] env =
          (eval (k + 1) (selfAppBody th1 th2 p)
            (Env.insert env ph ⟨.user (selfAppFn nm ph th1 th2 p), false⟩)).res := by
        simp [callUser, selfAppFn, sigMatches, bindParams]
      rw [hu]
      exact ih ph th1 th2 p _ h1 h2 ⟨false, Env.get_insert_self env _ _⟩

/-- `w(hh) = hh(hh)` then `w(w)`, as two statements from any table in which `w` is unbound.
    `td`, `tc1`, `tc2` are the occurrences of `w` (= `nm`), `th1`, `th2` those of `hh` (= `ph`)
    in the body. -/
theorem self_application_diverges (nm ph : Str) (td th1 th2 p tc1 tc2 p' : Tok S)
    (htd : td.lexeme = nm) (h1 : th1.lexeme = ph) (h2 : th2.lexeme = ph)
    (hc1 : tc1.lexeme = nm) (hc2 : tc2.lexeme = nm) (env : Env S)
    (hfree : Env.get env nm = none) (fuel : Nat) :
    (runStmts fuel env
      [.define td ⟨[.ident ph]⟩ (.call (.ident th1) p [.ident th2]),
       .expr (.call (.ident tc1) p' [.ident tc2])]).out = [.fuel] := by
  have h := selfApp_diverges nm ph th1 th2 p h1 h2 fuel nm tc1 tc2 p'
    (Env.insert env nm ⟨.user (selfAppFn nm ph th1 th2 p), false⟩) hc1 hc2
    ⟨false, Env.get_insert_self _ _ _⟩
  simp only [runStmts, step, htd, hfree, List.nil_append, List.append_nil]
  unfold selfAppFn selfAppBody at h
  rw [h]
  rfl

/-! #### a literal base case that is never hit: `r(0) = b0; r(n) = n * r(n - 1); r(a)` -/

/-- `a, a - one, a - one - one, …` -/
def descend (one : S) : S → Nat → S
  | a, 0 => a
  | a, k + 1 => descend one (a - one) k

/-- the argument `n - 1` -/
def factArg (tn minus : Tok S) (one : S) : Expr S := .binary (.ident tn) minus (.number one)
/-- the recursive call `r(n - 1)` -/
def factCall (tr tn minus p : Tok S) (one : S) : Expr S :=
  .call (.ident tr) p [factArg tn minus one]
/-- the body `n * r(n - 1)` -/
def factBody (tn1 star tr tn2 minus p : Tok S) (one : S) : Expr S :=
  .binary (.ident tn1) star (factCall tr tn2 minus p one)
/-- the function value stored by `r(zero) = b0; r(n) = n * r(n - one)` -/
def factFn (nm pn : Str) (tn1 star tr tn2 minus p : Tok S) (zero one : S) (b0 : Expr S) :
    UserFn S :=
  ⟨nm, [(⟨[.number zero]⟩, b0), (⟨[.ident pn]⟩, factBody tn1 star tr tn2 minus p one)]⟩

theorem fact_diverges_aux (nm pn : Str) (tn1 star tr tn2 minus p : Tok S) (zero one : S)
    (b0 : Expr S) (htr : tr.lexeme = nm) (htn1 : tn1.lexeme = pn) (htn2 : tn2.lexeme = pn)
    (hne : nm ≠ pn) (hminus : minus.tag = .minus) :
    ∀ (fuel : Nat) (env : Env S) (a : S) (cn : Bool),
      (∃ c, Env.get env nm =
        some ⟨.user (factFn nm pn tn1 star tr tn2 minus p zero one b0), c⟩) →
      Env.get env pn = some ⟨.number a, cn⟩ →
      (∀ k, Kernel.eq (descend one a (k + 1)) zero = false) →
      (eval fuel (factCall tr tn2 minus p one) env).res = .fuel ∧
      (eval fuel (factBody tn1 star tr tn2 minus p one) env).res = .fuel := by
  intro fuel
  induction fuel with
  | zero => intro env a cn _ _ _; exact ⟨rfl, rfl⟩
  | succ f ih =>
    intro env a cn hr hn hz
    obtain ⟨c, hr'⟩ := hr
    constructor
    · -- the call `r(n - 1)`
      cases f with
      | zero => simp [factCall, eval]
      | succ f' =>
        have hc : (eval (f' + 1) (.ident tr) env).res =
            .ok (.user (factFn nm pn tn1 star tr tn2 minus p zero one b0)) := by
          simp [eval, lookupIdent, htr, hr']
        cases f' with
        | zero =>
          unfold factCall
          rw [eval_call_args 1 _ p _ env _ hc (.inr ⟨_, rfl⟩)
            (by simp [evalList, factArg, eval])]
          simp [evalList, factArg, eval]
        | succ f'' =>
          have ha : (evalList (eval (f'' + 1 + 1)) [factArg tn2 minus one] env).1 =
              .ok [.number (a - one)] := by
            simp [evalList, factArg, eval, lookupIdent, htn2, hn, binop, hminus]
          unfold factCall
          rw [eval_call_user (f'' + 1 + 1) _ p _ env _ _ hc ha]
          have hu : callUser (eval (f'' + 1 + 1))
                (factFn nm pn tn1 star tr tn2 minus p zero one b0)
                p.line p.col [.number (a - one)] env =
              (eval (f'' + 1 + 1) (factBody tn1 star tr tn2 minus p one)
                (Env.insert env pn ⟨.number (a - one), false⟩)).res := by
            have h0 : Kernel.eq (a - one) zero = false := hz 0
            simp [callUser, factFn, sigMatches, bindParams, h0]
          rw [hu]
          refine (ih _ (a - one) false ⟨c, ?_⟩ (Env.get_insert_self env _ _)
            (fun k => hz (k + 1))).2
          rw [Env.get_insert_ne env _ hne]; exact hr'
    · -- the body `n * r(n - 1)`
      have h1 := (ih env a cn ⟨c, hr'⟩ hn hz).1
      cases f with
      | zero => simp [factBody, eval]
      | succ f' =>
        have hl : (eval (f' + 1) (.ident tn1) env).res = .ok (.number a) := by
          simp [eval, lookupIdent, htn1, hn]
        unfold factBody
        simp only [eval_binary_right (f' + 1) _ _ star env _ hl
          (by rw [h1]; intro b h; cases h), h1]

/-- `r(zero) = b0; r(n) = n * r(n - one)` then `r(a)`, as three statements from any table in
    which `r` is unbound: if none of `a, a - one, a - one - one, …` equals `zero` (for the
    calculator's `==`), the call prints the fuel line for every amount of fuel.
    `td1`, `td2`, `tr`, `tc` are the occurrences of `r` (= `nm`), `tn1`, `tn2` those of `n`
    (= `pn`) in the body. -/
theorem missed_base_case_diverges (nm pn : Str) (td1 td2 tn1 star tr tn2 minus p tc p' : Tok S)
    (zero one a : S) (b0 : Expr S)
    (htd1 : td1.lexeme = nm) (htd2 : td2.lexeme = nm) (htr : tr.lexeme = nm)
    (htc : tc.lexeme = nm) (htn1 : tn1.lexeme = pn) (htn2 : tn2.lexeme = pn)
    (hne : nm ≠ pn) (hminus : minus.tag = .minus)
    (hz : ∀ k, Kernel.eq (descend one a k) zero = false)
    (env : Env S) (hfree : Env.get env nm = none) (fuel : Nat) :
    (runStmts fuel env
      [.define td1 ⟨[.number zero]⟩ b0,
       .define td2 ⟨[.ident pn]⟩
         (.binary (.ident tn1) star
           (.call (.ident tr) p [.binary (.ident tn2) minus (.number one)])),
       .expr (.call (.ident tc) p' [.number a])]).out = [.fuel] := by
  let R := factFn nm pn tn1 star tr tn2 minus p zero one b0
  let env1 : Env S := Env.insert env nm ⟨.user ⟨nm, [(⟨[.number zero]⟩, b0)]⟩, false⟩
  let env2 : Env S := Env.insert env1 nm ⟨.user R, false⟩
  have hg2 : Env.get env2 nm = some ⟨.user R, false⟩ := Env.get_insert_self _ _ _
  have hcall : (eval fuel (.call (.ident tc) p' [.number a]) env2).res = .fuel := by
    cases fuel with
    | zero => rfl
    | succ n =>
      cases n with
      | zero => simp [eval]
      | succ k =>
        have hc : (eval (k + 1) (.ident tc) env2).res = .ok (.user R) := by
          simp [eval, lookupIdent, htc, hg2]
        have ha : (evalList (eval (k + 1)) [.number a] env2).1 = .ok [.number a] := by
          simp [evalList, eval]
        rw [eval_call_user (k + 1) _ p' _ env2 _ _ hc ha]
        have hu : callUser (eval (k + 1)) R p'.line p'.col [.number a] env2 =
            (eval (k + 1) (factBody tn1 star tr tn2 minus p one)
              (Env.insert env2 pn ⟨.number a, false⟩)).res := by
          have h0 : Kernel.eq a zero = false := hz 0
          simp [callUser, R, factFn, sigMatches, bindParams, h0]
        rw [hu]
        refine (fact_diverges_aux nm pn tn1 star tr tn2 minus p zero one b0 htr htn1 htn2 hne
          hminus (k + 1) _ a false ⟨false, ?_⟩ (Env.get_insert_self _ _ _)
          (fun k => hz (k + 1))).2
        rw [Env.get_insert_ne _ _ hne]; exact hg2
  have hg1 : Env.get env1 nm =
      some ⟨.user ⟨nm, [(⟨[.number zero]⟩, b0)]⟩, false⟩ := Env.get_insert_self _ _ _
  simp only [runStmts, step, htd1, htd2, hfree, List.nil_append, List.append_nil]
  simp only [env1] at hg1
  simp only [hg1, defineSig, sigEquiv, paramEquiv, Bool.false_and, Bool.false_eq_true, if_false]
  simp only [env2, env1, R, factFn, factBody, factCall, factArg] at hcall
  rw [hcall]
  rfl

end Diverge

end Calc
