/-
  Calc.Proofs.SigPerBits — the hypothesis `EqPer` of `Calc/Proofs/SigPer.lean` is satisfied by
  IEEE-754 binary64 `==`, on bit patterns.  Core Lean only (no Mathlib).

  Lean's `Float` is opaque to the kernel, so — as in `Calc/Proofs/PrintBits.lean` — the statements
  are about BIT PATTERNS (`UInt64`), with the same conventions as there:
    * magnitude      `b &&& 0x7FFFFFFFFFFFFFFF`   (sign bit cleared)
    * NaN            magnitude `> 0x7FF0000000000000`  (exponent field all ones, fraction non-zero;
                     cf. `C15_bits_every_nan_prints_NaN`)
    * zero           magnitude `= 0`                   (`+0` or `-0`; `PrintBits.isZeroBits`)
  `feq p q` is `p == q` of two `f64`: both are not NaN, and they are the same pattern or both
  zeros.  `ceq` is the derived `PartialEq` of `Complex64`: `re == re && im == im`.

  The tie "`Float.==` on `Float.ofBits p`, `Float.ofBits q` is `feq p q`" is not provable in Lean
  (opaque `Float`); it is carried by the correspondence stream that runs `Calc.Exec.Cx` against
  the Rust binary.
-/
import Calc.Model.Kernel
import Calc.Exec.FloatFmt
import Calc.Proofs.SigPer
namespace Calc.F64Eq
open Calc

/-- clear the sign bit -/
def mag (b : UInt64) : UInt64 := b &&& 0x7FFFFFFFFFFFFFFF

/-- the pattern is a NaN: exponent field all ones and fraction non-zero, i.e. the magnitude is
    above that of `inf` -/
def isNaN (b : UInt64) : Bool := decide (mag b > 0x7FF0000000000000)

/-- the pattern is `+0` or `-0` -/
def isZero (b : UInt64) : Bool := decide (mag b = 0)

/-- IEEE-754 `==` on binary64 patterns: false if either side is a NaN; `+0 == -0`; otherwise
    equality of patterns -/
def feq (p q : UInt64) : Bool :=
  !isNaN p && !isNaN q && (decide (p = q) || (isZero p && isZero q))

theorem feq_iff (p q : UInt64) :
    feq p q = true ↔
      isNaN p = false ∧ isNaN q = false ∧ (p = q ∨ (isZero p = true ∧ isZero q = true)) := by
  unfold feq
  simp only [Bool.and_eq_true, Bool.or_eq_true, decide_eq_true_eq, Bool.not_eq_true']
  constructor
  · rintro ⟨⟨h1, h2⟩, h3⟩; exact ⟨h1, h2, h3⟩
  · rintro ⟨h1, h2, h3⟩; exact ⟨⟨h1, h2⟩, h3⟩

/-- reflexive exactly on the patterns that are not NaN -/
theorem feq_refl_iff (p : UInt64) : feq p p = true ↔ isNaN p = false := by
  rw [feq_iff]
  constructor
  · rintro ⟨h, -, -⟩; exact h
  · intro h; exact ⟨h, h, .inl rfl⟩

theorem feq_refl {p : UInt64} (h : isNaN p = false) : feq p p = true := (feq_refl_iff p).mpr h

theorem feq_symm {p q : UInt64} (h : feq p q = true) : feq q p = true := by
  rw [feq_iff] at h ⊢
  obtain ⟨h1, h2, h3⟩ := h
  refine ⟨h2, h1, ?_⟩
  rcases h3 with h3 | ⟨h3, h4⟩
  · exact .inl h3.symm
  · exact .inr ⟨h4, h3⟩

theorem feq_trans {p q r : UInt64} (h : feq p q = true) (h' : feq q r = true) :
    feq p r = true := by
  rw [feq_iff] at h h' ⊢
  obtain ⟨h1, -, h3⟩ := h
  obtain ⟨-, h2', h3'⟩ := h'
  refine ⟨h1, h2', ?_⟩
  rcases h3 with rfl | ⟨h3, h4⟩
  · exact h3'
  · rcases h3' with rfl | ⟨h5, h6⟩
    · exact .inr ⟨h3, h4⟩
    · exact .inr ⟨h3, h6⟩

/-- whoever is `==` to something is not a NaN -/
theorem not_nan_of_feq {p q : UInt64} (h : feq p q = true) : isNaN p = false ∧ isNaN q = false :=
  ⟨((feq_iff p q).mp h).1, ((feq_iff p q).mp h).2.1⟩

/-- a pattern at most that of `+inf` (sign clear, finite or infinite) is not a NaN -/
theorem isNaN_of_le_inf {b : UInt64} (h : b ≤ 0x7FF0000000000000) : isNaN b = false := by
  have h' := UInt64.le_iff_toNat_le.mp h
  simp only [isNaN, mag, decide_eq_false_iff_not, gt_iff_lt, UInt64.lt_iff_toNat_lt,
    UInt64.toNat_and, Nat.not_lt]
  exact Nat.le_trans Nat.and_le_left h'

/-! ### the named patterns, and why `==` is not `=` -/

def posZero : UInt64 := 0x0000000000000000
def negZero : UInt64 := 0x8000000000000000
/-- the canonical quiet NaN (`f64::NAN`) -/
def qNaN : UInt64 := 0x7FF8000000000000
def one : UInt64 := 0x3FF0000000000000
def posInf : UInt64 := 0x7FF0000000000000

theorem nan_ne_self : feq qNaN qNaN = false := by decide
theorem zeros_eq : feq posZero negZero = true := by decide
theorem zeros_ne : posZero ≠ negZero := by decide
theorem inf_eq_self : feq posInf posInf = true := by decide

/-- `p == q ↔ p = q` fails for binary64 in BOTH directions -/
theorem feq_is_not_eq : ¬ ∀ p q : UInt64, feq p q = true ↔ p = q := by
  intro h
  exact zeros_ne ((h posZero negZero).mp zeros_eq)

theorem feq_not_refl : ¬ ∀ p : UInt64, feq p p = true := by
  intro h
  have := h qNaN
  rw [nan_ne_self] at this
  cases this

/-! ### complex numbers: `Complex64 == Complex64` is `re == re && im == im` -/

/-- a `Complex64` as the patterns of its two parts -/
structure Cx64 where
  re : UInt64
  im : UInt64

def ceq (a b : Cx64) : Bool := feq a.re b.re && feq a.im b.im

/-- neither part is a NaN -/
def NoNaN (a : Cx64) : Prop := isNaN a.re = false ∧ isNaN a.im = false

theorem ceq_refl {a : Cx64} (h : NoNaN a) : ceq a a = true := by
  unfold ceq
  rw [feq_refl h.1, feq_refl h.2]
  rfl

theorem ceq_refl_iff (a : Cx64) : ceq a a = true ↔ NoNaN a := by
  unfold ceq NoNaN
  rw [Bool.and_eq_true, feq_refl_iff, feq_refl_iff]

theorem ceq_symm {a b : Cx64} (h : ceq a b = true) : ceq b a = true := by
  unfold ceq at h ⊢
  rw [Bool.and_eq_true] at h ⊢
  exact ⟨feq_symm h.1, feq_symm h.2⟩

theorem ceq_trans {a b c : Cx64} (h : ceq a b = true) (h' : ceq b c = true) :
    ceq a c = true := by
  unfold ceq at h h' ⊢
  rw [Bool.and_eq_true] at h h' ⊢
  exact ⟨feq_trans h.1 h'.1, feq_trans h.2 h'.2⟩

/-! ### a `Kernel` instance whose `eq` is IEEE `==`

  Exactly as for `PrintBits.kernel`: this instance exists ONLY to show that `EqPer` is satisfiable
  by the comparison the code uses.  `eq` is `ceq`; `ofDecimal` is the real reader
  (`decimalToBits`, real part; imaginary part `+0`); every other method is an arbitrary total
  placeholder and NO fact is claimed of it. -/

instance : Zero Cx64 := ⟨⟨posZero, posZero⟩⟩
instance : One Cx64 := ⟨⟨one, posZero⟩⟩
instance : Add Cx64 := ⟨fun a _ => a⟩
instance : Sub Cx64 := ⟨fun a _ => a⟩
instance : Mul Cx64 := ⟨fun a _ => a⟩
instance : Div Cx64 := ⟨fun a _ => a⟩

instance kernel : Kernel Cx64 where
  negOne := ⟨0xBFF0000000000000, posZero⟩
  i := ⟨posZero, one⟩
  inf := ⟨posInf, posZero⟩
  ofNat _ := ⟨posZero, posZero⟩
  ofDecimal m e := ⟨Calc.Exec.decimalToBits m e, posZero⟩
  ofRatio _ _ := ⟨posZero, posZero⟩
  ofBits _ _ := ⟨posZero, posZero⟩
  eq := ceq
  normIsZero z := isZero z.re && isZero z.im
  reIsZero z := isZero z.re
  imIsZero z := isZero z.im
  imIsOne z := feq z.im one
  imIsNegOne z := feq z.im 0xBFF0000000000000
  imIsNeg _ := false
  reFractIsZero _ := true
  reNonneg _ := true
  rePos _ := true
  reToNat _ := 0
  mulRe z _ := z
  powc z _ := z
  rem z _ := z
  sqrt z := z
  norm z := z
  normSqr z := z
  ceilRe z := z
  floorRe z := z
  fmtRe _ := []
  fmtIm _ := []
  fmtAbsIm _ := []
  sin z := z
  cos z := z
  tan z := z
  asin z := z
  acos z := z
  atan z := z
  sinh z := z
  cosh z := z
  tanh z := z
  asinh z := z
  acosh z := z
  atanh z := z
  reS z := z
  imS z := z
  argS z := z
  conj z := z
  ln z := z
  log2 z := z
  log10 z := z
  logBase _ z := z
  gcd z _ := z
  lcm z _ := z

theorem kernel_eq (a b : Cx64) : Kernel.eq a b = ceq a b := rfl

/-- **IEEE `==` on `Complex64` patterns is a partial equivalence, reflexive off NaN.** -/
theorem eqPer_cx64 : EqPer Cx64 NoNaN where
  refl _ h := ceq_refl h
  symm _ _ h := ceq_symm h
  trans _ _ _ h h' := ceq_trans h h'

/-- … and the hypothesis of `Calc/Props/C13.lean` is false of it. -/
theorem not_heq_cx64 : ¬ ∀ a b : Cx64, Kernel.eq a b = true ↔ a = b := by
  intro h
  have h1 := (h ⟨posZero, posZero⟩ ⟨negZero, posZero⟩).mp (by decide)
  have h2 : posZero = negZero := congrArg Cx64.re h1
  exact zeros_ne h2

end Calc.F64Eq
