/-
  Calc.Proofs.ScanTables — the hypotheses `hstart` (C01) and `hblank` (C17) hold for the
  generated `char::is_alphanumeric` range table (read by linear search; the executable
  instance in Calc/Exec uses binary search over the same table and occurs in no theorem).
  Core Lean only; the table facts are closed computations checked by the kernel (`decide`).
-/
import Calc.Proofs.ScanLoop
import Calc.Generated.UnicodeClasses
namespace Calc
open List

/-- `char::is_alphanumeric` read off the generated range table by linear search -/
def alnumTable (n : Nat) : Bool := Gen.alnumRanges.toList.any (fun r => r.1 ≤ n && n ≤ r.2)

/-- a scanner configuration whose continue class is the generated table -/
def tableCfg {S : Type} (tab : Nat) (kw : Str → Option (Kind S)) : ScanCfg S :=
  ⟨tab, fun c => alnumTable c.toNat, kw⟩

theorem alnumTable_lower : ∀ n, n < 123 → 97 ≤ n → alnumTable n = true := by decide +kernel
theorem alnumTable_upper : ∀ n, n < 91 → 65 ≤ n → alnumTable n = true := by decide +kernel
theorem alnumTable_greek : alnumTable 'π'.toNat = true ∧ alnumTable 'ϕ'.toNat = true ∧
    alnumTable 'µ'.toNat = true ∧ alnumTable 'μ'.toNat = true := by decide +kernel
theorem alnumTable_blank : alnumTable ' '.toNat = false ∧ alnumTable '\t'.toNat = false ∧
    alnumTable '\r'.toNat = false := by decide +kernel

theorem char_range {a b c : Char} (h1 : a ≤ c) (h2 : c ≤ b) : a.toNat ≤ c.toNat ∧ c.toNat ≤ b.toNat := by
  rw [Char.le_def, UInt32.le_iff_toNat_le] at h1 h2
  exact ⟨h1, h2⟩

variable {S : Type}

/-- every identifier-start character is an identifier-continue character of the real table -/
theorem tableCfg_hstart (tab : Nat) (kw : Str → Option (Kind S)) :
    ∀ c, isIdentStart c = true → isIdentCont (tableCfg tab kw) c = true := by
  intro c hi
  simp only [isIdentStart, Bool.or_eq_true, Bool.and_eq_true, decide_eq_true_eq] at hi
  simp only [isIdentCont, tableCfg, Bool.or_eq_true, decide_eq_true_eq]
  rcases hi with ((((((h | h) | rfl) | rfl) | rfl) | rfl) | rfl) | rfl
  · obtain ⟨h1, h2⟩ := char_range h.1 h.2
    exact .inl (.inl (alnumTable_lower _ (Nat.lt_succ_of_le h2) h1))
  · obtain ⟨h1, h2⟩ := char_range h.1 h.2
    exact .inl (.inl (alnumTable_upper _ (Nat.lt_succ_of_le h2) h1))
  · exact .inl (.inr rfl)
  · exact .inl (.inl alnumTable_greek.1)
  · exact .inl (.inl alnumTable_greek.2.1)
  · exact .inr rfl
  · exact .inl (.inl alnumTable_greek.2.2.1)
  · exact .inl (.inl alnumTable_greek.2.2.2)

/-- no blank is an identifier-continue character of the real table -/
theorem tableCfg_hblank (tab : Nat) (kw : Str → Option (Kind S)) :
    ∀ c, isBlank c = true → isIdentCont (tableCfg tab kw) c = false := by
  intro c h
  simp only [isBlank, Bool.or_eq_true, decide_eq_true_eq] at h
  simp only [isIdentCont, tableCfg, Bool.or_eq_false_iff, decide_eq_false_iff_not]
  rcases h with (rfl | rfl) | rfl
  · exact ⟨⟨alnumTable_blank.1, by decide⟩, by decide⟩
  · exact ⟨⟨alnumTable_blank.2.1, by decide⟩, by decide⟩
  · exact ⟨⟨alnumTable_blank.2.2, by decide⟩, by decide⟩

end Calc
