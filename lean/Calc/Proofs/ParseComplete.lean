/-
  Calc.Proofs.ParseComplete — every phrase of the documented grammar is accepted by the parser
  function of its level and read as the grammar reads it, provided the token after the phrase
  cannot extend it (mutual recursion on the derivation).  Core Lean only.
-/
import Calc.Proofs.ParseWF
namespace Calc
variable {S : Type}
set_option linter.unusedSimpArgs false

/-! ## Stop conditions -/

/-- the tags that, directly after a phrase of level `l`, would make the parser continue the
    phrase: the operators of that level and of all tighter levels -/
def stopSet : Level → List Tag
  | .primary => []
  | .call => [.lparen]
  | .fact => [.bang, .lparen]
  | .unary => [.bang, .lparen]
  | .expo => [.caret, .bang, .lparen]
  | .cross => [.cross, .caret, .bang, .lparen]
  | .dot => [.dot, .cross, .caret, .bang, .lparen]
  | .factor => [.star, .slash, .percent, .dot, .cross, .caret, .bang, .lparen]
  | .term => [.plus, .minus, .star, .slash, .percent, .dot, .cross, .caret, .bang, .lparen]
  | .expr => [.as_, .plus, .minus, .star, .slash, .percent, .dot, .cross, .caret, .bang, .lparen]

/-- the rest `r` does not begin with a token that extends a phrase of level `l` -/
def Stop (l : Level) (r : List (Tok S)) : Prop := ∀ t, r.head? = some t → t.tag ∉ stopSet l

/-- a phrase ending in a NUMBER token is not followed by a UNIT token (which the parser would
    glue to the number as a measurement) -/
def NoGlue (c r : List (Tok S)) : Prop :=
  ∀ t u, c.getLast? = some t → r.head? = some u → t.tag = .number → u.tag ≠ .unit

@[simp] theorem Stop_nil (l : Level) : Stop l ([] : List (Tok S)) := by intro t h; simp at h
theorem Stop_cons {l : Level} {t : Tok S} {r} : Stop l (t :: r) ↔ t.tag ∉ stopSet l := by
  simp [Stop]
theorem Stop.head {l : Level} {t : Tok S} {r} (h : Stop l (t :: r)) : t.tag ∉ stopSet l :=
  Stop_cons.mp h
@[simp] theorem NoGlue_nil (c : List (Tok S)) : NoGlue c [] := by intro t u _ h; simp at h
theorem NoGlue_cons {c : List (Tok S)} {u r} (h : u.tag ≠ .unit) : NoGlue c (u :: r) := by
  intro t u' _ hu _; simp at hu; subst hu; exact h
theorem NoGlue.of_append {c₁ c₂ r : List (Tok S)} (h : NoGlue (c₁ ++ c₂) r) :
    NoGlue c₂ r := by
  intro t u ht hu
  apply h t u _ hu
  rw [List.getLast?_append, ht]; rfl
theorem NoGlue.of_cons {t : Tok S} {c r : List (Tok S)} (h : NoGlue (t :: c) r) :
    NoGlue c r := NoGlue.of_append (c₁ := [t]) h

theorem Stop.mono {l l' : Level} {r : List (Tok S)} (hn : l.next = some l') (h : Stop l r) :
    Stop l' r := by
  intro t ht
  have := h t ht
  cases l <;> simp [Level.next] at hn <;> subst hn <;> simp [stopSet] at this ⊢ <;> simp [this]

/-! ## First tokens -/

/-- the tags a primary can begin with -/
def startTag : Tag → Bool
  | .number | .ident | .lparen | .pipe | .lceil | .lfloor | .lbracket => true
  | _ => false

/-- the levels below the prefix operators -/
def Level.tight : Level → Bool
  | .fact | .call | .primary => true
  | _ => false

def FirstOK (l : Level) (c : List (Tok S)) : Prop :=
  ∃ t, c.head? = some t ∧
    (startTag t.tag = true ∨ (l.tight = false ∧ (t.tag = .minus ∨ t.tag = .sqrt)))

theorem FirstOK.append {l : Level} {c : List (Tok S)} (h : FirstOK l c) (x) : FirstOK l (c ++ x) := by
  obtain ⟨t, hc, h⟩ := h
  exact ⟨t, by simp [List.head?_append, hc], h⟩

theorem FirstOK.loose {l l' : Level} {c : List (Tok S)} (h : FirstOK l c) (hl : l'.tight = false) :
    FirstOK l' c := by
  obtain ⟨t, hc, h⟩ := h
  refine ⟨t, hc, ?_⟩
  rcases h with h | ⟨_, h⟩
  · exact Or.inl h
  · exact Or.inr ⟨hl, h⟩

theorem FirstOK.cons_eq {l : Level} {c : List (Tok S)} (h : FirstOK l c) :
    ∃ t c', c = t :: c' ∧
      (startTag t.tag = true ∨ (l.tight = false ∧ (t.tag = .minus ∨ t.tag = .sqrt))) := by
  obtain ⟨t, hc, h⟩ := h
  obtain ⟨c', rfl⟩ := List.head?_eq_some_iff.mp hc
  exact ⟨t, c', rfl, h⟩

theorem Derives.first : ∀ {l} {c : List (Tok S)} {e}, Derives l c e → FirstOK l c
  | l, _, _, .incl (l' := l') hn h => by
    obtain ⟨t, hc, h⟩ := h.first
    refine ⟨t, hc, ?_⟩
    rcases h with h | ⟨ht, h⟩
    · exact Or.inl h
    · refine Or.inr ⟨?_, h⟩
      cases l <;> simp [Level.next] at hn <;> subst hn <;> simp [Level.tight] at ht ⊢
  | _, _, _, .as_ h _ _ => (h.first.append _).loose rfl
  | _, _, _, .binl _ _ h _ => h.first.append _
  | _, _, _, .pow _ h _ => (h.first.append _).loose rfl
  | _, _, _, .pre hop _ => ⟨_, rfl, Or.inr ⟨rfl, hop⟩⟩
  | _, _, _, .post _ h => h.first.append _
  | _, _, _, .call0 _ _ h => h.first.append _
  | _, _, _, .call (lp := lp) (ca := ca) (rp := rp) _ _ h _ => by
    have := (h.first.append (lp :: ca)).append [rp]
    simpa using this
  | _, _, _, .number hk => ⟨_, rfl, Or.inl (by rw [kind_tag hk]; rfl)⟩
  | _, _, _, .measurement hk _ => ⟨_, rfl, Or.inl (by rw [kind_tag hk]; rfl)⟩
  | _, _, _, .ident hk => ⟨_, rfl, Or.inl (by rw [kind_tag hk]; rfl)⟩
  | _, _, _, .group (k := k) ho _ _ => ⟨_, rfl, Or.inl (by rw [ho]; cases k <;> rfl)⟩
  | _, _, _, .matrix ho _ _ _ => ⟨_, rfl, Or.inl (by rw [ho]; rfl)⟩

theorem DerivesArgs.first {c : List (Tok S)} {es} (h : DerivesArgs c es) : FirstOK .expr c := by
  cases h with
  | one h => exact h.first
  | cons h _ _ => exact h.first.append _

/-! ## The parser function of each level -/

def pL : Level → Nat → List (Tok S) → PRes S (Expr S)
  | .expr => pExpression | .term => pTerm | .factor => pFactor | .dot => pDot | .cross => pCross
  | .expo => pExponent | .unary => pUnary | .fact => pFactorial | .call => pCall
  | .primary => pPrimary

def pLoopL : Level → Nat → Expr S → List (Tok S) → PRes S (Expr S)
  | .term => pTermLoop | .factor => pFactorLoop | .dot => pDotLoop | .cross => pCrossLoop
  | .fact => pFactorialLoop | .call => pCallLoop
  | _ => fun _ e r => .ok e r

/-- what the loop form needs of the rest: no token that extends the OPERAND level -/
def StopIn : Level → List (Tok S) → Prop
  | .term => Stop .factor | .factor => Stop .dot | .dot => Stop .cross | .cross => Stop .expo
  | .fact => Stop .call | .call => fun _ => True
  | .expr => Stop .expr | .expo => Stop .expo | .unary => Stop .unary | .primary => Stop .primary

/-- loop form: on `c ++ r` the level function behaves as its loop entered with the tree `e` on `r` -/
def CompleteL (l : Level) (c : List (Tok S)) (e : Expr S) : Prop :=
  ∃ N k, ∀ f, N ≤ f → ∀ r, StopIn l r → NoGlue c r → pL l (f + k) (c ++ r) = pLoopL l f e r

/-- direct form -/
def Complete (l : Level) (c : List (Tok S)) (e : Expr S) : Prop :=
  ∃ N, ∀ f, N ≤ f → ∀ r, Stop l r → NoGlue c r → pL l f (c ++ r) = .ok e r

theorem Stop.stopIn {l : Level} {r : List (Tok S)} (h : Stop l r) : StopIn l r := by
  cases l <;> simp only [StopIn] <;> first | exact h | exact h.mono rfl | trivial

theorem pLoopL_stop {l : Level} {r : List (Tok S)} (h : Stop l r) (f : Nat) (e : Expr S) :
    pLoopL l (f + 1) e r = .ok e r := by
  cases r with
  | nil => cases l <;> simp [pLoopL, pTermLoop, pFactorLoop, pDotLoop, pCrossLoop, pFactorialLoop, pCallLoop]
  | cons t r =>
    have h := h.head
    cases l <;> simp [stopSet] at h <;>
      simp [pLoopL, pTermLoop, pFactorLoop, pDotLoop, pCrossLoop, pFactorialLoop, pCallLoop,
        isAddOp, isMulOp, h]

theorem CompleteL.complete {l : Level} {c : List (Tok S)} {e} (h : CompleteL l c e) :
    Complete l c e := by
  obtain ⟨N, k, h⟩ := h
  refine ⟨N + k + 1, fun f hf r hs hg => ?_⟩
  obtain ⟨g, rfl⟩ : ∃ g, f = (g + 1) + k := ⟨f - k - 1, by omega⟩
  rw [h (g + 1) (by omega) r hs.stopIn hg, pLoopL_stop hs]

theorem Stop_primary (r : List (Tok S)) : Stop .primary r := by intro t _; simp [stopSet]

theorem pExponentLoop_stop' {r : List (Tok S)} (h : Stop .expo r) (f : Nat) (e : Expr S) :
    pExponentLoop (f + 1) e r = .ok e r := by
  cases r with
  | nil => simp [pExponentLoop]
  | cons t r =>
    have h := h.head
    simp [stopSet] at h
    simp [pExponentLoop, h]

theorem startTag_not_prefix {tg : Tag} (h : startTag tg = true) : tg ≠ .minus ∧ tg ≠ .sqrt := by
  cases tg <;> simp [startTag] at h ⊢

/-! ## One lemma per grammar rule -/

theorem complete_incl {l l' : Level} {c : List (Tok S)} {e} (hn : l.next = some l')
    (d : Derives l' c e) (h : Complete l' c e) : CompleteL l c e := by
  obtain ⟨N, h⟩ := h
  cases l <;> simp [Level.next] at hn <;> subst hn
  case expr =>
    refine ⟨N, 1, fun f hf r hs hg => ?_⟩
    have h1 := h f hf r (hs.mono rfl) hg
    simp only [pL] at h1
    simp only [pL, pLoopL, pExpression, h1]
    cases r with
    | nil => rfl
    | cons t r =>
      have := hs.head
      simp [stopSet] at this
      simp [this]
  case term =>
    refine ⟨N, 1, fun f hf r hs hg => ?_⟩
    have h1 := h f hf r hs hg
    simp only [pL] at h1
    simp only [pL, pLoopL, pTerm, h1]
  case factor =>
    refine ⟨N, 1, fun f hf r hs hg => ?_⟩
    have h1 := h f hf r hs hg
    simp only [pL] at h1
    simp only [pL, pLoopL, pFactor, h1]
  case dot =>
    refine ⟨N, 1, fun f hf r hs hg => ?_⟩
    have h1 := h f hf r hs hg
    simp only [pL] at h1
    simp only [pL, pLoopL, pDot, h1]
  case cross =>
    refine ⟨N, 1, fun f hf r hs hg => ?_⟩
    have h1 := h f hf r hs hg
    simp only [pL] at h1
    simp only [pL, pLoopL, pCross, h1]
  case expo =>
    refine ⟨N + 1, 1, fun f hf r hs hg => ?_⟩
    obtain ⟨g, rfl⟩ : ∃ g, f = g + 1 := ⟨f - 1, by omega⟩
    have h1 := h (g + 1) (by omega) r (hs.mono rfl) hg
    simp only [pL] at h1
    simp only [pL, pLoopL, pExponent, h1]
    exact pExponentLoop_stop' hs _ _
  case unary =>
    refine ⟨N, 1, fun f hf r hs hg => ?_⟩
    have h1 := h f hf r hs hg
    simp only [pL] at h1
    obtain ⟨t, c', rfl, ht⟩ := d.first.cons_eq
    simp [Level.tight] at ht
    have := startTag_not_prefix ht
    simp only [pL, pLoopL, pUnary, List.cons_append]
    simp only [List.cons_append] at h1
    simp [this, h1]
  case fact =>
    refine ⟨N, 1, fun f hf r hs hg => ?_⟩
    have h1 := h f hf r hs hg
    simp only [pL] at h1
    simp only [pL, pLoopL, pFactorial, h1]
  case call =>
    refine ⟨N, 1, fun f hf r hs hg => ?_⟩
    have h1 := h f hf r (Stop_primary r) hg
    simp only [pL] at h1
    simp only [pL, pLoopL, pCall, h1]

theorem NoGlue.of_append_cons {c₁ c₂ r : List (Tok S)} {t : Tok S} (h : NoGlue (c₁ ++ t :: c₂) r) :
    NoGlue c₂ r := by
  apply NoGlue.of_append (c₁ := c₁ ++ [t]); simpa using h

theorem complete_as {c : List (Tok S)} {e} {a u : Tok S} {un} (ha : a.tag = .as_)
    (hu : u.kind = .unit un) (h : Complete .term c e) :
    CompleteL .expr (c ++ [a, u]) (.as_ e a un) := by
  obtain ⟨N, h⟩ := h
  refine ⟨N, 1, fun f hf r _ _ => ?_⟩
  have h1 := h f hf (a :: u :: r) (Stop_cons.mpr (by simp [stopSet, ha])) (NoGlue_cons (by simp [ha]))
  simp only [pL] at h1
  simp only [pL, pLoopL, pExpression, List.append_assoc, List.cons_append, List.nil_append, h1]
  simp [ha, hu]

theorem complete_binl {l l' : Level} {c₁ c₂ : List (Tok S)} {a b} {op : Tok S}
    (hn : l.next = some l') (hop : l.leftOp op.tag = true)
    (ha : CompleteL l c₁ a) (hb : Complete l' c₂ b) :
    CompleteL l (c₁ ++ op :: c₂) (.binary a op b) := by
  cases l <;> simp [Level.next] at hn <;> subst hn
  case expr => simp [Level.leftOp] at hop
  case expo => simp [Level.leftOp] at hop
  case unary => simp [Level.leftOp] at hop
  case fact => simp [Level.leftOp] at hop
  case call => simp [Level.leftOp] at hop
  case term =>
    obtain ⟨N1, k1, h1⟩ := ha
    obtain ⟨N2, h2⟩ := hb
    simp [Level.leftOp] at hop
    have hns : op.tag ∉ stopSet .factor := by rcases hop with h | h <;> simp [h, stopSet]
    have hnu : op.tag ≠ .unit := by rcases hop with h | h <;> simp [h, stopSet]
    refine ⟨N1 + N2, k1 + 1, fun f hf r hs hg => ?_⟩
    have e1 := h1 (f + 1) (by omega) (op :: (c₂ ++ r)) (Stop_cons.mpr hns) (NoGlue_cons hnu)
    have e2 := h2 f (by omega) r hs hg.of_append_cons
    have ef : f + (k1 + 1) = f + 1 + k1 := by omega
    simp only [pL, pLoopL] at e1 e2 ⊢
    rw [ef, List.append_assoc, List.cons_append, e1]
    simp only [pTermLoop, e2]
    rcases hop with h | h <;> simp [isAddOp, h]
  case factor =>
    obtain ⟨N1, k1, h1⟩ := ha
    obtain ⟨N2, h2⟩ := hb
    simp [Level.leftOp] at hop
    have hns : op.tag ∉ stopSet .dot := by rcases hop with (h | h) | h <;> simp [h, stopSet]
    have hnu : op.tag ≠ .unit := by rcases hop with (h | h) | h <;> simp [h, stopSet]
    refine ⟨N1 + N2, k1 + 1, fun f hf r hs hg => ?_⟩
    have e1 := h1 (f + 1) (by omega) (op :: (c₂ ++ r)) (Stop_cons.mpr hns) (NoGlue_cons hnu)
    have e2 := h2 f (by omega) r hs hg.of_append_cons
    have ef : f + (k1 + 1) = f + 1 + k1 := by omega
    simp only [pL, pLoopL] at e1 e2 ⊢
    rw [ef, List.append_assoc, List.cons_append, e1]
    simp only [pFactorLoop, e2]
    rcases hop with (h | h) | h <;> simp [isMulOp, h]
  case dot =>
    obtain ⟨N1, k1, h1⟩ := ha
    obtain ⟨N2, h2⟩ := hb
    simp [Level.leftOp] at hop
    have hns : op.tag ∉ stopSet .cross := by simp [hop, stopSet]
    have hnu : op.tag ≠ .unit := by simp [hop, stopSet]
    refine ⟨N1 + N2, k1 + 1, fun f hf r hs hg => ?_⟩
    have e1 := h1 (f + 1) (by omega) (op :: (c₂ ++ r)) (Stop_cons.mpr hns) (NoGlue_cons hnu)
    have e2 := h2 f (by omega) r hs hg.of_append_cons
    have ef : f + (k1 + 1) = f + 1 + k1 := by omega
    simp only [pL, pLoopL] at e1 e2 ⊢
    rw [ef, List.append_assoc, List.cons_append, e1]
    simp only [pDotLoop, e2]
    simp [hop]
  case cross =>
    obtain ⟨N1, k1, h1⟩ := ha
    obtain ⟨N2, h2⟩ := hb
    simp [Level.leftOp] at hop
    have hns : op.tag ∉ stopSet .expo := by simp [hop, stopSet]
    have hnu : op.tag ≠ .unit := by simp [hop, stopSet]
    refine ⟨N1 + N2, k1 + 1, fun f hf r hs hg => ?_⟩
    have e1 := h1 (f + 1) (by omega) (op :: (c₂ ++ r)) (Stop_cons.mpr hns) (NoGlue_cons hnu)
    have e2 := h2 f (by omega) r hs hg.of_append_cons
    have ef : f + (k1 + 1) = f + 1 + k1 := by omega
    simp only [pL, pLoopL] at e1 e2 ⊢
    rw [ef, List.append_assoc, List.cons_append, e1]
    simp only [pCrossLoop, e2]
    simp [hop]

theorem complete_pow {c₁ c₂ : List (Tok S)} {a b} {op : Tok S} (hop : op.tag = .caret)
    (ha : Complete .unary c₁ a) (hb : Complete .expo c₂ b) :
    CompleteL .expo (c₁ ++ op :: c₂) (.binary a op b) := by
  obtain ⟨N1, h1⟩ := ha
  obtain ⟨N2, h2⟩ := hb
  refine ⟨N1 + N2 + 1, 2, fun f hf r hs hg => ?_⟩
  obtain ⟨g, rfl⟩ : ∃ g, f = g + 1 := ⟨f - 1, by omega⟩
  have e1 := h1 (g + 1 + 1) (by omega) (op :: (c₂ ++ r)) (Stop_cons.mpr (by simp [hop, stopSet]))
    (NoGlue_cons (by simp [hop]))
  have e2 := h2 (g + 1) (by omega) r hs hg.of_append_cons
  simp only [pL, pLoopL] at e1 e2 ⊢
  rw [List.append_assoc, List.cons_append]
  simp only [pExponent, e1]
  rw [pExponentLoop]
  simp only [hop, if_true, e2]
  exact pExponentLoop_stop' hs _ _

theorem complete_pre {c : List (Tok S)} {x} {op : Tok S} (hop : op.tag = .minus ∨ op.tag = .sqrt)
    (h : Complete .unary c x) : CompleteL .unary (op :: c) (.unary op x) := by
  obtain ⟨N, h⟩ := h
  refine ⟨N, 1, fun f hf r hs hg => ?_⟩
  have e1 := h f hf r hs hg.of_cons
  simp only [pL, pLoopL] at e1 ⊢
  simp only [List.cons_append, pUnary, e1]
  rcases hop with h | h <;> simp [h]

theorem complete_post {c : List (Tok S)} {x} {op : Tok S} (hop : op.tag = .bang)
    (h : CompleteL .fact c x) : CompleteL .fact (c ++ [op]) (.unary op x) := by
  obtain ⟨N, k, h⟩ := h
  refine ⟨N, k + 1, fun f hf r hs hg => ?_⟩
  have e1 := h (f + 1) (by omega) (op :: r) (Stop_cons.mpr (by simp [hop, stopSet]))
    (NoGlue_cons (by simp [hop]))
  have ef : f + (k + 1) = f + 1 + k := by omega
  simp only [pL, pLoopL] at e1 ⊢
  rw [ef, List.append_assoc, List.cons_append, List.nil_append, e1]
  simp [pFactorialLoop, hop]

theorem complete_call0 {c : List (Tok S)} {fn} {lp rp : Tok S} (hl : lp.tag = .lparen)
    (hr : rp.tag = .rparen) (h : CompleteL .call c fn) :
    CompleteL .call (c ++ [lp, rp]) (.call fn lp []) := by
  obtain ⟨N, k, h⟩ := h
  refine ⟨N + 1, k + 1, fun f hf r hs hg => ?_⟩
  obtain ⟨g, rfl⟩ : ∃ g, f = g + 1 := ⟨f - 1, by omega⟩
  have e1 := h (g + 1 + 1) (by omega) (lp :: rp :: r) trivial (NoGlue_cons (by simp [hl]))
  have ef : g + 1 + (k + 1) = g + 1 + 1 + k := by omega
  simp only [pL, pLoopL] at e1 ⊢
  rw [ef, List.append_assoc, List.cons_append, List.cons_append, List.nil_append, e1]
  simp [pCallLoop, hl, pArgs, checkTag, hr, consume]

/-- what must follow an argument list / a row -/
def StopArgs (r : List (Tok S)) : Prop := Stop .expr r ∧ checkTag .comma r = false
/-- what must follow the rows of a matrix literal -/
def StopRows (r : List (Tok S)) : Prop := StopArgs r ∧ checkTag .semicolon r = false

def CompleteArgs (c : List (Tok S)) (es : List (Expr S)) : Prop :=
  ∃ N, ∀ f, N ≤ f → ∀ r, StopArgs r → NoGlue c r → pArgsLoop f (c ++ r) = .ok es r

def CompleteRows (c : List (Tok S)) (rows : List (List (Expr S))) : Prop :=
  ∃ N, ∀ f, N ≤ f → ∀ br prev idx r, StopRows r → NoGlue c r → Uniform (prev ++ rows) →
    pRows f br prev idx (c ++ r) = .ok (prev ++ rows) r

theorem FirstOK.not_rparen {l : Level} {c : List (Tok S)} (h : FirstOK l c) (r) :
    checkTag .rparen (c ++ r) = false := by
  obtain ⟨t, c', rfl, ht⟩ := h.cons_eq
  have : t.tag ≠ .rparen := by
    rcases ht with ht | ⟨_, ht | ht⟩
    · intro h'; rw [h'] at ht; simp [startTag] at ht
    · simp [ht]
    · simp [ht]
  simp [checkTag, this]

theorem complete_call {c ca : List (Tok S)} {fn args} {lp rp : Tok S} (hl : lp.tag = .lparen)
    (hr : rp.tag = .rparen) (h : CompleteL .call c fn) (da : DerivesArgs ca args)
    (ha : CompleteArgs ca args) :
    CompleteL .call (c ++ lp :: ca ++ [rp]) (.call fn lp args) := by
  obtain ⟨N, k, h⟩ := h
  obtain ⟨N2, h2⟩ := ha
  refine ⟨N + N2 + 1, k + 1, fun f hf r hs hg => ?_⟩
  obtain ⟨g, rfl⟩ : ∃ g, f = g + 1 := ⟨f - 1, by omega⟩
  have e1 := h (g + 2) (by omega) (lp :: (ca ++ rp :: r)) trivial (NoGlue_cons (by simp [hl]))
  have e2 := h2 g (by omega) (rp :: r) ⟨Stop_cons.mpr (by simp [hr, stopSet]), by simp [checkTag, hr]⟩
    (NoGlue_cons (by simp [hr]))
  have ef : g + 1 + (k + 1) = g + 2 + k := by omega
  simp only [pL, pLoopL] at e1 ⊢
  have el : (c ++ lp :: ca ++ [rp]) ++ r = c ++ lp :: (ca ++ rp :: r) := by simp
  rw [ef, el, e1, pCallLoop]
  simp only [hl, if_true, pArgs, da.first.not_rparen, e2]
  simp [consume, hr]

theorem complete_number {t : Tok S} {z} (hz : t.kind = .number z) :
    CompleteL .primary [t] (.number z) := by
  refine ⟨0, 1, fun f _ r _ hg => ?_⟩
  simp only [pL, pLoopL, List.cons_append, List.nil_append, pPrimary, hz]
  cases r with
  | nil => rfl
  | cons u r =>
    have hu : u.tag ≠ .unit := hg t u rfl rfl (kind_tag hz)
    simp only
    split
    · rename_i un hk
      exact absurd (kind_tag hk) hu
    · rfl

theorem complete_measurement {t u : Tok S} {z un} (hz : t.kind = .number z)
    (hu : u.kind = .unit un) : CompleteL .primary [t, u] (.measurement z un) := by
  refine ⟨0, 1, fun f _ r _ _ => ?_⟩
  simp only [pL, pLoopL, List.cons_append, List.nil_append, pPrimary, hz, hu]

theorem complete_ident {t : Tok S} {name} (hn : t.kind = .ident name) :
    CompleteL .primary [t] (.ident t) := by
  refine ⟨0, 1, fun f _ r _ _ => ?_⟩
  simp only [pL, pLoopL, List.cons_append, List.nil_append, pPrimary, hn]

theorem pPrimary_group {o : Tok S} {k : GKind} (ho : o.tag = groupOpen k) (f : Nat) (r) :
    pPrimary (f + 1) (o :: r) = pGroup f o k r := by
  obtain ⟨kd, lx, ln, cl⟩ := o
  cases k <;> cases kd <;> simp [Tok.tag, Kind.tag, groupOpen] at ho <;> simp [pPrimary]

theorem pPrimary_bracket {o : Tok S} (ho : o.tag = .lbracket) (f : Nat) (r) :
    pPrimary (f + 1) (o :: r) =
      match pRows f o [] 0 r with
      | .ok rows r' =>
        match consume .rbracket r' with
        | .ok close r'' => .ok (.matrix close rows) r''
        | .err e => .err e
        | .fuel => .fuel
      | .err e => .err e
      | .fuel => .fuel := by
  obtain ⟨kd, lx, ln, cl⟩ := o
  cases kd <;> simp [Tok.tag, Kind.tag] at ho
  rfl

theorem groupShut_not_stop (k : GKind) {s : Tok S} (hs : s.tag = groupShut k) :
    s.tag ∉ stopSet .expr ∧ s.tag ≠ .unit := by
  cases k <;> simp [groupShut] at hs <;> simp [hs, stopSet]

theorem complete_group {c : List (Tok S)} {e k} {o s : Tok S} (ho : o.tag = groupOpen k)
    (hs : s.tag = groupShut k) (h : Complete .expr c e) :
    CompleteL .primary (o :: c ++ [s]) (.grouping o k e) := by
  obtain ⟨N, h⟩ := h
  refine ⟨N, 2, fun f hf r _ _ => ?_⟩
  have e1 := h f hf (s :: r) (Stop_cons.mpr (groupShut_not_stop k hs).1)
    (NoGlue_cons (groupShut_not_stop k hs).2)
  simp only [pL, pLoopL] at e1 ⊢
  have el : (o :: c ++ [s]) ++ r = o :: (c ++ s :: r) := by simp
  rw [el, pPrimary_group ho]
  simp only [pGroup, e1]
  simp [consume, ← groupShut_eq, hs]

theorem complete_matrix {c : List (Tok S)} {rows} {o s : Tok S} (ho : o.tag = .lbracket)
    (hs : s.tag = .rbracket) (h : CompleteRows c rows) (hu : Uniform rows) :
    CompleteL .primary (o :: c ++ [s]) (.matrix s rows) := by
  obtain ⟨N, h⟩ := h
  refine ⟨N, 1, fun f hf r _ _ => ?_⟩
  have e1 := h f hf o [] 0 (s :: r)
    ⟨⟨Stop_cons.mpr (by simp [hs, stopSet]), by simp [checkTag, hs]⟩, by simp [checkTag, hs]⟩
    (NoGlue_cons (by simp [hs])) (by simpa using hu)
  simp only [pL, pLoopL] at e1 ⊢
  have el : (o :: c ++ [s]) ++ r = o :: (c ++ s :: r) := by simp
  rw [el, pPrimary_bracket ho, e1]
  simp [consume, hs]

theorem complete_args_one {c : List (Tok S)} {e} (h : Complete .expr c e) : CompleteArgs c [e] := by
  obtain ⟨N, h⟩ := h
  refine ⟨N + 1, fun f hf r hs hg => ?_⟩
  obtain ⟨g, rfl⟩ : ∃ g, f = g + 1 := ⟨f - 1, by omega⟩
  have e1 := h g (by omega) r hs.1 hg
  simp only [pL] at e1
  simp only [pArgsLoop, e1]
  cases r with
  | nil => rfl
  | cons t r =>
    have := hs.2
    simp [checkTag] at this
    simp [this]

theorem complete_args_cons {c cs : List (Tok S)} {e es} {comma : Tok S}
    (h : Complete .expr c e) (hc : comma.tag = .comma) (hs : CompleteArgs cs es) :
    CompleteArgs (c ++ comma :: cs) (e :: es) := by
  obtain ⟨N, h⟩ := h
  obtain ⟨N2, h2⟩ := hs
  refine ⟨N + N2 + 1, fun f hf r hs hg => ?_⟩
  obtain ⟨g, rfl⟩ : ∃ g, f = g + 1 := ⟨f - 1, by omega⟩
  have e1 := h g (by omega) (comma :: (cs ++ r)) (Stop_cons.mpr (by simp [hc, stopSet]))
    (NoGlue_cons (by simp [hc]))
  have e2 := h2 g (by omega) r hs hg.of_append_cons
  simp only [pL] at e1
  rw [List.append_assoc, List.cons_append, pArgsLoop]
  simp only [e1, hc, if_true, e2]

theorem rows_check {α : Type} {prev : List (List α)} {row : List α} {rows}
    (hu : Uniform (prev ++ row :: rows)) (last : List α) (hl : prev.getLast? = some last) :
    last.length = row.length :=
  hu last (by simp [List.mem_of_getLast? hl]) row (by simp)

theorem pRowsNext_stop {r : List (Tok S)} (h : checkTag .semicolon r = false) (f br rows idx) :
    pRowsNext (f + 1) br rows idx r = .ok rows r := by
  cases r with
  | nil => rfl
  | cons t r =>
    simp [checkTag] at h
    simp [pRowsNext, h]

theorem complete_rows_one {c : List (Tok S)} {row} (da : DerivesArgs c row)
    (ha : CompleteArgs c row) : CompleteRows c [row] := by
  obtain ⟨N, h⟩ := ha
  refine ⟨N + 2, fun f hf br prev idx r hs hg hu => ?_⟩
  obtain ⟨g, rfl⟩ : ∃ g, f = g + 2 := ⟨f - 2, by omega⟩
  have e1 := h g (by omega) r hs.1 hg
  have ea : pArgs (g + 1) (c ++ r) = .ok row r := by
    simp [pArgs, da.first.not_rparen, e1]
  rw [pRows]
  simp only [ea]
  cases hl : prev.getLast? with
  | none => simp only; exact pRowsNext_stop hs.2 _ _ _ _
  | some last =>
    simp only [rows_check hu last hl, ne_eq, not_true_eq_false, if_false]
    exact pRowsNext_stop hs.2 _ _ _ _

theorem complete_rows_cons {c cs : List (Tok S)} {row rows} {semi : Tok S}
    (da : DerivesArgs c row) (ha : CompleteArgs c row) (hsemi : semi.tag = .semicolon)
    (hr : CompleteRows cs rows) : CompleteRows (c ++ semi :: cs) (row :: rows) := by
  obtain ⟨N, h⟩ := ha
  obtain ⟨N2, h2⟩ := hr
  refine ⟨N + N2 + 2, fun f hf br prev idx r hs hg hu => ?_⟩
  obtain ⟨g, rfl⟩ : ∃ g, f = g + 2 := ⟨f - 2, by omega⟩
  have e1 := h g (by omega) (semi :: (cs ++ r))
    ⟨Stop_cons.mpr (by simp [hsemi, stopSet]), by simp [checkTag, hsemi]⟩
    (NoGlue_cons (by simp [hsemi]))
  have e2 := h2 g (by omega) br (prev ++ [row]) (idx + 1) r hs hg.of_append_cons (by simpa using hu)
  have e3 : pRowsNext (g + 1) br (prev ++ [row]) idx (semi :: (cs ++ r)) =
      .ok (prev ++ row :: rows) r := by
    simp only [pRowsNext, hsemi, if_true, e2]
    simp
  have ea : pArgs (g + 1) (c ++ semi :: (cs ++ r)) = .ok row (semi :: (cs ++ r)) := by
    simp [pArgs, da.first.not_rparen, e1]
  rw [List.append_assoc, List.cons_append, pRows]
  simp only [ea]
  cases hl : prev.getLast? with
  | none => simp only; exact e3
  | some last =>
    simp only [rows_check hu last hl, ne_eq, not_true_eq_false, if_false]
    exact e3

/-! ## The mutual recursion over derivations -/

mutual
theorem Derives.completeL : ∀ {l} {c : List (Tok S)} {e}, Derives l c e → CompleteL l c e
  | _, _, _, .incl hn h => complete_incl hn h h.completeL.complete
  | _, _, _, .as_ h ha hu => complete_as ha hu h.completeL.complete
  | _, _, _, .binl hn hop h1 h2 => complete_binl hn hop h1.completeL h2.completeL.complete
  | _, _, _, .pow hop h1 h2 => complete_pow hop h1.completeL.complete h2.completeL.complete
  | _, _, _, .pre hop h => complete_pre hop h.completeL.complete
  | _, _, _, .post hop h => complete_post hop h.completeL
  | _, _, _, .call0 hl hr h => complete_call0 hl hr h.completeL
  | _, _, _, .call hl hr h ha => complete_call hl hr h.completeL ha ha.completeArgs
  | _, _, _, .number hz => complete_number hz
  | _, _, _, .measurement hz hu => complete_measurement hz hu
  | _, _, _, .ident hn => complete_ident hn
  | _, _, _, .group ho hs h => complete_group ho hs h.completeL.complete
  | _, _, _, .matrix ho hs hr hu => complete_matrix ho hs hr.completeRows hu
theorem DerivesArgs.completeArgs : ∀ {c : List (Tok S)} {es}, DerivesArgs c es → CompleteArgs c es
  | _, _, .one h => complete_args_one h.completeL.complete
  | _, _, .cons h hc hs => complete_args_cons h.completeL.complete hc hs.completeArgs
theorem DerivesRows.completeRows : ∀ {c : List (Tok S)} {rows}, DerivesRows c rows →
    CompleteRows c rows
  | _, _, .one h => complete_rows_one h h.completeArgs
  | _, _, .cons h hs hr => complete_rows_cons h h.completeArgs hs hr.completeRows
end

/-- completeness at every level: a phrase `c` of level `l` read as `e`, followed by a rest that
    cannot extend it, is accepted by the level's function with exactly `e` and that rest -/
theorem Derives.complete {l} {c : List (Tok S)} {e} (h : Derives l c e) : Complete l c e :=
  h.completeL.complete

end Calc
