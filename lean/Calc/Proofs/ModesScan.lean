/-
  Calc.Proofs.ModesScan — scanning a text that is a sequence of newline-terminated lines (C16,
  "file mode against prompt mode", scanner half).

  * A token that lies in a text containing a newline is not changed by appending more text
    (`Lexeme.append_of_newline`): a newline is a one-character token and is no part of a
    word or of a number literal.
  * Hence the scan of `s ++ z`, where `s` ends with a newline, is the scan of `s` followed by
    the scan of `z` started at the position after `s` (`Scanned.append`).
  * Moving the start position down by `n` lines moves every token down by `n` lines and changes
    nothing else (`Scanned.shift_line`).
  * Together: the scan of `l₁\n l₂\n … lₙ\n` is the concatenation of the scans of the `lᵢ\n`,
    the tokens of line `i` moved down by `i − 1` lines (`scan_joinLines`).
  Core Lean only.
-/
import Calc.Proofs.ScanBlank
import Calc.Proofs.FrontScanTab
namespace Calc
open List

variable {S : Type}
set_option linter.unusedSectionVars false

/-! ### Lists -/

theorem takeWhile_append_of_stop {α} {p : α → Bool} {s : List α} (z : List α)
    (h : ∃ x ∈ s, p x = false) : takeWhile p (s ++ z) = takeWhile p s := by
  induction s with
  | nil => obtain ⟨x, hx, _⟩ := h; cases hx
  | cons a s ih =>
    rw [cons_append, takeWhile_cons, takeWhile_cons]
    cases ha : p a
    · rfl
    · simp only [if_true]
      obtain ⟨x, hx, hpx⟩ := h
      rcases mem_cons.1 hx with rfl | hx
      · rw [ha] at hpx; cases hpx
      · rw [ih ⟨x, hx, hpx⟩]

theorem dropWhile_append_of_stop {α} {p : α → Bool} {s : List α} (z : List α)
    (h : ∃ x ∈ s, p x = false) : dropWhile p (s ++ z) = dropWhile p s ++ z := by
  induction s with
  | nil => obtain ⟨x, hx, _⟩ := h; cases hx
  | cons a s ih =>
    rw [cons_append, dropWhile_cons, dropWhile_cons]
    cases ha : p a
    · rfl
    · simp only [if_true]
      obtain ⟨x, hx, hpx⟩ := h
      rcases mem_cons.1 hx with rfl | hx
      · rw [ha] at hpx; cases hpx
      · rw [ih ⟨x, hx, hpx⟩]

/-- an element that fails `p` survives `dropWhile p` -/
theorem mem_dropWhile_of_stop {α} {p : α → Bool} {s : List α} {x : α} (hx : x ∈ s)
    (hp : p x = false) : x ∈ dropWhile p s := by
  induction s with
  | nil => cases hx
  | cons a s ih =>
    rw [dropWhile_cons]
    cases ha : p a
    · simpa using hx
    · simp only [if_true]
      rcases mem_cons.1 hx with rfl | hx
      · rw [ha] at hp; cases hp
      · exact ih hx

/-- a prefix without newline of a text `s ++ z`, where `s` contains a newline, is a prefix of `s` -/
theorem prefix_of_no_newline {T s z : List Char} (h : T <+: s ++ z) (hs : '\n' ∈ s)
    (hT : '\n' ∉ T) : T <+: s := by
  induction s generalizing T with
  | nil => cases hs
  | cons a s ih =>
    rcases T with _ | ⟨y, T⟩
    · exact nil_prefix
    · rw [cons_append, cons_prefix_cons] at h
      rw [cons_prefix_cons]
      refine ⟨h.1, ?_⟩
      have hya : y = a := h.1
      rcases mem_cons.1 hs with e | hs
      · exfalso; apply hT; rw [hya, ← e]; exact mem_cons_self
      · exact ih h.2 hs (fun hm => hT (mem_cons_of_mem _ hm))

/-! ### Number literals contain no newline -/

theorem IsDigits.no_newline {E : List Char} (h : IsDigits E) : '\n' ∉ E :=
  fun hm => absurd (h.all _ hm) (by decide)

theorem ExpVal.no_newline {e : List Char} {x : Int} (h : ExpVal e x) : '\n' ∉ e := by
  intro hc
  cases h with
  | none => cases hc
  | pos hE =>
    rcases mem_cons.1 hc with h | hc
    · exact absurd h (by decide)
    · exact hE.no_newline hc
  | neg hE =>
    rcases mem_cons.1 hc with h | hc
    · exact absurd h (by decide)
    rcases mem_cons.1 hc with h | hc
    · exact absurd h (by decide)
    · exact hE.no_newline hc

theorem NumberVal.no_newline {t : List Char} {d : Decimal} (h : NumberVal t d) : '\n' ∉ t := by
  intro hc
  cases h with
  | int hD hx =>
    rcases mem_append.1 hc with hc | hc
    · exact hD.no_newline hc
    · exact hx.no_newline hc
  | frac hD hF hx =>
    rcases mem_append.1 hc with hc | hc
    · rcases mem_append.1 hc with hc | hc
      · exact hD.no_newline hc
      · rcases mem_cons.1 hc with h | hc
        · exact absurd h (by decide)
        · exact hF.no_newline hc
    · exact hx.no_newline hc

/-- a number literal that lies in a text containing a newline is the same literal whatever is
    appended to that text -/
theorem scanNumber_append_of_newline {c : Char} {cs : List Char} (z : List Char)
    (hc : isDigit c = true) (hnl : '\n' ∈ c :: cs) :
    scanNumber (c :: cs ++ z) =
      ⟨(scanNumber (c :: cs)).text, (scanNumber (c :: cs)).rest ++ z⟩ := by
  obtain ⟨⟨d, hv⟩, hsplit, _⟩ := scanNumber_spec (cs := cs) hc
  obtain ⟨⟨d', hv'⟩, hsplit', _⟩ := scanNumber_spec (cs := cs ++ z) hc
  rw [← cons_append] at hv' hsplit'
  generalize ht : (scanNumber (c :: cs)).text = t at hv hsplit
  generalize hr : (scanNumber (c :: cs)).rest = r at hsplit
  generalize hT : (scanNumber (c :: cs ++ z)).text = T at hv' hsplit'
  generalize hR : (scanNumber (c :: cs ++ z)).rest = R at hsplit'
  have hTpre : T <+: c :: cs ++ z := ⟨R, hsplit'⟩
  have htpre : t <+: c :: cs ++ z := by
    rw [← hsplit, append_assoc]; exact prefix_append _ _
  have h1 : t.length ≤ T.length := by
    have := scanNumber_longest htpre hv
    rwa [hT] at this
  have hTpre0 : T <+: c :: cs := prefix_of_no_newline hTpre hnl hv'.no_newline
  have h2 : T.length ≤ t.length := by
    have := scanNumber_longest hTpre0 hv'
    rwa [ht] at this
  have hTt : T = t := (prefix_of_prefix_length_le hTpre htpre h2).eq_of_length (by omega)
  subst hTt
  have hRR : R = r ++ z := by
    apply append_cancel_left (as := T)
    rw [hsplit', ← hsplit, append_assoc]
  have e : scanNumber (c :: cs ++ z) =
      ⟨(scanNumber (c :: cs ++ z)).text, (scanNumber (c :: cs ++ z)).rest⟩ := rfl
  rw [e, hT, hR, hRR]

variable [Kernel S] {cfg : ScanCfg S}

/-! ### One token -/

/-- **a token before a newline is not changed by appending text.**  `hnl`: the newline is no
    identifier-continue character (true of `char::is_alphanumeric`, `_`, `°`). -/
theorem Lexeme.append_of_newline (hnl : isIdentCont cfg '\n' = false) {s ℓ r : List Char}
    {k : Kind S} (h : Lexeme cfg s k ℓ r) (hs : '\n' ∈ s) (z : List Char) :
    Lexeme cfg (s ++ z) k ℓ (r ++ z) := by
  cases h with
  | single hb hk => exact .single hb hk
  | @word c cs hb hsk hi hne =>
    have hstop : ∃ x ∈ c :: cs, isIdentCont cfg x = false := ⟨'\n', hs, hnl⟩
    have htw := takeWhile_append_of_stop (p := isIdentCont cfg) z hstop
    have hdw := dropWhile_append_of_stop (p := isIdentCont cfg) z hstop
    have := Lexeme.word (cfg := cfg) (c := c) (cs := cs ++ z) hb hsk hi
      (by rw [← cons_append, htw]; exact hne)
    rw [← cons_append, htw, hdw] at this
    exact this
  | @number c cs d hb hsk hi hd hp =>
    have key := scanNumber_append_of_newline z hd hs
    have := Lexeme.number (cfg := cfg) (c := c) (cs := cs ++ z) hb hsk hi hd (d := d)
      (by rw [← cons_append, key]; exact hp)
    rw [← cons_append, key] at this
    exact this

/-! ### The whole scan -/

/-- a text that is empty or ends with a newline -/
def EndsNL (s : List Char) : Prop := ∀ c, s.getLast? = some c → c = '\n'

theorem EndsNL.nil : EndsNL [] := by intro c h; cases h

theorem endsNL_append_newline (l : List Char) : EndsNL (l ++ ['\n']) := by
  intro c h
  rw [getLast?_append] at h
  simpa using h.symm

theorem EndsNL.of_append {a b : List Char} (h : EndsNL (a ++ b)) : EndsNL b := by
  intro c hc
  apply h c
  rw [getLast?_append, hc]; rfl

theorem EndsNL.append {a b : List Char} (ha : EndsNL a) (hb : EndsNL b) : EndsNL (a ++ b) := by
  intro c hc
  rw [getLast?_append] at hc
  cases hbl : b.getLast? with
  | none => rw [hbl] at hc; exact ha c (by simpa using hc)
  | some x => rw [hbl] at hc; cases hc; exact hb _ hbl

theorem EndsNL.mem {s : List Char} (h : EndsNL s) (hne : s ≠ []) : '\n' ∈ s := by
  have := getLast?_eq_some_getLast hne
  rw [← h _ this]
  exact getLast_mem hne

/-- **the scan of `s ++ z`, where `s` ends with a newline, is the scan of `s` followed by the
    scan of `z`** started at the position after `s`. -/
theorem Scanned.append (hnl : isIdentCont cfg '\n' = false) {p : Pos} {s z : List Char}
    {t1 t2 : List (Tok S)} (h1 : Scanned cfg p s t1) (hs : EndsNL s)
    (h2 : Scanned cfg (advs cfg.tab p s) z t2) : Scanned cfg p (s ++ z) (t1 ++ t2) := by
  induction h1 with
  | @done p b hb => exact Scanned.prepend_blanks hb h2
  | @tok p b s k ℓ r ts hb hl _ ih =>
    obtain ⟨hsplit, c, ℓ', cs, hℓ, hs'⟩ := hl.split
    have hsne : s ≠ [] := by rw [hs']; exact cons_ne_nil _ _
    have hsE : EndsNL s := hs.of_append
    have hrE : EndsNL r := by
      rw [← hsplit] at hsE; exact hsE.of_append
    have hl' := hl.append_of_newline hnl (hsE.mem hsne) z
    have hpos : advs cfg.tab p (b ++ s) =
        advs cfg.tab (advs cfg.tab (advs cfg.tab p b) ℓ) r := by
      rw [← hsplit, advs_append, advs_append]
    rw [hpos] at h2
    rw [append_assoc, cons_append]
    exact Scanned.tok hb hl' (ih hrE h2)

/-! ### Moving the start position down by whole lines -/

/-- a token moved down by `n` lines -/
def Tok.shiftLine (n : Nat) (t : Tok S) : Tok S := { t with line := t.line + n }

/-- a position moved down by `n` lines -/
def Pos.shiftLine (n : Nat) (p : Pos) : Pos := ⟨p.line + n, p.col⟩

theorem adv_shiftLine (tab n : Nat) (p : Pos) (c : Char) :
    adv tab (p.shiftLine n) c = (adv tab p c).shiftLine n := by
  unfold adv Pos.shiftLine
  split
  · simp only [Pos.mk.injEq, and_true]; omega
  · split <;> rfl

theorem advs_shiftLine (tab n : Nat) (p : Pos) (cs : List Char) :
    advs tab (p.shiftLine n) cs = (advs tab p cs).shiftLine n := by
  induction cs generalizing p with
  | nil => rfl
  | cons c cs ih =>
    have e : ∀ q, advs tab q (c :: cs) = advs tab (adv tab q c) cs := fun _ => rfl
    rw [e, e, adv_shiftLine, ih]

theorem Tok.shiftLine_zero (t : Tok S) : t.shiftLine 0 = t := rfl

theorem Tok.shiftLine_add (a b : Nat) (t : Tok S) :
    (t.shiftLine a).shiftLine b = t.shiftLine (a + b) := by
  simp only [Tok.shiftLine, Nat.add_assoc]

theorem Tok.shiftLine_erasePos (n : Nat) (t : Tok S) : (t.shiftLine n).erasePos = t.erasePos :=
  rfl

theorem Tok.shiftLine_noPos (n : Nat) (t : Tok S) : (t.shiftLine n).noPos = t.noPos := rfl

theorem Tok.shiftLine_col (n : Nat) (t : Tok S) : (t.shiftLine n).col = t.col := rfl

theorem Tok.shiftLine_line (n : Nat) (t : Tok S) : (t.shiftLine n).line = t.line + n := rfl

/-- **scanning from a position `n` lines further down moves every token `n` lines down** and
    changes nothing else: same kinds, same texts, same columns. -/
theorem Scanned.shift_line (n : Nat) {p : Pos} {s : List Char} {toks : List (Tok S)}
    (h : Scanned cfg p s toks) : Scanned cfg (p.shiftLine n) s (toks.map (Tok.shiftLine n)) := by
  induction h with
  | done hb => exact .done hb
  | @tok p b s k ℓ r ts hb hl _ ih =>
    rw [← advs_shiftLine, ← advs_shiftLine] at ih
    have := Scanned.tok (p := p.shiftLine n) hb hl ih
    rw [advs_shiftLine] at this
    exact this

/-! ### Lines -/

/-- the file text whose lines are `ls`: every line followed by a newline -/
def joinLines (ls : List Str) : Str := ls.flatMap (· ++ ['\n'])

theorem joinLines_nil : joinLines [] = [] := rfl

theorem joinLines_cons (l : Str) (ls : List Str) :
    joinLines (l :: ls) = (l ++ ['\n']) ++ joinLines ls := by
  simp [joinLines]

/-- a line without a newline, followed by a newline, ends at the start of the next line -/
theorem advs_line (tab : Nat) (p : Pos) (l : Str) (hl : '\n' ∉ l) :
    advs tab p (l ++ ['\n']) = ⟨p.line + 1, 1⟩ := by
  rw [advs_append]
  have hline : ∀ (l : Str) (p : Pos), '\n' ∉ l → (advs tab p l).line = p.line := by
    intro l
    induction l with
    | nil => intro p _; rfl
    | cons c l ih =>
      intro p hl
      have e : advs tab p (c :: l) = advs tab (adv tab p c) l := rfl
      rw [e, ih _ (fun hm => hl (mem_cons_of_mem _ hm))]
      have hc : c ≠ '\n' := fun e => hl (by rw [e]; exact mem_cons_self)
      unfold adv
      rw [if_neg hc]
      split <;> rfl
  have e : ∀ q, advs tab q ['\n'] = ⟨q.line + 1, 1⟩ := fun q => rfl
  rw [e, hline l p hl]

/-- the token lists of the lines, the `i`-th moved down by `n + i` lines, concatenated -/
def shiftedToks (tk : Str → List (Tok S)) : Nat → List Str → List (Tok S)
  | _, [] => []
  | n, l :: ls => (tk l).map (Tok.shiftLine n) ++ shiftedToks tk (n + 1) ls

theorem shiftedToks_erasePos (tk : Str → List (Tok S)) (n : Nat) (ls : List Str) :
    (shiftedToks tk n ls).map Tok.erasePos = (ls.flatMap tk).map Tok.erasePos := by
  induction ls generalizing n with
  | nil => rfl
  | cons l ls ih =>
    simp only [shiftedToks, map_append, map_map, flatMap_cons, ih]
    congr 1

theorem shiftedToks_noPos (tk : Str → List (Tok S)) (n : Nat) (ls : List Str) :
    (shiftedToks tk n ls).map Tok.noPos = (ls.flatMap tk).map Tok.noPos := by
  induction ls generalizing n with
  | nil => rfl
  | cons l ls ih =>
    simp only [shiftedToks, map_append, map_map, flatMap_cons, ih]
    congr 1

/-- **the scan of a sequence of lines**, from any start position at column 1: the scans of the
    single lines (each taken on its own, from line 1), the `i`-th moved down to the line where
    it stands in the joined text. -/
theorem Scanned.joinLines (hnl : isIdentCont cfg '\n' = false) (tk : Str → List (Tok S))
    (ls : List Str) (hno : ∀ l ∈ ls, '\n' ∉ l)
    (hsc : ∀ l ∈ ls, Scanned cfg Pos.start (l ++ ['\n']) (tk l)) (n : Nat) :
    Scanned cfg (Pos.start.shiftLine n) (joinLines ls) (shiftedToks tk n ls) := by
  induction ls generalizing n with
  | nil => exact .done rfl
  | cons l ls ih =>
    rw [joinLines_cons]
    have h1 := (hsc l mem_cons_self).shift_line n
    refine Scanned.append hnl h1 (endsNL_append_newline l) ?_
    rw [advs_line _ _ _ (hno l mem_cons_self)]
    exact ih (fun x hx => hno x (mem_cons_of_mem _ hx)) (fun x hx => hsc x (mem_cons_of_mem _ hx))
      (n + 1)

/-- `Scanned.joinLines` for the scanner function -/
theorem scan_joinLines (hnl : isIdentCont cfg '\n' = false) (tk : Str → List (Tok S))
    (ls : List Str) (hno : ∀ l ∈ ls, '\n' ∉ l)
    (hsc : ∀ l ∈ ls, scan cfg (l ++ ['\n']) = .ok (tk l)) :
    scan cfg (joinLines ls) = .ok (shiftedToks tk 0 ls) :=
  scan_ok_iff.2 (Scanned.joinLines hnl tk ls hno (fun l hl => scan_ok_iff.1 (hsc l hl)) 0)

end Calc
