/-
  Calc.Proofs.ReparseTable — the scanner configuration of the SHIPPED tables (`shippedCfg`:
  keyword lookup in `Gen.keywordTable`, continue class from `Gen.alnumRanges`) satisfies
  `TableOK`, `hop` and `hblank` (the residual hypotheses of Calc/Props/C18Scan.lean).

  The facts about the tables are closed computations over the generated data, checked by the
  kernel (`decide +kernel`); all are of the form `∀ p ∈ Gen.keywordTable, …` — nothing depends on
  the order or the number of the rows — and are lifted to the configuration by `find?` lemmas.
  The tables are regenerated from the compiled code on every run: a table that yields another
  token kind for a word, a unit whose printed symbol it does not read back as that unit, or `as`
  under another spelling only, is refuted here by the kernel.
-/
import Calc.Proofs.ReparseTreeOK
import Calc.Proofs.ScanTables
import Calc.Generated.Keywords
import Calc.Generated.UnitTable
namespace Calc
open List

variable {S : Type}

/-! ### the configuration -/

/-- the token kind of what a word of the spelling table denotes.  (`other`: a kind that is no
    keyword kind; the shipped table has no such row — `keywordTable_kinds` — and a table with one
    does not satisfy `KwKinds`, whatever is chosen here.) -/
def kwKind : Gen.KwKind → Kind S
  | .delete => .delete | .cross => .cross | .as_ => .as_ | .dot => .dot | .clear => .clear
  | .unit u => .unit u
  | .other _ => .newline

/-- what the shipped spelling table denotes by the word `w`, if anything: the first row whose
    spelling is `w` (no word occurs twice: `Keywords_unambiguous`, Calc/Props/C04.lean) -/
def tableLookup (w : String) : Option Gen.KwKind :=
  (Gen.keywordTable.find? (·.1 == w)).map (·.2)

/-- the shipped keyword lookup: whole-word lookup in `Gen.keywordTable` -/
def shippedKeyword (w : Str) : Option (Kind S) := (tableLookup (String.ofList w)).map kwKind

/-- the scanner configuration of the shipped tables, for a tab size -/
def shippedCfg (tab : Nat) : ScanCfg S := tableCfg tab shippedKeyword

/-! ### the table facts, checked by the kernel -/

/-- a keyword kind proper (not `other`) -/
def Gen.KwKind.isKeyword : Gen.KwKind → Bool
  | .other _ => false
  | _ => true

/-- `w` is a word over the shipped class table: it begins with an identifier-start character and
    consists of identifier-continue characters -/
def wordOK (w : Str) : Bool :=
  (match w with | c :: _ => isIdentStart c | [] => false) &&
    w.all fun d => alnumTable d.toNat || decide (d = '_') || decide (d = '°')

/-- every row of the shipped table denotes `delete`, `cross`, `as`, `dot`, `clear` or a unit -/
theorem keywordTable_kinds : ∀ p ∈ Gen.keywordTable, p.2.isKeyword = true := by decide +kernel

/-- every unit a row of the shipped table denotes prints a symbol that is a word over the shipped
    class table and that the shipped table reads as that very unit -/
theorem keywordTable_units : ∀ p ∈ Gen.keywordTable, ∀ u ∈ Unit.all, p.2 = .unit u →
    wordOK (Gen.unitSymbol u).toList = true ∧ tableLookup (Gen.unitSymbol u) = some (.unit u) := by
  decide +kernel

/-- if a row of the shipped table denotes `as`, then the row of the word `as` does; and `as` is a
    word over the shipped class table -/
theorem keywordTable_as : wordOK "as".toList = true ∧
    ∀ p ∈ Gen.keywordTable, p.2 = .as_ → tableLookup "as" = some .as_ := by decide +kernel

/-- the shipped class table of `char::is_alphanumeric` contains none of the operator characters,
    nor the blank -/
theorem alnumTable_opChars : ∀ c ∈ ' ' :: opChars, alnumTable c.toNat = false := by decide +kernel

/-- every unit is in the protocol list -/
theorem unit_mem_all : ∀ u : Unit, u ∈ Unit.all := by
  intro u
  cases u with
  | distance d => cases d <;> decide
  | mass d => cases d <;> decide
  | temperature d => cases d <;> decide
  | storage d => cases d <;> decide

/-! ### lifting -/

/-- what the lookup yields is denoted by a row of the table -/
theorem tableLookup_mem {w : String} {k : Gen.KwKind} (h : tableLookup w = some k) :
    ∃ p ∈ Gen.keywordTable, p.2 = k := by
  unfold tableLookup at h
  cases hf : Gen.keywordTable.find? (·.1 == w) with
  | none => rw [hf] at h; cases h
  | some p =>
    rw [hf] at h
    exact ⟨p, List.mem_of_find?_eq_some hf, Option.some.inj h⟩

/-- what the shipped keyword lookup yields is the kind of what a row of the table denotes -/
theorem shippedKeyword_mem {w : Str} {k : Kind S} (h : shippedKeyword w = some k) :
    ∃ p ∈ Gen.keywordTable, kwKind p.2 = k := by
  unfold shippedKeyword at h
  cases hl : tableLookup (String.ofList w) with
  | none => rw [hl] at h; cases h
  | some kk =>
    rw [hl] at h
    obtain ⟨p, hp, rfl⟩ := tableLookup_mem hl
    exact ⟨p, hp, Option.some.inj h⟩

/-- the shipped keyword lookup at the characters of a string is the table lookup at the string -/
theorem shippedKeyword_toList (s : String) :
    shippedKeyword (S := S) s.toList = (tableLookup s).map kwKind := by
  unfold shippedKeyword; rw [String.ofList_toList]

/-- a word over the shipped class table that the shipped table reads as `kk` is a word the
    scanner of `shippedCfg` reads as one token of the kind of `kk` -/
theorem wordLex_shipped [Kernel S] (tab : Nat) (s : String) (kk : Gen.KwKind)
    (hw : wordOK s.toList = true) (hl : tableLookup s = some kk) :
    WordLex (shippedCfg (S := S) tab) s.toList (kwKind kk) := by
  simp only [wordOK, Bool.and_eq_true, List.all_eq_true] at hw
  refine ⟨?_, fun d hd => hw.2 d hd, ?_⟩
  · cases hs : s.toList with
    | nil => rw [hs] at hw; exact absurd hw.1 (by simp)
    | cons c cs => rw [hs] at hw; exact ⟨c, cs, rfl, hw.1⟩
  · show wordKindOf (shippedCfg tab) s.toList = kwKind kk
    have : (shippedCfg (S := S) tab).keyword s.toList = some (kwKind kk) := by
      show shippedKeyword s.toList = _
      rw [shippedKeyword_toList, hl]; rfl
    simp only [wordKindOf, this]

/-- the shipped keyword table yields keyword kinds only -/
theorem shippedCfg_kwKinds (tab : Nat) : KwKinds (shippedCfg (S := S) tab) := by
  intro w k h
  obtain ⟨p, hp, rfl⟩ := shippedKeyword_mem (S := S) h
  have hk := keywordTable_kinds p hp
  cases hpk : p.2 with
  | other c => rw [hpk] at hk; cases hk
  | delete => simp [kwKind]
  | cross => simp [kwKind]
  | as_ => simp [kwKind]
  | dot => simp [kwKind]
  | clear => simp [kwKind]
  | unit u => exact .inr (.inr (.inr (.inr (.inr ⟨u, rfl⟩))))

/-- **the shipped tables satisfy `TableOK`** -/
theorem shippedCfg_tableOK [Kernel S] (tab : Nat) : TableOK (shippedCfg (S := S) tab) where
  kinds := shippedCfg_kwKinds tab
  units := by
    intro w u h
    obtain ⟨p, hp, hk⟩ := shippedKeyword_mem (S := S) h
    have hkw := keywordTable_kinds p hp
    have hpu : p.2 = .unit u := by
      cases hpk : p.2 with
      | other c => rw [hpk] at hkw; cases hkw
      | unit u' => rw [hpk] at hk; simp only [kwKind] at hk; cases hk; rfl
      | delete => rw [hpk] at hk; cases hk
      | cross => rw [hpk] at hk; cases hk
      | as_ => rw [hpk] at hk; cases hk
      | dot => rw [hpk] at hk; cases hk
      | clear => rw [hpk] at hk; cases hk
    obtain ⟨h1, h2⟩ := keywordTable_units p hp u (unit_mem_all u) hpu
    exact wordLex_shipped tab (Gen.unitSymbol u) (.unit u) h1 h2
  as_ := by
    intro w h
    obtain ⟨p, hp, hk⟩ := shippedKeyword_mem (S := S) h
    have hkw := keywordTable_kinds p hp
    have hpa : p.2 = .as_ := by
      cases hpk : p.2 with
      | other c => rw [hpk] at hkw; cases hkw
      | as_ => rfl
      | unit u' => rw [hpk] at hk; cases hk
      | delete => rw [hpk] at hk; cases hk
      | cross => rw [hpk] at hk; cases hk
      | dot => rw [hpk] at hk; cases hk
      | clear => rw [hpk] at hk; cases hk
    exact wordLex_shipped tab "as" .as_ keywordTable_as.1 (keywordTable_as.2 p hp hpa)

/-- the shipped class table contains no operator character (`hop`) -/
theorem shippedCfg_hop (tab : Nat) :
    ∀ c ∈ opChars, (shippedCfg (S := S) tab).isAlnum c = false := by
  intro c hc
  simp only [shippedCfg, tableCfg]
  exact alnumTable_opChars c (List.mem_cons_of_mem _ hc)

/-- the shipped class table does not contain the blank (`hblank`) -/
theorem shippedCfg_hblank (tab : Nat) : (shippedCfg (S := S) tab).isAlnum ' ' = false := by
  simp only [shippedCfg, tableCfg]
  exact alnumTable_opChars ' ' (List.mem_cons_self ..)

end Calc
