/-
  Calc.Proofs.RenderPos — lemmas about the decimal printer `natDigits`, the located frame
  `renderPos` / `renderDiag` and its reader `readPos` (Calc/Model/Render.lean).
  Property theorems: Calc/Props/C14Render.lean.
-/
import Calc.Model.Render
namespace Calc

/-! ## single digits -/

theorem digitChar_isDigit : ∀ d, d < 10 → (digitChar d).isDigit = true := by decide
theorem decVal_digitChar : ∀ d, d < 10 → decVal (digitChar d) = d := by decide
theorem digitChar_eq_zero : ∀ d, d < 10 → digitChar d = '0' → d = 0 := by decide
theorem digitChar_eq_core : ∀ d, d < 10 → digitChar d = Nat.digitChar d := by decide

/-! ## unfolding `natDigits` -/

theorem natDigitsCore_succ_lt (f n : Nat) (acc : List Char) (h : n < 10) :
    natDigitsCore (f + 1) n acc = digitChar n :: acc := by
  simp [natDigitsCore, h]

theorem natDigitsCore_succ_ge (f n : Nat) (acc : List Char) (h : ¬ n < 10) :
    natDigitsCore (f + 1) n acc = natDigitsCore f (n / 10) (digitChar (n % 10) :: acc) := by
  simp [natDigitsCore, h]

/-- any sufficient fuel gives the same digits, and the accumulator is only appended -/
theorem natDigitsCore_eq (fuel : Nat) :
    ∀ n acc, n < fuel → natDigitsCore fuel n acc = natDigitsCore (n + 1) n [] ++ acc := by
  induction fuel using Nat.strongRecOn with
  | _ fuel ih =>
    intro n acc h
    cases fuel with
    | zero => omega
    | succ f =>
      by_cases h10 : n < 10
      · rw [natDigitsCore_succ_lt f n acc h10, natDigitsCore_succ_lt n n [] h10]; rfl
      · have hlt : n / 10 < f := by omega
        have hlt2 : n / 10 < n := by omega
        rw [natDigitsCore_succ_ge f n acc h10, natDigitsCore_succ_ge n n [] h10,
          ih f (by omega) _ _ hlt, ih n (by omega) _ _ hlt2]
        simp

theorem natDigits_lt {n : Nat} (h : n < 10) : natDigits n = [digitChar n] :=
  natDigitsCore_succ_lt n n [] h

theorem natDigits_ge {n : Nat} (h : 10 ≤ n) :
    natDigits n = natDigits (n / 10) ++ [digitChar (n % 10)] := by
  have h10 : ¬ n < 10 := by omega
  have hlt : n / 10 < n := by omega
  unfold natDigits
  rw [natDigitsCore_succ_ge n n [] h10, natDigitsCore_eq n _ _ hlt]

/-- strong induction along the unfolding of `natDigits` -/
theorem natDigits_induction {P : Nat → Prop} (small : ∀ n, n < 10 → P n)
    (big : ∀ n, 10 ≤ n → P (n / 10) → P n) : ∀ n, P n := by
  intro n
  induction n using Nat.strongRecOn with
  | _ n ih =>
    by_cases h : n < 10
    · exact small n h
    · exact big n (by omega) (ih (n / 10) (by omega))

/-! ## `natDigits` is `toString` -/

theorem natDigits_eq_toDigits : ∀ n, natDigits n = Nat.toDigits 10 n := by
  apply natDigits_induction
  · intro n h
    rw [natDigits_lt h, Nat.toDigits_of_lt_base h, digitChar_eq_core n h]
  · intro n h ih
    rw [natDigits_ge h, Nat.toDigits_of_base_le (by decide) h, ih,
      digitChar_eq_core (n % 10) (Nat.mod_lt _ (by decide))]

theorem natDigits_eq_toString (n : Nat) : natDigits n = (toString n).toList := by
  rw [Nat.toString_eq_repr, Nat.repr_eq_ofList_toDigits, String.toList_ofList,
    natDigits_eq_toDigits]

theorem ofList_natDigits (n : Nat) : String.ofList (natDigits n) = toString n := by
  rw [Nat.toString_eq_repr, Nat.repr_eq_ofList_toDigits, natDigits_eq_toDigits]

/-! ## shape and value of `natDigits` -/

theorem natDigits_ne_nil : ∀ n, natDigits n ≠ [] := by
  apply natDigits_induction
  · intro n h; rw [natDigits_lt h]; exact List.cons_ne_nil _ _
  · intro n h _; rw [natDigits_ge h]; simp

theorem natDigits_all_digit : ∀ n, ∀ ch ∈ natDigits n, ch.isDigit = true := by
  apply natDigits_induction
  · intro n h ch hch
    rw [natDigits_lt h, List.mem_singleton] at hch
    rw [hch]; exact digitChar_isDigit n h
  · intro n h ih ch hch
    rw [natDigits_ge h, List.mem_append, List.mem_singleton] at hch
    rcases hch with hch | hch
    · exact ih ch hch
    · rw [hch]; exact digitChar_isDigit _ (Nat.mod_lt _ (by decide))

theorem natDigits_head_zero : ∀ n, (natDigits n).head? = some '0' → n = 0 := by
  apply natDigits_induction
  · intro n h hz
    rw [natDigits_lt h] at hz
    exact digitChar_eq_zero n h (Option.some.inj hz)
  · intro n h ih hz
    rw [natDigits_ge h] at hz
    have hne := natDigits_ne_nil (n / 10)
    cases hd : natDigits (n / 10) with
    | nil => exact absurd hd hne
    | cons x xs =>
      rw [hd] at hz ih
      have : n / 10 = 0 := ih hz
      omega

theorem hornerVal_snoc (xs : List Char) (d : Char) :
    hornerVal (xs ++ [d]) = 10 * hornerVal xs + decVal d := by
  simp [hornerVal, List.foldl_append]

theorem hornerVal_natDigits : ∀ n, hornerVal (natDigits n) = n := by
  apply natDigits_induction
  · intro n h
    rw [natDigits_lt h]
    simp [hornerVal, decVal_digitChar n h]
  · intro n h ih
    rw [natDigits_ge h, hornerVal_snoc, ih, decVal_digitChar _ (Nat.mod_lt _ (by decide))]
    omega

theorem natDigits_injective {m n : Nat} (h : natDigits m = natDigits n) : m = n := by
  rw [← hornerVal_natDigits m, ← hornerVal_natDigits n, h]

/-! ## canonical numerals: the converse -/

theorem isDigit_bounds (c : Char) (h : c.isDigit = true) : 48 ≤ c.toNat ∧ c.toNat ≤ 57 := by
  simp only [Char.isDigit, Bool.and_eq_true, decide_eq_true_eq, ge_iff_le,
    UInt32.le_iff_toNat_le] at h
  exact h

theorem decVal_lt (c : Char) (h : c.isDigit = true) : decVal c < 10 := by
  have := isDigit_bounds c h
  unfold decVal; omega

theorem digitChar_decVal (c : Char) (h : c.isDigit = true) : digitChar (decVal c) = c := by
  have := isDigit_bounds c h
  unfold digitChar decVal
  rw [show 48 + (c.toNat - 48) = c.toNat by omega, Char.ofNat_toNat]

theorem decVal_pos (c : Char) (h : c.isDigit = true) (hz : c ≠ '0') : 0 < decVal c := by
  have hb := isDigit_bounds c h
  have : c.toNat ≠ 48 := fun h48 => hz (Char.toNat_inj.mp (by rw [h48]; rfl))
  unfold decVal; omega

/-- appending digits to a positive number's numeral is Horner accumulation -/
theorem natDigits_foldl (ds : List Char) (hall : ∀ c ∈ ds, c.isDigit = true) :
    ∀ acc, 0 < acc →
      natDigits (ds.foldl (fun a c => 10 * a + decVal c) acc) = natDigits acc ++ ds := by
  induction ds with
  | nil => intro acc _; simp
  | cons d r ih =>
    intro acc hacc
    have hd := hall d List.mem_cons_self
    have hv := decVal_lt d hd
    rw [List.foldl_cons, ih (fun c hc => hall c (List.mem_cons_of_mem _ hc)) _ (by omega),
      natDigits_ge (by omega),
      show (10 * acc + decVal d) / 10 = acc by omega,
      show (10 * acc + decVal d) % 10 = decVal d by omega, digitChar_decVal d hd]
    simp

/-- a non-empty string of ASCII digits without a leading zero (or equal to `0`) is the
    numeral of its Horner value: numerals are unique -/
theorem natDigits_hornerVal (ds : List Char) (hne : ds ≠ [])
    (hall : ∀ c ∈ ds, c.isDigit = true) (hz : ds.head? = some '0' → ds = ['0']) :
    natDigits (hornerVal ds) = ds := by
  cases ds with
  | nil => exact absurd rfl hne
  | cons d r =>
    have hd := hall d List.mem_cons_self
    by_cases h0 : d = '0'
    · subst h0
      rw [hz rfl]; decide
    · have hpos := decVal_pos d hd h0
      have hlt := decVal_lt d hd
      unfold hornerVal
      rw [List.foldl_cons, show 10 * 0 + decVal d = decVal d by omega,
        natDigits_foldl r (fun c hc => hall c (List.mem_cons_of_mem _ hc)) _ hpos,
        natDigits_lt hlt, digitChar_decVal d hd]
      rfl

/-! ## the reader -/

theorem stripPrefix_append (p s : List Char) : stripPrefix p (p ++ s) = some s := by
  induction p with
  | nil => cases s <;> rfl
  | cons a p ih => simp [stripPrefix, ih]

/-- a run of characters satisfying `p`, followed by something that does not start with one,
    is exactly what `takeWhile` / `dropWhile` split off -/
theorem takeWhile_dropWhile_run {p : Char → Bool} {ds rest : List Char}
    (hall : ∀ c ∈ ds, p c = true) (hr : ∀ c, rest.head? = some c → p c = false) :
    (ds ++ rest).takeWhile p = ds ∧ (ds ++ rest).dropWhile p = rest := by
  induction ds with
  | nil =>
    cases rest with
    | nil => simp
    | cons c r => simp [hr c rfl]
  | cons d ds ih =>
    have hd : p d = true := hall d List.mem_cons_self
    have := ih (fun c hc => hall c (List.mem_cons_of_mem _ hc))
    simp [hd, this.1, this.2]

/-- the reader on any frame built from two non-empty digit runs -/
theorem readPos_frame (d1 d2 msg : List Char) (hne1 : d1 ≠ []) (hne2 : d2 ≠ [])
    (ha1 : ∀ c ∈ d1, c.isDigit = true) (ha2 : ∀ c ∈ d2, c.isDigit = true) :
    readPos (litLine ++ (d1 ++ (litColumn ++ (d2 ++ (litSep ++ msg))))) =
      some (hornerVal d1, hornerVal d2, msg) := by
  have h1 := takeWhile_dropWhile_run (p := Char.isDigit) (ds := d1)
    (rest := litColumn ++ (d2 ++ (litSep ++ msg))) ha1
    (by intro c hc; simp [litColumn] at hc; subst hc; decide)
  have h2 := takeWhile_dropWhile_run (p := Char.isDigit) (ds := d2)
    (rest := litSep ++ msg) ha2
    (by intro c hc; simp [litSep] at hc; subst hc; decide)
  unfold readPos
  simp only [stripPrefix_append, h1.1, h1.2, h2.1, h2.2, if_neg hne1, if_neg hne2]

theorem renderDiag_eq (l c : Nat) (msg : List Char) :
    renderDiag l c msg =
      litLine ++ (natDigits l ++ (litColumn ++ (natDigits c ++ (litSep ++ msg)))) := by
  simp [renderDiag, renderPos, List.append_assoc]

theorem readPos_renderDiag (l c : Nat) (msg : List Char) :
    readPos (renderDiag l c msg) = some (l, c, msg) := by
  rw [renderDiag_eq, readPos_frame _ _ _ (natDigits_ne_nil l) (natDigits_ne_nil c)
    (natDigits_all_digit l) (natDigits_all_digit c), hornerVal_natDigits, hornerVal_natDigits]

theorem renderDiag_injective {l c l' c' : Nat} {msg msg' : List Char}
    (h : renderDiag l c msg = renderDiag l' c' msg') : l = l' ∧ c = c' ∧ msg = msg' := by
  have := congrArg readPos h
  rw [readPos_renderDiag, readPos_renderDiag] at this
  have := Option.some.inj this
  exact ⟨(Prod.mk.inj this).1, (Prod.mk.inj (Prod.mk.inj this).2).1,
    (Prod.mk.inj (Prod.mk.inj this).2).2⟩

theorem newline_not_mem_renderPos (l c : Nat) : '\n' ∉ renderPos l c := by
  have hd : ∀ n, '\n' ∉ natDigits n := by
    intro n hm
    have := natDigits_all_digit n _ hm
    revert this; decide
  intro hm
  simp only [renderPos, List.mem_append] at hm
  rcases hm with (((hm | hm) | hm) | hm) | hm
  · revert hm; decide
  · exact hd l hm
  · revert hm; decide
  · exact hd c hm
  · revert hm; decide

/-! ## the reader accepts nothing but the frame -/

theorem stripPrefix_some {p s r : List Char} (h : stripPrefix p s = some r) : s = p ++ r := by
  induction p generalizing s with
  | nil => cases s <;> simp_all [stripPrefix]
  | cons a p ih =>
    cases s with
    | nil => simp [stripPrefix] at h
    | cons b s =>
      simp only [stripPrefix] at h
      split at h
      · rename_i hab; subst hab; rw [ih h]; rfl
      · cases h

theorem mem_takeWhile_sat {p : Char → Bool} {l : List Char} {x : Char}
    (h : x ∈ l.takeWhile p) : p x = true :=
  List.all_eq_true.mp (List.all_takeWhile (p := p) (l := l)) x h

/-- whatever the reader accepts has the frame: the reader recognises nothing else -/
theorem readPos_sound {s msg : List Char} {l c : Nat} (h : readPos s = some (l, c, msg)) :
    ∃ d1 d2, s = litLine ++ (d1 ++ (litColumn ++ (d2 ++ (litSep ++ msg)))) ∧
      d1 ≠ [] ∧ d2 ≠ [] ∧ (∀ x ∈ d1, x.isDigit = true) ∧ (∀ x ∈ d2, x.isDigit = true) ∧
      hornerVal d1 = l ∧ hornerVal d2 = c := by
  unfold readPos at h
  split at h
  · cases h
  rename_i s1 hs1
  simp only at h
  split at h
  · cases h
  rename_i hne1
  split at h
  · cases h
  rename_i s3 hs3
  split at h
  · cases h
  rename_i hne2
  split at h
  · cases h
  rename_i rest hrest
  simp only [Option.some.injEq, Prod.mk.injEq] at h
  obtain ⟨hl, hc, hm⟩ := h
  subst hm
  refine ⟨s1.takeWhile Char.isDigit, s3.takeWhile Char.isDigit, ?_, hne1, hne2,
    fun x hx => (mem_takeWhile_sat hx), fun x hx => (mem_takeWhile_sat hx), hl, hc⟩
  rw [← stripPrefix_some hrest, List.takeWhile_append_dropWhile, ← stripPrefix_some hs3,
    List.takeWhile_append_dropWhile, ← stripPrefix_some hs1]

end Calc
