/-
  Calc.Proofs.HeapRefine — the handle-level model (`Calc.Model.Heap`) and the value model
  (`Calc.Model.Stmt`) agree as long as no two names share a handle, and with the copy on
  assignment no two names ever do.  Used by `Calc.Props.C12Heap`.
  Core Lean only.
-/
import Calc.Model.Heap
import Calc.Proofs.EnvLemmas
import Calc.Proofs.EvalPure
import Calc.Proofs.EnvStep
import Calc.Proofs.PermLemmas
namespace Calc

/-! ## the handle-level table: the facts of `EnvLemmas`, again -/

namespace HEnv
variable {S : Type}

abbrev keys (env : HEnv S) : List Str := env.map Prod.fst

@[simp] theorem get_nil (k : Str) : get ([] : HEnv S) k = none := rfl

theorem get_cons (k' : Str) (v : HVar S) (r : HEnv S) (k : Str) :
    get ((k', v) :: r) k = if k' = k then some v else get r k := rfl

theorem get_cons_self (k : Str) (v : HVar S) (r : HEnv S) :
    get ((k, v) :: r) k = some v := by
  simp [get_cons]

theorem get_cons_ne {k' k : Str} (v : HVar S) (r : HEnv S) (h : k' ≠ k) :
    get ((k', v) :: r) k = get r k := by
  simp [get_cons, h]

theorem mem_of_get {env : HEnv S} {k : Str} {v : HVar S} (h : get env k = some v) :
    (k, v) ∈ env := by
  induction env with
  | nil => simp at h
  | cons hd tl ih =>
    obtain ⟨k', v'⟩ := hd
    rw [get_cons] at h
    split at h
    · next hk => cases h; subst hk; exact List.mem_cons_self
    · exact List.mem_cons_of_mem _ (ih h)

theorem mem_keys_of_get {env : HEnv S} {k : Str} {v : HVar S} (h : get env k = some v) :
    k ∈ keys env :=
  List.mem_map.mpr ⟨(k, v), mem_of_get h, rfl⟩

theorem get_of_mem {env : HEnv S} (nd : (keys env).Nodup) {k : Str} {v : HVar S}
    (h : (k, v) ∈ env) : get env k = some v := by
  induction env with
  | nil => cases h
  | cons hd tl ih =>
    obtain ⟨k', v'⟩ := hd
    simp only [keys, List.map_cons, List.nodup_cons] at nd
    rcases List.mem_cons.mp h with h | h
    · cases h; exact get_cons_self _ _ _
    · have hne : k' ≠ k := by
        intro e; subst e
        exact nd.1 (List.mem_map.mpr ⟨(k', v), h, rfl⟩)
      rw [get_cons_ne _ _ hne]
      exact ih nd.2 h

theorem get_filter_key (p : Str → Bool) (env : HEnv S) (k : Str) (hk : p k = true) :
    get (env.filter (fun kv => p kv.1)) k = get env k := by
  induction env with
  | nil => rfl
  | cons hd tl ih =>
    obtain ⟨k', v'⟩ := hd
    by_cases hkk : k' = k
    · subst hkk
      simp only [List.filter_cons, hk, if_true, get_cons_self]
    · rw [get_cons_ne _ _ hkk]
      simp only [List.filter_cons]
      split
      · rw [get_cons_ne _ _ hkk]; exact ih
      · exact ih

theorem get_remove_ne (env : HEnv S) {k k' : Str} (h : k' ≠ k) :
    get (remove env k) k' = get env k' := by
  have := get_filter_key (S := S) (fun x => decide (x ≠ k)) env k' (by simp [h])
  simpa [remove] using this

theorem get_insert_self (env : HEnv S) (k : Str) (v : HVar S) :
    get (insert env k v) k = some v :=
  get_cons_self _ _ _

theorem get_insert_ne (env : HEnv S) {k k' : Str} (v : HVar S) (h : k' ≠ k) :
    get (insert env k v) k' = get env k' := by
  unfold insert
  rw [get_cons_ne _ _ (fun e => h e.symm)]
  exact get_remove_ne env h

theorem nodup_filter (p : Str × HVar S → Bool) {env : HEnv S} (nd : (keys env).Nodup) :
    (keys (env.filter p)).Nodup :=
  List.Nodup.sublist (List.Sublist.map _ List.filter_sublist) nd

theorem not_mem_keys_remove (env : HEnv S) (k : Str) : k ∉ keys (remove env k) := by
  intro hmem
  obtain ⟨⟨k', v'⟩, hm, hk'⟩ := List.mem_map.mp hmem
  have := (List.mem_filter.mp hm).2
  simp only at hk'
  subst hk'
  simp at this

theorem nodup_insert {env : HEnv S} (nd : (keys env).Nodup) (k : Str) (v : HVar S) :
    (keys (insert env k v)).Nodup := by
  unfold insert
  simp only [keys, List.map_cons, List.nodup_cons]
  exact ⟨not_mem_keys_remove env k, nodup_filter _ nd⟩

/-! ### handles -/

theorem handles_cons (k : Str) (v : HVar S) (r : HEnv S) :
    handles ((k, v) :: r) = match v.value.handle? with
      | some h => h :: handles r
      | none => handles r := by
  simp only [handles, List.filterMap_cons]
  cases v.value.handle? <;> rfl

theorem handles_filter_sublist (p : Str × HVar S → Bool) (env : HEnv S) :
    (handles (env.filter p)).Sublist (handles env) :=
  List.Sublist.filterMap _ List.filter_sublist

theorem mem_handles {env : HEnv S} {h : Nat} :
    h ∈ handles env ↔ ∃ k c, (k, (⟨.fn h, c⟩ : HVar S)) ∈ env := by
  simp only [handles, List.mem_filterMap]
  constructor
  · rintro ⟨⟨k, ⟨val, c⟩⟩, hm, hh⟩
    cases val <;> simp only [HVal.handle?] at hh <;> try cases hh
    exact ⟨k, c, hm⟩
  · rintro ⟨k, c, hm⟩
    exact ⟨(k, ⟨.fn h, c⟩), hm, rfl⟩

theorem mem_handles_of_get {env : HEnv S} {k : Str} {h : Nat} {c : Bool}
    (hg : get env k = some ⟨.fn h, c⟩) : h ∈ handles env :=
  mem_handles.mpr ⟨k, c, mem_of_get hg⟩

end HEnv

/-! ## `NoAlias` on names is `NoAlias` on entries -/

section Entries
variable {S : Type}

/-- the invariant read off the entries of the association list -/
structure NoAliasE (st : HState S) : Prop where
  keys : (st.env.map Prod.fst).Nodup
  handles : (HEnv.handles st.env).Nodup
  bound : ∀ h ∈ HEnv.handles st.env, h < st.heap.length

theorem distinct_of_handles_nodup {env : HEnv S} (nd : (HEnv.handles env).Nodup)
    {k₁ k₂ : Str} {h : Nat} {c₁ c₂ : Bool}
    (h₁ : HEnv.get env k₁ = some ⟨.fn h, c₁⟩) (h₂ : HEnv.get env k₂ = some ⟨.fn h, c₂⟩) :
    k₁ = k₂ := by
  induction env with
  | nil => simp at h₁
  | cons hd tl ih =>
    obtain ⟨k', v'⟩ := hd
    rw [HEnv.get_cons] at h₁ h₂
    rw [HEnv.handles_cons] at nd
    have nd' : (HEnv.handles tl).Nodup := by
      cases hh : v'.value.handle? with
      | none => simpa [hh] using nd
      | some x => rw [hh] at nd; exact (List.nodup_cons.mp nd).2
    by_cases e₁ : k' = k₁ <;> by_cases e₂ : k' = k₂
    · exact e₁.symm.trans e₂
    · rw [if_pos e₁] at h₁
      rw [if_neg e₂] at h₂
      cases h₁
      simp only [HVal.handle?, List.nodup_cons] at nd
      exact absurd (HEnv.mem_handles_of_get h₂) nd.1
    · rw [if_neg e₁] at h₁
      rw [if_pos e₂] at h₂
      cases h₂
      simp only [HVal.handle?, List.nodup_cons] at nd
      exact absurd (HEnv.mem_handles_of_get h₁) nd.1
    · rw [if_neg e₁] at h₁
      rw [if_neg e₂] at h₂
      exact ih nd' h₁ h₂

theorem NoAliasE.toNoAlias {st : HState S} (h : NoAliasE st) : NoAlias st :=
  ⟨fun _ _ _ _ _ h₁ h₂ => distinct_of_handles_nodup h.handles h₁ h₂,
   fun _ _ _ hg => h.bound _ (HEnv.mem_handles_of_get hg),
   h.keys⟩

theorem handles_nodup_of_distinct {env : HEnv S} (nd : (HEnv.keys env).Nodup)
    (hd : ∀ (k₁ k₂ : Str) (h : Nat) (c₁ c₂ : Bool),
      HEnv.get env k₁ = some ⟨.fn h, c₁⟩ → HEnv.get env k₂ = some ⟨.fn h, c₂⟩ → k₁ = k₂) :
    (HEnv.handles env).Nodup := by
  induction env with
  | nil => exact List.nodup_nil
  | cons hd' tl ih =>
    obtain ⟨k', v'⟩ := hd'
    have ndc := nd
    simp only [HEnv.keys, List.map_cons, List.nodup_cons] at nd
    have htl : ∀ {k : Str} {v : HVar S}, (k, v) ∈ tl → HEnv.get ((k', v') :: tl) k = some v :=
      fun hm => HEnv.get_of_mem ndc (List.mem_cons_of_mem _ hm)
    have ih' := ih nd.2 (by
      intro k₁ k₂ h c₁ c₂ h₁ h₂
      exact hd k₁ k₂ h c₁ c₂ (htl (HEnv.mem_of_get h₁)) (htl (HEnv.mem_of_get h₂)))
    rw [HEnv.handles_cons]
    obtain ⟨val, c⟩ := v'
    cases val with
    | fn h =>
      simp only [HVal.handle?, List.nodup_cons]
      refine ⟨?_, ih'⟩
      intro hm
      obtain ⟨k, c', hm'⟩ := HEnv.mem_handles.mp hm
      have := hd k' k h c c' (HEnv.get_cons_self _ _ _) (htl hm')
      subst this
      exact nd.1 (List.mem_map.mpr ⟨_, hm', rfl⟩)
    | number z => exact ih'
    | measurement z u => exact ih'
    | matrix m => exact ih'

theorem NoAlias.toE {st : HState S} (h : NoAlias st) : NoAliasE st :=
  ⟨h.keys, handles_nodup_of_distinct h.keys h.distinct, by
    intro x hx
    obtain ⟨k, c, hm⟩ := HEnv.mem_handles.mp hx
    exact h.allocated k x c (HEnv.get_of_mem h.keys hm)⟩

theorem noAlias_iff_entries (st : HState S) : NoAlias st ↔ NoAliasE st :=
  ⟨NoAlias.toE, NoAliasE.toNoAlias⟩

theorem noAliasB_iff (st : HState S) : noAliasB st = true ↔ NoAlias st := by
  rw [noAlias_iff_entries]
  simp only [noAliasB, Bool.and_eq_true, decide_eq_true_eq, List.all_eq_true]
  constructor
  · rintro ⟨⟨a, b⟩, c⟩; exact ⟨a, b, c⟩
  · rintro ⟨a, b, c⟩; exact ⟨⟨a, b⟩, c⟩

instance (st : HState S) : Decidable (NoAlias st) :=
  decidable_of_iff _ (noAliasB_iff st)

end Entries

/-! ## the invariant is preserved -/

section Preserve
variable {S : Type}

theorem NoAliasE.filter {st : HState S} (h : NoAliasE st) (p : Str × HVar S → Bool)
    (heap' : Heap S) (hl : st.heap.length ≤ heap'.length) : NoAliasE ⟨st.env.filter p, heap'⟩ :=
  ⟨HEnv.nodup_filter p h.keys,
   List.Nodup.sublist (HEnv.handles_filter_sublist p st.env) h.handles,
   fun x hx => Nat.lt_of_lt_of_le
     (h.bound x ((HEnv.handles_filter_sublist p st.env).subset hx)) hl⟩

theorem NoAliasE.reheap {st : HState S} (h : NoAliasE st)
    (heap' : Heap S) (hl : st.heap.length ≤ heap'.length) : NoAliasE ⟨st.env, heap'⟩ :=
  ⟨h.keys, h.handles, fun x hx => Nat.lt_of_lt_of_le (h.bound x hx) hl⟩

theorem NoAliasE.remove {st : HState S} (h : NoAliasE st) (k : Str)
    (heap' : Heap S) (hl : st.heap.length ≤ heap'.length) :
    NoAliasE ⟨HEnv.remove st.env k, heap'⟩ :=
  h.filter _ heap' hl

theorem NoAliasE.insert_plain {st : HState S} (h : NoAliasE st) (k : Str) (v : HVar S)
    (hv : v.value.handle? = none) (heap' : Heap S) (hl : st.heap.length ≤ heap'.length) :
    NoAliasE ⟨HEnv.insert st.env k v, heap'⟩ := by
  have hr := h.remove k heap' hl
  refine ⟨HEnv.nodup_insert h.keys k v, ?_, ?_⟩
  · simp only [HEnv.insert, HEnv.handles_cons, hv]; exact hr.handles
  · simp only [HEnv.insert, HEnv.handles_cons, hv]; exact hr.bound

theorem NoAliasE.insert_fresh {st : HState S} (h : NoAliasE st) (k : Str) (c : Bool)
    (o : FnObj S) : NoAliasE ⟨HEnv.insert st.env k ⟨.fn st.heap.length, c⟩, st.heap ++ [o]⟩ := by
  have hr := h.remove k st.heap (Nat.le_refl _)
  refine ⟨HEnv.nodup_insert h.keys k _, ?_, ?_⟩
  · simp only [HEnv.insert, HEnv.handles_cons, HVal.handle?, List.nodup_cons]
    exact ⟨fun hm => Nat.lt_irrefl _ (hr.bound _ hm), hr.handles⟩
  · simp only [HEnv.insert, HEnv.handles_cons, HVal.handle?, List.mem_cons, List.length_append,
      List.length_singleton]
    rintro x (rfl | hx)
    · exact Nat.lt_succ_self _
    · exact Nat.lt_succ_of_lt (hr.bound x hx)

theorem NoAliasE.insert_store {st : HState S} (h : NoAliasE st) (k : Str) (c : Bool)
    (v : Value S) :
    NoAliasE ⟨HEnv.insert st.env k ⟨(store st.heap v).val, c⟩, (store st.heap v).heap⟩ := by
  cases v with
  | number z => exact h.insert_plain k _ rfl _ (Nat.le_refl _)
  | measurement z u => exact h.insert_plain k _ rfl _ (Nat.le_refl _)
  | matrix m => exact h.insert_plain k _ rfl _ (Nat.le_refl _)
  | native n => exact h.insert_fresh k c _
  | user f => exact h.insert_fresh k c _

end Preserve

section PreserveStep
variable {S : Type} [Add S] [Sub S] [Mul S] [Div S] [Zero S] [One S] [Kernel S]

/-- one statement, with the copy on assignment, keeps the invariant -/
theorem hstep_noAliasE (fuel : Nat) (st : HState S) (s : Stmt S) (h : NoAliasE st) :
    NoAliasE (hstep fuel st s true).st := by
  cases s with
  | expr e => exact h
  | clear => exact h.filter _ _ (Nat.le_refl _)
  | deleteVar name =>
    simp only [hstep, herrOut]
    repeat' split
    all_goals first | exact h | exact h.remove _ _ (Nat.le_refl _)
  | deleteSig name sig =>
    simp only [hstep, herrOut]
    repeat' split
    all_goals first
      | exact h
      | exact h.remove _ _ (by simp)
      | exact h.reheap _ (by simp)
  | assign name e =>
    simp only [hstep, herrOut, assignStore, if_true]
    repeat' split
    all_goals first | exact h | exact h.insert_store _ _ _
  | define name sig body =>
    simp only [hstep, herrOut]
    repeat' split
    all_goals first
      | exact h
      | exact h.insert_fresh _ _ _
      | exact h.reheap _ (by simp)

theorem hstep_noAlias (fuel : Nat) (st : HState S) (s : Stmt S) (h : NoAlias st) :
    NoAlias (hstep fuel st s true).st :=
  (hstep_noAliasE fuel st s h.toE).toNoAlias

theorem hrun_noAlias (fuel : Nat) (ss : List (Stmt S)) :
    ∀ (st : HState S), NoAlias st → NoAlias (hrun fuel true st ss).st := by
  induction ss with
  | nil => intro st h; exact h
  | cons s ss ih => intro st h; exact ih _ (hstep_noAlias fuel st s h)

end PreserveStep

/-! ## the initial state -/

section Init
variable {S : Type}

theorem store_heap_prefix (heap : Heap S) (v : Value S) :
    ∃ ext, (store heap v).heap = heap ++ ext := by
  cases v
  · exact ⟨[], (List.append_nil _).symm⟩
  · exact ⟨[], (List.append_nil _).symm⟩
  · exact ⟨[], (List.append_nil _).symm⟩
  · exact ⟨_, rfl⟩
  · exact ⟨_, rfl⟩

theorem hinitFrom_heap_prefix (env : Env S) :
    ∀ heap : Heap S, ∃ ext, (hinitFrom heap env).heap = heap ++ ext := by
  induction env with
  | nil => intro heap; exact ⟨[], (List.append_nil _).symm⟩
  | cons hd tl ih =>
    intro heap
    obtain ⟨k, v⟩ := hd
    obtain ⟨e₁, h₁⟩ := store_heap_prefix heap v.value
    obtain ⟨e₂, h₂⟩ := ih (store heap v.value).heap
    exact ⟨e₁ ++ e₂, by simp only [hinitFrom]; rw [h₂, h₁, List.append_assoc]⟩

/-- the value that was stored is read back, however the heap grows afterwards -/
theorem deref_store_append (heap ext : Heap S) (v : Value S) :
    deref ((store heap v).heap ++ ext) (store heap v).val = v := by
  cases v <;> simp [store, deref, FnObj.toValue]

theorem abs_hinitFrom (env : Env S) : ∀ heap : Heap S, abs (hinitFrom heap env) = env := by
  induction env with
  | nil => intro heap; rfl
  | cons hd tl ih =>
    intro heap
    obtain ⟨k, ⟨v, c⟩⟩ := hd
    have ih' := ih (store heap v).heap
    obtain ⟨ext, hext⟩ := hinitFrom_heap_prefix tl (store heap v).heap
    simp only [abs, hinitFrom, List.map_cons, absVar] at ih' ⊢
    rw [ih', hext, deref_store_append]

/-- the initial state stands for the initial table -/
theorem abs_hinit (init : Env S) : abs (hinit init) = init := abs_hinitFrom init []

theorem hinitFrom_keys (env : Env S) :
    ∀ heap : Heap S, (hinitFrom heap env).env.map Prod.fst = env.map Prod.fst := by
  induction env with
  | nil => intro heap; rfl
  | cons hd tl ih => intro heap; simp only [hinitFrom, List.map_cons, ih]

theorem hinitFrom_handles (env : Env S) :
    ∀ heap : Heap S, (HEnv.handles (hinitFrom heap env).env).Nodup ∧
      ∀ h ∈ HEnv.handles (hinitFrom heap env).env,
        heap.length ≤ h ∧ h < (hinitFrom heap env).heap.length := by
  induction env with
  | nil => intro heap; exact ⟨List.nodup_nil, fun _ hm => by cases hm⟩
  | cons hd tl ih =>
    intro heap
    obtain ⟨k, ⟨v, c⟩⟩ := hd
    obtain ⟨nd, hb⟩ := ih (store heap v).heap
    obtain ⟨ext, hext⟩ := hinitFrom_heap_prefix tl (store heap v).heap
    have hlen : (store heap v).heap.length ≤ (hinitFrom (store heap v).heap tl).heap.length := by
      rw [hext, List.length_append]; exact Nat.le_add_right _ _
    simp only [hinitFrom, HEnv.handles_cons]
    cases v with
    | number z => exact ⟨nd, hb⟩
    | measurement z u => exact ⟨nd, hb⟩
    | matrix m => exact ⟨nd, hb⟩
    | native n =>
      simp only [store, List.length_append, List.length_singleton] at hb hlen ⊢
      simp only [HVal.handle?, List.nodup_cons, List.mem_cons]
      refine ⟨⟨fun hm => ?_, nd⟩, ?_⟩
      · exact absurd (hb _ hm).1 (Nat.not_succ_le_self _)
      · rintro x (rfl | hx)
        · exact ⟨Nat.le_refl _, hlen⟩
        · exact ⟨Nat.le_of_succ_le (hb x hx).1, (hb x hx).2⟩
    | user f =>
      simp only [store, List.length_append, List.length_singleton] at hb hlen ⊢
      simp only [HVal.handle?, List.nodup_cons, List.mem_cons]
      refine ⟨⟨fun hm => ?_, nd⟩, ?_⟩
      · exact absurd (hb _ hm).1 (Nat.not_succ_le_self _)
      · rintro x (rfl | hx)
        · exact ⟨Nat.le_refl _, hlen⟩
        · exact ⟨Nat.le_of_succ_le (hb x hx).1, (hb x hx).2⟩

/-- the initial state built from a table with distinct keys has no aliases -/
theorem hinit_noAlias (init : Env S) (hnd : (init.map Prod.fst).Nodup) : NoAlias (hinit init) := by
  apply NoAliasE.toNoAlias
  obtain ⟨nd, hb⟩ := hinitFrom_handles init []
  exact ⟨by rw [hinit, hinitFrom_keys]; exact hnd, nd, fun x hx => (hb x hx).2⟩

end Init

/-! ## refinement: under `NoAlias` the two models take the same step -/

section AbsLemmas
variable {S : Type}

theorem get_abs (env : HEnv S) (heap : Heap S) (k : Str) :
    Env.get (abs ⟨env, heap⟩) k = (HEnv.get env k).map (absVar heap) := by
  induction env with
  | nil => rfl
  | cons hd tl ih =>
    obtain ⟨k', v'⟩ := hd
    simp only [abs, List.map_cons, Env.get_cons, HEnv.get_cons] at ih ⊢
    split
    · rfl
    · exact ih

theorem abs_keys (st : HState S) : (abs st).map Prod.fst = st.env.map Prod.fst := by
  simp only [abs, List.map_map]
  rfl

theorem abs_remove (env : HEnv S) (heap : Heap S) (k : Str) :
    abs ⟨HEnv.remove env k, heap⟩ = Env.remove (abs ⟨env, heap⟩) k := by
  simp only [abs, HEnv.remove, Env.remove, List.filter_map]
  rfl

theorem abs_retainConstants (env : HEnv S) (heap : Heap S) :
    abs ⟨HEnv.retainConstants env, heap⟩ = Env.retainConstants (abs ⟨env, heap⟩) := by
  simp only [abs, HEnv.retainConstants, Env.retainConstants, List.filter_map]
  rfl

theorem abs_insert (env : HEnv S) (heap : Heap S) (k : Str) (v : HVar S) :
    abs ⟨HEnv.insert env k v, heap⟩ = Env.insert (abs ⟨env, heap⟩) k (absVar heap v) := by
  simp only [HEnv.insert, Env.insert, ← abs_remove]
  rfl

/-- growing the heap changes nothing that is bound -/
theorem abs_extend_equiv {env : HEnv S} {heap : Heap S} (h : NoAlias ⟨env, heap⟩)
    (ext : Heap S) : EnvEquiv (abs ⟨env, heap ++ ext⟩) (abs ⟨env, heap⟩) := by
  intro k
  rw [get_abs, get_abs]
  cases hg : HEnv.get env k with
  | none => rfl
  | some v =>
    obtain ⟨val, c⟩ := v
    cases val with
    | fn x =>
      have hx : x < heap.length := h.allocated k x c hg
      simp only [Option.map_some, absVar, deref, List.getElem?_append_left hx]
    | number z => rfl
    | measurement z u => rfl
    | matrix m => rfl

/-- Mutating the object of the handle that `n` is bound to is, in the absence of aliases,
    rebinding `n` to the new content. -/
theorem abs_set_equiv {env : HEnv S} {heap : Heap S} (h : NoAlias ⟨env, heap⟩)
    {n : Str} {x : Nat} {c : Bool} (hg : HEnv.get env n = some ⟨.fn x, c⟩) (o : FnObj S) :
    EnvEquiv (abs ⟨env, heap.set x o⟩) (Env.insert (abs ⟨env, heap⟩) n ⟨o.toValue, c⟩) := by
  have hx : x < heap.length := h.allocated n x c hg
  intro k
  by_cases e : k = n
  · subst e
    rw [Env.get_insert_self, get_abs, hg]
    simp only [Option.map_some, absVar, deref, List.getElem?_set_self hx]
  · rw [Env.get_insert_ne _ _ e, get_abs, get_abs]
    cases hk : HEnv.get env k with
    | none => rfl
    | some v =>
      obtain ⟨val, c'⟩ := v
      cases val with
      | fn y =>
        have hne : x ≠ y := by
          intro exy
          subst exy
          exact e (h.distinct k n x c' c hk hg)
        simp only [Option.map_some, absVar, deref, List.getElem?_set_ne hne]
      | number z => rfl
      | measurement z u => rfl
      | matrix m => rfl

theorem envEquiv_remove_insert (e : Env S) (k : Str) (v : Variable S) :
    EnvEquiv (Env.remove (Env.insert e k v) k) (Env.remove e k) := by
  intro k'
  by_cases hk : k' = k
  · subst hk; rw [Env.get_remove_self, Env.get_remove_self]
  · rw [Env.get_remove_ne _ hk, Env.get_remove_ne _ hk, Env.get_insert_ne _ _ hk]

theorem deref_store (heap : Heap S) (v : Value S) :
    deref (store heap v).heap (store heap v).val = v := by
  have := deref_store_append heap [] v
  rwa [List.append_nil] at this

end AbsLemmas

section Refine
variable {S : Type} [Add S] [Sub S] [Mul S] [Div S] [Zero S] [One S] [Kernel S]

/-- what a handle-level step looks like from the value level -/
def HStepOut.abs (o : HStepOut S) : StepOut S := ⟨Calc.abs o.st, o.out⟩

theorem hstep_refines (fuel : Nat) (st : HState S) (s : Stmt S) (h : NoAlias st) :
    StepEquiv (hstep fuel st s true).abs (step fuel (abs st) s) := by
  obtain ⟨env, heap⟩ := st
  cases s with
  | expr e =>
    simp only [hstep, step, HStepOut.abs, eval_env]
    exact ⟨rfl, EnvEquiv.refl _⟩
  | clear =>
    simp only [hstep, step, HStepOut.abs, abs_retainConstants]
    exact ⟨rfl, EnvEquiv.refl _⟩
  | deleteVar name =>
    simp only [hstep, step, HStepOut.abs, get_abs]
    cases hg : HEnv.get env name.lexeme with
    | none => exact ⟨rfl, EnvEquiv.refl _⟩
    | some v =>
      obtain ⟨val, c⟩ := v
      cases c with
      | true => exact ⟨rfl, EnvEquiv.refl _⟩
      | false =>
        simp only [Option.map_some, absVar, Bool.false_eq_true, if_false, abs_remove]
        exact ⟨rfl, EnvEquiv.refl _⟩
  | deleteSig name sig =>
    simp only [hstep, step, HStepOut.abs, get_abs]
    cases hg : HEnv.get env name.lexeme with
    | none => exact ⟨rfl, EnvEquiv.refl _⟩
    | some v =>
      obtain ⟨val, c⟩ := v
      cases c with
      | true => exact ⟨rfl, EnvEquiv.refl _⟩
      | false =>
        cases val with
        | number z => exact ⟨rfl, EnvEquiv.refl _⟩
        | measurement z u => exact ⟨rfl, EnvEquiv.refl _⟩
        | matrix m => exact ⟨rfl, EnvEquiv.refl _⟩
        | fn x =>
          have hx : x < heap.length := h.allocated _ x false hg
          simp only [Option.map_some, absVar, Bool.false_eq_true, if_false, deref]
          cases ho : heap[x]? with
          | none => 
            rw [List.getElem?_eq_none_iff] at ho
            omega
          | some o =>
            cases o with
            | native n => exact ⟨rfl, EnvEquiv.refl _⟩
            | user fn =>
              simp only [FnObj.toValue]
              split
              · exact ⟨rfl, EnvEquiv.refl _⟩
              · split
                · refine ⟨rfl, ?_⟩
                  simp only [abs_remove]
                  exact ((abs_set_equiv h hg _).remove _).trans (envEquiv_remove_insert _ _ _)
                · exact ⟨rfl, abs_set_equiv h hg _⟩
  | assign name e =>
    have hcore : StepEquiv
        (HStepOut.abs (match (eval fuel e (abs ⟨env, heap⟩)).res with
          | .ok v =>
            (⟨⟨HEnv.insert env name.lexeme ⟨(store heap v).val, false⟩, (store heap v).heap⟩, []⟩ :
              HStepOut S)
          | r => ⟨⟨env, heap⟩, resLine r⟩))
        (match (eval fuel e (abs ⟨env, heap⟩)).res with
          | .ok v => (⟨Env.insert (abs ⟨env, heap⟩) name.lexeme ⟨v, false⟩, []⟩ : StepOut S)
          | r => ⟨abs ⟨env, heap⟩, resLine r⟩) := by
      cases (eval fuel e (abs ⟨env, heap⟩)).res with
      | ok v =>
        refine ⟨rfl, ?_⟩
        simp only [HStepOut.abs, abs_insert, absVar, deref_store]
        obtain ⟨ext, hext⟩ := store_heap_prefix heap v
        rw [hext]
        exact (abs_extend_equiv h ext).insert _ _
      | diag d => exact ⟨rfl, EnvEquiv.refl _⟩
      | panic s => exact ⟨rfl, EnvEquiv.refl _⟩
      | fuel => exact ⟨rfl, EnvEquiv.refl _⟩
    simp only [hstep, step, get_abs, eval_env, assignStore, if_true]
    cases hg : HEnv.get env name.lexeme with
    | none => exact hcore
    | some v =>
      obtain ⟨val, c⟩ := v
      cases c with
      | true => exact ⟨rfl, EnvEquiv.refl _⟩
      | false => exact hcore
  | define name sig body =>
    have hfresh : StepEquiv
        (HStepOut.abs ⟨⟨HEnv.insert env name.lexeme ⟨.fn heap.length, false⟩,
          heap ++ [.user ⟨name.lexeme, [(sig, body)]⟩]⟩, []⟩)
        (⟨Env.insert (abs ⟨env, heap⟩) name.lexeme
          ⟨.user ⟨name.lexeme, [(sig, body)]⟩, false⟩, []⟩ : StepOut S) := by
      refine ⟨rfl, ?_⟩
      simp only [HStepOut.abs, abs_insert, absVar, deref, List.getElem?_append_right (Nat.le_refl _),
        Nat.sub_self, List.getElem?_cons_zero, FnObj.toValue]
      exact (abs_extend_equiv h _).insert _ _
    simp only [hstep, step, get_abs]
    cases hg : HEnv.get env name.lexeme with
    | none => exact hfresh
    | some v =>
      obtain ⟨val, c⟩ := v
      cases c with
      | true => exact ⟨rfl, EnvEquiv.refl _⟩
      | false =>
        cases val with
        | number z => exact hfresh
        | measurement z u => exact hfresh
        | matrix m => exact hfresh
        | fn x =>
          have hx : x < heap.length := h.allocated _ x false hg
          simp only [Option.map_some, absVar, Bool.false_eq_true, if_false, deref]
          cases ho : heap[x]? with
          | none =>
            rw [List.getElem?_eq_none_iff] at ho
            omega
          | some o =>
            cases o with
            | native n => exact ⟨rfl, EnvEquiv.refl _⟩
            | user fn => exact ⟨rfl, abs_set_equiv h hg _⟩

/-- Histories: a handle-level state without aliases that stands for a table with the same
    bindings as `env` (keys distinct) runs every statement list as the value model runs it from
    `env`: same lines, same bindings afterwards. -/
theorem hrun_refines (fuel : Nat) (ss : List (Stmt S)) :
    ∀ (st : HState S) (env : Env S), NoAlias st → EnvEquiv (abs st) env →
      (Env.keys env).Nodup →
      StepEquiv (hrun fuel true st ss).abs (runStmts fuel env ss) := by
  induction ss with
  | nil => intro st env _ he _; exact ⟨rfl, he⟩
  | cons s ss ih =>
    intro st env h he nd
    have nda : (Env.keys (abs st)).Nodup := by
      rw [Env.keys, abs_keys]; exact h.keys
    obtain ⟨o₁, e₁⟩ := hstep_refines fuel st s h
    obtain ⟨o₂, e₂⟩ := step_equiv fuel he nda nd s
    obtain ⟨o₃, e₃⟩ := ih (hstep fuel st s true).st (step fuel env s).env
      (hstep_noAlias fuel st s h) (e₁.trans e₂) (step_keys_nodup fuel env s nd)
    refine ⟨?_, e₃⟩
    simp only [HStepOut.abs] at o₁ o₃ ⊢
    simp only [hrun, runStmts]
    rw [o₃, o₁, o₂]

/-- every history from the initial state -/
theorem hrun_refines_init (fuel : Nat) (init : Env S) (hnd : (init.map Prod.fst).Nodup)
    (ss : List (Stmt S)) :
    StepEquiv (hrun fuel true (hinit init) ss).abs (runStmts fuel init ss) :=
  hrun_refines fuel ss (hinit init) init (hinit_noAlias init hnd)
    (by rw [abs_hinit]; exact EnvEquiv.refl _) hnd

end Refine

/-! ## without the copy -/

section NoCopy
variable {S : Type} [Add S] [Sub S] [Mul S] [Div S] [Zero S] [One S] [Kernel S]

omit [Add S] [Sub S] [Mul S] [Div S] [Zero S] [One S] [Kernel S] in
theorem isFn_deref_fn (heap : Heap S) (x : Nat) : Value.isFn (deref heap (.fn x)) = true := by
  simp only [deref]
  cases heap[x]? with
  | none => rfl
  | some o => cases o <;> rfl

/-- without the copy, `h = f` with `f` bound to a function stores the handle of `f` under `h` -/
theorem hstep_assign_ident_nocopy (fuel : Nat) (st : HState S) (h f : Tok S) (x : Nat) (c : Bool)
    (hf : HEnv.get st.env f.lexeme = some ⟨.fn x, c⟩)
    (hh : ∀ w, HEnv.get st.env h.lexeme = some w → w.constant = false) :
    (hstep (fuel + 1) st (.assign h (.ident f)) false).st =
      ⟨HEnv.insert st.env h.lexeme ⟨.fn x, false⟩, st.heap⟩ := by
  obtain ⟨env, heap⟩ := st
  simp only [hstep]
  split
  · next v hg => have := hh _ hg; cases this
  · simp only [eval, lookupIdent, get_abs, hf, Option.map_some, absVar, assignStore,
      Bool.false_eq_true, if_false, isFn_deref_fn, aliasSource]

theorem hstep_assign_ident_alias (fuel : Nat) (st : HState S) (h f : Tok S) (x : Nat) (c : Bool)
    (hne : h.lexeme ≠ f.lexeme)
    (hf : HEnv.get st.env f.lexeme = some ⟨.fn x, c⟩)
    (hh : ∀ w, HEnv.get st.env h.lexeme = some w → w.constant = false) :
    ¬ NoAlias (hstep (fuel + 1) st (.assign h (.ident f)) false).st := by
  rw [hstep_assign_ident_nocopy fuel st h f x c hf hh]
  intro hN
  exact hne (hN.distinct h.lexeme f.lexeme x false c (HEnv.get_insert_self _ _ _)
    (by rw [HEnv.get_insert_ne _ _ (Ne.symm hne)]; exact hf))

end NoCopy

end Calc
