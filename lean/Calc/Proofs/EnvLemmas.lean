/-
  Calc.Proofs.EnvLemmas — facts about the association-list variable table
  (`Env.get / insert / remove / retainConstants`), used by C09, C10, C11, C12.
  Core Lean only.
-/
import Calc.Model.Env
namespace Calc
namespace Env

variable {S : Type}

/-- the keys of a table, in list order -/
abbrev keys (env : Env S) : List Str := env.map Prod.fst

@[simp] theorem get_nil (k : Str) : get ([] : Env S) k = none := rfl

theorem get_cons (k' : Str) (v : Variable S) (r : Env S) (k : Str) :
    get ((k', v) :: r) k = if k' = k then some v else get r k := rfl

theorem get_cons_self (k : Str) (v : Variable S) (r : Env S) :
    get ((k, v) :: r) k = some v := by
  simp [get_cons]

theorem get_cons_ne {k' k : Str} (v : Variable S) (r : Env S) (h : k' ≠ k) :
    get ((k', v) :: r) k = get r k := by
  simp [get_cons, h]

/-- a successful lookup returns an entry of the list -/
theorem mem_of_get {env : Env S} {k : Str} {v : Variable S} (h : get env k = some v) :
    (k, v) ∈ env := by
  induction env with
  | nil => simp at h
  | cons hd tl ih =>
    obtain ⟨k', v'⟩ := hd
    rw [get_cons] at h
    split at h
    · next hk => cases h; subst hk; exact List.mem_cons_self
    · exact List.mem_cons_of_mem _ (ih h)

theorem get_eq_none_of_not_mem_keys {env : Env S} {k : Str} (h : k ∉ keys env) :
    get env k = none := by
  induction env with
  | nil => rfl
  | cons hd tl ih =>
    obtain ⟨k', v'⟩ := hd
    simp only [keys, List.map_cons, List.mem_cons, not_or] at h
    rw [get_cons_ne _ _ (fun e => h.1 e.symm)]
    exact ih h.2

theorem mem_keys_of_get {env : Env S} {k : Str} {v : Variable S} (h : get env k = some v) :
    k ∈ keys env :=
  List.mem_map.mpr ⟨(k, v), mem_of_get h, rfl⟩

/-- with distinct keys, membership determines lookup -/
theorem get_of_mem {env : Env S} (nd : (keys env).Nodup) {k : Str} {v : Variable S}
    (h : (k, v) ∈ env) : get env k = some v := by
  induction env with
  | nil => cases h
  | cons hd tl ih =>
    obtain ⟨k', v'⟩ := hd
    simp only [keys, List.map_cons, List.nodup_cons] at nd
    rcases List.mem_cons.mp h with h | h
    · cases h; exact get_cons_self _ _ _
    · have hne : k' ≠ k := by
        intro e; subst e
        exact nd.1 (List.mem_map.mpr ⟨(k', v), h, rfl⟩)
      rw [get_cons_ne _ _ hne]
      exact ih nd.2 h

/-! ### lookup through a filter -/

/-- filtering on the key only: lookups of keys that pass are unchanged -/
theorem get_filter_key (p : Str → Bool) (env : Env S) (k : Str) (hk : p k = true) :
    get (env.filter (fun kv => p kv.1)) k = get env k := by
  induction env with
  | nil => rfl
  | cons hd tl ih =>
    obtain ⟨k', v'⟩ := hd
    by_cases hkk : k' = k
    · subst hkk
      simp only [List.filter_cons, hk, if_true, get_cons_self]
    · rw [get_cons_ne _ _ hkk]
      simp only [List.filter_cons]
      split
      · rw [get_cons_ne _ _ hkk]; exact ih
      · exact ih

theorem get_filter_key_none (p : Str → Bool) (env : Env S) (k : Str) (hk : p k = false) :
    get (env.filter (fun kv => p kv.1)) k = none := by
  apply get_eq_none_of_not_mem_keys
  intro hmem
  obtain ⟨⟨k', v'⟩, hm, hk'⟩ := List.mem_map.mp hmem
  have := (List.mem_filter.mp hm).2
  simp only at hk' this
  subst hk'
  rw [hk] at this
  cases this

/-! ### remove / insert -/

theorem get_remove_self (env : Env S) (k : Str) : get (remove env k) k = none := by
  have := get_filter_key_none (S := S) (fun k' => decide (k' ≠ k)) env k (by simp)
  simpa [remove] using this

theorem get_remove_ne (env : Env S) {k k' : Str} (h : k' ≠ k) :
    get (remove env k) k' = get env k' := by
  have := get_filter_key (S := S) (fun x => decide (x ≠ k)) env k' (by simp [h])
  simpa [remove] using this

theorem get_insert_self (env : Env S) (k : Str) (v : Variable S) :
    get (insert env k v) k = some v :=
  get_cons_self _ _ _

theorem get_insert_ne (env : Env S) {k k' : Str} (v : Variable S) (h : k' ≠ k) :
    get (insert env k v) k' = get env k' := by
  unfold insert
  rw [get_cons_ne _ _ (fun e => h e.symm)]
  exact get_remove_ne env h

/-! ### key uniqueness is preserved -/

theorem keys_filter_sublist (p : Str × Variable S → Bool) (env : Env S) :
    (keys (env.filter p)).Sublist (keys env) :=
  List.Sublist.map _ List.filter_sublist

theorem nodup_filter (p : Str × Variable S → Bool) {env : Env S} (nd : (keys env).Nodup) :
    (keys (env.filter p)).Nodup :=
  List.Nodup.sublist (keys_filter_sublist p env) nd

theorem nodup_remove {env : Env S} (nd : (keys env).Nodup) (k : Str) :
    (keys (remove env k)).Nodup :=
  nodup_filter _ nd

theorem not_mem_keys_remove (env : Env S) (k : Str) : k ∉ keys (remove env k) := by
  intro hmem
  obtain ⟨⟨k', v'⟩, hm, hk'⟩ := List.mem_map.mp hmem
  have := (List.mem_filter.mp hm).2
  simp only at hk'
  subst hk'
  simp at this

theorem nodup_insert {env : Env S} (nd : (keys env).Nodup) (k : Str) (v : Variable S) :
    (keys (insert env k v)).Nodup := by
  unfold insert
  simp only [keys, List.map_cons, List.nodup_cons]
  exact ⟨not_mem_keys_remove env k, nodup_remove nd k⟩

theorem nodup_retainConstants {env : Env S} (nd : (keys env).Nodup) :
    (keys (retainConstants env)).Nodup :=
  nodup_filter _ nd

/-! ### retainConstants -/

/-- every entry that survives `clear` is a constant entry of the old table -/
theorem mem_retainConstants {env : Env S} {kv : Str × Variable S} :
    kv ∈ retainConstants env ↔ kv ∈ env ∧ kv.2.constant = true := by
  simp [retainConstants, List.mem_filter]

/-- With distinct keys, `clear` keeps exactly the constant bindings.  (Without distinct keys this
    is false for a first-match lookup: a non-constant entry may hide a constant one.) -/
theorem get_retainConstants {env : Env S} (nd : (keys env).Nodup) (k : Str) :
    get (retainConstants env) k = (get env k).filter (fun v => v.constant) := by
  cases h : get env k with
  | none =>
    simp only [Option.filter_none]
    cases h' : get (retainConstants env) k with
    | none => rfl
    | some v =>
      have hm := (mem_retainConstants.mp (mem_of_get h')).1
      rw [get_of_mem nd hm] at h
      cases h
  | some v =>
    have hm := mem_of_get h
    by_cases hc : v.constant = true
    · simp only [Option.filter_some, hc, if_true]
      exact get_of_mem (nodup_retainConstants nd) (mem_retainConstants.mpr ⟨hm, hc⟩)
    · simp only [Option.filter_some, hc]
      cases h' : get (retainConstants env) k with
      | none => rfl
      | some w =>
        have hw := mem_retainConstants.mp (mem_of_get h')
        have := get_of_mem nd hw.1
        rw [h] at this
        cases this
        exact absurd hw.2 hc

/-- without any assumption on the keys: a visible constant binding survives `clear` -/
theorem get_retainConstants_of_constant {env : Env S} {k : Str} {v : Variable S}
    (h : get env k = some v) (hc : v.constant = true) :
    get (retainConstants env) k = some v := by
  induction env with
  | nil => simp at h
  | cons hd tl ih =>
    obtain ⟨k', v'⟩ := hd
    rw [get_cons] at h
    split at h
    · next hk =>
      cases h; subst hk
      simp only [retainConstants, List.filter_cons, hc, if_true, get_cons_self]
    · next hk =>
      simp only [retainConstants, List.filter_cons]
      split
      · rw [get_cons_ne _ _ hk]; exact ih h
      · exact ih h

/-- without any assumption on the keys: whatever is visible after `clear` is constant -/
theorem constant_of_get_retainConstants {env : Env S} {k : Str} {v : Variable S}
    (h : get (retainConstants env) k = some v) : v.constant = true :=
  (mem_retainConstants.mp (mem_of_get h)).2

end Env
end Calc
