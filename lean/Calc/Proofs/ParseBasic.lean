/-
  Calc.Proofs.ParseBasic — every parser function, when it succeeds, returns a suffix of its
  input; the level functions return a strictly shorter one.  Core Lean only.
  Used by C01 (progress, fuel), C14 (error positions), C17.
-/
import Calc.Model.Parser
namespace Calc
variable {S : Type}

/-- `r` is a proper suffix of `ts` -/
def Shorter (ts r : List (Tok S)) : Prop := ∃ c, ts = c ++ r ∧ c ≠ []
/-- `r` is a suffix of `ts` -/
def Suffix (ts r : List (Tok S)) : Prop := ∃ c, ts = c ++ r

theorem Shorter.suffix {ts r : List (Tok S)} (h : Shorter ts r) : Suffix ts r :=
  let ⟨c, h, _⟩ := h; ⟨c, h⟩

theorem Shorter.length_lt {ts r : List (Tok S)} (h : Shorter ts r) : r.length < ts.length := by
  obtain ⟨c, rfl, hc⟩ := h
  have : 0 < c.length := List.length_pos_iff.mpr hc
  simp; omega

theorem Suffix.length_le {ts r : List (Tok S)} (h : Suffix ts r) : r.length ≤ ts.length := by
  obtain ⟨c, rfl⟩ := h
  simp

theorem Suffix.refl (ts : List (Tok S)) : Suffix ts ts := ⟨[], rfl⟩

theorem Suffix.cons {ts r : List (Tok S)} (t : Tok S) (h : Suffix ts r) : Shorter (t :: ts) r := by
  obtain ⟨c, rfl⟩ := h
  exact ⟨t :: c, rfl, by simp⟩

theorem Shorter.trans_suffix {a b c : List (Tok S)} (h1 : Shorter a b) (h2 : Suffix b c) :
    Shorter a c := by
  obtain ⟨c1, rfl, hc1⟩ := h1
  obtain ⟨c2, rfl⟩ := h2
  exact ⟨c1 ++ c2, by simp, by simp [hc1]⟩

theorem Suffix.trans_shorter {a b c : List (Tok S)} (h1 : Suffix a b) (h2 : Shorter b c) :
    Shorter a c := by
  obtain ⟨c1, rfl⟩ := h1
  obtain ⟨c2, rfl, hc2⟩ := h2
  exact ⟨c1 ++ c2, by simp, by simp [hc2]⟩

theorem Suffix.trans {a b c : List (Tok S)} (h1 : Suffix a b) (h2 : Suffix b c) : Suffix a c := by
  obtain ⟨c1, rfl⟩ := h1
  obtain ⟨c2, rfl⟩ := h2
  exact ⟨c1 ++ c2, by simp⟩

theorem consume_ok {tg : Tag} {ts : List (Tok S)} {t r} (h : consume tg ts = .ok t r) :
    ts = t :: r ∧ t.tag = tg := by
  unfold consume at h
  split at h
  · split at h
    · cases h; exact ⟨rfl, by assumption⟩
    · cases h
  · cases h

theorem consume_ne_fuel (tg : Tag) (ts : List (Tok S)) : consume tg ts ≠ .fuel := by
  unfold consume
  split
  · split <;> simp
  · simp

theorem consumeDelim_ok {ts : List (Tok S)} {t r} (h : consumeDelim ts = .ok t r) :
    ts = t :: r ∧ (t.tag = .newline ∨ t.tag = .semicolon) := by
  unfold consumeDelim at h
  split at h
  · split at h
    · rename_i hd
      cases h; exact ⟨rfl, by simpa using hd⟩
    · cases h
  · cases h

theorem consumeDelim_ne_fuel (ts : List (Tok S)) : consumeDelim ts ≠ .fuel := by
  unfold consumeDelim
  split
  · split <;> simp
  · simp

/-- the "returns a suffix" statement for all 22 functions at one fuel value -/
structure SuffixAt (S : Type) (f : Nat) : Prop where
  expression : ∀ (ts : List (Tok S)) e r, pExpression f ts = .ok e r → Shorter ts r
  term : ∀ (ts : List (Tok S)) e r, pTerm f ts = .ok e r → Shorter ts r
  termLoop : ∀ acc (ts : List (Tok S)) e r, pTermLoop f acc ts = .ok e r → Suffix ts r
  factor : ∀ (ts : List (Tok S)) e r, pFactor f ts = .ok e r → Shorter ts r
  factorLoop : ∀ acc (ts : List (Tok S)) e r, pFactorLoop f acc ts = .ok e r → Suffix ts r
  dot : ∀ (ts : List (Tok S)) e r, pDot f ts = .ok e r → Shorter ts r
  dotLoop : ∀ acc (ts : List (Tok S)) e r, pDotLoop f acc ts = .ok e r → Suffix ts r
  cross : ∀ (ts : List (Tok S)) e r, pCross f ts = .ok e r → Shorter ts r
  crossLoop : ∀ acc (ts : List (Tok S)) e r, pCrossLoop f acc ts = .ok e r → Suffix ts r
  exponent : ∀ (ts : List (Tok S)) e r, pExponent f ts = .ok e r → Shorter ts r
  exponentLoop : ∀ acc (ts : List (Tok S)) e r, pExponentLoop f acc ts = .ok e r → Suffix ts r
  unary : ∀ (ts : List (Tok S)) e r, pUnary f ts = .ok e r → Shorter ts r
  factorial : ∀ (ts : List (Tok S)) e r, pFactorial f ts = .ok e r → Shorter ts r
  factorialLoop : ∀ acc (ts : List (Tok S)) e r, pFactorialLoop f acc ts = .ok e r → Suffix ts r
  call : ∀ (ts : List (Tok S)) e r, pCall f ts = .ok e r → Shorter ts r
  callLoop : ∀ acc (ts : List (Tok S)) e r, pCallLoop f acc ts = .ok e r → Suffix ts r
  args : ∀ (ts : List (Tok S)) es r, pArgs f ts = .ok es r → Suffix ts r
  argsLoop : ∀ (ts : List (Tok S)) es r, pArgsLoop f ts = .ok es r → Shorter ts r
  rows : ∀ br prev idx (ts : List (Tok S)) rows r, pRows f br prev idx ts = .ok rows r → Suffix ts r
  rowsNext : ∀ br prev idx (ts : List (Tok S)) rows r,
    pRowsNext f br prev idx ts = .ok rows r → Suffix ts r
  primary : ∀ (ts : List (Tok S)) e r, pPrimary f ts = .ok e r → Shorter ts r
  group : ∀ o k (ts : List (Tok S)) e r, pGroup f o k ts = .ok e r → Suffix ts r ∧ Shorter ts r

set_option hygiene false in
/-- `level = sub-level, then loop` -/
local macro "lvl_step " ih1:term ", " ih2:term : tactic => `(tactic| (
  split at h
  · rename_i e1 r1 h1
    exact Shorter.trans_suffix ($ih1 _ _ _ h1) ($ih2 _ _ _ _ h)
  · cases h
  · cases h))

set_option hygiene false in
/-- `loop: operator, operand, loop` -/
local macro "loop_step " ih1:term ", " ih2:term : tactic => `(tactic| (
  split at h
  · split at h
    · split at h
      · rename_i e1 r1 h1
        exact (Suffix.cons _ (($ih1 _ _ _ h1).suffix.trans ($ih2 _ _ _ _ h))).suffix
      · cases h
      · cases h
    · cases h; exact Suffix.refl _
  · cases h; exact Suffix.refl _))

theorem suffixAt : ∀ f, SuffixAt S f := by
  intro f
  induction f with
  | zero => constructor <;> intros <;> rename_i h <;> simp [pExpression, pTerm, pTermLoop, pFactor,
      pFactorLoop, pDot, pDotLoop, pCross, pCrossLoop, pExponent, pExponentLoop, pUnary,
      pFactorial, pFactorialLoop, pCall, pCallLoop, pArgs, pArgsLoop, pRows, pRowsNext,
      pPrimary, pGroup] at h
  | succ f ih =>
    constructor
    case expression =>
      intro ts e r h
      simp only [pExpression] at h
      split at h
      · rename_i e1 r1 h1
        have h1' := ih.term _ _ _ h1
        split at h
        · split at h
          · split at h
            · split at h
              · cases h
                exact h1'.trans_suffix ⟨[_, _], rfl⟩
              · cases h
            · cases h
          · cases h; exact h1'
        · cases h; exact h1'
      · cases h
      · cases h
    case term => intro ts e r h; simp only [pTerm] at h; lvl_step ih.factor, ih.termLoop
    case factor => intro ts e r h; simp only [pFactor] at h; lvl_step ih.dot, ih.factorLoop
    case dot => intro ts e r h; simp only [pDot] at h; lvl_step ih.cross, ih.dotLoop
    case cross => intro ts e r h; simp only [pCross] at h; lvl_step ih.exponent, ih.crossLoop
    case exponent => intro ts e r h; simp only [pExponent] at h; lvl_step ih.unary, ih.exponentLoop
    case factorial => intro ts e r h; simp only [pFactorial] at h; lvl_step ih.call, ih.factorialLoop
    case call => intro ts e r h; simp only [pCall] at h; lvl_step ih.primary, ih.callLoop
    case termLoop => intro acc ts e r h; simp only [pTermLoop] at h; loop_step ih.factor, ih.termLoop
    case factorLoop =>
      intro acc ts e r h; simp only [pFactorLoop] at h; loop_step ih.dot, ih.factorLoop
    case dotLoop => intro acc ts e r h; simp only [pDotLoop] at h; loop_step ih.cross, ih.dotLoop
    case crossLoop =>
      intro acc ts e r h; simp only [pCrossLoop] at h; loop_step ih.exponent, ih.crossLoop
    case exponentLoop =>
      intro acc ts e r h; simp only [pExponentLoop] at h; loop_step ih.exponent, ih.exponentLoop
    case unary =>
      intro ts e r h
      simp only [pUnary] at h
      split at h
      · split at h
        · split at h
          · rename_i x r1 h1
            cases h
            exact (Suffix.cons _ (ih.unary _ _ _ h1).suffix)
          · cases h
          · cases h
        · exact ih.factorial _ _ _ h
      · exact ih.factorial _ _ _ h
    case factorialLoop =>
      intro acc ts e r h
      simp only [pFactorialLoop] at h
      split at h
      · split at h
        · exact (Suffix.cons _ (ih.factorialLoop _ _ _ _ h)).suffix
        · cases h; exact Suffix.refl _
      · cases h; exact Suffix.refl _
    case callLoop =>
      intro acc ts e r h
      simp only [pCallLoop] at h
      split at h
      · split at h
        · split at h
          · rename_i args r1 h1
            split at h
            · rename_i cl r2 h2
              obtain ⟨rfl, _⟩ := consume_ok h2
              exact (Suffix.cons _ ((ih.args _ _ _ h1).trans
                ((Suffix.cons _ (ih.callLoop _ _ _ _ h)).suffix))).suffix
            · cases h
            · cases h
          · cases h
          · cases h
        · cases h; exact Suffix.refl _
      · cases h; exact Suffix.refl _
    case args =>
      intro ts es r h
      simp only [pArgs] at h
      split at h
      · cases h; exact Suffix.refl _
      · exact (ih.argsLoop _ _ _ h).suffix
    case argsLoop =>
      intro ts es r h
      simp only [pArgsLoop] at h
      split at h
      · rename_i e1 r1 h1
        have h1' := ih.expression _ _ _ h1
        split at h
        · split at h
          · split at h
            · rename_i es' r2 h2
              cases h
              exact h1'.trans_suffix (Suffix.cons _ (ih.argsLoop _ _ _ h2).suffix).suffix
            · cases h
            · cases h
          · cases h; exact h1'
        · cases h; exact h1'
      · cases h
      · cases h
    case rows =>
      intro br prev idx ts rows r h
      simp only [pRows] at h
      split at h
      · rename_i row r1 h1
        have h1' := ih.args _ _ _ h1
        split at h
        · split at h
          · cases h
          · exact h1'.trans (ih.rowsNext _ _ _ _ _ _ h)
        · exact h1'.trans (ih.rowsNext _ _ _ _ _ _ h)
      · cases h
      · cases h
    case rowsNext =>
      intro br prev idx ts rows r h
      simp only [pRowsNext] at h
      split at h
      · split at h
        · exact (Suffix.cons _ (ih.rows _ _ _ _ _ _ h)).suffix
        · cases h; exact Suffix.refl _
      · cases h; exact Suffix.refl _
    case primary =>
      intro ts e r h
      simp only [pPrimary] at h
      split at h
      · cases h
      · split at h
        · split at h
          · split at h
            · cases h; exact ⟨[_, _], rfl, by simp⟩
            · cases h; exact ⟨[_], rfl, by simp⟩
          · cases h; exact ⟨[_], rfl, by simp⟩
        · cases h; exact ⟨[_], rfl, by simp⟩
        · exact Suffix.cons _ (ih.group _ _ _ _ _ h).1
        · exact Suffix.cons _ (ih.group _ _ _ _ _ h).1
        · exact Suffix.cons _ (ih.group _ _ _ _ _ h).1
        · exact Suffix.cons _ (ih.group _ _ _ _ _ h).1
        · split at h
          · rename_i rows r1 h1
            split at h
            · rename_i cl r2 h2
              obtain ⟨rfl, _⟩ := consume_ok h2
              cases h
              exact Suffix.cons _ ((ih.rows _ _ _ _ _ _ h1).trans ⟨[_], rfl⟩)
            · cases h
            · cases h
          · cases h
          · cases h
        · cases h
    case group =>
      intro o k ts e r h
      simp only [pGroup] at h
      split at h
      · rename_i e1 r1 h1
        split at h
        · rename_i cl r2 h2
          obtain ⟨rfl, _⟩ := consume_ok h2
          cases h
          have := (ih.expression _ _ _ h1).trans_suffix ⟨[_], rfl⟩
          exact ⟨this.suffix, this⟩
        · cases h
        · cases h
      · cases h
      · cases h

end Calc
