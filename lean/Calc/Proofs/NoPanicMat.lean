/-
  Calc.Proofs.NoPanicMat — shapes only: on well-shaped operands that pass the evaluator's guards
  the matrix operations return `.ok` and a well-shaped result (C01).  Every `.panic` branch of
  Calc/Model/Matrix.lean is an `assert!` / index of matrix.rs; these lemmas are what makes them
  dead code.  Core Lean only; nothing here depends on the algebraic files Mat*.lean.
-/
import Calc.Model.Matrix
namespace Calc
variable {S : Type} [Add S] [Sub S] [Mul S] [Div S] [Zero S] [One S] [Kernel S]
set_option linter.unusedSectionVars false

namespace Mat.NoPanic

/-- `wellShaped` as a proposition: at least one row, at least one column, every row as long as
    the first -/
theorem wellShaped_iff (m : Mat S) :
    wellShaped m = true ↔ 0 < nrows m ∧ 0 < ncols m ∧ ∀ r ∈ m, r.length = ncols m := by
  cases m with
  | nil => simp [wellShaped, nrows]
  | cons r0 rs =>
    simp only [wellShaped, nrows, ncols, List.isEmpty_cons, Bool.not_false, Bool.true_and,
      List.headD_cons, Bool.and_eq_true, List.all_eq_true, beq_iff_eq, List.length_cons,
      Nat.zero_lt_succ, true_and]
    constructor
    · rintro ⟨h1, h2⟩
      refine ⟨?_, h2⟩
      have := h1 r0 List.mem_cons_self
      cases r0 with
      | nil => simp at this
      | cons => simp
    · rintro ⟨h1, h2⟩
      refine ⟨?_, h2⟩
      intro r hr
      have := h2 r hr
      cases r with
      | nil => simp at this; omega
      | cons => simp

/-- a rectangular list of rows with both sides positive is well shaped -/
theorem wellShaped_of_rect {m : Mat S} {n c : Nat} (hn : 0 < n) (hc : 0 < c)
    (hl : m.length = n) (hr : ∀ r ∈ m, r.length = c) :
    wellShaped m = true ∧ nrows m = n ∧ ncols m = c := by
  have hcols : ncols m = c := by
    cases m with
    | nil => simp at hl; omega
    | cons r0 rs => exact hr r0 List.mem_cons_self
  refine ⟨(wellShaped_iff m).mpr ⟨by simp only [nrows]; omega, by omega, ?_⟩, hl, hcols⟩
  intro r h; rw [hcols]; exact hr r h

theorem fromRows_ok {m : Mat S} (h : wellShaped m = true) : fromRows m = .ok m := by
  simp [fromRows, h]

theorem mem_zipWith {α β γ} (f : α → β → γ) :
    ∀ (as : List α) (bs : List β) (c : γ), c ∈ List.zipWith f as bs →
      ∃ a ∈ as, ∃ b ∈ bs, c = f a b := by
  intro as
  induction as with
  | nil => intro bs c h; simp at h
  | cons a as ih =>
    intro bs c h
    cases bs with
    | nil => simp at h
    | cons b bs =>
      simp only [List.zipWith_cons_cons, List.mem_cons] at h
      rcases h with rfl | h
      · exact ⟨a, List.mem_cons_self, b, List.mem_cons_self, rfl⟩
      · obtain ⟨x, hx, y, hy, rfl⟩ := ih bs c h
        exact ⟨x, List.mem_cons_of_mem _ hx, y, List.mem_cons_of_mem _ hy, rfl⟩

/-! ### scaling -/

theorem scale_shape {m : Mat S} (k : S) (h : wellShaped m = true) :
    wellShaped (scale m k) = true ∧ nrows (scale m k) = nrows m ∧ ncols (scale m k) = ncols m := by
  obtain ⟨h1, h2, h3⟩ := (wellShaped_iff m).mp h
  apply wellShaped_of_rect h1 h2
  · simp [scale, nrows]
  · intro r hr
    simp only [scale, List.mem_map] at hr
    obtain ⟨r', hr', rfl⟩ := hr
    simp [h3 r' hr']

theorem neg_shape {m : Mat S} (h : wellShaped m = true) :
    wellShaped (neg m) = true ∧ nrows (neg m) = nrows m ∧ ncols (neg m) = ncols m :=
  scale_shape _ h

theorem divScalar_shape {m : Mat S} (k : S) (h : wellShaped m = true) :
    wellShaped (divScalar m k) = true ∧ nrows (divScalar m k) = nrows m ∧
      ncols (divScalar m k) = ncols m :=
  scale_shape _ h

/-! ### addition, subtraction -/

theorem add_ok {a b : Mat S} (ha : wellShaped a = true) (hb : wellShaped b = true)
    (hr : nrows a = nrows b) (hc : ncols a = ncols b) :
    ∃ r, add a b = .ok r ∧ wellShaped r = true ∧ nrows r = nrows a ∧ ncols r = ncols a := by
  obtain ⟨a1, a2, a3⟩ := (wellShaped_iff a).mp ha
  obtain ⟨b1, b2, b3⟩ := (wellShaped_iff b).mp hb
  refine ⟨_, by unfold add; rw [if_neg (by simp [hr, hc])], ?_⟩
  apply wellShaped_of_rect a1 a2
  · simp only [nrows] at hr
    simp [nrows, hr]
  · intro r hmem
    obtain ⟨x, hx, y, hy, rfl⟩ := mem_zipWith _ _ _ _ hmem
    simp [a3 x hx, b3 y hy, hc]

theorem sub_ok {a b : Mat S} (ha : wellShaped a = true) (hb : wellShaped b = true)
    (hr : nrows a = nrows b) (hc : ncols a = ncols b) :
    ∃ r, sub a b = .ok r ∧ wellShaped r = true ∧ nrows r = nrows a ∧ ncols r = ncols a := by
  obtain ⟨n1, n2, n3⟩ := neg_shape hb
  have := add_ok ha n1 (hr.trans n2.symm) (hc.trans n3.symm)
  simpa [sub, hr, hc] using this

/-! ### product, transpose, identity -/

theorem mul_ok {a b : Mat S} (ha : wellShaped a = true) (hb : wellShaped b = true)
    (h : ncols a = nrows b) :
    ∃ r, mul a b = .ok r ∧ wellShaped r = true ∧ nrows r = nrows a ∧ ncols r = ncols b := by
  obtain ⟨a1, a2, a3⟩ := (wellShaped_iff a).mp ha
  obtain ⟨b1, b2, b3⟩ := (wellShaped_iff b).mp hb
  have hs : wellShaped (mulRaw a b) = true ∧ nrows (mulRaw a b) = nrows a ∧
      ncols (mulRaw a b) = ncols b := by
    apply wellShaped_of_rect a1 b2
    · simp [mulRaw]
    · intro r hr
      simp only [mulRaw, List.mem_map] at hr
      obtain ⟨i, -, rfl⟩ := hr
      simp
  exact ⟨mulRaw a b, by simp [mul, h, fromRows_ok hs.1], hs⟩

theorem transpose_ok {a : Mat S} (ha : wellShaped a = true) :
    ∃ r, transpose a = .ok r ∧ wellShaped r = true ∧ nrows r = ncols a ∧ ncols r = nrows a := by
  obtain ⟨a1, a2, a3⟩ := (wellShaped_iff a).mp ha
  have hs : wellShaped (transposeRaw a) = true ∧ nrows (transposeRaw a) = ncols a ∧
      ncols (transposeRaw a) = nrows a := by
    apply wellShaped_of_rect a2 a1
    · simp [transposeRaw]
    · intro r hr
      simp only [transposeRaw, List.mem_map] at hr
      obtain ⟨i, -, rfl⟩ := hr
      simp [nrows]
  exact ⟨transposeRaw a, by simp [transpose, fromRows_ok hs.1], hs⟩

theorem identity_ok {n : Nat} (hn : 0 < n) :
    ∃ r : Mat S, identity n = .ok r ∧ wellShaped r = true ∧ nrows r = n ∧ ncols r = n := by
  have hs := wellShaped_of_rect (S := S)
    (m := (List.range n).map fun i => (List.range n).map fun j => if i = j then (1 : S) else 0)
    hn hn (by simp) (by
      intro r hr
      simp only [List.mem_map] at hr
      obtain ⟨i, -, rfl⟩ := hr
      simp)
  exact ⟨_, by simp [identity, fromRows_ok hs.1], hs⟩

/-! ### determinant, inverse -/

theorem det_ok {a : Mat S} (ha : wellShaped a = true) (hsq : nrows a = ncols a) :
    det a = .ok (detN (nrows a) a) := by
  obtain ⟨a1, -, -⟩ := (wellShaped_iff a).mp ha
  have : nrows a ≠ 0 := by omega
  unfold det
  rw [if_neg (by rw [← hsq]; exact fun h => h rfl), if_neg this]

theorem cofactors_shape {a : Mat S} (h : 0 < nrows a) :
    wellShaped (cofactors a) = true ∧ nrows (cofactors a) = nrows a ∧
      ncols (cofactors a) = nrows a := by
  apply wellShaped_of_rect h h
  · simp [cofactors]
  · intro r hr
    simp only [cofactors, List.mem_map] at hr
    obtain ⟨i, -, rfl⟩ := hr
    simp

theorem inverse_ok {a : Mat S} (ha : wellShaped a = true) (hsq : nrows a = ncols a) :
    inverse a = .ok none ∨
    ∃ r, inverse a = .ok (some r) ∧ wellShaped r = true ∧ nrows r = nrows a ∧
      ncols r = nrows a := by
  obtain ⟨a1, -, -⟩ := (wellShaped_iff a).mp ha
  have hne : nrows a ≠ 0 := by omega
  obtain ⟨c1, c2, c3⟩ := cofactors_shape a1
  obtain ⟨t, ht, t1, t2, t3⟩ := transpose_ok c1
  unfold inverse
  rw [if_neg (by rw [← hsq]; exact fun h => h rfl), if_neg hne]
  simp only
  split
  · exact .inl rfl
  · split
    · next h1 =>
      refine .inr ⟨_, rfl, ?_⟩
      have := wellShaped_of_rect (S := S) (m := [[1 / get a 0 0]]) (n := 1) (c := 1)
        (by omega) (by omega) rfl (by intro r hr; simp at hr; subst hr; rfl)
      rw [h1]; exact this
    · rw [fromRows_ok c1]
      simp only [ht]
      obtain ⟨d1, d2, d3⟩ := divScalar_shape (detN (nrows a) a) t1
      exact .inr ⟨_, rfl, d1, by rw [d2, t2, c3], by rw [d3, t3, c2]⟩

/-! ### cross and dot products -/

theorem rowCross_ok {a b : Mat S} (h1 : nrows a = 1) (h2 : nrows b = 1) (h3 : ncols a = 3)
    (h4 : ncols b = 3) :
    ∃ r, rowCross a b = .ok r ∧ wellShaped r = true ∧ nrows r = 1 ∧ ncols r = 3 :=
  ⟨_, by unfold rowCross; rw [if_neg (by simp [h1, h2, h3, h4])], rfl, rfl, rfl⟩

theorem colCross_ok {a b : Mat S} (h1 : ncols a = 1) (h2 : ncols b = 1) (h3 : nrows a = 3)
    (h4 : nrows b = 3) :
    ∃ r, colCross a b = .ok r ∧ wellShaped r = true ∧ nrows r = 1 ∧ ncols r = 3 :=
  ⟨_, by unfold colCross; rw [if_neg (by simp [h1, h2, h3, h4])], rfl, rfl, rfl⟩

theorem rowDot_ok {a b : Mat S} (h1 : nrows a = 1) (h2 : nrows b = 1) (h3 : ncols a = ncols b) :
    ∃ z, rowDot a b = .ok z :=
  ⟨_, by unfold rowDot; rw [if_neg (by simp [h1, h2, h3])]⟩

theorem colDot_ok {a b : Mat S} (h1 : ncols a = 1) (h2 : ncols b = 1) (h3 : nrows a = nrows b) :
    ∃ z, colDot a b = .ok z :=
  ⟨_, by unfold colDot; rw [if_neg (by simp [h1, h2, h3])]⟩

end Mat.NoPanic
end Calc
