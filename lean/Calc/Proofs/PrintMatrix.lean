/-
  Calc.Proofs.PrintMatrix — the reader of printed matrices (`Spec.unformat`, Calc/Spec/Reader.lean)
  inverts `matrixFormat` on matrices of clean cell texts.
-/
import Calc.Proofs.PrintComplex
namespace Calc
open Calc.Spec

/-! ### splitting at a separator character -/

theorem splitOnChar_ne_nil (sep : Char) (s : Str) : splitOnChar sep s ≠ [] := by
  induction s with
  | nil => simp [splitOnChar]
  | cons c cs ih =>
    unfold splitOnChar
    split
    · simp
    · split
      · rename_i h; exact absurd h ih
      · simp

theorem splitOnChar_clean (sep : Char) (a : Str) (h : sep ∉ a) : splitOnChar sep a = [a] := by
  induction a with
  | nil => rfl
  | cons c cs ih =>
    have hc : c ≠ sep := fun e => h (by simp [e])
    have hcs : sep ∉ cs := fun e => h (by simp [e])
    simp [splitOnChar, hc, ih hcs]

theorem splitOnChar_append (sep : Char) (a r : Str) (h : sep ∉ a) :
    splitOnChar sep (a ++ sep :: r) = a :: splitOnChar sep r := by
  induction a with
  | nil => simp [splitOnChar]
  | cons c cs ih =>
    have hc : c ≠ sep := fun e => h (by simp [e])
    have hcs : sep ∉ cs := fun e => h (by simp [e])
    simp [splitOnChar, hc, ih hcs]

/-- the lines of a text made by joining clean lines with the separator are those lines -/
theorem splitOnChar_joinWith (sep : Char) (xs : List Str) (hne : xs ≠ [])
    (h : ∀ x ∈ xs, sep ∉ x) : splitOnChar sep (joinWith [sep] xs) = xs := by
  induction xs with
  | nil => exact absurd rfl hne
  | cons x xs ih =>
    cases xs with
    | nil => simpa [joinWith] using splitOnChar_clean sep x (h x (by simp))
    | cons y ys =>
      have := ih (by simp) (fun z hz => h z (by simp [hz]))
      simp only [joinWith, List.append_assoc, List.singleton_append]
      rw [splitOnChar_append sep x _ (h x (by simp)), this]

theorem mem_joinWith {sep : Str} {xs : List Str} {c : Char} (h : c ∈ joinWith sep xs) :
    c ∈ sep ∨ ∃ x ∈ xs, c ∈ x := by
  induction xs with
  | nil => simp [joinWith] at h
  | cons x xs ih =>
    cases xs with
    | nil => exact Or.inr ⟨x, by simp, by simpa [joinWith] using h⟩
    | cons y ys =>
      simp only [joinWith, List.mem_append] at h
      rcases h with (h | h) | h
      · exact Or.inr ⟨x, by simp, h⟩
      · exact Or.inl h
      · rcases ih h with h | ⟨z, hz, hc⟩
        · exact Or.inl h
        · exact Or.inr ⟨z, by simp [hz], hc⟩

theorem joinWith_ne_nil {sep : Str} {x : Str} {xs : List Str} (h : x ≠ []) :
    joinWith sep (x :: xs) ≠ [] := by
  cases xs with
  | nil => simpa [joinWith] using h
  | cons y ys => simp [joinWith, h]

/-! ### padding only prepends blanks -/

theorem trimLeft_blanks_append (n : Nat) (pre s : Str) (hpre : ∀ c ∈ pre, c = ' ')
    (hs : s.head? ≠ some ' ') : trimLeft (pre ++ List.replicate n ' ' ++ s) = s := by
  unfold trimLeft
  have hall : ∀ c ∈ pre ++ List.replicate n ' ', (decide (c = ' ')) = true := by
    intro c hc
    rcases List.mem_append.1 hc with hc | hc
    · simpa using hpre c hc
    · simpa using (List.mem_replicate.1 hc).2
  cases s with
  | nil =>
    rw [List.append_nil]
    exact (takeWhile_dropWhile_all _ _ hall).2
  | cons d ds =>
    have hd : d ≠ ' ' := fun e => hs (by simp [e])
    rw [List.dropWhile_append_of_pos hall]
    simp [hd]

/-- **padding only prepends blanks** -/
theorem padLeft_trim (w : Nat) (s : Str) (hs : s.head? ≠ some ' ') : trimLeft (padLeft w s) = s := by
  have := trimLeft_blanks_append (w - s.length) [] s (by simp) hs
  simpa [padLeft] using this

theorem mem_padLeft {w : Nat} {s : Str} {c : Char} (h : c ∈ padLeft w s) : c = ' ' ∨ c ∈ s := by
  unfold padLeft at h
  rcases List.mem_append.1 h with h | h
  · exact Or.inl (List.mem_replicate.1 h).2
  · exact Or.inr h

/-! ### the normal form of `matrixFormat` -/

/-- the column widths `matrixFormat` computes -/
def mfWidths (m : List (List Str)) : List Nat :=
  (List.range ((m.map List.length).foldl max 0)).map fun c =>
    (m.map fun row => match row[c]? with | some e => utf8Len e | none => 0).foldl max 0

/-- the padded cells of one row -/
def mfCells (ws : List Nat) (row : List Str) : List Str :=
  (List.zip row ws).map fun (e, w) => padLeft w e

/-- one printed line: a blank in front of every row but the first, cells separated by `, ` -/
def mfLine (ws : List Nat) (idx : Nat) (row : List Str) : Str :=
  (if idx = 0 then [] else [' ']) ++ joinWith ", ".toList (mfCells ws row)

theorem flatten_rows_eq_joinWith (g : Nat → List Str → Str) (m : List (List Str)) (k n : Nat)
    (hn : n = k + m.length) (hne : m ≠ []) (hrows : ∀ r ∈ m, r ≠ []) :
    ((List.zipIdx m k).map fun (p : List Str × Nat) =>
        if p.1.isEmpty then [] else g p.2 p.1 ++ (if p.2 ≠ n - 1 then ['\n'] else [])).flatten =
      joinWith ['\n'] ((List.zipIdx m k).map fun p => g p.2 p.1) := by
  induction m generalizing k with
  | nil => exact absurd rfl hne
  | cons r rs ih =>
    have hr : r ≠ [] := hrows r (by simp)
    cases rs with
    | nil =>
      have : k = n - 1 := by simp at hn; omega
      simp [List.zipIdx_cons, joinWith, hr, this]
    | cons r' rs' =>
      have hk : k ≠ n - 1 := by simp at hn; omega
      have := ih (k + 1) (by simp at hn ⊢; omega) (by simp) (fun x hx => hrows x (by simp [hx]))
      rw [List.zipIdx_cons, List.map_cons, List.flatten_cons, this]
      simp [List.zipIdx_cons, joinWith, hr, hk]

theorem matrixFormat_eq (m : List (List Str)) (hne : m ≠ []) (hrows : ∀ r ∈ m, r ≠ []) :
    matrixFormat m =
      '[' :: joinWith ['\n'] ((List.zipIdx m).map fun p => mfLine (mfWidths m) p.2 p.1) ++ [']'] := by
  have hm : m.isEmpty = false := by
    cases m with
    | nil => exact absurd rfl hne
    | cons _ _ => rfl
  have := flatten_rows_eq_joinWith (fun idx row => mfLine (mfWidths m) idx row) m 0 m.length
    (by simp) hne hrows
  unfold matrixFormat
  simp only [hm, Bool.false_eq_true, if_false]
  simp only [mfLine, mfCells, mfWidths] at this ⊢
  rw [← this]
  rfl

/-! ### reading one line back -/

/-- lexical conditions on a cell text: no comma, no line break, no blank in front -/
structure CleanCell (e : Str) : Prop where
  no_comma : ',' ∉ e
  no_newline : '\n' ∉ e
  no_lead_blank : e.head? ≠ some ' '

theorem unformatRow_line (row : List Str) (ws : List Nat) (pre : Str) (hne : row ≠ [])
    (hlen : row.length ≤ ws.length) (hpre : ∀ c ∈ pre, c = ' ') (hclean : ∀ e ∈ row, CleanCell e) :
    unformatRow (pre ++ joinWith ", ".toList (mfCells ws row)) = row := by
  induction row generalizing ws pre with
  | nil => exact absurd rfl hne
  | cons e es ih =>
    cases ws with
    | nil => simp at hlen
    | cons w ws' =>
      have he := hclean e (by simp)
      have hcell : ',' ∉ pre ++ padLeft w e := by
        intro h
        rcases List.mem_append.1 h with h | h
        · have := hpre _ h; revert this; decide
        · rcases mem_padLeft h with h | h
          · revert h; decide
          · exact he.no_comma h
      have htrim : trimLeft (pre ++ padLeft w e) = e := by
        have := trimLeft_blanks_append (w - e.length) pre e hpre he.no_lead_blank
        simpa [padLeft] using this
      cases es with
      | nil =>
        simp only [mfCells, List.zip_cons_cons, List.zip_nil_left, List.map_cons, List.map_nil,
          joinWith, unformatRow]
        rw [splitOnChar_clean _ _ hcell]
        simp [htrim]
      | cons e' es' =>
        have hlen' : (e' :: es').length ≤ ws'.length := by simp at hlen ⊢; omega
        have ih' := ih ws' [' '] (by simp) hlen' (by simp) (fun x hx => hclean x (by simp [hx]))
        cases ws' with
        | nil => simp at hlen'
        | cons w' ws'' =>
          simp only [mfCells, List.zip_cons_cons, List.map_cons, joinWith] at ih' ⊢
          have e1 : pre ++ (padLeft w e ++ ", ".toList ++
              joinWith ", ".toList (padLeft w' e' :: List.map (fun x => padLeft x.2 x.1) (es'.zip ws''))) =
            (pre ++ padLeft w e) ++ ',' :: ([' '] ++
              joinWith ", ".toList (padLeft w' e' :: List.map (fun x => padLeft x.2 x.1) (es'.zip ws''))) := by
            simp
          rw [e1]
          unfold unformatRow at ih' ⊢
          rw [splitOnChar_append _ _ _ hcell, List.map_cons, htrim, ih']

/-! ### the reader inverts `matrixFormat` -/

theorem length_le_foldl_max (ls : List Nat) (a : Nat) : a ≤ ls.foldl max a ∧ ∀ l ∈ ls, l ≤ ls.foldl max a := by
  induction ls generalizing a with
  | nil => simp
  | cons x xs ih =>
    simp only [List.foldl_cons, List.mem_cons]
    have := ih (max a x)
    refine ⟨by omega, ?_⟩
    rintro l (rfl | hl)
    · omega
    · exact this.2 l hl

theorem row_length_le_widths (m : List (List Str)) (r : List Str) (hr : r ∈ m) :
    r.length ≤ (mfWidths m).length := by
  simp only [mfWidths, List.length_map, List.length_range]
  exact (length_le_foldl_max (m.map List.length) 0).2 _ (List.mem_map_of_mem hr)

theorem mfLine_no_newline (ws : List Nat) (idx : Nat) (row : List Str)
    (hclean : ∀ e ∈ row, CleanCell e) : '\n' ∉ mfLine ws idx row := by
  intro h
  unfold mfLine at h
  rcases List.mem_append.1 h with h | h
  · split at h <;> simp at h
  · rcases mem_joinWith h with h | ⟨x, hx, hc⟩
    · revert h; decide
    · simp only [mfCells, List.mem_map] at hx
      obtain ⟨⟨e, w⟩, hew, rfl⟩ := hx
      rcases mem_padLeft hc with hc | hc
      · revert hc; decide
      · exact (hclean e (List.of_mem_zip hew).1).no_newline hc

theorem unformat_bracket (rest : Str) :
    unformat ('[' :: rest) =
      if rest = [']'] then [] else (splitOnChar '\n' rest.dropLast).map unformatRow := rfl

/-- **the reader inverts `matrixFormat`**: for a matrix with at least one row, no empty row, and
    cell texts that are non-empty, contain no comma and no line break and do not begin with a
    blank, reading the printed text gives back the rows of cell texts. -/
theorem unformat_matrixFormat (m : List (List Str)) (hne : m ≠ []) (hrows : ∀ r ∈ m, r ≠ [])
    (hclean : ∀ r ∈ m, ∀ e ∈ r, CleanCell e ∧ e ≠ []) : unformat (matrixFormat m) = m := by
  rw [matrixFormat_eq m hne hrows]
  have hlines_ne : (List.zipIdx m).map (fun p => mfLine (mfWidths m) p.2 p.1) ≠ [] := by
    cases m with
    | nil => exact absurd rfl hne
    | cons _ _ => simp [List.zipIdx_cons]
  -- the body is not empty
  have hbody : joinWith ['\n'] ((List.zipIdx m).map fun p => mfLine (mfWidths m) p.2 p.1) ≠ [] := by
    cases m with
    | nil => exact absurd rfl hne
    | cons r rs =>
      rw [List.zipIdx_cons, List.map_cons]
      apply joinWith_ne_nil
      have hr := hrows r (by simp)
      have hw := row_length_le_widths (r :: rs) r (by simp)
      cases r with
      | nil => exact absurd rfl hr
      | cons e es =>
        cases hws : mfWidths ((e :: es) :: rs) with
        | nil => rw [hws] at hw; simp at hw
        | cons w ws =>
          have he := (hclean (e :: es) (by simp) e (by simp)).2
          simp only [mfLine, mfCells, List.zip_cons_cons, List.map_cons, if_true, List.nil_append]
          apply joinWith_ne_nil
          simp [padLeft, he]
  rw [List.cons_append, unformat_bracket]
  rw [if_neg (by
    intro h
    have := congrArg List.length h
    simp at this
    exact hbody this)]
  rw [List.dropLast_concat]
  rw [splitOnChar_joinWith '\n' _ hlines_ne (by
    intro x hx
    simp only [List.mem_map] at hx
    obtain ⟨⟨row, idx⟩, hp, rfl⟩ := hx
    exact mfLine_no_newline _ _ _
      (fun e he => (hclean row (List.fst_mem_of_mem_zipIdx hp) e he).1))]
  rw [List.map_map]
  have : ∀ p ∈ List.zipIdx m, (unformatRow ∘ fun p => mfLine (mfWidths m) p.2 p.1) p = p.1 := by
    rintro ⟨row, idx⟩ hp
    have hrow : row ∈ m := List.fst_mem_of_mem_zipIdx hp
    simp only [Function.comp, mfLine]
    exact unformatRow_line row (mfWidths m) _ (hrows row hrow) (row_length_le_widths m row hrow)
      (by intro c hc; split at hc <;> simp at hc; exact hc) (fun e he => (hclean row hrow e he).1)
  rw [List.map_congr_left this]
  simp [List.zipIdx_map_fst]

/-! ### the printed numbers are clean cell texts -/

/-- non-empty, no blank in front, no comma, no line break -/
def CleanText (s : Str) : Prop := s ≠ [] ∧ s.head? ≠ some ' ' ∧ ',' ∉ s ∧ '\n' ∉ s

theorem cleanText_append {a b : Str} (ha : CleanText a) (hb : ',' ∉ b ∧ '\n' ∉ b) :
    CleanText (a ++ b) := by
  obtain ⟨h1, h2, h3, h4⟩ := ha
  refine ⟨by simp [h1], ?_, ?_, ?_⟩
  · cases a with
    | nil => exact absurd rfl h1
    | cons c cs => simpa using h2
  · simp [h3, hb.1]
  · simp [h4, hb.2]

theorem CleanText.cell {s : Str} (h : CleanText s) : CleanCell s ∧ s ≠ [] :=
  ⟨⟨h.2.2.1, h.2.2.2, h.2.1⟩, h.1⟩

section
variable {S R : Type} [Kernel S] [Zero R] [One R] [Neg R]

theorem cleanText_fmt (F : FmtSpec S R) (hf : ∀ x : R, ',' ∉ F.fmt x ∧ '\n' ∉ F.fmt x) (x : R) :
    CleanText (F.fmt x) := by
  refine ⟨realTextEnd_ne_nil (F.fmt_end x), ?_, (hf x).1, (hf x).2⟩
  intro h
  exact F.fmt_noblank x (List.mem_of_mem_head? h)

/-- under `FmtSpec`, and when the printer of reals prints no comma and no line break, the text of
    a number is a clean cell text -/
theorem cleanText_complexToString (F : FmtSpec S R)
    (hf : ∀ x : R, ',' ∉ F.fmt x ∧ '\n' ∉ F.fmt x) (z : S) : CleanText (complexToString z) := by
  have hP := cleanText_fmt F hf
  unfold complexToString
  simp only [F.fmtRe_eq, F.fmtIm_eq, F.fmtAbsIm_eq]
  repeat' split
  all_goals first
    | exact hP _
    | exact cleanText_append (hP _) (by decide)
    | exact cleanText_append (cleanText_append (cleanText_append (hP _) (by decide)) (hP _).2.2)
        (by decide)
    | exact ⟨by simp, by simp, by decide, by decide⟩

end

end Calc
