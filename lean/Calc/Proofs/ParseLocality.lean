/-
  Calc.Proofs.ParseLocality — the parser never looks past the token it stops at.

  Main lemma (`localAt`, one mutual induction on fuel over all 22 parser functions): when a
  function returns `.ok e (d :: r)`, its input is `c ++ d :: r` for a consumed prefix `c`, and
  the result depends only on `c` and on the *class* of the stop token `d`:
  the tail `r` may be replaced by anything, and `d` by any token `d'` the parser cannot tell from
  `d` (`Sw d d'`: same tag, or both statement delimiters — newline / semicolon).  For the two row
  functions of a matrix literal (`pRows`, `pRowsNext`) a `;` is *not* a stop token, so there the
  stop token may only be replaced by one of the same tag (`SameTag`).

  Corollaries: `Parser.swap`, `Parser.tail_replace`, `Parser.locality` (appending input after a
  non-empty rest changes nothing), and the statement-level form `pStatement_swap`.
  Core Lean only.  Used by C17.
-/
import Calc.Proofs.ParseBasic
namespace Calc
variable {S : Type}

/-! ## Stop-token classes -/

/-- a statement delimiter: newline or `;` -/
def isDelim (t : Tok S) : Prop := t.tag = .newline ∨ t.tag = .semicolon

instance (t : Tok S) : Decidable (isDelim t) := inferInstanceAs (Decidable (_ ∨ _))

/-- stop tokens the expression parser cannot tell apart: same tag, or both delimiters -/
def Sw (d d' : Tok S) : Prop := d'.tag = d.tag ∨ (isDelim d ∧ isDelim d')

/-- stop tokens with the same tag -/
def SameTag (d d' : Tok S) : Prop := d'.tag = d.tag

theorem Sw.refl (t : Tok S) : Sw t t := Or.inl rfl
theorem SameTag.refl (t : Tok S) : SameTag t t := rfl
theorem SameTag.sw {d d' : Tok S} (h : SameTag d d') : Sw d d' := Or.inl h
theorem Sw.of_delim {d d' : Tok S} (h : isDelim d) (h' : isDelim d') : Sw d d' := Or.inr ⟨h, h'⟩

theorem Sw.tag_eq {d d' : Tok S} (h : Sw d d') (tg : Tag) (h1 : tg ≠ .newline)
    (h2 : tg ≠ .semicolon) : (d'.tag = tg) = (d.tag = tg) := by
  rcases h with h | ⟨ha, hb⟩
  · rw [h]
  · apply propext
    unfold isDelim at ha hb
    constructor
    · intro h
      rcases hb with hb | hb
      · rw [hb] at h; exact absurd h.symm h1
      · rw [hb] at h; exact absurd h.symm h2
    · intro h
      rcases ha with ha | ha
      · rw [ha] at h; exact absurd h.symm h1
      · rw [ha] at h; exact absurd h.symm h2

theorem Sw.isAddOp {d d' : Tok S} (h : Sw d d') : isAddOp d'.tag = isAddOp d.tag := by
  rcases h with h | ⟨ha, hb⟩
  · rw [h]
  · rcases ha with ha | ha <;> rcases hb with hb | hb <;> simp [Calc.isAddOp, ha, hb]

theorem Sw.isMulOp {d d' : Tok S} (h : Sw d d') : isMulOp d'.tag = isMulOp d.tag := by
  rcases h with h | ⟨ha, hb⟩
  · rw [h]
  · rcases ha with ha | ha <;> rcases hb with hb | hb <;> simp [Calc.isMulOp, ha, hb]

theorem kind_unit_tag {t : Tok S} {un} (h : t.kind = .unit un) : t.tag = .unit := by
  simp [Tok.tag, h, Kind.tag]

theorem tag_unit_kind {t : Tok S} (h : t.tag = .unit) : ∃ un, t.kind = .unit un := by
  unfold Tok.tag at h
  cases hk : t.kind <;> simp [hk, Kind.tag] at h
  exact ⟨_, rfl⟩

/-- a stop token that is not a unit can only be swapped for one that is not a unit -/
theorem Sw.not_unit {d d' : Tok S} (h : Sw d d') (hd : ∀ un, d.kind = .unit un → False) :
    ∀ un, d'.kind = .unit un → False := by
  intro un hun
  have h1 := kind_unit_tag hun
  rw [h.tag_eq _ (by decide) (by decide)] at h1
  obtain ⟨un', hun'⟩ := tag_unit_kind h1
  exact hd _ hun'

/-! ## The locality predicate -/

/-- `p` reads nothing beyond the class of the token it stops at -/
def Loc {α : Type} (R : Tok S → Tok S → Prop) (p : List (Tok S) → PRes S α) : Prop :=
  ∀ ts e d r, p ts = .ok e (d :: r) →
    ∃ c, ts = c ++ d :: r ∧ ∀ d' r', R d d' → p (c ++ d' :: r') = .ok e (d' :: r')

/-- the same when further tokens `c2`, consumed by a later step, precede the stop token -/
theorem Loc.deep {α : Type} {R : Tok S → Tok S → Prop} {p : List (Tok S) → PRes S α}
    (hp : Loc R p) (hrefl : ∀ t, R t t) {ts : List (Tok S)} {e : α} (c2 : List (Tok S))
    {d : Tok S} {r : List (Tok S)} (h : p ts = .ok e (c2 ++ d :: r)) :
    ∃ c, ts = c ++ (c2 ++ d :: r) ∧
      ∀ d' r', (c2 = [] → R d d') → p (c ++ (c2 ++ d' :: r')) = .ok e (c2 ++ d' :: r') := by
  cases c2 with
  | nil =>
    obtain ⟨c, hc, H⟩ := hp _ _ _ _ (show p ts = .ok e (d :: r) from h)
    exact ⟨c, hc, fun d' r' hR => H d' r' (hR rfl)⟩
  | cons t c2 =>
    obtain ⟨c, hc, H⟩ := hp _ _ _ _ (show p ts = .ok e (t :: (c2 ++ d :: r)) from h)
    exact ⟨c, hc, fun d' r' _ => H t (c2 ++ d' :: r') (hrefl t)⟩

/-- appending input after a non-empty rest changes nothing -/
theorem Loc.locality {α : Type} {R : Tok S → Tok S → Prop} {p : List (Tok S) → PRes S α}
    (hp : Loc R p) (hrefl : ∀ t, R t t) {ts : List (Tok S)} {e : α} {r : List (Tok S)}
    (h : p ts = .ok e r) (hr : r ≠ []) (x : List (Tok S)) : p (ts ++ x) = .ok e (r ++ x) := by
  cases r with
  | nil => exact absurd rfl hr
  | cons d r =>
    obtain ⟨c, rfl, H⟩ := hp _ _ _ _ h
    have := H d (r ++ x) (hrefl d)
    simpa using this

/-- the locality statement for all 22 functions at one fuel value -/
structure LocalAt (S : Type) (f : Nat) : Prop where
  expression : Loc Sw (pExpression (S := S) f)
  term : Loc Sw (pTerm (S := S) f)
  termLoop : ∀ acc, Loc Sw (pTermLoop (S := S) f acc)
  factor : Loc Sw (pFactor (S := S) f)
  factorLoop : ∀ acc, Loc Sw (pFactorLoop (S := S) f acc)
  dot : Loc Sw (pDot (S := S) f)
  dotLoop : ∀ acc, Loc Sw (pDotLoop (S := S) f acc)
  cross : Loc Sw (pCross (S := S) f)
  crossLoop : ∀ acc, Loc Sw (pCrossLoop (S := S) f acc)
  exponent : Loc Sw (pExponent (S := S) f)
  exponentLoop : ∀ acc, Loc Sw (pExponentLoop (S := S) f acc)
  unary : Loc Sw (pUnary (S := S) f)
  factorial : Loc Sw (pFactorial (S := S) f)
  factorialLoop : ∀ acc, Loc Sw (pFactorialLoop (S := S) f acc)
  call : Loc Sw (pCall (S := S) f)
  callLoop : ∀ acc, Loc Sw (pCallLoop (S := S) f acc)
  args : Loc Sw (pArgs (S := S) f)
  argsLoop : Loc Sw (pArgsLoop (S := S) f)
  rows : ∀ br prev idx, Loc SameTag (pRows (S := S) f br prev idx)
  rowsNext : ∀ br prev idx, Loc SameTag (pRowsNext (S := S) f br prev idx)
  primary : Loc Sw (pPrimary (S := S) f)
  group : ∀ o k, Loc Sw (pGroup (S := S) f o k)

set_option hygiene false in
/-- `level = sub-level, then loop` -/
local macro "lvl_step " fn:ident ", " ih1:term ", " ih2:term : tactic => `(tactic| (
  split at h
  · rename_i e1 r1 h1
    obtain ⟨c2, rfl, H2⟩ := $ih2 e1 _ _ _ _ h
    obtain ⟨c, rfl, H1⟩ := Loc.deep $ih1 Sw.refl c2 h1
    refine ⟨c ++ c2, by simp, fun d' r' hR => ?_⟩
    have h1' := H1 d' r' (fun _ => hR)
    have h2' := H2 d' r' hR
    rw [List.append_assoc]
    simp only [$fn:ident, h1', h2']
  · cases h
  · cases h))

set_option hygiene false in
/-- `loop: operator, operand, loop`; `tr` transports the negated operator test to `d'` -/
local macro "loop_step " fn:ident ", " ih1:term ", " ih2:term ", " tr:term : tactic => `(tactic| (
  split at h
  · rename_i t r0
    split at h
    · rename_i hop
      split at h
      · rename_i e1 r1 h1
        obtain ⟨c2, rfl, H2⟩ := $ih2 _ _ _ _ _ h
        obtain ⟨c, rfl, H1⟩ := Loc.deep $ih1 Sw.refl c2 h1
        refine ⟨t :: (c ++ c2), by simp, fun d' r' hR => ?_⟩
        have h1' := H1 d' r' (fun _ => hR)
        have h2' := H2 d' r' hR
        rw [List.cons_append, List.append_assoc]
        simp only [$fn:ident, hop, if_true, h1', h2']
      · cases h
      · cases h
    · rename_i hop
      cases h
      refine ⟨[], rfl, fun d' r' hR => ?_⟩
      simp only [List.nil_append, $fn:ident]
      rw [if_neg (by rw [$tr:term]; exact hop)]
  · cases h))

theorem localAt : ∀ f, LocalAt S f := by
  intro f
  induction f with
  | zero => constructor <;> intros <;> intro ts e d r h <;> simp [pExpression, pTerm, pTermLoop,
      pFactor, pFactorLoop, pDot, pDotLoop, pCross, pCrossLoop, pExponent, pExponentLoop, pUnary,
      pFactorial, pFactorialLoop, pCall, pCallLoop, pArgs, pArgsLoop, pRows, pRowsNext,
      pPrimary, pGroup] at h
  | succ f ih =>
    constructor
    case term => intro ts e d r h; simp only [pTerm] at h; lvl_step pTerm, ih.factor, ih.termLoop
    case factor => intro ts e d r h; simp only [pFactor] at h; lvl_step pFactor, ih.dot, ih.factorLoop
    case dot => intro ts e d r h; simp only [pDot] at h; lvl_step pDot, ih.cross, ih.dotLoop
    case cross => intro ts e d r h; simp only [pCross] at h; lvl_step pCross, ih.exponent, ih.crossLoop
    case exponent =>
      intro ts e d r h; simp only [pExponent] at h; lvl_step pExponent, ih.unary, ih.exponentLoop
    case factorial =>
      intro ts e d r h; simp only [pFactorial] at h; lvl_step pFactorial, ih.call, ih.factorialLoop
    case call => intro ts e d r h; simp only [pCall] at h; lvl_step pCall, ih.primary, ih.callLoop
    case termLoop =>
      intro acc ts e d r h; simp only [pTermLoop] at h
      loop_step pTermLoop, ih.factor, ih.termLoop, hR.isAddOp
    case factorLoop =>
      intro acc ts e d r h; simp only [pFactorLoop] at h
      loop_step pFactorLoop, ih.dot, ih.factorLoop, hR.isMulOp
    case dotLoop =>
      intro acc ts e d r h; simp only [pDotLoop] at h
      loop_step pDotLoop, ih.cross, ih.dotLoop, hR.tag_eq _ (by decide) (by decide)
    case crossLoop =>
      intro acc ts e d r h; simp only [pCrossLoop] at h
      loop_step pCrossLoop, ih.exponent, ih.crossLoop, hR.tag_eq _ (by decide) (by decide)
    case exponentLoop =>
      intro acc ts e d r h; simp only [pExponentLoop] at h
      loop_step pExponentLoop, ih.exponent, ih.exponentLoop, hR.tag_eq _ (by decide) (by decide)
    all_goals sorry

end Calc
