/-
  Calc.Proofs.ParseLocality — the parser never looks past the token it stops at.

  Main lemma (`localAt`, one mutual induction on fuel over all 22 parser functions): when a
  function returns `.ok e (d :: r)`, its input is `c ++ d :: r` for a consumed prefix `c`, and
  the result depends only on `c` and on the *class* of the stop token `d`:
  the tail `r` may be replaced by anything, and `d` by any token `d'` the parser cannot tell from
  `d` (`Sw d d'`: same tag, or both statement delimiters — newline / semicolon).  For the two row
  functions of a matrix literal (`pRows`, `pRowsNext`) a `;` is *not* a stop token, so there the
  stop token may only be replaced by one of the same tag (`SameTag`).

  Corollaries: `Parser.swap`, `Parser.tail_replace`, `Parser.locality` (appending input after a
  non-empty rest changes nothing), and the statement-level form `pStatement_swap`.
  Core Lean only.  Used by C17.
-/
import Calc.Proofs.ParseBasic
namespace Calc
variable {S : Type}

/-! ## Stop-token classes -/

/-- a statement delimiter: newline or `;` -/
def isDelim (t : Tok S) : Prop := t.tag = .newline ∨ t.tag = .semicolon

instance (t : Tok S) : Decidable (isDelim t) := inferInstanceAs (Decidable (_ ∨ _))

/-- stop tokens the expression parser cannot tell apart: same tag, or both delimiters -/
def Sw (d d' : Tok S) : Prop := d'.tag = d.tag ∨ (isDelim d ∧ isDelim d')

/-- stop tokens with the same tag -/
def SameTag (d d' : Tok S) : Prop := d'.tag = d.tag

theorem Sw.refl (t : Tok S) : Sw t t := Or.inl rfl
theorem SameTag.refl (t : Tok S) : SameTag t t := rfl
theorem SameTag.sw {d d' : Tok S} (h : SameTag d d') : Sw d d' := Or.inl h
theorem Sw.of_delim {d d' : Tok S} (h : isDelim d) (h' : isDelim d') : Sw d d' := Or.inr ⟨h, h'⟩

theorem Sw.tag_eq {d d' : Tok S} (h : Sw d d') (tg : Tag) (h1 : tg ≠ .newline)
    (h2 : tg ≠ .semicolon) : (d'.tag = tg) = (d.tag = tg) := by
  rcases h with h | ⟨ha, hb⟩
  · rw [h]
  · apply propext
    unfold isDelim at ha hb
    constructor
    · intro h
      rcases hb with hb | hb
      · rw [hb] at h; exact absurd h.symm h1
      · rw [hb] at h; exact absurd h.symm h2
    · intro h
      rcases ha with ha | ha
      · rw [ha] at h; exact absurd h.symm h1
      · rw [ha] at h; exact absurd h.symm h2

theorem Sw.isAddOp {d d' : Tok S} (h : Sw d d') : isAddOp d'.tag = isAddOp d.tag := by
  rcases h with h | ⟨ha, hb⟩
  · rw [h]
  · rcases ha with ha | ha <;> rcases hb with hb | hb <;> simp [Calc.isAddOp, ha, hb]

theorem Sw.isMulOp {d d' : Tok S} (h : Sw d d') : isMulOp d'.tag = isMulOp d.tag := by
  rcases h with h | ⟨ha, hb⟩
  · rw [h]
  · rcases ha with ha | ha <;> rcases hb with hb | hb <;> simp [Calc.isMulOp, ha, hb]

theorem kind_unit_tag {t : Tok S} {un} (h : t.kind = .unit un) : t.tag = .unit := by
  simp [Tok.tag, h, Kind.tag]

theorem tag_unit_kind {t : Tok S} (h : t.tag = .unit) : ∃ un, t.kind = .unit un := by
  unfold Tok.tag at h
  cases hk : t.kind <;> simp [hk, Kind.tag] at h
  exact ⟨_, rfl⟩

/-- a stop token that is not a unit can only be swapped for one that is not a unit -/
theorem Sw.not_unit {d d' : Tok S} (h : Sw d d') (hd : ∀ un, d.kind = .unit un → False) :
    ∀ un, d'.kind = .unit un → False := by
  intro un hun
  have h1 := kind_unit_tag hun
  rw [h.tag_eq _ (by decide) (by decide)] at h1
  obtain ⟨un', hun'⟩ := tag_unit_kind h1
  exact hd _ hun'

/-! ## The locality predicate -/

/-- `p` reads nothing beyond the class of the token it stops at -/
def Loc {α : Type} (R : Tok S → Tok S → Prop) (p : List (Tok S) → PRes S α) : Prop :=
  ∀ ts e d r, p ts = .ok e (d :: r) →
    ∃ c, ts = c ++ d :: r ∧ ∀ d' r', R d d' → p (c ++ d' :: r') = .ok e (d' :: r')

/-- the same when further tokens `c2`, consumed by a later step, precede the stop token -/
theorem Loc.deep {α : Type} {R : Tok S → Tok S → Prop} {p : List (Tok S) → PRes S α}
    (hp : Loc R p) (hrefl : ∀ t, R t t) {ts : List (Tok S)} {e : α} (c2 : List (Tok S))
    {d : Tok S} {r : List (Tok S)} (h : p ts = .ok e (c2 ++ d :: r)) :
    ∃ c, ts = c ++ (c2 ++ d :: r) ∧
      ∀ d' r', (c2 = [] → R d d') → p (c ++ (c2 ++ d' :: r')) = .ok e (c2 ++ d' :: r') := by
  cases c2 with
  | nil =>
    obtain ⟨c, hc, H⟩ := hp _ _ _ _ (show p ts = .ok e (d :: r) from h)
    exact ⟨c, hc, fun d' r' hR => H d' r' (hR rfl)⟩
  | cons t c2 =>
    obtain ⟨c, hc, H⟩ := hp _ _ _ _ (show p ts = .ok e (t :: (c2 ++ d :: r)) from h)
    exact ⟨c, hc, fun d' r' _ => H t (c2 ++ d' :: r') (hrefl t)⟩

/-- appending input after a non-empty rest changes nothing -/
theorem Loc.locality {α : Type} {R : Tok S → Tok S → Prop} {p : List (Tok S) → PRes S α}
    (hp : Loc R p) (hrefl : ∀ t, R t t) {ts : List (Tok S)} {e : α} {r : List (Tok S)}
    (h : p ts = .ok e r) (hr : r ≠ []) (x : List (Tok S)) : p (ts ++ x) = .ok e (r ++ x) := by
  cases r with
  | nil => exact absurd rfl hr
  | cons d r =>
    obtain ⟨c, rfl, H⟩ := hp _ _ _ _ h
    have := H d (r ++ x) (hrefl d)
    simpa using this

/-- the locality statement for all 22 functions at one fuel value -/
structure LocalAt (S : Type) (f : Nat) : Prop where
  expression : Loc Sw (pExpression (S := S) f)
  term : Loc Sw (pTerm (S := S) f)
  termLoop : ∀ acc, Loc Sw (pTermLoop (S := S) f acc)
  factor : Loc Sw (pFactor (S := S) f)
  factorLoop : ∀ acc, Loc Sw (pFactorLoop (S := S) f acc)
  dot : Loc Sw (pDot (S := S) f)
  dotLoop : ∀ acc, Loc Sw (pDotLoop (S := S) f acc)
  cross : Loc Sw (pCross (S := S) f)
  crossLoop : ∀ acc, Loc Sw (pCrossLoop (S := S) f acc)
  exponent : Loc Sw (pExponent (S := S) f)
  exponentLoop : ∀ acc, Loc Sw (pExponentLoop (S := S) f acc)
  unary : Loc Sw (pUnary (S := S) f)
  factorial : Loc Sw (pFactorial (S := S) f)
  factorialLoop : ∀ acc, Loc Sw (pFactorialLoop (S := S) f acc)
  call : Loc Sw (pCall (S := S) f)
  callLoop : ∀ acc, Loc Sw (pCallLoop (S := S) f acc)
  args : Loc Sw (pArgs (S := S) f)
  argsLoop : Loc Sw (pArgsLoop (S := S) f)
  rows : ∀ br prev idx, Loc SameTag (pRows (S := S) f br prev idx)
  rowsNext : ∀ br prev idx, Loc SameTag (pRowsNext (S := S) f br prev idx)
  primary : Loc Sw (pPrimary (S := S) f)
  group : ∀ o k, Loc Sw (pGroup (S := S) f o k)

set_option hygiene false in
/-- `level = sub-level, then loop` -/
local macro "lvl_step " fn:ident ", " ih1:term ", " ih2:term : tactic => `(tactic| (
  split at h
  · rename_i e1 r1 h1
    obtain ⟨c2, rfl, H2⟩ := $ih2 e1 _ _ _ _ h
    obtain ⟨c, rfl, H1⟩ := Loc.deep $ih1 Sw.refl c2 h1
    refine ⟨c ++ c2, by simp, fun d' r' hR => ?_⟩
    have h1' := H1 d' r' (fun _ => hR)
    have h2' := H2 d' r' hR
    rw [List.append_assoc]
    simp only [$fn:ident, h1', h2']
  · cases h
  · cases h))

set_option hygiene false in
/-- `loop: operator, operand, loop`; `tr` transports the negated operator test to `d'` -/
local macro "loop_step " fn:ident ", " ih1:term ", " ih2:term ", " tr:term : tactic => `(tactic| (
  split at h
  · rename_i t r0
    split at h
    · rename_i hop
      split at h
      · rename_i e1 r1 h1
        obtain ⟨c2, rfl, H2⟩ := $ih2 _ _ _ _ _ h
        obtain ⟨c, rfl, H1⟩ := Loc.deep $ih1 Sw.refl c2 h1
        refine ⟨t :: (c ++ c2), by simp, fun d' r' hR => ?_⟩
        have h1' := H1 d' r' (fun _ => hR)
        have h2' := H2 d' r' hR
        rw [List.cons_append, List.append_assoc]
        simp only [$fn:ident, hop, if_true, h1', h2']
      · cases h
      · cases h
    · rename_i hop
      cases h
      refine ⟨[], rfl, fun d' r' hR => ?_⟩
      simp only [List.nil_append, $fn:ident]
      rw [if_neg (by rw [$tr:term]; exact hop)]
  · cases h))

theorem localAt : ∀ f, LocalAt S f := by
  intro f
  induction f with
  | zero => constructor <;> intros <;> intro ts e d r h <;> simp [pExpression, pTerm, pTermLoop,
      pFactor, pFactorLoop, pDot, pDotLoop, pCross, pCrossLoop, pExponent, pExponentLoop, pUnary,
      pFactorial, pFactorialLoop, pCall, pCallLoop, pArgs, pArgsLoop, pRows, pRowsNext,
      pPrimary, pGroup] at h
  | succ f ih =>
    constructor
    case term => intro ts e d r h; simp only [pTerm] at h; lvl_step pTerm, ih.factor, ih.termLoop
    case factor => intro ts e d r h; simp only [pFactor] at h; lvl_step pFactor, ih.dot, ih.factorLoop
    case dot => intro ts e d r h; simp only [pDot] at h; lvl_step pDot, ih.cross, ih.dotLoop
    case cross => intro ts e d r h; simp only [pCross] at h; lvl_step pCross, ih.exponent, ih.crossLoop
    case exponent =>
      intro ts e d r h; simp only [pExponent] at h; lvl_step pExponent, ih.unary, ih.exponentLoop
    case factorial =>
      intro ts e d r h; simp only [pFactorial] at h; lvl_step pFactorial, ih.call, ih.factorialLoop
    case call => intro ts e d r h; simp only [pCall] at h; lvl_step pCall, ih.primary, ih.callLoop
    case termLoop =>
      intro acc ts e d r h; simp only [pTermLoop] at h
      loop_step pTermLoop, ih.factor, ih.termLoop, hR.isAddOp
    case factorLoop =>
      intro acc ts e d r h; simp only [pFactorLoop] at h
      loop_step pFactorLoop, ih.dot, ih.factorLoop, hR.isMulOp
    case dotLoop =>
      intro acc ts e d r h; simp only [pDotLoop] at h
      loop_step pDotLoop, ih.cross, ih.dotLoop, hR.tag_eq _ (by decide) (by decide)
    case crossLoop =>
      intro acc ts e d r h; simp only [pCrossLoop] at h
      loop_step pCrossLoop, ih.exponent, ih.crossLoop, hR.tag_eq _ (by decide) (by decide)
    case exponentLoop =>
      intro acc ts e d r h; simp only [pExponentLoop] at h
      loop_step pExponentLoop, ih.exponent, ih.exponentLoop, hR.tag_eq _ (by decide) (by decide)
    case expression =>
      intro ts e d r h
      simp only [pExpression] at h
      split at h
      · rename_i e1 r1 h1
        split at h
        · rename_i t r1'
          split at h
          · rename_i has
            split at h
            · rename_i u r2
              split at h
              · rename_i un hu
                cases h
                obtain ⟨c, rfl, H1⟩ := Loc.deep ih.term Sw.refl [t, u] h1
                refine ⟨c ++ [t, u], by simp, fun d' r' hR => ?_⟩
                have h1' := H1 d' r' (fun hh => by cases hh)
                simp only [List.cons_append, List.nil_append, List.append_assoc] at h1' ⊢
                simp only [pExpression, h1', has, if_true, hu]
              · cases h
            · cases h
          · rename_i has
            cases h
            obtain ⟨c, rfl, H1⟩ := ih.term _ _ _ _ h1
            refine ⟨c, rfl, fun d' r' hR => ?_⟩
            simp only [pExpression, H1 d' r' hR]
            rw [if_neg (by rw [hR.tag_eq _ (by decide) (by decide)]; exact has)]
        · cases h
      · cases h
      · cases h
    case unary =>
      intro ts e d r h
      simp only [pUnary] at h
      split at h
      · rename_i t r0
        split at h
        · rename_i hop
          split at h
          · rename_i x r1 h1
            cases h
            obtain ⟨c, rfl, H1⟩ := ih.unary _ _ _ _ h1
            refine ⟨t :: c, rfl, fun d' r' hR => ?_⟩
            simp only [List.cons_append, pUnary, hop, if_true, H1 d' r' hR]
          · cases h
          · cases h
        · rename_i hop
          obtain ⟨c, hc, H1⟩ := ih.factorial _ _ _ _ h
          refine ⟨c, hc, fun d' r' hR => ?_⟩
          cases c with
          | nil =>
            simp only [List.nil_append] at hc
            rw [hc] at h
            exact absurd ((suffixAt f).factorial _ _ _ h).length_lt (Nat.lt_irrefl _)
          | cons t' c' =>
            simp only [List.cons_append, List.cons.injEq] at hc
            obtain ⟨rfl, rfl⟩ := hc
            have h1' := H1 d' r' hR
            simp only [List.cons_append] at h1' ⊢
            simp only [pUnary, hop]
            exact h1'
      · obtain ⟨c, hc, _⟩ := ih.factorial _ _ _ _ h
        simp at hc
    case factorialLoop =>
      intro acc ts e d r h
      simp only [pFactorialLoop] at h
      split at h
      · rename_i t r0
        split at h
        · rename_i hop
          obtain ⟨c, rfl, H⟩ := ih.factorialLoop _ _ _ _ _ h
          refine ⟨t :: c, rfl, fun d' r' hR => ?_⟩
          simp only [List.cons_append, pFactorialLoop, hop, if_true, H d' r' hR]
        · rename_i hop
          cases h
          refine ⟨[], rfl, fun d' r' hR => ?_⟩
          simp only [List.nil_append, pFactorialLoop]
          rw [if_neg (by rw [hR.tag_eq _ (by decide) (by decide)]; exact hop)]
      · cases h
    case callLoop =>
      intro acc ts e d r h
      simp only [pCallLoop] at h
      split at h
      · rename_i t r0
        split at h
        · rename_i hop
          split at h
          · rename_i args r1 h1
            split at h
            · rename_i cl r2 h2
              obtain ⟨rfl, hcl⟩ := consume_ok h2
              obtain ⟨c2, rfl, H2⟩ := ih.callLoop _ _ _ _ _ h
              obtain ⟨c, rfl, H1⟩ := Loc.deep ih.args Sw.refl (cl :: c2) h1
              refine ⟨t :: (c ++ cl :: c2), by simp, fun d' r' hR => ?_⟩
              have h1' := H1 d' r' (fun hh => by cases hh)
              have h2' := H2 d' r' hR
              simp only [List.cons_append, List.append_assoc] at h1' ⊢
              simp only [pCallLoop, hop, if_true, h1', consume, hcl, h2']
            · cases h
            · cases h
          · cases h
          · cases h
        · rename_i hop
          cases h
          refine ⟨[], rfl, fun d' r' hR => ?_⟩
          simp only [List.nil_append, pCallLoop]
          rw [if_neg (by rw [hR.tag_eq _ (by decide) (by decide)]; exact hop)]
      · cases h
    case args =>
      intro ts e d r h
      simp only [pArgs] at h
      split at h
      · rename_i hck
        cases h
        refine ⟨[], rfl, fun d' r' hR => ?_⟩
        simp only [checkTag, decide_eq_true_eq] at hck
        simp only [List.nil_append, pArgs, checkTag, decide_eq_true_eq]
        rw [if_pos (by rw [hR.tag_eq _ (by decide) (by decide)]; exact hck)]
      · rename_i hck
        obtain ⟨c, rfl, H⟩ := ih.argsLoop _ _ _ _ h
        refine ⟨c, rfl, fun d' r' hR => ?_⟩
        cases c with
        | nil =>
          exact absurd ((suffixAt f).argsLoop _ _ _ h).length_lt (Nat.lt_irrefl _)
        | cons t' c' =>
          have h1' := H d' r' hR
          simp only [List.cons_append, checkTag] at h1' hck ⊢
          simp only [pArgs, checkTag, hck]
          exact h1'
    case argsLoop =>
      intro ts e d r h
      simp only [pArgsLoop] at h
      split at h
      · rename_i e1 r1 h1
        split at h
        · rename_i t r1'
          split at h
          · rename_i hcomma
            split at h
            · rename_i es r2 h2
              cases h
              obtain ⟨c2, rfl, H2⟩ := ih.argsLoop _ _ _ _ h2
              obtain ⟨c, rfl, H1⟩ := Loc.deep ih.expression Sw.refl (t :: c2) h1
              refine ⟨c ++ t :: c2, by simp, fun d' r' hR => ?_⟩
              have h1' := H1 d' r' (fun hh => by cases hh)
              have h2' := H2 d' r' hR
              simp only [List.cons_append, List.append_assoc] at h1' ⊢
              simp only [pArgsLoop, h1', hcomma, if_true, h2']
            · cases h
            · cases h
          · rename_i hcomma
            cases h
            obtain ⟨c, rfl, H1⟩ := ih.expression _ _ _ _ h1
            refine ⟨c, rfl, fun d' r' hR => ?_⟩
            simp only [pArgsLoop, H1 d' r' hR]
            rw [if_neg (by rw [hR.tag_eq _ (by decide) (by decide)]; exact hcomma)]
        · cases h
      · cases h
      · cases h
    case rows =>
      intro br prev idx ts e d r h
      simp only [pRows] at h
      split at h
      · rename_i row r1 h1
        split at h
        · rename_i last hlast
          split at h
          · cases h
          · rename_i hlen
            obtain ⟨c2, rfl, H2⟩ := ih.rowsNext _ _ _ _ _ _ _ h
            obtain ⟨c, rfl, H1⟩ := Loc.deep ih.args Sw.refl c2 h1
            refine ⟨c ++ c2, by simp, fun d' r' hR => ?_⟩
            have h1' := H1 d' r' (fun _ => hR.sw)
            have h2' := H2 d' r' hR
            rw [List.append_assoc]
            simp only [pRows, h1', hlast]
            rw [if_neg hlen]
            exact h2'
        · rename_i hlast
          obtain ⟨c2, rfl, H2⟩ := ih.rowsNext _ _ _ _ _ _ _ h
          obtain ⟨c, rfl, H1⟩ := Loc.deep ih.args Sw.refl c2 h1
          refine ⟨c ++ c2, by simp, fun d' r' hR => ?_⟩
          have h1' := H1 d' r' (fun _ => hR.sw)
          have h2' := H2 d' r' hR
          rw [List.append_assoc]
          simp only [pRows, h1', hlast]
          exact h2'
      · cases h
      · cases h
    case rowsNext =>
      intro br prev idx ts e d r h
      simp only [pRowsNext] at h
      split at h
      · rename_i t r0
        split at h
        · rename_i hsemi
          obtain ⟨c, rfl, H⟩ := ih.rows _ _ _ _ _ _ _ h
          refine ⟨t :: c, rfl, fun d' r' hR => ?_⟩
          simp only [List.cons_append, pRowsNext, hsemi, if_true, H d' r' hR]
        · rename_i hsemi
          cases h
          refine ⟨[], rfl, fun d' r' hR => ?_⟩
          simp only [List.nil_append, pRowsNext]
          rw [if_neg (by rw [show d'.tag = _ from hR]; exact hsemi)]
      · cases h
    case primary =>
      intro ts e d r h
      simp only [pPrimary] at h
      split at h
      · cases h
      · rename_i t r0
        split at h
        · rename_i z hk
          split at h
          · rename_i u r1
            split at h
            · rename_i un hu
              cases h
              refine ⟨[t, u], rfl, fun d' r' hR => ?_⟩
              simp only [List.cons_append, List.nil_append, pPrimary, hk, hu]
            · rename_i hnu
              cases h
              refine ⟨[t], rfl, fun d' r' hR => ?_⟩
              simp only [List.cons_append, List.nil_append, pPrimary, hk]
              split
              · rename_i un hun
                exact absurd hun (fun hh => hR.not_unit hnu _ hh)
              · rfl
          · cases h
        · rename_i nm hk
          cases h
          refine ⟨[t], rfl, fun d' r' hR => ?_⟩
          simp only [List.cons_append, List.nil_append, pPrimary, hk]
        · rename_i hk
          obtain ⟨c, rfl, H⟩ := ih.group _ _ _ _ _ _ h
          refine ⟨t :: c, rfl, fun d' r' hR => ?_⟩
          simp only [List.cons_append, pPrimary, hk, H d' r' hR]
        · rename_i hk
          obtain ⟨c, rfl, H⟩ := ih.group _ _ _ _ _ _ h
          refine ⟨t :: c, rfl, fun d' r' hR => ?_⟩
          simp only [List.cons_append, pPrimary, hk, H d' r' hR]
        · rename_i hk
          obtain ⟨c, rfl, H⟩ := ih.group _ _ _ _ _ _ h
          refine ⟨t :: c, rfl, fun d' r' hR => ?_⟩
          simp only [List.cons_append, pPrimary, hk, H d' r' hR]
        · rename_i hk
          obtain ⟨c, rfl, H⟩ := ih.group _ _ _ _ _ _ h
          refine ⟨t :: c, rfl, fun d' r' hR => ?_⟩
          simp only [List.cons_append, pPrimary, hk, H d' r' hR]
        · rename_i hk
          split at h
          · rename_i rows r1 h1
            split at h
            · rename_i cl r2 h2
              obtain ⟨rfl, hcl⟩ := consume_ok h2
              cases h
              obtain ⟨c, rfl, H1⟩ := Loc.deep (ih.rows _ _ _) SameTag.refl [cl] h1
              refine ⟨t :: (c ++ [cl]), by simp, fun d' r' hR => ?_⟩
              have h1' := H1 d' r' (fun hh => by cases hh)
              simp only [List.cons_append, List.nil_append, List.append_assoc] at h1' ⊢
              simp only [pPrimary, hk, h1', consume, hcl, if_true]
            · cases h
            · cases h
          · cases h
          · cases h
        · cases h
    case group =>
      intro o k ts e d r h
      simp only [pGroup] at h
      split at h
      · rename_i e1 r1 h1
        split at h
        · rename_i cl r2 h2
          obtain ⟨rfl, hcl⟩ := consume_ok h2
          cases h
          obtain ⟨c, rfl, H1⟩ := Loc.deep ih.expression Sw.refl [cl] h1
          refine ⟨c ++ [cl], by simp, fun d' r' hR => ?_⟩
          have h1' := H1 d' r' (fun hh => by cases hh)
          simp only [List.cons_append, List.nil_append, List.append_assoc] at h1' ⊢
          simp only [pGroup, h1', consume, hcl, if_true]
        · cases h
        · cases h
      · cases h
      · cases h

/-! ## Corollaries for `pExpression` -/

/-- **Stop-token swap.**  If `pExpression` stops at `d`, its input is `c ++ d :: r` with `c`
    non-empty, and on `c ++ d' :: r'` — any tail, any `d'` of the same tag or, when `d` is a
    delimiter, any delimiter — it returns the same tree and stops at `d'`. -/
theorem Parser.swap {f : Nat} {ts : List (Tok S)} {e : Expr S} {d : Tok S} {r : List (Tok S)}
    (h : pExpression f ts = .ok e (d :: r)) :
    ∃ c, c ≠ [] ∧ ts = c ++ d :: r ∧
      ∀ d' r', Sw d d' → pExpression f (c ++ d' :: r') = .ok e (d' :: r') := by
  obtain ⟨c, rfl, H⟩ := (localAt f).expression _ _ _ _ h
  refine ⟨c, ?_, rfl, H⟩
  rintro rfl
  exact absurd ((suffixAt f).expression _ _ _ h).length_lt (Nat.lt_irrefl _)

/-- **Tail replacement.**  The result depends only on the consumed prefix and the head of the
    rest. -/
theorem Parser.tail_replace {f : Nat} {ts : List (Tok S)} {e : Expr S} {t : Tok S}
    {r : List (Tok S)} (h : pExpression f ts = .ok e (t :: r)) :
    ∃ c, ts = c ++ t :: r ∧ ∀ r', pExpression f (c ++ t :: r') = .ok e (t :: r') := by
  obtain ⟨c, _, hc, H⟩ := Parser.swap h
  exact ⟨c, hc, fun r' => H t r' (Sw.refl t)⟩

/-- **Locality.**  Input appended after a non-empty rest is never looked at. -/
theorem Parser.locality {f : Nat} {ts : List (Tok S)} {e : Expr S} {r : List (Tok S)}
    (h : pExpression f ts = .ok e r) (hr : r ≠ []) (x : List (Tok S)) :
    pExpression f (ts ++ x) = .ok e (r ++ x) :=
  (localAt f).expression.locality Sw.refl h hr x

/-- `Parser.locality` for every one of the 22 functions -/
structure AppendAt (S : Type) (f : Nat) : Prop where
  expression : ∀ (ts : List (Tok S)) e r, pExpression f ts = .ok e r → r ≠ [] →
    ∀ x, pExpression f (ts ++ x) = .ok e (r ++ x)
  term : ∀ (ts : List (Tok S)) e r, pTerm f ts = .ok e r → r ≠ [] →
    ∀ x, pTerm f (ts ++ x) = .ok e (r ++ x)
  termLoop : ∀ acc (ts : List (Tok S)) e r, pTermLoop f acc ts = .ok e r → r ≠ [] →
    ∀ x, pTermLoop f acc (ts ++ x) = .ok e (r ++ x)
  factor : ∀ (ts : List (Tok S)) e r, pFactor f ts = .ok e r → r ≠ [] →
    ∀ x, pFactor f (ts ++ x) = .ok e (r ++ x)
  factorLoop : ∀ acc (ts : List (Tok S)) e r, pFactorLoop f acc ts = .ok e r → r ≠ [] →
    ∀ x, pFactorLoop f acc (ts ++ x) = .ok e (r ++ x)
  dot : ∀ (ts : List (Tok S)) e r, pDot f ts = .ok e r → r ≠ [] →
    ∀ x, pDot f (ts ++ x) = .ok e (r ++ x)
  dotLoop : ∀ acc (ts : List (Tok S)) e r, pDotLoop f acc ts = .ok e r → r ≠ [] →
    ∀ x, pDotLoop f acc (ts ++ x) = .ok e (r ++ x)
  cross : ∀ (ts : List (Tok S)) e r, pCross f ts = .ok e r → r ≠ [] →
    ∀ x, pCross f (ts ++ x) = .ok e (r ++ x)
  crossLoop : ∀ acc (ts : List (Tok S)) e r, pCrossLoop f acc ts = .ok e r → r ≠ [] →
    ∀ x, pCrossLoop f acc (ts ++ x) = .ok e (r ++ x)
  exponent : ∀ (ts : List (Tok S)) e r, pExponent f ts = .ok e r → r ≠ [] →
    ∀ x, pExponent f (ts ++ x) = .ok e (r ++ x)
  exponentLoop : ∀ acc (ts : List (Tok S)) e r, pExponentLoop f acc ts = .ok e r → r ≠ [] →
    ∀ x, pExponentLoop f acc (ts ++ x) = .ok e (r ++ x)
  unary : ∀ (ts : List (Tok S)) e r, pUnary f ts = .ok e r → r ≠ [] →
    ∀ x, pUnary f (ts ++ x) = .ok e (r ++ x)
  factorial : ∀ (ts : List (Tok S)) e r, pFactorial f ts = .ok e r → r ≠ [] →
    ∀ x, pFactorial f (ts ++ x) = .ok e (r ++ x)
  factorialLoop : ∀ acc (ts : List (Tok S)) e r, pFactorialLoop f acc ts = .ok e r → r ≠ [] →
    ∀ x, pFactorialLoop f acc (ts ++ x) = .ok e (r ++ x)
  call : ∀ (ts : List (Tok S)) e r, pCall f ts = .ok e r → r ≠ [] →
    ∀ x, pCall f (ts ++ x) = .ok e (r ++ x)
  callLoop : ∀ acc (ts : List (Tok S)) e r, pCallLoop f acc ts = .ok e r → r ≠ [] →
    ∀ x, pCallLoop f acc (ts ++ x) = .ok e (r ++ x)
  args : ∀ (ts : List (Tok S)) es r, pArgs f ts = .ok es r → r ≠ [] →
    ∀ x, pArgs f (ts ++ x) = .ok es (r ++ x)
  argsLoop : ∀ (ts : List (Tok S)) es r, pArgsLoop f ts = .ok es r → r ≠ [] →
    ∀ x, pArgsLoop f (ts ++ x) = .ok es (r ++ x)
  rows : ∀ br prev idx (ts : List (Tok S)) rows r, pRows f br prev idx ts = .ok rows r → r ≠ [] →
    ∀ x, pRows f br prev idx (ts ++ x) = .ok rows (r ++ x)
  rowsNext : ∀ br prev idx (ts : List (Tok S)) rows r,
    pRowsNext f br prev idx ts = .ok rows r → r ≠ [] →
    ∀ x, pRowsNext f br prev idx (ts ++ x) = .ok rows (r ++ x)
  primary : ∀ (ts : List (Tok S)) e r, pPrimary f ts = .ok e r → r ≠ [] →
    ∀ x, pPrimary f (ts ++ x) = .ok e (r ++ x)
  group : ∀ o k (ts : List (Tok S)) e r, pGroup f o k ts = .ok e r → r ≠ [] →
    ∀ x, pGroup f o k (ts ++ x) = .ok e (r ++ x)

theorem appendAt (f : Nat) : AppendAt S f := by
  have L := localAt (S := S) f
  constructor
  case expression => exact fun _ _ _ h hr x => L.expression.locality Sw.refl h hr x
  case term => exact fun _ _ _ h hr x => L.term.locality Sw.refl h hr x
  case termLoop => exact fun acc _ _ _ h hr x => (L.termLoop acc).locality Sw.refl h hr x
  case factor => exact fun _ _ _ h hr x => L.factor.locality Sw.refl h hr x
  case factorLoop => exact fun acc _ _ _ h hr x => (L.factorLoop acc).locality Sw.refl h hr x
  case dot => exact fun _ _ _ h hr x => L.dot.locality Sw.refl h hr x
  case dotLoop => exact fun acc _ _ _ h hr x => (L.dotLoop acc).locality Sw.refl h hr x
  case cross => exact fun _ _ _ h hr x => L.cross.locality Sw.refl h hr x
  case crossLoop => exact fun acc _ _ _ h hr x => (L.crossLoop acc).locality Sw.refl h hr x
  case exponent => exact fun _ _ _ h hr x => L.exponent.locality Sw.refl h hr x
  case exponentLoop => exact fun acc _ _ _ h hr x => (L.exponentLoop acc).locality Sw.refl h hr x
  case unary => exact fun _ _ _ h hr x => L.unary.locality Sw.refl h hr x
  case factorial => exact fun _ _ _ h hr x => L.factorial.locality Sw.refl h hr x
  case factorialLoop =>
    exact fun acc _ _ _ h hr x => (L.factorialLoop acc).locality Sw.refl h hr x
  case call => exact fun _ _ _ h hr x => L.call.locality Sw.refl h hr x
  case callLoop => exact fun acc _ _ _ h hr x => (L.callLoop acc).locality Sw.refl h hr x
  case args => exact fun _ _ _ h hr x => L.args.locality Sw.refl h hr x
  case argsLoop => exact fun _ _ _ h hr x => L.argsLoop.locality Sw.refl h hr x
  case rows =>
    exact fun br prev idx _ _ _ h hr x => (L.rows br prev idx).locality SameTag.refl h hr x
  case rowsNext =>
    exact fun br prev idx _ _ _ h hr x => (L.rowsNext br prev idx).locality SameTag.refl h hr x
  case primary => exact fun _ _ _ h hr x => L.primary.locality Sw.refl h hr x
  case group => exact fun o k _ _ _ h hr x => (L.group o k).locality Sw.refl h hr x

/-! ## An expression never starts with a delimiter -/

theorem pPrimary_head {f : Nat} {t : Tok S} {r : List (Tok S)} {e r'}
    (h : pPrimary f (t :: r) = .ok e r') : ¬ isDelim t := by
  intro hd
  unfold isDelim Tok.tag at hd
  cases f with
  | zero => simp [pPrimary] at h
  | succ f =>
    simp only [pPrimary] at h
    split at h <;> rename_i hk <;> first
      | (rw [hk] at hd; simp [Kind.tag] at hd)
      | skip
    cases h

set_option hygiene false in
/-- `level = sub-level, then loop`: the head is the sub-level's head -/
local macro "head_step " fn:ident ", " lower:ident : tactic => `(tactic| (
  cases f with
  | zero => simp [$fn:ident] at h
  | succ f =>
    simp only [$fn:ident] at h
    split at h
    · rename_i h1; exact $lower h1
    · cases h
    · cases h))

theorem pCall_head {f : Nat} {t : Tok S} {r : List (Tok S)} {e r'}
    (h : pCall f (t :: r) = .ok e r') : ¬ isDelim t := by head_step pCall, pPrimary_head

theorem pFactorial_head {f : Nat} {t : Tok S} {r : List (Tok S)} {e r'}
    (h : pFactorial f (t :: r) = .ok e r') : ¬ isDelim t := by head_step pFactorial, pCall_head

theorem pUnary_head {f : Nat} {t : Tok S} {r : List (Tok S)} {e r'}
    (h : pUnary f (t :: r) = .ok e r') : ¬ isDelim t := by
  cases f with
  | zero => simp [pUnary] at h
  | succ f =>
    simp only [pUnary] at h
    split at h
    · rename_i hop
      intro hd
      rcases hd with hd | hd <;> simp [hd] at hop
    · exact pFactorial_head h

theorem pExponent_head {f : Nat} {t : Tok S} {r : List (Tok S)} {e r'}
    (h : pExponent f (t :: r) = .ok e r') : ¬ isDelim t := by head_step pExponent, pUnary_head

theorem pCross_head {f : Nat} {t : Tok S} {r : List (Tok S)} {e r'}
    (h : pCross f (t :: r) = .ok e r') : ¬ isDelim t := by head_step pCross, pExponent_head

theorem pDot_head {f : Nat} {t : Tok S} {r : List (Tok S)} {e r'}
    (h : pDot f (t :: r) = .ok e r') : ¬ isDelim t := by head_step pDot, pCross_head

theorem pFactor_head {f : Nat} {t : Tok S} {r : List (Tok S)} {e r'}
    (h : pFactor f (t :: r) = .ok e r') : ¬ isDelim t := by head_step pFactor, pDot_head

theorem pTerm_head {f : Nat} {t : Tok S} {r : List (Tok S)} {e r'}
    (h : pTerm f (t :: r) = .ok e r') : ¬ isDelim t := by head_step pTerm, pFactor_head

/-- an expression never starts with a newline or `;` -/
theorem pExpression_head {f : Nat} {t : Tok S} {r : List (Tok S)} {e r'}
    (h : pExpression f (t :: r) = .ok e r') : ¬ isDelim t := by head_step pExpression, pTerm_head

/-! ## Statement level -/

theorem consumeDelim_delim {x : Tok S} (hx : isDelim x) (r : List (Tok S)) :
    consumeDelim (x :: r) = .ok x r := by
  rcases hx with hx | hx <;> simp [consumeDelim, hx]

theorem isDelim_ne_equal {x : Tok S} (hx : isDelim x) : ¬ x.tag = .equal := by
  rcases hx with hx | hx <;> simp [hx]

/-- an expression followed by a delimiter is an expression statement -/
theorem pStatementExpr_delim {fuel : Nat} {ts : List (Tok S)} {e : Expr S} {x : Tok S}
    {R : List (Tok S)} (h : pExpression fuel ts = .ok e (x :: R)) (hx : isDelim x) :
    pStatement.pStatementExpr fuel ts = .ok (.expr e) R := by
  simp only [pStatement.pStatementExpr, h, consumeDelim_delim hx, isDelim_ne_equal hx, if_false]
  split <;> rfl

theorem pDelete_swap {fuel : Nat} {del : Tok S} {ts : List (Tok S)} {s : Stmt S}
    {R : List (Tok S)} (h : pDelete fuel del ts = .ok s R) :
    ∃ c x, isDelim x ∧ ts = c ++ x :: R ∧
      ∀ x' R', isDelim x' → pDelete fuel del (c ++ x' :: R') = .ok s R' := by
  unfold pDelete at h
  split at h
  · rename_i e r1 h1
    split at h
    · split at h
      · rename_i x r' h2
        obtain ⟨rfl, hx⟩ := consumeDelim_ok h2
        cases h
        obtain ⟨c, _, rfl, H⟩ := Parser.swap h1
        refine ⟨c, x, hx, rfl, fun x' R' hx' => ?_⟩
        simp only [pDelete, H x' R' (Sw.of_delim hx hx'), consumeDelim_delim hx']
      · cases h
      · cases h
    · split at h
      · rename_i x r' h2
        obtain ⟨rfl, hx⟩ := consumeDelim_ok h2
        split at h
        · rename_i name sig hsig
          cases h
          obtain ⟨c, _, rfl, H⟩ := Parser.swap h1
          refine ⟨c, x, hx, rfl, fun x' R' hx' => ?_⟩
          simp only [pDelete, H x' R' (Sw.of_delim hx hx'), consumeDelim_delim hx', hsig]
        · cases h
      · cases h
      · cases h
    · cases h
  · cases h
  · cases h

theorem pStatementExpr_swap {fuel : Nat} {ts : List (Tok S)} {s : Stmt S}
    {R : List (Tok S)} (h : pStatement.pStatementExpr fuel ts = .ok s R) :
    ∃ c x, c ≠ [] ∧ isDelim x ∧ ts = c ++ x :: R ∧
      ∀ x' R', isDelim x' → pStatement.pStatementExpr fuel (c ++ x' :: R') = .ok s R' := by
  -- the expression-statement fallback, shared by five branches
  have fallback : ∀ e r1, pExpression fuel ts = .ok e r1 →
      (match consumeDelim r1 with
        | .ok _ r' => PRes.ok (Stmt.expr e) r'
        | .err e => .err e
        | .fuel => .fuel) = .ok s R →
      ∃ c x, c ≠ [] ∧ isDelim x ∧ ts = c ++ x :: R ∧
        ∀ x' R', isDelim x' → pStatement.pStatementExpr fuel (c ++ x' :: R') = .ok s R' := by
    intro e r1 h1 h
    split at h
    · rename_i x r' h2
      obtain ⟨rfl, hx⟩ := consumeDelim_ok h2
      cases h
      obtain ⟨c, hc, rfl, H⟩ := Parser.swap h1
      exact ⟨c, x, hc, hx, rfl, fun x' R' hx' =>
        pStatementExpr_delim (H x' R' (Sw.of_delim hx hx')) hx'⟩
    · cases h
    · cases h
  unfold pStatement.pStatementExpr at h
  split at h
  · rename_i e r1 h1
    simp only at h
    split at h
    · -- identifier: assignment or expression statement
      rename_i name
      split at h
      · rename_i eq r1'
        split at h
        · rename_i heq
          split at h
          · rename_i right r2 h2
            split at h
            · rename_i x r3 h3
              obtain ⟨rfl, hx⟩ := consumeDelim_ok h3
              cases h
              obtain ⟨c2, _, rfl, H2⟩ := Parser.swap h2
              obtain ⟨c, rfl, H1⟩ := Loc.deep (localAt fuel).expression Sw.refl (eq :: c2) h1
              refine ⟨c ++ eq :: c2, x, by simp, hx, by simp, fun x' R' hx' => ?_⟩
              have h1' := H1 x' R' (fun hh => by cases hh)
              have h2' := H2 x' R' (Sw.of_delim hx hx')
              simp only [List.cons_append, List.append_assoc] at h1' ⊢
              simp only [pStatement.pStatementExpr, h1', heq, if_true, h2', consumeDelim_delim hx']
            · cases h
            · cases h
          · cases h
          · cases h
        · exact fallback _ _ h1 h
      · exact fallback _ _ h1 h
    · -- call: definition or expression statement
      rename_i callee paren args
      split at h
      · rename_i eq r1'
        split at h
        · rename_i heq
          split at h
          · rename_i body r2 h2
            split at h
            · rename_i x r3 h3
              obtain ⟨rfl, hx⟩ := consumeDelim_ok h3
              split at h
              · rename_i name sig hsig
                cases h
                obtain ⟨c2, _, rfl, H2⟩ := Parser.swap h2
                obtain ⟨c, rfl, H1⟩ := Loc.deep (localAt fuel).expression Sw.refl (eq :: c2) h1
                refine ⟨c ++ eq :: c2, x, by simp, hx, by simp, fun x' R' hx' => ?_⟩
                have h1' := H1 x' R' (fun hh => by cases hh)
                have h2' := H2 x' R' (Sw.of_delim hx hx')
                simp only [List.cons_append, List.append_assoc] at h1' ⊢
                simp only [pStatement.pStatementExpr, h1', heq, if_true, h2',
                  consumeDelim_delim hx', hsig]
              · cases h
            · cases h
            · cases h
          · cases h
          · cases h
        · exact fallback _ _ h1 h
      · exact fallback _ _ h1 h
    · exact fallback _ _ h1 h
  · cases h
  · cases h

/-- **Statement-level swap.**  A successfully parsed statement is `c ++ x :: R`: a non-empty body
    `c`, the delimiter `x` that ends it, and the rest `R`.  With any other delimiter `x'` in place
    of `x` and any other input `R'` after it, the same statement is parsed and the rest is `R'`. -/
theorem pStatement_swap {fuel : Nat} {ts : List (Tok S)} {s : Stmt S} {R : List (Tok S)}
    (h : pStatement fuel ts = .ok s R) :
    ∃ c x, c ≠ [] ∧ isDelim x ∧ ts = c ++ x :: R ∧
      ∀ x' R', isDelim x' → pStatement fuel (c ++ x' :: R') = .ok s R' := by
  unfold pStatement at h
  split at h
  · rename_i t r0
    split at h
    · rename_i hdel
      obtain ⟨c, x, hx, rfl, H⟩ := pDelete_swap h
      refine ⟨t :: c, x, by simp, hx, rfl, fun x' R' hx' => ?_⟩
      simp only [List.cons_append, pStatement, hdel, if_true, H x' R' hx']
    · rename_i hdel
      split at h
      · rename_i hclear
        split at h
        · rename_i x r' h2
          obtain ⟨rfl, hx⟩ := consumeDelim_ok h2
          cases h
          refine ⟨[t], x, by simp, hx, rfl, fun x' R' hx' => ?_⟩
          simp only [List.cons_append, List.nil_append, pStatement]
          rw [if_neg hdel, if_pos hclear]
          simp only [consumeDelim_delim hx']
        · cases h
        · cases h
      · rename_i hclear
        obtain ⟨c, x, hc, hx, hts, H⟩ := pStatementExpr_swap h
        refine ⟨c, x, hc, hx, hts, fun x' R' hx' => ?_⟩
        cases c with
        | nil => exact absurd rfl hc
        | cons t' c' =>
          simp only [List.cons_append, List.cons.injEq] at hts
          obtain ⟨rfl, rfl⟩ := hts
          have := H x' R' hx'
          simp only [List.cons_append] at this ⊢
          simp only [pStatement, hdel, hclear, if_false]
          exact this
  · obtain ⟨c, x, hc, hx, hts, H⟩ := pStatementExpr_swap h
    simp at hts

/-- a statement never starts with a newline or `;` -/
theorem pStatement_head {fuel : Nat} {t : Tok S} {r : List (Tok S)} {s : Stmt S}
    {R : List (Tok S)} (h : pStatement fuel (t :: r) = .ok s R) : ¬ isDelim t := by
  intro hd
  have h1 : ¬ t.tag = .delete := by rcases hd with hd | hd <;> simp [hd]
  have h2 : ¬ t.tag = .clear := by rcases hd with hd | hd <;> simp [hd]
  simp only [pStatement, h1, h2, if_false] at h
  unfold pStatement.pStatementExpr at h
  split at h
  · rename_i h1; exact pExpression_head h1 hd
  · cases h
  · cases h

end Calc
