/-
  Calc.Proofs.BlameOrder — evaluation order (C14): the part evaluated first is the one whose
  failure is reported.  Left operand before right, callee before arguments, arguments left to
  right, matrix entries left to right and rows top to bottom.  Core Lean only.
-/
import Calc.Model.Stmt
import Calc.Proofs.EvalPure
namespace Calc
variable {S : Type} [Add S] [Sub S] [Mul S] [Div S] [Zero S] [One S] [Kernel S]
set_option linter.unusedSectionVars false

/-- a result that is not a value: evaluation stops there -/
def Res.isOk {α} : Res α → Bool
  | .ok _ => true
  | _ => false

/-! ### lists of arguments -/

theorem evalList_nil (ev : Evaluator S) (env : Env S) : evalList ev [] env = (.ok [], env) := rfl

/-- the first argument fails (in any way): that failure is the result, the rest is not evaluated -/
theorem evalList_head_fail (ev : Evaluator S) (e : Expr S) (es : List (Expr S)) (env : Env S)
    (h : ∀ v, (ev e env).res ≠ .ok v) :
    (evalList ev (e :: es) env).1 =
      (match (ev e env).res with
        | .ok _ => .ok [] | .diag d => .diag d | .panic s => .panic s | .fuel => .fuel) := by
  unfold evalList
  simp only
  cases hr : (ev e env).res with
  | ok v => exact absurd hr (h v)
  | diag d => rfl
  | panic s => rfl
  | fuel => rfl

theorem evalList_head_diag (ev : Evaluator S) (e : Expr S) (es : List (Expr S)) (env : Env S)
    (d : Diag) (h : (ev e env).res = .diag d) : (evalList ev (e :: es) env).1 = .diag d := by
  unfold evalList
  simp only [h]

/-- the first argument succeeds: the result is that of the rest, with the value in front -/
theorem evalList_head_ok (ev : Evaluator S) (e : Expr S) (es : List (Expr S)) (env : Env S)
    (v : Value S) (h : (ev e env).res = .ok v) :
    (evalList ev (e :: es) env).1 =
      (match (evalList ev es (ev e env).env).1 with
        | .ok vs => .ok (v :: vs)
        | other => other) := by
  conv => lhs; unfold evalList
  simp only [h]
  split <;> simp_all

/-- arguments left to right: a diagnostic out of an argument list is the diagnostic of one
    argument, and every argument before it evaluated to a value -/
theorem evalList_first_failure (ev : Evaluator S) (hp : ∀ e env, (ev e env).env = env)
    (es : List (Expr S)) (env : Env S) (d : Diag) (h : (evalList ev es env).1 = .diag d) :
    ∃ pre e post, es = pre ++ e :: post ∧ (∀ x ∈ pre, ∃ v, (ev x env).res = .ok v) ∧
      (ev e env).res = .diag d := by
  induction es with
  | nil => cases h
  | cons e es ih =>
    cases hr : (ev e env).res with
    | ok v =>
      rw [evalList_head_ok ev e es env v hr, hp] at h
      have h' : (evalList ev es env).1 = .diag d := by
        split at h
        · cases h
        · exact h
      obtain ⟨pre, x, post, rfl, hpre, hx⟩ := ih h'
      refine ⟨e :: pre, x, post, rfl, ?_, hx⟩
      intro y hy
      rcases List.mem_cons.mp hy with rfl | hy
      · exact ⟨v, hr⟩
      · exact hpre y hy
    | diag d' =>
      rw [evalList_head_diag ev e es env d' hr] at h
      cases h
      exact ⟨[], e, es, rfl, (by intro x hx; cases hx), hr⟩
    | panic s =>
      have := evalList_head_fail ev e es env (by intro v hv; rw [hr] at hv; cases hv)
      rw [hr] at this; rw [this] at h; cases h
    | fuel =>
      have := evalList_head_fail ev e es env (by intro v hv; rw [hr] at hv; cases hv)
      rw [hr] at this; rw [this] at h; cases h

/-! ### matrix literals -/

theorem evalRow_head_diag (ev : Evaluator S) (br : Tok S) (ri ci : Nat) (e : Expr S)
    (es : List (Expr S)) (env : Env S) (d : Diag) (h : (ev e env).res = .diag d) :
    (evalRow ev br ri ci (e :: es) env).1 = .diag d := by
  unfold evalRow
  simp only [h]

/-- a first entry that is a value but not a number is reported at the literal's bracket, with
    the 1-based row and column of the entry; the rest of the row is not evaluated -/
theorem evalRow_head_notnumber (ev : Evaluator S) (br : Tok S) (ri ci : Nat) (e : Expr S)
    (es : List (Expr S)) (env : Env S) (v : Value S) (h : (ev e env).res = .ok v)
    (hv : ∀ z, v ≠ .number z) :
    (evalRow ev br ri ci (e :: es) env).1 =
      .diag ⟨.invalidMatrixParameter, br.line, br.col,
             natStr (ri + 1) ++ [':'] ++ natStr (ci + 1)⟩ := by
  unfold evalRow
  cases v with
  | number z => exact absurd rfl (hv z)
  | _ => simp only [h]

theorem evalRow_head_ok (ev : Evaluator S) (br : Tok S) (ri ci : Nat) (e : Expr S)
    (es : List (Expr S)) (env : Env S) (z : S) (h : (ev e env).res = .ok (.number z)) :
    (evalRow ev br ri ci (e :: es) env).1 =
      (match (evalRow ev br ri (ci + 1) es (ev e env).env).1 with
        | .ok zs => .ok (z :: zs)
        | other => other) := by
  conv => lhs; unfold evalRow
  simp only [h]
  split <;> simp_all

/-- entries left to right: a diagnostic out of a row is either the diagnostic of one entry, or
    the "not a number" report (at the bracket) about one entry; every entry before it evaluated
    to a number -/
theorem evalRow_first_failure (ev : Evaluator S) (hp : ∀ e env, (ev e env).env = env)
    (br : Tok S) (ri : Nat) (es : List (Expr S)) (ci : Nat) (env : Env S) (d : Diag)
    (h : (evalRow ev br ri ci es env).1 = .diag d) :
    ∃ pre e post, es = pre ++ e :: post ∧ (∀ x ∈ pre, ∃ z, (ev x env).res = .ok (.number z)) ∧
      ((ev e env).res = .diag d ∨
       (∃ v, (ev e env).res = .ok v ∧ (∀ z, v ≠ .number z) ∧
          d = ⟨.invalidMatrixParameter, br.line, br.col,
               natStr (ri + 1) ++ [':'] ++ natStr (ci + pre.length + 1)⟩)) := by
  induction es generalizing ci with
  | nil => cases h
  | cons e es ih =>
    cases hr : (ev e env).res with
    | ok v =>
      by_cases hv : ∃ z, v = .number z
      · obtain ⟨z, rfl⟩ := hv
        rw [evalRow_head_ok ev br ri ci e es env z hr, hp] at h
        have h' : (evalRow ev br ri (ci + 1) es env).1 = .diag d := by
          split at h
          · cases h
          · exact h
        obtain ⟨pre, x, post, rfl, hpre, hx⟩ := ih (ci + 1) h'
        refine ⟨e :: pre, x, post, rfl, ?_, ?_⟩
        · intro y hy
          rcases List.mem_cons.mp hy with rfl | hy
          · exact ⟨z, hr⟩
          · exact hpre y hy
        · rcases hx with hx | ⟨v, h1, h2, h3⟩
          · exact .inl hx
          · refine .inr ⟨v, h1, h2, ?_⟩
            rw [h3, List.length_cons]
            have : ci + 1 + pre.length + 1 = ci + (pre.length + 1) + 1 := by omega
            rw [this]
      · have hv' : ∀ z, v ≠ .number z := fun z hz => hv ⟨z, hz⟩
        rw [evalRow_head_notnumber ev br ri ci e es env v hr hv'] at h
        cases h
        exact ⟨[], e, es, rfl, (by intro x hx; cases hx), .inr ⟨v, hr, hv', rfl⟩⟩
    | diag d' =>
      rw [evalRow_head_diag ev br ri ci e es env d' hr] at h
      cases h
      exact ⟨[], e, es, rfl, (by intro x hx; cases hx), .inl hr⟩
    | panic s =>
      unfold evalRow at h; simp only [hr] at h; cases h
    | fuel =>
      unfold evalRow at h; simp only [hr] at h; cases h

theorem evalRows_head_diag (ev : Evaluator S) (br : Tok S) (ri : Nat) (row : List (Expr S))
    (rows : List (List (Expr S))) (env : Env S) (d : Diag)
    (h : (evalRow ev br ri 0 row env).1 = .diag d) :
    (evalRows ev br ri (row :: rows) env).1 = .diag d := by
  unfold evalRows
  cases hr : evalRow ev br ri 0 row env with
  | mk r env1 =>
    rw [hr] at h
    simp only at h
    subst h
    rfl

theorem evalRows_head_ok (ev : Evaluator S) (br : Tok S) (ri : Nat) (row : List (Expr S))
    (rows : List (List (Expr S))) (env : Env S) (zs : List S)
    (h : (evalRow ev br ri 0 row env).1 = .ok zs) :
    (evalRows ev br ri (row :: rows) env).1 =
      (match (evalRows ev br (ri + 1) rows (evalRow ev br ri 0 row env).2).1 with
        | .ok zss => .ok (zs :: zss)
        | other => other) := by
  conv => lhs; unfold evalRows
  cases hr : evalRow ev br ri 0 row env with
  | mk r env1 =>
    rw [hr] at h
    simp only at h
    subst h
    simp only
    split <;> simp_all

/-- rows top to bottom: a diagnostic out of a matrix literal is the diagnostic of one row, and
    every row before it evaluated to numbers -/
theorem evalRows_first_failure (ev : Evaluator S) (hp : ∀ e env, (ev e env).env = env)
    (br : Tok S) (rows : List (List (Expr S))) (ri : Nat) (env : Env S) (d : Diag)
    (h : (evalRows ev br ri rows env).1 = .diag d) :
    ∃ pre row post, rows = pre ++ row :: post ∧
      (∀ k (hk : k < pre.length), ∃ zs, (evalRow ev br (ri + k) 0 pre[k] env).1 = .ok zs) ∧
      (evalRow ev br (ri + pre.length) 0 row env).1 = .diag d := by
  induction rows generalizing ri with
  | nil => cases h
  | cons row rows ih =>
    cases hr : (evalRow ev br ri 0 row env).1 with
    | ok zs =>
      rw [evalRows_head_ok ev br ri row rows env zs hr, evalRow_env ev hp] at h
      have h' : (evalRows ev br (ri + 1) rows env).1 = .diag d := by
        split at h
        · cases h
        · exact h
      obtain ⟨pre, x, post, rfl, hpre, hx⟩ := ih (ri + 1) h'
      refine ⟨row :: pre, x, post, rfl, ?_, ?_⟩
      · intro k hk
        cases k with
        | zero => exact ⟨zs, hr⟩
        | succ k =>
          obtain ⟨zs', hz⟩ := hpre k (by simpa using hk)
          refine ⟨zs', ?_⟩
          have : ri + (k + 1) = ri + 1 + k := by omega
          rw [this]
          exact hz
      · have : ri + (row :: pre).length = ri + 1 + pre.length := by
          rw [List.length_cons]; omega
        rw [this]
        exact hx
    | diag d' =>
      rw [evalRows_head_diag ev br ri row rows env d' hr] at h
      cases h
      exact ⟨[], row, rows, rfl, (by intro k hk; cases hk), hr⟩
    | panic s =>
      unfold evalRows at h
      cases hq : evalRow ev br ri 0 row env with
      | mk r e1 => rw [hq] at hr h; simp only at hr; subst hr; cases h
    | fuel =>
      unfold evalRows at h
      cases hq : evalRow ev br ri 0 row env with
      | mk r e1 => rw [hq] at hr h; simp only at hr; subst hr; cases h

/-! ### operators and calls -/

/-- left before right: if the left operand fails, that is the result (the right operand is
    not evaluated) -/
theorem eval_binary_left (fuel : Nat) (l r : Expr S) (op : Tok S) (env : Env S)
    (h : ∀ a, (eval fuel l env).res ≠ .ok a) :
    (eval (fuel + 1) (.binary l op r) env).res = (eval fuel l env).res := by
  simp only [eval]

theorem eval_binary_left_diag (fuel : Nat) (l r : Expr S) (op : Tok S) (env : Env S) (d : Diag)
    (h : (eval fuel l env).res = .diag d) :
    (eval (fuel + 1) (.binary l op r) env).res = .diag d := by
  rw [eval_binary_left fuel l r op env (by intro a ha; rw [h] at ha; cases ha), h]

/-- the left operand is a value and the right operand fails: the right failure is the result -/
theorem eval_binary_right (fuel : Nat) (l r : Expr S) (op : Tok S) (env : Env S) (a : Value S)
    (hl : (eval fuel l env).res = .ok a) (h : ∀ b, (eval fuel r env).res ≠ .ok b) :
    (eval (fuel + 1) (.binary l op r) env).res = (eval fuel r env).res := by
  simp only [eval, hl, eval_env]

/-- both operands are values: the node's own operation decides -/
theorem eval_binary_both (fuel : Nat) (l r : Expr S) (op : Tok S) (env : Env S) (a b : Value S)
    (hl : (eval fuel l env).res = .ok a) (hr : (eval fuel r env).res = .ok b) :
    (eval (fuel + 1) (.binary l op r) env).res = binop op a b := by
  simp only [eval, hl, eval_env, hr]

theorem eval_unary_operand (fuel : Nat) (x : Expr S) (op : Tok S) (env : Env S)
    (h : ∀ a, (eval fuel x env).res ≠ .ok a) :
    (eval (fuel + 1) (.unary op x) env).res = (eval fuel x env).res := by
  simp only [eval]

theorem eval_unary_ok (fuel : Nat) (x : Expr S) (op : Tok S) (env : Env S) (v : Value S)
    (h : (eval fuel x env).res = .ok v) :
    (eval (fuel + 1) (.unary op x) env).res = unop op v := by
  simp only [eval, h]

theorem eval_grouping_operand (fuel : Nat) (x : Expr S) (p : Tok S) (k : GKind) (env : Env S)
    (h : ∀ a, (eval fuel x env).res ≠ .ok a) :
    (eval (fuel + 1) (.grouping p k x) env).res = (eval fuel x env).res := by
  simp only [eval]

theorem eval_grouping_ok (fuel : Nat) (x : Expr S) (p : Tok S) (k : GKind) (env : Env S)
    (v : Value S) (h : (eval fuel x env).res = .ok v) :
    (eval (fuel + 1) (.grouping p k x) env).res = groupop p k v := by
  simp only [eval, h]

theorem eval_as_operand (fuel : Nat) (x : Expr S) (t : Tok S) (u : Unit) (env : Env S)
    (h : ∀ a, (eval fuel x env).res ≠ .ok a) :
    (eval (fuel + 1) (.as_ x t u) env).res = (eval fuel x env).res := by
  simp only [eval]

theorem eval_as_ok (fuel : Nat) (x : Expr S) (t : Tok S) (u : Unit) (env : Env S)
    (v : Value S) (h : (eval fuel x env).res = .ok v) :
    (eval (fuel + 1) (.as_ x t u) env).res = asop t u v := by
  simp only [eval, h]

/-- callee before arguments: if the callee fails, that is the result (no argument is evaluated) -/
theorem eval_call_callee (fuel : Nat) (c : Expr S) (p : Tok S) (args : List (Expr S))
    (env : Env S) (h : ∀ a, (eval fuel c env).res ≠ .ok a) :
    (eval (fuel + 1) (.call c p args) env).res = (eval fuel c env).res := by
  simp only [eval]
  split
  · next n hn => exact absurd hn (h _)
  · next fn hn => exact absurd hn (h _)
  · next v hn => exact absurd hn (h _)
  · rfl

/-- a callee that is a value but not a function is refused at the call's parenthesis, before
    any argument is evaluated -/
theorem eval_call_not_callable (fuel : Nat) (c : Expr S) (p : Tok S) (args : List (Expr S))
    (env : Env S) (v : Value S) (hv : (eval fuel c env).res = .ok v)
    (hn : ∀ n, v ≠ .native n) (hu : ∀ f, v ≠ .user f) :
    (eval (fuel + 1) (.call c p args) env).res = .diag ⟨.invalidCallable, p.line, p.col, []⟩ := by
  cases v with
  | native n => exact absurd rfl (hn n)
  | user f => exact absurd rfl (hu f)
  | _ => simp only [eval, hv]

/-- the callee is a function and the arguments fail: the arguments' failure is the result
    (the function is not entered) -/
theorem eval_call_args (fuel : Nat) (c : Expr S) (p : Tok S) (args : List (Expr S))
    (env : Env S) (v : Value S) (hv : (eval fuel c env).res = .ok v)
    (hf : (∃ n, v = .native n) ∨ (∃ f, v = .user f))
    (ha : ∀ vs, (evalList (eval fuel) args env).1 ≠ .ok vs) :
    (eval (fuel + 1) (.call c p args) env).res =
      (match (evalList (eval fuel) args env).1 with
        | .ok _ => .fuel | .diag d => .diag d | .panic s => .panic s | .fuel => .fuel) := by
  simp only [eval, hv, eval_env]
  rcases hf with ⟨n, rfl⟩ | ⟨f, rfl⟩
  · simp only
    cases hq : evalList (eval fuel) args env with
    | mk r e1 =>
      rw [hq] at ha
      cases r with
      | ok vs => exact absurd rfl (ha vs)
      | _ => rfl
  · simp only
    cases hq : evalList (eval fuel) args env with
    | mk r e1 =>
      rw [hq] at ha
      cases r with
      | ok vs => exact absurd rfl (ha vs)
      | _ => rfl

theorem eval_call_args_diag (fuel : Nat) (c : Expr S) (p : Tok S) (args : List (Expr S))
    (env : Env S) (v : Value S) (d : Diag) (hv : (eval fuel c env).res = .ok v)
    (hf : (∃ n, v = .native n) ∨ (∃ f, v = .user f))
    (ha : (evalList (eval fuel) args env).1 = .diag d) :
    (eval (fuel + 1) (.call c p args) env).res = .diag d := by
  rw [eval_call_args fuel c p args env v hv hf (by intro vs hvs; rw [ha] at hvs; cases hvs), ha]

theorem eval_call_native (fuel : Nat) (c : Expr S) (p : Tok S) (args : List (Expr S))
    (env : Env S) (n : Str) (vs : List (Value S)) (hv : (eval fuel c env).res = .ok (.native n))
    (ha : (evalList (eval fuel) args env).1 = .ok vs) :
    (eval (fuel + 1) (.call c p args) env).res = callNative n p.line p.col vs := by
  simp only [eval, hv, eval_env]
  cases hq : evalList (eval fuel) args env with
  | mk r e1 => rw [hq] at ha; simp only at ha; subst ha; rfl

theorem eval_call_user (fuel : Nat) (c : Expr S) (p : Tok S) (args : List (Expr S))
    (env : Env S) (f : UserFn S) (vs : List (Value S))
    (hv : (eval fuel c env).res = .ok (.user f))
    (ha : (evalList (eval fuel) args env).1 = .ok vs) :
    (eval (fuel + 1) (.call c p args) env).res = callUser (eval fuel) f p.line p.col vs env := by
  simp only [eval, hv, eval_env]
  have he := evalList_env (eval fuel) (eval_env fuel) args env
  cases hq : evalList (eval fuel) args env with
  | mk r e1 => rw [hq] at ha he; simp only at ha he; subst ha; subst he; rfl

/-- a matrix literal with at least one row: the rows' failure is the result -/
theorem eval_matrix_rows_diag (fuel : Nat) (br : Tok S) (row : List (Expr S))
    (rows : List (List (Expr S))) (env : Env S) (d : Diag)
    (h : (evalRows (eval fuel) br 0 (row :: rows) env).1 = .diag d) :
    (eval (fuel + 1) (.matrix br (row :: rows)) env).res = .diag d := by
  simp only [eval]
  cases hq : evalRows (eval fuel) br 0 (row :: rows) env with
  | mk r e1 => rw [hq] at h; simp only at h; subst h; rfl

theorem eval_matrix_rows_ok (fuel : Nat) (br : Tok S) (row : List (Expr S))
    (rows : List (List (Expr S))) (env : Env S) (zss : List (List S))
    (h : (evalRows (eval fuel) br 0 (row :: rows) env).1 = .ok zss) :
    (eval (fuel + 1) (.matrix br (row :: rows)) env).res =
      (Mat.fromRows zss).bind (fun m => .ok (.matrix m)) := by
  simp only [eval]
  cases hq : evalRows (eval fuel) br 0 (row :: rows) env with
  | mk r e1 => rw [hq] at h; simp only at h; subst h; rfl

end Calc
