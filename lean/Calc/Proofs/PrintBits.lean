/-
  Calc.Proofs.PrintBits — the hypothesis `Spec.FmtSpec` of the C15 theorems, discharged for
  binary64 at the level of BIT PATTERNS.

  The executable model prints the parts of a number with `Calc.Exec.fmtBits` applied to the bit
  pattern of a `Float` (Calc/Exec/Cx.lean: `fmtF x = (fmtBits x.toBits).toList`), and tests the
  parts with `== 0.0`, `== 1.0`, `== -1.0`, `< 0.0`, `Float.abs`.  Lean's `Float` is opaque to the
  kernel, so nothing is provable about that instance itself.  Here the same printer `fmtBits` and
  the IEEE-754 meaning of those five tests, spelled out on bit patterns, form a `Kernel` instance
  on pairs of patterns, and `FmtSpec` is proved of it outright:

    * `readBits (fmtBits b).toList = some b` for every canonical pattern `b` — positive and
      negative, normal and subnormal (through `FmtText.fmtBits_reads_back`), `±0`, `±inf`, NaN;
    * the text contains no blank and ends with a digit, `inf` or `NaN`.

  So `readComplex_complexToString` becomes an unconditional statement about the formatter that the
  correspondence streams compare byte for byte with Rust (Calc/Props/C15Bits.lean).
-/
import Calc.Proofs.FmtText
import Calc.Proofs.ScanBlank
import Calc.Proofs.AdjRemove
import Calc.Proofs.PrintComplex
import Calc.Proofs.PrintExample

namespace Calc.PrintBits
open Calc Calc.Spec Calc.Exec Calc.Proofs.DecimalRound Calc.Proofs.FmtText

/-! ## canonical binary64 patterns -/

/-- A binary64 pattern that is not a NaN (magnitude bits at most those of `inf`), or is the
    canonical quiet NaN `0x7FF8000000000000`.  Rust prints every NaN as `NaN`: the payload and the
    sign of a NaN are not in the text and cannot be read back, so the round trip is stated for one
    representative NaN.  Every non-NaN pattern is canonical. -/
def Canonical (b : UInt64) : Prop :=
  b &&& 0x7FFFFFFFFFFFFFFF ≤ 0x7FF0000000000000 ∨ b = 0x7FF8000000000000

instance (b : UInt64) : Decidable (Canonical b) := by unfold Canonical; infer_instance

/-- the canonical binary64 patterns -/
structure B64 where
  bits : UInt64
  canonical : Canonical bits

theorem B64.ext {a b : B64} (h : a.bits = b.bits) : a = b := by
  cases a; cases b; cases h; rfl

instance : DecidableEq B64 := fun a b =>
  decidable_of_iff (a.bits = b.bits) ⟨B64.ext, fun h => h ▸ rfl⟩

/-! ### bit-level facts -/

theorem mag_toNat (b : UInt64) : (b &&& 0x7FFFFFFFFFFFFFFF).toNat = b.toNat % 2 ^ 63 := by
  rw [UInt64.toNat_and]
  have : (0x7FFFFFFFFFFFFFFF : UInt64).toNat = 2 ^ 63 - 1 := by decide
  rw [this, Nat.and_two_pow_sub_one_eq_mod]

theorem shr63_toNat (b : UInt64) : (b >>> 63).toNat = b.toNat / 2 ^ 63 := by
  rw [UInt64.toNat_shiftRight, Nat.shiftRight_eq_div_pow]
  have e1 : (63 : UInt64).toNat % 64 = 63 := by decide
  rw [e1]

/-- the sign test of `fmtBits`: the top bit -/
theorem shr63_eq_one_iff (b : UInt64) : b >>> 63 = 1 ↔ 2 ^ 63 ≤ b.toNat := by
  have hb := b.toNat_lt
  have e2 : (1 : UInt64).toNat = 1 := by decide
  constructor
  · intro h
    have := congrArg UInt64.toNat h
    rw [shr63_toNat, e2] at this
    omega
  · intro h
    apply UInt64.toNat_inj.1
    rw [shr63_toNat, e2]
    omega

theorem nat_xor_sign (n : Nat) (hb : n < 2 ^ 64) :
    n ^^^ 2 ^ 63 = if n < 2 ^ 63 then n + 2 ^ 63 else n - 2 ^ 63 := by
  have h1 : (n ^^^ 2 ^ 63) % 2 ^ 63 = n % 2 ^ 63 := by
    rw [Nat.xor_mod_two_pow]; simp
  have h2 : (n ^^^ 2 ^ 63) / 2 ^ 63 = n / 2 ^ 63 ^^^ 1 := by
    rw [Nat.xor_div_two_pow]; simp
  have h3 : n / 2 ^ 63 = 0 ∨ n / 2 ^ 63 = 1 := by omega
  generalize n ^^^ 2 ^ 63 = x at *
  split
  · rcases h3 with h | h
    · rw [h] at h2; simp at h2; omega
    · omega
  · rcases h3 with h | h
    · omega
    · rw [h] at h2; simp at h2; omega

/-- flipping the top bit adds or subtracts `2^63` -/
theorem xor_sign_toNat (b : UInt64) :
    (b ^^^ 0x8000000000000000).toNat =
      if b.toNat < 2 ^ 63 then b.toNat + 2 ^ 63 else b.toNat - 2 ^ 63 := by
  rw [UInt64.toNat_xor]
  have hs : (0x8000000000000000 : UInt64).toNat = 2 ^ 63 := by decide
  rw [hs]
  exact nat_xor_sign _ b.toNat_lt

theorem nan_toNat : (0x7FF8000000000000 : UInt64).toNat = 2047 * 2 ^ 52 + 2 ^ 51 := by decide

theorem le_inf_iff (b : UInt64) : b ≤ 0x7FF0000000000000 ↔ b.toNat ≤ 2047 * 2 ^ 52 := by
  rw [UInt64.le_iff_toNat_le, inf_toNat]

/-- a pattern at most `inf` has the sign bit clear and is canonical -/
theorem canonical_of_le_inf {b : UInt64} (h : b ≤ 0x7FF0000000000000) : Canonical b := by
  left
  rw [le_inf_iff] at h
  rw [le_inf_iff, mag_toNat]
  omega

theorem mag_of_le_inf {b : UInt64} (h : b ≤ 0x7FF0000000000000) : b &&& 0x7FFFFFFFFFFFFFFF = b := by
  rw [le_inf_iff] at h
  apply UInt64.toNat_inj.1
  rw [mag_toNat]
  omega

theorem mag_mag (b : UInt64) :
    b &&& 0x7FFFFFFFFFFFFFFF &&& 0x7FFFFFFFFFFFFFFF = b &&& 0x7FFFFFFFFFFFFFFF := by
  apply UInt64.toNat_inj.1
  rw [mag_toNat, mag_toNat]
  omega

/-! ### the IEEE-754 reading of the kernel's tests, on patterns -/

/-- `x == 0.0`: the pattern is `+0` or `-0` (all bits but the sign are clear) -/
def isZeroBits (b : UInt64) : Bool := decide (b &&& 0x7FFFFFFFFFFFFFFF = 0)

/-- `x < 0.0`: the sign bit is set, and `x` is neither a zero (`-0 < 0` is false) nor a NaN
    (every comparison with a NaN is false) -/
def isNegBits (b : UInt64) : Bool :=
  decide (b >>> 63 = 1) && decide (b &&& 0x7FFFFFFFFFFFFFFF ≠ 0) &&
    decide (b &&& 0x7FFFFFFFFFFFFFFF ≤ 0x7FF0000000000000)

/-- `x.abs()`: clear the sign bit -/
def absBits (b : UInt64) : UInt64 := b &&& 0x7FFFFFFFFFFFFFFF

/-- `-x`: flip the sign bit; the NaN stays the canonical one -/
def negBits (b : UInt64) : UInt64 :=
  if b = 0x7FF8000000000000 then 0x7FF8000000000000 else b ^^^ 0x8000000000000000

theorem absBits_canonical {b : UInt64} (h : Canonical b) : Canonical (absBits b) := by
  unfold absBits
  rcases h with h | h
  · left; rw [mag_mag]; exact h
  · right; rw [h]; decide

theorem negBits_canonical {b : UInt64} (h : Canonical b) : Canonical (negBits b) := by
  unfold negBits
  split
  · right; rfl
  · rename_i hn
    rcases h with h | h
    · left
      rw [le_inf_iff, mag_toNat] at h
      rw [le_inf_iff, mag_toNat, xor_sign_toNat]
      have := b.toNat_lt
      split <;> omega
    · exact absurd h hn

instance : Zero B64 := ⟨⟨0, by decide⟩⟩
instance : One B64 := ⟨⟨0x3FF0000000000000, by decide⟩⟩
instance : Neg B64 := ⟨fun x => ⟨negBits x.bits, negBits_canonical x.canonical⟩⟩

/-- the canonical NaN and `+inf` -/
def B64.nan : B64 := ⟨0x7FF8000000000000, by decide⟩
def B64.inf : B64 := ⟨0x7FF0000000000000, by decide⟩

def B64.isZero (x : B64) : Bool := isZeroBits x.bits
def B64.isNeg (x : B64) : Bool := isNegBits x.bits
def B64.abs (x : B64) : B64 := ⟨absBits x.bits, absBits_canonical x.canonical⟩
/-- the printer of the executable model, on a canonical pattern -/
def B64.fmt (x : B64) : Str := (fmtBits x.bits).toList

@[simp] theorem zero_bits : (0 : B64).bits = 0 := rfl
@[simp] theorem one_bits : (1 : B64).bits = 0x3FF0000000000000 := rfl
@[simp] theorem neg_bits (x : B64) : (-x).bits = negBits x.bits := rfl

/-! ## the reader of one real -/

/-- the text after the optional sign: `NaN`, `inf`, or a decimal literal read with the project's
    `parseDecimal` (digits, optional fraction, optional exponent) and rounded to the nearest
    binary64 with `decimalToBits` (`f64::from_str`, proved correctly rounded in C04) -/
def readMag (t : Str) : Option B64 :=
  if t = ['N', 'a', 'N'] then some B64.nan
  else if t = ['i', 'n', 'f'] then some B64.inf
  else (parseDecimal t).map fun d =>
    ⟨decimalToBits d.mant d.exp, canonical_of_le_inf (decimalToBits_nonneg d.mant d.exp)⟩

/-- read the text of one real: an optional leading `-` (which flips the sign bit of what
    follows, so `-0` reads as the pattern of `-0` and `0` as that of `+0`), then `readMag` -/
def readBits : Str → Option B64
  | '-' :: t => (readMag t).map fun x => -x
  | t => readMag t

theorem readBits_minus (t : Str) : readBits ('-' :: t) = (readMag t).map fun x => -x := rfl

theorem readBits_of_head {t : Str} (h : t.head? ≠ some '-') : readBits t = readMag t := by
  unfold readBits
  split
  · simp at h
  · rfl

/-! ## what `fmtBits` prints -/

theorem fmtBits_nan : fmtBits 0x7FF8000000000000 = "NaN" := by decide +kernel
theorem fmtBits_inf : fmtBits 0x7FF0000000000000 = "inf" := by decide +kernel
theorem fmtBits_zero : fmtBits 0 = "0" := by decide +kernel

/-- a non-NaN pattern with the sign bit set prints as `-` followed by the text of its magnitude -/
theorem fmtBits_signed (b : UInt64) (hs : 2 ^ 63 ≤ b.toNat)
    (hm : b &&& 0x7FFFFFFFFFFFFFFF ≤ 0x7FF0000000000000) :
    (fmtBits b).toList = '-' :: (fmtBits (b &&& 0x7FFFFFFFFFFFFFFF)).toList := by
  have hneg : b >>> 63 = 1 := (shr63_eq_one_iff b).2 hs
  have hpos : ¬ ((b &&& 0x7FFFFFFFFFFFFFFF) >>> 63 = 1) := by
    rw [shr63_eq_one_iff, mag_toNat]; omega
  have hnn : ¬ (b &&& 0x7FFFFFFFFFFFFFFF > 0x7FF0000000000000) := UInt64.not_lt.2 hm
  unfold fmtBits
  simp only [mag_mag, hneg, hpos, if_true, if_false, if_neg hnn]
  split
  · rfl
  · split
    · rfl
    · simp [String.toList_append]

/-! ## reading a printed magnitude -/

theorem isBlank_space : isBlank ' ' = true := by decide

/-- the three properties of the text of a non-negative, non-NaN pattern: it reads back with
    `readMag`, does not start with `-`, has no blank, and ends like a real's text -/
theorem fmtBits_nonneg (b : UInt64) (h : b ≤ 0x7FF0000000000000) :
    readMag (fmtBits b).toList = some ⟨b, canonical_of_le_inf h⟩ ∧
    (fmtBits b).toList.head? ≠ some '-' ∧
    ' ' ∉ (fmtBits b).toList ∧
    realTextEnd (fmtBits b).toList = true := by
  by_cases hinf : b = 0x7FF0000000000000
  · subst hinf; rw [fmtBits_inf]
    have e : readMag "inf".toList = some B64.inf := by decide +kernel
    exact ⟨e, by decide, by decide, by decide⟩
  by_cases h0 : b = 0
  · subst h0; rw [fmtBits_zero]
    have e : readMag "0".toList = some 0 := by decide +kernel
    exact ⟨e, by decide, by decide, by decide⟩
  have hlt : b < 0x7FF0000000000000 := by
    rw [UInt64.lt_iff_toNat_lt]
    have := UInt64.le_iff_toNat_le.1 h
    have : b.toNat ≠ (0x7FF0000000000000 : UInt64).toNat := fun e => hinf (UInt64.toNat_inj.1 e)
    omega
  have hpos : 0 < b := by
    rw [UInt64.lt_iff_toNat_lt]
    have : b.toNat ≠ (0 : UInt64).toNat := fun e => h0 (UInt64.toNat_inj.1 e)
    have e : (0 : UInt64).toNat = 0 := rfl
    omega
  obtain ⟨d, hp, hd⟩ := fmtBits_reads_back b hpos hlt
  have hv : NumberVal (fmtBits b).toList d := parseDecimal_iff.1 hp
  obtain ⟨c, t', ht, hc⟩ := hv.head
  obtain ⟨t'', c', ht', hc'⟩ := hv.last_digit
  have hcne : ∀ x : Char, isDigit x = false → c ≠ x := by
    intro x hx e; rw [e, hx] at hc; cases hc
  refine ⟨?_, ?_, ?_, ?_⟩
  · unfold readMag
    rw [if_neg (by rw [ht]; intro e; injection e with e _; exact hcne 'N' (by decide) e),
      if_neg (by rw [ht]; intro e; injection e with e _; exact hcne 'i' (by decide) e), hp]
    simp only [Option.map_some, hd]
  · rw [ht]
    intro e
    simp only [List.head?_cons, Option.some.injEq] at e
    exact hcne '-' (by decide) e
  · intro hm
    have := hv.no_blank ' ' hm
    rw [isBlank_space] at this; cases this
  · exact PrintExample.realTextEnd_of_last_digit (s := (fmtBits b).toList) (c := c')
      (by rw [ht']; simp) hc'

/-! ## every canonical pattern -/

/-- the cases of a canonical pattern: the NaN, sign clear (at most `inf`), or sign set with a
    magnitude at most `inf` -/
theorem canonical_cases {b : UInt64} (h : Canonical b) :
    b = 0x7FF8000000000000 ∨ b ≤ 0x7FF0000000000000 ∨
      (2 ^ 63 ≤ b.toNat ∧ b &&& 0x7FFFFFFFFFFFFFFF ≤ 0x7FF0000000000000) := by
  rcases h with h | h
  · by_cases hs : 2 ^ 63 ≤ b.toNat
    · exact Or.inr (Or.inr ⟨hs, h⟩)
    · refine Or.inr (Or.inl ?_)
      rw [le_inf_iff, mag_toNat] at h
      rw [le_inf_iff]
      omega
  · exact Or.inl h

/-- negating the magnitude of a negative non-NaN pattern gives the pattern back -/
theorem negBits_mag (b : UInt64) (hs : 2 ^ 63 ≤ b.toNat)
    (hm : b &&& 0x7FFFFFFFFFFFFFFF ≤ 0x7FF0000000000000) :
    negBits (b &&& 0x7FFFFFFFFFFFFFFF) = b := by
  have hb := b.toNat_lt
  rw [le_inf_iff, mag_toNat] at hm
  unfold negBits
  rw [if_neg]
  · apply UInt64.toNat_inj.1
    rw [xor_sign_toNat, mag_toNat]
    split <;> omega
  · intro e
    have := congrArg UInt64.toNat e
    rw [mag_toNat, nan_toNat] at this
    omega

/-- **the reader of reals inverts `fmtBits`** on every canonical pattern: positive and negative,
    normal and subnormal, `±0`, `±inf`, and the NaN -/
theorem readBits_fmt (x : B64) : readBits x.fmt = some x := by
  obtain ⟨b, hb⟩ := x
  unfold B64.fmt
  simp only []
  rcases canonical_cases hb with h | h | ⟨hs, hm⟩
  · subst h; rw [fmtBits_nan]
    have e : readBits "NaN".toList = some B64.nan := by decide +kernel
    exact e
  · obtain ⟨h1, h2, -, -⟩ := fmtBits_nonneg b h
    rw [readBits_of_head h2, h1]
  · obtain ⟨h1, -, -, -⟩ := fmtBits_nonneg _ (mag_of_le_inf hm ▸ hm : b &&& 0x7FFFFFFFFFFFFFFF ≤ _)
    rw [fmtBits_signed b hs hm, readBits_minus, h1]
    simp only [Option.map_some, Option.some.injEq]
    exact B64.ext (negBits_mag b hs hm)

/-- a printed real contains no blank -/
theorem fmt_noblank (x : B64) : ' ' ∉ x.fmt := by
  obtain ⟨b, hb⟩ := x
  unfold B64.fmt
  simp only []
  rcases canonical_cases hb with h | h | ⟨hs, hm⟩
  · subst h; rw [fmtBits_nan]; decide
  · exact (fmtBits_nonneg b h).2.2.1
  · rw [fmtBits_signed b hs hm]
    intro hmem
    rcases List.mem_cons.1 hmem with e | e
    · revert e; decide
    · exact (fmtBits_nonneg _ (mag_of_le_inf hm ▸ hm : b &&& 0x7FFFFFFFFFFFFFFF ≤ _)).2.2.1 e

theorem realTextEnd_cons (c : Char) {s : Str} (h : realTextEnd s = true) :
    realTextEnd (c :: s) = true := by
  unfold realTextEnd at *
  rw [List.reverse_cons]
  unfold realEndRev at h
  split at h
  · rename_i e; rw [e]; rfl
  · rename_i e; rw [e]; rfl
  · rename_i d r _ _ e
    rw [e]
    show realEndRev (d :: (r ++ [c])) = true
    unfold realEndRev
    split
    · rfl
    · rfl
    · rename_i e'; simp only [List.cons.injEq] at e'; rw [← e'.1]; exact h
    · rename_i e'; cases e'
  · cases h

/-- a printed real ends with a digit, `inf` or `NaN` -/
theorem fmt_end (x : B64) : realTextEnd x.fmt = true := by
  obtain ⟨b, hb⟩ := x
  unfold B64.fmt
  simp only []
  rcases canonical_cases hb with h | h | ⟨hs, hm⟩
  · subst h; rw [fmtBits_nan]; decide
  · exact (fmtBits_nonneg b h).2.2.2
  · rw [fmtBits_signed b hs hm]
    exact realTextEnd_cons _
      (fmtBits_nonneg _ (mag_of_le_inf hm ▸ hm : b &&& 0x7FFFFFFFFFFFFFFF ≤ _)).2.2.2

/-- a negative real is the negation of its absolute value -/
theorem neg_abs (x : B64) (h : x.isNeg = true) : -(x.abs) = x := by
  obtain ⟨b, hb⟩ := x
  unfold B64.isNeg isNegBits at h
  simp only [Bool.and_eq_true, decide_eq_true_eq] at h
  obtain ⟨⟨h1, -⟩, h3⟩ := h
  exact B64.ext (negBits_mag b ((shr63_eq_one_iff b).1 h1) h3)

/-! ## the printing kernel on pairs of patterns -/

/-- a complex number as the pair of the canonical binary64 patterns of its parts -/
structure CxBits where
  re : B64
  im : B64

instance : DecidableEq CxBits := fun a b =>
  decidable_of_iff (a.re = b.re ∧ a.im = b.im)
    ⟨fun h => by cases a; cases b; cases h.1; cases h.2; rfl, fun h => h ▸ ⟨rfl, rfl⟩⟩

/-- The PRINTING kernel on pairs of patterns.  Its printing-related methods — the only ones
    `complexToString` uses — are those of the executable `Float` instance (Calc/Exec/Cx.lean)
    with the `Float` operations replaced by their IEEE-754 meaning on bit patterns:

      reIsZero z    `z.re == 0.0`     the pattern of `z.re` is `+0` or `-0`
      imIsZero z    `z.im == 0.0`     likewise
      imIsOne z     `z.im == 1.0`     the pattern is `0x3FF0000000000000`
      imIsNegOne z  `z.im == -1.0`    the pattern is `0xBFF0000000000000`
      imIsNeg z     `z.im < 0.0`      sign bit set, not a zero, not a NaN
      fmtRe z       `fmtBits` of the pattern of `z.re`
      fmtIm z       `fmtBits` of the pattern of `z.im`
      fmtAbsIm z    `fmtBits` of the pattern of `z.im` with the sign bit cleared

    This instance exists ONLY to state the printing theorem.  Every other method (arithmetic,
    `sin`, `sqrt`, `ofDecimal`, …) is an arbitrary total placeholder; NO arithmetic fact is
    claimed of it, and it occurs in no theorem other than those about printed text. -/
instance kernel : Kernel CxBits where
  negOne := ⟨-1, 0⟩
  i := ⟨0, 1⟩
  inf := ⟨B64.inf, 0⟩
  ofNat _ := ⟨0, 0⟩
  ofDecimal _ _ := ⟨0, 0⟩
  ofRatio _ _ := ⟨0, 0⟩
  ofBits _ _ := ⟨0, 0⟩
  eq a b := decide (a = b)
  normIsZero z := z.re.isZero && z.im.isZero
  reIsZero z := z.re.isZero
  imIsZero z := z.im.isZero
  imIsOne z := decide (z.im = 1)
  imIsNegOne z := decide (z.im = -1)
  imIsNeg z := z.im.isNeg
  reFractIsZero _ := true
  reNonneg _ := true
  rePos _ := true
  reToNat _ := 0
  mulRe z _ := z
  powc z _ := z
  rem z _ := z
  sqrt z := z
  norm z := z
  normSqr z := z
  ceilRe z := z
  floorRe z := z
  fmtRe z := z.re.fmt
  fmtIm z := z.im.fmt
  fmtAbsIm z := z.im.abs.fmt
  sin z := z
  cos z := z
  tan z := z
  asin z := z
  acos z := z
  atan z := z
  sinh z := z
  cosh z := z
  tanh z := z
  asinh z := z
  acosh z := z
  atanh z := z
  reS z := z
  imS z := z
  argS z := z
  conj z := z
  ln z := z
  log2 z := z
  log10 z := z
  logBase _ z := z
  gcd z _ := z
  lcm z _ := z

/-- **`FmtSpec` holds of binary64 patterns printed with `fmtBits`** — every field proved, no
    hypothesis left. -/
def fmtSpecBits : FmtSpec CxBits B64 where
  re z := z.re
  im z := z.im
  fmt := B64.fmt
  read := readBits
  isZero := B64.isZero
  isNeg := B64.isNeg
  abs := B64.abs
  reIsZero_eq _ := rfl
  imIsZero_eq _ := rfl
  imIsOne_iff z := by show decide (z.im = 1) = true ↔ z.im = 1; simp
  imIsNegOne_iff z := by show decide (z.im = -1) = true ↔ z.im = -1; simp
  imIsNeg_eq _ := rfl
  fmtRe_eq _ := rfl
  fmtIm_eq _ := rfl
  fmtAbsIm_eq _ := rfl
  isZero_zero := by decide
  read_zero := by decide +kernel
  neg_abs := neg_abs
  read_fmt := readBits_fmt
  fmt_noblank := fmt_noblank
  fmt_end := fmt_end

/-! ## the sharper form: an unprinted part reads as `+0` -/

section Sharp
variable {S R : Type} [Kernel S] [Zero R] [One R] [Neg R]

/-- `readComplex_complexToString` with the part that is not printed pinned down: what is read
    for it is the `0` of `R` itself (same proof, the conclusion keeps `a = 0` instead of
    `isZero a`). -/
theorem readComplex_complexToString_zero (F : FmtSpec S R) (z : S) :
    ∃ a b, readComplex F.read (complexToString z) = some (a, b) ∧
      (a = F.re z ∨ (a = 0 ∧ F.isZero (F.re z) = true)) ∧
      (b = F.im z ∨ (b = 0 ∧ F.isZero (F.im z) = true)) := by
  unfold complexToString
  simp only [F.fmtRe_eq, F.fmtIm_eq, F.fmtAbsIm_eq, F.reIsZero_eq, F.imIsZero_eq, F.imIsNeg_eq]
  cases hre : F.isZero (F.re z) <;> cases him : F.isZero (F.im z) <;>
    simp only [Bool.not_true, Bool.not_false, Bool.and_true, Bool.and_false,
      if_true, if_false, Bool.false_eq_true]
  · -- both parts
    by_cases h1 : Kernel.imIsOne z = true
    · rw [if_pos h1]
      refine ⟨F.re z, 1, ?_, Or.inl rfl, Or.inl ((F.imIsOne_iff z).1 h1).symm⟩
      have := readComplex_plus F (F.re z) ['i'] 1 (readImag_i _)
      simpa [str_plus] using this
    rw [if_neg h1]
    by_cases h2 : Kernel.imIsNegOne z = true
    · rw [if_pos h2]
      refine ⟨F.re z, -1, ?_, Or.inl rfl, Or.inl ((F.imIsNegOne_iff z).1 h2).symm⟩
      have := readComplex_minus F (F.re z) ['i'] 1 (readImag_i _)
      simpa [str_minus] using this
    rw [if_neg h2]
    cases h3 : F.isNeg (F.im z)
    · simp only [Bool.false_eq_true, if_false]
      refine ⟨F.re z, F.im z, ?_, Or.inl rfl, Or.inl rfl⟩
      rw [List.append_assoc (F.fmt _ ++ _)]
      exact readComplex_plus F _ _ _ (readImag_fmt F _)
    · simp only [if_true]
      refine ⟨F.re z, F.im z, ?_, Or.inl rfl, Or.inl rfl⟩
      rw [List.append_assoc (F.fmt _ ++ _)]
      have := readComplex_minus F (F.re z) _ _ (readImag_fmt F (F.abs (F.im z)))
      rw [F.neg_abs _ h3] at this
      exact this
  · -- real part only
    refine ⟨F.re z, 0, ?_, Or.inl rfl, Or.inr ⟨rfl, trivial⟩⟩
    rw [readComplex_word F _ (F.fmt_noblank _)]
    exact readWord_real F _
  · -- imaginary part only
    by_cases h1 : Kernel.imIsOne z = true
    · rw [if_pos h1]
      exact ⟨0, 1, by simp [readComplex, readWord], Or.inr ⟨rfl, trivial⟩,
        Or.inl ((F.imIsOne_iff z).1 h1).symm⟩
    rw [if_neg h1]
    by_cases h2 : Kernel.imIsNegOne z = true
    · rw [if_pos h2]
      exact ⟨0, -1, by simp [readComplex, readWord], Or.inr ⟨rfl, trivial⟩,
        Or.inl ((F.imIsNegOne_iff z).1 h2).symm⟩
    rw [if_neg h2]
    refine ⟨0, F.im z, ?_, Or.inr ⟨rfl, trivial⟩, Or.inl rfl⟩
    have hnb : ' ' ∉ F.fmt (F.im z) ++ ['i'] := by
      simp only [List.mem_append, List.mem_singleton, not_or]
      exact ⟨F.fmt_noblank _, by decide⟩
    rw [readComplex_word F _ hnb]
    exact readWord_imag F _
  · -- neither part
    by_cases h1 : Kernel.imIsOne z = true
    · rw [if_pos h1]
      exact ⟨0, 1, by simp [readComplex, readWord], Or.inr ⟨rfl, trivial⟩,
        Or.inl ((F.imIsOne_iff z).1 h1).symm⟩
    rw [if_neg h1]
    by_cases h2 : Kernel.imIsNegOne z = true
    · rw [if_pos h2]
      exact ⟨0, -1, by simp [readComplex, readWord], Or.inr ⟨rfl, trivial⟩,
        Or.inl ((F.imIsNegOne_iff z).1 h2).symm⟩
    rw [if_neg h2]
    exact ⟨0, 0, by simp [readComplex, readWord, F.read_zero], Or.inr ⟨rfl, trivial⟩, Or.inr ⟨rfl, trivial⟩⟩

end Sharp

/-- the only patterns that pass the zero test are `+0` and `-0` -/
theorem isZero_iff (x : B64) : x.isZero = true ↔ x.bits = 0 ∨ x.bits = 0x8000000000000000 := by
  unfold B64.isZero isZeroBits
  rw [decide_eq_true_eq]
  have hb := x.bits.toNat_lt
  have e0 : (0 : UInt64).toNat = 0 := rfl
  have es : (0x8000000000000000 : UInt64).toNat = 2 ^ 63 := by decide
  constructor
  · intro h
    have := congrArg UInt64.toNat h
    rw [mag_toNat, e0] at this
    by_cases hs : x.bits.toNat < 2 ^ 63
    · left; apply UInt64.toNat_inj.1; rw [e0]; omega
    · right; apply UInt64.toNat_inj.1; rw [es]; omega
  · rintro (h | h) <;> rw [h] <;> decide

/-- **exact round trip**: when neither part of `z` is the pattern of `-0`, the printed text reads
    back as exactly the pair of patterns of `z` -/
theorem readComplex_bits_exact (z : CxBits) (hre : z.re.bits ≠ 0x8000000000000000)
    (him : z.im.bits ≠ 0x8000000000000000) :
    readComplex readBits (complexToString z) = some (z.re, z.im) := by
  obtain ⟨a, b, h, ha, hb⟩ := readComplex_complexToString_zero fmtSpecBits z
  change readComplex readBits (complexToString z) = some (a, b) at h
  change a = z.re ∨ (a = 0 ∧ z.re.isZero = true) at ha
  change b = z.im ∨ (b = 0 ∧ z.im.isZero = true) at hb
  have key : ∀ (a x : B64), x.bits ≠ 0x8000000000000000 →
      (a = x ∨ (a = 0 ∧ x.isZero = true)) → a = x := by
    rintro a x hx (h | ⟨h0, hz⟩)
    · exact h
    · rcases (isZero_iff x).1 hz with h' | h'
      · rw [h0]; exact B64.ext h'.symm
      · exact absurd h' hx
  rw [h, key a z.re hre ha, key b z.im him hb]

end Calc.PrintBits
