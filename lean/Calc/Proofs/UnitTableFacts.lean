/-
  Calc.Proofs.UnitTableFacts — the two facts about the generated unit table that the unit
  theorems take as hypotheses (`FactorsNonzero`, `BaseFactorsOne`) hold for the table as shipped,
  over every lawful kernel: each bit pattern is read as the exact rational it denotes and
  compared by kernel evaluation.  Re-checked whenever the table is regenerated.
-/
import Calc.Proofs.UnitAlgebra

namespace Calc

set_option linter.unusedSectionVars false

variable {K : Type} [Field K] [CharZero K] [Kernel K] [LawfulKernel K]

theorem bitsToRat_one : bitsToRat 0x3ff0000000000000 = 1 := by decide +kernel

/-- meter, kilogram and byte have factor exactly one -/
theorem baseFactorsOne : BaseFactorsOne K := by
  intro u h
  have : (perBase (baseUnit u) : K) = Kernel.ofBits 0x3ff0000000000000 0 := by
    cases u <;> first | rfl | exact absurd rfl h
  rw [this, LawfulKernel.ofBits_real, bitsToRat_one, Rat.cast_one]

/-- all 45 non-temperature factors are non-zero -/
theorem factorsNonzero : FactorsNonzero K := by
  intro u h
  unfold perBase
  rw [LawfulKernel.ofBits_real, Rat.cast_ne_zero]
  cases u with
  | temperature t => exact absurd rfl h
  | distance d => cases d <;> decide +kernel
  | mass d => cases d <;> decide +kernel
  | storage d => cases d <;> decide +kernel

end Calc
