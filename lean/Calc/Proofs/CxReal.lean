/-
  Calc.Proofs.CxReal — the formulas of num-complex (Calc/Model/CxGeneric.lean, the SAME text that
  the driver executes at `Float` against the Rust) instantiated at Mathlib's reals, and the proofs
  that at this instance every formula computes the mathematical function it is named after.

  `RealOps ℝ`:  `sqrt exp log sin cos sinh cosh` are Mathlib's real functions,
  `atan2 y x = Complex.arg ⟨x, y⟩`, `hypot x y = √(x² + y²)`, `fmod1 x = x − trunc x`.
  What ℝ does NOT have, and what the IEEE tests therefore are at this instance:
    * no infinities, no NaN: `isInfinite = false`, `isNaN = false`, `isFinite = true`; the constants
      `inf` and `nan` are junk (`0`) — the branches of `exp`, `atan`, `atanh` that produce them are
      excluded by hypothesis (`atan` at `±i`, `atanh` at `±1`: poles of the functions) or are dead
      (`exp`);
    * no negative zero: `signPos x = (0 ≤ x)`.  The one place where num-complex looks at the sign of
      a ZERO is `sqrt` of a negative real `(re < 0, im = ±0)`: `+0` gives `+i√(−re)`, `−0` gives
      `−i√(−re)`.  In ℝ the zero imaginary part is "+0", so what is proved is the `+0` case, which
      is the principal root `z ^ (1/2)` (continuous from above on the cut).  The `−0` case is the
      conjugate, the limit from below; it has no counterpart in ℂ.
  Mathlib's conventions `x / 0 = 0`, `Real.log 0 = 0`, `Complex.log 0 = 0`, `Complex.arg 0 = 0`
  make several equalities hold also at the singular point (`div` by `0`, `ln 0`, `tan` at a zero of
  `cos`); there they carry no information about the floats (which give `NaN`/`±inf`).
-/
import Mathlib.Analysis.SpecialFunctions.Pow.Complex
import Mathlib.Analysis.SpecialFunctions.Complex.Log
import Mathlib.Analysis.SpecialFunctions.Complex.Arg
import Mathlib.Analysis.SpecialFunctions.Trigonometric.Basic
import Mathlib.Analysis.SpecialFunctions.Exp
import Mathlib.Analysis.Complex.Trigonometric
import Mathlib.Analysis.Complex.Norm
import Mathlib.Analysis.Real.Sqrt
import Mathlib.Data.Complex.Basic
import Calc.Model.CxGeneric
import Calc.Proofs.ComplexKernel

namespace Calc
open Complex

open Classical in
/-- Mathlib's reals as the real type of num-complex's formulas -/
noncomputable instance instRealOpsReal : RealOps ℝ where
  toAdd := inferInstance
  toSub := inferInstance
  toMul := inferInstance
  toDiv := inferInstance
  toNeg := inferInstance
  zero := 0
  one := 1
  two := 2
  inf := 0
  nan := 0
  ln2 := Real.log 2
  ln10 := Real.log 10
  sqrt := Real.sqrt
  exp := Real.exp
  log := Real.log
  sin := Real.sin
  cos := Real.cos
  sinh := Real.sinh
  cosh := Real.cosh
  atan2 y x := Complex.arg ⟨x, y⟩
  hypot x y := Real.sqrt (x ^ 2 + y ^ 2)
  abs x := |x|
  fmod1 x := x - (truncR x : ℝ)
  isZero x := decide (x = 0)
  signPos x := decide (0 ≤ x)
  isInfinite _ := false
  isFinite _ := true
  isNaN _ := false
  lt x y := decide (x < y)
  beq x y := decide (x = y)

/-- a pair of reals read as a complex number -/
def toC (z : CxOf ℝ) : ℂ := ⟨z.re, z.im⟩

@[simp] theorem toC_re (z : CxOf ℝ) : (toC z).re = z.re := rfl
@[simp] theorem toC_im (z : CxOf ℝ) : (toC z).im = z.im := rfl
theorem toC_mk (x y : ℝ) : toC ⟨x, y⟩ = ⟨x, y⟩ := rfl

/-- `toC` is a bijection: every complex number is `toC` of its parts -/
theorem toC_surj (w : ℂ) : toC ⟨w.re, w.im⟩ = w := rfl
theorem toC_inj {a b : CxOf ℝ} (h : toC a = toC b) : a = b := by
  cases a; cases b
  simp only [toC, Complex.mk.injEq] at h
  obtain ⟨h1, h2⟩ := h
  subst h1; subst h2; rfl

namespace CxReal

/-! ### constants -/

theorem toC_zero : toC (CxOf.zero) = 0 := rfl
theorem toC_zero' : toC (0 : CxOf ℝ) = 0 := rfl
theorem toC_one : toC (CxOf.one) = 1 := rfl
theorem toC_one' : toC (1 : CxOf ℝ) = 1 := rfl
theorem toC_two : toC (CxOf.two) = 2 := by
  apply Complex.ext <;> simp [CxOf.two, RealOps.two, RealOps.zero]
theorem toC_I : toC (CxOf.I) = I := rfl

/-! ### field operations -/

theorem toC_add (a b : CxOf ℝ) : toC (CxOf.add a b) = toC a + toC b := rfl
theorem toC_sub (a b : CxOf ℝ) : toC (CxOf.sub a b) = toC a - toC b := by
  apply Complex.ext <;> simp [CxOf.sub]
theorem toC_neg (a : CxOf ℝ) : toC (CxOf.neg a) = -toC a := rfl
theorem toC_mul (a b : CxOf ℝ) : toC (CxOf.mul a b) = toC a * toC b := by
  apply Complex.ext <;> simp [CxOf.mul]
theorem toC_conj (a : CxOf ℝ) : toC (CxOf.conj a) = starRingEnd ℂ (toC a) := rfl

/-- holds also for `toC b = 0` (both sides are `0` by Mathlib's `x / 0 = 0`) -/
theorem toC_div (a b : CxOf ℝ) : toC (CxOf.div a b) = toC a / toC b := by
  apply Complex.ext
  · simp only [CxOf.div, toC_re, Complex.div_re, Complex.normSq_apply, toC_im]
    ring
  · simp only [CxOf.div, toC_re, Complex.div_im, Complex.normSq_apply, toC_im]
    ring

theorem toC_unscale (a : CxOf ℝ) (t : ℝ) : toC (CxOf.unscale a t) = toC a / (t : ℂ) := by
  apply Complex.ext
  · simp only [CxOf.unscale, toC_re, Complex.div_ofReal_re]
  · simp only [CxOf.unscale, toC_im, Complex.div_ofReal_im]

/-- the operators of `CxOf ℝ` -/
theorem toC_hadd (a b : CxOf ℝ) : toC (a + b) = toC a + toC b := toC_add a b
theorem toC_hsub (a b : CxOf ℝ) : toC (a - b) = toC a - toC b := toC_sub a b
theorem toC_hmul (a b : CxOf ℝ) : toC (a * b) = toC a * toC b := toC_mul a b
theorem toC_hdiv (a b : CxOf ℝ) : toC (a / b) = toC a / toC b := toC_div a b
theorem toC_hneg (a : CxOf ℝ) : toC (-a) = -toC a := toC_neg a

/-! ### the tests -/

theorem beq_iff (a b : CxOf ℝ) : CxOf.beq a b = true ↔ toC a = toC b := by
  simp only [CxOf.beq, RealOps.beq, Bool.and_eq_true, decide_eq_true_eq, Complex.ext_iff, toC_re,
    toC_im]
theorem isZero_iff (a : CxOf ℝ) : CxOf.isZero a = true ↔ toC a = 0 := by
  simp only [CxOf.isZero, RealOps.isZero, Bool.and_eq_true, decide_eq_true_eq, Complex.ext_iff,
    toC_re, toC_im, Complex.zero_re, Complex.zero_im]

/-! ### norm, arg, polar form -/

theorem norm_eq (a : CxOf ℝ) : CxOf.norm a = ‖toC a‖ := by
  simp only [CxOf.norm, RealOps.hypot, Complex.norm_def, Complex.normSq_apply, toC_re, toC_im, sq]

theorem arg_eq (a : CxOf ℝ) : CxOf.arg a = Complex.arg (toC a) := rfl

theorem toC_fromPolar (r t : ℝ) :
    toC (CxOf.fromPolar r t) = (r : ℂ) * (Complex.cos t + Complex.sin t * I) := by
  apply Complex.ext
  · simp [CxOf.fromPolar, RealOps.cos, RealOps.sin, ← Complex.ofReal_cos, ← Complex.ofReal_sin]
  · simp [CxOf.fromPolar, RealOps.cos, RealOps.sin, ← Complex.ofReal_cos, ← Complex.ofReal_sin]

/-! ### exp, ln -/

/-- in ℝ the corner cases of num-complex's `exp` (infinite or NaN real part) are dead -/
theorem exp_eq_fromPolar (a : CxOf ℝ) : CxOf.exp a = CxOf.fromPolar (Real.exp a.re) a.im := rfl

theorem toC_exp (a : CxOf ℝ) : toC (CxOf.exp a) = Complex.exp (toC a) := by
  rw [exp_eq_fromPolar, toC_fromPolar, Complex.exp_eq_exp_re_mul_sin_add_cos (toC a)]
  simp [Complex.ofReal_exp]

/-- holds also for `toC a = 0` (`Real.log 0 = 0`, `arg 0 = 0`, `Complex.log 0 = 0`) -/
theorem toC_ln (a : CxOf ℝ) : toC (CxOf.ln a) = Complex.log (toC a) := by
  apply Complex.ext
  · simp only [CxOf.ln, toC_re, Complex.log_re, norm_eq]; rfl
  · simp only [CxOf.ln, toC_im, Complex.log_im, arg_eq]

/-! ### trigonometric and hyperbolic functions -/

theorem toC_sin (a : CxOf ℝ) : toC (CxOf.sin a) = Complex.sin (toC a) := by
  rw [Complex.sin_eq (toC a)]
  apply Complex.ext <;>
    simp [CxOf.sin, RealOps.sin, RealOps.cos, RealOps.sinh, RealOps.cosh, ← Complex.ofReal_sin,
      ← Complex.ofReal_cos, ← Complex.ofReal_sinh, ← Complex.ofReal_cosh]

theorem toC_cos (a : CxOf ℝ) : toC (CxOf.cos a) = Complex.cos (toC a) := by
  rw [Complex.cos_eq (toC a)]
  apply Complex.ext <;>
    simp [CxOf.cos, RealOps.sin, RealOps.cos, RealOps.sinh, RealOps.cosh, ← Complex.ofReal_sin,
      ← Complex.ofReal_cos, ← Complex.ofReal_sinh, ← Complex.ofReal_cosh]

theorem toC_sinh (a : CxOf ℝ) : toC (CxOf.sinh a) = Complex.sinh (toC a) := by
  conv_rhs => rw [← Complex.re_add_im (toC a), Complex.sinh_add, Complex.sinh_mul_I,
    Complex.cosh_mul_I]
  apply Complex.ext <;>
    simp [CxOf.sinh, RealOps.sin, RealOps.cos, RealOps.sinh, RealOps.cosh, ← Complex.ofReal_sin,
      ← Complex.ofReal_cos, ← Complex.ofReal_sinh, ← Complex.ofReal_cosh]

theorem toC_cosh (a : CxOf ℝ) : toC (CxOf.cosh a) = Complex.cosh (toC a) := by
  conv_rhs => rw [← Complex.re_add_im (toC a), Complex.cosh_add, Complex.sinh_mul_I,
    Complex.cosh_mul_I]
  apply Complex.ext <;>
    simp [CxOf.cosh, RealOps.sin, RealOps.cos, RealOps.sinh, RealOps.cosh, ← Complex.ofReal_sin,
      ← Complex.ofReal_cos, ← Complex.ofReal_sinh, ← Complex.ofReal_cosh]

/-- num-complex's `tan` (double-angle form) is the quotient of its `sin` and `cos`, as pairs of
    reals -/
theorem tan_eq_div (a : CxOf ℝ) : CxOf.tan a = CxOf.div (CxOf.sin a) (CxOf.cos a) := by
  obtain ⟨x, y⟩ := a
  have h1 := Real.sin_sq_add_cos_sq x
  have h2 := Real.cosh_sq y
  have hD : Real.cos (x + x) + Real.cosh (y + y)
      = 2 * (Real.cos x * Real.cosh y * (Real.cos x * Real.cosh y)
          + -Real.sin x * Real.sinh y * (-Real.sin x * Real.sinh y)) := by
    rw [← two_mul, ← two_mul, Real.cos_two_mul, Real.cosh_two_mul]
    nlinarith [h1, h2]
  have hre : Real.sin (x + x)
      = 2 * (Real.sin x * Real.cosh y * (Real.cos x * Real.cosh y)
          + Real.cos x * Real.sinh y * (-Real.sin x * Real.sinh y)) := by
    rw [← two_mul, Real.sin_two_mul]
    linear_combination (-(2 * Real.sin x * Real.cos x)) * h2
  have him : Real.sinh (y + y)
      = 2 * (Real.cos x * Real.sinh y * (Real.cos x * Real.cosh y)
          - Real.sin x * Real.cosh y * (-Real.sin x * Real.sinh y)) := by
    rw [← two_mul, Real.sinh_two_mul]
    linear_combination (-(2 * Real.sinh y * Real.cosh y)) * h1
  show (⟨Real.sin (x + x) / (Real.cos (x + x) + Real.cosh (y + y)),
         Real.sinh (y + y) / (Real.cos (x + x) + Real.cosh (y + y))⟩ : CxOf ℝ) = ⟨_, _⟩
  rw [hD, hre, him]
  simp only [CxOf.sin, CxOf.cos, RealOps.sin, RealOps.cos, RealOps.sinh, RealOps.cosh]
  rw [mul_div_mul_left _ _ (two_ne_zero), mul_div_mul_left _ _ (two_ne_zero)]

/-- holds also where `cos (toC a) = 0` (both sides are `0` by `x / 0 = 0`) -/
theorem toC_tan (a : CxOf ℝ) : toC (CxOf.tan a) = Complex.tan (toC a) := by
  rw [tan_eq_div, toC_div, toC_sin, toC_cos, Complex.tan_eq_sin_div_cos]

theorem tanh_eq_div (a : CxOf ℝ) : CxOf.tanh a = CxOf.div (CxOf.sinh a) (CxOf.cosh a) := by
  obtain ⟨x, y⟩ := a
  have h1 := Real.sin_sq_add_cos_sq y
  have h2 := Real.cosh_sq x
  have hD : Real.cosh (x + x) + Real.cos (y + y)
      = 2 * (Real.cosh x * Real.cos y * (Real.cosh x * Real.cos y)
          + Real.sinh x * Real.sin y * (Real.sinh x * Real.sin y)) := by
    rw [← two_mul, ← two_mul, Real.cos_two_mul, Real.cosh_two_mul]
    nlinarith [h1, h2]
  have hre : Real.sinh (x + x)
      = 2 * (Real.sinh x * Real.cos y * (Real.cosh x * Real.cos y)
          + Real.cosh x * Real.sin y * (Real.sinh x * Real.sin y)) := by
    rw [← two_mul, Real.sinh_two_mul]
    linear_combination (-(2 * Real.sinh x * Real.cosh x)) * h1
  have him : Real.sin (y + y)
      = 2 * (Real.cosh x * Real.sin y * (Real.cosh x * Real.cos y)
          - Real.sinh x * Real.cos y * (Real.sinh x * Real.sin y)) := by
    rw [← two_mul, Real.sin_two_mul]
    linear_combination (-(2 * Real.sin y * Real.cos y)) * h2
  show (⟨Real.sinh (x + x) / (Real.cosh (x + x) + Real.cos (y + y)),
         Real.sin (y + y) / (Real.cosh (x + x) + Real.cos (y + y))⟩ : CxOf ℝ) = ⟨_, _⟩
  rw [hD, hre, him]
  simp only [CxOf.sinh, CxOf.cosh, RealOps.sin, RealOps.cos, RealOps.sinh, RealOps.cosh]
  rw [mul_div_mul_left _ _ (two_ne_zero), mul_div_mul_left _ _ (two_ne_zero)]

/-- holds also where `cosh (toC a) = 0` -/
theorem toC_tanh (a : CxOf ℝ) : toC (CxOf.tanh a) = Complex.tanh (toC a) := by
  rw [tanh_eq_div, toC_div, toC_sinh, toC_cosh, Complex.tanh_eq_sinh_div_cosh]

/-! ### powers and remainder -/

/-- `powc`: for a nonzero base it is `x ^ y`; the shortcut `y = 0 ⇒ 1` agrees with `x ^ 0 = 1` for
    every base.  (For `x = 0`, `y ≠ 0` the formula gives `exp (y * ln 0)`, which in the floats is
    `exp (y * (−inf + 0i))`; in ℝ `Real.log 0 = 0` is junk — excluded.) -/
theorem toC_powc (a b : CxOf ℝ) (h : toC a ≠ 0 ∨ toC b = 0) :
    toC (CxOf.powc a b) = toC a ^ toC b := by
  unfold CxOf.powc
  by_cases hb : toC b = 0
  · rw [if_pos ((isZero_iff b).2 hb), hb, Complex.cpow_zero]; rfl
  · have ha : toC a ≠ 0 := h.resolve_right hb
    rw [if_neg (fun hz => hb ((isZero_iff b).1 hz)), toC_exp, toC_mul, toC_ln,
      Complex.cpow_def_of_ne_zero ha, mul_comm]

theorem toC_powc_zero (a b : CxOf ℝ) (hb : toC b = 0) : toC (CxOf.powc a b) = 1 := by
  rw [toC_powc a b (Or.inr hb), hb, Complex.cpow_zero]

/-- `%`: `a − m·trunc(a / m)`, the quotient truncated toward zero part by part -/
theorem toC_rem (a m : CxOf ℝ) :
    toC (CxOf.rem a m) = toC a - toC m * truncC (toC a / toC m) := by
  unfold CxOf.rem
  simp only [toC_sub, toC_mul]
  congr 2
  rw [← toC_div]
  apply Complex.ext <;> simp [truncC, RealOps.fmod1]

/-! ### square root -/

/-- the principal square root in polar form -/
theorem cpow_half {w : ℂ} (hw : w ≠ 0) :
    w ^ ((1 : ℂ) / 2) = (Real.sqrt ‖w‖ : ℂ) *
      (Complex.cos ((Complex.arg w / 2 : ℝ) : ℂ) + Complex.sin ((Complex.arg w / 2 : ℝ) : ℂ) * I) := by
  have hn : 0 < ‖w‖ := norm_pos_iff.2 hw
  rw [Complex.cpow_def_of_ne_zero hw]
  have : Complex.log w * (1 / 2)
      = ((Real.log ‖w‖ / 2 : ℝ) : ℂ) + ((Complex.arg w / 2 : ℝ) : ℂ) * I := by
    apply Complex.ext <;> simp [Complex.log_re, Complex.log_im] <;> ring
  rw [this, Complex.exp_add, Complex.exp_mul_I, ← Complex.ofReal_exp, Real.exp_half,
    Real.exp_log hn]

theorem sqrt_half {t : ℝ} (ht : 0 ≤ t) : Real.sqrt (t / 2) = Real.sqrt t * (Real.sqrt 2 / 2) := by
  rw [Real.sqrt_div ht, div_eq_mul_inv (Real.sqrt t), inv_eq_one_div, ← Real.sqrt_div_self']

/-- num-complex's `sqrt` (all four branches) is the principal root `z ^ (1/2)`.  In ℝ a zero
    imaginary part is `+0`; for `re < 0, im = 0` the result is `+i√(−re)`. -/
theorem toC_sqrt (a : CxOf ℝ) : toC (CxOf.sqrt a) = toC a ^ ((1 : ℂ) / 2) := by
  obtain ⟨x, y⟩ := a
  simp only [CxOf.sqrt, RealOps.isZero, RealOps.signPos, decide_eq_true_eq]
  split_ifs with h1 h2 h3 h4 h5
  · -- im = 0, 0 ≤ re
    subst h1
    rcases eq_or_lt_of_le h2 with h | h
    · subst h
      have : toC (⟨0, 0⟩ : CxOf ℝ) = 0 := rfl
      rw [this]
      simp [toC, RealOps.sqrt, Complex.ext_iff]
    · have hne : toC (⟨x, 0⟩ : CxOf ℝ) ≠ 0 := fun hh => h.ne' (congrArg Complex.re hh)
      have he : toC (⟨x, 0⟩ : CxOf ℝ) = (x : ℂ) := rfl
      rw [cpow_half hne, he, Complex.arg_ofReal_of_nonneg h2, Complex.norm_real,
        Real.norm_of_nonneg h2]
      apply Complex.ext <;> simp [RealOps.sqrt]
  · -- im = 0, re < 0, "+0"
    subst h1
    have hx : x < 0 := not_le.1 h2
    have hne : toC (⟨x, 0⟩ : CxOf ℝ) ≠ 0 := fun hh => hx.ne (congrArg Complex.re hh)
    have he : toC (⟨x, 0⟩ : CxOf ℝ) = (x : ℂ) := rfl
    rw [cpow_half hne, he, Complex.arg_ofReal_of_neg hx, Complex.norm_real,
      Real.norm_of_nonpos hx.le, ← Complex.ofReal_cos, ← Complex.ofReal_sin, Real.cos_pi_div_two,
      Real.sin_pi_div_two]
    apply Complex.ext <;> simp [RealOps.sqrt, RealOps.zero]
  · exact absurd (le_of_eq h1.symm) h3
  · -- re = 0, im > 0
    subst h4
    have hy : 0 < y := lt_of_le_of_ne h5 (Ne.symm h1)
    have hne : toC (⟨0, y⟩ : CxOf ℝ) ≠ 0 := fun hh => h1 (congrArg Complex.im hh)
    have harg : Complex.arg (toC (⟨0, y⟩ : CxOf ℝ)) = Real.pi / 2 :=
      Complex.arg_eq_pi_div_two_iff.2 ⟨rfl, hy⟩
    have hnorm : ‖toC (⟨0, y⟩ : CxOf ℝ)‖ = y := by
      rw [← norm_eq]; simp [CxOf.norm, RealOps.hypot, Real.sqrt_sq hy.le]
    rw [cpow_half hne, harg, hnorm, ← Complex.ofReal_cos, ← Complex.ofReal_sin,
      show Real.pi / 2 / 2 = Real.pi / 4 by ring, Real.cos_pi_div_four, Real.sin_pi_div_four]
    have hs : Real.sqrt (|y| / 2) = Real.sqrt y * (Real.sqrt 2 / 2) := by
      rw [abs_of_pos hy, sqrt_half hy.le]
    apply Complex.ext <;> simp [RealOps.sqrt, RealOps.abs, RealOps.two, hs]
  · -- re = 0, im < 0
    subst h4
    have hy : y < 0 := not_le.1 h5
    have hne : toC (⟨0, y⟩ : CxOf ℝ) ≠ 0 := fun hh => h1 (congrArg Complex.im hh)
    have harg : Complex.arg (toC (⟨0, y⟩ : CxOf ℝ)) = -(Real.pi / 2) :=
      Complex.arg_eq_neg_pi_div_two_iff.2 ⟨rfl, hy⟩
    have hnorm : ‖toC (⟨0, y⟩ : CxOf ℝ)‖ = -y := by
      rw [← norm_eq]; simp [CxOf.norm, RealOps.hypot, Real.sqrt_sq_eq_abs, abs_of_neg hy]
    rw [cpow_half hne, harg, hnorm, ← Complex.ofReal_cos, ← Complex.ofReal_sin,
      show -(Real.pi / 2) / 2 = -(Real.pi / 4) by ring, Real.cos_neg, Real.sin_neg,
      Real.cos_pi_div_four, Real.sin_pi_div_four]
    have hs : Real.sqrt (|y| / 2) = Real.sqrt (-y) * (Real.sqrt 2 / 2) := by
      rw [abs_of_neg hy, sqrt_half (neg_pos.2 hy).le]
    apply Complex.ext <;> simp [RealOps.sqrt, RealOps.abs, RealOps.two, hs]
  · -- general position: polar form
    have hne : toC (⟨x, y⟩ : CxOf ℝ) ≠ 0 := fun hh => h1 (congrArg Complex.im hh)
    rw [cpow_half hne, toC_fromPolar, norm_eq, arg_eq]
    rfl

/-- the specification of the principal root, as a corollary: it squares to `z`, lies in the closed
    right half plane, and on the imaginary axis in the upper half -/
theorem sqrt_spec (a : CxOf ℝ) :
    toC (CxOf.sqrt a) * toC (CxOf.sqrt a) = toC a ∧ 0 ≤ (toC (CxOf.sqrt a)).re := by
  rw [toC_sqrt]
  constructor
  · by_cases h : toC a = 0
    · simp [h]
    · rw [← Complex.cpow_add _ _ h]; norm_num
  · by_cases h : toC a = 0
    · simp [h]
    · rw [cpow_half h]
      simp only [← Complex.ofReal_cos, ← Complex.ofReal_sin, Complex.mul_re, Complex.ofReal_re,
        Complex.ofReal_im, Complex.add_re, Complex.mul_im, Complex.I_re, Complex.I_im, Complex.add_im]
      have hc : 0 ≤ Real.cos (Complex.arg (toC a) / 2) := by
        apply Real.cos_nonneg_of_mem_Icc
        constructor <;> linarith [Complex.neg_pi_lt_arg (toC a), Complex.arg_le_pi (toC a)]
      have := Real.sqrt_nonneg ‖toC a‖
      nlinarith

/-! ### the inverse functions and the logarithms: the bodies of `Kernel ℂ` -/

theorem toC_asin (a : CxOf ℝ) : toC (CxOf.asin a) = Kernel.asin (toC a) := by
  simp only [CxOf.asin, toC_mul, toC_neg, toC_ln, toC_add, toC_sqrt, toC_sub, toC_one, toC_I]
  rfl

theorem toC_acos (a : CxOf ℝ) : toC (CxOf.acos a) = Kernel.acos (toC a) := by
  simp only [CxOf.acos, toC_mul, toC_neg, toC_ln, toC_add, toC_sqrt, toC_sub, toC_one, toC_I]
  rfl

/-- `±i` are the poles of `atan` (there num-complex returns `±inf·i`, which ℝ does not have) -/
theorem toC_atan (a : CxOf ℝ) (h1 : toC a ≠ I) (h2 : toC a ≠ -I) :
    toC (CxOf.atan a) = Kernel.atan (toC a) := by
  unfold CxOf.atan
  rw [if_neg (fun h => h1 (by rw [(beq_iff _ _).1 h, toC_I])),
    if_neg (fun h => h2 (by rw [(beq_iff _ _).1 h, toC_neg, toC_I]))]
  simp only [toC_div, toC_mul, toC_ln, toC_add, toC_sub, toC_one, toC_I, toC_two]
  rfl

theorem toC_asinh (a : CxOf ℝ) : toC (CxOf.asinh a) = Kernel.asinh (toC a) := by
  simp only [CxOf.asinh, toC_mul, toC_ln, toC_add, toC_sqrt, toC_one]
  rfl

theorem toC_acosh (a : CxOf ℝ) : toC (CxOf.acosh a) = Kernel.acosh (toC a) := by
  simp only [CxOf.acosh, toC_mul, toC_ln, toC_add, toC_sub, toC_div, toC_sqrt, toC_one, toC_two]
  rfl

/-- `±1` are the poles of `atanh` -/
theorem toC_atanh (a : CxOf ℝ) (h1 : toC a ≠ 1) (h2 : toC a ≠ -1) :
    toC (CxOf.atanh a) = Kernel.atanh (toC a) := by
  unfold CxOf.atanh
  rw [if_neg (fun h => h1 (by rw [(beq_iff _ _).1 h, toC_one])),
    if_neg (fun h => h2 (by rw [(beq_iff _ _).1 h, toC_neg, toC_one]))]
  simp only [toC_div, toC_ln, toC_add, toC_sub, toC_one, toC_two]
  rfl

theorem toC_log2 (a : CxOf ℝ) : toC (CxOf.log2 a) = Kernel.log2 (toC a) := by
  simp only [CxOf.log2, toC_unscale, toC_ln]
  rfl

theorem toC_log10 (a : CxOf ℝ) : toC (CxOf.log10 a) = Kernel.log10 (toC a) := by
  simp only [CxOf.log10, toC_unscale, toC_ln]
  rfl

theorem toC_logBase (b v : CxOf ℝ) : toC (CxOf.logBase b v) = Kernel.logBase (toC b) (toC v) := by
  have : CxOf.logBase b v = CxOf.unscale (CxOf.ln v) (Real.log b.re) := rfl
  rw [this, toC_unscale, toC_ln]
  rfl

theorem toC_conj' (a : CxOf ℝ) : toC (CxOf.conj a) = Kernel.conj (toC a) := rfl

/-! ### the scalar-valued primitives (`re`, `im`, `arg`, `abs`, `norm_sqr`, `Complex64 * f64`) -/

theorem toC_reS (a : CxOf ℝ) : toC (CxOf.reS a) = ((toC a).re : ℂ) := rfl
theorem toC_imS (a : CxOf ℝ) : toC (CxOf.imS a) = ((toC a).im : ℂ) := rfl
theorem toC_argS (a : CxOf ℝ) : toC (CxOf.argS a) = (Complex.arg (toC a) : ℂ) := rfl
theorem toC_normS (a : CxOf ℝ) : toC (CxOf.normS a) = (‖toC a‖ : ℂ) := by
  rw [← norm_eq]; rfl
theorem toC_normSqr (a : CxOf ℝ) : toC (CxOf.normSqr a) = (Complex.normSq (toC a) : ℂ) := by
  rw [Complex.normSq_apply]; rfl
theorem toC_mulRe (a b : CxOf ℝ) : toC (CxOf.mulRe a b) = toC a * ((toC b).re : ℂ) := by
  apply Complex.ext <;> simp [CxOf.mulRe]
theorem normIsZero_iff (a : CxOf ℝ) : CxOf.normIsZero a = true ↔ toC a = 0 := by
  simp only [CxOf.normIsZero, RealOps.isZero, decide_eq_true_eq, norm_eq, norm_eq_zero]

/-! ### what the IEEE-only branches are, at ANY instance (in particular at `Float`)

  These are statements about the generic text, by unfolding: they say which inputs reach the
  branches that have no counterpart in ℝ. -/

section generic
variable {R : Type} [RealOps R]

/-- `exp`: unless the real part is infinite or NaN, the formula is `from_polar(e^re, im)` — the one
    proved equal to `Complex.exp` at ℝ -/
theorem exp_of_finite (z : CxOf R) (h1 : RealOps.isInfinite z.re = false)
    (h2 : RealOps.isNaN z.re = false) :
    CxOf.exp z = CxOf.fromPolar (RealOps.exp z.re) z.im := by
  simp [CxOf.exp, h1, h2]

/-- `sqrt` of a negative real whose zero imaginary part is `+0`: `+i√(−re)` (the case ℝ has) -/
theorem sqrt_neg_real_pos_zero (z : CxOf R) (h1 : RealOps.isZero z.im = true)
    (h2 : RealOps.signPos z.re = false) (h3 : RealOps.signPos z.im = true) :
    CxOf.sqrt z = ⟨RealOps.zero, RealOps.sqrt (-z.re)⟩ := by
  simp [CxOf.sqrt, h1, h2, h3]

/-- `sqrt` of a negative real whose zero imaginary part is `−0`: `−i√(−re)`, the conjugate of the
    principal root (the case ℝ does not have) -/
theorem sqrt_neg_real_neg_zero (z : CxOf R) (h1 : RealOps.isZero z.im = true)
    (h2 : RealOps.signPos z.re = false) (h3 : RealOps.signPos z.im = false) :
    CxOf.sqrt z = ⟨RealOps.zero, -RealOps.sqrt (-z.re)⟩ := by
  simp [CxOf.sqrt, h1, h2, h3]

/-- `atan` away from the two special-cased points is the logarithm formula -/
theorem atan_of_ne (z : CxOf R) (h1 : CxOf.beq z CxOf.I = false)
    (h2 : CxOf.beq z (CxOf.neg CxOf.I) = false) :
    CxOf.atan z = CxOf.div (CxOf.sub (CxOf.ln (CxOf.add CxOf.one (CxOf.mul CxOf.I z)))
      (CxOf.ln (CxOf.sub CxOf.one (CxOf.mul CxOf.I z)))) (CxOf.mul CxOf.two CxOf.I) := by
  simp [CxOf.atan, h1, h2]

/-- `atanh` away from the two special-cased points is the logarithm formula -/
theorem atanh_of_ne (z : CxOf R) (h1 : CxOf.beq z CxOf.one = false)
    (h2 : CxOf.beq z (CxOf.neg CxOf.one) = false) :
    CxOf.atanh z = CxOf.div (CxOf.sub (CxOf.ln (CxOf.add CxOf.one z))
      (CxOf.ln (CxOf.sub CxOf.one z))) CxOf.two := by
  simp [CxOf.atanh, h1, h2]

end generic

end CxReal
end Calc
