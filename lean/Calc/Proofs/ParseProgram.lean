/-
  Calc.Proofs.ParseProgram — completeness for statements and whole programs: every phrase of
  `DerivesStmt` / `DerivesProgram` is accepted and read as the grammar reads it; hence
  `parse ts = .ok ss ↔ DerivesProgram ts ss`.  Core Lean only.
-/
import Calc.Proofs.ParseComplete
import Calc.Proofs.ParseFuel
namespace Calc
variable {S : Type}
set_option linter.unusedSimpArgs false

theorem Derives.of_primary {l : Level} {c : List (Tok S)} {e} (h : Derives .primary c e) :
    Derives l c e := by
  have h1 : Derives .call c e := .incl rfl h
  have h2 : Derives .fact c e := .incl rfl h1
  have h3 : Derives .unary c e := .incl rfl h2
  have h4 : Derives .expo c e := .incl rfl h3
  have h5 : Derives .cross c e := .incl rfl h4
  have h6 : Derives .dot c e := .incl rfl h5
  have h7 : Derives .factor c e := .incl rfl h6
  have h8 : Derives .term c e := .incl rfl h7
  have h9 : Derives .expr c e := .incl rfl h8
  cases l <;> assumption

theorem Tok.isDelim.stop {d : Tok S} (hd : d.isDelim) (r) : Stop .expr (d :: r) := by
  apply Stop_cons.mpr
  rcases hd with h | h <;> simp [h, stopSet]

theorem Tok.isDelim.noGlue {d : Tok S} (hd : d.isDelim) (c r : List (Tok S)) : NoGlue c (d :: r) := by
  apply NoGlue_cons
  rcases hd with h | h <;> simp [h]

theorem consumeDelim_isDelim {d : Tok S} (hd : d.isDelim) (r) : consumeDelim (d :: r) = .ok d r := by
  rcases hd with h | h <;> simp [consumeDelim, h]

theorem sigParams_complete {args : List (Expr S)} {ps} (h : DerivesParams args ps) :
    sigParams args = some ps := by
  induction h with
  | nil => rfl
  | ident _ ih => simp [sigParams, ih]
  | number _ ih => simp [sigParams, ih]

theorem FirstOK.not_stmt_kw {l : Level} {c : List (Tok S)} (h : FirstOK l c) :
    ∃ t c', c = t :: c' ∧ t.tag ≠ .delete ∧ t.tag ≠ .clear ∧ ¬ t.isDelim := by
  obtain ⟨t, c', rfl, ht⟩ := h.cons_eq
  refine ⟨t, c', rfl, ?_⟩
  rcases ht with ht | ⟨_, ht | ht⟩
  · cases h' : t.tag <;> simp [h', startTag] at ht <;> simp [Tok.isDelim, h']
  · simp [Tok.isDelim, ht]
  · simp [Tok.isDelim, ht]

theorem pStatement_of_first {l : Level} {c : List (Tok S)} (h : FirstOK l c) (f x) :
    pStatement f (c ++ x) = pStatement.pStatementExpr f (c ++ x) := by
  obtain ⟨t, c', rfl, h1, h2, _⟩ := h.not_stmt_kw
  simp [pStatement, h1, h2]

/-- an expression statement -/
theorem pStatementExpr_expr {f} {c : List (Tok S)} {e d r} (hd : d.isDelim)
    (h : pExpression f (c ++ d :: r) = .ok e (d :: r)) :
    pStatement.pStatementExpr f (c ++ d :: r) = .ok (.expr e) r := by
  have hne : d.tag ≠ .equal := by rcases hd with h | h <;> simp [h]
  simp only [pStatement.pStatementExpr, h, consumeDelim_isDelim hd]
  cases e <;> simp [hne]

theorem DerivesStmt.first {c : List (Tok S)} {s} (h : DerivesStmt c s) :
    ∃ t c', c = t :: c' ∧ ¬ t.isDelim := by
  cases h with
  | clear ht => exact ⟨_, _, rfl, by simp [Tok.isDelim, ht]⟩
  | deleteVar hd _ => exact ⟨_, _, rfl, by simp [Tok.isDelim, hd]⟩
  | deleteSig hd _ _ => exact ⟨_, _, rfl, by simp [Tok.isDelim, hd]⟩
  | assign hn _ _ => exact ⟨_, _, rfl, by simp [Tok.isDelim, kind_tag hn, Kind.tag]⟩
  | define hc _ _ _ =>
    obtain ⟨t, c', rfl, _, _, h⟩ := hc.first.not_stmt_kw
    exact ⟨t, _, rfl, h⟩
  | expr he =>
    obtain ⟨t, c', rfl, _, _, h⟩ := he.first.not_stmt_kw
    exact ⟨t, _, rfl, h⟩

/-- completeness for statements: a statement phrase followed by a delimiter is accepted and
    read as the grammar reads it, the rest being what follows the delimiter -/
theorem DerivesStmt.complete {c : List (Tok S)} {s} (h : DerivesStmt c s) :
    ∃ N, ∀ f, N ≤ f → ∀ d r, d.isDelim → pStatement f (c ++ d :: r) = .ok s r := by
  cases h with
  | clear ht =>
    refine ⟨0, fun f _ d r hd => ?_⟩
    simp [pStatement, ht, consumeDelim_isDelim hd]
  | @deleteVar d0 name n hd0 hn =>
    obtain ⟨N, h⟩ := (Derives.of_primary (l := .expr) (Derives.ident hn)).complete
    refine ⟨N, fun f hf d r hd => ?_⟩
    have e1 := h f hf (d :: r) (hd.stop r) (hd.noGlue _ r)
    simp only [pL] at e1
    simp only [List.cons_append, List.nil_append] at e1 ⊢
    simp [pStatement, hd0, pDelete, e1, consumeDelim_isDelim hd]
  | @deleteSig d0 name lp c args ps hd0 hc hp =>
    obtain ⟨N, h⟩ := hc.complete
    refine ⟨N, fun f hf d r hd => ?_⟩
    have e1 := h f hf (d :: r) (hd.stop r) (hd.noGlue _ r)
    simp only [pL] at e1
    simp [pStatement, hd0, pDelete, e1, consumeDelim_isDelim hd, sigOfCall, sigParams_complete hp]
  | @assign name eq n c e hn heq he =>
    obtain ⟨N1, h1⟩ := (Derives.of_primary (l := .expr) (Derives.ident hn)).complete
    obtain ⟨N2, h2⟩ := he.complete
    refine ⟨N1 + N2, fun f hf d r hd => ?_⟩
    have e1 := h1 f (by omega) (eq :: (c ++ d :: r)) (Stop_cons.mpr (by simp [heq, stopSet]))
      (NoGlue_cons (by simp [heq]))
    have e2 := h2 f (by omega) (d :: r) (hd.stop r) (hd.noGlue _ r)
    simp only [pL] at e1 e2
    have hk : name.tag = .ident := kind_tag hn
    simp only [List.cons_append, List.nil_append] at e1 ⊢
    simp [pStatement, hk, pStatement.pStatementExpr, e1, heq, e2, consumeDelim_isDelim hd]
  | @define name lp eq c₁ c₂ args ps body hc hp heq hb =>
    obtain ⟨N1, h1⟩ := hc.complete
    obtain ⟨N2, h2⟩ := hb.complete
    refine ⟨N1 + N2, fun f hf d r hd => ?_⟩
    have e1 := h1 f (by omega) (eq :: (c₂ ++ d :: r)) (Stop_cons.mpr (by simp [heq, stopSet]))
      (NoGlue_cons (by simp [heq]))
    have e2 := h2 f (by omega) (d :: r) (hd.stop r) (hd.noGlue _ r)
    simp only [pL] at e1 e2
    rw [List.append_assoc, List.cons_append, pStatement_of_first hc.first]
    simp [pStatement.pStatementExpr, e1, heq, e2, consumeDelim_isDelim hd, sigOfCall,
      sigParams_complete hp]
  | expr he =>
    obtain ⟨N, h⟩ := he.complete
    refine ⟨N, fun f hf d r hd => ?_⟩
    have e1 := h f hf (d :: r) (hd.stop r) (hd.noGlue _ r)
    simp only [pL] at e1
    rw [pStatement_of_first he.first]
    exact pStatementExpr_expr hd e1

/-- completeness for programs, with explicit fuel -/
theorem DerivesProgram.complete {ts : List (Tok S)} {ss} (h : DerivesProgram ts ss) :
    ∃ N, ∀ inner, N ≤ inner → ∀ outer, ts.length ≤ outer → parseLoop inner outer ts = .ok ss := by
  induction h with
  | nil => exact ⟨0, fun inner _ outer _ => parseLoop_nil inner outer⟩
  | @skip d ts ss hd _ ih =>
    obtain ⟨N, ih⟩ := ih
    refine ⟨N, fun inner hi outer ho => ?_⟩
    obtain ⟨o, rfl⟩ : ∃ o, outer = o + 1 := ⟨outer - 1, by simp at ho; omega⟩
    have hd' : (d.tag = .newline || d.tag = .semicolon) = true := by
      rcases hd with h | h <;> simp [h]
    rw [parseLoop_succ_cons, if_pos hd']
    exact ih inner hi o (by simp at ho; omega)
  | @stmt c s ts ss d hs hd _ ih =>
    obtain ⟨N, ih⟩ := ih
    obtain ⟨N2, h2⟩ := hs.complete
    refine ⟨N + N2, fun inner hi outer ho => ?_⟩
    obtain ⟨o, rfl⟩ : ∃ o, outer = o + 1 := ⟨outer - 1, by simp at ho; omega⟩
    have e1 := h2 inner (by omega) d ts hd
    have e2 := ih inner (by omega) o (by simp at ho; omega)
    obtain ⟨t, c', rfl, ht⟩ := hs.first
    have ht' : (t.tag = .newline || t.tag = .semicolon) = false := by
      simp [Tok.isDelim] at ht; simp [ht]
    rw [List.cons_append] at e1 ⊢
    rw [parseLoop_succ_cons]
    simp [ht', e1, e2]

/-- completeness for `parse` -/
theorem parse_complete {ts : List (Tok S)} {ss} (h : DerivesProgram ts ss) : parse ts = .ok ss := by
  obtain ⟨N, h⟩ := h.complete
  rw [← parseLoop_eq_parse (inner := N + (10 + 13 * ts.length)) (outer := ts.length) ts
    (by omega) (Nat.le_refl _)]
  exact h _ (by omega) _ (Nat.le_refl _)

theorem parse_iff {ts : List (Tok S)} {ss} : parse ts = .ok ss ↔ DerivesProgram ts ss :=
  ⟨parse_sound, parse_complete⟩

end Calc
