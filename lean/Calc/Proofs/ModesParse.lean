/-
  Calc.Proofs.ModesParse — parsing a concatenation of token lists each of which is a program
  (C16, "file mode against prompt mode", parser half).

  Every statement of a program ends with its delimiter, so the programs of the grammar are
  closed under concatenation (`DerivesProgram.append`); with `parse ts = .ok ss ↔
  DerivesProgram ts ss` (Calc.Proofs.ParseProgram) the parser maps a concatenation of parsable
  token lists to the concatenation of their statement lists (`parse_append`, `parse_flatMap`).
  With `parse_erasePos` (Calc.Proofs.FrontParseTab) the same holds for any token list that
  differs from the concatenation in positions only (`parse_of_erasePos_eq`).  Core Lean only.
-/
import Calc.Proofs.ParseProgram
import Calc.Proofs.FrontParseTab
namespace Calc
open List

variable {S : Type}

theorem DerivesProgram.append {ts₁ ts₂ : List (Tok S)} {ss₁ ss₂ : List (Stmt S)}
    (h₁ : DerivesProgram ts₁ ss₁) (h₂ : DerivesProgram ts₂ ss₂) :
    DerivesProgram (ts₁ ++ ts₂) (ss₁ ++ ss₂) := by
  induction h₁ with
  | nil => exact h₂
  | skip hd _ ih => exact .skip hd ih
  | @stmt c s ts ss d hs hd _ ih =>
    rw [append_assoc, cons_append, cons_append]
    exact .stmt hs hd ih

/-- two parsable token lists, one after the other, parse to the two statement lists, one after
    the other -/
theorem parse_append {ts₁ ts₂ : List (Tok S)} {ss₁ ss₂ : List (Stmt S)}
    (h₁ : parse ts₁ = .ok ss₁) (h₂ : parse ts₂ = .ok ss₂) :
    parse (ts₁ ++ ts₂) = .ok (ss₁ ++ ss₂) :=
  parse_iff.2 ((parse_iff.1 h₁).append (parse_iff.1 h₂))

/-- the same for any number of token lists -/
theorem parse_flatMap {α : Type} (tk : α → List (Tok S)) (st : α → List (Stmt S)) (ls : List α)
    (h : ∀ l ∈ ls, parse (tk l) = .ok (st l)) :
    parse (ls.flatMap tk) = .ok (ls.flatMap st) := by
  induction ls with
  | nil => exact parse_iff.2 .nil
  | cons l ls ih =>
    rw [flatMap_cons, flatMap_cons]
    exact parse_append (h l mem_cons_self) (ih (fun x hx => h x (mem_cons_of_mem _ hx)))

theorem ParseRes.erasePos_eq_ok {r : ParseRes S} {ss : List (Stmt S)}
    (h : r.erasePos = .ok ss) : ∃ ss', r = .ok ss' ∧ ss'.map Stmt.erasePos = ss := by
  cases r with
  | ok ss' => simp only [ParseRes.erasePos, ParseRes.ok.injEq] at h; exact ⟨ss', rfl, h⟩
  | err e => simp [ParseRes.erasePos] at h
  | fuel => simp [ParseRes.erasePos] at h

/-- a token list that differs from a parsable one in positions only parses, to the same
    statements up to positions -/
theorem parse_of_erasePos_eq {ts ts' : List (Tok S)} {ss : List (Stmt S)}
    (h : parse ts = .ok ss) (he : ts'.map Tok.erasePos = ts.map Tok.erasePos) :
    ∃ ss', parse ts' = .ok ss' ∧ ss'.map Stmt.erasePos = ss.map Stmt.erasePos := by
  have h1 : (parse ts').erasePos = .ok (ss.map Stmt.erasePos) := by
    rw [← parse_erasePos, he, parse_erasePos, h]; rfl
  exact ParseRes.erasePos_eq_ok h1

end Calc
