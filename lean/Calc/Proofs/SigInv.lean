/-
  Calc.Proofs.SigInv — the invariant behind C13_distinct: every user-function value stored in the
  table has a non-empty signature list with no two equivalent entries.  The evaluator only ever
  returns function values that are stored in the (possibly parameter-extended) table, so the
  invariant is preserved by every statement.  Core Lean only.
-/
import Calc.Model.Front
import Calc.Proofs.EnvLemmas
import Calc.Proofs.EvalPure
import Calc.Proofs.SigLemmas
namespace Calc

variable {S : Type} [Add S] [Sub S] [Mul S] [Div S] [Zero S] [One S] [Kernel S]

/-- a well-formed user function: at least one signature, no two equivalent -/
def GoodFn (fn : UserFn S) : Prop := fn.sigs ≠ [] ∧ PairwiseInequiv fn.sigs

/-- a value that, if it is a user function, is a well-formed one -/
def GoodVal (v : Value S) : Prop := ∀ fn, v = .user fn → GoodFn fn

/-- every value stored in the table (visible or not) is good -/
def FnInv (env : Env S) : Prop := ∀ kv ∈ env, GoodVal kv.2.value

/-- a result that, if it is a value, is a good one -/
def GoodRes (r : Res (Value S)) : Prop := ∀ v, r = .ok v → GoodVal v

/-- a result that is not a user-function value -/
def NotUser (r : Res (Value S)) : Prop := ∀ fn, r ≠ .ok (.user fn)

section Basic
omit [Add S] [Sub S] [Mul S] [Div S] [Zero S] [One S]

theorem NotUser.good {r : Res (Value S)} (h : NotUser r) : GoodRes r := by
  intro v hv fn hfn
  subst hfn
  exact absurd hv (h fn)

theorem GoodVal.number (z : S) : GoodVal (.number z) := by intro fn h; cases h
theorem GoodVal.measurement (z : S) (u : Unit) : GoodVal (.measurement z u) := by
  intro fn h; cases h
theorem GoodVal.matrix (m : List (List S)) : GoodVal (.matrix m) := by intro fn h; cases h
theorem GoodVal.native (n : Str) : GoodVal (.native n : Value S) := by intro fn h; cases h

theorem GoodVal.user {fn : UserFn S} (h : GoodFn fn) : GoodVal (.user fn) := by
  intro fn' e; cases e; exact h

theorem FnInv.get {env : Env S} (h : FnInv env) {k : Str} {v : Variable S}
    (hg : Env.get env k = some v) : GoodVal v.value :=
  h _ (Env.mem_of_get hg)

theorem FnInv.filter {env : Env S} (h : FnInv env) (p : Str × Variable S → Bool) :
    FnInv (env.filter p) :=
  fun kv hm => h kv (List.mem_filter.mp hm).1

theorem FnInv.remove {env : Env S} (h : FnInv env) (k : Str) : FnInv (Env.remove env k) :=
  h.filter _

theorem FnInv.retainConstants {env : Env S} (h : FnInv env) : FnInv (Env.retainConstants env) :=
  h.filter _

theorem FnInv.insert {env : Env S} (h : FnInv env) (k : Str) {v : Value S} (hv : GoodVal v)
    (c : Bool) : FnInv (Env.insert env k ⟨v, c⟩) := by
  intro kv hm
  rcases List.mem_cons.mp hm with rfl | hm
  · exact hv
  · exact h.remove k kv hm

/-- a table that stores no user function at all satisfies the invariant -/
theorem FnInv.of_no_user {env : Env S} (h : ∀ kv ∈ env, ∀ fn, kv.2.value ≠ .user fn) :
    FnInv env :=
  fun kv hm fn e => absurd e (h kv hm fn)

theorem bindParams_fnInv (ps : List (Param S)) :
    ∀ (as : List (Value S)) (env : Env S), FnInv env → (∀ a ∈ as, GoodVal a) →
      FnInv (bindParams ps as env) := by
  induction ps with
  | nil => intro as env h _; rw [bindParams_nil]; exact h
  | cons p ps ih =>
    intro as env h has
    cases as with
    | nil => rw [bindParams_cons_nil]; exact h
    | cons a as =>
      have has' : ∀ a ∈ as, GoodVal a := fun x hx => has x (List.mem_cons_of_mem _ hx)
      cases p with
      | ident n =>
        rw [bindParams_ident]
        exact ih as _ (h.insert n (has a List.mem_cons_self) false) has'
      | number z => rw [bindParams_number]; exact ih as _ h has'

theorem Res.bind_eq_ok {α β : Type} {r : Res α} {f : α → Res β} {b : β} :
    r.bind f = .ok b ↔ ∃ a, r = .ok a ∧ f a = .ok b := by
  cases r <;> simp [Res.bind]

end Basic

/-! ### the operators never produce a function value (except a plain grouping, which passes its
    operand through) -/

theorem binop_notUser (op : Tok S) (a b : Value S) : NotUser (binop op a b) := by
  intro fn h
  unfold binop at h
  simp only [diagAt] at h
  repeat' split at h
  all_goals first | cases h | (simp [Res.bind_eq_ok] at h)

omit [Sub S] [Zero S] in
theorem unop_notUser (op : Tok S) (v : Value S) : NotUser (unop op v) := by
  intro fn h
  unfold unop at h
  simp only [diagAt] at h
  repeat' split at h
  all_goals first | cases h | (simp [Res.bind_eq_ok] at h)

omit [Zero S] [One S] in
theorem asop_notUser (tok : Tok S) (u : Unit) (v : Value S) : NotUser (asop tok u v) := by
  intro fn h
  unfold asop at h
  simp only [diagAt] at h
  repeat' split at h
  all_goals first | cases h | (simp [Res.bind_eq_ok] at h)

omit [Sub S] [Mul S] [Div S] [One S] in
theorem groupop_good (paren : Tok S) (k : GKind) {v : Value S} (hv : GoodVal v) :
    GoodRes (groupop paren k v) := by
  cases k with
  | grouping =>
    intro w hw
    simp only [groupop] at hw
    cases hw
    exact hv
  | absolute =>
    apply NotUser.good
    intro fn h
    simp only [groupop, diagAt] at h
    repeat' split at h
    all_goals first | cases h | (simp at h)
  | ceil =>
    apply NotUser.good
    intro fn h
    simp only [groupop, diagAt] at h
    repeat' split at h
    all_goals first | cases h | (simp at h)
  | floor =>
    apply NotUser.good
    intro fn h
    simp only [groupop, diagAt] at h
    repeat' split at h
    all_goals first | cases h | (simp at h)

theorem nativeBody_notUser (name : Str) (line col : Nat) (args : List (Value S)) :
    NotUser (nativeBody name line col args) := by
  intro fn h
  unfold nativeBody at h
  simp only [num1] at h
  repeat' split at h
  all_goals first | cases h | (simp [Res.bind_eq_ok] at h)
  all_goals
    obtain ⟨_, _, _, _, h⟩ := h
    split at h <;> cases h

theorem callNative_notUser (name : Str) (line col : Nat) (args : List (Value S)) :
    NotUser (callNative name line col args) := by
  intro fn h
  unfold callNative at h
  repeat' split at h
  all_goals first | cases h | exact nativeBody_notUser _ _ _ _ fn h

/-! ### the evaluator returns good values from good tables -/

omit [Add S] [Sub S] [Mul S] [Div S] [Zero S] [One S] in
theorem evalList_good (ev : Evaluator S) (henv : ∀ e env, (ev e env).env = env)
    (hev : ∀ e env, FnInv env → GoodRes (ev e env).res) :
    ∀ (es : List (Expr S)) (env : Env S), FnInv env →
      ∀ vs, (evalList ev es env).1 = .ok vs → ∀ v ∈ vs, GoodVal v := by
  intro es
  induction es with
  | nil =>
    intro env _ vs h v hv
    simp only [evalList] at h
    cases h
    cases hv
  | cons e es ih =>
    intro env hinv vs h v hv
    have h1 := hev e env hinv
    have h2 := ih env hinv
    unfold evalList at h
    simp only [henv] at h
    generalize evalList ev es env = q at h h2
    obtain ⟨r, env'⟩ := q
    cases hr : (ev e env).res with
    | ok w =>
      rw [hr] at h
      cases r with
      | ok ws =>
        simp only at h
        cases h
        rcases List.mem_cons.mp hv with rfl | hv
        · exact h1 _ hr
        · exact h2 ws rfl v hv
      | diag d => simp at h
      | panic s => simp at h
      | fuel => simp at h
    | diag d => rw [hr] at h; simp at h
    | panic s => rw [hr] at h; simp at h
    | fuel => rw [hr] at h; simp at h

omit [Add S] [Sub S] [Mul S] [Div S] [Zero S] [One S] in
theorem callUser_good (ev : Evaluator S) (hev : ∀ e env, FnInv env → GoodRes (ev e env).res)
    (fn : UserFn S) (line col : Nat) (vs : List (Value S)) (env : Env S) (hinv : FnInv env)
    (hvs : ∀ v ∈ vs, GoodVal v) : GoodRes (callUser ev fn line col vs env) := by
  unfold callUser
  split
  · exact hev _ _ (bindParams_fnInv _ _ _ hinv hvs)
  · intro v h; cases h

theorem eval_good : ∀ (fuel : Nat) (e : Expr S) (env : Env S), FnInv env →
    GoodRes (eval fuel e env).res := by
  intro fuel
  induction fuel with
  | zero => intro e env _ v h; cases h
  | succ f ih =>
    intro e env hinv
    cases e with
    | number z => intro v h; cases h; exact .number z
    | measurement z u => intro v h; cases h; exact .measurement z u
    | ident name =>
      intro v h
      simp only [eval, lookupIdent] at h
      split at h
      · next w hg => cases h; exact hinv.get hg
      · simp [diagAt] at h
    | as_ x tok u =>
      simp only [eval]
      split
      · exact (asop_notUser tok u _).good
      · exact ih _ _ hinv
    | unary op x =>
      simp only [eval]
      split
      · exact (unop_notUser op _).good
      · exact ih _ _ hinv
    | grouping p k x =>
      simp only [eval]
      split
      · next v hv => exact groupop_good p k (ih x env hinv v hv)
      · exact ih _ _ hinv
    | binary l op r =>
      simp only [eval, eval_env]
      split
      · split
        · exact (binop_notUser op _ _).good
        · exact ih _ _ hinv
      · exact ih _ _ hinv
    | matrix br rows =>
      simp only [eval]
      split
      · intro v h; cases h
      · generalize evalRows (eval f) br 0 _ env = q
        obtain ⟨r, env'⟩ := q
        apply NotUser.good
        intro fn h
        cases r <;> simp [Res.bind_eq_ok] at h
    | call callee paren args =>
      simp only [eval, eval_env]
      have hl := evalList_good (eval f) (eval_env f) ih args env hinv
      have hl2 := evalList_env (eval f) (eval_env f) args env
      generalize evalList (eval f) args env = q at hl hl2
      obtain ⟨r, env'⟩ := q
      simp only at hl hl2
      subst hl2
      have hc := ih callee env' hinv
      split
      · apply NotUser.good
        intro fn h
        cases r with
        | ok vs => exact callNative_notUser _ _ _ _ fn h
        | diag d => simp at h
        | panic s => simp at h
        | fuel => simp at h
      · next fn hfn =>
        cases r with
        | ok vs => exact callUser_good (eval f) ih fn _ _ vs env' hinv (hl vs rfl)
        | diag d => intro v h; simp at h
        | panic s => intro v h; simp at h
        | fuel => intro v h; simp at h
      · intro v h; simp at h
      · exact hc

/-! ### every statement keeps the invariant -/

theorem fnInv_step (heq : ∀ a b : S, Kernel.eq a b = true ↔ a = b) (fuel : Nat) (env : Env S)
    (s : Stmt S) (hinv : FnInv env) : FnInv (step fuel env s).env := by
  cases s with
  | expr e => simp only [step, eval_env]; exact hinv
  | deleteVar name =>
    simp only [step]
    repeat' split
    all_goals first | exact hinv | exact hinv.remove _
  | clear => exact hinv.retainConstants
  | assign name e =>
    simp only [step, eval_env]
    split
    · exact hinv
    · split
      · next v hv => exact hinv.insert _ (eval_good fuel e env hinv v hv) false
      · exact hinv
  | deleteSig name sig =>
    simp only [step]
    split
    · next v hg =>
      split
      · exact hinv
      · split
        · exact hinv
        · next fn hfn =>
          have hgood : GoodFn fn := hinv.get hg fn hfn
          split
          · exact hinv
          · split
            · exact hinv.remove _
            · next hne =>
              refine hinv.insert _ (GoodVal.user ⟨?_, hgood.2.filter _⟩) false
              intro he
              simp only at he
              rw [he] at hne
              exact hne rfl
        · exact hinv
    · exact hinv
  | define name sig body =>
    have hfresh : GoodVal (.user ⟨name.lexeme, [(sig, body)]⟩ : Value S) :=
      GoodVal.user ⟨by simp, PairwiseInequiv.singleton _⟩
    simp only [step]
    split
    · next v hg =>
      split
      · exact hinv
      · split
        · next fn hfn =>
          have hgood : GoodFn fn := hinv.get hg fn hfn
          exact hinv.insert _
            (GoodVal.user ⟨defineSig_ne_nil _ _ _, hgood.2.defineSig heq sig body⟩) false
        · exact hinv
        · exact hinv.insert _ hfresh false
    · exact hinv.insert _ hfresh false

theorem fnInv_runStmts (heq : ∀ a b : S, Kernel.eq a b = true ↔ a = b) (fuel : Nat)
    (ss : List (Stmt S)) : ∀ env : Env S, FnInv env → FnInv (runStmts fuel env ss).env := by
  induction ss with
  | nil => intro env h; exact h
  | cons s ss ih =>
    intro env h
    simp only [runStmts]
    exact ih _ (fnInv_step heq fuel env s h)

theorem fnInv_processText (heq : ∀ a b : S, Kernel.eq a b = true ↔ a = b) (cfg : ScanCfg S)
    (fuel : Nat) (env : Env S) (text : Str) (h : FnInv env) :
    FnInv (processText cfg fuel env text).env := by
  unfold processText
  split
  · exact h
  · exact h
  · exact h
  · split
    · exact h
    · exact h
    · exact fnInv_runStmts heq fuel _ env h

theorem fnInv_repl (heq : ∀ a b : S, Kernel.eq a b = true ↔ a = b) (cfg : ScanCfg S)
    (fuel : Nat) (ls : List Str) :
    ∀ env : Env S, FnInv env → FnInv (repl cfg fuel env ls).env := by
  induction ls with
  | nil => intro env h; exact h
  | cons l ls ih =>
    intro env h
    simp only [repl]
    split
    · exact h
    · exact ih _ (fnInv_processText heq cfg fuel env _ h)

theorem fnInv_session (heq : ∀ a b : S, Kernel.eq a b = true ↔ a = b) (cfg : ScanCfg S)
    (fuel : Nat) (init : Env S) (file expr : Option Str) (stdin : List Str) (h : FnInv init) :
    FnInv (session cfg fuel init file expr stdin).env := by
  unfold session
  cases file with
  | none =>
    cases expr with
    | none => exact fnInv_repl heq cfg fuel stdin _ h
    | some t => exact fnInv_processText heq cfg fuel _ _ h
  | some f =>
    have h1 := fnInv_processText heq cfg fuel init (ensureTrailingNewline f) h
    cases expr with
    | none => exact fnInv_repl heq cfg fuel stdin _ h1
    | some t => exact fnInv_processText heq cfg fuel _ _ h1

end Calc
