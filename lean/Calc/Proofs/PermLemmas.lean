/-
  Calc.Proofs.PermLemmas — nothing depends on the order of the entries of the variable table
  (used by C19).  Two tables are `EnvEquiv` when every lookup agrees; permutations of a table
  with distinct keys are `EnvEquiv`; the evaluator, every statement, a text, the prompt loop and
  a whole session give the same output and `EnvEquiv` tables from `EnvEquiv` tables.
  Core Lean only.
-/
import Calc.Model.Front
import Calc.Proofs.EnvLemmas
import Calc.Proofs.EvalPure
import Calc.Proofs.EnvStep
import Calc.Proofs.SigLemmas
namespace Calc

theorem append_congr {α : Type} {a b c d : List α} (h1 : a = b) (h2 : c = d) :
    a ++ c = b ++ d := by
  subst h1; subst h2; rfl

/-- the two tables have the same bindings (whatever the order of their entries) -/
def EnvEquiv {S : Type} (e₁ e₂ : Env S) : Prop := ∀ k, Env.get e₁ k = Env.get e₂ k

section Table
variable {S : Type}

theorem EnvEquiv.refl (e : Env S) : EnvEquiv e e := fun _ => rfl

theorem EnvEquiv.symm {e₁ e₂ : Env S} (h : EnvEquiv e₁ e₂) : EnvEquiv e₂ e₁ :=
  fun k => (h k).symm

theorem EnvEquiv.trans {e₁ e₂ e₃ : Env S} (h : EnvEquiv e₁ e₂) (h' : EnvEquiv e₂ e₃) :
    EnvEquiv e₁ e₃ :=
  fun k => (h k).trans (h' k)

/-- a permutation of a table with distinct keys has the same bindings -/
theorem perm_nodup_envEquiv {e₁ e₂ : Env S} (hp : e₁.Perm e₂)
    (nd : (e₁.map Prod.fst).Nodup) : EnvEquiv e₁ e₂ := by
  have nd₂ : (e₂.map Prod.fst).Nodup := (hp.map Prod.fst).nodup_iff.mp nd
  intro k
  cases h1 : Env.get e₁ k with
  | some v =>
    exact (Env.get_of_mem nd₂ (hp.mem_iff.mp (Env.mem_of_get h1))).symm
  | none =>
    cases h2 : Env.get e₂ k with
    | none => rfl
    | some v =>
      have := Env.get_of_mem nd (hp.mem_iff.mpr (Env.mem_of_get h2))
      rw [h1] at this
      cases this

theorem perm_keys_nodup {e₁ e₂ : Env S} (hp : e₁.Perm e₂)
    (nd : (e₁.map Prod.fst).Nodup) : (e₂.map Prod.fst).Nodup :=
  (hp.map Prod.fst).nodup_iff.mp nd

theorem EnvEquiv.insert {e₁ e₂ : Env S} (h : EnvEquiv e₁ e₂) (k : Str) (v : Variable S) :
    EnvEquiv (Env.insert e₁ k v) (Env.insert e₂ k v) := by
  intro k'
  by_cases e : k' = k
  · subst e
    rw [Env.get_insert_self, Env.get_insert_self]
  · rw [Env.get_insert_ne e₁ v e, Env.get_insert_ne e₂ v e]
    exact h k'

theorem EnvEquiv.remove {e₁ e₂ : Env S} (h : EnvEquiv e₁ e₂) (k : Str) :
    EnvEquiv (Env.remove e₁ k) (Env.remove e₂ k) := by
  intro k'
  by_cases e : k' = k
  · subst e
    rw [Env.get_remove_self, Env.get_remove_self]
  · rw [Env.get_remove_ne e₁ e, Env.get_remove_ne e₂ e]
    exact h k'

/-- `clear` respects `EnvEquiv` when both tables have distinct keys (with duplicate keys it
    does not: a hidden constant entry could be uncovered on one side only) -/
theorem EnvEquiv.retainConstants {e₁ e₂ : Env S} (h : EnvEquiv e₁ e₂)
    (nd₁ : (Env.keys e₁).Nodup) (nd₂ : (Env.keys e₂).Nodup) :
    EnvEquiv (Env.retainConstants e₁) (Env.retainConstants e₂) := by
  intro k
  rw [Env.get_retainConstants nd₁, Env.get_retainConstants nd₂, h k]

theorem bindParams_equiv (ps : List (Param S)) :
    ∀ (as : List (Value S)) (e₁ e₂ : Env S), EnvEquiv e₁ e₂ →
      EnvEquiv (bindParams ps as e₁) (bindParams ps as e₂) := by
  induction ps with
  | nil => intro as e₁ e₂ h; rw [bindParams_nil, bindParams_nil]; exact h
  | cons p ps ih =>
    intro as e₁ e₂ h
    cases as with
    | nil => rw [bindParams_cons_nil, bindParams_cons_nil]; exact h
    | cons a as =>
      cases p with
      | ident n => rw [bindParams_ident, bindParams_ident]; exact ih as _ _ (h.insert n _)
      | number z => rw [bindParams_number, bindParams_number]; exact ih as _ _ h

/-! ### the list evaluators, for an evaluator that hands its table back -/

theorem evalList_equiv (ev : Evaluator S) (henv : ∀ e env, (ev e env).env = env)
    {e₁ e₂ : Env S} (hres : ∀ e, (ev e e₁).res = (ev e e₂).res) :
    ∀ es, (evalList ev es e₁).1 = (evalList ev es e₂).1 := by
  intro es
  induction es with
  | nil => rfl
  | cons e es ih =>
    unfold evalList
    simp only [henv, hres e]
    generalize evalList ev es e₁ = q1 at ih
    generalize evalList ev es e₂ = q2 at ih
    obtain ⟨r1, env1⟩ := q1
    obtain ⟨r2, env2⟩ := q2
    simp only at ih
    subst ih
    cases (ev e e₂).res with
    | ok v => cases r1 <;> rfl
    | diag d => rfl
    | panic s => rfl
    | fuel => rfl

theorem evalRow_equiv (ev : Evaluator S) (henv : ∀ e env, (ev e env).env = env)
    {e₁ e₂ : Env S} (hres : ∀ e, (ev e e₁).res = (ev e e₂).res) (br : Tok S) (rowIdx : Nat) :
    ∀ es colIdx, (evalRow ev br rowIdx colIdx es e₁).1 = (evalRow ev br rowIdx colIdx es e₂).1 := by
  intro es
  induction es with
  | nil => intro c; rfl
  | cons e es ih =>
    intro c
    unfold evalRow
    simp only [henv, hres e]
    have ih' := ih (c + 1)
    generalize evalRow ev br rowIdx (c + 1) es e₁ = q1 at ih'
    generalize evalRow ev br rowIdx (c + 1) es e₂ = q2 at ih'
    obtain ⟨r1, env1⟩ := q1
    obtain ⟨r2, env2⟩ := q2
    simp only at ih'
    subst ih'
    cases (ev e e₂).res with
    | ok v =>
      cases v with
      | number z => cases r1 <;> rfl
      | measurement z u => rfl
      | matrix m => rfl
      | native n => rfl
      | user fn => rfl
    | diag d => rfl
    | panic s => rfl
    | fuel => rfl

theorem evalRows_equiv (ev : Evaluator S) (henv : ∀ e env, (ev e env).env = env)
    {e₁ e₂ : Env S} (hres : ∀ e, (ev e e₁).res = (ev e e₂).res) (br : Tok S) :
    ∀ rows rowIdx, (evalRows ev br rowIdx rows e₁).1 = (evalRows ev br rowIdx rows e₂).1 := by
  intro rows
  induction rows with
  | nil => intro r; rfl
  | cons row rows ih =>
    intro r
    unfold evalRows
    have h1 := evalRow_equiv ev henv hres br r row 0
    have h1e₁ := evalRow_env ev henv br r row 0 e₁
    have h1e₂ := evalRow_env ev henv br r row 0 e₂
    generalize evalRow ev br r 0 row e₁ = p1 at h1 h1e₁
    generalize evalRow ev br r 0 row e₂ = p2 at h1 h1e₂
    obtain ⟨s1, env1⟩ := p1
    obtain ⟨s2, env2⟩ := p2
    simp only at h1 h1e₁ h1e₂
    subst h1; subst h1e₁; subst h1e₂
    simp only
    have ih' := ih (r + 1)
    generalize evalRows ev br (r + 1) rows env1 = q1 at ih'
    generalize evalRows ev br (r + 1) rows env2 = q2 at ih'
    obtain ⟨r1, env1'⟩ := q1
    obtain ⟨r2, env2'⟩ := q2
    simp only at ih'
    subst ih'
    cases s1 with
    | ok zs => cases r1 <;> rfl
    | diag d => rfl
    | panic s => rfl
    | fuel => rfl

end Table

/-! ### the evaluator -/

section Eval
variable {S : Type} [Add S] [Sub S] [Mul S] [Div S] [Zero S] [One S] [Kernel S]

omit [Add S] [Sub S] [Mul S] [Div S] [Zero S] [One S] in
theorem callUser_equiv (ev : Evaluator S)
    (hev : ∀ e (e₁ e₂ : Env S), EnvEquiv e₁ e₂ → (ev e e₁).res = (ev e e₂).res)
    (fn : UserFn S) (line col : Nat) (vs : List (Value S)) {e₁ e₂ : Env S}
    (h : EnvEquiv e₁ e₂) :
    callUser ev fn line col vs e₁ = callUser ev fn line col vs e₂ := by
  unfold callUser
  split
  · exact hev _ _ _ (bindParams_equiv _ _ _ _ h)
  · rfl

omit [Add S] [Sub S] [Mul S] [Div S] [Zero S] [One S] [Kernel S] in
theorem lookupIdent_equiv (name : Tok S) {e₁ e₂ : Env S} (h : EnvEquiv e₁ e₂) :
    lookupIdent name e₁ = lookupIdent name e₂ := by
  simp only [lookupIdent, h name.lexeme]

/-- the value (or diagnostic) of an expression depends only on the bindings -/
theorem eval_equiv : ∀ (fuel : Nat) (e : Expr S) (e₁ e₂ : Env S), EnvEquiv e₁ e₂ →
    (eval fuel e e₁).res = (eval fuel e e₂).res := by
  intro fuel
  induction fuel with
  | zero => intro e e₁ e₂ _; rfl
  | succ f ih =>
    intro e e₁ e₂ h
    cases e with
    | number z => rfl
    | measurement z u => rfl
    | ident name => simp only [eval, lookupIdent_equiv name h]
    | as_ x tok u =>
      simp only [eval]
      have h1 := ih x e₁ e₂ h
      generalize eval f x e₁ = o1 at h1
      generalize eval f x e₂ = o2 at h1
      obtain ⟨r1, env1⟩ := o1
      obtain ⟨r2, env2⟩ := o2
      simp only at h1
      subst h1
      cases r1 <;> rfl
    | unary op x =>
      simp only [eval]
      have h1 := ih x e₁ e₂ h
      generalize eval f x e₁ = o1 at h1
      generalize eval f x e₂ = o2 at h1
      obtain ⟨r1, env1⟩ := o1
      obtain ⟨r2, env2⟩ := o2
      simp only at h1
      subst h1
      cases r1 <;> rfl
    | grouping p k x =>
      simp only [eval]
      have h1 := ih x e₁ e₂ h
      generalize eval f x e₁ = o1 at h1
      generalize eval f x e₂ = o2 at h1
      obtain ⟨r1, env1⟩ := o1
      obtain ⟨r2, env2⟩ := o2
      simp only at h1
      subst h1
      cases r1 <;> rfl
    | binary l op r =>
      simp only [eval, eval_env]
      have h1 := ih l e₁ e₂ h
      have h2 := ih r e₁ e₂ h
      generalize eval f l e₁ = o1 at h1
      generalize eval f l e₂ = o2 at h1
      generalize eval f r e₁ = o3 at h2
      generalize eval f r e₂ = o4 at h2
      obtain ⟨r1, env1⟩ := o1
      obtain ⟨r2, env2⟩ := o2
      obtain ⟨r3, env3⟩ := o3
      obtain ⟨r4, env4⟩ := o4
      simp only at h1 h2
      subst h1; subst h2
      cases r1 with
      | ok a => cases r3 <;> rfl
      | diag d => rfl
      | panic s => rfl
      | fuel => rfl
    | matrix br rows =>
      cases rows with
      | nil => rfl
      | cons row rows =>
        simp only [eval]
        have h1 := evalRows_equiv (eval f) (eval_env f) (fun e => ih e e₁ e₂ h) br
          (row :: rows) 0
        generalize evalRows (eval f) br 0 (row :: rows) e₁ = q1 at h1
        generalize evalRows (eval f) br 0 (row :: rows) e₂ = q2 at h1
        obtain ⟨r1, env1⟩ := q1
        obtain ⟨r2, env2⟩ := q2
        simp only at h1
        subst h1
        cases r1 <;> rfl
    | call callee paren args =>
      simp only [eval, eval_env]
      have h1 := ih callee e₁ e₂ h
      have h2 := evalList_equiv (eval f) (eval_env f) (fun e => ih e e₁ e₂ h) args
      have h3 := evalList_env (eval f) (eval_env f) args e₁
      have h4 := evalList_env (eval f) (eval_env f) args e₂
      generalize eval f callee e₁ = o1 at h1
      generalize eval f callee e₂ = o2 at h1
      generalize evalList (eval f) args e₁ = q1 at h2 h3
      generalize evalList (eval f) args e₂ = q2 at h2 h4
      obtain ⟨r1, env1⟩ := o1
      obtain ⟨r2, env2⟩ := o2
      obtain ⟨r3, env3⟩ := q1
      obtain ⟨r4, env4⟩ := q2
      simp only at h1 h2 h3 h4
      subst h1; subst h2; subst h3; subst h4
      cases r1 with
      | ok v =>
        cases v with
        | number z => rfl
        | measurement z u => rfl
        | matrix m => rfl
        | native n => cases r3 <;> rfl
        | user fn =>
          cases r3 with
          | ok vs => exact callUser_equiv (eval f) ih fn _ _ vs h
          | diag d => rfl
          | panic s => rfl
          | fuel => rfl
      | diag d => rfl
      | panic s => rfl
      | fuel => rfl

end Eval

/-! ### statements, texts, the prompt loop, a session -/

section Step
variable {S : Type} [Add S] [Sub S] [Mul S] [Div S] [Zero S] [One S] [Kernel S]

/-- same printed lines, same bindings afterwards -/
def StepEquiv (o₁ o₂ : StepOut S) : Prop := o₁.out = o₂.out ∧ EnvEquiv o₁.env o₂.env

omit [Add S] [Sub S] [Mul S] [Div S] [Zero S] [One S] [Kernel S] in
theorem StepEquiv.errOut {e₁ e₂ : Env S} (h : EnvEquiv e₁ e₂) (k : EvalErrKind) (t : Tok S)
    (info : Str) : StepEquiv (errOut e₁ k t info) (errOut e₂ k t info) :=
  ⟨rfl, h⟩

/-- Every statement other than `clear` respects `EnvEquiv` with no assumption on the tables. -/
theorem step_equiv_of_ne_clear (fuel : Nat) {e₁ e₂ : Env S} (h : EnvEquiv e₁ e₂) (s : Stmt S)
    (hs : s ≠ .clear) : StepEquiv (step fuel e₁ s) (step fuel e₂ s) := by
  cases s with
  | clear => exact absurd rfl hs
  | expr e =>
    simp only [step, eval_env]
    exact ⟨by rw [eval_equiv fuel e e₁ e₂ h], h⟩
  | deleteVar name =>
    simp only [step, h name.lexeme]
    cases Env.get e₂ name.lexeme with
    | none => exact .errOut h ..
    | some v =>
      simp only
      cases v.constant with
      | true => exact .errOut h ..
      | false => exact ⟨rfl, h.remove _⟩
  | deleteSig name sig =>
    simp only [step, h name.lexeme]
    cases Env.get e₂ name.lexeme with
    | none => exact .errOut h ..
    | some v =>
      obtain ⟨val, c⟩ := v
      cases c with
      | true => exact .errOut h ..
      | false =>
        cases val with
        | number z => exact .errOut h ..
        | measurement z u => exact .errOut h ..
        | matrix m => exact .errOut h ..
        | native n => exact .errOut h ..
        | user fn =>
          simp only [Bool.false_eq_true, if_false]
          split
          · exact .errOut h ..
          · split
            · exact ⟨rfl, h.remove _⟩
            · exact ⟨rfl, h.insert _ _⟩
  | assign name e =>
    simp only [step, eval_env, h name.lexeme, eval_equiv fuel e e₁ e₂ h]
    have hcore : StepEquiv
        (match (eval fuel e e₂).res with
          | .ok v => (⟨Env.insert e₁ name.lexeme ⟨v, false⟩, []⟩ : StepOut S)
          | r => ⟨e₁, resLine r⟩)
        (match (eval fuel e e₂).res with
          | .ok v => (⟨Env.insert e₂ name.lexeme ⟨v, false⟩, []⟩ : StepOut S)
          | r => ⟨e₂, resLine r⟩) := by
      cases (eval fuel e e₂).res with
      | ok v => exact ⟨rfl, h.insert _ _⟩
      | diag d => exact ⟨rfl, h⟩
      | panic s => exact ⟨rfl, h⟩
      | fuel => exact ⟨rfl, h⟩
    cases Env.get e₂ name.lexeme with
    | none => exact hcore
    | some v =>
      obtain ⟨val, c⟩ := v
      cases c with
      | true => exact .errOut h ..
      | false => exact hcore
  | define name sig body =>
    simp only [step, h name.lexeme]
    cases Env.get e₂ name.lexeme with
    | none => exact ⟨rfl, h.insert _ _⟩
    | some v =>
      obtain ⟨val, c⟩ := v
      cases c with
      | true => exact .errOut h ..
      | false =>
        cases val with
        | number z => exact ⟨rfl, h.insert _ _⟩
        | measurement z u => exact ⟨rfl, h.insert _ _⟩
        | matrix m => exact ⟨rfl, h.insert _ _⟩
        | native n => exact .errOut h ..
        | user fn => exact ⟨rfl, h.insert _ _⟩

/-- every statement respects `EnvEquiv` on tables with distinct keys -/
theorem step_equiv (fuel : Nat) {e₁ e₂ : Env S} (h : EnvEquiv e₁ e₂)
    (nd₁ : (Env.keys e₁).Nodup) (nd₂ : (Env.keys e₂).Nodup) (s : Stmt S) :
    StepEquiv (step fuel e₁ s) (step fuel e₂ s) := by
  cases s with
  | clear => exact ⟨rfl, h.retainConstants nd₁ nd₂⟩
  | expr e => exact step_equiv_of_ne_clear fuel h _ (by intro e; cases e)
  | deleteVar name => exact step_equiv_of_ne_clear fuel h _ (by intro e; cases e)
  | deleteSig name sig => exact step_equiv_of_ne_clear fuel h _ (by intro e; cases e)
  | assign name e => exact step_equiv_of_ne_clear fuel h _ (by intro e; cases e)
  | define name sig body => exact step_equiv_of_ne_clear fuel h _ (by intro e; cases e)

theorem runStmts_equiv (fuel : Nat) (ss : List (Stmt S)) :
    ∀ {e₁ e₂ : Env S}, EnvEquiv e₁ e₂ → (Env.keys e₁).Nodup → (Env.keys e₂).Nodup →
      StepEquiv (runStmts fuel e₁ ss) (runStmts fuel e₂ ss) := by
  induction ss with
  | nil => intro e₁ e₂ h _ _; exact ⟨rfl, h⟩
  | cons s ss ih =>
    intro e₁ e₂ h nd₁ nd₂
    obtain ⟨ho, he⟩ := step_equiv fuel h nd₁ nd₂ s
    obtain ⟨ho', he'⟩ := ih he (step_keys_nodup fuel e₁ s nd₁) (step_keys_nodup fuel e₂ s nd₂)
    simp only [runStmts]
    exact ⟨by rw [ho, ho'], he'⟩

theorem processText_keys_nodup (cfg : ScanCfg S) (fuel : Nat) (env : Env S) (text : Str)
    (nd : (Env.keys env).Nodup) : (Env.keys (processText cfg fuel env text).env).Nodup := by
  unfold processText
  split
  · exact nd
  · exact nd
  · exact nd
  · split
    · exact nd
    · exact nd
    · exact runStmts_keys_nodup fuel _ env nd

theorem processText_equiv (cfg : ScanCfg S) (fuel : Nat) (text : Str) {e₁ e₂ : Env S}
    (h : EnvEquiv e₁ e₂) (nd₁ : (Env.keys e₁).Nodup) (nd₂ : (Env.keys e₂).Nodup) :
    StepEquiv (processText cfg fuel e₁ text) (processText cfg fuel e₂ text) := by
  unfold processText
  cases scan cfg text with
  | bad e => exact ⟨rfl, h⟩
  | panic s => exact ⟨rfl, h⟩
  | fuel => exact ⟨rfl, h⟩
  | ok toks =>
    simp only
    cases parse toks with
    | err e => exact ⟨rfl, h⟩
    | fuel => exact ⟨rfl, h⟩
    | ok stmts => exact runStmts_equiv fuel stmts h nd₁ nd₂

theorem repl_equiv (cfg : ScanCfg S) (fuel : Nat) (ls : List Str) :
    ∀ {e₁ e₂ : Env S}, EnvEquiv e₁ e₂ → (Env.keys e₁).Nodup → (Env.keys e₂).Nodup →
      StepEquiv (repl cfg fuel e₁ ls) (repl cfg fuel e₂ ls) := by
  induction ls with
  | nil => intro e₁ e₂ h _ _; exact ⟨rfl, h⟩
  | cons l ls ih =>
    intro e₁ e₂ h nd₁ nd₂
    simp only [repl]
    cases isExit l with
    | true => exact ⟨rfl, h⟩
    | false =>
      simp only [Bool.false_eq_true, if_false]
      obtain ⟨ho, he⟩ := processText_equiv cfg fuel (ensureTrailingNewline l) h nd₁ nd₂
      obtain ⟨ho', he'⟩ := ih he (processText_keys_nodup cfg fuel e₁ _ nd₁)
        (processText_keys_nodup cfg fuel e₂ _ nd₂)
      exact ⟨by rw [ho, ho'], he'⟩

theorem session_equiv (cfg : ScanCfg S) (fuel : Nat) (file expr : Option Str)
    (stdin : List Str) {e₁ e₂ : Env S} (h : EnvEquiv e₁ e₂) (nd₁ : (Env.keys e₁).Nodup)
    (nd₂ : (Env.keys e₂).Nodup) :
    StepEquiv (session cfg fuel e₁ file expr stdin) (session cfg fuel e₂ file expr stdin) := by
  have hfile : ∀ file : Option Str,
      StepEquiv
        (match file with
          | some t => processText cfg fuel e₁ (ensureTrailingNewline t)
          | none => ⟨e₁, []⟩)
        (match file with
          | some t => processText cfg fuel e₂ (ensureTrailingNewline t)
          | none => ⟨e₂, []⟩) ∧
      (Env.keys (match file with
          | some t => processText cfg fuel e₁ (ensureTrailingNewline t)
          | none => (⟨e₁, []⟩ : StepOut S)).env).Nodup ∧
      (Env.keys (match file with
          | some t => processText cfg fuel e₂ (ensureTrailingNewline t)
          | none => (⟨e₂, []⟩ : StepOut S)).env).Nodup := by
    intro file
    cases file with
    | none => exact ⟨⟨rfl, h⟩, nd₁, nd₂⟩
    | some t =>
      exact ⟨processText_equiv cfg fuel _ h nd₁ nd₂, processText_keys_nodup cfg fuel e₁ _ nd₁,
        processText_keys_nodup cfg fuel e₂ _ nd₂⟩
  obtain ⟨⟨ho, he⟩, n1, n2⟩ := hfile file
  unfold session
  cases expr with
  | some t =>
    obtain ⟨ho', he'⟩ := processText_equiv cfg fuel (ensureTrailingNewline t) he n1 n2
    exact ⟨append_congr ho ho', he'⟩
  | none =>
    obtain ⟨ho', he'⟩ := repl_equiv cfg fuel stdin he n1 n2
    exact ⟨append_congr (append_congr (append_congr ho rfl) ho') rfl, he'⟩

end Step

end Calc
