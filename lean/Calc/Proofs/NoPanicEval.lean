/-
  Calc.Proofs.NoPanicEval — evaluating a well-formed tree in a well-formed table never reaches
  a panic site and returns a well-formed value (C01), for every amount of fuel.
-/
import Calc.Proofs.EvalPure
import Calc.Proofs.EnvLemmas
import Calc.Proofs.NoPanicOps
import Calc.Proofs.NoPanicNative
namespace Calc
variable {S : Type} [Add S] [Sub S] [Mul S] [Div S] [Zero S] [One S] [Kernel S]
set_option linter.unusedSectionVars false

/-! ### tables -/

theorem EnvWF.remove {env : Env S} (h : EnvWF env) (k : Str) : EnvWF (Env.remove env k) := by
  intro kv hkv
  exact h kv (List.mem_filter.mp hkv).1

theorem EnvWF.insert {env : Env S} (h : EnvWF env) (k : Str) {v : Value S} (hv : v.WF) (c : Bool) :
    EnvWF (Env.insert env k ⟨v, c⟩) := by
  intro kv hkv
  rcases List.mem_cons.mp hkv with rfl | hkv
  · exact hv
  · exact h.remove k kv hkv

theorem EnvWF.retainConstants {env : Env S} (h : EnvWF env) : EnvWF (Env.retainConstants env) := by
  intro kv hkv
  exact h kv (List.mem_filter.mp hkv).1

theorem EnvWF.get {env : Env S} (h : EnvWF env) {k : Str} {v : Variable S}
    (hg : Env.get env k = some v) : v.value.WF :=
  h _ (Env.mem_of_get hg)

theorem EnvWF.bindParams (ps : List (Param S)) :
    ∀ (vs : List (Value S)) (env : Env S), EnvWF env → (∀ v ∈ vs, v.WF) →
      EnvWF (bindParams ps vs env) := by
  induction ps with
  | nil => intro vs env he _; unfold Calc.bindParams; exact he
  | cons p ps ih =>
    intro vs env he hvs
    cases vs with
    | nil => cases p <;> (unfold Calc.bindParams; exact he)
    | cons v vs =>
      have hv : v.WF := hvs v List.mem_cons_self
      have hrest : ∀ w ∈ vs, w.WF := fun w hw => hvs w (List.mem_cons_of_mem _ hw)
      cases p with
      | ident n =>
        unfold Calc.bindParams
        exact ih vs _ (he.insert n hv false) hrest
      | number z =>
        unfold Calc.bindParams
        exact ih vs _ he hrest

/-! ### an evaluator that is pure and panic-free on well-formed input -/

/-- what the fuel induction provides for the evaluator one level down -/
structure EvGood (ev : Evaluator S) : Prop where
  pure : ∀ e env, (ev e env).env = env
  good : ∀ e env, e.EvalWF → EnvWF env → (ev e env).res.NoPanic Value.WF

theorem evalList_noPanic {ev : Evaluator S} (hev : EvGood ev) :
    ∀ (es : List (Expr S)) (env : Env S), Expr.EvalWFArgs es → EnvWF env →
      (evalList ev es env).1.NoPanic (fun vs => ∀ v ∈ vs, v.WF) := by
  intro es
  induction es with
  | nil => intro env _ _ v hv; cases hv
  | cons e es ih =>
    intro env hwf henv
    obtain ⟨he, hes⟩ := hwf
    have h1 := hev.good e env he henv
    unfold evalList
    simp only
    split
    · next v hv =>
      rw [hv] at h1
      have h2 := ih (ev e env).env hes (by rw [hev.pure]; exact henv)
      split
      · next vs hvs =>
        rw [hvs] at h2
        intro w hw
        rcases List.mem_cons.mp hw with rfl | hw
        · exact h1
        · exact h2 w hw
      · next r hne =>
        revert h2
        cases hq : (evalList ev es (ev e env).env).fst with
        | ok vs => exact absurd hq (hne vs)
        | _ => exact id
    · trivial
    · next s hs => rw [hs] at h1; exact h1
    · trivial

theorem evalRow_noPanic {ev : Evaluator S} (hev : EvGood ev) (br : Tok S) (ri : Nat) :
    ∀ (es : List (Expr S)) (ci : Nat) (env : Env S), Expr.EvalWFArgs es → EnvWF env →
      (evalRow ev br ri ci es env).1.NoPanic (fun zs => zs.length = es.length) := by
  intro es
  induction es with
  | nil => intro ci env _ _; rfl
  | cons e es ih =>
    intro ci env hwf henv
    obtain ⟨he, hes⟩ := hwf
    have h1 := hev.good e env he henv
    unfold evalRow
    simp only
    split
    · next z hz =>
      have h2 := ih (ci + 1) (ev e env).env hes (by rw [hev.pure]; exact henv)
      split
      · next zs hzs =>
        rw [hzs] at h2
        simp only [Res.NoPanic, List.length_cons] at h2 ⊢
        rw [h2]
      · next r hne =>
        revert h2
        cases hq : (evalRow ev br ri (ci + 1) es (ev e env).env).fst with
        | ok zs => exact absurd hq (hne zs)
        | diag d => exact id
        | panic s => exact id
        | fuel => exact id
    · trivial
    · trivial
    · next s hs => rw [hs] at h1; exact h1
    · trivial

theorem evalRows_noPanic {ev : Evaluator S} (hev : EvGood ev) (br : Tok S) :
    ∀ (rows : List (List (Expr S))) (ri : Nat) (env : Env S), Expr.EvalWFRows rows → EnvWF env →
      (evalRows ev br ri rows env).1.NoPanic
        (fun zss => zss.map List.length = rows.map List.length) := by
  intro rows
  induction rows with
  | nil => intro ri env _ _; rfl
  | cons row rows ih =>
    intro ri env hwf henv
    obtain ⟨hrow, hrows⟩ := hwf
    have h1 := evalRow_noPanic hev br ri row 0 env hrow henv
    have hp1 := evalRow_env ev hev.pure br ri row 0 env
    unfold evalRows
    simp only
    split
    · next zs hzs =>
      rw [hzs] at h1
      have h2 := ih (ri + 1) (evalRow ev br ri 0 row env).2 hrows (by rw [hp1]; exact henv)
      split
      · next zss hzss =>
        rw [hzss] at h2
        simp only [Res.NoPanic, List.map_cons] at h1 h2 ⊢
        rw [h1, h2]
      · next r hne =>
        revert h2
        cases hq : (evalRows ev br (ri + 1) rows (evalRow ev br ri 0 row env).snd).fst with
        | ok zss => exact absurd hq (hne zss)
        | diag d => exact id
        | panic s => exact id
        | fuel => exact id
    · trivial
    · next s hs => rw [hs] at h1; exact h1
    · trivial

/-- numbers laid out like a well-formed literal form a well-shaped matrix -/
theorem wellShaped_of_layout {rows : List (List (Expr S))} {zss : List (List S)}
    (hne : rows ≠ []) (hrow : ∀ r ∈ rows, r ≠ [])
    (huni : ∀ a ∈ rows, ∀ b ∈ rows, a.length = b.length)
    (hlay : zss.map List.length = rows.map List.length) : Mat.wellShaped zss = true := by
  cases rows with
  | nil => exact absurd rfl hne
  | cons r0 rs =>
    have hlen : zss.length = (r0 :: rs).length := by
      have := congrArg List.length hlay
      simpa using this
    have hc : 0 < r0.length := by
      have := hrow r0 List.mem_cons_self
      cases r0 with
      | nil => exact absurd rfl this
      | cons => simp
    refine (Mat.NoPanic.wellShaped_of_rect (n := (r0 :: rs).length) (c := r0.length) (by simp) hc hlen
      ?_).1
    intro zs hzs
    have : zs.length ∈ zss.map List.length := List.mem_map.mpr ⟨zs, hzs, rfl⟩
    rw [hlay] at this
    obtain ⟨r, hr, hrl⟩ := List.mem_map.mp this
    rw [← hrl]
    exact huni r hr r0 List.mem_cons_self

theorem callUser_noPanic {ev : Evaluator S} (hev : EvGood ev) (fn : UserFn S)
    (hfn : (Value.user fn).WF) (line col : Nat) (args : List (Value S))
    (hargs : ∀ v ∈ args, v.WF) (env : Env S) (henv : EnvWF env) :
    (callUser ev fn line col args env).NoPanic Value.WF := by
  unfold callUser
  split
  · next sig body hf =>
    have hmem := List.mem_of_find?_eq_some hf
    exact hev.good body _ (hfn _ hmem) (EnvWF.bindParams sig.params args env henv hargs)
  · trivial

/-! ### the evaluator -/

theorem eval_evGood (hpos : PosToNat S) : ∀ fuel : Nat, EvGood (eval (S := S) fuel) := by
  intro fuel
  induction fuel with
  | zero => exact ⟨eval_env 0, fun e env _ _ => trivial⟩
  | succ f ih =>
    refine ⟨eval_env (f + 1), ?_⟩
    intro e env hwf henv
    cases e with
    | number z => exact trivial
    | measurement z u => exact trivial
    | ident name => exact (lookupIdent_safe name env henv).noPanic
    | as_ x tok u =>
      simp only [Expr.EvalWF] at hwf
      have h1 := ih.good x env hwf henv
      simp only [eval]
      split
      · exact (asop_safe tok u _).noPanic
      · exact h1
    | unary op x =>
      simp only [Expr.EvalWF] at hwf
      have h1 := ih.good x env hwf.2 henv
      simp only [eval]
      split
      · next v hv => rw [hv] at h1; exact (unop_safe op v hwf.1 h1).noPanic
      · exact h1
    | grouping p k x =>
      simp only [Expr.EvalWF] at hwf
      have h1 := ih.good x env hwf henv
      simp only [eval]
      split
      · next v hv => rw [hv] at h1; exact (groupop_safe p k v h1).noPanic
      · exact h1
    | binary l op r =>
      simp only [Expr.EvalWF] at hwf
      obtain ⟨hop, hl, hr⟩ := hwf
      have h1 := ih.good l env hl henv
      simp only [eval]
      split
      · next a ha =>
        rw [ha] at h1
        have h2 := ih.good r (eval f l env).env hr (by rw [eval_env]; exact henv)
        split
        · next b hb => rw [hb] at h2; exact (binop_safe op a b hop h1 h2).noPanic
        · exact h2
      · exact h1
    | matrix br rows =>
      simp only [Expr.EvalWF] at hwf
      obtain ⟨hne, hrow, huni, hrows⟩ := hwf
      simp only [eval]
      split
      · exact absurd rfl hne
      · next r0 rs =>
        have h1 := evalRows_noPanic ih br (r0 :: rs) 0 env hrows henv
        split
        · next zss hz =>
          rw [hz] at h1
          have hw := wellShaped_of_layout hne hrow huni h1
          simp only [Mat.NoPanic.fromRows_ok hw, Res.bind]
          exact hw
        · trivial
        · next s hs => rw [hs] at h1; exact h1
        · trivial
    | call c p args =>
      simp only [Expr.EvalWF] at hwf
      obtain ⟨hc, hargs⟩ := hwf
      have h1 := ih.good c env hc henv
      have hl := evalList_noPanic ih args (eval f c env).env hargs (by rw [eval_env]; exact henv)
      have henv' : EnvWF (evalList (eval f) args (eval f c env).env).2 := by
        rw [evalList_env (eval f) ih.pure, eval_env]; exact henv
      simp only [eval]
      split
      · next n hn =>
        rw [hn] at h1
        split
        · next vs hvs => rw [hvs] at hl; exact (callNative_safe hpos n h1 _ _ vs hl).noPanic
        · trivial
        · next s hs => rw [hs] at hl; exact hl
        · trivial
      · next fn hn =>
        rw [hn] at h1
        split
        · next vs hvs =>
          rw [hvs] at hl
          exact callUser_noPanic ih fn h1 _ _ vs hl _ henv'
        · trivial
        · next s hs => rw [hs] at hl; exact hl
        · trivial
      · trivial
      · exact h1

theorem eval_noPanic (hpos : PosToNat S) (fuel : Nat) (e : Expr S) (env : Env S)
    (hwf : e.EvalWF) (henv : EnvWF env) : (eval fuel e env).res.NoPanic Value.WF :=
  (eval_evGood hpos fuel).good e env hwf henv

end Calc
