/-
  Calc.Proofs.PrintBitsForms — the character set of `Calc.Exec.fmtBits`, and what follows from it
  for the remaining printed forms (measurements, matrices) at the level of binary64 BIT PATTERNS.

  Calc/Proofs/PrintBits.lean proves `Spec.FmtSpec` of `fmtBits` (the text reads back, has no blank,
  ends like a real's text).  The measurement and matrix theorems of C15 need more of the text of a
  real: no comma, no line break, no parenthesis, ASCII only.  Here:

    * `fmtDigits_shape`, `fmtBits_shape`, `fmtBits_charset` — for EVERY pattern `b` (canonical or
      not) the text is `NaN`, or an optional `-` (present exactly when the sign bit is set) followed
      by `inf` or by a positional literal `D` / `D.F` of decimal digits;
    * `complexToString_cxChars` — so the text of a pair of patterns is made of the digits and
      `.`, `-`, `+`, blank, `i`, `n`, `f`, `N`, `a` only: it is a clean matrix cell, every character
      is one byte long (so the column width `matrix_format` computes in BYTES is the width in
      characters and the columns line up), and it does not begin with `(`;
    * the measurement reader's `unparen` and the matrix reader `readMatrix`, with their round
      trips, stated in Calc/Props/C15BitsForms.lean.
-/
import Calc.Proofs.PrintBits
import Calc.Proofs.PrintMatrix
import Calc.Proofs.PrintSplit
import Calc.Model.Matrix

namespace Calc.PrintBits
open Calc Calc.Spec Calc.Exec

/-! ## the shape of the digits text -/

/-- a non-empty string of decimal digits -/
def Digits (s : Str) : Prop := s ≠ [] ∧ ∀ c ∈ s, isDigitCh c = true

/-- a positional literal: `D` or `D.F` -/
def Positional (s : Str) : Prop :=
  Digits s ∨ ∃ ip fp, Digits ip ∧ Digits fp ∧ s = ip ++ '.' :: fp

theorem digits_toDigits (n : Nat) : Digits (Nat.toDigits 10 n) :=
  ⟨Nat.toDigits_ne_nil, fun _ h => PrintExample.digit_toDigits h⟩

theorem digits_append {a b : Str} (ha : Digits a) (hb : ∀ c ∈ b, isDigitCh c = true) :
    Digits (a ++ b) := by
  refine ⟨by simp [ha.1], ?_⟩
  intro c hc
  rcases List.mem_append.1 hc with h | h
  · exact ha.2 c h
  · exact hb c h

theorem digits_append' {a b : Str} (ha : ∀ c ∈ a, isDigitCh c = true) (hb : Digits b) :
    Digits (a ++ b) := by
  refine ⟨by simp [hb.1], ?_⟩
  intro c hc
  rcases List.mem_append.1 hc with h | h
  · exact ha c h
  · exact hb.2 c h

theorem zeros_digits (j : Nat) : ∀ c ∈ List.replicate j '0', isDigitCh c = true := by
  intro c hc
  rw [(List.mem_replicate.1 hc).2]; decide

/-- **the digits text is `D` or `D.F`** — whatever the digits `c` and the exponent `k` -/
theorem fmtDigits_shape (c : Nat) (k : Int) : Positional (fmtDigits c k) := by
  have hd := digits_toDigits c
  unfold fmtDigits
  simp only []
  split
  · exact Or.inl (digits_append hd (zeros_digits _))
  · rename_i hk
    split
    · rename_i hlen
      refine Or.inr ⟨_, _, ⟨?_, fun ch h => hd.2 ch (List.mem_of_mem_take h)⟩,
        ⟨?_, fun ch h => hd.2 ch (List.mem_of_mem_drop h)⟩, rfl⟩
      · intro h
        have := congrArg List.length h
        rw [List.length_take] at this
        simp at this; omega
      · intro h
        have := congrArg List.length h
        rw [List.length_drop] at this
        simp at this; omega
    · exact Or.inr ⟨['0'], _, ⟨by simp, by intro ch h; rw [List.mem_singleton] at h; rw [h]; decide⟩,
        digits_append' (zeros_digits _) hd, rfl⟩

/-! ## the shape and the character set of `fmtBits` -/

/-- **the shape of the text of a real.**  For every pattern `b`: the text is `NaN` (when `b` is a
    NaN), or an optional `-` — present exactly when the sign bit of `b` is set — followed by `inf`
    or by a positional literal `D` / `D.F`. -/
theorem fmtBits_shape (b : UInt64) :
    (fmtBits b).toList = ['N', 'a', 'N'] ∨
    ∃ body, (fmtBits b).toList = (if b >>> 63 = 1 then ['-'] else []) ++ body ∧
      (body = ['i', 'n', 'f'] ∨ Positional body) := by
  unfold fmtBits
  simp only []
  split
  · exact Or.inl rfl
  · right
    split
    · refine ⟨['i', 'n', 'f'], ?_, Or.inl rfl⟩
      by_cases hs : b >>> 63 = 1 <;> simp [hs]
    · split
      · refine ⟨['0'], ?_, Or.inr (Or.inl ⟨by simp, by
          intro ch h; rw [List.mem_singleton] at h; rw [h]; decide⟩)⟩
        by_cases hs : b >>> 63 = 1 <;> simp [hs]
      · refine ⟨_, ?_, Or.inr (fmtDigits_shape (shortestDigits (b &&& 0x7FFFFFFFFFFFFFFF)).1
          (shortestDigits (b &&& 0x7FFFFFFFFFFFFFFF)).2)⟩
        by_cases hs : b >>> 63 = 1 <;> simp [hs, String.toList_append]

/-- the characters of the text of a finite real: a digit, the point, the minus sign -/
def numChar (c : Char) : Bool := isDigitCh c || c = '.' || c = '-'

theorem numChar_of_digit {c : Char} (h : isDigitCh c = true) : numChar c = true := by
  simp [numChar, h]

theorem positional_numChar {s : Str} (h : Positional s) :
    s ≠ [] ∧ ∀ c ∈ s, isDigitCh c = true ∨ c = '.' := by
  rcases h with h | ⟨ip, fp, hi, hf, rfl⟩
  · exact ⟨h.1, fun c hc => Or.inl (h.2 c hc)⟩
  · refine ⟨by simp, ?_⟩
    intro c hc
    rcases List.mem_append.1 hc with h | h
    · exact Or.inl (hi.2 c h)
    · rcases List.mem_cons.1 h with h | h
      · exact Or.inr h
      · exact Or.inl (hf.2 c h)

/-- **the character set of the printer of reals.**  For every pattern `b` the text is non-empty,
    and it is `inf`, `-inf` or `NaN`, or every character of it is a decimal digit, `.` or `-`. -/
theorem fmtBits_charset (b : UInt64) :
    (fmtBits b).toList ≠ [] ∧
    ((fmtBits b).toList = ['i', 'n', 'f'] ∨ (fmtBits b).toList = ['-', 'i', 'n', 'f'] ∨
      (fmtBits b).toList = ['N', 'a', 'N'] ∨
      ∀ c ∈ (fmtBits b).toList, isDigitCh c = true ∨ c = '.' ∨ c = '-') := by
  rcases fmtBits_shape b with h | ⟨body, h, hb⟩
  · rw [h]; exact ⟨by simp, Or.inr (Or.inr (Or.inl rfl))⟩
  · rw [h]
    rcases hb with rfl | hb
    · split
      · exact ⟨by simp, Or.inr (Or.inl rfl)⟩
      · exact ⟨by simp, Or.inl rfl⟩
    · obtain ⟨hne, hc⟩ := positional_numChar hb
      refine ⟨by simp [hne], Or.inr (Or.inr (Or.inr ?_))⟩
      intro c hm
      rcases List.mem_append.1 hm with hm | hm
      · split at hm
        · rw [List.mem_singleton] at hm; exact Or.inr (Or.inr hm)
        · simp at hm
      · rcases hc c hm with h | h
        · exact Or.inl h
        · exact Or.inr (Or.inl h)

/-- the characters that occur in the text of a real: the digits, `.`, `-`, and the letters of
    `inf` and `NaN` -/
def realChar (c : Char) : Bool :=
  isDigitCh c || c = '.' || c = '-' || c = 'i' || c = 'n' || c = 'f' || c = 'N' || c = 'a'

/-- every character of the text of a real is a digit, `.`, `-`, or a letter of `inf` / `NaN` -/
theorem fmtBits_realChar (b : UInt64) : ∀ c ∈ (fmtBits b).toList, realChar c = true := by
  obtain ⟨-, h | h | h | h⟩ := fmtBits_charset b
  · rw [h]; decide
  · rw [h]; decide
  · rw [h]; decide
  · intro c hc
    rcases h c hc with h | rfl | rfl
    · simp [realChar, h]
    · decide
    · decide

/-- **none of the delimiters of the printed forms occurs in the text of a real**: no comma, no
    semicolon, no line break (LF or CR), no blank, no tab, no bracket, no parenthesis, no `+` -/
theorem fmtBits_no_delims (b : UInt64) :
    ',' ∉ (fmtBits b).toList ∧ ';' ∉ (fmtBits b).toList ∧ '\n' ∉ (fmtBits b).toList ∧
    '\r' ∉ (fmtBits b).toList ∧ ' ' ∉ (fmtBits b).toList ∧ '\t' ∉ (fmtBits b).toList ∧
    '[' ∉ (fmtBits b).toList ∧ ']' ∉ (fmtBits b).toList ∧ '(' ∉ (fmtBits b).toList ∧
    ')' ∉ (fmtBits b).toList ∧ '+' ∉ (fmtBits b).toList := by
  have h := fmtBits_realChar b
  have k : ∀ c : Char, realChar c = false → c ∉ (fmtBits b).toList := by
    intro c hc hm
    rw [h c hm] at hc; cases hc
  exact ⟨k _ (by decide), k _ (by decide), k _ (by decide), k _ (by decide), k _ (by decide),
    k _ (by decide), k _ (by decide), k _ (by decide), k _ (by decide), k _ (by decide),
    k _ (by decide)⟩

/-- a letter in the text of a real is one of `i`, `n`, `f`, `N`, `a`, and then the text is `inf`,
    `-inf` or `NaN` -/
theorem fmtBits_letters (b : UInt64) (c : Char) (hc : c ∈ (fmtBits b).toList)
    (hl : isDigitCh c = false ∧ c ≠ '.' ∧ c ≠ '-') :
    (fmtBits b).toList = ['i', 'n', 'f'] ∨ (fmtBits b).toList = ['-', 'i', 'n', 'f'] ∨
      (fmtBits b).toList = ['N', 'a', 'N'] := by
  obtain ⟨-, h | h | h | h⟩ := fmtBits_charset b
  · exact Or.inl h
  · exact Or.inr (Or.inl h)
  · exact Or.inr (Or.inr h)
  · exfalso
    rcases h c hc with h | h | h
    · rw [hl.1] at h; cases h
    · exact hl.2.1 h
    · exact hl.2.2 h

/-- the lexical hypothesis of `C15_matrix_value`, for `fmtSpecBits` -/
theorem fmt_clean (x : B64) : ',' ∉ fmtSpecBits.fmt x ∧ '\n' ∉ fmtSpecBits.fmt x :=
  ⟨(fmtBits_no_delims x.bits).1, (fmtBits_no_delims x.bits).2.2.1⟩

/-! ## the character set of the text of a number -/

/-- the characters of a printed number: those of a real, and the blank and `+` of `a + bi` -/
def cxChar (c : Char) : Bool := realChar c || c = ' ' || c = '+'

theorem cxChar_of_realChar {c : Char} (h : realChar c = true) : cxChar c = true := by
  simp [cxChar, h]

section
variable {S R : Type} [Kernel S] [Zero R] [One R] [Neg R]

/-- under `FmtSpec`, when the printer of reals prints only `realChar`s, the text of a number
    consists of `cxChar`s -/
theorem complexToString_all_cxChar (F : FmtSpec S R)
    (hf : ∀ x : R, (F.fmt x).all cxChar = true) (z : S) :
    (complexToString z).all cxChar = true := by
  unfold complexToString
  simp only [F.fmtRe_eq, F.fmtIm_eq, F.fmtAbsIm_eq]
  repeat' split
  all_goals (try simp only [List.all_append, hf, Bool.and_true, Bool.true_and])
  all_goals (try decide)

end

theorem fmt_all_cxChar (x : B64) : (fmtSpecBits.fmt x).all cxChar = true := by
  rw [List.all_eq_true]
  intro c hc
  exact cxChar_of_realChar (fmtBits_realChar x.bits c hc)

/-- **the character set of a printed number**: every character of `complexToString z` is a digit
    or one of `.`, `-`, `+`, blank, `i`, `n`, `f`, `N`, `a` -/
theorem complexToString_cxChars (z : CxBits) : ∀ c ∈ complexToString z, cxChar c = true := by
  have := complexToString_all_cxChar fmtSpecBits fmt_all_cxChar z
  rwa [List.all_eq_true] at this

/-- … so it contains no comma, semicolon, line break, tab, bracket or parenthesis -/
theorem complexToString_no_delims (z : CxBits) :
    ',' ∉ complexToString z ∧ ';' ∉ complexToString z ∧ '\n' ∉ complexToString z ∧
    '\r' ∉ complexToString z ∧ '\t' ∉ complexToString z ∧ '[' ∉ complexToString z ∧
    ']' ∉ complexToString z ∧ '(' ∉ complexToString z ∧ ')' ∉ complexToString z := by
  have h := complexToString_cxChars z
  have k : ∀ c : Char, cxChar c = false → c ∉ complexToString z := by
    intro c hc hm
    rw [h c hm] at hc; cases hc
  exact ⟨k _ (by decide), k _ (by decide), k _ (by decide), k _ (by decide), k _ (by decide),
    k _ (by decide), k _ (by decide), k _ (by decide), k _ (by decide)⟩

/-- the text of a number is a clean matrix cell: non-empty, no blank in front, no comma, no line
    break -/
theorem cleanText_bits (z : CxBits) : CleanText (complexToString z) :=
  cleanText_complexToString fmtSpecBits fmt_clean z

/-! ## every character is one byte: widths in bytes are widths in characters -/

theorem isDigitCh_val {c : Char} (h : isDigitCh c = true) : c.val ≤ 57 := by
  simp only [isDigitCh, Bool.and_eq_true, decide_eq_true_eq] at h
  have := h.2
  rw [Char.le_def] at this
  exact this

theorem cxChar_utf8Size {c : Char} (h : cxChar c = true) : c.utf8Size = 1 := by
  have hv : c.val ≤ 127 := by
    simp only [cxChar, realChar, Bool.or_eq_true, decide_eq_true_eq] at h
    rcases h with (((((((((h | h) | h) | h) | h) | h) | h) | h) | h) | h)
    · have := isDigitCh_val h
      exact UInt32.le_trans this (by decide)
    all_goals (subst h; decide)
  simp [Char.utf8Size, hv]

theorem utf8Len_eq_length {s : Str} (h : ∀ c ∈ s, cxChar c = true) : utf8Len s = s.length := by
  unfold utf8Len
  induction s with
  | nil => rfl
  | cons c cs ih =>
    simp only [List.map_cons, List.sum_cons, List.length_cons]
    rw [cxChar_utf8Size (h c (by simp)), ih (fun x hx => h x (by simp [hx]))]
    omega

/-- the width `matrix_format` uses for an entry (its length in BYTES) is its length in characters -/
theorem utf8Len_complexToString (z : CxBits) :
    utf8Len (complexToString z) = (complexToString z).length :=
  utf8Len_eq_length (complexToString_cxChars z)

/-! ## the reader of a printed measurement's number part -/

/-- drop the parentheses a measurement puts around a two-part number -/
def unparen : Str → Str
  | '(' :: r => r.dropLast
  | s => s

theorem complexToString_head_ne_paren (z : CxBits) : (complexToString z).head? ≠ some '(' := by
  intro h
  exact (complexToString_no_delims z).2.2.2.2.2.2.2.1 (List.mem_of_mem_head? h)

/-- dropping the parentheses from the number part of a printed measurement gives the number's
    text -/
theorem unparen_measText (z : CxBits) : unparen (measText z) = complexToString z := by
  unfold measText
  split
  · show (complexToString z ++ [')']).dropLast = _
    rw [List.dropLast_concat]
  · have h := complexToString_head_ne_paren z
    unfold unparen
    split
    · rename_i r e; rw [e] at h; exact absurd rfl h
    · rfl

/-! ## list lemmas for the matrix statements -/

theorem forall₂_map_left {α β : Type} (f : α → β) (P : β → α → Prop) (l : List α)
    (h : ∀ a ∈ l, P (f a) a) : List.Forall₂ P (l.map f) l := by
  induction l with
  | nil => exact .nil
  | cons a l ih =>
    exact .cons (h a (by simp)) (ih fun x hx => h x (by simp [hx]))

theorem forall₂_of_map_eq {α β : Type} (f : α → β) (l l' : List α) (h : l.map f = l'.map f) :
    List.Forall₂ (fun a b => f a = f b) l l' := by
  induction l generalizing l' with
  | nil =>
    cases l' with
    | nil => exact .nil
    | cons _ _ => simp at h
  | cons a l ih =>
    cases l' with
    | nil => simp at h
    | cons b l' =>
      simp only [List.map_cons, List.cons.injEq] at h
      exact .cons h.1 (ih l' h.2)

theorem forall₂_imp {α β : Type} {P Q : α → β → Prop} (h : ∀ a b, P a b → Q a b)
    {l : List α} {l' : List β} (hl : List.Forall₂ P l l') : List.Forall₂ Q l l' := by
  induction hl with
  | nil => exact .nil
  | cons hab _ ih => exact .cons (h _ _ hab) ih

/-! ## the reader of a printed matrix of numbers -/

/-- read a printed matrix: the rows of cell texts (`Spec.unformat`), each cell read as a number
    (`Spec.readComplex`) -/
def readMatrix {R : Type} [Zero R] [One R] [Neg R] (read : Str → Option R) (s : Str) :
    List (List (Option (R × R))) :=
  (unformat s).map fun r => r.map (readComplex read)

/-- the rows of entry texts of a matrix of pairs of patterns -/
def entryTexts (m : List (List CxBits)) : List (List Str) := m.map fun r => r.map complexToString

theorem entryTexts_ne_nil {m : List (List CxBits)} (h : m ≠ []) : entryTexts m ≠ [] := by
  simpa [entryTexts] using h

theorem entryTexts_rows {m : List (List CxBits)} (h : ∀ r ∈ m, r ≠ []) :
    ∀ r ∈ entryTexts m, r ≠ [] := by
  intro r hr
  simp only [entryTexts, List.mem_map] at hr
  obtain ⟨r', hr', rfl⟩ := hr
  simpa using h r' hr'

theorem entryTexts_clean (m : List (List CxBits)) :
    ∀ r ∈ entryTexts m, ∀ e ∈ r, e ≠ [] ∧ ',' ∉ e ∧ '\n' ∉ e ∧ e.head? ≠ some ' ' := by
  intro r hr e he
  simp only [entryTexts, List.mem_map] at hr
  obtain ⟨r', -, rfl⟩ := hr
  simp only [List.mem_map] at he
  obtain ⟨z, -, rfl⟩ := he
  obtain ⟨h1, h2, h3, h4⟩ := cleanText_bits z
  exact ⟨h1, h3, h4, h2⟩

theorem entryTexts_cxChars (m : List (List CxBits)) :
    ∀ r ∈ entryTexts m, ∀ e ∈ r, ∀ c ∈ e, cxChar c = true := by
  intro r hr e he
  simp only [entryTexts, List.mem_map] at hr
  obtain ⟨r', -, rfl⟩ := hr
  simp only [List.mem_map] at he
  obtain ⟨z, -, rfl⟩ := he
  exact complexToString_cxChars z

/-- the printed matrix reads back as the rows of its entries' texts -/
theorem unformat_showMatrix (m : List (List CxBits)) (hne : m ≠ []) (hrows : ∀ r ∈ m, r ≠ []) :
    unformat (showValue (.matrix m)) = entryTexts m := by
  show unformat (matrixFormat (entryTexts m)) = _
  apply unformat_matrixFormat _ (entryTexts_ne_nil hne) (entryTexts_rows hrows)
  intro r hr e he
  obtain ⟨h1, h2, h3, h4⟩ := entryTexts_clean m r hr e he
  exact ⟨⟨h2, h3, h4⟩, h1⟩

/-- reading the printed matrix: every cell is the reading of the text of the entry -/
theorem readMatrix_showMatrix (m : List (List CxBits)) (hne : m ≠ []) (hrows : ∀ r ∈ m, r ≠ []) :
    readMatrix readBits (showValue (.matrix m)) =
      m.map fun r => r.map fun z => readComplex readBits (complexToString z) := by
  unfold readMatrix
  rw [unformat_showMatrix m hne hrows]
  simp [entryTexts, List.map_map, Function.comp_def]

/-- the three assertions of `Matrix::from_rows` give the shape the printer needs -/
theorem shape_of_wellShaped {m : List (List CxBits)} (h : Mat.wellShaped m = true) :
    m ≠ [] ∧ ∀ r ∈ m, r ≠ [] := by
  unfold Mat.wellShaped at h
  simp only [Bool.and_eq_true, Bool.not_eq_true', List.all_eq_true] at h
  obtain ⟨⟨h1, h2⟩, -⟩ := h
  refine ⟨?_, ?_⟩
  · rintro rfl; simp at h1
  · intro r hr e
    have := h2 r hr
    rw [e] at this; simp at this

/-! ## the columns line up -/

/-- an entry is at most as wide (in bytes) as its column -/
theorem utf8Len_le_width (m : List (List Str)) (row : List Str) (hr : row ∈ m) (e : Str) (w : Nat)
    (h : (e, w) ∈ List.zip row (mfWidths m)) : utf8Len e ≤ w := by
  obtain ⟨j, hj⟩ := List.mem_iff_getElem?.1 h
  rw [List.getElem?_zip_eq_some] at hj
  obtain ⟨h1, h2⟩ := hj
  unfold mfWidths at h2
  rw [List.getElem?_map] at h2
  cases hrg : (List.range ((m.map List.length).foldl max 0))[j]? with
  | none => rw [hrg] at h2; cases h2
  | some j' =>
    rw [hrg] at h2
    have hj' : j' = j := by
      have := List.getElem?_range (by
        have := (List.getElem?_eq_some_iff.1 hrg).1
        simpa using this : j < (m.map List.length).foldl max 0)
      rw [this] at hrg; injection hrg with hrg; exact hrg.symm
    subst hj'
    simp only [Option.map_some, Option.some.injEq] at h2
    rw [← h2]
    refine Nat.le_trans ?_ ((length_le_foldl_max _ 0).2 _ (List.mem_map_of_mem hr))
    simp only [h1]
    exact Nat.le_refl _

theorem padLeft_length {w : Nat} {s : Str} (h : s.length ≤ w) : (padLeft w s).length = w := by
  simp only [padLeft, List.length_append, List.length_replicate]; omega

/-- **the columns line up**: every padded cell of a printed matrix of numbers is exactly as long
    (in characters) as the width of its column — the width is computed in bytes, and every
    character of a number's text is one byte -/
theorem padded_cell_length (m : List (List CxBits)) :
    ∀ r ∈ entryTexts m, ∀ ew ∈ List.zip r (mfWidths (entryTexts m)),
      (padLeft ew.2 ew.1).length = ew.2 := by
  rintro r hr ⟨e, w⟩ hew
  have h1 := utf8Len_le_width (entryTexts m) r hr e w hew
  rw [utf8Len_eq_length (entryTexts_cxChars m r hr e (List.of_mem_zip hew).1)] at h1
  exact padLeft_length h1

/-! ## parentheses around the number of a measurement -/

/-- the number part of a measurement: the number's text, in parentheses or not -/
def paren (p : Bool) (s : Str) : Str := if p then ['('] ++ s ++ [')'] else s

theorem measText_eq_paren (z : CxBits) :
    measText z = paren (!z.re.isZero && !z.im.isZero) (complexToString z) := rfl

theorem numTextEnd_paren (p : Bool) (z : CxBits) :
    numTextEnd (paren p (complexToString z)) = true := by
  cases p
  · exact numTextEnd_complexToString fmtSpecBits z
  · unfold paren numTextEnd
    simp only [if_true, List.reverse_append, List.reverse_cons, List.reverse_nil, List.nil_append,
      List.cons_append]
    rfl

/-- with or without parentheses, the text determines which, and the number's text -/
theorem paren_inj (p q : Bool) (z w : CxBits)
    (h : paren p (complexToString z) = paren q (complexToString w)) :
    p = q ∧ complexToString z = complexToString w := by
  cases p <;> cases q
  · exact ⟨rfl, h⟩
  · exfalso
    apply complexToString_last_ne_paren fmtSpecBits z
    show (paren false (complexToString z)).getLast? = _
    rw [h]; exact getLast?_snoc _ _
  · exfalso
    apply complexToString_last_ne_paren fmtSpecBits w
    show (paren false (complexToString w)).getLast? = _
    rw [← h]; exact getLast?_snoc _ _
  · refine ⟨rfl, ?_⟩
    simpa [paren] using h

theorem unparen_paren (p : Bool) (z : CxBits) :
    unparen (paren p (complexToString z)) = complexToString z := by
  cases p
  · have h := complexToString_head_ne_paren z
    unfold paren unparen
    simp only [Bool.false_eq_true, if_false]
    split
    · rename_i r e; rw [e] at h; exact absurd rfl h
    · rfl
  · show (complexToString z ++ [')']).dropLast = _
    rw [List.dropLast_concat]

end Calc.PrintBits
