/-
  Calc.Proofs.Euclid — the integer routine behind `gcd` / `lcm` (calculator/src/builtin_math.rs,
  `_gcd` and `_lcm` after the repair of the i64 overflow): Euclid's loop
      while b != 0 { (a, b) = (b, a % b) }
  on the absolute values.  On integer-valued doubles `%` (fmod) is exact, so the loop computes on
  natural numbers; this file proves the loop on `Nat` and the `lcm` formula.  The executable
  kernel's port of the loop (`Calc.Exec.Cx.gcdF`, fuel 4000) is what the `builtins` stream compares
  with the Rust; the step count is bounded by the Fibonacci argument (≤ 1476 for doubles).
-/
namespace Calc.Euclid

/-- the loop with an explicit iteration budget -/
def loop : Nat → Nat → Nat → Nat
  | 0, a, _ => a
  | f + 1, a, b => if b = 0 then a else loop f b (a % b)

theorem loop_eq_gcd : ∀ (f a b : Nat), b < f → loop f a b = Nat.gcd a b
  | 0, _, _, h => absurd h (Nat.not_lt_zero _)
  | f + 1, a, b, h => by
    unfold loop
    by_cases hb : b = 0
    · simp [hb]
    · simp only [hb, if_false]
      have hlt : a % b < f := by
        have := Nat.mod_lt a (Nat.pos_of_ne_zero hb)
        omega
      rw [loop_eq_gcd f b (a % b) hlt, Nat.gcd_comm a b, Nat.gcd_rec b a, Nat.gcd_comm]

/-- `_gcd(first, second)`: the loop on the absolute values returns the greatest common divisor -/
theorem gcd_correct (a b : Nat) : loop (b + 1) a b = Nat.gcd a b :=
  loop_eq_gcd (b + 1) a b (Nat.lt_succ_self b)

/-- it divides both arguments -/
theorem gcd_dvd (a b : Nat) : loop (b + 1) a b ∣ a ∧ loop (b + 1) a b ∣ b := by
  rw [gcd_correct]; exact ⟨Nat.gcd_dvd_left a b, Nat.gcd_dvd_right a b⟩

/-- `_lcm(first, second) = |first * (second / gcd)|`, zero if either is zero -/
def lcm (a b : Nat) : Nat := if a = 0 ∨ b = 0 then 0 else a * (b / loop (b + 1) a b)

theorem lcm_correct (a b : Nat) : lcm a b = Nat.lcm a b := by
  unfold lcm
  by_cases h : a = 0 ∨ b = 0
  · rcases h with h | h <;> simp [h]
  · simp only [h, if_false, gcd_correct]
    rw [Nat.lcm, Nat.mul_div_assoc a (Nat.gcd_dvd_right a b)]

/-- the identity the property's quantifier names: gcd · lcm = |a·b| -/
theorem gcd_mul_lcm (a b : Nat) : loop (b + 1) a b * lcm a b = a * b := by
  rw [gcd_correct, lcm_correct, Nat.gcd_mul_lcm]

end Calc.Euclid
