/-
  Calc.Proofs.BlamePos — the positions a diagnostic may carry (C14): the node's own token,
  the tokens of all nodes of a tree, the tokens of the function bodies stored in a table.
  Core Lean only.
-/
import Calc.Model.Stmt
namespace Calc
variable {S : Type}

abbrev SrcPos := Nat × Nat

def Tok.pos (t : Tok S) : SrcPos := (t.line, t.col)

/-- the position of the node's own token: the `as` keyword, the operator, the opening bracket
    of a grouping, the bracket of a matrix literal, the identifier, the call's parenthesis;
    literals have none (they cannot fail) -/
def Expr.ownPositions : Expr S → List SrcPos
  | .as_ _ tok _ => [tok.pos]
  | .binary _ op _ => [op.pos]
  | .unary op _ => [op.pos]
  | .grouping paren _ _ => [paren.pos]
  | .number _ => []
  | .measurement _ _ => []
  | .matrix br _ => [br.pos]
  | .ident name => [name.pos]
  | .call _ paren _ => [paren.pos]

/-- the direct sub-expressions, in evaluation order -/
def Expr.children : Expr S → List (Expr S)
  | .as_ e _ _ => [e]
  | .binary l _ r => [l, r]
  | .unary _ x => [x]
  | .grouping _ _ e => [e]
  | .number _ => []
  | .measurement _ _ => []
  | .matrix _ rows => rows.flatten
  | .ident _ => []
  | .call callee _ args => callee :: args

mutual
/-- the own positions of all nodes of a tree -/
def Expr.allPositions : Expr S → List SrcPos
  | .as_ e tok _ => tok.pos :: e.allPositions
  | .binary l op r => op.pos :: (l.allPositions ++ r.allPositions)
  | .unary op x => op.pos :: x.allPositions
  | .grouping paren _ e => paren.pos :: e.allPositions
  | .number _ => []
  | .measurement _ _ => []
  | .matrix br rows => br.pos :: Expr.rowsPositions rows
  | .ident name => [name.pos]
  | .call callee paren args => paren.pos :: (callee.allPositions ++ Expr.argsPositions args)
def Expr.argsPositions : List (Expr S) → List SrcPos
  | [] => []
  | e :: es => e.allPositions ++ Expr.argsPositions es
def Expr.rowsPositions : List (List (Expr S)) → List SrcPos
  | [] => []
  | r :: rs => Expr.argsPositions r ++ Expr.rowsPositions rs
end

theorem Expr.mem_argsPositions {es : List (Expr S)} {e : Expr S} {p : SrcPos} (he : e ∈ es)
    (hp : p ∈ e.allPositions) : p ∈ Expr.argsPositions es := by
  induction es with
  | nil => cases he
  | cons x xs ih =>
    simp only [Expr.argsPositions, List.mem_append]
    rcases List.mem_cons.mp he with rfl | he
    · exact .inl hp
    · exact .inr (ih he)

theorem Expr.mem_rowsPositions {rows : List (List (Expr S))} {row : List (Expr S)} {p : SrcPos}
    (hr : row ∈ rows) (hp : p ∈ Expr.argsPositions row) : p ∈ Expr.rowsPositions rows := by
  induction rows with
  | nil => cases hr
  | cons x xs ih =>
    simp only [Expr.rowsPositions, List.mem_append]
    rcases List.mem_cons.mp hr with rfl | hr
    · exact .inl hp
    · exact .inr (ih hr)

/-- the node's own token is one of the tokens of the tree -/
theorem Expr.own_sub_all (e : Expr S) {p : SrcPos} (h : p ∈ e.ownPositions) : p ∈ e.allPositions := by
  cases e <;> simp only [Expr.ownPositions, List.mem_singleton, List.not_mem_nil] at h <;>
    subst h <;> simp [Expr.allPositions]

/-- the tokens of a sub-expression are tokens of the tree -/
theorem Expr.child_sub_all {e c : Expr S} {p : SrcPos} (hc : c ∈ e.children)
    (h : p ∈ c.allPositions) : p ∈ e.allPositions := by
  cases e with
  | number z => cases hc
  | measurement z u => cases hc
  | ident n => cases hc
  | as_ x t u =>
    simp only [Expr.children, List.mem_singleton] at hc; subst hc
    simp [Expr.allPositions, h]
  | unary op x =>
    simp only [Expr.children, List.mem_singleton] at hc; subst hc
    simp [Expr.allPositions, h]
  | grouping q k x =>
    simp only [Expr.children, List.mem_singleton] at hc; subst hc
    simp [Expr.allPositions, h]
  | binary l op r =>
    simp only [Expr.children, List.mem_cons, List.not_mem_nil, or_false] at hc
    rcases hc with rfl | rfl <;> simp [Expr.allPositions, h]
  | matrix br rows =>
    simp only [Expr.children, List.mem_flatten] at hc
    obtain ⟨row, hrow, hcr⟩ := hc
    simp only [Expr.allPositions, List.mem_cons]
    exact .inr (Expr.mem_rowsPositions hrow (Expr.mem_argsPositions hcr h))
  | call callee q args =>
    simp only [Expr.children, List.mem_cons] at hc
    simp only [Expr.allPositions, List.mem_cons, List.mem_append]
    rcases hc with rfl | hc
    · exact .inr (.inl h)
    · exact .inr (.inr (Expr.mem_argsPositions hc h))

/-- the tokens of the bodies of a function value (a different text than the calling one) -/
def Value.bodyPositions : Value S → List SrcPos
  | .user fn => fn.sigs.flatMap (fun se => se.2.allPositions)
  | _ => []

/-- the tokens of all function bodies stored in a table -/
def EnvPositions (env : Env S) : List SrcPos := env.flatMap (fun kv => kv.2.value.bodyPositions)

/-- every body token of the value is an allowed position -/
def Value.PosIn (P : SrcPos → Prop) (v : Value S) : Prop := ∀ p ∈ v.bodyPositions, P p

def EnvPosIn (P : SrcPos → Prop) (env : Env S) : Prop := ∀ kv ∈ env, kv.2.value.PosIn P

theorem envPosIn_self (env : Env S) : EnvPosIn (· ∈ EnvPositions env) env := by
  intro kv hkv p hp
  exact List.mem_flatMap.mpr ⟨kv, hkv, hp⟩

theorem Value.posIn_of_data {P : SrcPos → Prop} {v : Value S} (h : v.bodyPositions = []) :
    v.PosIn P := by
  intro p hp; rw [h] at hp; cases hp

end Calc
