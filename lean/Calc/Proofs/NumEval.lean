/-
  Calc.Proofs.NumEval — the evaluator agrees with the denotation of number expressions
  (the induction behind `C02_eval_denote`).
-/
import Calc.Spec.Denote
import Calc.Proofs.NumOps
import Calc.Proofs.EvalPure

namespace Calc
open Calc.Spec

/-- the diagnostic kind the program reports for each kind of refusal -/
def Spec.RefusalKind.toEvalErrKind : RefusalKind → EvalErrKind
  | .divisionByZero => .divisionByZero
  | .unaryConstraint => .unaryOperatorValueConstraintNotMet
  | .groupingConstraint => .groupingValueConstraintNotMet
  | .unknownVariable => .unknownVariable

/-- the diagnostic corresponding to a refusal: same kind, same position, and the variable's name
    for an unknown variable -/
def Spec.Refusal.toDiag (r : Refusal) : Diag := ⟨r.kind.toEvalErrKind, r.line, r.col, r.name⟩

/-- the numbers the variables of an environment stand for -/
def lookupNum (env : Env ℂ) (name : Str) : Option ℂ :=
  match Env.get env name with
  | some ⟨.number z, _⟩ => some z
  | _ => none

/-- every variable of `e` that is bound at all is bound to a number -/
def VarsNumeric (e : NExpr) (env : Env ℂ) : Prop :=
  ∀ t ∈ e.vars, ∀ v, Env.get env t.lexeme = some v → ∃ z, v.value = .number z

/-- an outcome of the evaluator agrees with an outcome of the denotation -/
def Agrees (r : Res (Value ℂ)) : Except Stop ℂ → Prop
  | .ok z => r = .ok (.number z)
  | .error (.refused d) => r = .diag d.toDiag
  | .error .overflow => True

theorem truncC_eq (z : ℂ) : truncC z = Spec.trunc z := rfl

theorem binop_agrees (o : BinOp) (op : Tok ℂ) (h : op.tag = o.tag) (x y : ℂ) :
    Agrees (binop op (.number x) (.number y)) (denoteBin o op x y) := by
  cases o
  · exact binop_plus op x y h
  · exact binop_minus op x y h
  · exact binop_star op x y h
  · show Agrees _ (if y = 0 then _ else _)
    rw [binop_slash op x y h]
    by_cases hy : y = 0
    · rw [if_pos hy, if_pos hy]; rfl
    · rw [if_neg hy, if_neg hy]; rfl
  · show Agrees _ (if y = 0 then _ else _)
    rw [binop_percent op x y h]
    by_cases hy : y = 0
    · rw [if_pos hy, if_pos hy]; rfl
    · rw [if_neg hy, if_neg hy]; rfl
  · exact binop_caret op x y h

open Classical in
theorem unop_agrees (o : UnOp) (op : Tok ℂ) (h : op.tag = o.tag) (x : ℂ) :
    Agrees (unop op (.number x)) (denoteUn o op x) := by
  cases o
  · exact unop_minus op x h
  · exact unop_sqrt op x h
  · show Agrees _ (if IsNatural x then (if ⌊x.re⌋₊ ≤ 170 then _ else _) else _)
    by_cases hx : IsNatural x
    · rw [if_pos hx]
      by_cases hb : ⌊x.re⌋₊ ≤ 170
      · rw [if_pos hb]; exact unop_bang_ok op x h hx hb
      · rw [if_neg hb]; trivial
    · rw [if_neg hx]; exact unop_bang_refuse op x h hx

theorem groupop_agrees (g : Grp) (p : Tok ℂ) (x : ℂ) :
    Agrees (groupop p g.kind (.number x)) (denoteGrp g p x) := by
  cases g
  · exact groupop_paren p (.number x)
  · exact groupop_abs p x
  · show Agrees _ (if x.im = 0 then _ else _)
    simp only [Grp.kind]
    rw [groupop_ceil p x]
    by_cases hx : x.im = 0
    · rw [if_pos hx, if_pos hx]; rfl
    · rw [if_neg hx, if_neg hx]; rfl
  · show Agrees _ (if x.im = 0 then _ else _)
    simp only [Grp.kind]
    rw [groupop_floor p x]
    by_cases hx : x.im = 0
    · rw [if_pos hx, if_pos hx]; rfl
    · rw [if_neg hx, if_neg hx]; rfl

theorem lookup_agrees (t : Tok ℂ) (env : Env ℂ)
    (hv : ∀ v, Env.get env t.lexeme = some v → ∃ z, v.value = .number z) :
    Agrees (lookupIdent t env) (denote (.var t) (lookupNum env)) := by
  unfold lookupIdent denote lookupNum
  cases hg : Env.get env t.lexeme with
  | none => rfl
  | some v =>
    obtain ⟨z, hz⟩ := hv v hg
    obtain ⟨val, c⟩ := v
    simp only at hz
    subst hz
    rfl

theorem eval_agrees (e : NExpr) (env : Env ℂ) (hv : VarsNumeric e env) :
    ∀ fuel, e.depth < fuel → Agrees (eval fuel e.toExpr env).res (denote e (lookupNum env)) := by
  induction e with
  | lit z =>
    intro fuel hf
    obtain ⟨f, rfl⟩ := Nat.exists_eq_succ_of_ne_zero (by omega : fuel ≠ 0)
    rfl
  | var t =>
    intro fuel hf
    obtain ⟨f, rfl⟩ := Nat.exists_eq_succ_of_ne_zero (by omega : fuel ≠ 0)
    exact lookup_agrees t env (hv t (by simp [NExpr.vars]))
  | bin o l op h r ihl ihr =>
    intro fuel hf
    obtain ⟨f, rfl⟩ := Nat.exists_eq_succ_of_ne_zero (by omega : fuel ≠ 0)
    simp only [NExpr.depth] at hf
    have hl := ihl (fun t ht => hv t (by simp [NExpr.vars, ht])) f (by omega)
    have hr := ihr (fun t ht => hv t (by simp [NExpr.vars, ht])) f (by omega)
    simp only [NExpr.toExpr, eval, denote]
    rw [eval_env]
    cases hdl : denote l (lookupNum env) with
    | error s =>
      rw [hdl] at hl
      cases s with
      | overflow => trivial
      | refused d =>
        have hl' : (eval f l.toExpr env).res = .diag d.toDiag := hl
        simp only [hl']
        rfl
    | ok a =>
      rw [hdl] at hl
      have hl' : (eval f l.toExpr env).res = .ok (.number a) := hl
      simp only [hl']
      cases hdr : denote r (lookupNum env) with
      | error s =>
        rw [hdr] at hr
        cases s with
        | overflow => trivial
        | refused d =>
          have hr' : (eval f r.toExpr env).res = .diag d.toDiag := hr
          simp only [hr']
          rfl
      | ok b =>
        rw [hdr] at hr
        have hr' : (eval f r.toExpr env).res = .ok (.number b) := hr
        simp only [hr']
        exact binop_agrees o op h a b
  | un o op h x ih =>
    intro fuel hf
    obtain ⟨f, rfl⟩ := Nat.exists_eq_succ_of_ne_zero (by omega : fuel ≠ 0)
    simp only [NExpr.depth] at hf
    have hx := ih (fun t ht => hv t (by simp [NExpr.vars, ht])) f (by omega)
    simp only [NExpr.toExpr, eval, denote]
    cases hd : denote x (lookupNum env) with
    | error s =>
      rw [hd] at hx
      cases s with
      | overflow => trivial
      | refused d =>
        have hx' : (eval f x.toExpr env).res = .diag d.toDiag := hx
        simp only [hx']
        rfl
    | ok a =>
      rw [hd] at hx
      have hx' : (eval f x.toExpr env).res = .ok (.number a) := hx
      simp only [hx']
      exact unop_agrees o op h a
  | grp g p h x ih =>
    intro fuel hf
    obtain ⟨f, rfl⟩ := Nat.exists_eq_succ_of_ne_zero (by omega : fuel ≠ 0)
    simp only [NExpr.depth] at hf
    have hx := ih (fun t ht => hv t (by simp [NExpr.vars, ht])) f (by omega)
    simp only [NExpr.toExpr, eval, denote]
    cases hd : denote x (lookupNum env) with
    | error s =>
      rw [hd] at hx
      cases s with
      | overflow => trivial
      | refused d =>
        have hx' : (eval f x.toExpr env).res = .diag d.toDiag := hx
        simp only [hx']
        rfl
    | ok a =>
      rw [hd] at hx
      have hx' : (eval f x.toExpr env).res = .ok (.number a) := hx
      simp only [hx']
      exact groupop_agrees g p a

/-- `overflow` arises only from a factorial -/
def FactFree : NExpr → Prop
  | .lit _ => True
  | .var _ => True
  | .bin _ l _ _ r => FactFree l ∧ FactFree r
  | .un o _ _ x => o ≠ .fact ∧ FactFree x
  | .grp _ _ _ x => FactFree x

theorem denote_ne_overflow (e : NExpr) (ρ : Str → Option ℂ) (hff : FactFree e) :
    denote e ρ ≠ .error .overflow := by
  induction e with
  | lit z => simp [denote]
  | var t => unfold denote; cases ρ t.lexeme <;> simp [refuseAt]
  | bin o l op h r ihl ihr =>
    have h1 := ihl hff.1
    have h2 := ihr hff.2
    unfold denote
    cases hl : denote l ρ with
    | error s => rw [hl] at h1; simpa using h1
    | ok a =>
      cases hr : denote r ρ with
      | error s => rw [hr] at h2; simpa using h2
      | ok b =>
        cases o <;> simp only [denoteBin, refuseAt] <;> (try split) <;> simp
  | un o op h x ih =>
    have h1 := ih hff.2
    unfold denote
    cases hx : denote x ρ with
    | error s => rw [hx] at h1; simpa using h1
    | ok a =>
      cases o
      · simp [denoteUn]
      · simp [denoteUn]
      · exact absurd rfl hff.1
  | grp g p h x ih =>
    have h1 := ih hff
    unfold denote
    cases hx : denote x ρ with
    | error s => rw [hx] at h1; simpa using h1
    | ok a =>
      cases g <;> simp only [denoteGrp, refuseAt] <;> (try split) <;> simp

end Calc
